package graph

import (
	"bytes"
	"fmt"
	"testing"

	"github.com/google/pprof/profile"
)

var zzaNasty = []string{
	"", "plain", `q"uote`, `back\slash`, "new\nline", `<b>&amp;</b>`, "héllo wörld ✓",
	`\"`, `"\`, "\\\n", "\n\\", `\n`, `\l"`, "a\n\nb\"\"c\\\\", "tab\tcr\r", "bad\xffutf8\"", `trail\`,
	"::ns::fn.method[...]\"x\"",
}

func zzaProfile() *profile.Profile {
	m := &profile.Mapping{ID: 1, Start: 0x1000, Limit: 0x9000, File: "/bin/we\"ird\\obj\nfile"}
	names := []string{`main."quoted"`, "ns::back\\slash", "new\nline<fn>", "héllo.wörld", `tail\`, "plain"}
	var fns []*profile.Function
	var locs []*profile.Location
	for i, n := range names {
		f := &profile.Function{ID: uint64(i + 1), Name: n, SystemName: n, Filename: "/src/dir\"" + fmt.Sprint(i) + "/fi\\le\n" + fmt.Sprint(i) + ".go"}
		fns = append(fns, f)
		locs = append(locs, &profile.Location{ID: uint64(i + 1), Mapping: m, Address: uint64(0x1000 + 0x10*i), Line: []profile.Line{{Function: f, Line: int64(10 + i)}}})
	}
	p := &profile.Profile{
		SampleType: []*profile.ValueType{{Type: "sam\"ples", Unit: "count"}},
		PeriodType: &profile.ValueType{Type: "cpu", Unit: "ms"},
		Mapping:    []*profile.Mapping{m},
		Function:   fns,
		Location:   locs,
	}
	add := func(v int64, lab map[string][]string, num map[string][]int64, unit map[string][]string, ids ...int) {
		s := &profile.Sample{Value: []int64{v}, Label: lab, NumLabel: num, NumUnit: unit}
		for _, id := range ids {
			s.Location = append(s.Location, locs[id])
		}
		p.Sample = append(p.Sample, s)
	}
	add(100, map[string][]string{`k"ey`: {`v\al`, "v\nal2"}}, nil, nil, 0, 1, 2)
	add(70, map[string][]string{"k<e>y": {"ünï"}}, map[string][]int64{"by\"tes": {1024}}, map[string][]string{"by\"tes": {"bytes"}}, 0, 2)
	add(50, nil, map[string][]int64{"n\\um": {7, 9}}, nil, 3, 1, 2)
	add(30, map[string][]string{"a": {`\`}}, nil, nil, 4, 3)
	add(20, nil, nil, nil, 5, 4, 0)
	add(10, map[string][]string{`k"ey`: {`v\al`}}, nil, nil, 5)
	add(5, nil, nil, nil, 1, 1)
	return p
}

func zzaDot(t *testing.T, callTree bool, drop int) string {
	p := zzaProfile()
	o := &Options{
		SampleValue:       func(v []int64) int64 { return v[0] },
		SampleMeanDivisor: nil,
		FormatTag:         func(v int64, u string) string { return fmt.Sprintf("%d%s", v, u) },
		ObjNames:          true,
		CallTree:          callTree,
	}
	g := New(p, o)
	g.SortNodes(true, true)
	if drop >= 0 && drop < len(g.Nodes) {
		// Leave edges to/from a node that is no longer part of the graph.
		g.Nodes = append(append(Nodes{}, g.Nodes[:drop]...), g.Nodes[drop+1:]...)
	}
	var total int64
	for _, n := range g.Nodes {
		total += n.FlatValue()
	}
	a := &DotAttributes{Nodes: map[*Node]*DotNodeAttributes{}}
	if len(g.Nodes) > 1 {
		a.Nodes[g.Nodes[1]] = &DotNodeAttributes{Shape: "folder", Bold: true, Peripheries: 2, URL: `http://x/"?a=\b` + "\n"}
	}
	c := &DotConfig{
		Title:       "ti\"tle\\\nx",
		LegendURL:   `http://leg/"end"`,
		Labels:      []string{`File: "bin"`, "Type: sam\"ples", `Comment \ with` + "\nnewline", "ünï <b>"},
		FormatValue: func(v int64) string { return fmt.Sprintf("%d \"u\\", v) },
		Total:       total,
	}
	var buf bytes.Buffer
	ComposeDot(&buf, g, a, c)
	return buf.String()
}

// Expected values below were computed on the unchanged tree.
var zzaEscapes = []struct{ in, wantEscape, wantLabelTag string }{
	{"", "", ""},
	{"plain", "plain", "plain"},
	{"q\"uote", "q\\\"uote", "q\\\"uote"},
	{"back\\slash", "back\\\\slash", "back\\\\slash"},
	{"new\nline", "new\\lline", "new\\lline"},
	{"<b>&amp;</b>", "<b>&amp;</b>", "<b>&amp;</b>"},
	{"héllo wörld ✓", "héllo wörld ✓", "héllo wörld ✓"},
	{"\\\"", "\\\\\\\"", "\\\\\\\""},
	{"\"\\", "\\\"\\\\", "\\\"\\\\"},
	{"\\\n", "\\\\\\l", "\\\\\\l"},
	{"\n\\", "\\l\\\\", "\\l\\\\"},
	{"\\n", "\\\\n", "\\n"},
	{"\\l\"", "\\\\l\\\"", "\\\\l\\\""},
	{"a\n\nb\"\"c\\\\", "a\\l\\lb\\\"\\\"c\\\\\\\\", "a\\l\\lb\\\"\\\"c\\\\\\\\"},
	{"tab\tcr\r", "tab\tcr\r", "tab\tcr\r"},
	{"bad\xffutf8\"", "bad\xffutf8\\\"", "bad\xffutf8\\\""},
	{"trail\\", "trail\\\\", "trail\\\\"},
	{"::ns::fn.method[...]\"x\"", "::ns::fn.method[...]\\\"x\\\"", "::ns::fn.method[...]\\\"x\\\""},
}

var zzaWantDot = map[string]string{
	"graph":    "digraph \"ti\\\"tle\\\\\\lx\" {\nnode [style=filled fillcolor=\"#f8f8f8\"]\nsubgraph cluster_L { \"File: \\\"bin\\\"\" [shape=box fontsize=16 label=\"File: \\\"bin\\\"\\lType: sam\\\"ples\\lComment \\\\ with\\lnewline\\lünï <b>\\l\" URL=\"http://leg/\\\"end\\\"\" target=\"_blank\" tooltip=\"ti\\\"tle\\\\\\lx\"] }\nN1 [label=\"0000000000001000\\nmain\\n\\\"quoted\\\"\\nfi\\\\le\\l0.go:10\\n170 \\\"u\\\\ (59.65%)\\nof 190 \\\"u\\\\ (66.67%)\" id=\"node1\" fontsize=24 shape=box tooltip=\"0000000000001000 main.\\\"quoted\\\" /src/dir\\\"0/fi\\\\le\\l0.go:10 (190 \\\"u\\\\)\" color=\"#b21400\" fillcolor=\"#edd8d5\"]\nN1_0 [label = \"k\\\"ey:v\\lal2\\nk\\\"ey:v\\\\al\" id=\"N1_0\" fontsize=8 shape=box3d tooltip=\"100 \\\"u\\\\\"]\nN1 -> N1_0 [label=\" 100 \\\"u\\\\\" weight=100 tooltip=\"100 \\\"u\\\\\" labeltooltip=\"100 \\\"u\\\\\"]\nN1_1 [label = \"k<e>y:ünï\" id=\"N1_1\" fontsize=8 shape=box3d tooltip=\"70 \\\"u\\\\\"]\nN1 -> N1_1 [label=\" 70 \\\"u\\\\\" weight=100 tooltip=\"70 \\\"u\\\\\" labeltooltip=\"70 \\\"u\\\\\"]\nNN1_1_0 [label = \"1024bytes\" id=\"NN1_1_0\" fontsize=8 shape=box3d tooltip=\"70 \\\"u\\\\\"]\nN1_1 -> NN1_1_0 [label=\" 70 \\\"u\\\\\" weight=100 tooltip=\"70 \\\"u\\\\\" labeltooltip=\"70 \\\"u\\\\\"]\nN2 [label=\"0000000000001020\\nnew\\lline<fn>\\nfi\\\\le\\l2.go:12\\n0 of 220 \\\"u\\\\ (77.19%)\" id=\"node2\" fontsize=8 shape=folder tooltip=\"0000000000001020 new\\lline<fn> /src/dir\\\"2/fi\\\\le\\l2.go:12 (220 \\\"u\\\\)\" color=\"#b20d00\" fillcolor=\"#edd7d5\" style=\"bold,filled\" peripheries=2 URL=\"http://x/\\\"?a=\\\\b\\l\" target=\"_blank\"]\nN3 [label=\"0000000000001010\\nns\\nback\\\\slash\\nfi\\\\le\\l1.go:11\\n5 \\\"u\\\\ (1.75%)\\nof 155 \\\"u\\\\ (54.39%)\" id=\"node3\" fontsize=11 shape=box tooltip=\"0000000000001010 ns::back\\\\slash /src/dir\\\"1/fi\\\\le\\l1.go:11 (155 \\\"u\\\\)\" color=\"#b21d00\" fillcolor=\"#edd9d5\"]\nN4 [label=\"0000000000001040\\ntail\\\\\\nfi\\\\le\\l4.go:14\\n30 \\\"u\\\\ (10.53%)\\nof 50 \\\"u\\\\ (17.54%)\" id=\"node4\" fontsize=15 shape=box tooltip=\"0000000000001040 tail\\\\ /src/dir\\\"4/fi\\\\le\\l4.go:14 (50 \\\"u\\\\)\" color=\"#b25515\" fillcolor=\"#ede0d8\"]\nN4_0 [label = \"a:\\\\\" id=\"N4_0\" fontsize=8 shape=box3d tooltip=\"30 \\\"u\\\\\"]\nN4 -> N4_0 [label=\" 30 \\\"u\\\\\" weight=100 tooltip=\"30 \\\"u\\\\\" labeltooltip=\"30 \\\"u\\\\\"]\nN5 [label=\"0000000000001030\\nhéllo\\nwörld\\nfi\\\\le\\l3.go:13\\n50 \\\"u\\\\ (17.54%)\\nof 80 \\\"u\\\\ (28.07%)\" id=\"node5\" fontsize=17 shape=box tooltip=\"0000000000001030 héllo.wörld /src/dir\\\"3/fi\\\\le\\l3.go:13 (80 \\\"u\\\\)\" color=\"#b23800\" fillcolor=\"#eddcd5\"]\nNN5_0 [label = \"7n\\\\um\" id=\"NN5_0\" fontsize=8 shape=box3d tooltip=\"50 \\\"u\\\\\"]\nN5 -> NN5_0 [label=\" 50 \\\"u\\\\\" weight=100 tooltip=\"50 \\\"u\\\\\" labeltooltip=\"50 \\\"u\\\\\"]\nNN5_1 [label = \"9n\\\\um\" id=\"NN5_1\" fontsize=8 shape=box3d tooltip=\"50 \\\"u\\\\\"]\nN5 -> NN5_1 [label=\" 50 \\\"u\\\\\" weight=100 tooltip=\"50 \\\"u\\\\\" labeltooltip=\"50 \\\"u\\\\\"]\nN6 [label=\"0000000000001050\\nplain\\nfi\\\\le\\l5.go:15\\n30 \\\"u\\\\ (10.53%)\" id=\"node6\" fontsize=15 shape=box tooltip=\"0000000000001050 plain /src/dir\\\"5/fi\\\\le\\l5.go:15 (30 \\\"u\\\\)\" color=\"#b28254\" fillcolor=\"#ede6e0\"]\nN6_0 [label = \"k\\\"ey:v\\\\al\" id=\"N6_0\" fontsize=8 shape=box3d tooltip=\"10 \\\"u\\\\\"]\nN6 -> N6_0 [label=\" 10 \\\"u\\\\\" weight=100 tooltip=\"10 \\\"u\\\\\" labeltooltip=\"10 \\\"u\\\\\"]\nN2 -> N3 [label=\" 150 \\\"u\\\\\" weight=53 penwidth=3 color=\"#b21f00\" tooltip=\"0000000000001020 new\\lline<fn> /src/dir\\\"2/fi\\\\le\\l2.go:12 -> 0000000000001010 ns::back\\\\slash /src/dir\\\"1/fi\\\\le\\l1.go:11 (150 \\\"u\\\\)\" labeltooltip=\"0000000000001020 new\\lline<fn> /src/dir\\\"2/fi\\\\le\\l2.go:12 -> 0000000000001010 ns::back\\\\slash /src/dir\\\"1/fi\\\\le\\l1.go:11 (150 \\\"u\\\\)\"]\nN3 -> N1 [label=\" 100 \\\"u\\\\\" weight=36 penwidth=2 color=\"#b23000\" tooltip=\"0000000000001010 ns::back\\\\slash /src/dir\\\"1/fi\\\\le\\l1.go:11 -> 0000000000001000 main.\\\"quoted\\\" /src/dir\\\"0/fi\\\\le\\l0.go:10 (100 \\\"u\\\\)\" labeltooltip=\"0000000000001010 ns::back\\\\slash /src/dir\\\"1/fi\\\\le\\l1.go:11 -> 0000000000001000 main.\\\"quoted\\\" /src/dir\\\"0/fi\\\\le\\l0.go:10 (100 \\\"u\\\\)\"]\nN2 -> N1 [label=\" 70 \\\"u\\\\\" weight=25 penwidth=2 color=\"#b23d00\" tooltip=\"0000000000001020 new\\lline<fn> /src/dir\\\"2/fi\\\\le\\l2.go:12 -> 0000000000001000 main.\\\"quoted\\\" /src/dir\\\"0/fi\\\\le\\l0.go:10 (70 \\\"u\\\\)\" labeltooltip=\"0000000000001020 new\\lline<fn> /src/dir\\\"2/fi\\\\le\\l2.go:12 -> 0000000000001000 main.\\\"quoted\\\" /src/dir\\\"0/fi\\\\le\\l0.go:10 (70 \\\"u\\\\)\"]\nN3 -> N5 [label=\" 50 \\\"u\\\\\" weight=18 color=\"#b25515\" tooltip=\"0000000000001010 ns::back\\\\slash /src/dir\\\"1/fi\\\\le\\l1.go:11 -> 0000000000001030 héllo.wörld /src/dir\\\"3/fi\\\\le\\l3.go:13 (50 \\\"u\\\\)\" labeltooltip=\"0000000000001010 ns::back\\\\slash /src/dir\\\"1/fi\\\\le\\l1.go:11 -> 0000000000001030 héllo.wörld /src/dir\\\"3/fi\\\\le\\l3.go:13 (50 \\\"u\\\\)\"]\nN5 -> N4 [label=\" 30 \\\"u\\\\\" weight=11 color=\"#b28254\" tooltip=\"0000000000001030 héllo.wörld /src/dir\\\"3/fi\\\\le\\l3.go:13 -> 0000000000001040 tail\\\\ /src/dir\\\"4/fi\\\\le\\l4.go:14 (30 \\\"u\\\\)\" labeltooltip=\"0000000000001030 héllo.wörld /src/dir\\\"3/fi\\\\le\\l3.go:13 -> 0000000000001040 tail\\\\ /src/dir\\\"4/fi\\\\le\\l4.go:14 (30 \\\"u\\\\)\" minlen=2]\nN1 -> N4 [label=\" 20 \\\"u\\\\\" weight=8 color=\"#b29673\" tooltip=\"0000000000001000 main.\\\"quoted\\\" /src/dir\\\"0/fi\\\\le\\l0.go:10 -> 0000000000001040 tail\\\\ /src/dir\\\"4/fi\\\\le\\l4.go:14 (20 \\\"u\\\\)\" labeltooltip=\"0000000000001000 main.\\\"quoted\\\" /src/dir\\\"0/fi\\\\le\\l0.go:10 -> 0000000000001040 tail\\\\ /src/dir\\\"4/fi\\\\le\\l4.go:14 (20 \\\"u\\\\)\" minlen=2]\nN4 -> N6 [label=\" 20 \\\"u\\\\\" weight=8 color=\"#b29673\" tooltip=\"0000000000001040 tail\\\\ /src/dir\\\"4/fi\\\\le\\l4.go:14 -> 0000000000001050 plain /src/dir\\\"5/fi\\\\le\\l5.go:15 (20 \\\"u\\\\)\" labeltooltip=\"0000000000001040 tail\\\\ /src/dir\\\"4/fi\\\\le\\l4.go:14 -> 0000000000001050 plain /src/dir\\\"5/fi\\\\le\\l5.go:15 (20 \\\"u\\\\)\" minlen=2]\n}\n",
	"tree":     "digraph \"ti\\\"tle\\\\\\lx\" {\nnode [style=filled fillcolor=\"#f8f8f8\"]\nsubgraph cluster_L { \"File: \\\"bin\\\"\" [shape=box fontsize=16 label=\"File: \\\"bin\\\"\\lType: sam\\\"ples\\lComment \\\\ with\\lnewline\\lünï <b>\\l\" URL=\"http://leg/\\\"end\\\"\" target=\"_blank\" tooltip=\"ti\\\"tle\\\\\\lx\"] }\nN1 [label=\"0000000000001020\\nnew\\lline<fn>\\nfi\\\\le\\l2.go:12\\n0 of 220 \\\"u\\\\ (77.19%)\" id=\"node1\" fontsize=8 shape=box tooltip=\"0000000000001020 new\\lline<fn> /src/dir\\\"2/fi\\\\le\\l2.go:12 (220 \\\"u\\\\)\" color=\"#b20d00\" fillcolor=\"#edd7d5\"]\nN2 [label=\"0000000000001000\\nmain\\n\\\"quoted\\\"\\nfi\\\\le\\l0.go:10\\n100 \\\"u\\\\ (35.09%)\" id=\"node2\" fontsize=24 shape=folder tooltip=\"0000000000001000 main.\\\"quoted\\\" /src/dir\\\"0/fi\\\\le\\l0.go:10 (100 \\\"u\\\\)\" color=\"#b23000\" fillcolor=\"#eddbd5\" style=\"bold,filled\" peripheries=2 URL=\"http://x/\\\"?a=\\\\b\\l\" target=\"_blank\"]\nN2_0 [label = \"k\\\"ey:v\\lal2\\nk\\\"ey:v\\\\al\" id=\"N2_0\" fontsize=8 shape=box3d tooltip=\"100 \\\"u\\\\\"]\nN2 -> N2_0 [label=\" 100 \\\"u\\\\\" weight=100 tooltip=\"100 \\\"u\\\\\" labeltooltip=\"100 \\\"u\\\\\"]\nN3 [label=\"0000000000001000\\nmain\\n\\\"quoted\\\"\\nfi\\\\le\\l0.go:10\\n70 \\\"u\\\\ (24.56%)\" id=\"node3\" fontsize=22 shape=box tooltip=\"0000000000001000 main.\\\"quoted\\\" /src/dir\\\"0/fi\\\\le\\l0.go:10 (70 \\\"u\\\\)\" color=\"#b23d00\" fillcolor=\"#edddd5\"]\nN3_0 [label = \"k<e>y:ünï\" id=\"N3_0\" fontsize=8 shape=box3d tooltip=\"70 \\\"u\\\\\"]\nN3 -> N3_0 [label=\" 70 \\\"u\\\\\" weight=100 tooltip=\"70 \\\"u\\\\\" labeltooltip=\"70 \\\"u\\\\\"]\nNN3_0_0 [label = \"1024bytes\" id=\"NN3_0_0\" fontsize=8 shape=box3d tooltip=\"70 \\\"u\\\\\"]\nN3_0 -> NN3_0_0 [label=\" 70 \\\"u\\\\\" weight=100 tooltip=\"70 \\\"u\\\\\" labeltooltip=\"70 \\\"u\\\\\"]\nN4 [label=\"0000000000001010\\nns\\nback\\\\slash\\nfi\\\\le\\l1.go:11\\n0 of 150 \\\"u\\\\ (52.63%)\" id=\"node4\" fontsize=8 shape=box tooltip=\"0000000000001010 ns::back\\\\slash /src/dir\\\"1/fi\\\\le\\l1.go:11 (150 \\\"u\\\\)\" color=\"#b21f00\" fillcolor=\"#edd9d5\"]\nN5 [label=\"0000000000001030\\nhéllo\\nwörld\\nfi\\\\le\\l3.go:13\\n50 \\\"u\\\\ (17.54%)\" id=\"node5\" fontsize=20 shape=box tooltip=\"0000000000001030 héllo.wörld /src/dir\\\"3/fi\\\\le\\l3.go:13 (50 \\\"u\\\\)\" color=\"#b25515\" fillcolor=\"#ede0d8\"]\nNN5_0 [label = \"7n\\\\um\" id=\"NN5_0\" fontsize=8 shape=box3d tooltip=\"50 \\\"u\\\\\"]\nN5 -> NN5_0 [label=\" 50 \\\"u\\\\\" weight=100 tooltip=\"50 \\\"u\\\\\" labeltooltip=\"50 \\\"u\\\\\"]\nNN5_1 [label = \"9n\\\\um\" id=\"NN5_1\" fontsize=8 shape=box3d tooltip=\"50 \\\"u\\\\\"]\nN5 -> NN5_1 [label=\" 50 \\\"u\\\\\" weight=100 tooltip=\"50 \\\"u\\\\\" labeltooltip=\"50 \\\"u\\\\\"]\nN6 [label=\"0000000000001040\\ntail\\\\\\nfi\\\\le\\l4.go:14\\n30 \\\"u\\\\ (10.53%)\" id=\"node6\" fontsize=17 shape=box tooltip=\"0000000000001040 tail\\\\ /src/dir\\\"4/fi\\\\le\\l4.go:14 (30 \\\"u\\\\)\" color=\"#b28254\" fillcolor=\"#ede6e0\"]\nN6_0 [label = \"a:\\\\\" id=\"N6_0\" fontsize=8 shape=box3d tooltip=\"30 \\\"u\\\\\"]\nN6 -> N6_0 [label=\" 30 \\\"u\\\\\" weight=100 tooltip=\"30 \\\"u\\\\\" labeltooltip=\"30 \\\"u\\\\\"]\nN7 [label=\"0000000000001050\\nplain\\nfi\\\\le\\l5.go:15\\n20 \\\"u\\\\ (7.02%)\" id=\"node7\" fontsize=16 shape=box tooltip=\"0000000000001050 plain /src/dir\\\"5/fi\\\\le\\l5.go:15 (20 \\\"u\\\\)\" color=\"#b29673\" fillcolor=\"#ede9e4\"]\nN8 [label=\"0000000000001030\\nhéllo\\nwörld\\nfi\\\\le\\l3.go:13\\n0 of 30 \\\"u\\\\ (10.53%)\" id=\"node8\" fontsize=8 shape=box tooltip=\"0000000000001030 héllo.wörld /src/dir\\\"3/fi\\\\le\\l3.go:13 (30 \\\"u\\\\)\" color=\"#b28254\" fillcolor=\"#ede6e0\"]\nN9 [label=\"0000000000001050\\nplain\\nfi\\\\le\\l5.go:15\\n10 \\\"u\\\\ (3.51%)\" id=\"node9\" fontsize=14 shape=box tooltip=\"0000000000001050 plain /src/dir\\\"5/fi\\\\le\\l5.go:15 (10 \\\"u\\\\)\" color=\"#b2a793\" fillcolor=\"#edebe8\"]\nN9_0 [label = \"k\\\"ey:v\\\\al\" id=\"N9_0\" fontsize=8 shape=box3d tooltip=\"10 \\\"u\\\\\"]\nN9 -> N9_0 [label=\" 10 \\\"u\\\\\" weight=100 tooltip=\"10 \\\"u\\\\\" labeltooltip=\"10 \\\"u\\\\\"]\nN10 [label=\"0000000000001000\\nmain\\n\\\"quoted\\\"\\nfi\\\\le\\l0.go:10\\n0 of 20 \\\"u\\\\ (7.02%)\" id=\"node10\" fontsize=8 shape=box tooltip=\"0000000000001000 main.\\\"quoted\\\" /src/dir\\\"0/fi\\\\le\\l0.go:10 (20 \\\"u\\\\)\" color=\"#b29673\" fillcolor=\"#ede9e4\"]\nN11 [label=\"0000000000001010\\nns\\nback\\\\slash\\nfi\\\\le\\l1.go:11\\n5 \\\"u\\\\ (1.75%)\" id=\"node11\" fontsize=12 shape=box tooltip=\"0000000000001010 ns::back\\\\slash /src/dir\\\"1/fi\\\\le\\l1.go:11 (5 \\\"u\\\\)\" color=\"#b2ada2\" fillcolor=\"#edeceb\"]\nN12 [label=\"0000000000001010\\nns\\nback\\\\slash\\nfi\\\\le\\l1.go:11\\n0 of 5 \\\"u\\\\ (1.75%)\" id=\"node12\" fontsize=8 shape=box tooltip=\"0000000000001010 ns::back\\\\slash /src/dir\\\"1/fi\\\\le\\l1.go:11 (5 \\\"u\\\\)\" color=\"#b2ada2\" fillcolor=\"#edeceb\"]\nN13 [label=\"0000000000001040\\ntail\\\\\\nfi\\\\le\\l4.go:14\\n0 of 20 \\\"u\\\\ (7.02%)\" id=\"node13\" fontsize=8 shape=box tooltip=\"0000000000001040 tail\\\\ /src/dir\\\"4/fi\\\\le\\l4.go:14 (20 \\\"u\\\\)\" color=\"#b29673\" fillcolor=\"#ede9e4\"]\nN1 -> N4 [label=\" 150 \\\"u\\\\\" weight=53 penwidth=3 color=\"#b21f00\" tooltip=\"0000000000001020 new\\lline<fn> /src/dir\\\"2/fi\\\\le\\l2.go:12 -> 0000000000001010 ns::back\\\\slash /src/dir\\\"1/fi\\\\le\\l1.go:11 (150 \\\"u\\\\)\" labeltooltip=\"0000000000001020 new\\lline<fn> /src/dir\\\"2/fi\\\\le\\l2.go:12 -> 0000000000001010 ns::back\\\\slash /src/dir\\\"1/fi\\\\le\\l1.go:11 (150 \\\"u\\\\)\"]\nN4 -> N2 [label=\" 100 \\\"u\\\\\" weight=36 penwidth=2 color=\"#b23000\" tooltip=\"0000000000001010 ns::back\\\\slash /src/dir\\\"1/fi\\\\le\\l1.go:11 -> 0000000000001000 main.\\\"quoted\\\" /src/dir\\\"0/fi\\\\le\\l0.go:10 (100 \\\"u\\\\)\" labeltooltip=\"0000000000001010 ns::back\\\\slash /src/dir\\\"1/fi\\\\le\\l1.go:11 -> 0000000000001000 main.\\\"quoted\\\" /src/dir\\\"0/fi\\\\le\\l0.go:10 (100 \\\"u\\\\)\"]\nN1 -> N3 [label=\" 70 \\\"u\\\\\" weight=25 penwidth=2 color=\"#b23d00\" tooltip=\"0000000000001020 new\\lline<fn> /src/dir\\\"2/fi\\\\le\\l2.go:12 -> 0000000000001000 main.\\\"quoted\\\" /src/dir\\\"0/fi\\\\le\\l0.go:10 (70 \\\"u\\\\)\" labeltooltip=\"0000000000001020 new\\lline<fn> /src/dir\\\"2/fi\\\\le\\l2.go:12 -> 0000000000001000 main.\\\"quoted\\\" /src/dir\\\"0/fi\\\\le\\l0.go:10 (70 \\\"u\\\\)\"]\nN4 -> N5 [label=\" 50 \\\"u\\\\\" weight=18 color=\"#b25515\" tooltip=\"0000000000001010 ns::back\\\\slash /src/dir\\\"1/fi\\\\le\\l1.go:11 -> 0000000000001030 héllo.wörld /src/dir\\\"3/fi\\\\le\\l3.go:13 (50 \\\"u\\\\)\" labeltooltip=\"0000000000001010 ns::back\\\\slash /src/dir\\\"1/fi\\\\le\\l1.go:11 -> 0000000000001030 héllo.wörld /src/dir\\\"3/fi\\\\le\\l3.go:13 (50 \\\"u\\\\)\"]\nN8 -> N6 [label=\" 30 \\\"u\\\\\" weight=11 color=\"#b28254\" tooltip=\"0000000000001030 héllo.wörld /src/dir\\\"3/fi\\\\le\\l3.go:13 -> 0000000000001040 tail\\\\ /src/dir\\\"4/fi\\\\le\\l4.go:14 (30 \\\"u\\\\)\" labeltooltip=\"0000000000001030 héllo.wörld /src/dir\\\"3/fi\\\\le\\l3.go:13 -> 0000000000001040 tail\\\\ /src/dir\\\"4/fi\\\\le\\l4.go:14 (30 \\\"u\\\\)\"]\nN10 -> N13 [label=\" 20 \\\"u\\\\\" weight=8 color=\"#b29673\" tooltip=\"0000000000001000 main.\\\"quoted\\\" /src/dir\\\"0/fi\\\\le\\l0.go:10 -> 0000000000001040 tail\\\\ /src/dir\\\"4/fi\\\\le\\l4.go:14 (20 \\\"u\\\\)\" labeltooltip=\"0000000000001000 main.\\\"quoted\\\" /src/dir\\\"0/fi\\\\le\\l0.go:10 -> 0000000000001040 tail\\\\ /src/dir\\\"4/fi\\\\le\\l4.go:14 (20 \\\"u\\\\)\"]\nN13 -> N7 [label=\" 20 \\\"u\\\\\" weight=8 color=\"#b29673\" tooltip=\"0000000000001040 tail\\\\ /src/dir\\\"4/fi\\\\le\\l4.go:14 -> 0000000000001050 plain /src/dir\\\"5/fi\\\\le\\l5.go:15 (20 \\\"u\\\\)\" labeltooltip=\"0000000000001040 tail\\\\ /src/dir\\\"4/fi\\\\le\\l4.go:14 -> 0000000000001050 plain /src/dir\\\"5/fi\\\\le\\l5.go:15 (20 \\\"u\\\\)\"]\nN12 -> N11 [label=\" 5 \\\"u\\\\\" weight=2 color=\"#b2ada2\" tooltip=\"0000000000001010 ns::back\\\\slash /src/dir\\\"1/fi\\\\le\\l1.go:11 -> 0000000000001010 ns::back\\\\slash /src/dir\\\"1/fi\\\\le\\l1.go:11 (5 \\\"u\\\\)\" labeltooltip=\"0000000000001010 ns::back\\\\slash /src/dir\\\"1/fi\\\\le\\l1.go:11 -> 0000000000001010 ns::back\\\\slash /src/dir\\\"1/fi\\\\le\\l1.go:11 (5 \\\"u\\\\)\"]\n}\n",
	"drop":     "digraph \"ti\\\"tle\\\\\\lx\" {\nnode [style=filled fillcolor=\"#f8f8f8\"]\nsubgraph cluster_L { \"File: \\\"bin\\\"\" [shape=box fontsize=16 label=\"File: \\\"bin\\\"\\lType: sam\\\"ples\\lComment \\\\ with\\lnewline\\lünï <b>\\l\" URL=\"http://leg/\\\"end\\\"\" target=\"_blank\" tooltip=\"ti\\\"tle\\\\\\lx\"] }\nN1 [label=\"0000000000001000\\nmain\\n\\\"quoted\\\"\\nfi\\\\le\\l0.go:10\\n170 \\\"u\\\\ (60.71%)\\nof 190 \\\"u\\\\ (67.86%)\" id=\"node1\" fontsize=24 shape=box tooltip=\"0000000000001000 main.\\\"quoted\\\" /src/dir\\\"0/fi\\\\le\\l0.go:10 (190 \\\"u\\\\)\" color=\"#b21300\" fillcolor=\"#edd8d5\"]\nN1_0 [label = \"k\\\"ey:v\\lal2\\nk\\\"ey:v\\\\al\" id=\"N1_0\" fontsize=8 shape=box3d tooltip=\"100 \\\"u\\\\\"]\nN1 -> N1_0 [label=\" 100 \\\"u\\\\\" weight=100 tooltip=\"100 \\\"u\\\\\" labeltooltip=\"100 \\\"u\\\\\"]\nN1_1 [label = \"k<e>y:ünï\" id=\"N1_1\" fontsize=8 shape=box3d tooltip=\"70 \\\"u\\\\\"]\nN1 -> N1_1 [label=\" 70 \\\"u\\\\\" weight=100 tooltip=\"70 \\\"u\\\\\" labeltooltip=\"70 \\\"u\\\\\"]\nNN1_1_0 [label = \"1024bytes\" id=\"NN1_1_0\" fontsize=8 shape=box3d tooltip=\"70 \\\"u\\\\\"]\nN1_1 -> NN1_1_0 [label=\" 70 \\\"u\\\\\" weight=100 tooltip=\"70 \\\"u\\\\\" labeltooltip=\"70 \\\"u\\\\\"]\nN2 [label=\"0000000000001020\\nnew\\lline<fn>\\nfi\\\\le\\l2.go:12\\n0 of 220 \\\"u\\\\ (78.57%)\" id=\"node2\" fontsize=8 shape=folder tooltip=\"0000000000001020 new\\lline<fn> /src/dir\\\"2/fi\\\\le\\l2.go:12 (220 \\\"u\\\\)\" color=\"#b20c00\" fillcolor=\"#edd7d5\" style=\"bold,filled\" peripheries=2 URL=\"http://x/\\\"?a=\\\\b\\l\" target=\"_blank\"]\nN3 [label=\"0000000000001040\\ntail\\\\\\nfi\\\\le\\l4.go:14\\n30 \\\"u\\\\ (10.71%)\\nof 50 \\\"u\\\\ (17.86%)\" id=\"node3\" fontsize=15 shape=box tooltip=\"0000000000001040 tail\\\\ /src/dir\\\"4/fi\\\\le\\l4.go:14 (50 \\\"u\\\\)\" color=\"#b25313\" fillcolor=\"#ede0d7\"]\nN3_0 [label = \"a:\\\\\" id=\"N3_0\" fontsize=8 shape=box3d tooltip=\"30 \\\"u\\\\\"]\nN3 -> N3_0 [label=\" 30 \\\"u\\\\\" weight=100 tooltip=\"30 \\\"u\\\\\" labeltooltip=\"30 \\\"u\\\\\"]\nN4 [label=\"0000000000001030\\nhéllo\\nwörld\\nfi\\\\le\\l3.go:13\\n50 \\\"u\\\\ (17.86%)\\nof 80 \\\"u\\\\ (28.57%)\" id=\"node4\" fontsize=17 shape=box tooltip=\"0000000000001030 héllo.wörld /src/dir\\\"3/fi\\\\le\\l3.go:13 (80 \\\"u\\\\)\" color=\"#b23700\" fillcolor=\"#eddcd5\"]\nNN4_0 [label = \"7n\\\\um\" id=\"NN4_0\" fontsize=8 shape=box3d tooltip=\"50 \\\"u\\\\\"]\nN4 -> NN4_0 [label=\" 50 \\\"u\\\\\" weight=100 tooltip=\"50 \\\"u\\\\\" labeltooltip=\"50 \\\"u\\\\\"]\nNN4_1 [label = \"9n\\\\um\" id=\"NN4_1\" fontsize=8 shape=box3d tooltip=\"50 \\\"u\\\\\"]\nN4 -> NN4_1 [label=\" 50 \\\"u\\\\\" weight=100 tooltip=\"50 \\\"u\\\\\" labeltooltip=\"50 \\\"u\\\\\"]\nN5 [label=\"0000000000001050\\nplain\\nfi\\\\le\\l5.go:15\\n30 \\\"u\\\\ (10.71%)\" id=\"node5\" fontsize=15 shape=box tooltip=\"0000000000001050 plain /src/dir\\\"5/fi\\\\le\\l5.go:15 (30 \\\"u\\\\)\" color=\"#b28152\" fillcolor=\"#ede6e0\"]\nN5_0 [label = \"k\\\"ey:v\\\\al\" id=\"N5_0\" fontsize=8 shape=box3d tooltip=\"10 \\\"u\\\\\"]\nN5 -> N5_0 [label=\" 10 \\\"u\\\\\" weight=100 tooltip=\"10 \\\"u\\\\\" labeltooltip=\"10 \\\"u\\\\\"]\nN2 -> N1 [label=\" 70 \\\"u\\\\\" weight=26 penwidth=2 color=\"#b23c00\" tooltip=\"0000000000001020 new\\lline<fn> /src/dir\\\"2/fi\\\\le\\l2.go:12 -> 0000000000001000 main.\\\"quoted\\\" /src/dir\\\"0/fi\\\\le\\l0.go:10 (70 \\\"u\\\\)\" labeltooltip=\"0000000000001020 new\\lline<fn> /src/dir\\\"2/fi\\\\le\\l2.go:12 -> 0000000000001000 main.\\\"quoted\\\" /src/dir\\\"0/fi\\\\le\\l0.go:10 (70 \\\"u\\\\)\"]\nN4 -> N3 [label=\" 30 \\\"u\\\\\" weight=11 color=\"#b28152\" tooltip=\"0000000000001030 héllo.wörld /src/dir\\\"3/fi\\\\le\\l3.go:13 -> 0000000000001040 tail\\\\ /src/dir\\\"4/fi\\\\le\\l4.go:14 (30 \\\"u\\\\)\" labeltooltip=\"0000000000001030 héllo.wörld /src/dir\\\"3/fi\\\\le\\l3.go:13 -> 0000000000001040 tail\\\\ /src/dir\\\"4/fi\\\\le\\l4.go:14 (30 \\\"u\\\\)\" minlen=2]\nN1 -> N3 [label=\" 20 \\\"u\\\\\" weight=8 color=\"#b29572\" tooltip=\"0000000000001000 main.\\\"quoted\\\" /src/dir\\\"0/fi\\\\le\\l0.go:10 -> 0000000000001040 tail\\\\ /src/dir\\\"4/fi\\\\le\\l4.go:14 (20 \\\"u\\\\)\" labeltooltip=\"0000000000001000 main.\\\"quoted\\\" /src/dir\\\"0/fi\\\\le\\l0.go:10 -> 0000000000001040 tail\\\\ /src/dir\\\"4/fi\\\\le\\l4.go:14 (20 \\\"u\\\\)\" minlen=2]\nN3 -> N5 [label=\" 20 \\\"u\\\\\" weight=8 color=\"#b29572\" tooltip=\"0000000000001040 tail\\\\ /src/dir\\\"4/fi\\\\le\\l4.go:14 -> 0000000000001050 plain /src/dir\\\"5/fi\\\\le\\l5.go:15 (20 \\\"u\\\\)\" labeltooltip=\"0000000000001040 tail\\\\ /src/dir\\\"4/fi\\\\le\\l4.go:14 -> 0000000000001050 plain /src/dir\\\"5/fi\\\\le\\l5.go:15 (20 \\\"u\\\\)\" minlen=2]\n}\n",
	"treedrop": "digraph \"ti\\\"tle\\\\\\lx\" {\nnode [style=filled fillcolor=\"#f8f8f8\"]\nsubgraph cluster_L { \"File: \\\"bin\\\"\" [shape=box fontsize=16 label=\"File: \\\"bin\\\"\\lType: sam\\\"ples\\lComment \\\\ with\\lnewline\\lünï <b>\\l\" URL=\"http://leg/\\\"end\\\"\" target=\"_blank\" tooltip=\"ti\\\"tle\\\\\\lx\"] }\nN1 [label=\"0000000000001000\\nmain\\n\\\"quoted\\\"\\nfi\\\\le\\l0.go:10\\n100 \\\"u\\\\ (35.09%)\" id=\"node1\" fontsize=24 shape=box tooltip=\"0000000000001000 main.\\\"quoted\\\" /src/dir\\\"0/fi\\\\le\\l0.go:10 (100 \\\"u\\\\)\" color=\"#b23000\" fillcolor=\"#eddbd5\"]\nN1_0 [label = \"k\\\"ey:v\\lal2\\nk\\\"ey:v\\\\al\" id=\"N1_0\" fontsize=8 shape=box3d tooltip=\"100 \\\"u\\\\\"]\nN1 -> N1_0 [label=\" 100 \\\"u\\\\\" weight=100 tooltip=\"100 \\\"u\\\\\" labeltooltip=\"100 \\\"u\\\\\"]\nN2 [label=\"0000000000001000\\nmain\\n\\\"quoted\\\"\\nfi\\\\le\\l0.go:10\\n70 \\\"u\\\\ (24.56%)\" id=\"node2\" fontsize=22 shape=folder tooltip=\"0000000000001000 main.\\\"quoted\\\" /src/dir\\\"0/fi\\\\le\\l0.go:10 (70 \\\"u\\\\)\" color=\"#b23d00\" fillcolor=\"#edddd5\" style=\"bold,filled\" peripheries=2 URL=\"http://x/\\\"?a=\\\\b\\l\" target=\"_blank\"]\nN2_0 [label = \"k<e>y:ünï\" id=\"N2_0\" fontsize=8 shape=box3d tooltip=\"70 \\\"u\\\\\"]\nN2 -> N2_0 [label=\" 70 \\\"u\\\\\" weight=100 tooltip=\"70 \\\"u\\\\\" labeltooltip=\"70 \\\"u\\\\\"]\nNN2_0_0 [label = \"1024bytes\" id=\"NN2_0_0\" fontsize=8 shape=box3d tooltip=\"70 \\\"u\\\\\"]\nN2_0 -> NN2_0_0 [label=\" 70 \\\"u\\\\\" weight=100 tooltip=\"70 \\\"u\\\\\" labeltooltip=\"70 \\\"u\\\\\"]\nN3 [label=\"0000000000001010\\nns\\nback\\\\slash\\nfi\\\\le\\l1.go:11\\n0 of 150 \\\"u\\\\ (52.63%)\" id=\"node3\" fontsize=8 shape=box tooltip=\"0000000000001010 ns::back\\\\slash /src/dir\\\"1/fi\\\\le\\l1.go:11 (150 \\\"u\\\\)\" color=\"#b21f00\" fillcolor=\"#edd9d5\"]\nN4 [label=\"0000000000001030\\nhéllo\\nwörld\\nfi\\\\le\\l3.go:13\\n50 \\\"u\\\\ (17.54%)\" id=\"node4\" fontsize=20 shape=box tooltip=\"0000000000001030 héllo.wörld /src/dir\\\"3/fi\\\\le\\l3.go:13 (50 \\\"u\\\\)\" color=\"#b25515\" fillcolor=\"#ede0d8\"]\nNN4_0 [label = \"7n\\\\um\" id=\"NN4_0\" fontsize=8 shape=box3d tooltip=\"50 \\\"u\\\\\"]\nN4 -> NN4_0 [label=\" 50 \\\"u\\\\\" weight=100 tooltip=\"50 \\\"u\\\\\" labeltooltip=\"50 \\\"u\\\\\"]\nNN4_1 [label = \"9n\\\\um\" id=\"NN4_1\" fontsize=8 shape=box3d tooltip=\"50 \\\"u\\\\\"]\nN4 -> NN4_1 [label=\" 50 \\\"u\\\\\" weight=100 tooltip=\"50 \\\"u\\\\\" labeltooltip=\"50 \\\"u\\\\\"]\nN5 [label=\"0000000000001040\\ntail\\\\\\nfi\\\\le\\l4.go:14\\n30 \\\"u\\\\ (10.53%)\" id=\"node5\" fontsize=17 shape=box tooltip=\"0000000000001040 tail\\\\ /src/dir\\\"4/fi\\\\le\\l4.go:14 (30 \\\"u\\\\)\" color=\"#b28254\" fillcolor=\"#ede6e0\"]\nN5_0 [label = \"a:\\\\\" id=\"N5_0\" fontsize=8 shape=box3d tooltip=\"30 \\\"u\\\\\"]\nN5 -> N5_0 [label=\" 30 \\\"u\\\\\" weight=100 tooltip=\"30 \\\"u\\\\\" labeltooltip=\"30 \\\"u\\\\\"]\nN6 [label=\"0000000000001050\\nplain\\nfi\\\\le\\l5.go:15\\n20 \\\"u\\\\ (7.02%)\" id=\"node6\" fontsize=16 shape=box tooltip=\"0000000000001050 plain /src/dir\\\"5/fi\\\\le\\l5.go:15 (20 \\\"u\\\\)\" color=\"#b29673\" fillcolor=\"#ede9e4\"]\nN7 [label=\"0000000000001030\\nhéllo\\nwörld\\nfi\\\\le\\l3.go:13\\n0 of 30 \\\"u\\\\ (10.53%)\" id=\"node7\" fontsize=8 shape=box tooltip=\"0000000000001030 héllo.wörld /src/dir\\\"3/fi\\\\le\\l3.go:13 (30 \\\"u\\\\)\" color=\"#b28254\" fillcolor=\"#ede6e0\"]\nN8 [label=\"0000000000001050\\nplain\\nfi\\\\le\\l5.go:15\\n10 \\\"u\\\\ (3.51%)\" id=\"node8\" fontsize=14 shape=box tooltip=\"0000000000001050 plain /src/dir\\\"5/fi\\\\le\\l5.go:15 (10 \\\"u\\\\)\" color=\"#b2a793\" fillcolor=\"#edebe8\"]\nN8_0 [label = \"k\\\"ey:v\\\\al\" id=\"N8_0\" fontsize=8 shape=box3d tooltip=\"10 \\\"u\\\\\"]\nN8 -> N8_0 [label=\" 10 \\\"u\\\\\" weight=100 tooltip=\"10 \\\"u\\\\\" labeltooltip=\"10 \\\"u\\\\\"]\nN9 [label=\"0000000000001000\\nmain\\n\\\"quoted\\\"\\nfi\\\\le\\l0.go:10\\n0 of 20 \\\"u\\\\ (7.02%)\" id=\"node9\" fontsize=8 shape=box tooltip=\"0000000000001000 main.\\\"quoted\\\" /src/dir\\\"0/fi\\\\le\\l0.go:10 (20 \\\"u\\\\)\" color=\"#b29673\" fillcolor=\"#ede9e4\"]\nN10 [label=\"0000000000001010\\nns\\nback\\\\slash\\nfi\\\\le\\l1.go:11\\n5 \\\"u\\\\ (1.75%)\" id=\"node10\" fontsize=12 shape=box tooltip=\"0000000000001010 ns::back\\\\slash /src/dir\\\"1/fi\\\\le\\l1.go:11 (5 \\\"u\\\\)\" color=\"#b2ada2\" fillcolor=\"#edeceb\"]\nN11 [label=\"0000000000001010\\nns\\nback\\\\slash\\nfi\\\\le\\l1.go:11\\n0 of 5 \\\"u\\\\ (1.75%)\" id=\"node11\" fontsize=8 shape=box tooltip=\"0000000000001010 ns::back\\\\slash /src/dir\\\"1/fi\\\\le\\l1.go:11 (5 \\\"u\\\\)\" color=\"#b2ada2\" fillcolor=\"#edeceb\"]\nN12 [label=\"0000000000001040\\ntail\\\\\\nfi\\\\le\\l4.go:14\\n0 of 20 \\\"u\\\\ (7.02%)\" id=\"node12\" fontsize=8 shape=box tooltip=\"0000000000001040 tail\\\\ /src/dir\\\"4/fi\\\\le\\l4.go:14 (20 \\\"u\\\\)\" color=\"#b29673\" fillcolor=\"#ede9e4\"]\nN3 -> N1 [label=\" 100 \\\"u\\\\\" weight=36 penwidth=2 color=\"#b23000\" tooltip=\"0000000000001010 ns::back\\\\slash /src/dir\\\"1/fi\\\\le\\l1.go:11 -> 0000000000001000 main.\\\"quoted\\\" /src/dir\\\"0/fi\\\\le\\l0.go:10 (100 \\\"u\\\\)\" labeltooltip=\"0000000000001010 ns::back\\\\slash /src/dir\\\"1/fi\\\\le\\l1.go:11 -> 0000000000001000 main.\\\"quoted\\\" /src/dir\\\"0/fi\\\\le\\l0.go:10 (100 \\\"u\\\\)\"]\nN3 -> N4 [label=\" 50 \\\"u\\\\\" weight=18 color=\"#b25515\" tooltip=\"0000000000001010 ns::back\\\\slash /src/dir\\\"1/fi\\\\le\\l1.go:11 -> 0000000000001030 héllo.wörld /src/dir\\\"3/fi\\\\le\\l3.go:13 (50 \\\"u\\\\)\" labeltooltip=\"0000000000001010 ns::back\\\\slash /src/dir\\\"1/fi\\\\le\\l1.go:11 -> 0000000000001030 héllo.wörld /src/dir\\\"3/fi\\\\le\\l3.go:13 (50 \\\"u\\\\)\"]\nN7 -> N5 [label=\" 30 \\\"u\\\\\" weight=11 color=\"#b28254\" tooltip=\"0000000000001030 héllo.wörld /src/dir\\\"3/fi\\\\le\\l3.go:13 -> 0000000000001040 tail\\\\ /src/dir\\\"4/fi\\\\le\\l4.go:14 (30 \\\"u\\\\)\" labeltooltip=\"0000000000001030 héllo.wörld /src/dir\\\"3/fi\\\\le\\l3.go:13 -> 0000000000001040 tail\\\\ /src/dir\\\"4/fi\\\\le\\l4.go:14 (30 \\\"u\\\\)\"]\nN9 -> N12 [label=\" 20 \\\"u\\\\\" weight=8 color=\"#b29673\" tooltip=\"0000000000001000 main.\\\"quoted\\\" /src/dir\\\"0/fi\\\\le\\l0.go:10 -> 0000000000001040 tail\\\\ /src/dir\\\"4/fi\\\\le\\l4.go:14 (20 \\\"u\\\\)\" labeltooltip=\"0000000000001000 main.\\\"quoted\\\" /src/dir\\\"0/fi\\\\le\\l0.go:10 -> 0000000000001040 tail\\\\ /src/dir\\\"4/fi\\\\le\\l4.go:14 (20 \\\"u\\\\)\"]\nN12 -> N6 [label=\" 20 \\\"u\\\\\" weight=8 color=\"#b29673\" tooltip=\"0000000000001040 tail\\\\ /src/dir\\\"4/fi\\\\le\\l4.go:14 -> 0000000000001050 plain /src/dir\\\"5/fi\\\\le\\l5.go:15 (20 \\\"u\\\\)\" labeltooltip=\"0000000000001040 tail\\\\ /src/dir\\\"4/fi\\\\le\\l4.go:14 -> 0000000000001050 plain /src/dir\\\"5/fi\\\\le\\l5.go:15 (20 \\\"u\\\\)\"]\nN11 -> N10 [label=\" 5 \\\"u\\\\\" weight=2 color=\"#b2ada2\" tooltip=\"0000000000001010 ns::back\\\\slash /src/dir\\\"1/fi\\\\le\\l1.go:11 -> 0000000000001010 ns::back\\\\slash /src/dir\\\"1/fi\\\\le\\l1.go:11 (5 \\\"u\\\\)\" labeltooltip=\"0000000000001010 ns::back\\\\slash /src/dir\\\"1/fi\\\\le\\l1.go:11 -> 0000000000001010 ns::back\\\\slash /src/dir\\\"1/fi\\\\le\\l1.go:11 (5 \\\"u\\\\)\"]\n}\n",
}

func TestZZEquivA(t *testing.T) {
	var ins, wants []string
	for _, tc := range zzaEscapes {
		if got := escapeForDot(tc.in); got != tc.wantEscape {
			t.Errorf("escapeForDot(%q) = %q, want %q", tc.in, got, tc.wantEscape)
		}
		if got := escapeLabelTagForDot(tc.in); got != tc.wantLabelTag {
			t.Errorf("escapeLabelTagForDot(%q) = %q, want %q", tc.in, got, tc.wantLabelTag)
		}
		ins, wants = append(ins, tc.in), append(wants, tc.wantEscape)
	}
	if got := escapeAllForDot(ins); fmt.Sprintf("%q", got) != fmt.Sprintf("%q", wants) {
		t.Errorf("escapeAllForDot = %q, want %q", got, wants)
	}
	if got := escapeAllForDot(nil); got == nil || len(got) != 0 {
		t.Errorf("escapeAllForDot(nil) = %#v, want empty non-nil slice", got)
	}
	// Pseudo-random strings over the DOT metacharacters, checked against the
	// documented definition (escape backslash, then quote, then newline -> \l).
	alphabet := []string{`\`, `"`, "\n", "l", "n", "a", "é", "<", "\xff"}
	seed := uint32(12345)
	for i := 0; i < 2000; i++ {
		var sb, want bytes.Buffer
		seed = seed*1664525 + 1013904223
		for n, r := int(seed>>28), seed; n > 0; n-- {
			r = r*1664525 + 1013904223
			c := alphabet[int(r>>16)%len(alphabet)]
			sb.WriteString(c)
			switch c {
			case `\`:
				want.WriteString(`\\`)
			case `"`:
				want.WriteString(`\"`)
			case "\n":
				want.WriteString(`\l`)
			default:
				want.WriteString(c)
			}
		}
		if got := escapeForDot(sb.String()); got != want.String() {
			t.Fatalf("escapeForDot(%q) = %q, want %q", sb.String(), got, want.String())
		}
	}
	for name, want := range zzaWantDot {
		var got string
		switch name {
		case "graph":
			got = zzaDot(t, false, -1)
		case "tree":
			got = zzaDot(t, true, -1)
		case "drop":
			got = zzaDot(t, false, 2)
		case "treedrop":
			got = zzaDot(t, true, 0)
		}
		if got != want {
			t.Errorf("ComposeDot %s output differs from the unchanged tree:\n got %q\nwant %q", name, got, want)
		}
	}
}
