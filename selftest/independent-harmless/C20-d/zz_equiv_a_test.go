package binutils

import (
	"fmt"
	"os"
	"path/filepath"
	"runtime"
	"strings"
	"sync"
	"testing"
)

// zzFakeTools creates a directory holding executable stand-ins for the tools
// Binutils looks for, so that tool discovery is independent of the host.
func zzFakeTools(t *testing.T, dir string, names ...string) {
	t.Helper()
	if err := os.MkdirAll(dir, 0o755); err != nil {
		t.Fatal(err)
	}
	for _, n := range names {
		script := "#!/bin/sh\nexit 0\n"
		if n == "objdump" {
			script = "#!/bin/sh\necho 'GNU objdump (fake) 2.40'\n"
		}
		if err := os.WriteFile(filepath.Join(dir, n), []byte(script), 0o755); err != nil {
			t.Fatal(err)
		}
	}
}

const zzGoldenA = `fresh: llvm-symbolizer="" addr2line="$A/addr2line" nm="$A/nm" objdump="$A/objdump" fast=false
fast-on-nil: llvm-symbolizer="" addr2line="$A/addr2line" nm="$A/nm" objdump="$A/objdump" fast=true
step1: llvm-symbolizer="$C/llvm-symbolizer" addr2line="$B/addr2line" nm="$C/nm" objdump="" fast=false
step2: llvm-symbolizer="$C/llvm-symbolizer" addr2line="$B/addr2line" nm="$C/nm" objdump="" fast=true
step3: llvm-symbolizer="" addr2line="$B/addr2line" nm="" objdump="" fast=true
step4: llvm-symbolizer="" addr2line="$B/addr2line" nm="" objdump="" fast=false
snapshot-unchanged: fast=false addr2line=$A/addr2line
get-stable: true replaced: true
objaddr-good: 400400 <nil> | 400400 <nil> | 400410 <nil>
objaddr-bad-first: 0 true | 0 true same-error: true
sourceline-file: [] <nil>
sourceline-bad: nm=true a2l=true base=true
`

func TestZZEquivA(t *testing.T) {
	if runtime.GOOS != "linux" {
		t.Skip("linux only")
	}
	tmp := t.TempDir()
	a, b, c := filepath.Join(tmp, "A"), filepath.Join(tmp, "B"), filepath.Join(tmp, "C")
	zzFakeTools(t, a, "addr2line", "nm", "objdump")
	zzFakeTools(t, b, "addr2line")
	zzFakeTools(t, c, "llvm-symbolizer", "nm")
	t.Setenv("PATH", a)

	var out strings.Builder
	norm := func(s string) string {
		s = strings.ReplaceAll(s, a, "$A")
		s = strings.ReplaceAll(s, b, "$B")
		return strings.ReplaceAll(s, c, "$C")
	}
	pr := func(format string, args ...interface{}) {
		out.WriteString(norm(fmt.Sprintf(format, args...)))
	}

	// Lazy initialization through get().
	bu := &Binutils{}
	pr("fresh: %s\n", bu.String())

	// Lazy initialization through update().
	bu = &Binutils{}
	bu.SetFastSymbolization(true)
	pr("fast-on-nil: %s\n", bu.String())

	// A chain of updates; each builds on the previous state.
	bu = &Binutils{}
	bu.SetTools("addr2line:" + b + "," + c)
	pr("step1: %s\n", bu.String())
	bu.SetFastSymbolization(true)
	pr("step2: %s\n", bu.String())
	bu.SetTools(b)
	pr("step3: %s\n", bu.String())
	bu.SetFastSymbolization(false)
	pr("step4: %s\n", bu.String())

	// A rep handed out earlier is never modified by later updates.
	bu = &Binutils{}
	snap := bu.get()
	bu.SetFastSymbolization(true)
	bu.SetTools(b)
	pr("snapshot-unchanged: fast=%t addr2line=%s\n", snap.fast, snap.addr2line)
	pr("get-stable: %t replaced: %t\n", bu.get() == bu.get(), bu.get() != snap)

	// Concurrent readers and writers: every observed state must be one of the
	// states reachable by running the same operations one at a time.
	bu = &Binutils{}
	bu.SetTools(b)
	allowed := map[string]bool{}
	for _, tools := range []string{b, c} {
		for _, fast := range []bool{false, true} {
			x := &Binutils{}
			x.SetTools(tools)
			x.SetFastSymbolization(fast)
			allowed[x.String()] = true
		}
	}
	var wg sync.WaitGroup
	errs := make(chan string, 1000)
	for g := 0; g < 8; g++ {
		wg.Add(1)
		go func(g int) {
			defer wg.Done()
			for i := 0; i < 20; i++ {
				switch (g + i) % 4 {
				case 0:
					bu.SetFastSymbolization(i%2 == 0)
				case 1:
					if i%2 == 0 {
						bu.SetTools(b)
					} else {
						bu.SetTools(c)
					}
				default:
					if s := bu.String(); !allowed[s] {
						errs <- s
					}
				}
			}
		}(g)
	}
	wg.Wait()
	close(errs)
	for e := range errs {
		t.Errorf("state not reachable sequentially: %s", norm(e))
	}
	bu.SetTools(c)
	bu.SetFastSymbolization(true)
	x := &Binutils{}
	x.SetTools(c)
	x.SetFastSymbolization(true)
	if bu.String() != x.String() {
		t.Errorf("final state %s, want %s", norm(bu.String()), norm(x.String()))
	}

	// The relocation base is computed once, from the first address, even when
	// ObjAddr is first called from many goroutines.
	exe := filepath.Join("testdata", "exe_linux_64")
	rep := &binrep{}
	o, err := rep.openELF(exe, 0x5400000, 0x5401000, 0, "")
	if err != nil {
		t.Fatal(err)
	}
	res := make([]string, 8)
	for g := range res {
		wg.Add(1)
		go func(g int) {
			defer wg.Done()
			got, err := o.ObjAddr(0x5400400)
			res[g] = fmt.Sprintf("%x %v", got, err)
		}(g)
	}
	wg.Wait()
	for _, r := range res[1:] {
		if r != res[0] {
			t.Errorf("concurrent ObjAddr results differ: %q vs %q", r, res[0])
		}
	}
	g2, e2 := o.ObjAddr(0x5400400)
	g3, e3 := o.ObjAddr(0x5400410)
	pr("objaddr-good: %s | %x %v | %x %v\n", res[0], g2, e2, g3, e3)

	// A failure of the first computation is remembered.
	o, err = rep.openELF(exe, 0x5400000, 0x5401000, 0, "")
	if err != nil {
		t.Fatal(err)
	}
	g1, e1 := o.ObjAddr(0x5400800)
	g2, e2 = o.ObjAddr(0x5400400)
	pr("objaddr-bad-first: %x %t | %x %t same-error: %t\n", g1, e1 != nil, g2, e2 != nil, e1 == e2)

	// SourceLine of the three file kinds reports the base error.
	plain := &file{b: rep, name: exe}
	fr, err := plain.SourceLine(0x5400400)
	pr("sourceline-file: %v %v\n", fr, err)
	m := &elfMapping{start: 0x5400000, limit: 0x5401000}
	fnm := &fileNM{file: file{b: rep, name: exe, m: m}}
	fal := &fileAddr2Line{file: file{b: rep, name: exe, m: m}}
	fb := &file{b: rep, name: exe, m: m}
	_, enm := fnm.SourceLine(0x5400800)
	_, eal := fal.SourceLine(0x5400800)
	_, efb := fb.SourceLine(0x5400800)
	want := "failed to find program header for file"
	pr("sourceline-bad: nm=%t a2l=%t base=%t\n",
		enm != nil && strings.Contains(enm.Error(), want),
		eal != nil && strings.Contains(eal.Error(), want),
		efb != nil && strings.Contains(efb.Error(), want))

	if got := out.String(); got != zzGoldenA {
		t.Errorf("transcript differs\n--- got ---\n%s--- want ---\n%s", got, zzGoldenA)
	}
}
