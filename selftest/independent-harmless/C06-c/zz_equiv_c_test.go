package driver

// Equivalence demonstration for change C (the regular expression that
// tokenises numeric tag filters is replaced by a hand-written scanner).
// Passes with and without the change: parseTagFilterRange and
// compileTagFilter are compared against hard-coded results computed on the
// unchanged tree and against a verbatim copy of the unchanged implementation
// on a large set of generated filter strings.

import (
	"fmt"
	"math/rand"
	"regexp"
	"strconv"
	"strings"
	"testing"

	"github.com/google/pprof/internal/measurement"
	"github.com/google/pprof/internal/proftest"
	"github.com/google/pprof/profile"
)

var zzcRangeRx = regexp.MustCompile("([+-]?[[:digit:]]+)([[:alpha:]]+)?")

// zzcRefParseTagFilterRange is a verbatim copy of the unchanged implementation.
func zzcRefParseTagFilterRange(filter string) (func(int64, string) bool, error) {
	ranges := zzcRangeRx.FindAllStringSubmatch(filter, 2)
	if len(ranges) == 0 {
		return nil, nil // No ranges were identified
	}
	v, err := strconv.ParseInt(ranges[0][1], 10, 64)
	if err != nil {
		return nil, fmt.Errorf("failed to parse int %s: %v", ranges[0][1], err)
	}
	scaledValue, unit := measurement.Scale(v, ranges[0][2], ranges[0][2])
	if len(ranges) == 1 {
		switch match := ranges[0][0]; filter {
		case match:
			return func(v int64, u string) bool {
				sv, su := measurement.Scale(v, u, unit)
				return su == unit && sv == scaledValue
			}, nil
		case match + ":":
			return func(v int64, u string) bool {
				sv, su := measurement.Scale(v, u, unit)
				return su == unit && sv >= scaledValue
			}, nil
		case ":" + match:
			return func(v int64, u string) bool {
				sv, su := measurement.Scale(v, u, unit)
				return su == unit && sv <= scaledValue
			}, nil
		}
		return nil, nil
	}
	if filter != ranges[0][0]+":"+ranges[1][0] {
		return nil, nil
	}
	if v, err = strconv.ParseInt(ranges[1][1], 10, 64); err != nil {
		return nil, fmt.Errorf("failed to parse int %s: %v", ranges[1][1], err)
	}
	scaledValue2, unit2 := measurement.Scale(v, ranges[1][2], unit)
	if unit != unit2 {
		return nil, nil
	}
	return func(v int64, u string) bool {
		sv, su := measurement.Scale(v, u, unit)
		return su == unit && sv >= scaledValue && sv <= scaledValue2
	}, nil
}

var zzcProbes = []struct {
	v int64
	u string
}{
	{512, "bytes"}, {1024, "bytes"}, {2048, "bytes"}, {32, "kb"}, {12, "kb"}, {4, "mb"}, {64, "mb"}, {65, "mb"},
	{-5, ""}, {0, ""}, {5, ""}, {6, ""}, {100, "ms"}, {2, "s"}, {3000, "ms"}, {1, "widgets"}, {32, "widgets"},
}

// zzcSig classifies the outcome of parsing a filter: an error, "nil" (not a
// range; treated as a regexp by the caller) or the truth vector over zzcProbes.
func zzcSig(f func(int64, string) bool, err error) string {
	if err != nil {
		return "err:" + err.Error()
	}
	if f == nil {
		return "nil"
	}
	var b strings.Builder
	for _, p := range zzcProbes {
		if f(p.v, p.u) {
			b.WriteByte('1')
		} else {
			b.WriteByte('0')
		}
	}
	return b.String()
}

var zzcFixed = []struct{ filter, want string }{
	// Computed on the unchanged tree.
	{"32kb", "00010000000000001"},
	{":64kb", "11111000111100011"},
	{"4mb:", "00000111001100001"},
	{"12kb:64mb", "00011110000000001"},
	{"1kb:2kb", "01100000000000010"},
	{"-5", "00000000100000000"},
	{"+5", "00000000001000000"},
	{"-5:5", "00000000111000010"},
	{"5:-5", "00000000000000000"},
	{"100ms:", "00000000000011100"},
	{":2s", "00000000110011010"},
	{"1s:2kb", "nil"},
	{"1s:kb", "nil"},
	{"abc", "nil"},
	{"", "nil"},
	{"5:", "00000000001100001"},
	{":5", "00000000111000010"},
	{"5::6", "nil"},
	{"1:2:3", "nil"},
	{"a5", "nil"},
	{"5a6", "nil"},
	{"1,2", "nil"},
	{"+-5", "nil"},
	{"5+3", "nil"},
	{"5:+6", "00000000001100000"},
	{"--5", "nil"},
	{"99999999999999999999", "err:failed to parse int 99999999999999999999: strconv.ParseInt: parsing \"99999999999999999999\": value out of range"},
	{"1:99999999999999999999", "err:failed to parse int 99999999999999999999: strconv.ParseInt: parsing \"99999999999999999999\": value out of range"},
	{"kb32", "nil"},
	{"é5kb", "nil"},
	{"5é", "nil"},
	{"3 kb", "nil"},
	{"32KB", "00010000000000001"},
	{"1Kb:1mB", "01111000001100011"},
	{"0:", "00000000011100011"},
	{"007", "00000000000000000"},
	{"1kb:2kb:", "nil"},
	{":1kb:2kb", "nil"},
	{"12kb-64mb", "nil"},
	{"+", "nil"},
	{"-", "nil"},
	{":", "nil"},
	{"5-", "nil"},
	{"1e3", "nil"},
}

func TestZZEquivC_Fixed(t *testing.T) {
	for _, c := range zzcFixed {
		got := zzcSig(parseTagFilterRange(c.filter))
		if ref := zzcSig(zzcRefParseTagFilterRange(c.filter)); got != ref {
			t.Errorf("%q: got %s, reference copy gives %s", c.filter, got, ref)
		}
		if got != c.want {
			t.Errorf("%q: got %s, hard-coded expectation %s", c.filter, got, c.want)
		}
	}
	if len(zzcFixed) < 30 {
		t.Errorf("only %d fixed cases", len(zzcFixed))
	}
}

func TestZZEquivC_Generated(t *testing.T) {
	atoms := []string{"0", "1", "5", "12", "32", "64", "007", "+", "-", ":", ":", "kb", "mb", "KB", "s", "ms", "bytes", "x", ",", "=", " ", ".", "é", "\xff", "_", "٣", "Ａ"}
	rnd := rand.New(rand.NewSource(606))
	seen := 0
	kinds := map[string]int{}
	for i := 0; i < 200000; i++ {
		var b strings.Builder
		for j, n := 0, rnd.Intn(7); j < n; j++ {
			b.WriteString(atoms[rnd.Intn(len(atoms))])
		}
		filter := b.String()
		got := zzcSig(parseTagFilterRange(filter))
		ref := zzcSig(zzcRefParseTagFilterRange(filter))
		if got != ref {
			t.Fatalf("%q: got %s, reference copy gives %s", filter, got, ref)
		}
		seen++
		switch {
		case got == "nil":
			kinds["nil"]++
		case strings.HasPrefix(got, "err:"):
			kinds["err"]++
		default:
			kinds["range"]++
		}
	}
	if kinds["nil"] < 1000 || kinds["range"] < 1000 {
		t.Errorf("generator not diverse enough: %v", kinds)
	}
}

// End to end through compileTagFilter and Profile.FilterSamplesByTag: the
// tagfocus=R and tagignore=R results partition the samples.
func TestZZEquivC_EndToEnd(t *testing.T) {
	units := map[string]string{"bytes": "bytes", "latency": "ms", "count": ""}
	mk := func() *profile.Profile {
		l := &profile.Location{ID: 1, Address: 1}
		return &profile.Profile{
			SampleType: []*profile.ValueType{{Type: "s", Unit: "count"}},
			Location:   []*profile.Location{l},
			Sample: []*profile.Sample{
				{Value: []int64{1}, Location: []*profile.Location{l}, NumLabel: map[string][]int64{"bytes": {512}}},
				{Value: []int64{2}, Location: []*profile.Location{l}, NumLabel: map[string][]int64{"bytes": {1024, 4096}}},
				{Value: []int64{4}, Location: []*profile.Location{l}, NumLabel: map[string][]int64{"bytes": {65536}, "latency": {1500}}},
				{Value: []int64{8}, Location: []*profile.Location{l}, NumLabel: map[string][]int64{"latency": {20}, "count": {5}}},
				{Value: []int64{16}, Location: []*profile.Location{l}, Label: map[string][]string{"bytes": {"1kb"}}},
				{Value: []int64{32}, Location: []*profile.Location{l}},
			},
		}
	}
	cases := []struct {
		filter    string
		wantFocus int64 // sum of the values of the samples kept by tagfocus on the unchanged tree
	}{
		{"1kb", 2},
		// On the unchanged tree a label without unit ("count": 5) is read in
		// the unit of the filter, so the fourth sample is kept too.
		{"1kb:", 2 + 4 + 8},
		{":1kb", 1 + 2},
		{"512b:4kb", 1 + 2},
		{"bytes=4kb:", 2 + 4},
		{"latency=1s:2s", 4},
		{"latency=:1s", 8},
		{"5", 8},
		{"count=5:", 8},
		{"latency=5", 0},
		{":2s", 4 + 8},
		{"-1:5", 8},
	}
	for _, c := range cases {
		sum := func(p *profile.Profile) (n int64) {
			for _, s := range p.Sample {
				n += s.Value[0]
			}
			return
		}
		ui := &proftest.TestUI{T: t, AllowRx: "as range, not regexp"}
		focus, err := compileTagFilter("tagfocus", c.filter, units, ui, nil)
		if err != nil || focus == nil {
			t.Fatalf("%q: %v %v", c.filter, focus == nil, err)
		}
		pf, pi := mk(), mk()
		pf.FilterSamplesByTag(focus, nil)
		pi.FilterSamplesByTag(nil, focus)
		if got := sum(pf); got != c.wantFocus {
			t.Errorf("tagfocus=%q keeps total %d, want %d", c.filter, got, c.wantFocus)
		}
		if got, want := sum(pf)+sum(pi), sum(mk()); got != want {
			t.Errorf("tagfocus/tagignore=%q totals add up to %d, want %d", c.filter, got, want)
		}
	}
}
