package binutils

import (
	"crypto/sha256"
	"fmt"
	"math/rand"
	"sort"
	"strings"
	"testing"
)

// refSym / refLookup are a verbatim copy of the symbol table representation
// and lookup of addr2LinerNM as they stood before change C.
type refSym struct {
	address uint64
	size    uint64
	name    string
	symType string
}

func refLookup(m []refSym, addr uint64) string {
	if len(m) == 0 || addr < m[0].address || addr >= (m[len(m)-1].address+m[len(m)-1].size) {
		return "<nil>"
	}
	low, high := 0, len(m)
	for low+1 < high {
		mid := (low + high) / 2
		v := m[mid].address
		if addr == v {
			low = mid
			break
		} else if addr > v {
			low = mid
		} else {
			high = mid
		}
	}
	if strings.ContainsAny(m[low].symType, "bBdDrRvVW") && addr >= (m[low].address+m[low].size) {
		return "<nil>"
	}
	return m[low].name
}

func lookupC(t *testing.T, a *addr2LinerNM, addr uint64) string {
	frames, err := a.addrInfo(addr)
	if err != nil {
		t.Fatalf("addrInfo(%#x): %v", addr, err)
	}
	if frames == nil {
		return "<nil>"
	}
	if len(frames) != 1 || frames[0].File != "" || frames[0].Line != 0 {
		t.Fatalf("addrInfo(%#x): unexpected frames %#v", addr, frames)
	}
	return frames[0].Func
}

func TestZZEquivC(t *testing.T) {
	// Fixed nm output (posix format: name type address size), including lines
	// that must be skipped, with hard-coded expectations computed on the
	// unchanged tree for two different bases.
	const nmOut = `_init T 4003e0 1a
_start T 400440 2b
deregister_tm_clones t 400470 0
frame_dummy t 400500 2d
main T 40052d 10
tiny t 400540 1
__libc_csu_init T 400540 65
U puts
 w __gmon_start__
bad T zzzz 10
bad2 T 400600 zz
too many fields T 400700 10
rodata_tbl R 4005c0 10
weak_obj V 4005e0 8
weak_any W 4005f0 4
__data_start D 601040 4
completed.6973 b 601048 1
bss_buf B 601060 100
_end A 601160 0
`
	for _, tc := range []struct {
		base uint64
		addr uint64
		want string
	}{
		{0x0, 0x4003df, "<nil>"},
		{0x0, 0x4003e0, "_init"},
		{0x0, 0x4003f9, "_init"},
		{0x0, 0x4003fa, "_init"},
		{0x0, 0x400440, "_start"},
		{0x0, 0x40046a, "_start"},
		{0x0, 0x40046b, "_start"},
		{0x0, 0x400470, "deregister_tm_clones"},
		{0x0, 0x400471, "deregister_tm_clones"},
		{0x0, 0x4004ff, "deregister_tm_clones"},
		{0x0, 0x40052c, "frame_dummy"},
		{0x0, 0x40052d, "main"},
		{0x0, 0x40053c, "main"},
		{0x0, 0x40053d, "main"},
		{0x0, 0x400540, "tiny"},
		{0x0, 0x400541, "__libc_csu_init"},
		{0x0, 0x4005a5, "__libc_csu_init"},
		{0x0, 0x4005bf, "__libc_csu_init"},
		{0x0, 0x4005c0, "rodata_tbl"},
		{0x0, 0x4005cf, "rodata_tbl"},
		{0x0, 0x4005d0, "<nil>"},
		{0x0, 0x4005e0, "weak_obj"},
		{0x0, 0x4005e8, "<nil>"},
		{0x0, 0x4005f0, "weak_any"},
		{0x0, 0x4005f3, "weak_any"},
		{0x0, 0x4005f4, "<nil>"},
		{0x0, 0x400600, "<nil>"},
		{0x0, 0x400700, "<nil>"},
		{0x0, 0x601040, "__data_start"},
		{0x0, 0x601043, "__data_start"},
		{0x0, 0x601044, "<nil>"},
		{0x0, 0x601048, "completed.6973"},
		{0x0, 0x601049, "<nil>"},
		{0x0, 0x601060, "bss_buf"},
		{0x0, 0x60115f, "bss_buf"},
		{0x0, 0x601160, "<nil>"},
		{0x0, 0x601161, "<nil>"},
		{0x7f3a5c000000, 0x7f3a5c4003df, "<nil>"},
		{0x7f3a5c000000, 0x7f3a5c4003f9, "_init"},
		{0x7f3a5c000000, 0x7f3a5c400440, "_start"},
		{0x7f3a5c000000, 0x7f3a5c40046b, "_start"},
		{0x7f3a5c000000, 0x7f3a5c400471, "deregister_tm_clones"},
		{0x7f3a5c000000, 0x7f3a5c40052c, "frame_dummy"},
		{0x7f3a5c000000, 0x7f3a5c40053c, "main"},
		{0x7f3a5c000000, 0x7f3a5c400540, "tiny"},
		{0x7f3a5c000000, 0x7f3a5c4005a5, "__libc_csu_init"},
		{0x7f3a5c000000, 0x7f3a5c4005c0, "rodata_tbl"},
		{0x7f3a5c000000, 0x7f3a5c4005d0, "<nil>"},
		{0x7f3a5c000000, 0x7f3a5c4005e8, "<nil>"},
		{0x7f3a5c000000, 0x7f3a5c4005f3, "weak_any"},
		{0x7f3a5c000000, 0x7f3a5c400600, "<nil>"},
		{0x7f3a5c000000, 0x7f3a5c601040, "__data_start"},
		{0x7f3a5c000000, 0x7f3a5c601044, "<nil>"},
		{0x7f3a5c000000, 0x7f3a5c601049, "<nil>"},
		{0x7f3a5c000000, 0x7f3a5c60115f, "bss_buf"},
		{0x7f3a5c000000, 0x7f3a5c601161, "<nil>"},
		{0x7f3a5c000000, 0x40052d, "<nil>"},
		{0xffffffffffc00000, 0x12d, "<nil>"},
		{0xffffffffffc00000, 0x201048, "completed.6973"},
		{0xffffffffffc00000, 0x201049, "<nil>"},
	} {
		a, err := parseAddr2LinerNM(tc.base, strings.NewReader(nmOut))
		if err != nil {
			t.Fatal(err)
		}
		if got := lookupC(t, a, tc.addr); got != tc.want {
			t.Errorf("base=%#x addr=%#x: got %q want %q", tc.base, tc.addr, got, tc.want)
		}
	}

	// Generated sorted symbol tables compared against the reference lookup, for
	// every interesting address (starts, ends, one off either side, gaps).
	r := rand.New(rand.NewSource(1313))
	types := []string{"T", "t", "W", "w", "D", "d", "B", "b", "R", "r", "V", "v", "A", "U", "N", "?"}
	h := sha256.New()
	lookups := 0
	for it := 0; it < 600; it++ {
		n := r.Intn(40)
		var base uint64
		switch r.Intn(4) {
		case 1:
			base = uint64(r.Intn(1<<20)) << 12
		case 2:
			base = 0x7f0000000000 + uint64(r.Intn(1<<16))<<12
		case 3:
			base = -(uint64(r.Intn(1<<10)) << 12) // negative bias: wraps modulo 2^64
		}
		var addrs []uint64
		cur := uint64(0x400000 + r.Intn(0x1000))
		for i := 0; i < n; i++ {
			if r.Intn(5) != 0 { // sometimes keep the same address: duplicates
				cur += uint64(r.Intn(0x80))
			}
			addrs = append(addrs, cur)
		}
		sort.Slice(addrs, func(i, j int) bool { return addrs[i] < addrs[j] })
		var sb strings.Builder
		var ref []refSym
		for i, ad := range addrs {
			size := uint64(r.Intn(0x60))
			if r.Intn(6) == 0 {
				size = 0
			}
			if r.Intn(50) == 0 {
				size = ^uint64(0) - uint64(r.Intn(0x100)) // absurd size: end wraps around
			}
			typ := types[r.Intn(len(types))]
			name := fmt.Sprintf("sym%d_%d", it, i)
			fmt.Fprintf(&sb, "%s %s %x %x\n", name, typ, ad, size)
			ref = append(ref, refSym{address: ad + base, size: size, name: name, symType: typ})
			if r.Intn(10) == 0 {
				fmt.Fprintf(&sb, "undef%d U\n", i)
			}
		}
		a, err := parseAddr2LinerNM(base, strings.NewReader(sb.String()))
		if err != nil {
			t.Fatal(err)
		}
		var probes []uint64
		for _, s := range ref {
			e := s.address + s.size
			probes = append(probes, s.address-1, s.address, s.address+1, e-1, e, e+1, s.address+s.size/2)
		}
		probes = append(probes, 0, ^uint64(0), base, base+0x400000, base+0x500000)
		for i := 0; i < 20; i++ {
			probes = append(probes, base+0x400000+uint64(r.Intn(0x3000)))
		}
		for _, p := range probes {
			got, want := lookupC(t, a, p), refLookup(ref, p)
			if got != want {
				t.Fatalf("iteration %d base=%#x addr=%#x: got %q want %q\nnm:\n%s", it, base, p, got, want, sb.String())
			}
			fmt.Fprintf(h, "%x:%s;", p, got)
			lookups++
		}
	}
	digest := fmt.Sprintf("%x", h.Sum(nil))
	t.Logf("lookups=%d digest=%s", lookups, digest)
	const wantDigest = "3317c29acb17ba4d80a6003dd6dd150ccbb8a34b9efe98c64ebf12ee1feecc15"
	if digest != wantDigest {
		t.Errorf("digest over all lookups = %s, want %s (computed on the unchanged tree)", digest, wantDigest)
	}
}
