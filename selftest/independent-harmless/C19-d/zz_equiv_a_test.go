package driver

import (
	"fmt"
	"net/url"
	"os"
	"path/filepath"
	"reflect"
	"sort"
	"sync"
	"testing"
)

// Sequential save/overwrite/delete: exact file bytes after each step.
func TestZZEquivASequentialBytes(t *testing.T) {
	dir := t.TempDir()
	fname := filepath.Join(dir, "pprof", "settings.json")
	steps := []struct {
		remove bool
		req    string
		want   string
		errStr string
	}{
		{false, "/saveconfig?config=c1&f=foo&n=12&trim=f", `{
  "configs": [
    {
      "name": "c1",
      "unit": "minimum",
      "sort": "flat",
      "nodecount": 12,
      "nodefraction": 0.005,
      "edgefraction": 0.001,
      "focus": "foo"
    }
  ]
}`, ""},
		{false, "/saveconfig?config=c2&h=bar&sort=cum&g=lines&calltree=t", `{
  "configs": [
    {
      "name": "c1",
      "unit": "minimum",
      "sort": "flat",
      "nodecount": 12,
      "nodefraction": 0.005,
      "edgefraction": 0.001,
      "focus": "foo"
    },
    {
      "name": "c2",
      "call_tree": true,
      "unit": "minimum",
      "sort": "cum",
      "nodecount": -1,
      "nodefraction": 0.005,
      "edgefraction": 0.001,
      "trim": true,
      "hide": "bar",
      "granularity": "lines"
    }
  ]
}`, ""},
		{false, "/saveconfig?config=c1&f=&i=baz", `{
  "configs": [
    {
      "name": "c1",
      "unit": "minimum",
      "sort": "flat",
      "nodecount": -1,
      "nodefraction": 0.005,
      "edgefraction": 0.001,
      "trim": true,
      "ignore": "baz"
    },
    {
      "name": "c2",
      "call_tree": true,
      "unit": "minimum",
      "sort": "cum",
      "nodecount": -1,
      "nodefraction": 0.005,
      "edgefraction": 0.001,
      "trim": true,
      "hide": "bar",
      "granularity": "lines"
    }
  ]
}`, ""},
		{true, "nosuch", "", "config nosuch not found"},
		{false, "/saveconfig?f=x", "", "invalid config name"},
		{false, "/saveconfig?config=bad&n=zz", "", `error setting config field nodecount: strconv.Atoi: parsing "zz": invalid syntax`},
		{true, "c1", `{
  "configs": [
    {
      "name": "c2",
      "call_tree": true,
      "unit": "minimum",
      "sort": "cum",
      "nodecount": -1,
      "nodefraction": 0.005,
      "edgefraction": 0.001,
      "trim": true,
      "hide": "bar",
      "granularity": "lines"
    }
  ]
}`, ""},
	}
	prev := ""
	for i, st := range steps {
		var err error
		if st.remove {
			err = removeConfig(fname, st.req)
		} else {
			u, perr := url.Parse(st.req)
			if perr != nil {
				t.Fatal(perr)
			}
			err = setConfig(fname, *u)
		}
		want := st.want
		if st.errStr != "" {
			if err == nil || err.Error() != st.errStr {
				t.Fatalf("step %d: err = %v, want %q", i, err, st.errStr)
			}
			want = prev // a failed request must leave the file alone
		} else if err != nil {
			t.Fatalf("step %d: %v", i, err)
		}
		got, rerr := os.ReadFile(fname)
		if rerr != nil {
			t.Fatalf("step %d: %v", i, rerr)
		}
		if string(got) != want {
			t.Fatalf("step %d: file =\n%s\nwant\n%s", i, got, want)
		}
		prev = want
		ents, _ := os.ReadDir(filepath.Dir(fname))
		if len(ents) != 1 || ents[0].Name() != "settings.json" {
			t.Fatalf("step %d: stray files in settings dir: %v", i, ents)
		}
	}
	fi, err := os.Stat(fname)
	if err != nil || fi.Mode().Perm() != 0644 {
		t.Fatalf("mode = %v, %v", fi.Mode(), err)
	}
	// The menu built from the file.
	page, _ := url.Parse("/top?h=bar&sort=cum&g=lines&calltree=t")
	menu := configMenu(fname, *page)
	wantMenu := []configMenuEntry{
		{Name: "Default", URL: "?", Current: false, UserConfig: false},
		{Name: "c2", URL: "?h=bar&sort=cum&g=lines&calltree=t", Current: true, UserConfig: true},
	}
	if !reflect.DeepEqual(menu, wantMenu) {
		t.Fatalf("menu = %+v, want %+v", menu, wantMenu)
	}
}

// Concurrent saves, deletes and menu reads behave as some serial order.
func TestZZEquivAConcurrent(t *testing.T) {
	for round := 0; round < 5; round++ {
		dir := t.TempDir()
		fname := filepath.Join(dir, "settings.json")
		const n = 24
		var wg sync.WaitGroup
		errs := make(chan error, 4*n)
		stop := make(chan struct{})
		var rd sync.WaitGroup
		for r := 0; r < 3; r++ {
			rd.Add(1)
			go func() {
				defer rd.Done()
				page, _ := url.Parse("/top")
				for {
					select {
					case <-stop:
						return
					default:
					}
					m := configMenu(fname, *page)
					if len(m) == 0 || m[0].Name != "Default" {
						errs <- fmt.Errorf("bad menu %v", m)
						return
					}
					for _, e := range m[1:] {
						var k int
						if _, err := fmt.Sscanf(e.Name, "k%d", &k); err != nil || e.URL != fmt.Sprintf("?f=focus%d&n=%d", k, k+1) {
							errs <- fmt.Errorf("bad menu entry %+v", e)
							return
						}
					}
				}
			}()
		}
		for i := 0; i < n; i++ {
			wg.Add(1)
			go func(i int) {
				defer wg.Done()
				u, _ := url.Parse(fmt.Sprintf("/saveconfig?config=k%d&f=focus%d&n=%d", i, i, i+1))
				if err := setConfig(fname, *u); err != nil {
					errs <- err
				}
			}(i)
		}
		wg.Wait()
		check := func(want []string) {
			t.Helper()
			s, err := readSettings(fname)
			if err != nil {
				t.Fatal(err)
			}
			var got []string
			for _, c := range s.Configs {
				var k int
				fmt.Sscanf(c.Name, "k%d", &k)
				exp := defaultConfig()
				exp.Focus = fmt.Sprintf("focus%d", k)
				exp.NodeCount = k + 1
				exp.resetTransient()
				if !reflect.DeepEqual(c.config, exp) {
					t.Fatalf("config %s = %+v, want %+v", c.Name, c.config, exp)
				}
				got = append(got, c.Name)
			}
			sort.Strings(got)
			sort.Strings(want)
			if !reflect.DeepEqual(got, want) {
				t.Fatalf("names = %v, want %v", got, want)
			}
		}
		var all, odd []string
		for i := 0; i < n; i++ {
			all = append(all, fmt.Sprintf("k%d", i))
			if i%2 == 1 {
				odd = append(odd, fmt.Sprintf("k%d", i))
			}
		}
		check(all)
		// Delete the even ones while re-saving the odd ones.
		for i := 0; i < n; i++ {
			wg.Add(1)
			go func(i int) {
				defer wg.Done()
				if i%2 == 0 {
					if err := removeConfig(fname, fmt.Sprintf("k%d", i)); err != nil {
						errs <- err
					}
					return
				}
				u, _ := url.Parse(fmt.Sprintf("/saveconfig?config=k%d&f=focus%d&n=%d", i, i, i+1))
				if err := setConfig(fname, *u); err != nil {
					errs <- err
				}
			}(i)
		}
		wg.Wait()
		close(stop)
		rd.Wait()
		close(errs)
		for err := range errs {
			t.Error(err)
		}
		check(odd)
		ents, _ := os.ReadDir(dir)
		if len(ents) != 1 {
			t.Fatalf("stray files: %v", ents)
		}
	}
}
