package profile

// Equivalence demonstration for a behaviour-preserving change (property C01:
// profile serialization round-trips without loss). The golden hashes below
// were computed on the UNCHANGED tree; the test must pass both with and
// without the patch. Set EQUIV_PRINT=1 to print the observed values.

import (
	"bytes"
	"crypto/sha256"
	"encoding/hex"
	"fmt"
	"math"
	"os"
	"path/filepath"
	"sort"
	"strings"
	"testing"
)

type rngEqA struct{ s uint64 }

func (r *rngEqA) next() uint64 {
	r.s += 0x9e3779b97f4a7c15
	z := r.s
	z = (z ^ (z >> 30)) * 0xbf58476d1ce4e5b9
	z = (z ^ (z >> 27)) * 0x94d049bb133111eb
	return z ^ (z >> 31)
}

func (r *rngEqA) intn(n int) int { return int(r.next() % uint64(n)) }

var strPoolEqA = []string{
	"", "a", "cpu", "nanoseconds", "\xff\xfe\x80", "日本語", "x\x00y",
	"[kernel.kallsyms]_stext", "/usr/lib/libc.so.6", "main.main", "bytes",
	strings.Repeat("long/", 60), "key", "unit", "https://example.com/doc?x=1",
}

var valPoolEqA = []int64{
	0, 1, -1, 2, 127, 128, -128, 16383, 16384, 1 << 35, -(1 << 35),
	math.MaxInt64, math.MinInt64, math.MaxInt32, math.MinInt32,
}

func (r *rngEqA) str() string { return strPoolEqA[r.intn(len(strPoolEqA))] }
func (r *rngEqA) val() int64  { return valPoolEqA[r.intn(len(valPoolEqA))] }
func (r *rngEqA) u64() uint64 {
	switch r.intn(4) {
	case 0:
		return 0
	case 1:
		return uint64(r.intn(300))
	case 2:
		return math.MaxUint64 - uint64(r.intn(3))
	}
	return r.next()
}

// ids returns n distinct non-zero ids mixing small/dense, boundary and
// sparse/huge values.
func (r *rngEqA) ids(n int) []uint64 {
	seen := map[uint64]bool{0: true}
	var out []uint64
	for len(out) < n {
		var id uint64
		switch r.intn(5) {
		case 0:
			id = uint64(len(out) + 1)
		case 1:
			id = uint64(n + r.intn(3)) // around the dense/sparse boundary
		case 2:
			id = uint64(1 + r.intn(2*n+2))
		case 3:
			id = math.MaxUint64 - uint64(r.intn(4))
		default:
			id = 1<<40 + r.next()>>20
		}
		if seen[id] {
			continue
		}
		seen[id] = true
		out = append(out, id)
	}
	return out
}

func genProfileEqA(seed uint64) *Profile {
	r := &rngEqA{s: seed * 7919}
	p := &Profile{}
	nST := r.intn(4)
	for i := 0; i < nST; i++ {
		p.SampleType = append(p.SampleType, &ValueType{Type: r.str(), Unit: r.str()})
	}
	for _, id := range r.ids(r.intn(4)) {
		p.Mapping = append(p.Mapping, &Mapping{
			ID: id, Start: r.u64(), Limit: r.u64(), Offset: r.u64(),
			File: r.str(), BuildID: r.str(),
			HasFunctions: r.intn(2) == 0, HasFilenames: r.intn(2) == 0,
			HasLineNumbers: r.intn(2) == 0, HasInlineFrames: r.intn(2) == 0,
		})
	}
	for _, id := range r.ids(r.intn(6)) {
		p.Function = append(p.Function, &Function{
			ID: id, Name: r.str(), SystemName: r.str(), Filename: r.str(), StartLine: r.val(),
		})
	}
	for _, id := range r.ids(r.intn(7)) {
		l := &Location{ID: id, Address: r.u64(), IsFolded: r.intn(3) == 0}
		if len(p.Mapping) > 0 && r.intn(3) != 0 {
			l.Mapping = p.Mapping[r.intn(len(p.Mapping))]
		}
		if len(p.Function) > 0 {
			for j, n := 0, r.intn(4); j < n; j++ {
				l.Line = append(l.Line, Line{
					Function: p.Function[r.intn(len(p.Function))],
					Line:     r.val(), Column: r.val(),
				})
			}
		}
		p.Location = append(p.Location, l)
	}
	if nST > 0 {
		for i, n := 0, r.intn(6); i < n; i++ {
			s := &Sample{}
			if len(p.Location) > 0 {
				for j, k := 0, r.intn(6); j < k; j++ {
					s.Location = append(s.Location, p.Location[r.intn(len(p.Location))])
				}
			}
			for j := 0; j < nST; j++ {
				s.Value = append(s.Value, r.val())
			}
			for j, k := 0, r.intn(3); j < k; j++ {
				if s.Label == nil {
					s.Label = map[string][]string{}
				}
				key := r.str()
				for v, nv := 0, 1+r.intn(3); v < nv; v++ {
					s.Label[key] = append(s.Label[key], r.str())
				}
			}
			for j, k := 0, r.intn(3); j < k; j++ {
				if s.NumLabel == nil {
					s.NumLabel = map[string][]int64{}
					s.NumUnit = map[string][]string{}
				}
				key := r.str()
				if _, dup := s.NumLabel[key]; dup {
					continue
				}
				nv := 1 + r.intn(4)
				withUnits := r.intn(2) == 0
				for v := 0; v < nv; v++ {
					s.NumLabel[key] = append(s.NumLabel[key], r.val())
					if withUnits {
						u := ""
						if r.intn(3) != 0 {
							u = r.str()
						}
						s.NumUnit[key] = append(s.NumUnit[key], u)
					}
				}
			}
			p.Sample = append(p.Sample, s)
		}
	}
	p.DropFrames, p.KeepFrames = r.str(), r.str()
	p.TimeNanos, p.DurationNanos, p.Period = r.val(), r.val(), r.val()
	switch r.intn(3) {
	case 0:
		p.PeriodType = &ValueType{}
	case 1:
		p.PeriodType = &ValueType{Type: r.str(), Unit: r.str()}
	}
	for i, n := 0, r.intn(5); i < n; i++ {
		p.Comments = append(p.Comments, r.str())
	}
	p.DefaultSampleType, p.DocURL = r.str(), r.str()
	return p
}

// dumpEqA renders every exported field of p; it is nil-safe and shows
// pointer sharing through table indices.
func dumpEqA(p *Profile) string {
	var b strings.Builder
	mi := map[*Mapping]int{}
	fi := map[*Function]int{}
	li := map[*Location]int{}
	for i, st := range p.SampleType {
		fmt.Fprintf(&b, "st%d %q %q\n", i, st.Type, st.Unit)
	}
	for i, m := range p.Mapping {
		mi[m] = i
		fmt.Fprintf(&b, "m%d id=%d %d %d %d %q %q %v %v %v %v krs=%q\n", i, m.ID, m.Start, m.Limit, m.Offset,
			m.File, m.BuildID, m.HasFunctions, m.HasFilenames, m.HasLineNumbers, m.HasInlineFrames, m.KernelRelocationSymbol)
	}
	for i, f := range p.Function {
		fi[f] = i
		fmt.Fprintf(&b, "f%d id=%d %q %q %q %d\n", i, f.ID, f.Name, f.SystemName, f.Filename, f.StartLine)
	}
	for i, l := range p.Location {
		li[l] = i
		fmt.Fprintf(&b, "l%d id=%d addr=%d folded=%v", i, l.ID, l.Address, l.IsFolded)
		if l.Mapping == nil {
			b.WriteString(" m=nil")
		} else if ix, ok := mi[l.Mapping]; ok {
			fmt.Fprintf(&b, " m=#%d", ix)
		} else {
			fmt.Fprintf(&b, " m=?%d", l.Mapping.ID)
		}
		fmt.Fprintf(&b, " nlines=%d(nil=%v)", len(l.Line), l.Line == nil)
		for _, ln := range l.Line {
			if ln.Function == nil {
				fmt.Fprintf(&b, " [nil %d %d]", ln.Line, ln.Column)
			} else if ix, ok := fi[ln.Function]; ok {
				fmt.Fprintf(&b, " [#%d %d %d]", ix, ln.Line, ln.Column)
			} else {
				fmt.Fprintf(&b, " [?%d %d %d]", ln.Function.ID, ln.Line, ln.Column)
			}
		}
		b.WriteString("\n")
	}
	for i, s := range p.Sample {
		fmt.Fprintf(&b, "s%d v=%v loc=", i, s.Value)
		for _, l := range s.Location {
			if l == nil {
				b.WriteString("nil,")
			} else if ix, ok := li[l]; ok {
				fmt.Fprintf(&b, "#%d,", ix)
			} else {
				fmt.Fprintf(&b, "?%d,", l.ID)
			}
		}
		var ks []string
		for k := range s.Label {
			ks = append(ks, k)
		}
		sort.Strings(ks)
		fmt.Fprintf(&b, " label(nil=%v)", s.Label == nil)
		for _, k := range ks {
			fmt.Fprintf(&b, " %q=%q", k, s.Label[k])
		}
		ks = nil
		for k := range s.NumLabel {
			ks = append(ks, k)
		}
		sort.Strings(ks)
		fmt.Fprintf(&b, " num(nil=%v)", s.NumLabel == nil)
		for _, k := range ks {
			fmt.Fprintf(&b, " %q=%v", k, s.NumLabel[k])
		}
		ks = nil
		for k := range s.NumUnit {
			ks = append(ks, k)
		}
		sort.Strings(ks)
		fmt.Fprintf(&b, " unit(nil=%v)", s.NumUnit == nil)
		for _, k := range ks {
			fmt.Fprintf(&b, " %q=%q", k, s.NumUnit[k])
		}
		b.WriteString("\n")
	}
	fmt.Fprintf(&b, "drop=%q keep=%q t=%d d=%d period=%d", p.DropFrames, p.KeepFrames, p.TimeNanos, p.DurationNanos, p.Period)
	if p.PeriodType == nil {
		b.WriteString(" pt=nil")
	} else {
		fmt.Fprintf(&b, " pt=%q/%q", p.PeriodType.Type, p.PeriodType.Unit)
	}
	fmt.Fprintf(&b, " comments=%q dst=%q doc=%q\n", p.Comments, p.DefaultSampleType, p.DocURL)
	return b.String()
}

func hashEqA(parts ...[]byte) string {
	h := sha256.New()
	for _, p := range parts {
		fmt.Fprintf(h, "%d:", len(p))
		h.Write(p)
	}
	return hex.EncodeToString(h.Sum(nil))[:16]
}

func checkGoldenEqA(t *testing.T, name string, got, want []string) {
	t.Helper()
	if os.Getenv("EQUIV_PRINT") != "" {
		fmt.Printf("var %s = []string{\n", name)
		for _, g := range got {
			fmt.Printf("\t%q,\n", g)
		}
		fmt.Printf("}\n")
		return
	}
	if len(got) != len(want) {
		t.Fatalf("%s: got %d entries, want %d", name, len(got), len(want))
	}
	for i := range got {
		if got[i] != want[i] {
			t.Errorf("%s[%d]: got %s, want %s", name, i, got[i], want[i])
		}
	}
}

// roundTripEqA writes p, parses it back, re-writes and re-parses, and checks
// the fixed-point requirements of the property. It returns a digest of the
// first encoding, the re-encoding and the parsed profile.
func roundTripEqA(t *testing.T, what string, p *Profile) string {
	t.Helper()
	b1 := serialize(p)
	p2, err := ParseUncompressed(b1)
	if err != nil {
		t.Fatalf("%s: parse(write(p)): %v", what, err)
	}
	if err := p2.CheckValid(); err != nil {
		t.Fatalf("%s: parsed profile invalid: %v", what, err)
	}
	d2 := dumpEqA(p2)
	b2 := serialize(p2)
	p3, err := ParseUncompressed(b2)
	if err != nil {
		t.Fatalf("%s: parse(write(parse(write(p)))): %v", what, err)
	}
	if d3 := dumpEqA(p3); d3 != d2 {
		t.Errorf("%s: parsed profile does not survive write-then-parse:\n%s\nvs\n%s", what, d2, d3)
	}
	if b3 := serialize(p3); !bytes.Equal(b2, b3) {
		t.Errorf("%s: re-serialization is not byte identical", what)
	}
	// Compressed path.
	var zbuf bytes.Buffer
	if err := p.Write(&zbuf); err != nil {
		t.Fatalf("%s: Write: %v", what, err)
	}
	if len(b1) > 0 {
		pz, err := ParseData(zbuf.Bytes())
		if err != nil {
			t.Fatalf("%s: ParseData(gz): %v", what, err)
		}
		if dz := dumpEqA(pz); dz != d2 {
			t.Errorf("%s: compressed and uncompressed round trips differ", what)
		}
	}
	return hashEqA(b1, b2, []byte(d2))
}

func TestEquivGeneratedEqA(t *testing.T) {
	var got []string
	for seed := uint64(1); seed <= 60; seed++ {
		p := genProfileEqA(seed)
		if err := p.CheckValid(); err != nil {
			t.Fatalf("seed %d: generator produced invalid profile: %v", seed, err)
		}
		got = append(got, roundTripEqA(t, fmt.Sprintf("seed %d", seed), p))
	}
	checkGoldenEqA(t, "goldenGeneratedEqA", got, goldenGeneratedEqA)
}

func TestEquivTestdataEqA(t *testing.T) {
	files, err := filepath.Glob(filepath.Join("testdata", "*"))
	if err != nil || len(files) == 0 {
		t.Fatalf("no testdata: %v", err)
	}
	sort.Strings(files)
	var got []string
	for _, f := range files {
		if strings.HasSuffix(f, ".string") {
			continue
		}
		data, err := os.ReadFile(f)
		if err != nil {
			t.Fatal(err)
		}
		p, err := ParseData(data)
		if err != nil {
			t.Fatalf("%s: %v", f, err)
		}
		got = append(got, filepath.Base(f)+":"+roundTripEqA(t, f, p))
	}
	checkGoldenEqA(t, "goldenTestdataEqA", got, goldenTestdataEqA)
}

// --- specific to change A: packed repeated-scalar encoding in proto.go ---

func TestEquivPackedScalarsEqA(t *testing.T) {
	r := &rngEqA{s: 42}
	var got []string
	for _, n := range []int{0, 1, 2, 3, 4, 5, 17, 126, 127, 128, 129, 2000, 20000} {
		us := make([]uint64, n)
		is := make([]int64, n)
		for i := range us {
			us[i] = r.u64()
			is[i] = r.val()
		}
		for _, tag := range []int{1, 2, 13, 15, 16, 3000} {
			for _, prefix := range []string{"", "pre-existing bytes"} {
				bu := &buffer{data: []byte(prefix)}
				encodeUint64s(bu, tag, us)
				bi := &buffer{data: []byte(prefix)}
				encodeInt64s(bi, tag, is)
				got = append(got, fmt.Sprintf("n=%d tag=%d pre=%d %s", n, tag, len(prefix), hashEqA(bu.data, bi.data)))

				// The bytes must decode back to the same values through the
				// package's own field decoder.
				var du []uint64
				rest := bu.data[len(prefix):]
				for len(rest) > 0 {
					var fb buffer
					var err error
					if rest, err = decodeField(&fb, rest); err != nil {
						t.Fatalf("n=%d tag=%d: %v", n, tag, err)
					}
					if fb.field != tag {
						t.Fatalf("n=%d: field %d, want %d", n, fb.field, tag)
					}
					if err := decodeUint64s(&fb, &du); err != nil {
						t.Fatal(err)
					}
				}
				if fmt.Sprint(du) != fmt.Sprint(us) && !(len(du) == 0 && len(us) == 0) {
					t.Errorf("n=%d tag=%d: uint64s do not round trip", n, tag)
				}
				var di []int64
				rest = bi.data[len(prefix):]
				for len(rest) > 0 {
					var fb buffer
					var err error
					if rest, err = decodeField(&fb, rest); err != nil {
						t.Fatal(err)
					}
					if err := decodeInt64s(&fb, &di); err != nil {
						t.Fatal(err)
					}
				}
				if fmt.Sprint(di) != fmt.Sprint(is) && !(len(di) == 0 && len(is) == 0) {
					t.Errorf("n=%d tag=%d: int64s do not round trip", n, tag)
				}
			}
		}
	}
	// Exact bytes for a few small cases (hand-checked against the wire format).
	small := &buffer{}
	encodeUint64s(small, 1, []uint64{1, 2})
	encodeUint64s(small, 1, []uint64{1, 300, math.MaxUint64})
	encodeInt64s(small, 2, []int64{-1, 0, 5})
	got = append(got, hex.EncodeToString(small.data))
	checkGoldenEqA(t, "goldenPackedEqA", got, goldenPackedEqA)
}

// Golden values computed on the unchanged tree.

var goldenGeneratedEqA = []string{
	"25d839337c0e6370",
	"ec319f016a4550aa",
	"ba99033f2fa2ce69",
	"4c2b45d9eddf3112",
	"059910944a13c20b",
	"a5c96d84a00b9615",
	"d7a269f73f185b88",
	"6ba9025336443830",
	"b0c5a81b74aa00f5",
	"799b39d5afdeb76a",
	"f7b2358b9fcaa077",
	"6f79415c1063d5c2",
	"95c6b1d87491e15b",
	"3910edebea6198ce",
	"62fc5d5c624d97a8",
	"5d8c49d4a8af15a2",
	"1fc1f8b0cb8d8e45",
	"74226fecddbe6ebe",
	"9db17cc90ee3b1a7",
	"b66305c0288755f1",
	"7d69035cd7557472",
	"8a0ac376f9a7c501",
	"48805345c9eb19fe",
	"a565a8ecac227a44",
	"9b0af04c26012ad1",
	"27a0ae483ea29bb6",
	"ddbb7d6df7697998",
	"1987006fc6723cb7",
	"45d485f497efc63c",
	"01967421f30fbf60",
	"3b11946db6fc4133",
	"879db9f6873fd8cf",
	"b55b6e6762469e86",
	"740decc22732d527",
	"f3c6627925a01ac2",
	"00411b58f0f87c9d",
	"ed64183e969dd89d",
	"64a36533bf26a385",
	"0782ceca5ec7500f",
	"4380ca08fc4d4bb8",
	"ccc6cd019794af76",
	"78e166c187e181bd",
	"e147d09d87d92f6d",
	"645eeb1f084c44d0",
	"dad30b0f37cedcb8",
	"401716fafb678f44",
	"6359c307b7df42c6",
	"11a1baae8f63a8b1",
	"f1991fbedfc44577",
	"7c3a41af74b809d1",
	"ebaeb41dea2417f7",
	"ffde7e7e40d3cb73",
	"887212156a82d10a",
	"ce905485a494f25c",
	"3ce4b94b456a5ca2",
	"9ff0d5085fc570fe",
	"aa827ea8cc78a4c5",
	"1290a58b8b1cfb17",
	"dac4c839d91688b4",
	"3ac51b959c7fec52",
}

var goldenTestdataEqA = []string{
	"cppbench.contention:e82d8fd1164a3324",
	"cppbench.cpu:8675b802ddadfed7",
	"cppbench.growth:c34ceccd77cd908a",
	"cppbench.heap:651bb8dbf1b61fd6",
	"cppbench.thread:e9a82412d273d773",
	"cppbench.thread.all:d2438cdfafb7aaea",
	"cppbench.thread.none:a6a1747c5b783031",
	"go.crc32.cpu:22da87728838df01",
	"go.godoc.thread:d6b39ec2db8ad9ed",
	"gobench.cpu:d9598b3dfc779bb9",
	"gobench.heap:b2fe6f999ab5a30d",
	"java.contention:d1f03852b5cea3b1",
	"java.cpu:bcdc63897d161302",
	"java.heap:056cdf4405ce350e",
}

var goldenPackedEqA = []string{
	"n=0 tag=1 pre=0 390feabc786e369e",
	"n=0 tag=1 pre=18 6a3febf671b394da",
	"n=0 tag=2 pre=0 390feabc786e369e",
	"n=0 tag=2 pre=18 6a3febf671b394da",
	"n=0 tag=13 pre=0 390feabc786e369e",
	"n=0 tag=13 pre=18 6a3febf671b394da",
	"n=0 tag=15 pre=0 390feabc786e369e",
	"n=0 tag=15 pre=18 6a3febf671b394da",
	"n=0 tag=16 pre=0 390feabc786e369e",
	"n=0 tag=16 pre=18 6a3febf671b394da",
	"n=0 tag=3000 pre=0 390feabc786e369e",
	"n=0 tag=3000 pre=18 6a3febf671b394da",
	"n=1 tag=1 pre=0 d4a358bc4477e44f",
	"n=1 tag=1 pre=18 cfcb6d1fea0b26b9",
	"n=1 tag=2 pre=0 85d167a3351ce3be",
	"n=1 tag=2 pre=18 4a7df80d3372fb90",
	"n=1 tag=13 pre=0 e49a67bd4a8832c1",
	"n=1 tag=13 pre=18 5e4e41142826e043",
	"n=1 tag=15 pre=0 05c6b0a59a071c3f",
	"n=1 tag=15 pre=18 0b902a90be4decbe",
	"n=1 tag=16 pre=0 33cabf9cc194b3f4",
	"n=1 tag=16 pre=18 f3c179cb7c268ccc",
	"n=1 tag=3000 pre=0 aecb1b73b79be565",
	"n=1 tag=3000 pre=18 703a34b03e1bb1b2",
	"n=2 tag=1 pre=0 314bf084046b7d7f",
	"n=2 tag=1 pre=18 4466bd40500fa1e5",
	"n=2 tag=2 pre=0 f87d94d172003ef2",
	"n=2 tag=2 pre=18 20a162332e6f8a6a",
	"n=2 tag=13 pre=0 aa25f6a1608ddcc5",
	"n=2 tag=13 pre=18 a9655a2432484673",
	"n=2 tag=15 pre=0 b2ef741d9fce16bd",
	"n=2 tag=15 pre=18 c15d73f523639066",
	"n=2 tag=16 pre=0 cbf861f56dde6774",
	"n=2 tag=16 pre=18 986356f4688cbb47",
	"n=2 tag=3000 pre=0 366f14a201d6d388",
	"n=2 tag=3000 pre=18 3ed0d5f3a713c7ff",
	"n=3 tag=1 pre=0 30c2818bbacb5565",
	"n=3 tag=1 pre=18 2d6951e4dac159a9",
	"n=3 tag=2 pre=0 4845d9fd04ed49d8",
	"n=3 tag=2 pre=18 7c941764458e27be",
	"n=3 tag=13 pre=0 2495f9900ede76d6",
	"n=3 tag=13 pre=18 85dd63fa7d41f221",
	"n=3 tag=15 pre=0 fcff284fefac555c",
	"n=3 tag=15 pre=18 5c9b8b5fa26899da",
	"n=3 tag=16 pre=0 d5dd5717d2282b99",
	"n=3 tag=16 pre=18 e9685b9c85c029c4",
	"n=3 tag=3000 pre=0 2a3abc6d5045f66a",
	"n=3 tag=3000 pre=18 f316d5f98f6e2541",
	"n=4 tag=1 pre=0 51739b051064eaf7",
	"n=4 tag=1 pre=18 e466032057973f83",
	"n=4 tag=2 pre=0 bac534c012933ed2",
	"n=4 tag=2 pre=18 5a18cb5b93a1f0b2",
	"n=4 tag=13 pre=0 02d450b2a9c20e37",
	"n=4 tag=13 pre=18 50614e547771f2a2",
	"n=4 tag=15 pre=0 73ed186ac620c01e",
	"n=4 tag=15 pre=18 a6a190ec56c58a2e",
	"n=4 tag=16 pre=0 48ce48b23ff72c6e",
	"n=4 tag=16 pre=18 1d60889938aee500",
	"n=4 tag=3000 pre=0 75c9fedceb824758",
	"n=4 tag=3000 pre=18 e9b8c5b1cd3532f9",
	"n=5 tag=1 pre=0 aa351b46b14b933f",
	"n=5 tag=1 pre=18 36f8fcd2dcfab390",
	"n=5 tag=2 pre=0 c2ef7521178adbad",
	"n=5 tag=2 pre=18 a27b1a52560f8387",
	"n=5 tag=13 pre=0 773c0884eecf1cb1",
	"n=5 tag=13 pre=18 3247d5b00b60923d",
	"n=5 tag=15 pre=0 485e0711b475fb0c",
	"n=5 tag=15 pre=18 227367bb83a6e580",
	"n=5 tag=16 pre=0 df81cb5ac39386fc",
	"n=5 tag=16 pre=18 7c31ed147af201af",
	"n=5 tag=3000 pre=0 f1a0d36831bf14c4",
	"n=5 tag=3000 pre=18 77a75242d1561ef4",
	"n=17 tag=1 pre=0 ca48219d7af138ce",
	"n=17 tag=1 pre=18 16b2036062d38ecd",
	"n=17 tag=2 pre=0 6938dfa589f00032",
	"n=17 tag=2 pre=18 0bbacf97dad7d700",
	"n=17 tag=13 pre=0 29895b741995083b",
	"n=17 tag=13 pre=18 e550d03473f6dc4c",
	"n=17 tag=15 pre=0 75ab9acecb441c18",
	"n=17 tag=15 pre=18 3f28af5a3db06225",
	"n=17 tag=16 pre=0 7dc5f67e468fb803",
	"n=17 tag=16 pre=18 89eeb0be09836ee9",
	"n=17 tag=3000 pre=0 71c4b0d1a1013950",
	"n=17 tag=3000 pre=18 a710b186302013d9",
	"n=126 tag=1 pre=0 f3c8b70dfcc6b439",
	"n=126 tag=1 pre=18 ab7d3151e44046c5",
	"n=126 tag=2 pre=0 08b305a93f254492",
	"n=126 tag=2 pre=18 10fe14eb7b6a38a0",
	"n=126 tag=13 pre=0 2b3085d084acafa4",
	"n=126 tag=13 pre=18 28a01cb9c4fa81ea",
	"n=126 tag=15 pre=0 01ae1b505b377028",
	"n=126 tag=15 pre=18 537ee525c308b929",
	"n=126 tag=16 pre=0 4275527fa9daf018",
	"n=126 tag=16 pre=18 7ecd6ca7e043bf6c",
	"n=126 tag=3000 pre=0 09f782b88b2f89e0",
	"n=126 tag=3000 pre=18 3160de94f09e8d4c",
	"n=127 tag=1 pre=0 9097177aec3c5599",
	"n=127 tag=1 pre=18 fa276a6dbf91050c",
	"n=127 tag=2 pre=0 abe78940f902a4e0",
	"n=127 tag=2 pre=18 ff510970f8bfff47",
	"n=127 tag=13 pre=0 7cdffb3cffd0df39",
	"n=127 tag=13 pre=18 b5edcc62e8d59861",
	"n=127 tag=15 pre=0 8b18547e5486896c",
	"n=127 tag=15 pre=18 91f61572fd8460bb",
	"n=127 tag=16 pre=0 6e83a431f1fb5a29",
	"n=127 tag=16 pre=18 08b76bdc96802402",
	"n=127 tag=3000 pre=0 2fd828f35a39063f",
	"n=127 tag=3000 pre=18 2ac542d2c54db9c1",
	"n=128 tag=1 pre=0 856a6aaaa74565bc",
	"n=128 tag=1 pre=18 9cc3e22d47cf0cbd",
	"n=128 tag=2 pre=0 5557fc573369889b",
	"n=128 tag=2 pre=18 70a326676b776f59",
	"n=128 tag=13 pre=0 68432a6efaf31ef5",
	"n=128 tag=13 pre=18 35121a4ffcdf5031",
	"n=128 tag=15 pre=0 b2f4fb1e600fe1e4",
	"n=128 tag=15 pre=18 f12480bdcc44999a",
	"n=128 tag=16 pre=0 94173a4fdc0aa01b",
	"n=128 tag=16 pre=18 566f3414e487cfac",
	"n=128 tag=3000 pre=0 553e4a6a49aa9b26",
	"n=128 tag=3000 pre=18 f3a7838446a745e0",
	"n=129 tag=1 pre=0 409576e42ff24aa3",
	"n=129 tag=1 pre=18 a9609f139f0d5be7",
	"n=129 tag=2 pre=0 efa09f84a2f88abf",
	"n=129 tag=2 pre=18 e6a99a174bf39866",
	"n=129 tag=13 pre=0 2a09c74e9fbdaedb",
	"n=129 tag=13 pre=18 15dcdabcf5d98955",
	"n=129 tag=15 pre=0 01822dffde7d959d",
	"n=129 tag=15 pre=18 9dc376cafbd81a20",
	"n=129 tag=16 pre=0 df5911378bf17b83",
	"n=129 tag=16 pre=18 bac2d108e5f91435",
	"n=129 tag=3000 pre=0 14ddb3547acd3922",
	"n=129 tag=3000 pre=18 591cac1485f8f2fa",
	"n=2000 tag=1 pre=0 779934827e7e4520",
	"n=2000 tag=1 pre=18 494515267146fe64",
	"n=2000 tag=2 pre=0 a2a1e1dc49de7b2c",
	"n=2000 tag=2 pre=18 4f1976806321b89d",
	"n=2000 tag=13 pre=0 629ab589d60d5aaf",
	"n=2000 tag=13 pre=18 b76db8f13a402e87",
	"n=2000 tag=15 pre=0 be7cb9b3e88ff381",
	"n=2000 tag=15 pre=18 4dce7ddc36508dc1",
	"n=2000 tag=16 pre=0 edd8c0c11c392d0b",
	"n=2000 tag=16 pre=18 7d4de5b31af5fcd3",
	"n=2000 tag=3000 pre=0 9788fa826a010ba2",
	"n=2000 tag=3000 pre=18 c69f23c704d7f5d9",
	"n=20000 tag=1 pre=0 7617d24ccf8a1cd0",
	"n=20000 tag=1 pre=18 db0212dcdd723968",
	"n=20000 tag=2 pre=0 daa9ab182be7bee7",
	"n=20000 tag=2 pre=18 217f5408ca410cd9",
	"n=20000 tag=13 pre=0 03ea5c0ae8930f75",
	"n=20000 tag=13 pre=18 d84bd1f6b4695c8d",
	"n=20000 tag=15 pre=0 7a734aa51a219179",
	"n=20000 tag=15 pre=18 69638c34d3325ebc",
	"n=20000 tag=16 pre=0 be5b1df39305a6c9",
	"n=20000 tag=16 pre=18 e941d9478a33544b",
	"n=20000 tag=3000 pre=0 6ba6f11d662f9d4a",
	"n=20000 tag=3000 pre=18 b8a1933a3b59c018",
	"080108020a0d01ac02ffffffffffffffffff01120cffffffffffffffffff010005",
}
