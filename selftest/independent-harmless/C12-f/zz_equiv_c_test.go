package driver

import (
	"fmt"
	"io"
	"os"
	"sort"
	"strings"
	"sync"
	"testing"
	"time"

	"github.com/google/pprof/internal/plugin"
	"github.com/google/pprof/profile"
)

// zzUI records every error message (concurrently safe).
type zzUI struct {
	mu   sync.Mutex
	errs []string
}

func (u *zzUI) ReadLine(string) (string, error) { return "", io.EOF }
func (u *zzUI) Print(args ...interface{})       {}
func (u *zzUI) PrintErr(args ...interface{}) {
	u.mu.Lock()
	defer u.mu.Unlock()
	u.errs = append(u.errs, fmt.Sprint(args...))
}
func (u *zzUI) IsTerminal() bool                    { return false }
func (u *zzUI) WantBrowser() bool                   { return false }
func (u *zzUI) SetAutoComplete(func(string) string) {}
func (u *zzUI) sorted() []string {
	u.mu.Lock()
	defer u.mu.Unlock()
	s := append([]string(nil), u.errs...)
	sort.Strings(s)
	return s
}

type zzObj struct{}

func (zzObj) Open(string, uint64, uint64, uint64, string) (plugin.ObjFile, error) {
	return nil, fmt.Errorf("no binaries here")
}
func (zzObj) Disasm(string, uint64, uint64, bool) ([]plugin.Inst, error) {
	return nil, fmt.Errorf("unimplemented")
}

// zzFetcher serves a distinct small profile for source "pN"; "failN" fails,
// "badN" is an invalid profile. Fetches of earlier sources take longer so
// that they complete out of order.
type zzFetcher struct {
	mu    sync.Mutex
	calls []string
}

func zzSourceProfile(n int) *profile.Profile {
	m := []*profile.Mapping{
		{ID: 1, Start: 0x1000, Limit: 0x2000, File: "/bin/main", BuildID: "main-id"},
		{ID: 2, Start: uint64(0x10000 * (n%3 + 1)), Limit: uint64(0x10000*(n%3+1) + 0x1000)},
	}
	fn := &profile.Function{ID: 9, Name: fmt.Sprintf("known%d", n%2), SystemName: fmt.Sprintf("known%d", n%2), Filename: "k.go"}
	locs := []*profile.Location{
		{ID: 3, Mapping: m[0], Address: 0x1000 + uint64(n%4)},
		{ID: 1, Mapping: m[0], Address: 0x1fff, Line: []profile.Line{{Function: fn, Line: int64(n % 5)}}},
		{ID: 7, Mapping: m[1], Address: m[1].Start + 0x10},
	}
	return &profile.Profile{
		SampleType: []*profile.ValueType{{Type: "samples", Unit: "count"}, {Type: "cpu", Unit: "milliseconds"}},
		PeriodType: &profile.ValueType{Type: "cpu", Unit: "milliseconds"},
		Period:     10,
		Mapping:    m,
		Location:   locs,
		Function:   []*profile.Function{fn},
		Sample: []*profile.Sample{
			{Location: []*profile.Location{locs[0], locs[1]}, Value: []int64{int64(n + 1), int64(10 * (n + 1))}, Label: map[string][]string{"src": {fmt.Sprint(n % 2)}}},
			{Location: []*profile.Location{locs[2], locs[1], locs[0]}, Value: []int64{1, int64(1000 + n)}},
		},
	}
}

func (f *zzFetcher) Fetch(src string, duration, timeout time.Duration) (*profile.Profile, string, error) {
	f.mu.Lock()
	f.calls = append(f.calls, src)
	f.mu.Unlock()
	var n int
	switch {
	case strings.HasPrefix(src, "fail"):
		return nil, "", fmt.Errorf("cannot fetch %s", src)
	case strings.HasPrefix(src, "bad"):
		p := zzSourceProfile(0)
		p.Sample[0].Value = p.Sample[0].Value[:1]
		return p, "", nil
	case strings.HasPrefix(src, "local"):
		fmt.Sscanf(src, "local%d", &n)
		return zzSourceProfile(n), "", nil
	case strings.HasPrefix(src, "remote"):
		fmt.Sscanf(src, "remote%d", &n)
		return zzSourceProfile(n), "http://example.test/" + src, nil
	}
	fmt.Sscanf(src, "p%d", &n)
	time.Sleep(time.Duration((7-n%8)*2) * time.Millisecond)
	return zzSourceProfile(n), "http://" + testSourceAddress + "/" + src, nil
}

func zzSources(s *source, addrs ...string) []profileSource {
	var out []profileSource
	for _, a := range addrs {
		out = append(out, profileSource{addr: a, source: s})
	}
	return out
}

func zzMsrc(ms plugin.MappingSources) string {
	var keys []string
	for k := range ms {
		keys = append(keys, k)
	}
	sort.Strings(keys)
	var b strings.Builder
	for _, k := range keys {
		fmt.Fprintf(&b, "%s=%v\n", k, ms[k])
	}
	return b.String()
}

func zzProf(p *profile.Profile) string {
	if p == nil {
		return "<nil profile>\n"
	}
	if err := p.CheckValid(); err != nil {
		return "INVALID: " + err.Error() + "\n"
	}
	return p.String()
}

func zzCheck(t *testing.T, name, got string) {
	t.Helper()
	if out := os.Getenv("ZZ_PRINT"); out != "" {
		f, _ := os.OpenFile(out, os.O_APPEND|os.O_CREATE|os.O_WRONLY, 0644)
		fmt.Fprintf(f, "\t%q: `%s`,\n", name, got)
		f.Close()
	}
	if want := zzWant[name]; got != want {
		t.Errorf("%s:\n got:\n%s\nwant:\n%s", name, got, want)
	}
}

func zzEnv(t *testing.T) {
	t.Setenv("PPROF_TMPDIR", t.TempDir())
	t.Setenv("PPROF_BINARY_PATH", t.TempDir())
}

func TestZZEquivCConcurrentGrab(t *testing.T) {
	zzEnv(t)
	s := &source{}
	for name, addrs := range map[string][]string{
		"grab-mixed":      {"p0", "fail1", "p2", "p3", "bad4", "local5", "p6"},
		"grab-all-fail":   {"fail0", "bad1", "fail2"},
		"grab-one":        {"p3"},
		"grab-remote":     {"local1", "remote2", "p4"},
		"grab-none":       {},
		"grab-dup-source": {"p1", "p1", "p1"},
	} {
		ui := &zzUI{}
		f := &zzFetcher{}
		p, msrc, save, count, err := concurrentGrab(zzSources(s, addrs...), f, zzObj{}, ui, nil)
		sort.Strings(f.calls)
		zzCheck(t, name, fmt.Sprintf("err=%v save=%v count=%d\ncalls=%q\nui=%q\nmsrc:\n%s%s", err, save, count, f.calls, ui.errs, zzMsrc(msrc), zzProf(p)))
	}
}

func TestZZEquivCChunkedAndBases(t *testing.T) {
	zzEnv(t)
	s := &source{}
	var many []string
	for i := 0; i < 300; i++ {
		switch {
		case i%50 == 17:
			many = append(many, fmt.Sprintf("fail%d", i))
		case i >= 128 && i < 256:
			many = append(many, fmt.Sprintf("fail%d", i)) // a chunk that yields nothing
		default:
			many = append(many, fmt.Sprintf("local%d", i))
		}
	}
	{
		ui := &zzUI{}
		p, msrc, save, count, err := chunkedGrab(zzSources(s, many...), &zzFetcher{}, zzObj{}, ui, nil)
		zzCheck(t, "chunked-300", fmt.Sprintf("err=%v save=%v count=%d\nnui=%d ui[0]=%q ui[last]=%q\nmsrc:\n%s%s", err, save, count, len(ui.errs), ui.errs[0], ui.errs[len(ui.errs)-1], zzMsrc(msrc), zzProf(p)))
	}
	for name, tc := range map[string]struct{ src, base []string }{
		"sb-both":       {[]string{"p0", "p1", "fail2"}, []string{"p5", "fail6", "remote7"}},
		"sb-no-base":    {[]string{"p0", "remote1"}, nil},
		"sb-src-fails":  {[]string{"fail0"}, []string{"p1"}},
		"sb-base-fails": {[]string{"p0"}, []string{"fail1", "bad2"}},
		"sb-no-sources": {nil, []string{"p1"}},
	} {
		ui := &zzUI{}
		p, pbase, m, mbase, save, err := grabSourcesAndBases(zzSources(s, tc.src...), zzSources(s, tc.base...), &zzFetcher{}, zzObj{}, ui, nil)
		zzCheck(t, name, fmt.Sprintf("err=%v save=%v\nui(sorted)=%q\nmsrc:\n%smbase:\n%s-- src\n%s-- base\n%s", err, save, ui.sorted(), zzMsrc(m), zzMsrc(mbase), zzProf(p), zzProf(pbase)))
	}
}

// zzSym is a symbolizer plug-in that names every unsymbolized location and
// records what it was handed.
type zzSym struct{ got string }

func (z *zzSym) Symbolize(mode string, srcs plugin.MappingSources, p *profile.Profile) error {
	z.got = fmt.Sprintf("mode=%q\nmsrc:\n%s%s", mode, zzMsrc(srcs), zzProf(p))
	id := uint64(1000)
	for _, l := range p.Location {
		if len(l.Line) == 0 {
			id++
			f := &profile.Function{ID: id, Name: fmt.Sprintf("sym_%x", l.Address), SystemName: fmt.Sprintf("sym_%x", l.Address)}
			p.Function = append(p.Function, f)
			l.Line = []profile.Line{{Function: f}}
			l.Mapping.HasFunctions = true
		}
	}
	return nil
}

func TestZZEquivCFetchProfiles(t *testing.T) {
	zzEnv(t)
	for name, s := range map[string]*source{
		"fetch-merge":     {Sources: []string{"p0", "p1", "fail2", "p3"}, Symbolize: "remote", Comment: "c"},
		"fetch-diffbase":  {Sources: []string{"p0", "p1"}, Base: []string{"p1", "p2"}, DiffBase: true, Symbolize: "force"},
		"fetch-base-norm": {Sources: []string{"p4", "local1"}, Base: []string{"p2"}, Normalize: true, ExecName: "/override/exe", BuildID: "ignored"},
	} {
		ui := &zzUI{}
		sym := &zzSym{}
		o := &plugin.Options{Fetch: &zzFetcher{}, Obj: zzObj{}, UI: ui, Sym: sym}
		p, err := fetchProfiles(s, o)
		zzCheck(t, name, fmt.Sprintf("err=%v\nui(sorted)=%q\n-- symbolizer saw\n%s-- result\n%s", err, ui.sorted(), sym.got, zzProf(p)))
	}
}

var zzWant = map[string]string{
	"grab-mixed": `err=<nil> save=false count=5
calls=["bad4" "fail1" "local5" "p0" "p2" "p3" "p6"]
ui=["fail1: cannot fetch fail1" "bad4: mismatch: sample has 1 values vs. 2 types"]
msrc:
http://pproftest.local/p0=[{http://pproftest.local/p0 65536}]
http://pproftest.local/p2=[{http://pproftest.local/p2 196608}]
http://pproftest.local/p3=[{http://pproftest.local/p3 65536}]
http://pproftest.local/p6=[{http://pproftest.local/p6 65536}]
main-id=[{http://pproftest.local/p0 4096} {http://pproftest.local/p2 4096} {http://pproftest.local/p3 4096} {http://pproftest.local/p6 4096}]
PeriodType: cpu milliseconds
Period: 10
Samples:
samples/count cpu/milliseconds
          1         10: 1 2 
                src:[0]
          1       1000: 3 2 1 
          3         30: 4 5 
                src:[0]
          1       1002: 6 5 4 
          4         40: 7 8 
                src:[1]
          1       1003: 9 8 7 
          6         60: 10 11 
                src:[1]
          1       1005: 12 11 10 
          7         70: 4 13 
                src:[0]
          1       1006: 14 13 4 
Locations
     1: 0x1000 M=1 
     2: 0x1fff M=1 known0 k.go:0:0 s=0
     3: 0x10010 M=2 
     4: 0x1002 M=1 
     5: 0x1fff M=1 known0 k.go:2:0 s=0
     6: 0x30010 M=3 
     7: 0x1003 M=1 
     8: 0x1fff M=1 known1 k.go:3:0 s=0
     9: 0x10010 M=4 
    10: 0x1001 M=1 
    11: 0x1fff M=1 known1 k.go:0:0 s=0
    12: 0x30010 M=5 
    13: 0x1fff M=1 known0 k.go:1:0 s=0
    14: 0x10010 M=6 
Mappings
1: 0x1000/0x2000/0x0 /bin/main main-id 
2: 0x10000/0x11000/0x0 http://pproftest.local/p0  
3: 0x30000/0x31000/0x0 http://pproftest.local/p2  
4: 0x10000/0x11000/0x0 http://pproftest.local/p3  
5: 0x30000/0x31000/0x0   
6: 0x10000/0x11000/0x0 http://pproftest.local/p6  
`,
	"grab-all-fail": `err=<nil> save=false count=0
calls=["bad1" "fail0" "fail2"]
ui=["fail0: cannot fetch fail0" "bad1: mismatch: sample has 1 values vs. 2 types" "fail2: cannot fetch fail2"]
msrc:
<nil profile>
`,
	"grab-one": `err=<nil> save=false count=1
calls=["p3"]
ui=[]
msrc:
http://pproftest.local/p3=[{http://pproftest.local/p3 65536}]
main-id=[{http://pproftest.local/p3 4096}]
PeriodType: cpu milliseconds
Period: 10
Samples:
samples/count cpu/milliseconds
          4         40: 3 1 
                src:[1]
          1       1003: 7 1 3 
Locations
     3: 0x1003 M=1 
     1: 0x1fff M=1 known1 k.go:3:0 s=0
     7: 0x10010 M=2 
Mappings
1: 0x1000/0x2000/0x0 /bin/main main-id 
2: 0x10000/0x11000/0x0 http://pproftest.local/p3  
`,
	"grab-remote": `err=<nil> save=true count=3
calls=["local1" "p4" "remote2"]
ui=[]
msrc:
http://example.test/remote2=[{http://example.test/remote2 196608}]
http://pproftest.local/p4=[{http://pproftest.local/p4 131072}]
main-id=[{http://example.test/remote2 4096} {http://pproftest.local/p4 4096}]
PeriodType: cpu milliseconds
Period: 10
Samples:
samples/count cpu/milliseconds
          2         20: 1 2 
                src:[1]
          1       1001: 3 2 1 
          3         30: 4 5 
                src:[0]
          1       1002: 6 5 4 
          5         50: 7 8 
                src:[0]
          1       1004: 9 8 7 
Locations
     1: 0x1001 M=1 
     2: 0x1fff M=1 known1 k.go:1:0 s=0
     3: 0x20010 M=2 
     4: 0x1002 M=1 
     5: 0x1fff M=1 known0 k.go:2:0 s=0
     6: 0x30010 M=3 
     7: 0x1000 M=1 
     8: 0x1fff M=1 known0 k.go:4:0 s=0
     9: 0x20010 M=4 
Mappings
1: 0x1000/0x2000/0x0 /bin/main main-id 
2: 0x20000/0x21000/0x0   
3: 0x30000/0x31000/0x0 http://example.test/remote2  
4: 0x20000/0x21000/0x0 http://pproftest.local/p4  
`,
	"grab-none": `err=<nil> save=false count=0
calls=[]
ui=[]
msrc:
<nil profile>
`,
	"grab-dup-source": `err=<nil> save=false count=3
calls=["p1" "p1" "p1"]
ui=[]
msrc:
http://pproftest.local/p1=[{http://pproftest.local/p1 131072} {http://pproftest.local/p1 131072} {http://pproftest.local/p1 131072}]
main-id=[{http://pproftest.local/p1 4096} {http://pproftest.local/p1 4096} {http://pproftest.local/p1 4096}]
PeriodType: cpu milliseconds
Period: 10
Samples:
samples/count cpu/milliseconds
          6         60: 1 2 
                src:[1]
          3       3003: 3 2 1 
Locations
     1: 0x1001 M=1 
     2: 0x1fff M=1 known1 k.go:1:0 s=0
     3: 0x20010 M=2 
Mappings
1: 0x1000/0x2000/0x0 /bin/main main-id 
2: 0x20000/0x21000/0x0 http://pproftest.local/p1  
`,
	"chunked-300": `err=<nil> save=false count=168
nui=132 ui[0]="fail17: cannot fetch fail17" ui[last]="fail267: cannot fetch fail267"
msrc:
PeriodType: cpu milliseconds
Period: 10
Samples:
samples/count cpu/milliseconds
        969       9690: 1 2 
                src:[0]
          9       9960: 3 2 1 
        978       9780: 4 5 
                src:[1]
          9       9969: 3 5 4 
        987       9870: 6 7 
                src:[0]
          9       9978: 3 7 6 
        996       9960: 8 9 
                src:[1]
          9       9987: 3 9 8 
       1005      10050: 1 10 
                src:[0]
          9       9996: 3 10 1 
       1014      10140: 4 11 
                src:[1]
          9      10005: 3 11 4 
       1023      10230: 6 12 
                src:[0]
          9      10014: 3 12 6 
        696       6960: 8 13 
                src:[1]
          7       7689: 3 13 8 
        912       9120: 1 14 
                src:[0]
          8       8904: 3 14 1 
        920       9200: 4 15 
                src:[1]
          8       8912: 3 15 4 
        928       9280: 6 2 
                src:[0]
          8       8920: 3 2 6 
        936       9360: 8 5 
                src:[1]
          8       8928: 3 5 8 
        944       9440: 1 7 
                src:[0]
          8       8936: 3 7 1 
        952       9520: 4 9 
                src:[1]
          8       8944: 3 9 4 
        960       9600: 6 10 
                src:[0]
          8       8952: 3 10 6 
        968       9680: 8 11 
                src:[1]
          8       8960: 3 11 8 
       1233      12330: 1 12 
                src:[0]
          9      10224: 3 12 1 
       1251      12510: 6 14 
                src:[0]
          9      10242: 3 14 6 
       1260      12600: 8 15 
                src:[1]
          9      10251: 3 15 8 
       1106      11060: 4 13 
                src:[1]
          7       8099: 3 13 4 
Locations
     1: 0x1000 M=1 
     2: 0x1fff M=1 known0 k.go:0:0 s=0
     3: 0x10010 M=2 
     4: 0x1001 M=1 
     5: 0x1fff M=1 known1 k.go:1:0 s=0
     6: 0x1002 M=1 
     7: 0x1fff M=1 known0 k.go:2:0 s=0
     8: 0x1003 M=1 
     9: 0x1fff M=1 known1 k.go:3:0 s=0
    10: 0x1fff M=1 known0 k.go:4:0 s=0
    11: 0x1fff M=1 known1 k.go:0:0 s=0
    12: 0x1fff M=1 known0 k.go:1:0 s=0
    13: 0x1fff M=1 known1 k.go:2:0 s=0
    14: 0x1fff M=1 known0 k.go:3:0 s=0
    15: 0x1fff M=1 known1 k.go:4:0 s=0
Mappings
1: 0x1000/0x2000/0x0 /bin/main main-id 
2: 0x10000/0x11000/0x0   
`,
	"sb-both": `err=<nil> save=true
ui(sorted)=["Fetched 2 base profiles out of 3" "Fetched 2 source profiles out of 3" "fail2: cannot fetch fail2" "fail6: cannot fetch fail6"]
msrc:
http://pproftest.local/p0=[{http://pproftest.local/p0 65536}]
http://pproftest.local/p1=[{http://pproftest.local/p1 131072}]
main-id=[{http://pproftest.local/p0 4096} {http://pproftest.local/p1 4096}]
mbase:
http://example.test/remote7=[{http://example.test/remote7 131072}]
http://pproftest.local/p5=[{http://pproftest.local/p5 196608}]
main-id=[{http://pproftest.local/p5 4096} {http://example.test/remote7 4096}]
-- src
PeriodType: cpu milliseconds
Period: 10
Samples:
samples/count cpu/milliseconds
          1         10: 1 2 
                src:[0]
          1       1000: 3 2 1 
          2         20: 4 5 
                src:[1]
          1       1001: 6 5 4 
Locations
     1: 0x1000 M=1 
     2: 0x1fff M=1 known0 k.go:0:0 s=0
     3: 0x10010 M=2 
     4: 0x1001 M=1 
     5: 0x1fff M=1 known1 k.go:1:0 s=0
     6: 0x20010 M=3 
Mappings
1: 0x1000/0x2000/0x0 /bin/main main-id 
2: 0x10000/0x11000/0x0 http://pproftest.local/p0  
3: 0x20000/0x21000/0x0 http://pproftest.local/p1  
-- base
PeriodType: cpu milliseconds
Period: 10
Samples:
samples/count cpu/milliseconds
          6         60: 1 2 
                src:[1]
          1       1005: 3 2 1 
          8         80: 4 5 
                src:[1]
          1       1007: 6 5 4 
Locations
     1: 0x1001 M=1 
     2: 0x1fff M=1 known1 k.go:0:0 s=0
     3: 0x30010 M=2 
     4: 0x1003 M=1 
     5: 0x1fff M=1 known1 k.go:2:0 s=0
     6: 0x20010 M=3 
Mappings
1: 0x1000/0x2000/0x0 /bin/main main-id 
2: 0x30000/0x31000/0x0 http://pproftest.local/p5  
3: 0x20000/0x21000/0x0 http://example.test/remote7  
`,
	"sb-no-base": `err=<nil> save=true
ui(sorted)=[]
msrc:
http://example.test/remote1=[{http://example.test/remote1 131072}]
http://pproftest.local/p0=[{http://pproftest.local/p0 65536}]
main-id=[{http://pproftest.local/p0 4096} {http://example.test/remote1 4096}]
mbase:
-- src
PeriodType: cpu milliseconds
Period: 10
Samples:
samples/count cpu/milliseconds
          1         10: 1 2 
                src:[0]
          1       1000: 3 2 1 
          2         20: 4 5 
                src:[1]
          1       1001: 6 5 4 
Locations
     1: 0x1000 M=1 
     2: 0x1fff M=1 known0 k.go:0:0 s=0
     3: 0x10010 M=2 
     4: 0x1001 M=1 
     5: 0x1fff M=1 known1 k.go:1:0 s=0
     6: 0x20010 M=3 
Mappings
1: 0x1000/0x2000/0x0 /bin/main main-id 
2: 0x10000/0x11000/0x0 http://pproftest.local/p0  
3: 0x20000/0x21000/0x0 http://example.test/remote1  
-- base
<nil profile>
`,
	"sb-src-fails": `err=failed to fetch any source profiles save=false
ui(sorted)=["fail0: cannot fetch fail0"]
msrc:
mbase:
-- src
<nil profile>
-- base
<nil profile>
`,
	"sb-base-fails": `err=failed to fetch any base profiles save=false
ui(sorted)=["bad2: mismatch: sample has 1 values vs. 2 types" "fail1: cannot fetch fail1"]
msrc:
mbase:
-- src
<nil profile>
-- base
<nil profile>
`,
	"sb-no-sources": `err=failed to fetch any source profiles save=false
ui(sorted)=[]
msrc:
mbase:
-- src
<nil profile>
-- base
<nil profile>
`,
	"fetch-merge": `err=<nil>
ui(sorted)=["Fetched 3 source profiles out of 4" "fail2: cannot fetch fail2"]
-- symbolizer saw
mode="remote"
msrc:
http://pproftest.local/p0=[{http://pproftest.local/p0 65536}]
http://pproftest.local/p1=[{http://pproftest.local/p1 131072}]
http://pproftest.local/p3=[{http://pproftest.local/p3 65536}]
main-id=[{http://pproftest.local/p0 4096} {http://pproftest.local/p1 4096} {http://pproftest.local/p3 4096}]
PeriodType: cpu milliseconds
Period: 10
Samples:
samples/count cpu/milliseconds
          1         10: 1 2 
                src:[0]
          1       1000: 3 2 1 
          2         20: 4 5 
                src:[1]
          1       1001: 6 5 4 
          4         40: 7 8 
                src:[1]
          1       1003: 9 8 7 
Locations
     1: 0x1000 M=1 
     2: 0x1fff M=1 known0 k.go:0:0 s=0
     3: 0x10010 M=2 
     4: 0x1001 M=1 
     5: 0x1fff M=1 known1 k.go:1:0 s=0
     6: 0x20010 M=3 
     7: 0x1003 M=1 
     8: 0x1fff M=1 known1 k.go:3:0 s=0
     9: 0x10010 M=4 
Mappings
1: 0x1000/0x2000/0x0 /bin/main main-id 
2: 0x10000/0x11000/0x0 http://pproftest.local/p0  
3: 0x20000/0x21000/0x0 http://pproftest.local/p1  
4: 0x10000/0x11000/0x0 http://pproftest.local/p3  
-- result
Comment: c
PeriodType: cpu milliseconds
Period: 10
Samples:
samples/count cpu/milliseconds
          1         10: 1 2 
                src:[0]
          1       1000: 3 2 1 
          2         20: 4 5 
                src:[1]
          1       1001: 6 5 4 
          4         40: 7 8 
                src:[1]
          1       1003: 9 8 7 
Locations
     1: 0x1000 M=1 sym_1000 :0:0 s=0
     2: 0x1fff M=1 known0 k.go:0:0 s=0
     3: 0x10010 M=2 sym_10010 :0:0 s=0
     4: 0x1001 M=1 sym_1001 :0:0 s=0
     5: 0x1fff M=1 known1 k.go:1:0 s=0
     6: 0x20010 M=3 sym_20010 :0:0 s=0
     7: 0x1003 M=1 sym_1003 :0:0 s=0
     8: 0x1fff M=1 known1 k.go:3:0 s=0
     9: 0x10010 M=4 sym_10010 :0:0 s=0
Mappings
1: 0x1000/0x2000/0x0 /bin/main main-id [FN]
2: 0x10000/0x11000/0x0   [FN]
3: 0x20000/0x21000/0x0   [FN]
4: 0x10000/0x11000/0x0   [FN]
`,
	"fetch-diffbase": `err=<nil>
ui(sorted)=[]
-- symbolizer saw
mode="force"
msrc:
http://pproftest.local/p0=[{http://pproftest.local/p0 65536}]
http://pproftest.local/p1=[{http://pproftest.local/p1 131072} {http://pproftest.local/p1 131072}]
http://pproftest.local/p2=[{http://pproftest.local/p2 196608}]
main-id=[{http://pproftest.local/p0 4096} {http://pproftest.local/p1 4096} {http://pproftest.local/p1 4096} {http://pproftest.local/p2 4096}]
PeriodType: cpu milliseconds
Period: 10
Samples:
samples/count cpu/milliseconds
          1         10: 1 2 
                src:[0]
          1       1000: 3 2 1 
          2         20: 4 5 
                src:[1]
          1       1001: 6 5 4 
         -2        -20: 4 5 
                pprof::base:[true] src:[1]
         -1      -1001: 6 5 4 
                pprof::base:[true]
         -3        -30: 7 8 
                pprof::base:[true] src:[0]
         -1      -1002: 9 8 7 
                pprof::base:[true]
Locations
     1: 0x1000 M=1 
     2: 0x1fff M=1 known0 k.go:0:0 s=0
     3: 0x10010 M=2 
     4: 0x1001 M=1 
     5: 0x1fff M=1 known1 k.go:1:0 s=0
     6: 0x20010 M=3 
     7: 0x1002 M=1 
     8: 0x1fff M=1 known0 k.go:2:0 s=0
     9: 0x30010 M=4 
Mappings
1: 0x1000/0x2000/0x0 /bin/main main-id 
2: 0x10000/0x11000/0x0 http://pproftest.local/p0  
3: 0x20000/0x21000/0x0 http://pproftest.local/p1  
4: 0x30000/0x31000/0x0 http://pproftest.local/p2  
-- result
PeriodType: cpu milliseconds
Period: 10
Samples:
samples/count cpu/milliseconds
          1         10: 1 2 
                src:[0]
          1       1000: 3 2 1 
          2         20: 4 5 
                src:[1]
          1       1001: 6 5 4 
         -2        -20: 4 5 
                pprof::base:[true] src:[1]
         -1      -1001: 6 5 4 
                pprof::base:[true]
         -3        -30: 7 8 
                pprof::base:[true] src:[0]
         -1      -1002: 9 8 7 
                pprof::base:[true]
Locations
     1: 0x1000 M=1 sym_1000 :0:0 s=0
     2: 0x1fff M=1 known0 k.go:0:0 s=0
     3: 0x10010 M=2 sym_10010 :0:0 s=0
     4: 0x1001 M=1 sym_1001 :0:0 s=0
     5: 0x1fff M=1 known1 k.go:1:0 s=0
     6: 0x20010 M=3 sym_20010 :0:0 s=0
     7: 0x1002 M=1 sym_1002 :0:0 s=0
     8: 0x1fff M=1 known0 k.go:2:0 s=0
     9: 0x30010 M=4 sym_30010 :0:0 s=0
Mappings
1: 0x1000/0x2000/0x0 /bin/main main-id [FN]
2: 0x10000/0x11000/0x0   [FN]
3: 0x20000/0x21000/0x0   [FN]
4: 0x30000/0x31000/0x0   [FN]
`,
	"fetch-base-norm": `err=<nil>
ui(sorted)=[]
-- symbolizer saw
mode=""
msrc:
http://pproftest.local/p2=[{http://pproftest.local/p2 196608}]
http://pproftest.local/p4=[{http://pproftest.local/p4 131072}]
main-id=[{http://pproftest.local/p4 4096} {http://pproftest.local/p2 4096}]
PeriodType: cpu milliseconds
Period: 10
Samples:
samples/count cpu/milliseconds
          2         25: 1 2 
                src:[0]
          0        499: 3 2 1 
          1         10: 4 5 
                src:[1]
          0        498: 6 5 4 
         -3        -30: 7 8 
                src:[0]
         -1      -1002: 9 8 7 
Locations
     1: 0x1000 M=1 
     2: 0x1fff M=1 known0 k.go:4:0 s=0
     3: 0x20010 M=2 
     4: 0x1001 M=1 
     5: 0x1fff M=1 known1 k.go:1:0 s=0
     6: 0x20010 M=3 
     7: 0x1002 M=1 
     8: 0x1fff M=1 known0 k.go:2:0 s=0
     9: 0x30010 M=4 
Mappings
1: 0x1000/0x2000/0x0 /override/exe main-id 
2: 0x20000/0x21000/0x0 http://pproftest.local/p4  
3: 0x20000/0x21000/0x0   
4: 0x30000/0x31000/0x0 http://pproftest.local/p2  
-- result
PeriodType: cpu milliseconds
Period: 10
Samples:
samples/count cpu/milliseconds
          2         25: 1 2 
                src:[0]
          0        499: 3 2 1 
          1         10: 4 5 
                src:[1]
          0        498: 6 5 4 
         -3        -30: 7 8 
                src:[0]
         -1      -1002: 9 8 7 
Locations
     1: 0x1000 M=1 sym_1000 :0:0 s=0
     2: 0x1fff M=1 known0 k.go:4:0 s=0
     3: 0x20010 M=2 sym_20010 :0:0 s=0
     4: 0x1001 M=1 sym_1001 :0:0 s=0
     5: 0x1fff M=1 known1 k.go:1:0 s=0
     6: 0x20010 M=3 sym_20010 :0:0 s=0
     7: 0x1002 M=1 sym_1002 :0:0 s=0
     8: 0x1fff M=1 known0 k.go:2:0 s=0
     9: 0x30010 M=4 sym_30010 :0:0 s=0
Mappings
1: 0x1000/0x2000/0x0 /override/exe main-id [FN]
2: 0x20000/0x21000/0x0   [FN]
3: 0x20000/0x21000/0x0   [FN]
4: 0x30000/0x31000/0x0   [FN]
`,
}
