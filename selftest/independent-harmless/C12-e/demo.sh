#!/bin/sh
# usage: demo.sh <worktree root>; exits 0 iff the equivalence test passes on that tree.
set -e
ROOT="${1:?worktree root}"
HERE="$(cd "$(dirname "$0")" && pwd)"
export GOFLAGS=-mod=mod GOPROXY=off GOSUMDB=off GOTOOLCHAIN=local
DST="$ROOT/internal/symbolz/zz_equiv_b_test.go"
cp "$HERE/zz_equiv_b_test.go" "$DST"
trap 'rm -f "$DST"' EXIT
cd "$ROOT"
go test -vet=off -count=1 -run 'TestZZEquivB' ./internal/symbolz/
