package symbolz

import (
	"fmt"
	"os"
	"strings"
	"testing"

	"github.com/google/pprof/internal/plugin"
	"github.com/google/pprof/profile"
)

type zzSrc = struct {
	Source string
	Start  uint64
}

// zzProfile builds a valid profile with sparse ids, several mappings,
// duplicate addresses inside a mapping, addresses at mapping edges, a zero
// address, and locations that are already symbolized.
func zzProfile() *profile.Profile {
	m := []*profile.Mapping{
		{ID: 3, Start: 0x1000, Limit: 0x2000, File: "/bin/a"},
		{ID: 1, Start: 0x2000, Limit: 0x3000, File: "/lib/b.so", BuildID: "bid-b"},
		{ID: 8, Start: 0x3000, Limit: 0x4000, File: "/lib/c.so", HasFunctions: true},
		{ID: 9, Start: 0, Limit: 0x800, File: "//anon"},
		{ID: 12, Start: 0xffffffffffff0000, Limit: 0xffffffffffffffff, File: "[kernel]"},
		{ID: 13, Start: 0x9000, Limit: 0xa000, File: "/lib/nosource.so"},
	}
	fn := []*profile.Function{
		{ID: 7, Name: "old", SystemName: "old", Filename: "old.c"},
		{ID: 100, Name: "other", SystemName: "other"},
	}
	line := func(f *profile.Function, n int64) []profile.Line { return []profile.Line{{Function: f, Line: n}} }
	locs := []*profile.Location{
		{ID: 50, Mapping: m[0], Address: 0x1000},
		{ID: 2, Mapping: m[0], Address: 0x1fff},
		{ID: 4, Mapping: m[0], Address: 0x1234, Line: line(fn[0], 5)},
		{ID: 5, Mapping: m[0], Address: 0x1234}, // same address, not symbolized
		{ID: 6, Mapping: m[0], Address: 0x1500, Line: line(fn[1], 9)},
		{ID: 20, Mapping: m[1], Address: 0x2000},
		{ID: 21, Mapping: m[1], Address: 0x2abc},
		{ID: 22, Mapping: m[1], Address: 0x2abd},
		{ID: 23, Mapping: m[1], Address: 0x2abe},
		{ID: 24, Mapping: m[1], Address: 0x2fff},
		{ID: 30, Mapping: m[2], Address: 0x3000},
		{ID: 31, Mapping: m[2], Address: 0x3100, Line: line(fn[0], 1)},
		{ID: 40, Mapping: m[3], Address: 0},
		{ID: 41, Mapping: m[3], Address: 0x10},
		{ID: 42, Mapping: m[3], Address: 0x7ff},
		{ID: 60, Mapping: m[4], Address: 0xffffffffffff0000},
		{ID: 61, Mapping: m[4], Address: 0xfffffffffffffffe},
		{ID: 70, Mapping: m[5], Address: 0x9100},
	}
	p := &profile.Profile{
		SampleType: []*profile.ValueType{{Type: "cpu", Unit: "ns"}, {Type: "n", Unit: "count"}},
		PeriodType: &profile.ValueType{Type: "cpu", Unit: "ns"},
		Period:     10,
		Mapping:    m,
		Location:   locs,
		Function:   fn,
	}
	for i := range locs {
		p.Sample = append(p.Sample, &profile.Sample{
			Location: []*profile.Location{locs[i], locs[(i*5+3)%len(locs)], locs[(i*11+1)%len(locs)]},
			Value:    []int64{int64(i)*13 - 7, int64(i)},
			Label:    map[string][]string{"k": {fmt.Sprint(i)}},
			NumLabel: map[string][]int64{"bytes": {int64(i)}},
			NumUnit:  map[string][]string{"bytes": {"b"}},
		})
	}
	return p
}

// zzSamples renders everything symbolization must not touch.
func zzSamples(p *profile.Profile) string {
	var b strings.Builder
	for _, s := range p.Sample {
		fmt.Fprintf(&b, "%v %v %v %v:", s.Value, s.Label, s.NumLabel, s.NumUnit)
		for _, l := range s.Location {
			fmt.Fprintf(&b, " %d@%#x/M%d", l.ID, l.Address, l.Mapping.ID)
		}
		b.WriteString("\n")
	}
	for _, m := range p.Mapping {
		fmt.Fprintf(&b, "M%d %#x-%#x+%#x %s %s\n", m.ID, m.Start, m.Limit, m.Offset, m.File, m.BuildID)
	}
	return b.String()
}

// zzDump renders what symbolization may change.
func zzDump(p *profile.Profile) string {
	var b strings.Builder
	for _, l := range p.Location {
		fmt.Fprintf(&b, "L%d %#x M%d:", l.ID, l.Address, l.Mapping.ID)
		for _, ln := range l.Line {
			fmt.Fprintf(&b, " F%d@%d:%d", ln.Function.ID, ln.Line, ln.Column)
		}
		b.WriteString("\n")
	}
	for _, m := range p.Mapping {
		fmt.Fprintf(&b, "M%d fn=%v file=%v line=%v inl=%v\n", m.ID, m.HasFunctions, m.HasFilenames, m.HasLineNumbers, m.HasInlineFrames)
	}
	for _, f := range p.Function {
		fmt.Fprintf(&b, "F%d %q %q %q %d\n", f.ID, f.Name, f.SystemName, f.Filename, f.StartLine)
	}
	return b.String()
}

type zzCase struct {
	name    string
	force   bool
	sources plugin.MappingSources
	// answer computes the reply of the symbol service for the n-th call.
	answer func(n int, addrs []string) ([]byte, error)
}

func zzDefaultSources() plugin.MappingSources {
	return plugin.MappingSources{
		"/bin/a":    {{Source: "not a url"}, {Source: "http://h:1/debug/pprof/profile?seconds=3", Start: 0x1000}},
		"/lib/b.so": {{Source: "http://h:2/pprofz/heap", Start: 0x2000 + 0x100}},
		"bid-b":     {{Source: "http://h:3/unused", Start: 1}},
		"/lib/c.so": {{Source: "http://h:4/pprof/heap", Start: 0x3000 - 0x20}},
		"//anon":    {{Source: "http://h:5/x/y", Start: 0x40}},
		"[kernel]":  {{Source: "http://h:6/debug/pprof/profile", Start: 0xffffffffffff0000 - 0x1000}},
	}
}

func zzAll(n int, addrs []string) ([]byte, error) {
	var b strings.Builder
	for i, a := range addrs {
		fmt.Fprintf(&b, "%s  fn_%d_%d (with spaces)\n", a, n, i%2)
	}
	return []byte(b.String()), nil
}

var zzCases = []zzCase{
	{name: "all", sources: zzDefaultSources(), answer: zzAll},
	{name: "all-force", force: true, sources: zzDefaultSources(), answer: zzAll},
	{
		name: "partial-garbage-noeol", sources: zzDefaultSources(),
		answer: func(n int, addrs []string) ([]byte, error) {
			var b strings.Builder
			b.WriteString("num_symbols: 3\n\ngarbage line\n0xdeadbeef unknown_addr\n")
			for i, a := range addrs {
				switch i % 3 {
				case 0:
					fmt.Fprintf(&b, "%s\tshared\n", a)
				case 1:
					fmt.Fprintf(&b, "  %s %s\n", strings.ToUpper(a[2:]), "nohexprefix")
					fmt.Fprintf(&b, "0x%s upper_%d\n", strings.ToUpper(a[2:]), n)
				}
			}
			fmt.Fprintf(&b, "%s first_answer\n%s last_answer_wins\n", addrs[0], addrs[0])
			fmt.Fprintf(&b, "%s dropped_no_newline", addrs[len(addrs)-1])
			return []byte(b.String()), nil
		},
	},
	{
		name: "empty-answers", force: true, sources: zzDefaultSources(),
		answer: func(n int, addrs []string) ([]byte, error) { return nil, nil },
	},
	{
		name: "error-at-second-call", force: true, sources: zzDefaultSources(),
		answer: func(n int, addrs []string) ([]byte, error) {
			if n == 1 {
				return nil, fmt.Errorf("service down")
			}
			return zzAll(n, addrs)
		},
	},
	{
		name: "bad-hex-answer", sources: zzDefaultSources(),
		answer: func(n int, addrs []string) ([]byte, error) {
			return []byte(addrs[0] + " ok\n0x10000000000000000 toolong\n" + addrs[0] + " never\n"), nil
		},
	},
	{
		name: "answer-underflows", sources: plugin.MappingSources{"/lib/b.so": {{Source: "http://h:2/pprofz/heap", Start: 0x2000 + 0x100}}},
		answer: func(n int, addrs []string) ([]byte, error) {
			return []byte(addrs[1] + " ok\n0x5 underflow\n" + addrs[0] + " never\n"), nil
		},
	},
	{
		name: "query-overflows", sources: plugin.MappingSources{
			"/bin/a":   {{Source: "http://h:1/symbolz", Start: 0x1000}},
			"[kernel]": {{Source: "http://h:6/debug/pprof/heap", Start: 0xffffffffffff0000 + 0x10}},
		},
		answer: zzAll,
	},
	{
		name: "query-adjusts-to-zero", sources: plugin.MappingSources{"/bin/a": {{Source: "http://h:1/a/b/c", Start: 0}}},
		answer: zzAll,
	},
	{
		name: "buildid-source-only", sources: plugin.MappingSources{"bid-b": {{Source: "http://h:3/debug/pprof/heap", Start: 0x2000}}},
		answer: zzAll,
	},
}

var zzWant = map[string]string{
	"all": `err=<nil>
calls=["http://h:1/debug/pprof/symbol 0x1000+0x1fff+0x1234" "http://h:2/pprofz/symbolz 0x2100+0x2bbc+0x2bbd+0x2bbe+0x30ff" "http://h:5/x/symbolz 0x50+0x83f" "http://h:6/debug/pprof/symbol 0xfffffffffffef000+0xffffffffffffeffe"]
L50 0x1000 M3: F101@0:0
L2 0x1fff M3: F102@0:0
L4 0x1234 M3: F101@0:0
L5 0x1234 M3: F101@0:0
L6 0x1500 M3: F100@9:0
L20 0x2000 M1: F103@0:0
L21 0x2abc M1: F104@0:0
L22 0x2abd M1: F103@0:0
L23 0x2abe M1: F104@0:0
L24 0x2fff M1: F103@0:0
L30 0x3000 M8:
L31 0x3100 M8: F7@1:0
L40 0x0 M9:
L41 0x10 M9: F105@0:0
L42 0x7ff M9: F106@0:0
L60 0xffffffffffff0000 M12: F107@0:0
L61 0xfffffffffffffffe M12: F108@0:0
L70 0x9100 M13:
M3 fn=true file=false line=false inl=false
M1 fn=true file=false line=false inl=false
M8 fn=true file=false line=false inl=false
M9 fn=true file=false line=false inl=false
M12 fn=true file=false line=false inl=false
M13 fn=false file=false line=false inl=false
F7 "old" "old" "old.c" 0
F100 "other" "other" "" 0
F101 "fn_0_0 (with spaces)" "fn_0_0 (with spaces)" "" 0
F102 "fn_0_1 (with spaces)" "fn_0_1 (with spaces)" "" 0
F103 "fn_1_0 (with spaces)" "fn_1_0 (with spaces)" "" 0
F104 "fn_1_1 (with spaces)" "fn_1_1 (with spaces)" "" 0
F105 "fn_2_0 (with spaces)" "fn_2_0 (with spaces)" "" 0
F106 "fn_2_1 (with spaces)" "fn_2_1 (with spaces)" "" 0
F107 "fn_3_0 (with spaces)" "fn_3_0 (with spaces)" "" 0
F108 "fn_3_1 (with spaces)" "fn_3_1 (with spaces)" "" 0
`,
	"all-force": `err=<nil>
calls=["http://h:1/debug/pprof/symbol 0x1000+0x1fff+0x1234" "http://h:2/pprofz/symbolz 0x2100+0x2bbc+0x2bbd+0x2bbe+0x30ff" "http://h:4/pprof/symbol 0x2fe0" "http://h:5/x/symbolz 0x50+0x83f" "http://h:6/debug/pprof/symbol 0xfffffffffffef000+0xffffffffffffeffe"]
L50 0x1000 M3: F101@0:0
L2 0x1fff M3: F102@0:0
L4 0x1234 M3: F101@0:0
L5 0x1234 M3: F101@0:0
L6 0x1500 M3: F100@9:0
L20 0x2000 M1: F103@0:0
L21 0x2abc M1: F104@0:0
L22 0x2abd M1: F103@0:0
L23 0x2abe M1: F104@0:0
L24 0x2fff M1: F103@0:0
L30 0x3000 M8: F105@0:0
L31 0x3100 M8: F7@1:0
L40 0x0 M9:
L41 0x10 M9: F106@0:0
L42 0x7ff M9: F107@0:0
L60 0xffffffffffff0000 M12: F108@0:0
L61 0xfffffffffffffffe M12: F109@0:0
L70 0x9100 M13:
M3 fn=true file=false line=false inl=false
M1 fn=true file=false line=false inl=false
M8 fn=true file=false line=false inl=false
M9 fn=true file=false line=false inl=false
M12 fn=true file=false line=false inl=false
M13 fn=false file=false line=false inl=false
F7 "old" "old" "old.c" 0
F100 "other" "other" "" 0
F101 "fn_0_0 (with spaces)" "fn_0_0 (with spaces)" "" 0
F102 "fn_0_1 (with spaces)" "fn_0_1 (with spaces)" "" 0
F103 "fn_1_0 (with spaces)" "fn_1_0 (with spaces)" "" 0
F104 "fn_1_1 (with spaces)" "fn_1_1 (with spaces)" "" 0
F105 "fn_2_0 (with spaces)" "fn_2_0 (with spaces)" "" 0
F106 "fn_3_0 (with spaces)" "fn_3_0 (with spaces)" "" 0
F107 "fn_3_1 (with spaces)" "fn_3_1 (with spaces)" "" 0
F108 "fn_4_0 (with spaces)" "fn_4_0 (with spaces)" "" 0
F109 "fn_4_1 (with spaces)" "fn_4_1 (with spaces)" "" 0
`,
	"partial-garbage-noeol": `err=<nil>
calls=["http://h:1/debug/pprof/symbol 0x1000+0x1fff+0x1234" "http://h:2/pprofz/symbolz 0x2100+0x2bbc+0x2bbd+0x2bbe+0x30ff" "http://h:5/x/symbolz 0x50+0x83f" "http://h:6/debug/pprof/symbol 0xfffffffffffef000+0xffffffffffffeffe"]
L50 0x1000 M3: F105@0:0
L2 0x1fff M3: F103@0:0
L4 0x1234 M3: F7@5:0
L5 0x1234 M3:
L6 0x1500 M3: F100@9:0
L20 0x2000 M1: F110@0:0
L21 0x2abc M1: F108@0:0
L22 0x2abd M1:
L23 0x2abe M1: F107@0:0
L24 0x2fff M1: F108@0:0
L30 0x3000 M8:
L31 0x3100 M8: F7@1:0
L40 0x0 M9:
L41 0x10 M9: F115@0:0
L42 0x7ff M9: F113@0:0
L60 0xffffffffffff0000 M12: F120@0:0
L61 0xfffffffffffffffe M12: F118@0:0
L70 0x9100 M13:
M3 fn=true file=false line=false inl=false
M1 fn=true file=false line=false inl=false
M8 fn=true file=false line=false inl=false
M9 fn=true file=false line=false inl=false
M12 fn=true file=false line=false inl=false
M13 fn=false file=false line=false inl=false
F7 "old" "old" "old.c" 0
F100 "other" "other" "" 0
F101 "unknown_addr" "unknown_addr" "" 0
F102 "shared" "shared" "" 0
F103 "upper_0" "upper_0" "" 0
F104 "first_answer" "first_answer" "" 0
F105 "last_answer_wins" "last_answer_wins" "" 0
F106 "unknown_addr" "unknown_addr" "" 0
F107 "shared" "shared" "" 0
F108 "upper_1" "upper_1" "" 0
F109 "first_answer" "first_answer" "" 0
F110 "last_answer_wins" "last_answer_wins" "" 0
F111 "unknown_addr" "unknown_addr" "" 0
F112 "shared" "shared" "" 0
F113 "upper_2" "upper_2" "" 0
F114 "first_answer" "first_answer" "" 0
F115 "last_answer_wins" "last_answer_wins" "" 0
F116 "unknown_addr" "unknown_addr" "" 0
F117 "shared" "shared" "" 0
F118 "upper_3" "upper_3" "" 0
F119 "first_answer" "first_answer" "" 0
F120 "last_answer_wins" "last_answer_wins" "" 0
`,
	"empty-answers": `err=<nil>
calls=["http://h:1/debug/pprof/symbol 0x1000+0x1fff+0x1234" "http://h:2/pprofz/symbolz 0x2100+0x2bbc+0x2bbd+0x2bbe+0x30ff" "http://h:4/pprof/symbol 0x2fe0" "http://h:5/x/symbolz 0x50+0x83f" "http://h:6/debug/pprof/symbol 0xfffffffffffef000+0xffffffffffffeffe"]
L50 0x1000 M3:
L2 0x1fff M3:
L4 0x1234 M3: F7@5:0
L5 0x1234 M3:
L6 0x1500 M3: F100@9:0
L20 0x2000 M1:
L21 0x2abc M1:
L22 0x2abd M1:
L23 0x2abe M1:
L24 0x2fff M1:
L30 0x3000 M8:
L31 0x3100 M8: F7@1:0
L40 0x0 M9:
L41 0x10 M9:
L42 0x7ff M9:
L60 0xffffffffffff0000 M12:
L61 0xfffffffffffffffe M12:
L70 0x9100 M13:
M3 fn=true file=false line=false inl=false
M1 fn=true file=false line=false inl=false
M8 fn=true file=false line=false inl=false
M9 fn=true file=false line=false inl=false
M12 fn=true file=false line=false inl=false
M13 fn=false file=false line=false inl=false
F7 "old" "old" "old.c" 0
F100 "other" "other" "" 0
`,
	"error-at-second-call": `err=service down
calls=["http://h:1/debug/pprof/symbol 0x1000+0x1fff+0x1234" "http://h:2/pprofz/symbolz 0x2100+0x2bbc+0x2bbd+0x2bbe+0x30ff"]
L50 0x1000 M3: F101@0:0
L2 0x1fff M3: F102@0:0
L4 0x1234 M3: F101@0:0
L5 0x1234 M3: F101@0:0
L6 0x1500 M3: F100@9:0
L20 0x2000 M1:
L21 0x2abc M1:
L22 0x2abd M1:
L23 0x2abe M1:
L24 0x2fff M1:
L30 0x3000 M8:
L31 0x3100 M8: F7@1:0
L40 0x0 M9:
L41 0x10 M9:
L42 0x7ff M9:
L60 0xffffffffffff0000 M12:
L61 0xfffffffffffffffe M12:
L70 0x9100 M13:
M3 fn=true file=false line=false inl=false
M1 fn=false file=false line=false inl=false
M8 fn=true file=false line=false inl=false
M9 fn=false file=false line=false inl=false
M12 fn=false file=false line=false inl=false
M13 fn=false file=false line=false inl=false
F7 "old" "old" "old.c" 0
F100 "other" "other" "" 0
F101 "fn_0_0 (with spaces)" "fn_0_0 (with spaces)" "" 0
F102 "fn_0_1 (with spaces)" "fn_0_1 (with spaces)" "" 0
`,
	"bad-hex-answer": `err=unexpected parse failure 0x10000000000000000: strconv.ParseUint: parsing "0x10000000000000000": value out of range
calls=["http://h:1/debug/pprof/symbol 0x1000+0x1fff+0x1234"]
L50 0x1000 M3:
L2 0x1fff M3:
L4 0x1234 M3: F7@5:0
L5 0x1234 M3:
L6 0x1500 M3: F100@9:0
L20 0x2000 M1:
L21 0x2abc M1:
L22 0x2abd M1:
L23 0x2abe M1:
L24 0x2fff M1:
L30 0x3000 M8:
L31 0x3100 M8: F7@1:0
L40 0x0 M9:
L41 0x10 M9:
L42 0x7ff M9:
L60 0xffffffffffff0000 M12:
L61 0xfffffffffffffffe M12:
L70 0x9100 M13:
M3 fn=false file=false line=false inl=false
M1 fn=false file=false line=false inl=false
M8 fn=true file=false line=false inl=false
M9 fn=false file=false line=false inl=false
M12 fn=false file=false line=false inl=false
M13 fn=false file=false line=false inl=false
F7 "old" "old" "old.c" 0
F100 "other" "other" "" 0
F101 "ok" "ok" "" 0
`,
	"answer-underflows": `err=cannot adjust symbolz address 5 by -256, it would overflow
calls=["http://h:2/pprofz/symbolz 0x2100+0x2bbc+0x2bbd+0x2bbe+0x30ff"]
L50 0x1000 M3:
L2 0x1fff M3:
L4 0x1234 M3: F7@5:0
L5 0x1234 M3:
L6 0x1500 M3: F100@9:0
L20 0x2000 M1:
L21 0x2abc M1:
L22 0x2abd M1:
L23 0x2abe M1:
L24 0x2fff M1:
L30 0x3000 M8:
L31 0x3100 M8: F7@1:0
L40 0x0 M9:
L41 0x10 M9:
L42 0x7ff M9:
L60 0xffffffffffff0000 M12:
L61 0xfffffffffffffffe M12:
L70 0x9100 M13:
M3 fn=false file=false line=false inl=false
M1 fn=false file=false line=false inl=false
M8 fn=true file=false line=false inl=false
M9 fn=false file=false line=false inl=false
M12 fn=false file=false line=false inl=false
M13 fn=false file=false line=false inl=false
F7 "old" "old" "old.c" 0
F100 "other" "other" "" 0
F101 "ok" "ok" "" 0
`,
	"query-overflows": `err=cannot adjust address 18446744073709551614 by 16, it would overflow (mapping &{12 18446744073709486080 18446744073709551615 0 [kernel]  false false false false 0 0 })
calls=["http://h:1/symbolz 0x1000+0x1fff+0x1234"]
L50 0x1000 M3: F101@0:0
L2 0x1fff M3: F102@0:0
L4 0x1234 M3: F101@0:0
L5 0x1234 M3: F101@0:0
L6 0x1500 M3: F100@9:0
L20 0x2000 M1:
L21 0x2abc M1:
L22 0x2abd M1:
L23 0x2abe M1:
L24 0x2fff M1:
L30 0x3000 M8:
L31 0x3100 M8: F7@1:0
L40 0x0 M9:
L41 0x10 M9:
L42 0x7ff M9:
L60 0xffffffffffff0000 M12:
L61 0xfffffffffffffffe M12:
L70 0x9100 M13:
M3 fn=true file=false line=false inl=false
M1 fn=false file=false line=false inl=false
M8 fn=true file=false line=false inl=false
M9 fn=false file=false line=false inl=false
M12 fn=false file=false line=false inl=false
M13 fn=false file=false line=false inl=false
F7 "old" "old" "old.c" 0
F100 "other" "other" "" 0
F101 "fn_0_0 (with spaces)" "fn_0_0 (with spaces)" "" 0
F102 "fn_0_1 (with spaces)" "fn_0_1 (with spaces)" "" 0
`,
	"query-adjusts-to-zero": `err=<nil>
calls=["http://h:1/a/b/symbolz 0x0+0xfff+0x234"]
L50 0x1000 M3: F101@0:0
L2 0x1fff M3: F102@0:0
L4 0x1234 M3: F101@0:0
L5 0x1234 M3: F101@0:0
L6 0x1500 M3: F100@9:0
L20 0x2000 M1:
L21 0x2abc M1:
L22 0x2abd M1:
L23 0x2abe M1:
L24 0x2fff M1:
L30 0x3000 M8:
L31 0x3100 M8: F7@1:0
L40 0x0 M9:
L41 0x10 M9:
L42 0x7ff M9:
L60 0xffffffffffff0000 M12:
L61 0xfffffffffffffffe M12:
L70 0x9100 M13:
M3 fn=true file=false line=false inl=false
M1 fn=false file=false line=false inl=false
M8 fn=true file=false line=false inl=false
M9 fn=false file=false line=false inl=false
M12 fn=false file=false line=false inl=false
M13 fn=false file=false line=false inl=false
F7 "old" "old" "old.c" 0
F100 "other" "other" "" 0
F101 "fn_0_0 (with spaces)" "fn_0_0 (with spaces)" "" 0
F102 "fn_0_1 (with spaces)" "fn_0_1 (with spaces)" "" 0
`,
	"buildid-source-only": `err=<nil>
calls=["http://h:3/debug/pprof/symbol 0x2000+0x2abc+0x2abd+0x2abe+0x2fff"]
L50 0x1000 M3:
L2 0x1fff M3:
L4 0x1234 M3: F7@5:0
L5 0x1234 M3:
L6 0x1500 M3: F100@9:0
L20 0x2000 M1: F101@0:0
L21 0x2abc M1: F102@0:0
L22 0x2abd M1: F101@0:0
L23 0x2abe M1: F102@0:0
L24 0x2fff M1: F101@0:0
L30 0x3000 M8:
L31 0x3100 M8: F7@1:0
L40 0x0 M9:
L41 0x10 M9:
L42 0x7ff M9:
L60 0xffffffffffff0000 M12:
L61 0xfffffffffffffffe M12:
L70 0x9100 M13:
M3 fn=false file=false line=false inl=false
M1 fn=true file=false line=false inl=false
M8 fn=true file=false line=false inl=false
M9 fn=false file=false line=false inl=false
M12 fn=false file=false line=false inl=false
M13 fn=false file=false line=false inl=false
F7 "old" "old" "old.c" 0
F100 "other" "other" "" 0
F101 "fn_0_0 (with spaces)" "fn_0_0 (with spaces)" "" 0
F102 "fn_0_1 (with spaces)" "fn_0_1 (with spaces)" "" 0
`,
}

func TestZZEquivBSymbolz(t *testing.T) {
	for _, tc := range zzCases {
		p := zzProfile()
		var calls []string
		syms := func(source, post string) ([]byte, error) {
			calls = append(calls, source+" "+post)
			return tc.answer(len(calls)-1, strings.Split(post, "+"))
		}
		err := Symbolize(p, tc.force, tc.sources, syms, nil)
		if cerr := p.CheckValid(); cerr != nil {
			t.Errorf("%s: invalid result: %v", tc.name, cerr)
		}
		if got, want := zzSamples(p), zzSamples(zzProfile()); got != want {
			t.Errorf("%s: samples changed:\n got %s\nwant %s", tc.name, got, want)
		}
		got := fmt.Sprintf("err=%v\ncalls=%q\n%s", err, calls, zzDump(p))
		if out := os.Getenv("ZZ_PRINT"); out != "" {
			f, _ := os.OpenFile(out, os.O_APPEND|os.O_CREATE|os.O_WRONLY, 0644)
			fmt.Fprintf(f, "\t%q: `%s`,\n", tc.name, got)
			f.Close()
		}
		if want := zzWant[tc.name]; got != want {
			t.Errorf("%s:\n got:\n%s\nwant:\n%s", tc.name, got, want)
		}
	}
}
