package driver

import (
	"fmt"
	"os"
	"sort"
	"strings"
	"testing"

	"github.com/google/pprof/profile"
)

type zzEquivBUI struct{ msgs []string }

func (u *zzEquivBUI) ReadLine(string) (string, error)     { return "", fmt.Errorf("no input") }
func (u *zzEquivBUI) Print(args ...interface{})           { u.msgs = append(u.msgs, "P:"+fmt.Sprint(args...)) }
func (u *zzEquivBUI) PrintErr(args ...interface{})        { u.msgs = append(u.msgs, "E:"+fmt.Sprint(args...)) }
func (u *zzEquivBUI) IsTerminal() bool                    { return false }
func (u *zzEquivBUI) WantBrowser() bool                   { return false }
func (u *zzEquivBUI) SetAutoComplete(func(string) string) {}

func zzEquivBProfile() *profile.Profile {
	m := &profile.Mapping{ID: 1, Start: 0x1000, Limit: 0x2000, File: "/bin/app"}
	f1 := &profile.Function{ID: 1, Name: "main", SystemName: "main", Filename: "main.go"}
	f2 := &profile.Function{ID: 2, Name: "work", SystemName: "work", Filename: "work.go"}
	l1 := &profile.Location{ID: 1, Mapping: m, Address: 0x1010, Line: []profile.Line{{Function: f1, Line: 1}}}
	l2 := &profile.Location{ID: 2, Mapping: m, Address: 0x1020, Line: []profile.Line{{Function: f2, Line: 2}}}
	st := func(v int64, lab map[string][]string, num map[string][]int64, unit map[string][]string) *profile.Sample {
		return &profile.Sample{Location: []*profile.Location{l2, l1}, Value: []int64{v, v * 100}, Label: lab, NumLabel: num, NumUnit: unit}
	}
	return &profile.Profile{
		SampleType: []*profile.ValueType{{Type: "samples", Unit: "count"}, {Type: "cpu", Unit: "nanoseconds"}},
		PeriodType: &profile.ValueType{Type: "cpu", Unit: "nanoseconds"},
		Period:     1,
		Mapping:    []*profile.Mapping{m},
		Function:   []*profile.Function{f1, f2},
		Location:   []*profile.Location{l1, l2},
		Sample: []*profile.Sample{
			st(1, map[string][]string{"k": {"v1"}}, nil, nil),
			st(2, map[string][]string{"k": {"v2", "v3"}, "other": {"x"}}, nil, nil),
			st(3, map[string][]string{"other": {"v1"}, "a": {"b=c"}}, nil, nil),
			st(4, map[string][]string{"k": {""}, "": {"v1"}}, nil, nil),
			st(5, nil, nil, nil),
			st(6, nil, map[string][]int64{"bytes": {16 * 1024}}, map[string][]string{"bytes": {"bytes"}}),
			st(7, nil, map[string][]int64{"bytes": {32 * 1024, 2 * 1024 * 1024}}, map[string][]string{"bytes": {"bytes", "bytes"}}),
			st(8, nil, map[string][]int64{"bytes": {64}, "latency": {3}}, map[string][]string{"bytes": {"kb"}, "latency": {"ms"}}),
			st(9, map[string][]string{"k": {"v1"}}, map[string][]int64{"request": {4}, "latency": {1500}}, map[string][]string{"latency": {"us"}}),
			st(10, map[string][]string{"k": {"32kb"}}, map[string][]int64{"count": {32}}, nil),
		},
	}
}

func zzEquivBRun(tagfocus, tagignore string) (string, int64) {
	p := zzEquivBProfile()
	ui := &zzEquivBUI{}
	units := identifyNumLabelUnits(p, ui)
	cfg := defaultConfig()
	cfg.TagFocus, cfg.TagIgnore = tagfocus, tagignore
	err := applyFocus(p, units, cfg, ui)
	orig := map[int64]string{}
	for _, s := range zzEquivBProfile().Sample {
		orig[s.Value[0]] = zzEquivBSample(s)
	}
	var kept []string
	var total int64
	for _, s := range p.Sample {
		if d := zzEquivBSample(s); d != orig[s.Value[0]] {
			kept = append(kept, "CHANGED:"+d)
			continue
		}
		kept = append(kept, fmt.Sprint(s.Value[0]))
		total += s.Value[0]
	}
	var msgs []string
	for _, m := range ui.msgs {
		if !strings.HasPrefix(m, "E:For tag ") {
			msgs = append(msgs, m)
		}
	}
	return fmt.Sprintf("err=%v kept=[%s] ui=%q\n", err, strings.Join(kept, " "), msgs), total
}

// zzEquivBSample renders the values, labels and frames of a sample.
func zzEquivBSample(s *profile.Sample) string {
	var labs []string
	for k, v := range s.Label {
		labs = append(labs, k+"="+strings.Join(v, "+"))
	}
	for k, v := range s.NumLabel {
		labs = append(labs, fmt.Sprintf("%s=%v%v", k, v, s.NumUnit[k]))
	}
	sort.Strings(labs)
	var locs []string
	for _, l := range s.Location {
		locs = append(locs, fmt.Sprint(l.ID, len(l.Line)))
	}
	return fmt.Sprintf("%v{%s}%v", s.Value, strings.Join(labs, ";"), locs)
}

func TestZZEquivBTagFilter(t *testing.T) {
	exprs := []string{
		"v1", "k:v1", "^k:v1$", "k=v1", "k=v1,v3", "k=^v[23]$", "v1,other:x", "other:x,k:v", "=v1", "k=", "nokey=v",
		"a=b=c", "a=b", "k=^$", "other=v1|x", "zzz", "k=32kb", ",",
		"32kb", "bytes=32kb", ":64kb", "1mb:", "16kb:64kb", "bytes=:1024", "bytes=16384", "latency=1ms:", "latency=:2ms",
		"4", "request=4", "request=1:8", "count=32", "32", "nokey=32kb", "bytes=1kb:1s", "=2mb", "3ms",
		"k=(", "(", "k=v1,(", "99999999999999999999",
	}
	var got strings.Builder
	for _, e := range exprs {
		f, ft := zzEquivBRun(e, "")
		i, it := zzEquivBRun("", e)
		fmt.Fprintf(&got, "tagfocus=%q %stagignore=%q %s", e, f, e, i)
		if !strings.HasPrefix(f, "err=<nil>") {
			continue
		}
		if ft+it != 55 {
			t.Errorf("%q: tagfocus total %d + tagignore total %d != 55", e, ft, it)
		}
	}
	// Combinations.
	for _, c := range [][2]string{{"k=v1", "latency=1ms:"}, {"v", "other:x"}, {"bytes=16kb:", "2mb"}, {"k=v1,v2", "k=v3"}} {
		r, _ := zzEquivBRun(c[0], c[1])
		fmt.Fprintf(&got, "tagfocus=%q tagignore=%q %s", c[0], c[1], r)
	}
	if os.Getenv("ZZ_PRINT") != "" {
		os.WriteFile(os.Getenv("ZZ_PRINT"), []byte(got.String()), 0o644)
		return
	}
	if got.String() != zzEquivBWant {
		t.Errorf("tag filter output differs from the output recorded on the unchanged tree.\ngot:\n%s\nwant:\n%s", got.String(), zzEquivBWant)
	}
}

var zzEquivBWant = strings.Join([]string{
	"tagfocus=\"v1\" err=<nil> kept=[1 3 4 9] ui=[]",
	"tagignore=\"v1\" err=<nil> kept=[2 5 6 7 8 10] ui=[]",
	"tagfocus=\"k:v1\" err=<nil> kept=[1 9] ui=[]",
	"tagignore=\"k:v1\" err=<nil> kept=[2 3 4 5 6 7 8 10] ui=[]",
	"tagfocus=\"^k:v1$\" err=<nil> kept=[1 9] ui=[]",
	"tagignore=\"^k:v1$\" err=<nil> kept=[2 3 4 5 6 7 8 10] ui=[]",
	"tagfocus=\"k=v1\" err=<nil> kept=[1 9] ui=[]",
	"tagignore=\"k=v1\" err=<nil> kept=[2 3 4 5 6 7 8 10] ui=[]",
	"tagfocus=\"k=v1,v3\" err=<nil> kept=[1 2 9] ui=[]",
	"tagignore=\"k=v1,v3\" err=<nil> kept=[3 4 5 6 7 8 10] ui=[]",
	"tagfocus=\"k=^v[23]$\" err=<nil> kept=[2] ui=[]",
	"tagignore=\"k=^v[23]$\" err=<nil> kept=[1 3 4 5 6 7 8 9 10] ui=[]",
	"tagfocus=\"v1,other:x\" err=<nil> kept=[] ui=[\"E:TagFocus expression matched no samples\"]",
	"tagignore=\"v1,other:x\" err=<nil> kept=[1 2 3 4 5 6 7 8 9 10] ui=[\"E:TagIgnore expression matched no samples\"]",
	"tagfocus=\"other:x,k:v\" err=<nil> kept=[2] ui=[]",
	"tagignore=\"other:x,k:v\" err=<nil> kept=[1 3 4 5 6 7 8 9 10] ui=[]",
	"tagfocus=\"=v1\" err=<nil> kept=[1 3 4 9] ui=[]",
	"tagignore=\"=v1\" err=<nil> kept=[2 5 6 7 8 10] ui=[]",
	"tagfocus=\"k=\" err=<nil> kept=[1 2 4 9 10] ui=[]",
	"tagignore=\"k=\" err=<nil> kept=[3 5 6 7 8] ui=[]",
	"tagfocus=\"nokey=v\" err=<nil> kept=[] ui=[\"E:TagFocus expression matched no samples\"]",
	"tagignore=\"nokey=v\" err=<nil> kept=[1 2 3 4 5 6 7 8 9 10] ui=[\"E:TagIgnore expression matched no samples\"]",
	"tagfocus=\"a=b=c\" err=<nil> kept=[3] ui=[]",
	"tagignore=\"a=b=c\" err=<nil> kept=[1 2 4 5 6 7 8 9 10] ui=[]",
	"tagfocus=\"a=b\" err=<nil> kept=[3] ui=[]",
	"tagignore=\"a=b\" err=<nil> kept=[1 2 4 5 6 7 8 9 10] ui=[]",
	"tagfocus=\"k=^$\" err=<nil> kept=[4] ui=[]",
	"tagignore=\"k=^$\" err=<nil> kept=[1 2 3 5 6 7 8 9 10] ui=[]",
	"tagfocus=\"other=v1|x\" err=<nil> kept=[2 3] ui=[]",
	"tagignore=\"other=v1|x\" err=<nil> kept=[1 4 5 6 7 8 9 10] ui=[]",
	"tagfocus=\"zzz\" err=<nil> kept=[] ui=[\"E:TagFocus expression matched no samples\"]",
	"tagignore=\"zzz\" err=<nil> kept=[1 2 3 4 5 6 7 8 9 10] ui=[\"E:TagIgnore expression matched no samples\"]",
	"tagfocus=\"k=32kb\" err=<nil> kept=[] ui=[\"E:tagfocus:Interpreted '32kb' as range, not regexp\" \"E:TagFocus expression matched no samples\"]",
	"tagignore=\"k=32kb\" err=<nil> kept=[1 2 3 4 5 6 7 8 9 10] ui=[\"E:tagignore:Interpreted '32kb' as range, not regexp\" \"E:TagIgnore expression matched no samples\"]",
	"tagfocus=\",\" err=<nil> kept=[1 2 3 4 9 10] ui=[]",
	"tagignore=\",\" err=<nil> kept=[5 6 7 8] ui=[]",
	"tagfocus=\"32kb\" err=<nil> kept=[7 10] ui=[\"E:tagfocus:Interpreted '32kb' as range, not regexp\"]",
	"tagignore=\"32kb\" err=<nil> kept=[1 2 3 4 5 6 8 9] ui=[\"E:tagignore:Interpreted '32kb' as range, not regexp\"]",
	"tagfocus=\"bytes=32kb\" err=<nil> kept=[7] ui=[\"E:tagfocus:Interpreted '32kb' as range, not regexp\"]",
	"tagignore=\"bytes=32kb\" err=<nil> kept=[1 2 3 4 5 6 8 9 10] ui=[\"E:tagignore:Interpreted '32kb' as range, not regexp\"]",
	"tagfocus=\":64kb\" err=<nil> kept=[6 7 8 9 10] ui=[\"E:tagfocus:Interpreted ':64kb' as range, not regexp\"]",
	"tagignore=\":64kb\" err=<nil> kept=[1 2 3 4 5] ui=[\"E:tagignore:Interpreted ':64kb' as range, not regexp\"]",
	"tagfocus=\"1mb:\" err=<nil> kept=[7 10] ui=[\"E:tagfocus:Interpreted '1mb:' as range, not regexp\"]",
	"tagignore=\"1mb:\" err=<nil> kept=[1 2 3 4 5 6 8 9] ui=[\"E:tagignore:Interpreted '1mb:' as range, not regexp\"]",
	"tagfocus=\"16kb:64kb\" err=<nil> kept=[6 7 10] ui=[\"E:tagfocus:Interpreted '16kb:64kb' as range, not regexp\"]",
	"tagignore=\"16kb:64kb\" err=<nil> kept=[1 2 3 4 5 8 9] ui=[\"E:tagignore:Interpreted '16kb:64kb' as range, not regexp\"]",
	"tagfocus=\"bytes=:1024\" err=<nil> kept=[] ui=[\"E:tagfocus:Interpreted ':1024' as range, not regexp\" \"E:TagFocus expression matched no samples\"]",
	"tagignore=\"bytes=:1024\" err=<nil> kept=[1 2 3 4 5 6 7 8 9 10] ui=[\"E:tagignore:Interpreted ':1024' as range, not regexp\" \"E:TagIgnore expression matched no samples\"]",
	"tagfocus=\"bytes=16384\" err=<nil> kept=[] ui=[\"E:tagfocus:Interpreted '16384' as range, not regexp\" \"E:TagFocus expression matched no samples\"]",
	"tagignore=\"bytes=16384\" err=<nil> kept=[1 2 3 4 5 6 7 8 9 10] ui=[\"E:tagignore:Interpreted '16384' as range, not regexp\" \"E:TagIgnore expression matched no samples\"]",
	"tagfocus=\"latency=1ms:\" err=<nil> kept=[8 9] ui=[\"E:tagfocus:Interpreted '1ms:' as range, not regexp\"]",
	"tagignore=\"latency=1ms:\" err=<nil> kept=[1 2 3 4 5 6 7 10] ui=[\"E:tagignore:Interpreted '1ms:' as range, not regexp\"]",
	"tagfocus=\"latency=:2ms\" err=<nil> kept=[] ui=[\"E:tagfocus:Interpreted ':2ms' as range, not regexp\" \"E:TagFocus expression matched no samples\"]",
	"tagignore=\"latency=:2ms\" err=<nil> kept=[1 2 3 4 5 6 7 8 9 10] ui=[\"E:tagignore:Interpreted ':2ms' as range, not regexp\" \"E:TagIgnore expression matched no samples\"]",
	"tagfocus=\"4\" err=<nil> kept=[] ui=[\"E:tagfocus:Interpreted '4' as range, not regexp\" \"E:TagFocus expression matched no samples\"]",
	"tagignore=\"4\" err=<nil> kept=[1 2 3 4 5 6 7 8 9 10] ui=[\"E:tagignore:Interpreted '4' as range, not regexp\" \"E:TagIgnore expression matched no samples\"]",
	"tagfocus=\"request=4\" err=<nil> kept=[] ui=[\"E:tagfocus:Interpreted '4' as range, not regexp\" \"E:TagFocus expression matched no samples\"]",
	"tagignore=\"request=4\" err=<nil> kept=[1 2 3 4 5 6 7 8 9 10] ui=[\"E:tagignore:Interpreted '4' as range, not regexp\" \"E:TagIgnore expression matched no samples\"]",
	"tagfocus=\"request=1:8\" err=<nil> kept=[] ui=[\"E:tagfocus:Interpreted '1:8' as range, not regexp\" \"E:TagFocus expression matched no samples\"]",
	"tagignore=\"request=1:8\" err=<nil> kept=[1 2 3 4 5 6 7 8 9 10] ui=[\"E:tagignore:Interpreted '1:8' as range, not regexp\" \"E:TagIgnore expression matched no samples\"]",
	"tagfocus=\"count=32\" err=<nil> kept=[10] ui=[\"E:tagfocus:Interpreted '32' as range, not regexp\"]",
	"tagignore=\"count=32\" err=<nil> kept=[1 2 3 4 5 6 7 8 9] ui=[\"E:tagignore:Interpreted '32' as range, not regexp\"]",
	"tagfocus=\"32\" err=<nil> kept=[10] ui=[\"E:tagfocus:Interpreted '32' as range, not regexp\"]",
	"tagignore=\"32\" err=<nil> kept=[1 2 3 4 5 6 7 8 9] ui=[\"E:tagignore:Interpreted '32' as range, not regexp\"]",
	"tagfocus=\"nokey=32kb\" err=<nil> kept=[] ui=[\"E:tagfocus:Interpreted '32kb' as range, not regexp\" \"E:TagFocus expression matched no samples\"]",
	"tagignore=\"nokey=32kb\" err=<nil> kept=[1 2 3 4 5 6 7 8 9 10] ui=[\"E:tagignore:Interpreted '32kb' as range, not regexp\" \"E:TagIgnore expression matched no samples\"]",
	"tagfocus=\"bytes=1kb:1s\" err=<nil> kept=[] ui=[\"E:TagFocus expression matched no samples\"]",
	"tagignore=\"bytes=1kb:1s\" err=<nil> kept=[1 2 3 4 5 6 7 8 9 10] ui=[\"E:TagIgnore expression matched no samples\"]",
	"tagfocus=\"=2mb\" err=<nil> kept=[7] ui=[\"E:tagfocus:Interpreted '2mb' as range, not regexp\"]",
	"tagignore=\"=2mb\" err=<nil> kept=[1 2 3 4 5 6 8 9 10] ui=[\"E:tagignore:Interpreted '2mb' as range, not regexp\"]",
	"tagfocus=\"3ms\" err=<nil> kept=[8] ui=[\"E:tagfocus:Interpreted '3ms' as range, not regexp\"]",
	"tagignore=\"3ms\" err=<nil> kept=[1 2 3 4 5 6 7 9 10] ui=[\"E:tagignore:Interpreted '3ms' as range, not regexp\"]",
	"tagfocus=\"k=(\" err=parsing tagfocus regexp: error parsing regexp: missing closing ): `(` kept=[1 2 3 4 5 6 7 8 9 10] ui=[]",
	"tagignore=\"k=(\" err=parsing tagignore regexp: error parsing regexp: missing closing ): `(` kept=[1 2 3 4 5 6 7 8 9 10] ui=[]",
	"tagfocus=\"(\" err=parsing tagfocus regexp: error parsing regexp: missing closing ): `(` kept=[1 2 3 4 5 6 7 8 9 10] ui=[]",
	"tagignore=\"(\" err=parsing tagignore regexp: error parsing regexp: missing closing ): `(` kept=[1 2 3 4 5 6 7 8 9 10] ui=[]",
	"tagfocus=\"k=v1,(\" err=parsing tagfocus regexp: error parsing regexp: missing closing ): `(` kept=[1 2 3 4 5 6 7 8 9 10] ui=[]",
	"tagignore=\"k=v1,(\" err=parsing tagignore regexp: error parsing regexp: missing closing ): `(` kept=[1 2 3 4 5 6 7 8 9 10] ui=[]",
	"tagfocus=\"99999999999999999999\" err=parsing tagfocus range: failed to parse int 99999999999999999999: strconv.ParseInt: parsing \"99999999999999999999\": value out of range kept=[1 2 3 4 5 6 7 8 9 10] ui=[]",
	"tagignore=\"99999999999999999999\" err=parsing tagignore range: failed to parse int 99999999999999999999: strconv.ParseInt: parsing \"99999999999999999999\": value out of range kept=[1 2 3 4 5 6 7 8 9 10] ui=[]",
	"tagfocus=\"k=v1\" tagignore=\"latency=1ms:\" err=<nil> kept=[1] ui=[\"E:tagignore:Interpreted '1ms:' as range, not regexp\"]",
	"tagfocus=\"v\" tagignore=\"other:x\" err=<nil> kept=[1 3 4 9] ui=[]",
	"tagfocus=\"bytes=16kb:\" tagignore=\"2mb\" err=<nil> kept=[6] ui=[\"E:tagfocus:Interpreted '16kb:' as range, not regexp\" \"E:tagignore:Interpreted '2mb' as range, not regexp\"]",
	"tagfocus=\"k=v1,v2\" tagignore=\"k=v3\" err=<nil> kept=[1 9] ui=[]",
}, "\n") + "\n"
