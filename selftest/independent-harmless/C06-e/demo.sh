#!/bin/sh
# Usage: demo.sh <worktree root>. Runs the equivalence test for change B.
set -u
wt="$1"
here="$(cd "$(dirname "$0")" && pwd)"
export GOFLAGS=-mod=mod GOPROXY=off GOSUMDB=off GOTOOLCHAIN=local
cp "$here/zz_equiv_b_test.go" "$wt/internal/driver/zz_equiv_b_test.go"
(cd "$wt" && go test -vet=off -count=1 -run 'TestZZEquivB' ./internal/driver/)
rc=$?
rm -f "$wt/internal/driver/zz_equiv_b_test.go"
exit $rc
