package driver

import (
	"crypto/sha256"
	"errors"
	"fmt"
	"math/rand"
	"os"
	"sort"
	"strconv"
	"strings"
	"sync"
	"testing"
	"time"

	"github.com/google/pprof/internal/plugin"
	"github.com/google/pprof/profile"
)

// zzObj is an ObjTool that finds no binaries.
type zzObj struct{}

func (zzObj) Open(string, uint64, uint64, uint64, string) (plugin.ObjFile, error) {
	return nil, errors.New("no such file")
}
func (zzObj) Disasm(string, uint64, uint64, bool) ([]plugin.Inst, error) {
	return nil, errors.New("unsupported")
}

// zzUI records the error messages it is given.
type zzUI struct {
	mu   sync.Mutex
	errs []string
}

func (*zzUI) ReadLine(string) (string, error) { return "", errors.New("no input") }
func (*zzUI) Print(...interface{})            {}
func (u *zzUI) PrintErr(args ...interface{}) {
	u.mu.Lock()
	defer u.mu.Unlock()
	u.errs = append(u.errs, fmt.Sprint(args...))
}
func (*zzUI) IsTerminal() bool                    { return false }
func (*zzUI) WantBrowser() bool                   { return false }
func (*zzUI) SetAutoComplete(func(string) string) {}

// zzFetcher serves synthetic profiles named "p<N>" after a random
// delay, so that the fetches complete in a different order each time,
// and fails for every other name.
type zzFetcher struct{}

func (zzFetcher) Fetch(src string, _, _ time.Duration) (*profile.Profile, string, error) {
	time.Sleep(time.Duration(rand.Intn(1500)) * time.Microsecond)
	if !strings.HasPrefix(src, "p") {
		return nil, "", fmt.Errorf("cannot fetch %q", src)
	}
	i, err := strconv.Atoi(src[1:])
	if err != nil {
		return nil, "", err
	}
	from := ""
	switch i % 3 {
	case 0:
		from = "http://host" + strconv.Itoa(i%2) + "/" + src
	case 1:
		from = "http://" + testSourceAddress + "/" + src
	}
	return zzProfile(i), from, nil
}

// zzProfile builds a small profile that depends on i. The profiles
// share functions and produce many ties once merged: equal and
// opposite weights, equal names at different addresses.
func zzProfile(i int) *profile.Profile {
	m := &profile.Mapping{ID: 1, Start: 0x1000, Limit: 0x9000, File: "bin" + strconv.Itoa(i%3)}
	if i%4 == 0 {
		m.BuildID = "id" + strconv.Itoa(i%8)
	}
	if i%7 == 3 {
		m.File = ""
	}
	var fns []*profile.Function
	for k, name := range []string{"main", "work", "work", "leaf"} {
		fns = append(fns, &profile.Function{ID: uint64(k + 1), Name: name, SystemName: name, Filename: "f" + strconv.Itoa(k%2) + ".go"})
	}
	var locs []*profile.Location
	for k := 0; k < 5; k++ {
		locs = append(locs, &profile.Location{
			ID:      uint64(k + 1),
			Mapping: m,
			Address: 0x1000 + uint64(0x100*((k+i)%6)),
			Line:    []profile.Line{{Function: fns[(k+i)%4], Line: int64(10 + k)}},
		})
	}
	v := int64(i%4 + 1)
	p := &profile.Profile{
		SampleType: []*profile.ValueType{{Type: "samples", Unit: "count"}, {Type: "cpu", Unit: "nanoseconds"}},
		PeriodType: &profile.ValueType{Type: "cpu", Unit: "nanoseconds"},
		Period:     10,
		Mapping:    []*profile.Mapping{m},
		Function:   fns,
		Location:   locs,
		Comments:   []string{"c" + strconv.Itoa(i%5)},
		Sample: []*profile.Sample{
			{Location: []*profile.Location{locs[0], locs[1]}, Value: []int64{v, 10 * v}},
			{Location: []*profile.Location{locs[1], locs[0]}, Value: []int64{-v, -10 * v}},
			{Location: []*profile.Location{locs[2], locs[3], locs[4]}, Value: []int64{v, 10 * v},
				Label: map[string][]string{"k" + strconv.Itoa(i%2): {"x", "y"}, "b": {"z"}}},
			{Location: []*profile.Location{locs[4]}, Value: []int64{v, v},
				NumLabel: map[string][]int64{"bytes": {int64(8 << (i % 3))}},
				NumUnit:  map[string][]string{"bytes": {"bytes"}}},
		},
	}
	return p
}

func zzSources(names ...string) []profileSource {
	s := &source{}
	var out []profileSource
	for _, n := range names {
		out = append(out, profileSource{addr: n, source: s})
	}
	return out
}

func zzRange(lo, hi int) []string {
	var out []string
	for i := lo; i < hi; i++ {
		out = append(out, "p"+strconv.Itoa(i))
	}
	return out
}

func zzDescribeProfile(p *profile.Profile) string {
	if p == nil {
		return "<nil>"
	}
	str := p.String()
	var buf strings.Builder
	if err := p.Copy().WriteUncompressed(&buf); err != nil {
		return "write error: " + err.Error()
	}
	return fmt.Sprintf("text:%x bytes:%x", sha256.Sum256([]byte(str)), sha256.Sum256([]byte(buf.String())))
}

func zzDescribeMsrc(ms plugin.MappingSources) string {
	var keys []string
	for k := range ms {
		keys = append(keys, k)
	}
	sort.Strings(keys)
	var b strings.Builder
	for _, k := range keys {
		fmt.Fprintf(&b, "%s=%v;", k, ms[k])
	}
	return fmt.Sprintf("%x", sha256.Sum256([]byte(b.String())))
}

type zzCase struct {
	name           string
	sources, bases []string
}

func zzCases() []zzCase {
	mixed := append([]string{"bad0"}, zzRange(0, 9)...)
	mixed = append(mixed, "bad1", "p9", "p3", "bad2", "p3")
	big := zzRange(0, 150) // more than one chunk of 128
	big[5], big[77], big[140] = "badA", "badB", "badC"
	return []zzCase{
		{"single", []string{"p1"}, nil},
		{"mixed", mixed, nil},
		{"big", big, nil},
		{"diff", zzRange(0, 12), zzRange(0, 12)},
		{"diff2", append(zzRange(3, 20), "oops"), zzRange(7, 11)},
		{"allbad", []string{"x", "y", "z"}, nil},
	}
}

func zzRunCase(c zzCase) string {
	var b strings.Builder
	// chunkedGrab alone (it drives concurrentGrab).
	ui := &zzUI{}
	p, msrc, save, count, err := chunkedGrab(zzSources(c.sources...), zzFetcher{}, zzObj{}, ui, nil)
	fmt.Fprintf(&b, "chunked: %s msrc:%s save:%v count:%d err:%v\n", zzDescribeProfile(p), zzDescribeMsrc(msrc), save, count, err)
	fmt.Fprintf(&b, "errs: %q\n", ui.errs)

	// concurrentGrab on the first few sources.
	n := len(c.sources)
	if n > 20 {
		n = 20
	}
	ui = &zzUI{}
	srcs := zzSources(c.sources[:n]...)
	p, msrc, save, count, err = concurrentGrab(srcs, zzFetcher{}, zzObj{}, ui, nil)
	fmt.Fprintf(&b, "concurrent: %s msrc:%s save:%v count:%d err:%v\n", zzDescribeProfile(p), zzDescribeMsrc(msrc), save, count, err)
	fmt.Fprintf(&b, "errs: %q\n", ui.errs)
	for i, s := range srcs {
		// Profiles that were merged are released.
		if s.p != nil || s.msrc != nil {
			fmt.Fprintf(&b, "source %d retained\n", i)
		}
	}

	// Sources and bases together.
	ui = &zzUI{}
	ps, pb, ms, mb, save, err := grabSourcesAndBases(zzSources(c.sources...), zzSources(c.bases...), zzFetcher{}, zzObj{}, ui, nil)
	fmt.Fprintf(&b, "src: %s msrc:%s\nbase: %s msrc:%s\nsave:%v err:%v\n", zzDescribeProfile(ps), zzDescribeMsrc(ms), zzDescribeProfile(pb), zzDescribeMsrc(mb), save, err)
	fmt.Fprintf(&b, "errs: %q\n", ui.errs)
	return b.String()
}

var zzWant = map[string]string{
	"single": "chunked: text:69b7cf5d5c588863b039c38983cab858a31cbf95f72f1221c9f276d339b74569 bytes:2f949ee2f1367715168279e2bbe0b0347f7cad4eec1d48ad1c7155b24196f558 msrc:49e4b99acebba17afd51c96aca2028d22b8196db879bcb88dd03a7a12c5b89a3 save:false count:1 err:<nil>\nerrs: []\nconcurrent: text:69b7cf5d5c588863b039c38983cab858a31cbf95f72f1221c9f276d339b74569 bytes:2f949ee2f1367715168279e2bbe0b0347f7cad4eec1d48ad1c7155b24196f558 msrc:49e4b99acebba17afd51c96aca2028d22b8196db879bcb88dd03a7a12c5b89a3 save:false count:1 err:<nil>\nerrs: []\nsrc: text:69b7cf5d5c588863b039c38983cab858a31cbf95f72f1221c9f276d339b74569 bytes:2f949ee2f1367715168279e2bbe0b0347f7cad4eec1d48ad1c7155b24196f558 msrc:49e4b99acebba17afd51c96aca2028d22b8196db879bcb88dd03a7a12c5b89a3\nbase: <nil> msrc:e3b0c44298fc1c149afbf4c8996fb92427ae41e4649b934ca495991b7852b855\nsave:false err:<nil>\nerrs: []\n",
	"mixed":  "chunked: text:a65c144e8a5174c256b48ec4db6fb8ccb805544a022f8b71801955054ee0e18a bytes:951f243782e4293bc9c368479b1e455ce1662bb06ac8bdefc8dc57035477ca42 msrc:1d460c1b416258a114a2c75c5776419bdde66d746355f06b795b62329b6c16f4 save:true count:12 err:<nil>\nerrs: [\"bad0: cannot fetch \\\"bad0\\\"\" \"bad1: cannot fetch \\\"bad1\\\"\" \"bad2: cannot fetch \\\"bad2\\\"\"]\nconcurrent: text:a65c144e8a5174c256b48ec4db6fb8ccb805544a022f8b71801955054ee0e18a bytes:951f243782e4293bc9c368479b1e455ce1662bb06ac8bdefc8dc57035477ca42 msrc:1d460c1b416258a114a2c75c5776419bdde66d746355f06b795b62329b6c16f4 save:true count:12 err:<nil>\nerrs: [\"bad0: cannot fetch \\\"bad0\\\"\" \"bad1: cannot fetch \\\"bad1\\\"\" \"bad2: cannot fetch \\\"bad2\\\"\"]\nsrc: text:a65c144e8a5174c256b48ec4db6fb8ccb805544a022f8b71801955054ee0e18a bytes:951f243782e4293bc9c368479b1e455ce1662bb06ac8bdefc8dc57035477ca42 msrc:1d460c1b416258a114a2c75c5776419bdde66d746355f06b795b62329b6c16f4\nbase: <nil> msrc:e3b0c44298fc1c149afbf4c8996fb92427ae41e4649b934ca495991b7852b855\nsave:true err:<nil>\nerrs: [\"bad0: cannot fetch \\\"bad0\\\"\" \"bad1: cannot fetch \\\"bad1\\\"\" \"bad2: cannot fetch \\\"bad2\\\"\" \"Fetched 12 source profiles out of 15\"]\n",
	"big":    "chunked: text:6386c19e71838d6eb27cbf6e7bca30a5201b7fd2deeca5ffa97e4a4a788307f6 bytes:295db273aab1ce4cd7d8b6b642692d09b85b2c5b117e36d516bfc1e8b2ae02c2 msrc:802be1025070303d37a2350a12ab6010f05378787071dfe11e71e707eb1da440 save:true count:147 err:<nil>\nerrs: [\"badA: cannot fetch \\\"badA\\\"\" \"badB: cannot fetch \\\"badB\\\"\" \"badC: cannot fetch \\\"badC\\\"\"]\nconcurrent: text:8b2bb5839634fbf5031f820f94b40bb21eace93ac22e0c10fa74b344432b21af bytes:d8c0bd88f3dcf39a276a132ee250b96cb05d614f682871b35eefd0b0b8999b70 msrc:60a243100fb7acf152f4c42eaaa3fd5c7765ad0040ce073e7e57d9abc468b53c save:true count:19 err:<nil>\nerrs: [\"badA: cannot fetch \\\"badA\\\"\"]\nsrc: text:6386c19e71838d6eb27cbf6e7bca30a5201b7fd2deeca5ffa97e4a4a788307f6 bytes:295db273aab1ce4cd7d8b6b642692d09b85b2c5b117e36d516bfc1e8b2ae02c2 msrc:802be1025070303d37a2350a12ab6010f05378787071dfe11e71e707eb1da440\nbase: <nil> msrc:e3b0c44298fc1c149afbf4c8996fb92427ae41e4649b934ca495991b7852b855\nsave:true err:<nil>\nerrs: [\"badA: cannot fetch \\\"badA\\\"\" \"badB: cannot fetch \\\"badB\\\"\" \"badC: cannot fetch \\\"badC\\\"\" \"Fetched 147 source profiles out of 150\"]\n",
	"diff":   "chunked: text:4dd8d899d8bbffd68f2af940153bdc37ce99235bef777ac934bace7fb829493a bytes:291c37faefd14e9c2218af7e860fa6b1aceaf809c6ef20d549b8db7df3524050 msrc:ee38b523928478d96f970e39cde3524686c45aa7e9afb5c15744a0bccb9f842c save:true count:12 err:<nil>\nerrs: []\nconcurrent: text:4dd8d899d8bbffd68f2af940153bdc37ce99235bef777ac934bace7fb829493a bytes:291c37faefd14e9c2218af7e860fa6b1aceaf809c6ef20d549b8db7df3524050 msrc:ee38b523928478d96f970e39cde3524686c45aa7e9afb5c15744a0bccb9f842c save:true count:12 err:<nil>\nerrs: []\nsrc: text:4dd8d899d8bbffd68f2af940153bdc37ce99235bef777ac934bace7fb829493a bytes:291c37faefd14e9c2218af7e860fa6b1aceaf809c6ef20d549b8db7df3524050 msrc:ee38b523928478d96f970e39cde3524686c45aa7e9afb5c15744a0bccb9f842c\nbase: text:4dd8d899d8bbffd68f2af940153bdc37ce99235bef777ac934bace7fb829493a bytes:291c37faefd14e9c2218af7e860fa6b1aceaf809c6ef20d549b8db7df3524050 msrc:ee38b523928478d96f970e39cde3524686c45aa7e9afb5c15744a0bccb9f842c\nsave:true err:<nil>\nerrs: []\n",
	"diff2":  "chunked: text:6daeca9a3a6225b8c046a507ec7828d1631f5574474d72d75d9eb4402db94c18 bytes:a8420c2b787888f61aac6405ac63c193df668db2ab3bd0dd8d95da6f411cd68b msrc:4edb5667414fa2e0186362f8ac7d60633abf607bd029a63c9e60575f043c5860 save:true count:17 err:<nil>\nerrs: [\"oops: cannot fetch \\\"oops\\\"\"]\nconcurrent: text:6daeca9a3a6225b8c046a507ec7828d1631f5574474d72d75d9eb4402db94c18 bytes:a8420c2b787888f61aac6405ac63c193df668db2ab3bd0dd8d95da6f411cd68b msrc:4edb5667414fa2e0186362f8ac7d60633abf607bd029a63c9e60575f043c5860 save:true count:17 err:<nil>\nerrs: [\"oops: cannot fetch \\\"oops\\\"\"]\nsrc: text:6daeca9a3a6225b8c046a507ec7828d1631f5574474d72d75d9eb4402db94c18 bytes:a8420c2b787888f61aac6405ac63c193df668db2ab3bd0dd8d95da6f411cd68b msrc:4edb5667414fa2e0186362f8ac7d60633abf607bd029a63c9e60575f043c5860\nbase: text:441ea16b1d63d71e4596502879eb55af835bceb93cc52f0535f653b6a38e92e3 bytes:7a56483f06dee860016f234b8c3cb3d828e7cd0a94e503b165e63a422a871508 msrc:6d9ec882cf817c80d69130de0737a472345fe320d22cc33d5f6777ff3774201b\nsave:true err:<nil>\nerrs: [\"oops: cannot fetch \\\"oops\\\"\" \"Fetched 17 source profiles out of 18\"]\n",
	"allbad": "chunked: <nil> msrc:e3b0c44298fc1c149afbf4c8996fb92427ae41e4649b934ca495991b7852b855 save:false count:0 err:<nil>\nerrs: [\"x: cannot fetch \\\"x\\\"\" \"y: cannot fetch \\\"y\\\"\" \"z: cannot fetch \\\"z\\\"\"]\nconcurrent: <nil> msrc:e3b0c44298fc1c149afbf4c8996fb92427ae41e4649b934ca495991b7852b855 save:false count:0 err:<nil>\nerrs: [\"x: cannot fetch \\\"x\\\"\" \"y: cannot fetch \\\"y\\\"\" \"z: cannot fetch \\\"z\\\"\"]\nsrc: <nil> msrc:e3b0c44298fc1c149afbf4c8996fb92427ae41e4649b934ca495991b7852b855\nbase: <nil> msrc:e3b0c44298fc1c149afbf4c8996fb92427ae41e4649b934ca495991b7852b855\nsave:false err:failed to fetch any source profiles\nerrs: [\"x: cannot fetch \\\"x\\\"\" \"y: cannot fetch \\\"y\\\"\" \"z: cannot fetch \\\"z\\\"\"]\n",
}

func TestZZEquivB(t *testing.T) {
	if out := os.Getenv("ZZ_EQUIV_B_RECORD"); out != "" {
		var b strings.Builder
		for _, c := range zzCases() {
			fmt.Fprintf(&b, "\t%q: %q,\n", c.name, zzRunCase(c))
		}
		os.WriteFile(out, []byte(b.String()), 0644)
		return
	}
	for _, c := range zzCases() {
		for run := 0; run < 8; run++ {
			if got, want := zzRunCase(c), zzWant[c.name]; got != want {
				t.Fatalf("%s run %d: got\n%s\nwant\n%s", c.name, run, got, want)
			}
		}
	}
}
