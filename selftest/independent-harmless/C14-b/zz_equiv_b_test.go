package profile

import (
	"bytes"
	"crypto/sha256"
	"encoding/binary"
	"fmt"
	"os"
	"testing"
)

// Equivalence demonstration for change B (signal-handler frame detection in
// cpuProfile restructured). Expected values were computed on the unchanged
// tree and hard-coded below.

type zzBSample struct {
	count uint64
	stack []uint64
}

type zzBCase struct {
	name    string
	word    int // 4 or 8
	big     bool
	period  uint64
	samples []zzBSample
	maps    string
}

func zzBEncode(c zzBCase) []byte {
	var buf bytes.Buffer
	put := func(v uint64) {
		var order binary.ByteOrder = binary.LittleEndian
		if c.big {
			order = binary.BigEndian
		}
		if c.word == 4 {
			var b [4]byte
			order.PutUint32(b[:], uint32(v))
			buf.Write(b[:])
		} else {
			var b [8]byte
			order.PutUint64(b[:], v)
			buf.Write(b[:])
		}
	}
	for _, v := range []uint64{0, 3, 0, c.period, 0} {
		put(v)
	}
	for _, s := range c.samples {
		put(s.count)
		put(uint64(len(s.stack)))
		for _, a := range s.stack {
			put(a)
		}
	}
	put(0)
	put(1)
	put(0)
	buf.WriteString(c.maps)
	return buf.Bytes()
}

const zzBMaps = "00400000-00500000 r-xp 00000000 fd:01 123 /bin/prog\n" +
	"7f0000000000-7f0000100000 r-xp 00001000 fd:01 456 /lib/libc.so\n"

// zzBMany builds n samples of which `same` share the second frame sig (and,
// when sig2 != 0, the frame after it), the others having a distinct one.
func zzBMany(n, same int, sig, sig2 uint64, dupLeaf bool) []zzBSample {
	var out []zzBSample
	for i := 0; i < n; i++ {
		leaf := uint64(0x401000 + 0x10*i)
		second := sig
		if i >= same {
			second = 0x480000 + uint64(i)
		}
		st := []uint64{leaf, second}
		if sig2 != 0 {
			st = append(st, sig2)
		}
		if dupLeaf {
			st = append(st, leaf)
		}
		st = append(st, 0x402001+uint64(i%3), 0x403001)
		out = append(out, zzBSample{count: uint64(1 + i%4), stack: st})
	}
	return out
}

var zzBCases = []zzBCase{
	{name: "tiny64l", word: 8, big: false, period: 10000, maps: zzBMaps, samples: []zzBSample{
		{1, []uint64{0x401000, 0x7f0000000999, 0x401000, 0x402001}},
		{2, []uint64{0x401100, 0x7f0000000999, 0x401100, 0x402001, 0x403001}},
		{3, []uint64{0x401200, 0x7f0000000999, 0x401200}},
	}},
	{name: "tiny32b", word: 4, big: true, period: 5000, maps: "", samples: []zzBSample{
		{1, []uint64{0x401000, 0x999, 0x401000, 0x402001}},
		{2, []uint64{0x401100, 0x999, 0x401100, 0x402001, 0x403001}},
		{7, []uint64{0x401200}},
	}},
	{name: "nosig32l", word: 4, big: false, period: 1, maps: zzBMaps, samples: []zzBSample{
		{1, []uint64{0x401000, 0x402001, 0x403001}},
		{2, []uint64{0x401100, 0x402011, 0x403001}},
		{3, []uint64{0x401200, 0x402021, 0x403001}},
		{4, []uint64{0x401201, 0x401201, 0x403001}},
	}},
	{name: "single64b", word: 8, big: true, period: 100, maps: zzBMaps, samples: []zzBSample{
		{5, []uint64{0x401000, 0x402001, 0x403001}},
	}},
	{name: "empty64l", word: 8, big: false, period: 100, maps: zzBMaps},
	{name: "m33s32", word: 8, big: false, period: 1000, maps: zzBMaps, samples: zzBMany(33, 32, 0x7f0000000999, 0, true)},
	{name: "m33s31", word: 8, big: true, period: 1000, maps: zzBMaps, samples: zzBMany(33, 31, 0x7f0000000999, 0, true)},
	{name: "m64s62", word: 4, big: false, period: 1000, maps: "", samples: zzBMany(64, 62, 0x999, 0, true)},
	{name: "m64s61", word: 4, big: true, period: 1000, maps: "", samples: zzBMany(64, 61, 0x999, 0, true)},
	{name: "two64l", word: 8, big: false, period: 2000, maps: zzBMaps, samples: zzBMany(40, 40, 0x7f0000000999, 0x7f0000000777, true)},
	{name: "two64l39", word: 8, big: false, period: 2000, maps: zzBMaps, samples: zzBMany(40, 39, 0x7f0000000999, 0x7f0000000777, false)},
	{name: "three", word: 8, big: false, period: 2000, maps: zzBMaps, samples: []zzBSample{
		{1, []uint64{0x401000, 0x999, 0x888, 0x777, 0x402001}},
		{1, []uint64{0x401100, 0x999, 0x888, 0x777, 0x402001}},
		{1, []uint64{0x401200, 0x999, 0x888, 0x777}},
	}},
	{name: "half", word: 8, big: false, period: 2000, maps: zzBMaps, samples: []zzBSample{
		{1, []uint64{0x401000, 0x999, 0x402001}},
		{1, []uint64{0x401100, 0x888, 0x402001}},
	}},
	{name: "shortstacks", word: 8, big: false, period: 2000, maps: zzBMaps, samples: []zzBSample{
		{1, []uint64{0x401000}},
		{1, []uint64{0x401100}},
		{1, []uint64{0x401200, 0x999, 0x402001}},
	}},
}

func zzBRun(c zzBCase) string {
	p, err := ParseData(zzBEncode(c))
	if err != nil {
		return "ERR: " + err.Error()
	}
	s := p.String()
	first := ""
	if len(p.Sample) > 0 {
		for _, l := range p.Sample[0].Location {
			first += fmt.Sprintf(" %#x", l.Address)
		}
		first += fmt.Sprintf(" v=%v", p.Sample[0].Value)
	}
	return fmt.Sprintf("samples=%d locs=%d maps=%d first=[%s] sha=%x", len(p.Sample), len(p.Location), len(p.Mapping), first, sha256.Sum256([]byte(s)))
}

func TestZZEquivB(t *testing.T) {
	gen := os.Getenv("ZZ_GEN") != ""
	for _, c := range zzBCases {
		got := zzBRun(c)
		if gen {
			fmt.Printf("\t%q: %q,\n", c.name, got)
			continue
		}
		if got != zzBWant[c.name] {
			t.Errorf("%s: got  %s\n want %s", c.name, got, zzBWant[c.name])
		}
	}
	// One case spelled out in full, for readability.
	p, err := ParseData(zzBEncode(zzBCases[0]))
	if err != nil {
		t.Fatal(err)
	}
	if got := p.String(); !gen && got != zzBTinyWant {
		t.Errorf("tiny64l: got\n%s\nwant\n%s", got, zzBTinyWant)
	} else if gen {
		fmt.Printf("TINY %q\n", got)
	}
}

var zzBWant = map[string]string{
	"tiny64l":     "samples=3 locs=8 maps=2 first=[ 0x401000 0x402000 v=[1 10000000]] sha=5a87052775aa9e031acb945b501ee4bf38c8adedc912a53acdc13762b8f37e07",
	"tiny32b":     "samples=3 locs=8 maps=1 first=[ 0x401000 0x998 0x400fff 0x402000 v=[1 5000000]] sha=46aff887288df5292f68832009f39352efebdf7428246743b324c127640d9b4a",
	"nosig32l":    "samples=4 locs=8 maps=2 first=[ 0x401000 0x402000 0x403000 v=[1 1000]] sha=04b5a6c61be8a9fd36f019335639356d4780ccf305dbdef47e907274f4f94add",
	"single64b":   "samples=1 locs=1 maps=2 first=[ 0x401000 v=[5 500000]] sha=7acf1dfc6ba98f152460e0fe2b920a895217b35cb368dda6e9ec67ae116a205e",
	"empty64l":    "samples=0 locs=0 maps=2 first=[] sha=ea20c978414700311f15d6ddcba8b189408a92103436043aec6d973fac566dd7",
	"m33s32":      "samples=33 locs=71 maps=2 first=[ 0x401000 0x402000 0x403000 v=[1 1000000]] sha=6b85637095ff5a8c1810dc1e8bd6e6d27e27798ec8b63fbf764cf6002ec38894",
	"m33s31":      "samples=33 locs=73 maps=2 first=[ 0x401000 0x7f0000000998 0x400fff 0x402000 0x403000 v=[1 1000000]] sha=73cfc1265375ecf13e98fdb2e246ab77881c384ce322453f9d85c3953befa63b",
	"m64s62":      "samples=64 locs=134 maps=1 first=[ 0x401000 0x402000 0x403000 v=[1 1000000]] sha=180f2e2ea11b701ac9df718645c004dcbf55e0c12987958e63fc360375f9c4d2",
	"m64s61":      "samples=64 locs=136 maps=1 first=[ 0x401000 0x998 0x400fff 0x402000 0x403000 v=[1 1000000]] sha=17f3ac3bae18e4740337396c4a198af69b357c15ce765bba71582d142e40cafc",
	"two64l":      "samples=40 locs=84 maps=2 first=[ 0x401000 0x402000 0x403000 v=[1 2000000]] sha=e1b56a85d215a4eecb6841f16b889f4636ea925fe3c1e473155d484361a1786e",
	"two64l39":    "samples=40 locs=46 maps=2 first=[ 0x401000 0x402000 0x403000 v=[1 2000000]] sha=ea0049ec517b82cd518af5bd93c670c27204136ad1c64d31b910ea0855ef97e7",
	"three":       "samples=3 locs=5 maps=3 first=[ 0x401000 0x776 0x402000 v=[1 2000000]] sha=7b2f4407360fd127411e0f7e6e05f4c9d91c782f3ef54dbebd6ace15a87e6220",
	"half":        "samples=2 locs=5 maps=3 first=[ 0x401000 0x998 0x402000 v=[1 2000000]] sha=99cf499b42a0a7687f87815025df7b0c88fcbb6a221cdcfa7fbb6f9f873a85d7",
	"shortstacks": "samples=3 locs=5 maps=3 first=[ 0x401000 v=[1 2000000]] sha=e03c0bb77e93c769eec8d3b5d8a385f4e5a87d0fc931cedc5d627b73b81c8819",
}

var zzBTinyWant = "PeriodType: cpu nanoseconds\nPeriod: 10000000\nSamples:\nsamples/count cpu/nanoseconds\n          1   10000000: 1 3 \n          2   20000000: 4 3 6 \n          3   30000000: 7 \nLocations\n     1: 0x401000 M=1 \n     2: 0x400fff M=1 \n     3: 0x402000 M=1 \n     4: 0x401100 M=1 \n     5: 0x4010ff M=1 \n     6: 0x403000 M=1 \n     7: 0x401200 M=1 \n     8: 0x4011ff M=1 \nMappings\n1: 0x400000/0x500000/0x0 /bin/prog  \n2: 0x7f0000000000/0x7f0000100000/0x1000 /lib/libc.so  \n"
