package symbolizer

import (
	"fmt"
	"os"
	"strings"
	"testing"

	"github.com/google/pprof/internal/plugin"
	"github.com/google/pprof/profile"
	"github.com/ianlancetaylor/demangle"
)

type zzcUI struct {
	plugin.UI
	log []string
}

func (u *zzcUI) PrintErr(args ...interface{}) { u.log = append(u.log, fmt.Sprint(args...)) }

type zzcObjTool struct{}

func (zzcObjTool) Open(file string, start, limit, offset uint64, relocationSymbol string) (plugin.ObjFile, error) {
	return nil, fmt.Errorf("no binaries here")
}
func (zzcObjTool) Disasm(file string, start, end uint64, intelSyntax bool) ([]plugin.Inst, error) {
	return nil, fmt.Errorf("unsupported")
}

// name / system name pairs covering every path of the demangler.
var zzcNames = [][2]string{
	{"_ZN3foo3barEv", "_ZN3foo3barEv"},
	{"", "_ZN3foo3barEi"},
	{"foo::bar", "_ZN3foo3barEv"}, // already demangled
	{"stale", "_ZNSaIcEC1ERKS_"},
	{"_ZNSt6vectorIiSaIiEE9push_backERKi", "_ZNSt6vectorIiSaIiEE9push_backERKi"},
	{"_ZN9__gnu_cxx13new_allocatorIcE8allocateEmPKv", "_ZN9__gnu_cxx13new_allocatorIcE8allocateEmPKv"},
	{"__ZN3foo3barEv", "__ZN3foo3barEv"}, // OSX style
	{"", "__ZNSt6vectorIiSaIiEE9push_backERKi"},
	{"_notmangled", "_notmangled"},
	{"_", "_"},
	{"__Z", "__Z"},
	{"_Z", "_Z"},
	{"main.main", "main.main"},
	{"", "main.(*T).Method"},
	{"main.(*Box[go.shape.int]).Get", "main.(*Box[go.shape.int]).Get"},
	{"java.util.ArrayList.<init>", "java.util.ArrayList.<init>"},
	{"<unknown>", "<unknown>"},
	{"", "<unknown>"},
	{"(anonymous)", "(anonymous)"},
	{"()<>", "()<>"},
	{"ns::(anonymous)", "ns::(anonymous)"},
	{"foo::bar(int, char)", "foo::bar(int, char)"},
	{"", "std::vector<int, std::allocator<int> >::push_back(int const&)"},
	{"a<b<c> >::d(e<f>)", "a<b<c> >::d(e<f>)"},
	{"operator<<(x)", "operator<<(x)"},
	{"broken)(::x", "broken)(::x"},
	{"arr[3]", "arr[3]"},
	{"named only", ""},
	{"", ""},
	{"_ZN3foo3barEv.cold", "_ZN3foo3barEv.cold"},
	{"_ZN3foo3barEv.llvm.123", "_ZN3foo3barEv.llvm.123"},
	{"_RNvCs1234_5mycrate4main", "_RNvCs1234_5mycrate4main"}, // rust v0
	{"_ZN4core3fmt5Write9write_fmt17h0123456789abcdefE", "_ZN4core3fmt5Write9write_fmt17h0123456789abcdefE"},
}

func zzcProfile() *profile.Profile {
	m := &profile.Mapping{ID: 1, Start: 0x1000, Limit: 0x9000, File: "/bin/main", HasFunctions: true}
	p := &profile.Profile{
		SampleType: []*profile.ValueType{{Type: "samples", Unit: "count"}},
		PeriodType: &profile.ValueType{Type: "cpu", Unit: "ns"},
		Period:     1,
		Mapping:    []*profile.Mapping{m},
	}
	for i, n := range zzcNames {
		f := &profile.Function{ID: uint64(3*i + 5), Name: n[0], SystemName: n[1], Filename: "f.cc", StartLine: int64(i)}
		l := &profile.Location{ID: uint64(200 - i), Mapping: m, Address: uint64(0x1000 + 16*i), Line: []profile.Line{{Function: f, Line: int64(i + 1)}}}
		p.Function = append(p.Function, f)
		p.Location = append(p.Location, l)
	}
	for i, l := range p.Location {
		p.Sample = append(p.Sample, &profile.Sample{
			Value:    []int64{int64(i + 1)},
			Location: []*profile.Location{l, p.Location[(i*5+2)%len(p.Location)]},
			Label:    map[string][]string{"i": {fmt.Sprint(i)}},
		})
	}
	return p
}

func zzcFrame(p *profile.Profile) string {
	var b strings.Builder
	for _, s := range p.Sample {
		fmt.Fprintf(&b, "S %v %v:", s.Value, s.Label)
		for _, l := range s.Location {
			fmt.Fprintf(&b, " %d@%#x/%d", l.ID, l.Address, len(l.Line))
		}
		b.WriteString("\n")
	}
	for _, m := range p.Mapping {
		fmt.Fprintf(&b, "M %d %#x %#x %#x %q %v%v%v%v\n", m.ID, m.Start, m.Limit, m.Offset, m.File, m.HasFunctions, m.HasFilenames, m.HasLineNumbers, m.HasInlineFrames)
	}
	return b.String()
}

func zzcDump(t *testing.T, what string, before [][2]string, p *profile.Profile) string {
	var b strings.Builder
	for i, f := range p.Function {
		if before[i][0] != "" && f.Name == "" {
			t.Errorf("%s: non-empty name %q replaced by an empty one", what, before[i][0])
		}
		if f.SystemName != before[i][1] {
			t.Errorf("%s: system name %q changed to %q", what, before[i][1], f.SystemName)
		}
		fmt.Fprintf(&b, "%d %q <- %q / %q\n", f.ID, f.Name, before[i][0], f.SystemName)
	}
	if err := p.CheckValid(); err != nil {
		t.Errorf("%s: invalid profile: %v", what, err)
	}
	return b.String()
}

func TestZZEquivC(t *testing.T) {
	record := os.Getenv("ZZ_EQUIV_RECORD")
	check := func(name, got string) {
		if record != "" {
			if err := os.WriteFile(record+"/testdata_zz_equiv_c_"+name+".golden", []byte(got), 0o644); err != nil {
				t.Fatal(err)
			}
			return
		}
		want, ok := zzcGolden[name]
		if !ok {
			t.Fatalf("no golden for %s", name)
		}
		if got != want {
			t.Errorf("%s: output differs from the one recorded on the unchanged tree:\n--- got ---\n%s\n--- want ---\n%s", name, got, want)
		}
	}

	// Demangle directly, every mode, with and without force.
	for _, mode := range []string{"", "templates", "full", "none"} {
		for _, force := range []bool{false, true} {
			what := fmt.Sprintf("demangle-%s-force=%v", mode, force)
			p := zzcProfile()
			frame := zzcFrame(p)
			Demangle(p, force, mode)
			if after := zzcFrame(p); after != frame {
				t.Errorf("%s: frame changed:\n%s\nvs\n%s", what, frame, after)
			}
			got := zzcDump(t, what, zzcNames, p)
			// Demangling again must not disturb the result recorded either.
			Demangle(p, false, mode)
			got += "-- again --\n" + zzcDump(t, what+" again", zzcNames, p)
			check(what, got)
		}
	}

	// The same function entry listed twice in the table.
	for _, force := range []bool{false, true} {
		p := zzcProfile()
		dup := append([]*profile.Function{}, p.Function[:4]...)
		p.Function = append(p.Function, dup...)
		names := append(append([][2]string{}, zzcNames...), zzcNames[:4]...)
		Demangle(p, force, "templates")
		var b strings.Builder
		for i, f := range p.Function {
			fmt.Fprintf(&b, "%d %q <- %q / %q\n", f.ID, f.Name, names[i][0], f.SystemName)
		}
		check(fmt.Sprintf("shared-force=%v", force), b.String())
	}

	// Single functions with explicit option lists, including an empty one.
	optionSets := map[string][]demangle.Option{
		"noparams":  {demangle.NoParams},
		"notmpl":    {demangle.NoTemplateParams, demangle.NoParams},
		"noclones":  {demangle.NoClones},
		"nooptions": {},
		"verbose":   {demangle.Verbose, demangle.NoRust},
	}
	for oname, opts := range optionSets {
		var b strings.Builder
		saved := append([]demangle.Option{}, opts...)
		for _, n := range zzcNames {
			fn := &profile.Function{Name: n[0], SystemName: n[1]}
			demangleSingleFunction(fn, opts)
			fmt.Fprintf(&b, "%q <- %q / %q\n", fn.Name, n[0], n[1])
		}
		if fmt.Sprint(saved) != fmt.Sprint(opts) {
			t.Errorf("%s: caller's options modified: %v -> %v", oname, saved, opts)
		}
		check("single-"+oname, b.String())
	}

	// Through Symbolize: mode parsing decides force and demangler mode.
	for _, mode := range []string{"local", "local:force", "fastlocal:demangle=none", "local:demangle=full",
		"local:demangle=templates", "local:demangle=default", "local:demangle=bogus", "none", "remote:demangle=full"} {
		p := zzcProfile()
		frame := zzcFrame(p)
		ui := &zzcUI{}
		s := &Symbolizer{Obj: zzcObjTool{}, UI: ui}
		err := s.Symbolize(mode, plugin.MappingSources{}, p)
		if after := zzcFrame(p); after != frame {
			t.Errorf("symbolize %s: frame changed:\n%s\nvs\n%s", mode, frame, after)
		}
		got := fmt.Sprintf("err: %v\nui: %q\n", err, ui.log) + zzcDump(t, "symbolize "+mode, zzcNames, p)
		check("symbolize-"+strings.NewReplacer(":", "_", "=", "_").Replace(mode), got)
	}
}

// Outputs recorded on the unchanged tree.
var zzcGolden = map[string]string{
	"demangle--force=false": "" +
		"5 \"foo::bar\" <- \"_ZN3foo3barEv\" / \"_ZN3foo3barEv\"\n" +
		"8 \"foo::bar\" <- \"\" / \"_ZN3foo3barEi\"\n" +
		"11 \"foo::bar\" <- \"foo::bar\" / \"_ZN3foo3barEv\"\n" +
		"14 \"stale\" <- \"stale\" / \"_ZNSaIcEC1ERKS_\"\n" +
		"17 \"std::vector::push_back\" <- \"_ZNSt6vectorIiSaIiEE9push_backERKi\" / \"_ZNSt6vectorIiSaIiEE9push_backERKi\"\n" +
		"20 \"__gnu_cxx::new_allocator::allocate\" <- \"_ZN9__gnu_cxx13new_allocatorIcE8allocateEmPKv\" / \"_ZN9__gnu_cxx13new_allocatorIcE8allocateEmPKv\"\n" +
		"23 \"foo::bar\" <- \"__ZN3foo3barEv\" / \"__ZN3foo3barEv\"\n" +
		"26 \"std::vector::push_back\" <- \"\" / \"__ZNSt6vectorIiSaIiEE9push_backERKi\"\n" +
		"29 \"_notmangled\" <- \"_notmangled\" / \"_notmangled\"\n" +
		"32 \"_\" <- \"_\" / \"_\"\n" +
		"35 \"__Z\" <- \"__Z\" / \"__Z\"\n" +
		"38 \"_Z\" <- \"_Z\" / \"_Z\"\n" +
		"41 \"main.main\" <- \"main.main\" / \"main.main\"\n" +
		"44 \"main.(*T).Method\" <- \"\" / \"main.(*T).Method\"\n" +
		"47 \"main.(*Box[go.shape.int]).Get\" <- \"main.(*Box[go.shape.int]).Get\" / \"main.(*Box[go.shape.int]).Get\"\n" +
		"50 \"java.util.ArrayList.<init>\" <- \"java.util.ArrayList.<init>\" / \"java.util.ArrayList.<init>\"\n" +
		"53 \"<unknown>\" <- \"<unknown>\" / \"<unknown>\"\n" +
		"56 \"<unknown>\" <- \"\" / \"<unknown>\"\n" +
		"59 \"(anonymous)\" <- \"(anonymous)\" / \"(anonymous)\"\n" +
		"62 \"()<>\" <- \"()<>\" / \"()<>\"\n" +
		"65 \"ns::\" <- \"ns::(anonymous)\" / \"ns::(anonymous)\"\n" +
		"68 \"foo::bar\" <- \"foo::bar(int, char)\" / \"foo::bar(int, char)\"\n" +
		"71 \"std::vector::push_back\" <- \"\" / \"std::vector<int, std::allocator<int> >::push_back(int const&)\"\n" +
		"74 \"a::d\" <- \"a<b<c> >::d(e<f>)\" / \"a<b<c> >::d(e<f>)\"\n" +
		"77 \"operator<<\" <- \"operator<<(x)\" / \"operator<<(x)\"\n" +
		"80 \"broken)(::x\" <- \"broken)(::x\" / \"broken)(::x\"\n" +
		"83 \"arr[3]\" <- \"arr[3]\" / \"arr[3]\"\n" +
		"86 \"named only\" <- \"named only\" / \"\"\n" +
		"89 \"\" <- \"\" / \"\"\n" +
		"92 \"foo::bar\" <- \"_ZN3foo3barEv.cold\" / \"_ZN3foo3barEv.cold\"\n" +
		"95 \"foo::bar\" <- \"_ZN3foo3barEv.llvm.123\" / \"_ZN3foo3barEv.llvm.123\"\n" +
		"98 \"_RNvCs1234_5mycrate4main\" <- \"_RNvCs1234_5mycrate4main\" / \"_RNvCs1234_5mycrate4main\"\n" +
		"101 \"core::fmt::Write::write_fmt\" <- \"_ZN4core3fmt5Write9write_fmt17h0123456789abcdefE\" / \"_ZN4core3fmt5Write9write_fmt17h0123456789abcdefE\"\n" +
		"-- again --\n" +
		"5 \"foo::bar\" <- \"_ZN3foo3barEv\" / \"_ZN3foo3barEv\"\n" +
		"8 \"foo::bar\" <- \"\" / \"_ZN3foo3barEi\"\n" +
		"11 \"foo::bar\" <- \"foo::bar\" / \"_ZN3foo3barEv\"\n" +
		"14 \"stale\" <- \"stale\" / \"_ZNSaIcEC1ERKS_\"\n" +
		"17 \"std::vector::push_back\" <- \"_ZNSt6vectorIiSaIiEE9push_backERKi\" / \"_ZNSt6vectorIiSaIiEE9push_backERKi\"\n" +
		"20 \"__gnu_cxx::new_allocator::allocate\" <- \"_ZN9__gnu_cxx13new_allocatorIcE8allocateEmPKv\" / \"_ZN9__gnu_cxx13new_allocatorIcE8allocateEmPKv\"\n" +
		"23 \"foo::bar\" <- \"__ZN3foo3barEv\" / \"__ZN3foo3barEv\"\n" +
		"26 \"std::vector::push_back\" <- \"\" / \"__ZNSt6vectorIiSaIiEE9push_backERKi\"\n" +
		"29 \"_notmangled\" <- \"_notmangled\" / \"_notmangled\"\n" +
		"32 \"_\" <- \"_\" / \"_\"\n" +
		"35 \"__Z\" <- \"__Z\" / \"__Z\"\n" +
		"38 \"_Z\" <- \"_Z\" / \"_Z\"\n" +
		"41 \"main.main\" <- \"main.main\" / \"main.main\"\n" +
		"44 \"main.(*T).Method\" <- \"\" / \"main.(*T).Method\"\n" +
		"47 \"main.(*Box[go.shape.int]).Get\" <- \"main.(*Box[go.shape.int]).Get\" / \"main.(*Box[go.shape.int]).Get\"\n" +
		"50 \"java.util.ArrayList.<init>\" <- \"java.util.ArrayList.<init>\" / \"java.util.ArrayList.<init>\"\n" +
		"53 \"<unknown>\" <- \"<unknown>\" / \"<unknown>\"\n" +
		"56 \"<unknown>\" <- \"\" / \"<unknown>\"\n" +
		"59 \"(anonymous)\" <- \"(anonymous)\" / \"(anonymous)\"\n" +
		"62 \"()<>\" <- \"()<>\" / \"()<>\"\n" +
		"65 \"ns::\" <- \"ns::(anonymous)\" / \"ns::(anonymous)\"\n" +
		"68 \"foo::bar\" <- \"foo::bar(int, char)\" / \"foo::bar(int, char)\"\n" +
		"71 \"std::vector::push_back\" <- \"\" / \"std::vector<int, std::allocator<int> >::push_back(int const&)\"\n" +
		"74 \"a::d\" <- \"a<b<c> >::d(e<f>)\" / \"a<b<c> >::d(e<f>)\"\n" +
		"77 \"operator<<\" <- \"operator<<(x)\" / \"operator<<(x)\"\n" +
		"80 \"broken)(::x\" <- \"broken)(::x\" / \"broken)(::x\"\n" +
		"83 \"arr[3]\" <- \"arr[3]\" / \"arr[3]\"\n" +
		"86 \"named only\" <- \"named only\" / \"\"\n" +
		"89 \"\" <- \"\" / \"\"\n" +
		"92 \"foo::bar\" <- \"_ZN3foo3barEv.cold\" / \"_ZN3foo3barEv.cold\"\n" +
		"95 \"foo::bar\" <- \"_ZN3foo3barEv.llvm.123\" / \"_ZN3foo3barEv.llvm.123\"\n" +
		"98 \"_RNvCs1234_5mycrate4main\" <- \"_RNvCs1234_5mycrate4main\" / \"_RNvCs1234_5mycrate4main\"\n" +
		"101 \"core::fmt::Write::write_fmt\" <- \"_ZN4core3fmt5Write9write_fmt17h0123456789abcdefE\" / \"_ZN4core3fmt5Write9write_fmt17h0123456789abcdefE\"\n" +
		"",
	"demangle--force=true": "" +
		"5 \"foo::bar\" <- \"_ZN3foo3barEv\" / \"_ZN3foo3barEv\"\n" +
		"8 \"foo::bar\" <- \"\" / \"_ZN3foo3barEi\"\n" +
		"11 \"foo::bar\" <- \"foo::bar\" / \"_ZN3foo3barEv\"\n" +
		"14 \"std::allocator::allocator\" <- \"stale\" / \"_ZNSaIcEC1ERKS_\"\n" +
		"17 \"std::vector::push_back\" <- \"_ZNSt6vectorIiSaIiEE9push_backERKi\" / \"_ZNSt6vectorIiSaIiEE9push_backERKi\"\n" +
		"20 \"__gnu_cxx::new_allocator::allocate\" <- \"_ZN9__gnu_cxx13new_allocatorIcE8allocateEmPKv\" / \"_ZN9__gnu_cxx13new_allocatorIcE8allocateEmPKv\"\n" +
		"23 \"foo::bar\" <- \"__ZN3foo3barEv\" / \"__ZN3foo3barEv\"\n" +
		"26 \"std::vector::push_back\" <- \"\" / \"__ZNSt6vectorIiSaIiEE9push_backERKi\"\n" +
		"29 \"_notmangled\" <- \"_notmangled\" / \"_notmangled\"\n" +
		"32 \"_\" <- \"_\" / \"_\"\n" +
		"35 \"__Z\" <- \"__Z\" / \"__Z\"\n" +
		"38 \"_Z\" <- \"_Z\" / \"_Z\"\n" +
		"41 \"main.main\" <- \"main.main\" / \"main.main\"\n" +
		"44 \"main.(*T).Method\" <- \"\" / \"main.(*T).Method\"\n" +
		"47 \"main.(*Box[go.shape.int]).Get\" <- \"main.(*Box[go.shape.int]).Get\" / \"main.(*Box[go.shape.int]).Get\"\n" +
		"50 \"java.util.ArrayList.<init>\" <- \"java.util.ArrayList.<init>\" / \"java.util.ArrayList.<init>\"\n" +
		"53 \"<unknown>\" <- \"<unknown>\" / \"<unknown>\"\n" +
		"56 \"<unknown>\" <- \"\" / \"<unknown>\"\n" +
		"59 \"(anonymous)\" <- \"(anonymous)\" / \"(anonymous)\"\n" +
		"62 \"()<>\" <- \"()<>\" / \"()<>\"\n" +
		"65 \"ns::\" <- \"ns::(anonymous)\" / \"ns::(anonymous)\"\n" +
		"68 \"foo::bar\" <- \"foo::bar(int, char)\" / \"foo::bar(int, char)\"\n" +
		"71 \"std::vector::push_back\" <- \"\" / \"std::vector<int, std::allocator<int> >::push_back(int const&)\"\n" +
		"74 \"a::d\" <- \"a<b<c> >::d(e<f>)\" / \"a<b<c> >::d(e<f>)\"\n" +
		"77 \"operator<<\" <- \"operator<<(x)\" / \"operator<<(x)\"\n" +
		"80 \"broken)(::x\" <- \"broken)(::x\" / \"broken)(::x\"\n" +
		"83 \"arr[3]\" <- \"arr[3]\" / \"arr[3]\"\n" +
		"86 \"named only\" <- \"named only\" / \"\"\n" +
		"89 \"\" <- \"\" / \"\"\n" +
		"92 \"foo::bar\" <- \"_ZN3foo3barEv.cold\" / \"_ZN3foo3barEv.cold\"\n" +
		"95 \"foo::bar\" <- \"_ZN3foo3barEv.llvm.123\" / \"_ZN3foo3barEv.llvm.123\"\n" +
		"98 \"_RNvCs1234_5mycrate4main\" <- \"_RNvCs1234_5mycrate4main\" / \"_RNvCs1234_5mycrate4main\"\n" +
		"101 \"core::fmt::Write::write_fmt\" <- \"_ZN4core3fmt5Write9write_fmt17h0123456789abcdefE\" / \"_ZN4core3fmt5Write9write_fmt17h0123456789abcdefE\"\n" +
		"-- again --\n" +
		"5 \"foo::bar\" <- \"_ZN3foo3barEv\" / \"_ZN3foo3barEv\"\n" +
		"8 \"foo::bar\" <- \"\" / \"_ZN3foo3barEi\"\n" +
		"11 \"foo::bar\" <- \"foo::bar\" / \"_ZN3foo3barEv\"\n" +
		"14 \"std::allocator::allocator\" <- \"stale\" / \"_ZNSaIcEC1ERKS_\"\n" +
		"17 \"std::vector::push_back\" <- \"_ZNSt6vectorIiSaIiEE9push_backERKi\" / \"_ZNSt6vectorIiSaIiEE9push_backERKi\"\n" +
		"20 \"__gnu_cxx::new_allocator::allocate\" <- \"_ZN9__gnu_cxx13new_allocatorIcE8allocateEmPKv\" / \"_ZN9__gnu_cxx13new_allocatorIcE8allocateEmPKv\"\n" +
		"23 \"foo::bar\" <- \"__ZN3foo3barEv\" / \"__ZN3foo3barEv\"\n" +
		"26 \"std::vector::push_back\" <- \"\" / \"__ZNSt6vectorIiSaIiEE9push_backERKi\"\n" +
		"29 \"_notmangled\" <- \"_notmangled\" / \"_notmangled\"\n" +
		"32 \"_\" <- \"_\" / \"_\"\n" +
		"35 \"__Z\" <- \"__Z\" / \"__Z\"\n" +
		"38 \"_Z\" <- \"_Z\" / \"_Z\"\n" +
		"41 \"main.main\" <- \"main.main\" / \"main.main\"\n" +
		"44 \"main.(*T).Method\" <- \"\" / \"main.(*T).Method\"\n" +
		"47 \"main.(*Box[go.shape.int]).Get\" <- \"main.(*Box[go.shape.int]).Get\" / \"main.(*Box[go.shape.int]).Get\"\n" +
		"50 \"java.util.ArrayList.<init>\" <- \"java.util.ArrayList.<init>\" / \"java.util.ArrayList.<init>\"\n" +
		"53 \"<unknown>\" <- \"<unknown>\" / \"<unknown>\"\n" +
		"56 \"<unknown>\" <- \"\" / \"<unknown>\"\n" +
		"59 \"(anonymous)\" <- \"(anonymous)\" / \"(anonymous)\"\n" +
		"62 \"()<>\" <- \"()<>\" / \"()<>\"\n" +
		"65 \"ns::\" <- \"ns::(anonymous)\" / \"ns::(anonymous)\"\n" +
		"68 \"foo::bar\" <- \"foo::bar(int, char)\" / \"foo::bar(int, char)\"\n" +
		"71 \"std::vector::push_back\" <- \"\" / \"std::vector<int, std::allocator<int> >::push_back(int const&)\"\n" +
		"74 \"a::d\" <- \"a<b<c> >::d(e<f>)\" / \"a<b<c> >::d(e<f>)\"\n" +
		"77 \"operator<<\" <- \"operator<<(x)\" / \"operator<<(x)\"\n" +
		"80 \"broken)(::x\" <- \"broken)(::x\" / \"broken)(::x\"\n" +
		"83 \"arr[3]\" <- \"arr[3]\" / \"arr[3]\"\n" +
		"86 \"named only\" <- \"named only\" / \"\"\n" +
		"89 \"\" <- \"\" / \"\"\n" +
		"92 \"foo::bar\" <- \"_ZN3foo3barEv.cold\" / \"_ZN3foo3barEv.cold\"\n" +
		"95 \"foo::bar\" <- \"_ZN3foo3barEv.llvm.123\" / \"_ZN3foo3barEv.llvm.123\"\n" +
		"98 \"_RNvCs1234_5mycrate4main\" <- \"_RNvCs1234_5mycrate4main\" / \"_RNvCs1234_5mycrate4main\"\n" +
		"101 \"core::fmt::Write::write_fmt\" <- \"_ZN4core3fmt5Write9write_fmt17h0123456789abcdefE\" / \"_ZN4core3fmt5Write9write_fmt17h0123456789abcdefE\"\n" +
		"",
	"demangle-full-force=false": "" +
		"5 \"foo::bar()\" <- \"_ZN3foo3barEv\" / \"_ZN3foo3barEv\"\n" +
		"8 \"foo::bar(int)\" <- \"\" / \"_ZN3foo3barEi\"\n" +
		"11 \"foo::bar\" <- \"foo::bar\" / \"_ZN3foo3barEv\"\n" +
		"14 \"stale\" <- \"stale\" / \"_ZNSaIcEC1ERKS_\"\n" +
		"17 \"std::vector<int, std::allocator<int> >::push_back(int const&)\" <- \"_ZNSt6vectorIiSaIiEE9push_backERKi\" / \"_ZNSt6vectorIiSaIiEE9push_backERKi\"\n" +
		"20 \"__gnu_cxx::new_allocator<char>::allocate(unsigned long, void const*)\" <- \"_ZN9__gnu_cxx13new_allocatorIcE8allocateEmPKv\" / \"_ZN9__gnu_cxx13new_allocatorIcE8allocateEmPKv\"\n" +
		"23 \"foo::bar()\" <- \"__ZN3foo3barEv\" / \"__ZN3foo3barEv\"\n" +
		"26 \"std::vector<int, std::allocator<int> >::push_back(int const&)\" <- \"\" / \"__ZNSt6vectorIiSaIiEE9push_backERKi\"\n" +
		"29 \"_notmangled\" <- \"_notmangled\" / \"_notmangled\"\n" +
		"32 \"_\" <- \"_\" / \"_\"\n" +
		"35 \"__Z\" <- \"__Z\" / \"__Z\"\n" +
		"38 \"_Z\" <- \"_Z\" / \"_Z\"\n" +
		"41 \"main.main\" <- \"main.main\" / \"main.main\"\n" +
		"44 \"main.(*T).Method\" <- \"\" / \"main.(*T).Method\"\n" +
		"47 \"main.(*Box[go.shape.int]).Get\" <- \"main.(*Box[go.shape.int]).Get\" / \"main.(*Box[go.shape.int]).Get\"\n" +
		"50 \"java.util.ArrayList.<init>\" <- \"java.util.ArrayList.<init>\" / \"java.util.ArrayList.<init>\"\n" +
		"53 \"<unknown>\" <- \"<unknown>\" / \"<unknown>\"\n" +
		"56 \"<unknown>\" <- \"\" / \"<unknown>\"\n" +
		"59 \"(anonymous)\" <- \"(anonymous)\" / \"(anonymous)\"\n" +
		"62 \"()<>\" <- \"()<>\" / \"()<>\"\n" +
		"65 \"ns::(anonymous)\" <- \"ns::(anonymous)\" / \"ns::(anonymous)\"\n" +
		"68 \"foo::bar(int, char)\" <- \"foo::bar(int, char)\" / \"foo::bar(int, char)\"\n" +
		"71 \"std::vector<int, std::allocator<int> >::push_back(int const&)\" <- \"\" / \"std::vector<int, std::allocator<int> >::push_back(int const&)\"\n" +
		"74 \"a<b<c> >::d(e<f>)\" <- \"a<b<c> >::d(e<f>)\" / \"a<b<c> >::d(e<f>)\"\n" +
		"77 \"operator<<(x)\" <- \"operator<<(x)\" / \"operator<<(x)\"\n" +
		"80 \"broken)(::x\" <- \"broken)(::x\" / \"broken)(::x\"\n" +
		"83 \"arr[3]\" <- \"arr[3]\" / \"arr[3]\"\n" +
		"86 \"named only\" <- \"named only\" / \"\"\n" +
		"89 \"\" <- \"\" / \"\"\n" +
		"92 \"foo::bar()\" <- \"_ZN3foo3barEv.cold\" / \"_ZN3foo3barEv.cold\"\n" +
		"95 \"foo::bar()\" <- \"_ZN3foo3barEv.llvm.123\" / \"_ZN3foo3barEv.llvm.123\"\n" +
		"98 \"_RNvCs1234_5mycrate4main\" <- \"_RNvCs1234_5mycrate4main\" / \"_RNvCs1234_5mycrate4main\"\n" +
		"101 \"core::fmt::Write::write_fmt\" <- \"_ZN4core3fmt5Write9write_fmt17h0123456789abcdefE\" / \"_ZN4core3fmt5Write9write_fmt17h0123456789abcdefE\"\n" +
		"-- again --\n" +
		"5 \"foo::bar()\" <- \"_ZN3foo3barEv\" / \"_ZN3foo3barEv\"\n" +
		"8 \"foo::bar(int)\" <- \"\" / \"_ZN3foo3barEi\"\n" +
		"11 \"foo::bar\" <- \"foo::bar\" / \"_ZN3foo3barEv\"\n" +
		"14 \"stale\" <- \"stale\" / \"_ZNSaIcEC1ERKS_\"\n" +
		"17 \"std::vector<int, std::allocator<int> >::push_back(int const&)\" <- \"_ZNSt6vectorIiSaIiEE9push_backERKi\" / \"_ZNSt6vectorIiSaIiEE9push_backERKi\"\n" +
		"20 \"__gnu_cxx::new_allocator<char>::allocate(unsigned long, void const*)\" <- \"_ZN9__gnu_cxx13new_allocatorIcE8allocateEmPKv\" / \"_ZN9__gnu_cxx13new_allocatorIcE8allocateEmPKv\"\n" +
		"23 \"foo::bar()\" <- \"__ZN3foo3barEv\" / \"__ZN3foo3barEv\"\n" +
		"26 \"std::vector<int, std::allocator<int> >::push_back(int const&)\" <- \"\" / \"__ZNSt6vectorIiSaIiEE9push_backERKi\"\n" +
		"29 \"_notmangled\" <- \"_notmangled\" / \"_notmangled\"\n" +
		"32 \"_\" <- \"_\" / \"_\"\n" +
		"35 \"__Z\" <- \"__Z\" / \"__Z\"\n" +
		"38 \"_Z\" <- \"_Z\" / \"_Z\"\n" +
		"41 \"main.main\" <- \"main.main\" / \"main.main\"\n" +
		"44 \"main.(*T).Method\" <- \"\" / \"main.(*T).Method\"\n" +
		"47 \"main.(*Box[go.shape.int]).Get\" <- \"main.(*Box[go.shape.int]).Get\" / \"main.(*Box[go.shape.int]).Get\"\n" +
		"50 \"java.util.ArrayList.<init>\" <- \"java.util.ArrayList.<init>\" / \"java.util.ArrayList.<init>\"\n" +
		"53 \"<unknown>\" <- \"<unknown>\" / \"<unknown>\"\n" +
		"56 \"<unknown>\" <- \"\" / \"<unknown>\"\n" +
		"59 \"(anonymous)\" <- \"(anonymous)\" / \"(anonymous)\"\n" +
		"62 \"()<>\" <- \"()<>\" / \"()<>\"\n" +
		"65 \"ns::(anonymous)\" <- \"ns::(anonymous)\" / \"ns::(anonymous)\"\n" +
		"68 \"foo::bar(int, char)\" <- \"foo::bar(int, char)\" / \"foo::bar(int, char)\"\n" +
		"71 \"std::vector<int, std::allocator<int> >::push_back(int const&)\" <- \"\" / \"std::vector<int, std::allocator<int> >::push_back(int const&)\"\n" +
		"74 \"a<b<c> >::d(e<f>)\" <- \"a<b<c> >::d(e<f>)\" / \"a<b<c> >::d(e<f>)\"\n" +
		"77 \"operator<<(x)\" <- \"operator<<(x)\" / \"operator<<(x)\"\n" +
		"80 \"broken)(::x\" <- \"broken)(::x\" / \"broken)(::x\"\n" +
		"83 \"arr[3]\" <- \"arr[3]\" / \"arr[3]\"\n" +
		"86 \"named only\" <- \"named only\" / \"\"\n" +
		"89 \"\" <- \"\" / \"\"\n" +
		"92 \"foo::bar()\" <- \"_ZN3foo3barEv.cold\" / \"_ZN3foo3barEv.cold\"\n" +
		"95 \"foo::bar()\" <- \"_ZN3foo3barEv.llvm.123\" / \"_ZN3foo3barEv.llvm.123\"\n" +
		"98 \"_RNvCs1234_5mycrate4main\" <- \"_RNvCs1234_5mycrate4main\" / \"_RNvCs1234_5mycrate4main\"\n" +
		"101 \"core::fmt::Write::write_fmt\" <- \"_ZN4core3fmt5Write9write_fmt17h0123456789abcdefE\" / \"_ZN4core3fmt5Write9write_fmt17h0123456789abcdefE\"\n" +
		"",
	"demangle-full-force=true": "" +
		"5 \"foo::bar()\" <- \"_ZN3foo3barEv\" / \"_ZN3foo3barEv\"\n" +
		"8 \"foo::bar(int)\" <- \"\" / \"_ZN3foo3barEi\"\n" +
		"11 \"foo::bar()\" <- \"foo::bar\" / \"_ZN3foo3barEv\"\n" +
		"14 \"std::allocator<char>::allocator(std::allocator<char> const&)\" <- \"stale\" / \"_ZNSaIcEC1ERKS_\"\n" +
		"17 \"std::vector<int, std::allocator<int> >::push_back(int const&)\" <- \"_ZNSt6vectorIiSaIiEE9push_backERKi\" / \"_ZNSt6vectorIiSaIiEE9push_backERKi\"\n" +
		"20 \"__gnu_cxx::new_allocator<char>::allocate(unsigned long, void const*)\" <- \"_ZN9__gnu_cxx13new_allocatorIcE8allocateEmPKv\" / \"_ZN9__gnu_cxx13new_allocatorIcE8allocateEmPKv\"\n" +
		"23 \"foo::bar()\" <- \"__ZN3foo3barEv\" / \"__ZN3foo3barEv\"\n" +
		"26 \"std::vector<int, std::allocator<int> >::push_back(int const&)\" <- \"\" / \"__ZNSt6vectorIiSaIiEE9push_backERKi\"\n" +
		"29 \"_notmangled\" <- \"_notmangled\" / \"_notmangled\"\n" +
		"32 \"_\" <- \"_\" / \"_\"\n" +
		"35 \"__Z\" <- \"__Z\" / \"__Z\"\n" +
		"38 \"_Z\" <- \"_Z\" / \"_Z\"\n" +
		"41 \"main.main\" <- \"main.main\" / \"main.main\"\n" +
		"44 \"main.(*T).Method\" <- \"\" / \"main.(*T).Method\"\n" +
		"47 \"main.(*Box[go.shape.int]).Get\" <- \"main.(*Box[go.shape.int]).Get\" / \"main.(*Box[go.shape.int]).Get\"\n" +
		"50 \"java.util.ArrayList.<init>\" <- \"java.util.ArrayList.<init>\" / \"java.util.ArrayList.<init>\"\n" +
		"53 \"<unknown>\" <- \"<unknown>\" / \"<unknown>\"\n" +
		"56 \"<unknown>\" <- \"\" / \"<unknown>\"\n" +
		"59 \"(anonymous)\" <- \"(anonymous)\" / \"(anonymous)\"\n" +
		"62 \"()<>\" <- \"()<>\" / \"()<>\"\n" +
		"65 \"ns::(anonymous)\" <- \"ns::(anonymous)\" / \"ns::(anonymous)\"\n" +
		"68 \"foo::bar(int, char)\" <- \"foo::bar(int, char)\" / \"foo::bar(int, char)\"\n" +
		"71 \"std::vector<int, std::allocator<int> >::push_back(int const&)\" <- \"\" / \"std::vector<int, std::allocator<int> >::push_back(int const&)\"\n" +
		"74 \"a<b<c> >::d(e<f>)\" <- \"a<b<c> >::d(e<f>)\" / \"a<b<c> >::d(e<f>)\"\n" +
		"77 \"operator<<(x)\" <- \"operator<<(x)\" / \"operator<<(x)\"\n" +
		"80 \"broken)(::x\" <- \"broken)(::x\" / \"broken)(::x\"\n" +
		"83 \"arr[3]\" <- \"arr[3]\" / \"arr[3]\"\n" +
		"86 \"named only\" <- \"named only\" / \"\"\n" +
		"89 \"\" <- \"\" / \"\"\n" +
		"92 \"foo::bar()\" <- \"_ZN3foo3barEv.cold\" / \"_ZN3foo3barEv.cold\"\n" +
		"95 \"foo::bar()\" <- \"_ZN3foo3barEv.llvm.123\" / \"_ZN3foo3barEv.llvm.123\"\n" +
		"98 \"_RNvCs1234_5mycrate4main\" <- \"_RNvCs1234_5mycrate4main\" / \"_RNvCs1234_5mycrate4main\"\n" +
		"101 \"core::fmt::Write::write_fmt\" <- \"_ZN4core3fmt5Write9write_fmt17h0123456789abcdefE\" / \"_ZN4core3fmt5Write9write_fmt17h0123456789abcdefE\"\n" +
		"-- again --\n" +
		"5 \"foo::bar()\" <- \"_ZN3foo3barEv\" / \"_ZN3foo3barEv\"\n" +
		"8 \"foo::bar(int)\" <- \"\" / \"_ZN3foo3barEi\"\n" +
		"11 \"foo::bar()\" <- \"foo::bar\" / \"_ZN3foo3barEv\"\n" +
		"14 \"std::allocator<char>::allocator(std::allocator<char> const&)\" <- \"stale\" / \"_ZNSaIcEC1ERKS_\"\n" +
		"17 \"std::vector<int, std::allocator<int> >::push_back(int const&)\" <- \"_ZNSt6vectorIiSaIiEE9push_backERKi\" / \"_ZNSt6vectorIiSaIiEE9push_backERKi\"\n" +
		"20 \"__gnu_cxx::new_allocator<char>::allocate(unsigned long, void const*)\" <- \"_ZN9__gnu_cxx13new_allocatorIcE8allocateEmPKv\" / \"_ZN9__gnu_cxx13new_allocatorIcE8allocateEmPKv\"\n" +
		"23 \"foo::bar()\" <- \"__ZN3foo3barEv\" / \"__ZN3foo3barEv\"\n" +
		"26 \"std::vector<int, std::allocator<int> >::push_back(int const&)\" <- \"\" / \"__ZNSt6vectorIiSaIiEE9push_backERKi\"\n" +
		"29 \"_notmangled\" <- \"_notmangled\" / \"_notmangled\"\n" +
		"32 \"_\" <- \"_\" / \"_\"\n" +
		"35 \"__Z\" <- \"__Z\" / \"__Z\"\n" +
		"38 \"_Z\" <- \"_Z\" / \"_Z\"\n" +
		"41 \"main.main\" <- \"main.main\" / \"main.main\"\n" +
		"44 \"main.(*T).Method\" <- \"\" / \"main.(*T).Method\"\n" +
		"47 \"main.(*Box[go.shape.int]).Get\" <- \"main.(*Box[go.shape.int]).Get\" / \"main.(*Box[go.shape.int]).Get\"\n" +
		"50 \"java.util.ArrayList.<init>\" <- \"java.util.ArrayList.<init>\" / \"java.util.ArrayList.<init>\"\n" +
		"53 \"<unknown>\" <- \"<unknown>\" / \"<unknown>\"\n" +
		"56 \"<unknown>\" <- \"\" / \"<unknown>\"\n" +
		"59 \"(anonymous)\" <- \"(anonymous)\" / \"(anonymous)\"\n" +
		"62 \"()<>\" <- \"()<>\" / \"()<>\"\n" +
		"65 \"ns::(anonymous)\" <- \"ns::(anonymous)\" / \"ns::(anonymous)\"\n" +
		"68 \"foo::bar(int, char)\" <- \"foo::bar(int, char)\" / \"foo::bar(int, char)\"\n" +
		"71 \"std::vector<int, std::allocator<int> >::push_back(int const&)\" <- \"\" / \"std::vector<int, std::allocator<int> >::push_back(int const&)\"\n" +
		"74 \"a<b<c> >::d(e<f>)\" <- \"a<b<c> >::d(e<f>)\" / \"a<b<c> >::d(e<f>)\"\n" +
		"77 \"operator<<(x)\" <- \"operator<<(x)\" / \"operator<<(x)\"\n" +
		"80 \"broken)(::x\" <- \"broken)(::x\" / \"broken)(::x\"\n" +
		"83 \"arr[3]\" <- \"arr[3]\" / \"arr[3]\"\n" +
		"86 \"named only\" <- \"named only\" / \"\"\n" +
		"89 \"\" <- \"\" / \"\"\n" +
		"92 \"foo::bar()\" <- \"_ZN3foo3barEv.cold\" / \"_ZN3foo3barEv.cold\"\n" +
		"95 \"foo::bar()\" <- \"_ZN3foo3barEv.llvm.123\" / \"_ZN3foo3barEv.llvm.123\"\n" +
		"98 \"_RNvCs1234_5mycrate4main\" <- \"_RNvCs1234_5mycrate4main\" / \"_RNvCs1234_5mycrate4main\"\n" +
		"101 \"core::fmt::Write::write_fmt\" <- \"_ZN4core3fmt5Write9write_fmt17h0123456789abcdefE\" / \"_ZN4core3fmt5Write9write_fmt17h0123456789abcdefE\"\n" +
		"",
	"demangle-none-force=false": "" +
		"5 \"_ZN3foo3barEv\" <- \"_ZN3foo3barEv\" / \"_ZN3foo3barEv\"\n" +
		"8 \"\" <- \"\" / \"_ZN3foo3barEi\"\n" +
		"11 \"foo::bar\" <- \"foo::bar\" / \"_ZN3foo3barEv\"\n" +
		"14 \"stale\" <- \"stale\" / \"_ZNSaIcEC1ERKS_\"\n" +
		"17 \"_ZNSt6vectorIiSaIiEE9push_backERKi\" <- \"_ZNSt6vectorIiSaIiEE9push_backERKi\" / \"_ZNSt6vectorIiSaIiEE9push_backERKi\"\n" +
		"20 \"_ZN9__gnu_cxx13new_allocatorIcE8allocateEmPKv\" <- \"_ZN9__gnu_cxx13new_allocatorIcE8allocateEmPKv\" / \"_ZN9__gnu_cxx13new_allocatorIcE8allocateEmPKv\"\n" +
		"23 \"__ZN3foo3barEv\" <- \"__ZN3foo3barEv\" / \"__ZN3foo3barEv\"\n" +
		"26 \"\" <- \"\" / \"__ZNSt6vectorIiSaIiEE9push_backERKi\"\n" +
		"29 \"_notmangled\" <- \"_notmangled\" / \"_notmangled\"\n" +
		"32 \"_\" <- \"_\" / \"_\"\n" +
		"35 \"__Z\" <- \"__Z\" / \"__Z\"\n" +
		"38 \"_Z\" <- \"_Z\" / \"_Z\"\n" +
		"41 \"main.main\" <- \"main.main\" / \"main.main\"\n" +
		"44 \"\" <- \"\" / \"main.(*T).Method\"\n" +
		"47 \"main.(*Box[go.shape.int]).Get\" <- \"main.(*Box[go.shape.int]).Get\" / \"main.(*Box[go.shape.int]).Get\"\n" +
		"50 \"java.util.ArrayList.<init>\" <- \"java.util.ArrayList.<init>\" / \"java.util.ArrayList.<init>\"\n" +
		"53 \"<unknown>\" <- \"<unknown>\" / \"<unknown>\"\n" +
		"56 \"\" <- \"\" / \"<unknown>\"\n" +
		"59 \"(anonymous)\" <- \"(anonymous)\" / \"(anonymous)\"\n" +
		"62 \"()<>\" <- \"()<>\" / \"()<>\"\n" +
		"65 \"ns::(anonymous)\" <- \"ns::(anonymous)\" / \"ns::(anonymous)\"\n" +
		"68 \"foo::bar(int, char)\" <- \"foo::bar(int, char)\" / \"foo::bar(int, char)\"\n" +
		"71 \"\" <- \"\" / \"std::vector<int, std::allocator<int> >::push_back(int const&)\"\n" +
		"74 \"a<b<c> >::d(e<f>)\" <- \"a<b<c> >::d(e<f>)\" / \"a<b<c> >::d(e<f>)\"\n" +
		"77 \"operator<<(x)\" <- \"operator<<(x)\" / \"operator<<(x)\"\n" +
		"80 \"broken)(::x\" <- \"broken)(::x\" / \"broken)(::x\"\n" +
		"83 \"arr[3]\" <- \"arr[3]\" / \"arr[3]\"\n" +
		"86 \"named only\" <- \"named only\" / \"\"\n" +
		"89 \"\" <- \"\" / \"\"\n" +
		"92 \"_ZN3foo3barEv.cold\" <- \"_ZN3foo3barEv.cold\" / \"_ZN3foo3barEv.cold\"\n" +
		"95 \"_ZN3foo3barEv.llvm.123\" <- \"_ZN3foo3barEv.llvm.123\" / \"_ZN3foo3barEv.llvm.123\"\n" +
		"98 \"_RNvCs1234_5mycrate4main\" <- \"_RNvCs1234_5mycrate4main\" / \"_RNvCs1234_5mycrate4main\"\n" +
		"101 \"_ZN4core3fmt5Write9write_fmt17h0123456789abcdefE\" <- \"_ZN4core3fmt5Write9write_fmt17h0123456789abcdefE\" / \"_ZN4core3fmt5Write9write_fmt17h0123456789abcdefE\"\n" +
		"-- again --\n" +
		"5 \"_ZN3foo3barEv\" <- \"_ZN3foo3barEv\" / \"_ZN3foo3barEv\"\n" +
		"8 \"\" <- \"\" / \"_ZN3foo3barEi\"\n" +
		"11 \"foo::bar\" <- \"foo::bar\" / \"_ZN3foo3barEv\"\n" +
		"14 \"stale\" <- \"stale\" / \"_ZNSaIcEC1ERKS_\"\n" +
		"17 \"_ZNSt6vectorIiSaIiEE9push_backERKi\" <- \"_ZNSt6vectorIiSaIiEE9push_backERKi\" / \"_ZNSt6vectorIiSaIiEE9push_backERKi\"\n" +
		"20 \"_ZN9__gnu_cxx13new_allocatorIcE8allocateEmPKv\" <- \"_ZN9__gnu_cxx13new_allocatorIcE8allocateEmPKv\" / \"_ZN9__gnu_cxx13new_allocatorIcE8allocateEmPKv\"\n" +
		"23 \"__ZN3foo3barEv\" <- \"__ZN3foo3barEv\" / \"__ZN3foo3barEv\"\n" +
		"26 \"\" <- \"\" / \"__ZNSt6vectorIiSaIiEE9push_backERKi\"\n" +
		"29 \"_notmangled\" <- \"_notmangled\" / \"_notmangled\"\n" +
		"32 \"_\" <- \"_\" / \"_\"\n" +
		"35 \"__Z\" <- \"__Z\" / \"__Z\"\n" +
		"38 \"_Z\" <- \"_Z\" / \"_Z\"\n" +
		"41 \"main.main\" <- \"main.main\" / \"main.main\"\n" +
		"44 \"\" <- \"\" / \"main.(*T).Method\"\n" +
		"47 \"main.(*Box[go.shape.int]).Get\" <- \"main.(*Box[go.shape.int]).Get\" / \"main.(*Box[go.shape.int]).Get\"\n" +
		"50 \"java.util.ArrayList.<init>\" <- \"java.util.ArrayList.<init>\" / \"java.util.ArrayList.<init>\"\n" +
		"53 \"<unknown>\" <- \"<unknown>\" / \"<unknown>\"\n" +
		"56 \"\" <- \"\" / \"<unknown>\"\n" +
		"59 \"(anonymous)\" <- \"(anonymous)\" / \"(anonymous)\"\n" +
		"62 \"()<>\" <- \"()<>\" / \"()<>\"\n" +
		"65 \"ns::(anonymous)\" <- \"ns::(anonymous)\" / \"ns::(anonymous)\"\n" +
		"68 \"foo::bar(int, char)\" <- \"foo::bar(int, char)\" / \"foo::bar(int, char)\"\n" +
		"71 \"\" <- \"\" / \"std::vector<int, std::allocator<int> >::push_back(int const&)\"\n" +
		"74 \"a<b<c> >::d(e<f>)\" <- \"a<b<c> >::d(e<f>)\" / \"a<b<c> >::d(e<f>)\"\n" +
		"77 \"operator<<(x)\" <- \"operator<<(x)\" / \"operator<<(x)\"\n" +
		"80 \"broken)(::x\" <- \"broken)(::x\" / \"broken)(::x\"\n" +
		"83 \"arr[3]\" <- \"arr[3]\" / \"arr[3]\"\n" +
		"86 \"named only\" <- \"named only\" / \"\"\n" +
		"89 \"\" <- \"\" / \"\"\n" +
		"92 \"_ZN3foo3barEv.cold\" <- \"_ZN3foo3barEv.cold\" / \"_ZN3foo3barEv.cold\"\n" +
		"95 \"_ZN3foo3barEv.llvm.123\" <- \"_ZN3foo3barEv.llvm.123\" / \"_ZN3foo3barEv.llvm.123\"\n" +
		"98 \"_RNvCs1234_5mycrate4main\" <- \"_RNvCs1234_5mycrate4main\" / \"_RNvCs1234_5mycrate4main\"\n" +
		"101 \"_ZN4core3fmt5Write9write_fmt17h0123456789abcdefE\" <- \"_ZN4core3fmt5Write9write_fmt17h0123456789abcdefE\" / \"_ZN4core3fmt5Write9write_fmt17h0123456789abcdefE\"\n" +
		"",
	"demangle-none-force=true": "" +
		"5 \"_ZN3foo3barEv\" <- \"_ZN3foo3barEv\" / \"_ZN3foo3barEv\"\n" +
		"8 \"\" <- \"\" / \"_ZN3foo3barEi\"\n" +
		"11 \"_ZN3foo3barEv\" <- \"foo::bar\" / \"_ZN3foo3barEv\"\n" +
		"14 \"_ZNSaIcEC1ERKS_\" <- \"stale\" / \"_ZNSaIcEC1ERKS_\"\n" +
		"17 \"_ZNSt6vectorIiSaIiEE9push_backERKi\" <- \"_ZNSt6vectorIiSaIiEE9push_backERKi\" / \"_ZNSt6vectorIiSaIiEE9push_backERKi\"\n" +
		"20 \"_ZN9__gnu_cxx13new_allocatorIcE8allocateEmPKv\" <- \"_ZN9__gnu_cxx13new_allocatorIcE8allocateEmPKv\" / \"_ZN9__gnu_cxx13new_allocatorIcE8allocateEmPKv\"\n" +
		"23 \"__ZN3foo3barEv\" <- \"__ZN3foo3barEv\" / \"__ZN3foo3barEv\"\n" +
		"26 \"\" <- \"\" / \"__ZNSt6vectorIiSaIiEE9push_backERKi\"\n" +
		"29 \"_notmangled\" <- \"_notmangled\" / \"_notmangled\"\n" +
		"32 \"_\" <- \"_\" / \"_\"\n" +
		"35 \"__Z\" <- \"__Z\" / \"__Z\"\n" +
		"38 \"_Z\" <- \"_Z\" / \"_Z\"\n" +
		"41 \"main.main\" <- \"main.main\" / \"main.main\"\n" +
		"44 \"\" <- \"\" / \"main.(*T).Method\"\n" +
		"47 \"main.(*Box[go.shape.int]).Get\" <- \"main.(*Box[go.shape.int]).Get\" / \"main.(*Box[go.shape.int]).Get\"\n" +
		"50 \"java.util.ArrayList.<init>\" <- \"java.util.ArrayList.<init>\" / \"java.util.ArrayList.<init>\"\n" +
		"53 \"<unknown>\" <- \"<unknown>\" / \"<unknown>\"\n" +
		"56 \"\" <- \"\" / \"<unknown>\"\n" +
		"59 \"(anonymous)\" <- \"(anonymous)\" / \"(anonymous)\"\n" +
		"62 \"()<>\" <- \"()<>\" / \"()<>\"\n" +
		"65 \"ns::(anonymous)\" <- \"ns::(anonymous)\" / \"ns::(anonymous)\"\n" +
		"68 \"foo::bar(int, char)\" <- \"foo::bar(int, char)\" / \"foo::bar(int, char)\"\n" +
		"71 \"\" <- \"\" / \"std::vector<int, std::allocator<int> >::push_back(int const&)\"\n" +
		"74 \"a<b<c> >::d(e<f>)\" <- \"a<b<c> >::d(e<f>)\" / \"a<b<c> >::d(e<f>)\"\n" +
		"77 \"operator<<(x)\" <- \"operator<<(x)\" / \"operator<<(x)\"\n" +
		"80 \"broken)(::x\" <- \"broken)(::x\" / \"broken)(::x\"\n" +
		"83 \"arr[3]\" <- \"arr[3]\" / \"arr[3]\"\n" +
		"86 \"named only\" <- \"named only\" / \"\"\n" +
		"89 \"\" <- \"\" / \"\"\n" +
		"92 \"_ZN3foo3barEv.cold\" <- \"_ZN3foo3barEv.cold\" / \"_ZN3foo3barEv.cold\"\n" +
		"95 \"_ZN3foo3barEv.llvm.123\" <- \"_ZN3foo3barEv.llvm.123\" / \"_ZN3foo3barEv.llvm.123\"\n" +
		"98 \"_RNvCs1234_5mycrate4main\" <- \"_RNvCs1234_5mycrate4main\" / \"_RNvCs1234_5mycrate4main\"\n" +
		"101 \"_ZN4core3fmt5Write9write_fmt17h0123456789abcdefE\" <- \"_ZN4core3fmt5Write9write_fmt17h0123456789abcdefE\" / \"_ZN4core3fmt5Write9write_fmt17h0123456789abcdefE\"\n" +
		"-- again --\n" +
		"5 \"_ZN3foo3barEv\" <- \"_ZN3foo3barEv\" / \"_ZN3foo3barEv\"\n" +
		"8 \"\" <- \"\" / \"_ZN3foo3barEi\"\n" +
		"11 \"_ZN3foo3barEv\" <- \"foo::bar\" / \"_ZN3foo3barEv\"\n" +
		"14 \"_ZNSaIcEC1ERKS_\" <- \"stale\" / \"_ZNSaIcEC1ERKS_\"\n" +
		"17 \"_ZNSt6vectorIiSaIiEE9push_backERKi\" <- \"_ZNSt6vectorIiSaIiEE9push_backERKi\" / \"_ZNSt6vectorIiSaIiEE9push_backERKi\"\n" +
		"20 \"_ZN9__gnu_cxx13new_allocatorIcE8allocateEmPKv\" <- \"_ZN9__gnu_cxx13new_allocatorIcE8allocateEmPKv\" / \"_ZN9__gnu_cxx13new_allocatorIcE8allocateEmPKv\"\n" +
		"23 \"__ZN3foo3barEv\" <- \"__ZN3foo3barEv\" / \"__ZN3foo3barEv\"\n" +
		"26 \"\" <- \"\" / \"__ZNSt6vectorIiSaIiEE9push_backERKi\"\n" +
		"29 \"_notmangled\" <- \"_notmangled\" / \"_notmangled\"\n" +
		"32 \"_\" <- \"_\" / \"_\"\n" +
		"35 \"__Z\" <- \"__Z\" / \"__Z\"\n" +
		"38 \"_Z\" <- \"_Z\" / \"_Z\"\n" +
		"41 \"main.main\" <- \"main.main\" / \"main.main\"\n" +
		"44 \"\" <- \"\" / \"main.(*T).Method\"\n" +
		"47 \"main.(*Box[go.shape.int]).Get\" <- \"main.(*Box[go.shape.int]).Get\" / \"main.(*Box[go.shape.int]).Get\"\n" +
		"50 \"java.util.ArrayList.<init>\" <- \"java.util.ArrayList.<init>\" / \"java.util.ArrayList.<init>\"\n" +
		"53 \"<unknown>\" <- \"<unknown>\" / \"<unknown>\"\n" +
		"56 \"\" <- \"\" / \"<unknown>\"\n" +
		"59 \"(anonymous)\" <- \"(anonymous)\" / \"(anonymous)\"\n" +
		"62 \"()<>\" <- \"()<>\" / \"()<>\"\n" +
		"65 \"ns::(anonymous)\" <- \"ns::(anonymous)\" / \"ns::(anonymous)\"\n" +
		"68 \"foo::bar(int, char)\" <- \"foo::bar(int, char)\" / \"foo::bar(int, char)\"\n" +
		"71 \"\" <- \"\" / \"std::vector<int, std::allocator<int> >::push_back(int const&)\"\n" +
		"74 \"a<b<c> >::d(e<f>)\" <- \"a<b<c> >::d(e<f>)\" / \"a<b<c> >::d(e<f>)\"\n" +
		"77 \"operator<<(x)\" <- \"operator<<(x)\" / \"operator<<(x)\"\n" +
		"80 \"broken)(::x\" <- \"broken)(::x\" / \"broken)(::x\"\n" +
		"83 \"arr[3]\" <- \"arr[3]\" / \"arr[3]\"\n" +
		"86 \"named only\" <- \"named only\" / \"\"\n" +
		"89 \"\" <- \"\" / \"\"\n" +
		"92 \"_ZN3foo3barEv.cold\" <- \"_ZN3foo3barEv.cold\" / \"_ZN3foo3barEv.cold\"\n" +
		"95 \"_ZN3foo3barEv.llvm.123\" <- \"_ZN3foo3barEv.llvm.123\" / \"_ZN3foo3barEv.llvm.123\"\n" +
		"98 \"_RNvCs1234_5mycrate4main\" <- \"_RNvCs1234_5mycrate4main\" / \"_RNvCs1234_5mycrate4main\"\n" +
		"101 \"_ZN4core3fmt5Write9write_fmt17h0123456789abcdefE\" <- \"_ZN4core3fmt5Write9write_fmt17h0123456789abcdefE\" / \"_ZN4core3fmt5Write9write_fmt17h0123456789abcdefE\"\n" +
		"",
	"demangle-templates-force=false": "" +
		"5 \"foo::bar\" <- \"_ZN3foo3barEv\" / \"_ZN3foo3barEv\"\n" +
		"8 \"foo::bar\" <- \"\" / \"_ZN3foo3barEi\"\n" +
		"11 \"foo::bar\" <- \"foo::bar\" / \"_ZN3foo3barEv\"\n" +
		"14 \"stale\" <- \"stale\" / \"_ZNSaIcEC1ERKS_\"\n" +
		"17 \"std::vector<int, std::allocator<int> >::push_back\" <- \"_ZNSt6vectorIiSaIiEE9push_backERKi\" / \"_ZNSt6vectorIiSaIiEE9push_backERKi\"\n" +
		"20 \"__gnu_cxx::new_allocator<char>::allocate\" <- \"_ZN9__gnu_cxx13new_allocatorIcE8allocateEmPKv\" / \"_ZN9__gnu_cxx13new_allocatorIcE8allocateEmPKv\"\n" +
		"23 \"foo::bar\" <- \"__ZN3foo3barEv\" / \"__ZN3foo3barEv\"\n" +
		"26 \"std::vector<int, std::allocator<int> >::push_back\" <- \"\" / \"__ZNSt6vectorIiSaIiEE9push_backERKi\"\n" +
		"29 \"_notmangled\" <- \"_notmangled\" / \"_notmangled\"\n" +
		"32 \"_\" <- \"_\" / \"_\"\n" +
		"35 \"__Z\" <- \"__Z\" / \"__Z\"\n" +
		"38 \"_Z\" <- \"_Z\" / \"_Z\"\n" +
		"41 \"main.main\" <- \"main.main\" / \"main.main\"\n" +
		"44 \"main.(*T).Method\" <- \"\" / \"main.(*T).Method\"\n" +
		"47 \"main.(*Box[go.shape.int]).Get\" <- \"main.(*Box[go.shape.int]).Get\" / \"main.(*Box[go.shape.int]).Get\"\n" +
		"50 \"java.util.ArrayList.<init>\" <- \"java.util.ArrayList.<init>\" / \"java.util.ArrayList.<init>\"\n" +
		"53 \"<unknown>\" <- \"<unknown>\" / \"<unknown>\"\n" +
		"56 \"<unknown>\" <- \"\" / \"<unknown>\"\n" +
		"59 \"(anonymous)\" <- \"(anonymous)\" / \"(anonymous)\"\n" +
		"62 \"<>\" <- \"()<>\" / \"()<>\"\n" +
		"65 \"ns::\" <- \"ns::(anonymous)\" / \"ns::(anonymous)\"\n" +
		"68 \"foo::bar\" <- \"foo::bar(int, char)\" / \"foo::bar(int, char)\"\n" +
		"71 \"std::vector<int, std::allocator<int> >::push_back\" <- \"\" / \"std::vector<int, std::allocator<int> >::push_back(int const&)\"\n" +
		"74 \"a<b<c> >::d\" <- \"a<b<c> >::d(e<f>)\" / \"a<b<c> >::d(e<f>)\"\n" +
		"77 \"operator<<\" <- \"operator<<(x)\" / \"operator<<(x)\"\n" +
		"80 \"broken)(::x\" <- \"broken)(::x\" / \"broken)(::x\"\n" +
		"83 \"arr[3]\" <- \"arr[3]\" / \"arr[3]\"\n" +
		"86 \"named only\" <- \"named only\" / \"\"\n" +
		"89 \"\" <- \"\" / \"\"\n" +
		"92 \"foo::bar\" <- \"_ZN3foo3barEv.cold\" / \"_ZN3foo3barEv.cold\"\n" +
		"95 \"foo::bar\" <- \"_ZN3foo3barEv.llvm.123\" / \"_ZN3foo3barEv.llvm.123\"\n" +
		"98 \"_RNvCs1234_5mycrate4main\" <- \"_RNvCs1234_5mycrate4main\" / \"_RNvCs1234_5mycrate4main\"\n" +
		"101 \"core::fmt::Write::write_fmt\" <- \"_ZN4core3fmt5Write9write_fmt17h0123456789abcdefE\" / \"_ZN4core3fmt5Write9write_fmt17h0123456789abcdefE\"\n" +
		"-- again --\n" +
		"5 \"foo::bar\" <- \"_ZN3foo3barEv\" / \"_ZN3foo3barEv\"\n" +
		"8 \"foo::bar\" <- \"\" / \"_ZN3foo3barEi\"\n" +
		"11 \"foo::bar\" <- \"foo::bar\" / \"_ZN3foo3barEv\"\n" +
		"14 \"stale\" <- \"stale\" / \"_ZNSaIcEC1ERKS_\"\n" +
		"17 \"std::vector<int, std::allocator<int> >::push_back\" <- \"_ZNSt6vectorIiSaIiEE9push_backERKi\" / \"_ZNSt6vectorIiSaIiEE9push_backERKi\"\n" +
		"20 \"__gnu_cxx::new_allocator<char>::allocate\" <- \"_ZN9__gnu_cxx13new_allocatorIcE8allocateEmPKv\" / \"_ZN9__gnu_cxx13new_allocatorIcE8allocateEmPKv\"\n" +
		"23 \"foo::bar\" <- \"__ZN3foo3barEv\" / \"__ZN3foo3barEv\"\n" +
		"26 \"std::vector<int, std::allocator<int> >::push_back\" <- \"\" / \"__ZNSt6vectorIiSaIiEE9push_backERKi\"\n" +
		"29 \"_notmangled\" <- \"_notmangled\" / \"_notmangled\"\n" +
		"32 \"_\" <- \"_\" / \"_\"\n" +
		"35 \"__Z\" <- \"__Z\" / \"__Z\"\n" +
		"38 \"_Z\" <- \"_Z\" / \"_Z\"\n" +
		"41 \"main.main\" <- \"main.main\" / \"main.main\"\n" +
		"44 \"main.(*T).Method\" <- \"\" / \"main.(*T).Method\"\n" +
		"47 \"main.(*Box[go.shape.int]).Get\" <- \"main.(*Box[go.shape.int]).Get\" / \"main.(*Box[go.shape.int]).Get\"\n" +
		"50 \"java.util.ArrayList.<init>\" <- \"java.util.ArrayList.<init>\" / \"java.util.ArrayList.<init>\"\n" +
		"53 \"<unknown>\" <- \"<unknown>\" / \"<unknown>\"\n" +
		"56 \"<unknown>\" <- \"\" / \"<unknown>\"\n" +
		"59 \"(anonymous)\" <- \"(anonymous)\" / \"(anonymous)\"\n" +
		"62 \"<>\" <- \"()<>\" / \"()<>\"\n" +
		"65 \"ns::\" <- \"ns::(anonymous)\" / \"ns::(anonymous)\"\n" +
		"68 \"foo::bar\" <- \"foo::bar(int, char)\" / \"foo::bar(int, char)\"\n" +
		"71 \"std::vector<int, std::allocator<int> >::push_back\" <- \"\" / \"std::vector<int, std::allocator<int> >::push_back(int const&)\"\n" +
		"74 \"a<b<c> >::d\" <- \"a<b<c> >::d(e<f>)\" / \"a<b<c> >::d(e<f>)\"\n" +
		"77 \"operator<<\" <- \"operator<<(x)\" / \"operator<<(x)\"\n" +
		"80 \"broken)(::x\" <- \"broken)(::x\" / \"broken)(::x\"\n" +
		"83 \"arr[3]\" <- \"arr[3]\" / \"arr[3]\"\n" +
		"86 \"named only\" <- \"named only\" / \"\"\n" +
		"89 \"\" <- \"\" / \"\"\n" +
		"92 \"foo::bar\" <- \"_ZN3foo3barEv.cold\" / \"_ZN3foo3barEv.cold\"\n" +
		"95 \"foo::bar\" <- \"_ZN3foo3barEv.llvm.123\" / \"_ZN3foo3barEv.llvm.123\"\n" +
		"98 \"_RNvCs1234_5mycrate4main\" <- \"_RNvCs1234_5mycrate4main\" / \"_RNvCs1234_5mycrate4main\"\n" +
		"101 \"core::fmt::Write::write_fmt\" <- \"_ZN4core3fmt5Write9write_fmt17h0123456789abcdefE\" / \"_ZN4core3fmt5Write9write_fmt17h0123456789abcdefE\"\n" +
		"",
	"demangle-templates-force=true": "" +
		"5 \"foo::bar\" <- \"_ZN3foo3barEv\" / \"_ZN3foo3barEv\"\n" +
		"8 \"foo::bar\" <- \"\" / \"_ZN3foo3barEi\"\n" +
		"11 \"foo::bar\" <- \"foo::bar\" / \"_ZN3foo3barEv\"\n" +
		"14 \"std::allocator<char>::allocator\" <- \"stale\" / \"_ZNSaIcEC1ERKS_\"\n" +
		"17 \"std::vector<int, std::allocator<int> >::push_back\" <- \"_ZNSt6vectorIiSaIiEE9push_backERKi\" / \"_ZNSt6vectorIiSaIiEE9push_backERKi\"\n" +
		"20 \"__gnu_cxx::new_allocator<char>::allocate\" <- \"_ZN9__gnu_cxx13new_allocatorIcE8allocateEmPKv\" / \"_ZN9__gnu_cxx13new_allocatorIcE8allocateEmPKv\"\n" +
		"23 \"foo::bar\" <- \"__ZN3foo3barEv\" / \"__ZN3foo3barEv\"\n" +
		"26 \"std::vector<int, std::allocator<int> >::push_back\" <- \"\" / \"__ZNSt6vectorIiSaIiEE9push_backERKi\"\n" +
		"29 \"_notmangled\" <- \"_notmangled\" / \"_notmangled\"\n" +
		"32 \"_\" <- \"_\" / \"_\"\n" +
		"35 \"__Z\" <- \"__Z\" / \"__Z\"\n" +
		"38 \"_Z\" <- \"_Z\" / \"_Z\"\n" +
		"41 \"main.main\" <- \"main.main\" / \"main.main\"\n" +
		"44 \"main.(*T).Method\" <- \"\" / \"main.(*T).Method\"\n" +
		"47 \"main.(*Box[go.shape.int]).Get\" <- \"main.(*Box[go.shape.int]).Get\" / \"main.(*Box[go.shape.int]).Get\"\n" +
		"50 \"java.util.ArrayList.<init>\" <- \"java.util.ArrayList.<init>\" / \"java.util.ArrayList.<init>\"\n" +
		"53 \"<unknown>\" <- \"<unknown>\" / \"<unknown>\"\n" +
		"56 \"<unknown>\" <- \"\" / \"<unknown>\"\n" +
		"59 \"(anonymous)\" <- \"(anonymous)\" / \"(anonymous)\"\n" +
		"62 \"<>\" <- \"()<>\" / \"()<>\"\n" +
		"65 \"ns::\" <- \"ns::(anonymous)\" / \"ns::(anonymous)\"\n" +
		"68 \"foo::bar\" <- \"foo::bar(int, char)\" / \"foo::bar(int, char)\"\n" +
		"71 \"std::vector<int, std::allocator<int> >::push_back\" <- \"\" / \"std::vector<int, std::allocator<int> >::push_back(int const&)\"\n" +
		"74 \"a<b<c> >::d\" <- \"a<b<c> >::d(e<f>)\" / \"a<b<c> >::d(e<f>)\"\n" +
		"77 \"operator<<\" <- \"operator<<(x)\" / \"operator<<(x)\"\n" +
		"80 \"broken)(::x\" <- \"broken)(::x\" / \"broken)(::x\"\n" +
		"83 \"arr[3]\" <- \"arr[3]\" / \"arr[3]\"\n" +
		"86 \"named only\" <- \"named only\" / \"\"\n" +
		"89 \"\" <- \"\" / \"\"\n" +
		"92 \"foo::bar\" <- \"_ZN3foo3barEv.cold\" / \"_ZN3foo3barEv.cold\"\n" +
		"95 \"foo::bar\" <- \"_ZN3foo3barEv.llvm.123\" / \"_ZN3foo3barEv.llvm.123\"\n" +
		"98 \"_RNvCs1234_5mycrate4main\" <- \"_RNvCs1234_5mycrate4main\" / \"_RNvCs1234_5mycrate4main\"\n" +
		"101 \"core::fmt::Write::write_fmt\" <- \"_ZN4core3fmt5Write9write_fmt17h0123456789abcdefE\" / \"_ZN4core3fmt5Write9write_fmt17h0123456789abcdefE\"\n" +
		"-- again --\n" +
		"5 \"foo::bar\" <- \"_ZN3foo3barEv\" / \"_ZN3foo3barEv\"\n" +
		"8 \"foo::bar\" <- \"\" / \"_ZN3foo3barEi\"\n" +
		"11 \"foo::bar\" <- \"foo::bar\" / \"_ZN3foo3barEv\"\n" +
		"14 \"std::allocator<char>::allocator\" <- \"stale\" / \"_ZNSaIcEC1ERKS_\"\n" +
		"17 \"std::vector<int, std::allocator<int> >::push_back\" <- \"_ZNSt6vectorIiSaIiEE9push_backERKi\" / \"_ZNSt6vectorIiSaIiEE9push_backERKi\"\n" +
		"20 \"__gnu_cxx::new_allocator<char>::allocate\" <- \"_ZN9__gnu_cxx13new_allocatorIcE8allocateEmPKv\" / \"_ZN9__gnu_cxx13new_allocatorIcE8allocateEmPKv\"\n" +
		"23 \"foo::bar\" <- \"__ZN3foo3barEv\" / \"__ZN3foo3barEv\"\n" +
		"26 \"std::vector<int, std::allocator<int> >::push_back\" <- \"\" / \"__ZNSt6vectorIiSaIiEE9push_backERKi\"\n" +
		"29 \"_notmangled\" <- \"_notmangled\" / \"_notmangled\"\n" +
		"32 \"_\" <- \"_\" / \"_\"\n" +
		"35 \"__Z\" <- \"__Z\" / \"__Z\"\n" +
		"38 \"_Z\" <- \"_Z\" / \"_Z\"\n" +
		"41 \"main.main\" <- \"main.main\" / \"main.main\"\n" +
		"44 \"main.(*T).Method\" <- \"\" / \"main.(*T).Method\"\n" +
		"47 \"main.(*Box[go.shape.int]).Get\" <- \"main.(*Box[go.shape.int]).Get\" / \"main.(*Box[go.shape.int]).Get\"\n" +
		"50 \"java.util.ArrayList.<init>\" <- \"java.util.ArrayList.<init>\" / \"java.util.ArrayList.<init>\"\n" +
		"53 \"<unknown>\" <- \"<unknown>\" / \"<unknown>\"\n" +
		"56 \"<unknown>\" <- \"\" / \"<unknown>\"\n" +
		"59 \"(anonymous)\" <- \"(anonymous)\" / \"(anonymous)\"\n" +
		"62 \"<>\" <- \"()<>\" / \"()<>\"\n" +
		"65 \"ns::\" <- \"ns::(anonymous)\" / \"ns::(anonymous)\"\n" +
		"68 \"foo::bar\" <- \"foo::bar(int, char)\" / \"foo::bar(int, char)\"\n" +
		"71 \"std::vector<int, std::allocator<int> >::push_back\" <- \"\" / \"std::vector<int, std::allocator<int> >::push_back(int const&)\"\n" +
		"74 \"a<b<c> >::d\" <- \"a<b<c> >::d(e<f>)\" / \"a<b<c> >::d(e<f>)\"\n" +
		"77 \"operator<<\" <- \"operator<<(x)\" / \"operator<<(x)\"\n" +
		"80 \"broken)(::x\" <- \"broken)(::x\" / \"broken)(::x\"\n" +
		"83 \"arr[3]\" <- \"arr[3]\" / \"arr[3]\"\n" +
		"86 \"named only\" <- \"named only\" / \"\"\n" +
		"89 \"\" <- \"\" / \"\"\n" +
		"92 \"foo::bar\" <- \"_ZN3foo3barEv.cold\" / \"_ZN3foo3barEv.cold\"\n" +
		"95 \"foo::bar\" <- \"_ZN3foo3barEv.llvm.123\" / \"_ZN3foo3barEv.llvm.123\"\n" +
		"98 \"_RNvCs1234_5mycrate4main\" <- \"_RNvCs1234_5mycrate4main\" / \"_RNvCs1234_5mycrate4main\"\n" +
		"101 \"core::fmt::Write::write_fmt\" <- \"_ZN4core3fmt5Write9write_fmt17h0123456789abcdefE\" / \"_ZN4core3fmt5Write9write_fmt17h0123456789abcdefE\"\n" +
		"",
	"shared-force=false": "" +
		"5 \"foo::bar\" <- \"_ZN3foo3barEv\" / \"_ZN3foo3barEv\"\n" +
		"8 \"foo::bar\" <- \"\" / \"_ZN3foo3barEi\"\n" +
		"11 \"foo::bar\" <- \"foo::bar\" / \"_ZN3foo3barEv\"\n" +
		"14 \"stale\" <- \"stale\" / \"_ZNSaIcEC1ERKS_\"\n" +
		"17 \"std::vector<int, std::allocator<int> >::push_back\" <- \"_ZNSt6vectorIiSaIiEE9push_backERKi\" / \"_ZNSt6vectorIiSaIiEE9push_backERKi\"\n" +
		"20 \"__gnu_cxx::new_allocator<char>::allocate\" <- \"_ZN9__gnu_cxx13new_allocatorIcE8allocateEmPKv\" / \"_ZN9__gnu_cxx13new_allocatorIcE8allocateEmPKv\"\n" +
		"23 \"foo::bar\" <- \"__ZN3foo3barEv\" / \"__ZN3foo3barEv\"\n" +
		"26 \"std::vector<int, std::allocator<int> >::push_back\" <- \"\" / \"__ZNSt6vectorIiSaIiEE9push_backERKi\"\n" +
		"29 \"_notmangled\" <- \"_notmangled\" / \"_notmangled\"\n" +
		"32 \"_\" <- \"_\" / \"_\"\n" +
		"35 \"__Z\" <- \"__Z\" / \"__Z\"\n" +
		"38 \"_Z\" <- \"_Z\" / \"_Z\"\n" +
		"41 \"main.main\" <- \"main.main\" / \"main.main\"\n" +
		"44 \"main.(*T).Method\" <- \"\" / \"main.(*T).Method\"\n" +
		"47 \"main.(*Box[go.shape.int]).Get\" <- \"main.(*Box[go.shape.int]).Get\" / \"main.(*Box[go.shape.int]).Get\"\n" +
		"50 \"java.util.ArrayList.<init>\" <- \"java.util.ArrayList.<init>\" / \"java.util.ArrayList.<init>\"\n" +
		"53 \"<unknown>\" <- \"<unknown>\" / \"<unknown>\"\n" +
		"56 \"<unknown>\" <- \"\" / \"<unknown>\"\n" +
		"59 \"(anonymous)\" <- \"(anonymous)\" / \"(anonymous)\"\n" +
		"62 \"<>\" <- \"()<>\" / \"()<>\"\n" +
		"65 \"ns::\" <- \"ns::(anonymous)\" / \"ns::(anonymous)\"\n" +
		"68 \"foo::bar\" <- \"foo::bar(int, char)\" / \"foo::bar(int, char)\"\n" +
		"71 \"std::vector<int, std::allocator<int> >::push_back\" <- \"\" / \"std::vector<int, std::allocator<int> >::push_back(int const&)\"\n" +
		"74 \"a<b<c> >::d\" <- \"a<b<c> >::d(e<f>)\" / \"a<b<c> >::d(e<f>)\"\n" +
		"77 \"operator<<\" <- \"operator<<(x)\" / \"operator<<(x)\"\n" +
		"80 \"broken)(::x\" <- \"broken)(::x\" / \"broken)(::x\"\n" +
		"83 \"arr[3]\" <- \"arr[3]\" / \"arr[3]\"\n" +
		"86 \"named only\" <- \"named only\" / \"\"\n" +
		"89 \"\" <- \"\" / \"\"\n" +
		"92 \"foo::bar\" <- \"_ZN3foo3barEv.cold\" / \"_ZN3foo3barEv.cold\"\n" +
		"95 \"foo::bar\" <- \"_ZN3foo3barEv.llvm.123\" / \"_ZN3foo3barEv.llvm.123\"\n" +
		"98 \"_RNvCs1234_5mycrate4main\" <- \"_RNvCs1234_5mycrate4main\" / \"_RNvCs1234_5mycrate4main\"\n" +
		"101 \"core::fmt::Write::write_fmt\" <- \"_ZN4core3fmt5Write9write_fmt17h0123456789abcdefE\" / \"_ZN4core3fmt5Write9write_fmt17h0123456789abcdefE\"\n" +
		"5 \"foo::bar\" <- \"_ZN3foo3barEv\" / \"_ZN3foo3barEv\"\n" +
		"8 \"foo::bar\" <- \"\" / \"_ZN3foo3barEi\"\n" +
		"11 \"foo::bar\" <- \"foo::bar\" / \"_ZN3foo3barEv\"\n" +
		"14 \"stale\" <- \"stale\" / \"_ZNSaIcEC1ERKS_\"\n" +
		"",
	"shared-force=true": "" +
		"5 \"foo::bar\" <- \"_ZN3foo3barEv\" / \"_ZN3foo3barEv\"\n" +
		"8 \"foo::bar\" <- \"\" / \"_ZN3foo3barEi\"\n" +
		"11 \"foo::bar\" <- \"foo::bar\" / \"_ZN3foo3barEv\"\n" +
		"14 \"std::allocator<char>::allocator\" <- \"stale\" / \"_ZNSaIcEC1ERKS_\"\n" +
		"17 \"std::vector<int, std::allocator<int> >::push_back\" <- \"_ZNSt6vectorIiSaIiEE9push_backERKi\" / \"_ZNSt6vectorIiSaIiEE9push_backERKi\"\n" +
		"20 \"__gnu_cxx::new_allocator<char>::allocate\" <- \"_ZN9__gnu_cxx13new_allocatorIcE8allocateEmPKv\" / \"_ZN9__gnu_cxx13new_allocatorIcE8allocateEmPKv\"\n" +
		"23 \"foo::bar\" <- \"__ZN3foo3barEv\" / \"__ZN3foo3barEv\"\n" +
		"26 \"std::vector<int, std::allocator<int> >::push_back\" <- \"\" / \"__ZNSt6vectorIiSaIiEE9push_backERKi\"\n" +
		"29 \"_notmangled\" <- \"_notmangled\" / \"_notmangled\"\n" +
		"32 \"_\" <- \"_\" / \"_\"\n" +
		"35 \"__Z\" <- \"__Z\" / \"__Z\"\n" +
		"38 \"_Z\" <- \"_Z\" / \"_Z\"\n" +
		"41 \"main.main\" <- \"main.main\" / \"main.main\"\n" +
		"44 \"main.(*T).Method\" <- \"\" / \"main.(*T).Method\"\n" +
		"47 \"main.(*Box[go.shape.int]).Get\" <- \"main.(*Box[go.shape.int]).Get\" / \"main.(*Box[go.shape.int]).Get\"\n" +
		"50 \"java.util.ArrayList.<init>\" <- \"java.util.ArrayList.<init>\" / \"java.util.ArrayList.<init>\"\n" +
		"53 \"<unknown>\" <- \"<unknown>\" / \"<unknown>\"\n" +
		"56 \"<unknown>\" <- \"\" / \"<unknown>\"\n" +
		"59 \"(anonymous)\" <- \"(anonymous)\" / \"(anonymous)\"\n" +
		"62 \"<>\" <- \"()<>\" / \"()<>\"\n" +
		"65 \"ns::\" <- \"ns::(anonymous)\" / \"ns::(anonymous)\"\n" +
		"68 \"foo::bar\" <- \"foo::bar(int, char)\" / \"foo::bar(int, char)\"\n" +
		"71 \"std::vector<int, std::allocator<int> >::push_back\" <- \"\" / \"std::vector<int, std::allocator<int> >::push_back(int const&)\"\n" +
		"74 \"a<b<c> >::d\" <- \"a<b<c> >::d(e<f>)\" / \"a<b<c> >::d(e<f>)\"\n" +
		"77 \"operator<<\" <- \"operator<<(x)\" / \"operator<<(x)\"\n" +
		"80 \"broken)(::x\" <- \"broken)(::x\" / \"broken)(::x\"\n" +
		"83 \"arr[3]\" <- \"arr[3]\" / \"arr[3]\"\n" +
		"86 \"named only\" <- \"named only\" / \"\"\n" +
		"89 \"\" <- \"\" / \"\"\n" +
		"92 \"foo::bar\" <- \"_ZN3foo3barEv.cold\" / \"_ZN3foo3barEv.cold\"\n" +
		"95 \"foo::bar\" <- \"_ZN3foo3barEv.llvm.123\" / \"_ZN3foo3barEv.llvm.123\"\n" +
		"98 \"_RNvCs1234_5mycrate4main\" <- \"_RNvCs1234_5mycrate4main\" / \"_RNvCs1234_5mycrate4main\"\n" +
		"101 \"core::fmt::Write::write_fmt\" <- \"_ZN4core3fmt5Write9write_fmt17h0123456789abcdefE\" / \"_ZN4core3fmt5Write9write_fmt17h0123456789abcdefE\"\n" +
		"5 \"foo::bar\" <- \"_ZN3foo3barEv\" / \"_ZN3foo3barEv\"\n" +
		"8 \"foo::bar\" <- \"\" / \"_ZN3foo3barEi\"\n" +
		"11 \"foo::bar\" <- \"foo::bar\" / \"_ZN3foo3barEv\"\n" +
		"14 \"std::allocator<char>::allocator\" <- \"stale\" / \"_ZNSaIcEC1ERKS_\"\n" +
		"",
	"single-noclones": "" +
		"\"foo::bar()\" <- \"_ZN3foo3barEv\" / \"_ZN3foo3barEv\"\n" +
		"\"foo::bar(int)\" <- \"\" / \"_ZN3foo3barEi\"\n" +
		"\"foo::bar\" <- \"foo::bar\" / \"_ZN3foo3barEv\"\n" +
		"\"stale\" <- \"stale\" / \"_ZNSaIcEC1ERKS_\"\n" +
		"\"std::vector<int, std::allocator<int> >::push_back(int const&)\" <- \"_ZNSt6vectorIiSaIiEE9push_backERKi\" / \"_ZNSt6vectorIiSaIiEE9push_backERKi\"\n" +
		"\"__gnu_cxx::new_allocator<char>::allocate(unsigned long, void const*)\" <- \"_ZN9__gnu_cxx13new_allocatorIcE8allocateEmPKv\" / \"_ZN9__gnu_cxx13new_allocatorIcE8allocateEmPKv\"\n" +
		"\"foo::bar()\" <- \"__ZN3foo3barEv\" / \"__ZN3foo3barEv\"\n" +
		"\"std::vector<int, std::allocator<int> >::push_back(int const&)\" <- \"\" / \"__ZNSt6vectorIiSaIiEE9push_backERKi\"\n" +
		"\"_notmangled\" <- \"_notmangled\" / \"_notmangled\"\n" +
		"\"_\" <- \"_\" / \"_\"\n" +
		"\"__Z\" <- \"__Z\" / \"__Z\"\n" +
		"\"_Z\" <- \"_Z\" / \"_Z\"\n" +
		"\"main.main\" <- \"main.main\" / \"main.main\"\n" +
		"\"main.(*T).Method\" <- \"\" / \"main.(*T).Method\"\n" +
		"\"main.(*Box[go.shape.int]).Get\" <- \"main.(*Box[go.shape.int]).Get\" / \"main.(*Box[go.shape.int]).Get\"\n" +
		"\"java.util.ArrayList.<init>\" <- \"java.util.ArrayList.<init>\" / \"java.util.ArrayList.<init>\"\n" +
		"\"<unknown>\" <- \"<unknown>\" / \"<unknown>\"\n" +
		"\"<unknown>\" <- \"\" / \"<unknown>\"\n" +
		"\"(anonymous)\" <- \"(anonymous)\" / \"(anonymous)\"\n" +
		"\"()<>\" <- \"()<>\" / \"()<>\"\n" +
		"\"ns::(anonymous)\" <- \"ns::(anonymous)\" / \"ns::(anonymous)\"\n" +
		"\"foo::bar(int, char)\" <- \"foo::bar(int, char)\" / \"foo::bar(int, char)\"\n" +
		"\"std::vector<int, std::allocator<int> >::push_back(int const&)\" <- \"\" / \"std::vector<int, std::allocator<int> >::push_back(int const&)\"\n" +
		"\"a<b<c> >::d(e<f>)\" <- \"a<b<c> >::d(e<f>)\" / \"a<b<c> >::d(e<f>)\"\n" +
		"\"operator<<(x)\" <- \"operator<<(x)\" / \"operator<<(x)\"\n" +
		"\"broken)(::x\" <- \"broken)(::x\" / \"broken)(::x\"\n" +
		"\"arr[3]\" <- \"arr[3]\" / \"arr[3]\"\n" +
		"\"named only\" <- \"named only\" / \"\"\n" +
		"\"\" <- \"\" / \"\"\n" +
		"\"foo::bar()\" <- \"_ZN3foo3barEv.cold\" / \"_ZN3foo3barEv.cold\"\n" +
		"\"foo::bar()\" <- \"_ZN3foo3barEv.llvm.123\" / \"_ZN3foo3barEv.llvm.123\"\n" +
		"\"_RNvCs1234_5mycrate4main\" <- \"_RNvCs1234_5mycrate4main\" / \"_RNvCs1234_5mycrate4main\"\n" +
		"\"core::fmt::Write::write_fmt\" <- \"_ZN4core3fmt5Write9write_fmt17h0123456789abcdefE\" / \"_ZN4core3fmt5Write9write_fmt17h0123456789abcdefE\"\n" +
		"",
	"single-nooptions": "" +
		"\"foo::bar()\" <- \"_ZN3foo3barEv\" / \"_ZN3foo3barEv\"\n" +
		"\"foo::bar(int)\" <- \"\" / \"_ZN3foo3barEi\"\n" +
		"\"foo::bar\" <- \"foo::bar\" / \"_ZN3foo3barEv\"\n" +
		"\"stale\" <- \"stale\" / \"_ZNSaIcEC1ERKS_\"\n" +
		"\"std::vector<int, std::allocator<int> >::push_back(int const&)\" <- \"_ZNSt6vectorIiSaIiEE9push_backERKi\" / \"_ZNSt6vectorIiSaIiEE9push_backERKi\"\n" +
		"\"__gnu_cxx::new_allocator<char>::allocate(unsigned long, void const*)\" <- \"_ZN9__gnu_cxx13new_allocatorIcE8allocateEmPKv\" / \"_ZN9__gnu_cxx13new_allocatorIcE8allocateEmPKv\"\n" +
		"\"foo::bar()\" <- \"__ZN3foo3barEv\" / \"__ZN3foo3barEv\"\n" +
		"\"std::vector<int, std::allocator<int> >::push_back(int const&)\" <- \"\" / \"__ZNSt6vectorIiSaIiEE9push_backERKi\"\n" +
		"\"_notmangled\" <- \"_notmangled\" / \"_notmangled\"\n" +
		"\"_\" <- \"_\" / \"_\"\n" +
		"\"__Z\" <- \"__Z\" / \"__Z\"\n" +
		"\"_Z\" <- \"_Z\" / \"_Z\"\n" +
		"\"main.main\" <- \"main.main\" / \"main.main\"\n" +
		"\"main.(*T).Method\" <- \"\" / \"main.(*T).Method\"\n" +
		"\"main.(*Box[go.shape.int]).Get\" <- \"main.(*Box[go.shape.int]).Get\" / \"main.(*Box[go.shape.int]).Get\"\n" +
		"\"java.util.ArrayList.<init>\" <- \"java.util.ArrayList.<init>\" / \"java.util.ArrayList.<init>\"\n" +
		"\"<unknown>\" <- \"<unknown>\" / \"<unknown>\"\n" +
		"\"<unknown>\" <- \"\" / \"<unknown>\"\n" +
		"\"(anonymous)\" <- \"(anonymous)\" / \"(anonymous)\"\n" +
		"\"()<>\" <- \"()<>\" / \"()<>\"\n" +
		"\"ns::(anonymous)\" <- \"ns::(anonymous)\" / \"ns::(anonymous)\"\n" +
		"\"foo::bar(int, char)\" <- \"foo::bar(int, char)\" / \"foo::bar(int, char)\"\n" +
		"\"std::vector<int, std::allocator<int> >::push_back(int const&)\" <- \"\" / \"std::vector<int, std::allocator<int> >::push_back(int const&)\"\n" +
		"\"a<b<c> >::d(e<f>)\" <- \"a<b<c> >::d(e<f>)\" / \"a<b<c> >::d(e<f>)\"\n" +
		"\"operator<<(x)\" <- \"operator<<(x)\" / \"operator<<(x)\"\n" +
		"\"broken)(::x\" <- \"broken)(::x\" / \"broken)(::x\"\n" +
		"\"arr[3]\" <- \"arr[3]\" / \"arr[3]\"\n" +
		"\"named only\" <- \"named only\" / \"\"\n" +
		"\"\" <- \"\" / \"\"\n" +
		"\"foo::bar() [clone .cold]\" <- \"_ZN3foo3barEv.cold\" / \"_ZN3foo3barEv.cold\"\n" +
		"\"foo::bar() [clone .llvm.123]\" <- \"_ZN3foo3barEv.llvm.123\" / \"_ZN3foo3barEv.llvm.123\"\n" +
		"\"_RNvCs1234_5mycrate4main\" <- \"_RNvCs1234_5mycrate4main\" / \"_RNvCs1234_5mycrate4main\"\n" +
		"\"core::fmt::Write::write_fmt\" <- \"_ZN4core3fmt5Write9write_fmt17h0123456789abcdefE\" / \"_ZN4core3fmt5Write9write_fmt17h0123456789abcdefE\"\n" +
		"",
	"single-noparams": "" +
		"\"foo::bar\" <- \"_ZN3foo3barEv\" / \"_ZN3foo3barEv\"\n" +
		"\"foo::bar\" <- \"\" / \"_ZN3foo3barEi\"\n" +
		"\"foo::bar\" <- \"foo::bar\" / \"_ZN3foo3barEv\"\n" +
		"\"stale\" <- \"stale\" / \"_ZNSaIcEC1ERKS_\"\n" +
		"\"std::vector<int, std::allocator<int> >::push_back\" <- \"_ZNSt6vectorIiSaIiEE9push_backERKi\" / \"_ZNSt6vectorIiSaIiEE9push_backERKi\"\n" +
		"\"__gnu_cxx::new_allocator<char>::allocate\" <- \"_ZN9__gnu_cxx13new_allocatorIcE8allocateEmPKv\" / \"_ZN9__gnu_cxx13new_allocatorIcE8allocateEmPKv\"\n" +
		"\"foo::bar\" <- \"__ZN3foo3barEv\" / \"__ZN3foo3barEv\"\n" +
		"\"std::vector<int, std::allocator<int> >::push_back\" <- \"\" / \"__ZNSt6vectorIiSaIiEE9push_backERKi\"\n" +
		"\"_notmangled\" <- \"_notmangled\" / \"_notmangled\"\n" +
		"\"_\" <- \"_\" / \"_\"\n" +
		"\"__Z\" <- \"__Z\" / \"__Z\"\n" +
		"\"_Z\" <- \"_Z\" / \"_Z\"\n" +
		"\"main.main\" <- \"main.main\" / \"main.main\"\n" +
		"\"main.(*T).Method\" <- \"\" / \"main.(*T).Method\"\n" +
		"\"main.(*Box[go.shape.int]).Get\" <- \"main.(*Box[go.shape.int]).Get\" / \"main.(*Box[go.shape.int]).Get\"\n" +
		"\"java.util.ArrayList.<init>\" <- \"java.util.ArrayList.<init>\" / \"java.util.ArrayList.<init>\"\n" +
		"\"<unknown>\" <- \"<unknown>\" / \"<unknown>\"\n" +
		"\"<unknown>\" <- \"\" / \"<unknown>\"\n" +
		"\"(anonymous)\" <- \"(anonymous)\" / \"(anonymous)\"\n" +
		"\"<>\" <- \"()<>\" / \"()<>\"\n" +
		"\"ns::\" <- \"ns::(anonymous)\" / \"ns::(anonymous)\"\n" +
		"\"foo::bar\" <- \"foo::bar(int, char)\" / \"foo::bar(int, char)\"\n" +
		"\"std::vector<int, std::allocator<int> >::push_back\" <- \"\" / \"std::vector<int, std::allocator<int> >::push_back(int const&)\"\n" +
		"\"a<b<c> >::d\" <- \"a<b<c> >::d(e<f>)\" / \"a<b<c> >::d(e<f>)\"\n" +
		"\"operator<<\" <- \"operator<<(x)\" / \"operator<<(x)\"\n" +
		"\"broken)(::x\" <- \"broken)(::x\" / \"broken)(::x\"\n" +
		"\"arr[3]\" <- \"arr[3]\" / \"arr[3]\"\n" +
		"\"named only\" <- \"named only\" / \"\"\n" +
		"\"\" <- \"\" / \"\"\n" +
		"\"foo::bar\" <- \"_ZN3foo3barEv.cold\" / \"_ZN3foo3barEv.cold\"\n" +
		"\"foo::bar\" <- \"_ZN3foo3barEv.llvm.123\" / \"_ZN3foo3barEv.llvm.123\"\n" +
		"\"_RNvCs1234_5mycrate4main\" <- \"_RNvCs1234_5mycrate4main\" / \"_RNvCs1234_5mycrate4main\"\n" +
		"\"core::fmt::Write::write_fmt\" <- \"_ZN4core3fmt5Write9write_fmt17h0123456789abcdefE\" / \"_ZN4core3fmt5Write9write_fmt17h0123456789abcdefE\"\n" +
		"",
	"single-notmpl": "" +
		"\"foo::bar\" <- \"_ZN3foo3barEv\" / \"_ZN3foo3barEv\"\n" +
		"\"foo::bar\" <- \"\" / \"_ZN3foo3barEi\"\n" +
		"\"foo::bar\" <- \"foo::bar\" / \"_ZN3foo3barEv\"\n" +
		"\"stale\" <- \"stale\" / \"_ZNSaIcEC1ERKS_\"\n" +
		"\"std::vector::push_back\" <- \"_ZNSt6vectorIiSaIiEE9push_backERKi\" / \"_ZNSt6vectorIiSaIiEE9push_backERKi\"\n" +
		"\"__gnu_cxx::new_allocator::allocate\" <- \"_ZN9__gnu_cxx13new_allocatorIcE8allocateEmPKv\" / \"_ZN9__gnu_cxx13new_allocatorIcE8allocateEmPKv\"\n" +
		"\"foo::bar\" <- \"__ZN3foo3barEv\" / \"__ZN3foo3barEv\"\n" +
		"\"std::vector::push_back\" <- \"\" / \"__ZNSt6vectorIiSaIiEE9push_backERKi\"\n" +
		"\"_notmangled\" <- \"_notmangled\" / \"_notmangled\"\n" +
		"\"_\" <- \"_\" / \"_\"\n" +
		"\"__Z\" <- \"__Z\" / \"__Z\"\n" +
		"\"_Z\" <- \"_Z\" / \"_Z\"\n" +
		"\"main.main\" <- \"main.main\" / \"main.main\"\n" +
		"\"main.(*T).Method\" <- \"\" / \"main.(*T).Method\"\n" +
		"\"main.(*Box[go.shape.int]).Get\" <- \"main.(*Box[go.shape.int]).Get\" / \"main.(*Box[go.shape.int]).Get\"\n" +
		"\"java.util.ArrayList.<init>\" <- \"java.util.ArrayList.<init>\" / \"java.util.ArrayList.<init>\"\n" +
		"\"<unknown>\" <- \"<unknown>\" / \"<unknown>\"\n" +
		"\"<unknown>\" <- \"\" / \"<unknown>\"\n" +
		"\"(anonymous)\" <- \"(anonymous)\" / \"(anonymous)\"\n" +
		"\"()<>\" <- \"()<>\" / \"()<>\"\n" +
		"\"ns::\" <- \"ns::(anonymous)\" / \"ns::(anonymous)\"\n" +
		"\"foo::bar\" <- \"foo::bar(int, char)\" / \"foo::bar(int, char)\"\n" +
		"\"std::vector::push_back\" <- \"\" / \"std::vector<int, std::allocator<int> >::push_back(int const&)\"\n" +
		"\"a::d\" <- \"a<b<c> >::d(e<f>)\" / \"a<b<c> >::d(e<f>)\"\n" +
		"\"operator<<\" <- \"operator<<(x)\" / \"operator<<(x)\"\n" +
		"\"broken)(::x\" <- \"broken)(::x\" / \"broken)(::x\"\n" +
		"\"arr[3]\" <- \"arr[3]\" / \"arr[3]\"\n" +
		"\"named only\" <- \"named only\" / \"\"\n" +
		"\"\" <- \"\" / \"\"\n" +
		"\"foo::bar\" <- \"_ZN3foo3barEv.cold\" / \"_ZN3foo3barEv.cold\"\n" +
		"\"foo::bar\" <- \"_ZN3foo3barEv.llvm.123\" / \"_ZN3foo3barEv.llvm.123\"\n" +
		"\"_RNvCs1234_5mycrate4main\" <- \"_RNvCs1234_5mycrate4main\" / \"_RNvCs1234_5mycrate4main\"\n" +
		"\"core::fmt::Write::write_fmt\" <- \"_ZN4core3fmt5Write9write_fmt17h0123456789abcdefE\" / \"_ZN4core3fmt5Write9write_fmt17h0123456789abcdefE\"\n" +
		"",
	"single-verbose": "" +
		"\"foo::bar()\" <- \"_ZN3foo3barEv\" / \"_ZN3foo3barEv\"\n" +
		"\"foo::bar(int)\" <- \"\" / \"_ZN3foo3barEi\"\n" +
		"\"foo::bar\" <- \"foo::bar\" / \"_ZN3foo3barEv\"\n" +
		"\"stale\" <- \"stale\" / \"_ZNSaIcEC1ERKS_\"\n" +
		"\"std::vector<int, std::allocator<int> >::push_back(int const&)\" <- \"_ZNSt6vectorIiSaIiEE9push_backERKi\" / \"_ZNSt6vectorIiSaIiEE9push_backERKi\"\n" +
		"\"__gnu_cxx::new_allocator<char>::allocate(unsigned long, void const*)\" <- \"_ZN9__gnu_cxx13new_allocatorIcE8allocateEmPKv\" / \"_ZN9__gnu_cxx13new_allocatorIcE8allocateEmPKv\"\n" +
		"\"foo::bar()\" <- \"__ZN3foo3barEv\" / \"__ZN3foo3barEv\"\n" +
		"\"std::vector<int, std::allocator<int> >::push_back(int const&)\" <- \"\" / \"__ZNSt6vectorIiSaIiEE9push_backERKi\"\n" +
		"\"_notmangled\" <- \"_notmangled\" / \"_notmangled\"\n" +
		"\"_\" <- \"_\" / \"_\"\n" +
		"\"__Z\" <- \"__Z\" / \"__Z\"\n" +
		"\"_Z\" <- \"_Z\" / \"_Z\"\n" +
		"\"main.main\" <- \"main.main\" / \"main.main\"\n" +
		"\"main.(*T).Method\" <- \"\" / \"main.(*T).Method\"\n" +
		"\"main.(*Box[go.shape.int]).Get\" <- \"main.(*Box[go.shape.int]).Get\" / \"main.(*Box[go.shape.int]).Get\"\n" +
		"\"java.util.ArrayList.<init>\" <- \"java.util.ArrayList.<init>\" / \"java.util.ArrayList.<init>\"\n" +
		"\"<unknown>\" <- \"<unknown>\" / \"<unknown>\"\n" +
		"\"<unknown>\" <- \"\" / \"<unknown>\"\n" +
		"\"(anonymous)\" <- \"(anonymous)\" / \"(anonymous)\"\n" +
		"\"()<>\" <- \"()<>\" / \"()<>\"\n" +
		"\"ns::(anonymous)\" <- \"ns::(anonymous)\" / \"ns::(anonymous)\"\n" +
		"\"foo::bar(int, char)\" <- \"foo::bar(int, char)\" / \"foo::bar(int, char)\"\n" +
		"\"std::vector<int, std::allocator<int> >::push_back(int const&)\" <- \"\" / \"std::vector<int, std::allocator<int> >::push_back(int const&)\"\n" +
		"\"a<b<c> >::d(e<f>)\" <- \"a<b<c> >::d(e<f>)\" / \"a<b<c> >::d(e<f>)\"\n" +
		"\"operator<<(x)\" <- \"operator<<(x)\" / \"operator<<(x)\"\n" +
		"\"broken)(::x\" <- \"broken)(::x\" / \"broken)(::x\"\n" +
		"\"arr[3]\" <- \"arr[3]\" / \"arr[3]\"\n" +
		"\"named only\" <- \"named only\" / \"\"\n" +
		"\"\" <- \"\" / \"\"\n" +
		"\"foo::bar() [clone .cold]\" <- \"_ZN3foo3barEv.cold\" / \"_ZN3foo3barEv.cold\"\n" +
		"\"foo::bar() [clone .llvm.123]\" <- \"_ZN3foo3barEv.llvm.123\" / \"_ZN3foo3barEv.llvm.123\"\n" +
		"\"_RNvCs1234_5mycrate4main\" <- \"_RNvCs1234_5mycrate4main\" / \"_RNvCs1234_5mycrate4main\"\n" +
		"\"core::fmt::Write::write_fmt::h0123456789abcdef\" <- \"_ZN4core3fmt5Write9write_fmt17h0123456789abcdefE\" / \"_ZN4core3fmt5Write9write_fmt17h0123456789abcdefE\"\n" +
		"",
	"symbolize-fastlocal_demangle_none": "" +
		"err: <nil>\n" +
		"ui: [\"Local symbolization failed for main: no binaries here\" \"Some binary filenames not available. Symbolization may be incomplete.\\nTry setting PPROF_BINARY_PATH to the search path for local binaries.\"]\n" +
		"5 \"_ZN3foo3barEv\" <- \"_ZN3foo3barEv\" / \"_ZN3foo3barEv\"\n" +
		"8 \"\" <- \"\" / \"_ZN3foo3barEi\"\n" +
		"11 \"_ZN3foo3barEv\" <- \"foo::bar\" / \"_ZN3foo3barEv\"\n" +
		"14 \"_ZNSaIcEC1ERKS_\" <- \"stale\" / \"_ZNSaIcEC1ERKS_\"\n" +
		"17 \"_ZNSt6vectorIiSaIiEE9push_backERKi\" <- \"_ZNSt6vectorIiSaIiEE9push_backERKi\" / \"_ZNSt6vectorIiSaIiEE9push_backERKi\"\n" +
		"20 \"_ZN9__gnu_cxx13new_allocatorIcE8allocateEmPKv\" <- \"_ZN9__gnu_cxx13new_allocatorIcE8allocateEmPKv\" / \"_ZN9__gnu_cxx13new_allocatorIcE8allocateEmPKv\"\n" +
		"23 \"__ZN3foo3barEv\" <- \"__ZN3foo3barEv\" / \"__ZN3foo3barEv\"\n" +
		"26 \"\" <- \"\" / \"__ZNSt6vectorIiSaIiEE9push_backERKi\"\n" +
		"29 \"_notmangled\" <- \"_notmangled\" / \"_notmangled\"\n" +
		"32 \"_\" <- \"_\" / \"_\"\n" +
		"35 \"__Z\" <- \"__Z\" / \"__Z\"\n" +
		"38 \"_Z\" <- \"_Z\" / \"_Z\"\n" +
		"41 \"main.main\" <- \"main.main\" / \"main.main\"\n" +
		"44 \"\" <- \"\" / \"main.(*T).Method\"\n" +
		"47 \"main.(*Box[go.shape.int]).Get\" <- \"main.(*Box[go.shape.int]).Get\" / \"main.(*Box[go.shape.int]).Get\"\n" +
		"50 \"java.util.ArrayList.<init>\" <- \"java.util.ArrayList.<init>\" / \"java.util.ArrayList.<init>\"\n" +
		"53 \"<unknown>\" <- \"<unknown>\" / \"<unknown>\"\n" +
		"56 \"\" <- \"\" / \"<unknown>\"\n" +
		"59 \"(anonymous)\" <- \"(anonymous)\" / \"(anonymous)\"\n" +
		"62 \"()<>\" <- \"()<>\" / \"()<>\"\n" +
		"65 \"ns::(anonymous)\" <- \"ns::(anonymous)\" / \"ns::(anonymous)\"\n" +
		"68 \"foo::bar(int, char)\" <- \"foo::bar(int, char)\" / \"foo::bar(int, char)\"\n" +
		"71 \"\" <- \"\" / \"std::vector<int, std::allocator<int> >::push_back(int const&)\"\n" +
		"74 \"a<b<c> >::d(e<f>)\" <- \"a<b<c> >::d(e<f>)\" / \"a<b<c> >::d(e<f>)\"\n" +
		"77 \"operator<<(x)\" <- \"operator<<(x)\" / \"operator<<(x)\"\n" +
		"80 \"broken)(::x\" <- \"broken)(::x\" / \"broken)(::x\"\n" +
		"83 \"arr[3]\" <- \"arr[3]\" / \"arr[3]\"\n" +
		"86 \"named only\" <- \"named only\" / \"\"\n" +
		"89 \"\" <- \"\" / \"\"\n" +
		"92 \"_ZN3foo3barEv.cold\" <- \"_ZN3foo3barEv.cold\" / \"_ZN3foo3barEv.cold\"\n" +
		"95 \"_ZN3foo3barEv.llvm.123\" <- \"_ZN3foo3barEv.llvm.123\" / \"_ZN3foo3barEv.llvm.123\"\n" +
		"98 \"_RNvCs1234_5mycrate4main\" <- \"_RNvCs1234_5mycrate4main\" / \"_RNvCs1234_5mycrate4main\"\n" +
		"101 \"_ZN4core3fmt5Write9write_fmt17h0123456789abcdefE\" <- \"_ZN4core3fmt5Write9write_fmt17h0123456789abcdefE\" / \"_ZN4core3fmt5Write9write_fmt17h0123456789abcdefE\"\n" +
		"",
	"symbolize-local": "" +
		"err: <nil>\n" +
		"ui: []\n" +
		"5 \"foo::bar\" <- \"_ZN3foo3barEv\" / \"_ZN3foo3barEv\"\n" +
		"8 \"foo::bar\" <- \"\" / \"_ZN3foo3barEi\"\n" +
		"11 \"foo::bar\" <- \"foo::bar\" / \"_ZN3foo3barEv\"\n" +
		"14 \"stale\" <- \"stale\" / \"_ZNSaIcEC1ERKS_\"\n" +
		"17 \"std::vector::push_back\" <- \"_ZNSt6vectorIiSaIiEE9push_backERKi\" / \"_ZNSt6vectorIiSaIiEE9push_backERKi\"\n" +
		"20 \"__gnu_cxx::new_allocator::allocate\" <- \"_ZN9__gnu_cxx13new_allocatorIcE8allocateEmPKv\" / \"_ZN9__gnu_cxx13new_allocatorIcE8allocateEmPKv\"\n" +
		"23 \"foo::bar\" <- \"__ZN3foo3barEv\" / \"__ZN3foo3barEv\"\n" +
		"26 \"std::vector::push_back\" <- \"\" / \"__ZNSt6vectorIiSaIiEE9push_backERKi\"\n" +
		"29 \"_notmangled\" <- \"_notmangled\" / \"_notmangled\"\n" +
		"32 \"_\" <- \"_\" / \"_\"\n" +
		"35 \"__Z\" <- \"__Z\" / \"__Z\"\n" +
		"38 \"_Z\" <- \"_Z\" / \"_Z\"\n" +
		"41 \"main.main\" <- \"main.main\" / \"main.main\"\n" +
		"44 \"main.(*T).Method\" <- \"\" / \"main.(*T).Method\"\n" +
		"47 \"main.(*Box[go.shape.int]).Get\" <- \"main.(*Box[go.shape.int]).Get\" / \"main.(*Box[go.shape.int]).Get\"\n" +
		"50 \"java.util.ArrayList.<init>\" <- \"java.util.ArrayList.<init>\" / \"java.util.ArrayList.<init>\"\n" +
		"53 \"<unknown>\" <- \"<unknown>\" / \"<unknown>\"\n" +
		"56 \"<unknown>\" <- \"\" / \"<unknown>\"\n" +
		"59 \"(anonymous)\" <- \"(anonymous)\" / \"(anonymous)\"\n" +
		"62 \"()<>\" <- \"()<>\" / \"()<>\"\n" +
		"65 \"ns::\" <- \"ns::(anonymous)\" / \"ns::(anonymous)\"\n" +
		"68 \"foo::bar\" <- \"foo::bar(int, char)\" / \"foo::bar(int, char)\"\n" +
		"71 \"std::vector::push_back\" <- \"\" / \"std::vector<int, std::allocator<int> >::push_back(int const&)\"\n" +
		"74 \"a::d\" <- \"a<b<c> >::d(e<f>)\" / \"a<b<c> >::d(e<f>)\"\n" +
		"77 \"operator<<\" <- \"operator<<(x)\" / \"operator<<(x)\"\n" +
		"80 \"broken)(::x\" <- \"broken)(::x\" / \"broken)(::x\"\n" +
		"83 \"arr[3]\" <- \"arr[3]\" / \"arr[3]\"\n" +
		"86 \"named only\" <- \"named only\" / \"\"\n" +
		"89 \"\" <- \"\" / \"\"\n" +
		"92 \"foo::bar\" <- \"_ZN3foo3barEv.cold\" / \"_ZN3foo3barEv.cold\"\n" +
		"95 \"foo::bar\" <- \"_ZN3foo3barEv.llvm.123\" / \"_ZN3foo3barEv.llvm.123\"\n" +
		"98 \"_RNvCs1234_5mycrate4main\" <- \"_RNvCs1234_5mycrate4main\" / \"_RNvCs1234_5mycrate4main\"\n" +
		"101 \"core::fmt::Write::write_fmt\" <- \"_ZN4core3fmt5Write9write_fmt17h0123456789abcdefE\" / \"_ZN4core3fmt5Write9write_fmt17h0123456789abcdefE\"\n" +
		"",
	"symbolize-local_demangle_bogus": "" +
		"err: <nil>\n" +
		"ui: [\"ignoring unrecognized symbolization option: local:demangle=bogus\" \"expecting -symbolize=[local|fastlocal|remote|none][:force][:demangle=[none|full|templates|default]\"]\n" +
		"5 \"foo::bar\" <- \"_ZN3foo3barEv\" / \"_ZN3foo3barEv\"\n" +
		"8 \"foo::bar\" <- \"\" / \"_ZN3foo3barEi\"\n" +
		"11 \"foo::bar\" <- \"foo::bar\" / \"_ZN3foo3barEv\"\n" +
		"14 \"stale\" <- \"stale\" / \"_ZNSaIcEC1ERKS_\"\n" +
		"17 \"std::vector::push_back\" <- \"_ZNSt6vectorIiSaIiEE9push_backERKi\" / \"_ZNSt6vectorIiSaIiEE9push_backERKi\"\n" +
		"20 \"__gnu_cxx::new_allocator::allocate\" <- \"_ZN9__gnu_cxx13new_allocatorIcE8allocateEmPKv\" / \"_ZN9__gnu_cxx13new_allocatorIcE8allocateEmPKv\"\n" +
		"23 \"foo::bar\" <- \"__ZN3foo3barEv\" / \"__ZN3foo3barEv\"\n" +
		"26 \"std::vector::push_back\" <- \"\" / \"__ZNSt6vectorIiSaIiEE9push_backERKi\"\n" +
		"29 \"_notmangled\" <- \"_notmangled\" / \"_notmangled\"\n" +
		"32 \"_\" <- \"_\" / \"_\"\n" +
		"35 \"__Z\" <- \"__Z\" / \"__Z\"\n" +
		"38 \"_Z\" <- \"_Z\" / \"_Z\"\n" +
		"41 \"main.main\" <- \"main.main\" / \"main.main\"\n" +
		"44 \"main.(*T).Method\" <- \"\" / \"main.(*T).Method\"\n" +
		"47 \"main.(*Box[go.shape.int]).Get\" <- \"main.(*Box[go.shape.int]).Get\" / \"main.(*Box[go.shape.int]).Get\"\n" +
		"50 \"java.util.ArrayList.<init>\" <- \"java.util.ArrayList.<init>\" / \"java.util.ArrayList.<init>\"\n" +
		"53 \"<unknown>\" <- \"<unknown>\" / \"<unknown>\"\n" +
		"56 \"<unknown>\" <- \"\" / \"<unknown>\"\n" +
		"59 \"(anonymous)\" <- \"(anonymous)\" / \"(anonymous)\"\n" +
		"62 \"()<>\" <- \"()<>\" / \"()<>\"\n" +
		"65 \"ns::\" <- \"ns::(anonymous)\" / \"ns::(anonymous)\"\n" +
		"68 \"foo::bar\" <- \"foo::bar(int, char)\" / \"foo::bar(int, char)\"\n" +
		"71 \"std::vector::push_back\" <- \"\" / \"std::vector<int, std::allocator<int> >::push_back(int const&)\"\n" +
		"74 \"a::d\" <- \"a<b<c> >::d(e<f>)\" / \"a<b<c> >::d(e<f>)\"\n" +
		"77 \"operator<<\" <- \"operator<<(x)\" / \"operator<<(x)\"\n" +
		"80 \"broken)(::x\" <- \"broken)(::x\" / \"broken)(::x\"\n" +
		"83 \"arr[3]\" <- \"arr[3]\" / \"arr[3]\"\n" +
		"86 \"named only\" <- \"named only\" / \"\"\n" +
		"89 \"\" <- \"\" / \"\"\n" +
		"92 \"foo::bar\" <- \"_ZN3foo3barEv.cold\" / \"_ZN3foo3barEv.cold\"\n" +
		"95 \"foo::bar\" <- \"_ZN3foo3barEv.llvm.123\" / \"_ZN3foo3barEv.llvm.123\"\n" +
		"98 \"_RNvCs1234_5mycrate4main\" <- \"_RNvCs1234_5mycrate4main\" / \"_RNvCs1234_5mycrate4main\"\n" +
		"101 \"core::fmt::Write::write_fmt\" <- \"_ZN4core3fmt5Write9write_fmt17h0123456789abcdefE\" / \"_ZN4core3fmt5Write9write_fmt17h0123456789abcdefE\"\n" +
		"",
	"symbolize-local_demangle_default": "" +
		"err: <nil>\n" +
		"ui: []\n" +
		"5 \"foo::bar\" <- \"_ZN3foo3barEv\" / \"_ZN3foo3barEv\"\n" +
		"8 \"foo::bar\" <- \"\" / \"_ZN3foo3barEi\"\n" +
		"11 \"foo::bar\" <- \"foo::bar\" / \"_ZN3foo3barEv\"\n" +
		"14 \"stale\" <- \"stale\" / \"_ZNSaIcEC1ERKS_\"\n" +
		"17 \"std::vector::push_back\" <- \"_ZNSt6vectorIiSaIiEE9push_backERKi\" / \"_ZNSt6vectorIiSaIiEE9push_backERKi\"\n" +
		"20 \"__gnu_cxx::new_allocator::allocate\" <- \"_ZN9__gnu_cxx13new_allocatorIcE8allocateEmPKv\" / \"_ZN9__gnu_cxx13new_allocatorIcE8allocateEmPKv\"\n" +
		"23 \"foo::bar\" <- \"__ZN3foo3barEv\" / \"__ZN3foo3barEv\"\n" +
		"26 \"std::vector::push_back\" <- \"\" / \"__ZNSt6vectorIiSaIiEE9push_backERKi\"\n" +
		"29 \"_notmangled\" <- \"_notmangled\" / \"_notmangled\"\n" +
		"32 \"_\" <- \"_\" / \"_\"\n" +
		"35 \"__Z\" <- \"__Z\" / \"__Z\"\n" +
		"38 \"_Z\" <- \"_Z\" / \"_Z\"\n" +
		"41 \"main.main\" <- \"main.main\" / \"main.main\"\n" +
		"44 \"main.(*T).Method\" <- \"\" / \"main.(*T).Method\"\n" +
		"47 \"main.(*Box[go.shape.int]).Get\" <- \"main.(*Box[go.shape.int]).Get\" / \"main.(*Box[go.shape.int]).Get\"\n" +
		"50 \"java.util.ArrayList.<init>\" <- \"java.util.ArrayList.<init>\" / \"java.util.ArrayList.<init>\"\n" +
		"53 \"<unknown>\" <- \"<unknown>\" / \"<unknown>\"\n" +
		"56 \"<unknown>\" <- \"\" / \"<unknown>\"\n" +
		"59 \"(anonymous)\" <- \"(anonymous)\" / \"(anonymous)\"\n" +
		"62 \"()<>\" <- \"()<>\" / \"()<>\"\n" +
		"65 \"ns::\" <- \"ns::(anonymous)\" / \"ns::(anonymous)\"\n" +
		"68 \"foo::bar\" <- \"foo::bar(int, char)\" / \"foo::bar(int, char)\"\n" +
		"71 \"std::vector::push_back\" <- \"\" / \"std::vector<int, std::allocator<int> >::push_back(int const&)\"\n" +
		"74 \"a::d\" <- \"a<b<c> >::d(e<f>)\" / \"a<b<c> >::d(e<f>)\"\n" +
		"77 \"operator<<\" <- \"operator<<(x)\" / \"operator<<(x)\"\n" +
		"80 \"broken)(::x\" <- \"broken)(::x\" / \"broken)(::x\"\n" +
		"83 \"arr[3]\" <- \"arr[3]\" / \"arr[3]\"\n" +
		"86 \"named only\" <- \"named only\" / \"\"\n" +
		"89 \"\" <- \"\" / \"\"\n" +
		"92 \"foo::bar\" <- \"_ZN3foo3barEv.cold\" / \"_ZN3foo3barEv.cold\"\n" +
		"95 \"foo::bar\" <- \"_ZN3foo3barEv.llvm.123\" / \"_ZN3foo3barEv.llvm.123\"\n" +
		"98 \"_RNvCs1234_5mycrate4main\" <- \"_RNvCs1234_5mycrate4main\" / \"_RNvCs1234_5mycrate4main\"\n" +
		"101 \"core::fmt::Write::write_fmt\" <- \"_ZN4core3fmt5Write9write_fmt17h0123456789abcdefE\" / \"_ZN4core3fmt5Write9write_fmt17h0123456789abcdefE\"\n" +
		"",
	"symbolize-local_demangle_full": "" +
		"err: <nil>\n" +
		"ui: [\"Local symbolization failed for main: no binaries here\" \"Some binary filenames not available. Symbolization may be incomplete.\\nTry setting PPROF_BINARY_PATH to the search path for local binaries.\"]\n" +
		"5 \"foo::bar()\" <- \"_ZN3foo3barEv\" / \"_ZN3foo3barEv\"\n" +
		"8 \"foo::bar(int)\" <- \"\" / \"_ZN3foo3barEi\"\n" +
		"11 \"foo::bar()\" <- \"foo::bar\" / \"_ZN3foo3barEv\"\n" +
		"14 \"std::allocator<char>::allocator(std::allocator<char> const&)\" <- \"stale\" / \"_ZNSaIcEC1ERKS_\"\n" +
		"17 \"std::vector<int, std::allocator<int> >::push_back(int const&)\" <- \"_ZNSt6vectorIiSaIiEE9push_backERKi\" / \"_ZNSt6vectorIiSaIiEE9push_backERKi\"\n" +
		"20 \"__gnu_cxx::new_allocator<char>::allocate(unsigned long, void const*)\" <- \"_ZN9__gnu_cxx13new_allocatorIcE8allocateEmPKv\" / \"_ZN9__gnu_cxx13new_allocatorIcE8allocateEmPKv\"\n" +
		"23 \"foo::bar()\" <- \"__ZN3foo3barEv\" / \"__ZN3foo3barEv\"\n" +
		"26 \"std::vector<int, std::allocator<int> >::push_back(int const&)\" <- \"\" / \"__ZNSt6vectorIiSaIiEE9push_backERKi\"\n" +
		"29 \"_notmangled\" <- \"_notmangled\" / \"_notmangled\"\n" +
		"32 \"_\" <- \"_\" / \"_\"\n" +
		"35 \"__Z\" <- \"__Z\" / \"__Z\"\n" +
		"38 \"_Z\" <- \"_Z\" / \"_Z\"\n" +
		"41 \"main.main\" <- \"main.main\" / \"main.main\"\n" +
		"44 \"main.(*T).Method\" <- \"\" / \"main.(*T).Method\"\n" +
		"47 \"main.(*Box[go.shape.int]).Get\" <- \"main.(*Box[go.shape.int]).Get\" / \"main.(*Box[go.shape.int]).Get\"\n" +
		"50 \"java.util.ArrayList.<init>\" <- \"java.util.ArrayList.<init>\" / \"java.util.ArrayList.<init>\"\n" +
		"53 \"<unknown>\" <- \"<unknown>\" / \"<unknown>\"\n" +
		"56 \"<unknown>\" <- \"\" / \"<unknown>\"\n" +
		"59 \"(anonymous)\" <- \"(anonymous)\" / \"(anonymous)\"\n" +
		"62 \"()<>\" <- \"()<>\" / \"()<>\"\n" +
		"65 \"ns::(anonymous)\" <- \"ns::(anonymous)\" / \"ns::(anonymous)\"\n" +
		"68 \"foo::bar(int, char)\" <- \"foo::bar(int, char)\" / \"foo::bar(int, char)\"\n" +
		"71 \"std::vector<int, std::allocator<int> >::push_back(int const&)\" <- \"\" / \"std::vector<int, std::allocator<int> >::push_back(int const&)\"\n" +
		"74 \"a<b<c> >::d(e<f>)\" <- \"a<b<c> >::d(e<f>)\" / \"a<b<c> >::d(e<f>)\"\n" +
		"77 \"operator<<(x)\" <- \"operator<<(x)\" / \"operator<<(x)\"\n" +
		"80 \"broken)(::x\" <- \"broken)(::x\" / \"broken)(::x\"\n" +
		"83 \"arr[3]\" <- \"arr[3]\" / \"arr[3]\"\n" +
		"86 \"named only\" <- \"named only\" / \"\"\n" +
		"89 \"\" <- \"\" / \"\"\n" +
		"92 \"foo::bar()\" <- \"_ZN3foo3barEv.cold\" / \"_ZN3foo3barEv.cold\"\n" +
		"95 \"foo::bar()\" <- \"_ZN3foo3barEv.llvm.123\" / \"_ZN3foo3barEv.llvm.123\"\n" +
		"98 \"_RNvCs1234_5mycrate4main\" <- \"_RNvCs1234_5mycrate4main\" / \"_RNvCs1234_5mycrate4main\"\n" +
		"101 \"core::fmt::Write::write_fmt\" <- \"_ZN4core3fmt5Write9write_fmt17h0123456789abcdefE\" / \"_ZN4core3fmt5Write9write_fmt17h0123456789abcdefE\"\n" +
		"",
	"symbolize-local_demangle_templates": "" +
		"err: <nil>\n" +
		"ui: [\"Local symbolization failed for main: no binaries here\" \"Some binary filenames not available. Symbolization may be incomplete.\\nTry setting PPROF_BINARY_PATH to the search path for local binaries.\"]\n" +
		"5 \"foo::bar\" <- \"_ZN3foo3barEv\" / \"_ZN3foo3barEv\"\n" +
		"8 \"foo::bar\" <- \"\" / \"_ZN3foo3barEi\"\n" +
		"11 \"foo::bar\" <- \"foo::bar\" / \"_ZN3foo3barEv\"\n" +
		"14 \"std::allocator<char>::allocator\" <- \"stale\" / \"_ZNSaIcEC1ERKS_\"\n" +
		"17 \"std::vector<int, std::allocator<int> >::push_back\" <- \"_ZNSt6vectorIiSaIiEE9push_backERKi\" / \"_ZNSt6vectorIiSaIiEE9push_backERKi\"\n" +
		"20 \"__gnu_cxx::new_allocator<char>::allocate\" <- \"_ZN9__gnu_cxx13new_allocatorIcE8allocateEmPKv\" / \"_ZN9__gnu_cxx13new_allocatorIcE8allocateEmPKv\"\n" +
		"23 \"foo::bar\" <- \"__ZN3foo3barEv\" / \"__ZN3foo3barEv\"\n" +
		"26 \"std::vector<int, std::allocator<int> >::push_back\" <- \"\" / \"__ZNSt6vectorIiSaIiEE9push_backERKi\"\n" +
		"29 \"_notmangled\" <- \"_notmangled\" / \"_notmangled\"\n" +
		"32 \"_\" <- \"_\" / \"_\"\n" +
		"35 \"__Z\" <- \"__Z\" / \"__Z\"\n" +
		"38 \"_Z\" <- \"_Z\" / \"_Z\"\n" +
		"41 \"main.main\" <- \"main.main\" / \"main.main\"\n" +
		"44 \"main.(*T).Method\" <- \"\" / \"main.(*T).Method\"\n" +
		"47 \"main.(*Box[go.shape.int]).Get\" <- \"main.(*Box[go.shape.int]).Get\" / \"main.(*Box[go.shape.int]).Get\"\n" +
		"50 \"java.util.ArrayList.<init>\" <- \"java.util.ArrayList.<init>\" / \"java.util.ArrayList.<init>\"\n" +
		"53 \"<unknown>\" <- \"<unknown>\" / \"<unknown>\"\n" +
		"56 \"<unknown>\" <- \"\" / \"<unknown>\"\n" +
		"59 \"(anonymous)\" <- \"(anonymous)\" / \"(anonymous)\"\n" +
		"62 \"<>\" <- \"()<>\" / \"()<>\"\n" +
		"65 \"ns::\" <- \"ns::(anonymous)\" / \"ns::(anonymous)\"\n" +
		"68 \"foo::bar\" <- \"foo::bar(int, char)\" / \"foo::bar(int, char)\"\n" +
		"71 \"std::vector<int, std::allocator<int> >::push_back\" <- \"\" / \"std::vector<int, std::allocator<int> >::push_back(int const&)\"\n" +
		"74 \"a<b<c> >::d\" <- \"a<b<c> >::d(e<f>)\" / \"a<b<c> >::d(e<f>)\"\n" +
		"77 \"operator<<\" <- \"operator<<(x)\" / \"operator<<(x)\"\n" +
		"80 \"broken)(::x\" <- \"broken)(::x\" / \"broken)(::x\"\n" +
		"83 \"arr[3]\" <- \"arr[3]\" / \"arr[3]\"\n" +
		"86 \"named only\" <- \"named only\" / \"\"\n" +
		"89 \"\" <- \"\" / \"\"\n" +
		"92 \"foo::bar\" <- \"_ZN3foo3barEv.cold\" / \"_ZN3foo3barEv.cold\"\n" +
		"95 \"foo::bar\" <- \"_ZN3foo3barEv.llvm.123\" / \"_ZN3foo3barEv.llvm.123\"\n" +
		"98 \"_RNvCs1234_5mycrate4main\" <- \"_RNvCs1234_5mycrate4main\" / \"_RNvCs1234_5mycrate4main\"\n" +
		"101 \"core::fmt::Write::write_fmt\" <- \"_ZN4core3fmt5Write9write_fmt17h0123456789abcdefE\" / \"_ZN4core3fmt5Write9write_fmt17h0123456789abcdefE\"\n" +
		"",
	"symbolize-local_force": "" +
		"err: <nil>\n" +
		"ui: [\"Local symbolization failed for main: no binaries here\" \"Some binary filenames not available. Symbolization may be incomplete.\\nTry setting PPROF_BINARY_PATH to the search path for local binaries.\"]\n" +
		"5 \"foo::bar\" <- \"_ZN3foo3barEv\" / \"_ZN3foo3barEv\"\n" +
		"8 \"foo::bar\" <- \"\" / \"_ZN3foo3barEi\"\n" +
		"11 \"foo::bar\" <- \"foo::bar\" / \"_ZN3foo3barEv\"\n" +
		"14 \"std::allocator::allocator\" <- \"stale\" / \"_ZNSaIcEC1ERKS_\"\n" +
		"17 \"std::vector::push_back\" <- \"_ZNSt6vectorIiSaIiEE9push_backERKi\" / \"_ZNSt6vectorIiSaIiEE9push_backERKi\"\n" +
		"20 \"__gnu_cxx::new_allocator::allocate\" <- \"_ZN9__gnu_cxx13new_allocatorIcE8allocateEmPKv\" / \"_ZN9__gnu_cxx13new_allocatorIcE8allocateEmPKv\"\n" +
		"23 \"foo::bar\" <- \"__ZN3foo3barEv\" / \"__ZN3foo3barEv\"\n" +
		"26 \"std::vector::push_back\" <- \"\" / \"__ZNSt6vectorIiSaIiEE9push_backERKi\"\n" +
		"29 \"_notmangled\" <- \"_notmangled\" / \"_notmangled\"\n" +
		"32 \"_\" <- \"_\" / \"_\"\n" +
		"35 \"__Z\" <- \"__Z\" / \"__Z\"\n" +
		"38 \"_Z\" <- \"_Z\" / \"_Z\"\n" +
		"41 \"main.main\" <- \"main.main\" / \"main.main\"\n" +
		"44 \"main.(*T).Method\" <- \"\" / \"main.(*T).Method\"\n" +
		"47 \"main.(*Box[go.shape.int]).Get\" <- \"main.(*Box[go.shape.int]).Get\" / \"main.(*Box[go.shape.int]).Get\"\n" +
		"50 \"java.util.ArrayList.<init>\" <- \"java.util.ArrayList.<init>\" / \"java.util.ArrayList.<init>\"\n" +
		"53 \"<unknown>\" <- \"<unknown>\" / \"<unknown>\"\n" +
		"56 \"<unknown>\" <- \"\" / \"<unknown>\"\n" +
		"59 \"(anonymous)\" <- \"(anonymous)\" / \"(anonymous)\"\n" +
		"62 \"()<>\" <- \"()<>\" / \"()<>\"\n" +
		"65 \"ns::\" <- \"ns::(anonymous)\" / \"ns::(anonymous)\"\n" +
		"68 \"foo::bar\" <- \"foo::bar(int, char)\" / \"foo::bar(int, char)\"\n" +
		"71 \"std::vector::push_back\" <- \"\" / \"std::vector<int, std::allocator<int> >::push_back(int const&)\"\n" +
		"74 \"a::d\" <- \"a<b<c> >::d(e<f>)\" / \"a<b<c> >::d(e<f>)\"\n" +
		"77 \"operator<<\" <- \"operator<<(x)\" / \"operator<<(x)\"\n" +
		"80 \"broken)(::x\" <- \"broken)(::x\" / \"broken)(::x\"\n" +
		"83 \"arr[3]\" <- \"arr[3]\" / \"arr[3]\"\n" +
		"86 \"named only\" <- \"named only\" / \"\"\n" +
		"89 \"\" <- \"\" / \"\"\n" +
		"92 \"foo::bar\" <- \"_ZN3foo3barEv.cold\" / \"_ZN3foo3barEv.cold\"\n" +
		"95 \"foo::bar\" <- \"_ZN3foo3barEv.llvm.123\" / \"_ZN3foo3barEv.llvm.123\"\n" +
		"98 \"_RNvCs1234_5mycrate4main\" <- \"_RNvCs1234_5mycrate4main\" / \"_RNvCs1234_5mycrate4main\"\n" +
		"101 \"core::fmt::Write::write_fmt\" <- \"_ZN4core3fmt5Write9write_fmt17h0123456789abcdefE\" / \"_ZN4core3fmt5Write9write_fmt17h0123456789abcdefE\"\n" +
		"",
	"symbolize-none": "" +
		"err: <nil>\n" +
		"ui: []\n" +
		"5 \"_ZN3foo3barEv\" <- \"_ZN3foo3barEv\" / \"_ZN3foo3barEv\"\n" +
		"8 \"\" <- \"\" / \"_ZN3foo3barEi\"\n" +
		"11 \"foo::bar\" <- \"foo::bar\" / \"_ZN3foo3barEv\"\n" +
		"14 \"stale\" <- \"stale\" / \"_ZNSaIcEC1ERKS_\"\n" +
		"17 \"_ZNSt6vectorIiSaIiEE9push_backERKi\" <- \"_ZNSt6vectorIiSaIiEE9push_backERKi\" / \"_ZNSt6vectorIiSaIiEE9push_backERKi\"\n" +
		"20 \"_ZN9__gnu_cxx13new_allocatorIcE8allocateEmPKv\" <- \"_ZN9__gnu_cxx13new_allocatorIcE8allocateEmPKv\" / \"_ZN9__gnu_cxx13new_allocatorIcE8allocateEmPKv\"\n" +
		"23 \"__ZN3foo3barEv\" <- \"__ZN3foo3barEv\" / \"__ZN3foo3barEv\"\n" +
		"26 \"\" <- \"\" / \"__ZNSt6vectorIiSaIiEE9push_backERKi\"\n" +
		"29 \"_notmangled\" <- \"_notmangled\" / \"_notmangled\"\n" +
		"32 \"_\" <- \"_\" / \"_\"\n" +
		"35 \"__Z\" <- \"__Z\" / \"__Z\"\n" +
		"38 \"_Z\" <- \"_Z\" / \"_Z\"\n" +
		"41 \"main.main\" <- \"main.main\" / \"main.main\"\n" +
		"44 \"\" <- \"\" / \"main.(*T).Method\"\n" +
		"47 \"main.(*Box[go.shape.int]).Get\" <- \"main.(*Box[go.shape.int]).Get\" / \"main.(*Box[go.shape.int]).Get\"\n" +
		"50 \"java.util.ArrayList.<init>\" <- \"java.util.ArrayList.<init>\" / \"java.util.ArrayList.<init>\"\n" +
		"53 \"<unknown>\" <- \"<unknown>\" / \"<unknown>\"\n" +
		"56 \"\" <- \"\" / \"<unknown>\"\n" +
		"59 \"(anonymous)\" <- \"(anonymous)\" / \"(anonymous)\"\n" +
		"62 \"()<>\" <- \"()<>\" / \"()<>\"\n" +
		"65 \"ns::(anonymous)\" <- \"ns::(anonymous)\" / \"ns::(anonymous)\"\n" +
		"68 \"foo::bar(int, char)\" <- \"foo::bar(int, char)\" / \"foo::bar(int, char)\"\n" +
		"71 \"\" <- \"\" / \"std::vector<int, std::allocator<int> >::push_back(int const&)\"\n" +
		"74 \"a<b<c> >::d(e<f>)\" <- \"a<b<c> >::d(e<f>)\" / \"a<b<c> >::d(e<f>)\"\n" +
		"77 \"operator<<(x)\" <- \"operator<<(x)\" / \"operator<<(x)\"\n" +
		"80 \"broken)(::x\" <- \"broken)(::x\" / \"broken)(::x\"\n" +
		"83 \"arr[3]\" <- \"arr[3]\" / \"arr[3]\"\n" +
		"86 \"named only\" <- \"named only\" / \"\"\n" +
		"89 \"\" <- \"\" / \"\"\n" +
		"92 \"_ZN3foo3barEv.cold\" <- \"_ZN3foo3barEv.cold\" / \"_ZN3foo3barEv.cold\"\n" +
		"95 \"_ZN3foo3barEv.llvm.123\" <- \"_ZN3foo3barEv.llvm.123\" / \"_ZN3foo3barEv.llvm.123\"\n" +
		"98 \"_RNvCs1234_5mycrate4main\" <- \"_RNvCs1234_5mycrate4main\" / \"_RNvCs1234_5mycrate4main\"\n" +
		"101 \"_ZN4core3fmt5Write9write_fmt17h0123456789abcdefE\" <- \"_ZN4core3fmt5Write9write_fmt17h0123456789abcdefE\" / \"_ZN4core3fmt5Write9write_fmt17h0123456789abcdefE\"\n" +
		"",
	"symbolize-remote_demangle_full": "" +
		"err: <nil>\n" +
		"ui: []\n" +
		"5 \"foo::bar()\" <- \"_ZN3foo3barEv\" / \"_ZN3foo3barEv\"\n" +
		"8 \"foo::bar(int)\" <- \"\" / \"_ZN3foo3barEi\"\n" +
		"11 \"foo::bar()\" <- \"foo::bar\" / \"_ZN3foo3barEv\"\n" +
		"14 \"std::allocator<char>::allocator(std::allocator<char> const&)\" <- \"stale\" / \"_ZNSaIcEC1ERKS_\"\n" +
		"17 \"std::vector<int, std::allocator<int> >::push_back(int const&)\" <- \"_ZNSt6vectorIiSaIiEE9push_backERKi\" / \"_ZNSt6vectorIiSaIiEE9push_backERKi\"\n" +
		"20 \"__gnu_cxx::new_allocator<char>::allocate(unsigned long, void const*)\" <- \"_ZN9__gnu_cxx13new_allocatorIcE8allocateEmPKv\" / \"_ZN9__gnu_cxx13new_allocatorIcE8allocateEmPKv\"\n" +
		"23 \"foo::bar()\" <- \"__ZN3foo3barEv\" / \"__ZN3foo3barEv\"\n" +
		"26 \"std::vector<int, std::allocator<int> >::push_back(int const&)\" <- \"\" / \"__ZNSt6vectorIiSaIiEE9push_backERKi\"\n" +
		"29 \"_notmangled\" <- \"_notmangled\" / \"_notmangled\"\n" +
		"32 \"_\" <- \"_\" / \"_\"\n" +
		"35 \"__Z\" <- \"__Z\" / \"__Z\"\n" +
		"38 \"_Z\" <- \"_Z\" / \"_Z\"\n" +
		"41 \"main.main\" <- \"main.main\" / \"main.main\"\n" +
		"44 \"main.(*T).Method\" <- \"\" / \"main.(*T).Method\"\n" +
		"47 \"main.(*Box[go.shape.int]).Get\" <- \"main.(*Box[go.shape.int]).Get\" / \"main.(*Box[go.shape.int]).Get\"\n" +
		"50 \"java.util.ArrayList.<init>\" <- \"java.util.ArrayList.<init>\" / \"java.util.ArrayList.<init>\"\n" +
		"53 \"<unknown>\" <- \"<unknown>\" / \"<unknown>\"\n" +
		"56 \"<unknown>\" <- \"\" / \"<unknown>\"\n" +
		"59 \"(anonymous)\" <- \"(anonymous)\" / \"(anonymous)\"\n" +
		"62 \"()<>\" <- \"()<>\" / \"()<>\"\n" +
		"65 \"ns::(anonymous)\" <- \"ns::(anonymous)\" / \"ns::(anonymous)\"\n" +
		"68 \"foo::bar(int, char)\" <- \"foo::bar(int, char)\" / \"foo::bar(int, char)\"\n" +
		"71 \"std::vector<int, std::allocator<int> >::push_back(int const&)\" <- \"\" / \"std::vector<int, std::allocator<int> >::push_back(int const&)\"\n" +
		"74 \"a<b<c> >::d(e<f>)\" <- \"a<b<c> >::d(e<f>)\" / \"a<b<c> >::d(e<f>)\"\n" +
		"77 \"operator<<(x)\" <- \"operator<<(x)\" / \"operator<<(x)\"\n" +
		"80 \"broken)(::x\" <- \"broken)(::x\" / \"broken)(::x\"\n" +
		"83 \"arr[3]\" <- \"arr[3]\" / \"arr[3]\"\n" +
		"86 \"named only\" <- \"named only\" / \"\"\n" +
		"89 \"\" <- \"\" / \"\"\n" +
		"92 \"foo::bar()\" <- \"_ZN3foo3barEv.cold\" / \"_ZN3foo3barEv.cold\"\n" +
		"95 \"foo::bar()\" <- \"_ZN3foo3barEv.llvm.123\" / \"_ZN3foo3barEv.llvm.123\"\n" +
		"98 \"_RNvCs1234_5mycrate4main\" <- \"_RNvCs1234_5mycrate4main\" / \"_RNvCs1234_5mycrate4main\"\n" +
		"101 \"core::fmt::Write::write_fmt\" <- \"_ZN4core3fmt5Write9write_fmt17h0123456789abcdefE\" / \"_ZN4core3fmt5Write9write_fmt17h0123456789abcdefE\"\n" +
		"",
}
