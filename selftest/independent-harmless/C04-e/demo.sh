#!/bin/sh
# usage: demo.sh <worktree root>; exits 0 iff the equivalence test passes.
set -u
root=${1:?worktree root}
here=$(cd "$(dirname "$0")" && pwd)
export GOFLAGS=-mod=mod GOPROXY=off GOSUMDB=off GOTOOLCHAIN=local
cp "$here/zz_equiv_b_test.go" "$root/internal/report/zz_equiv_b_test.go" || exit 2
(cd "$root" && go test -vet=off -count=1 -run 'TestZZEquiv' ./internal/report/)
rc=$?
rm -f "$root/internal/report/zz_equiv_b_test.go"
exit $rc
