package report

import (
	"bytes"
	"fmt"
	"strings"
	"testing"

	"github.com/google/pprof/profile"
)

// zzEquivBProfile builds a profile with recursion, an inlined multi-line
// location, locations shared between samples, an empty stack, an
// unsymbolized frame, negative values, labels and two sample types.
func zzEquivBProfile() *profile.Profile {
	m := &profile.Mapping{ID: 1, Start: 0x1000, Limit: 0x9000, File: "/bin/prog", HasFunctions: true}
	fn := func(id uint64, name, file string) *profile.Function {
		return &profile.Function{ID: id, Name: name, SystemName: name, Filename: file, StartLine: int64(id * 10)}
	}
	fMain, fA, fB, fInl := fn(1, "main", "main.go"), fn(2, "a", "a.go"), fn(3, "b", "dir/../b.go"), fn(4, "inl", "a.go")
	l1 := &profile.Location{ID: 1, Mapping: m, Address: 0x1100, Line: []profile.Line{{Function: fMain, Line: 5}}}
	l2 := &profile.Location{ID: 2, Mapping: m, Address: 0x1200, Line: []profile.Line{{Function: fInl, Line: 7, Column: 3}, {Function: fA, Line: 21}}}
	l3 := &profile.Location{ID: 3, Mapping: m, Address: 0x1300, Line: []profile.Line{{Function: fB, Line: 33}}}
	l4 := &profile.Location{ID: 4, Mapping: m, Address: 0x1400} // unsymbolized
	l5 := &profile.Location{ID: 5, Address: 0x77}               // no mapping, no lines
	l6 := &profile.Location{ID: 6, Mapping: m, Address: 0x1600, Line: []profile.Line{{Function: fInl, Line: 8}, {Function: fInl, Line: 9}, {Function: fB, Line: 34}}}
	return &profile.Profile{
		SampleType: []*profile.ValueType{{Type: "samples", Unit: "count"}, {Type: "cpu", Unit: "milliseconds"}},
		PeriodType: &profile.ValueType{Type: "cpu", Unit: "milliseconds"},
		Period:     10,
		Mapping:    []*profile.Mapping{m},
		Function:   []*profile.Function{fMain, fA, fB, fInl},
		Location:   []*profile.Location{l1, l2, l3, l4, l5, l6},
		Sample: []*profile.Sample{
			{Location: []*profile.Location{l3, l2, l1}, Value: []int64{2, 200}},
			{Location: []*profile.Location{l2, l3, l2, l1}, Value: []int64{3, 90}, Label: map[string][]string{"k": {"v1", "v2"}, "a": {"z"}}},
			{Location: []*profile.Location{l3, l3, l3, l1}, Value: []int64{1, -70}},
			{Location: nil, Value: []int64{5, 500}},
			{Location: []*profile.Location{l4, l2, l1}, Value: []int64{4, 44}, NumLabel: map[string][]int64{"bytes": {16, 32}}, NumUnit: map[string][]string{"bytes": {"bytes", "bytes"}}},
			{Location: []*profile.Location{l5}, Value: []int64{0, 13}},
			{Location: []*profile.Location{l6, l6, l4, l1}, Value: []int64{7, 0}},
			{Location: []*profile.Location{l2, l1}, Value: []int64{-2, -20}},
			{Location: []*profile.Location{l3, l2, l1}, Value: []int64{2, 200}},
		},
	}
}

func zzEquivBTraces(t *testing.T, idx int, mean bool) string {
	p := zzEquivBProfile()
	o := &Options{
		OutputFormat:  Traces,
		SampleValue:   func(v []int64) int64 { return v[idx] },
		SampleType:    p.SampleType[idx].Type,
		SampleUnit:    p.SampleType[idx].Unit,
		NumLabelUnits: map[string]string{"bytes": "bytes"},
	}
	if mean {
		o.SampleMeanDivisor = func(v []int64) int64 { return v[0] }
	}
	var buf bytes.Buffer
	if err := Generate(&buf, New(p, o), nil); err != nil {
		t.Fatalf("Generate: %v", err)
	}
	return buf.String()
}

func TestZZEquivTraces(t *testing.T) {
	var got strings.Builder
	for _, c := range []struct {
		idx  int
		mean bool
	}{{0, false}, {1, false}, {1, true}} {
		fmt.Fprintf(&got, "=== idx=%d mean=%v\n%s", c.idx, c.mean, zzEquivBTraces(t, c.idx, c.mean))
	}
	if testing.Verbose() {
		fmt.Printf("<<<GOT\n%s>>>GOT\n", got.String())
	}
	if got.String() != wantZZEquivB {
		t.Errorf("traces output differs from the output recorded on the unchanged tree:\n%s", got.String())
	}
}

// Recorded on the unchanged tree.
const wantZZEquivB = `=== idx=0 mean=false
File: prog
Type: samples
-----------+-------------------------------------------------------
         2   0000000000001300 b b.go:33
             0000000000001200 inl a.go:7:3 (inline)
             0000000000001200 a a.go:21
             0000000000001100 main main.go:5
-----------+-------------------------------------------------------
         a:  z
         k:  v1 v2
         3   0000000000001200 inl a.go:7:3 (inline)
             0000000000001200 a a.go:21
             0000000000001300 b b.go:33
             0000000000001200 inl a.go:7:3 (inline)
             0000000000001200 a a.go:21
             0000000000001100 main main.go:5
-----------+-------------------------------------------------------
         1   0000000000001300 b b.go:33
             0000000000001300 b b.go:33
             0000000000001300 b b.go:33
             0000000000001100 main main.go:5
-----------+-------------------------------------------------------
     bytes:  16B 32B
         4   0000000000001400 [prog]
             0000000000001200 inl a.go:7:3 (inline)
             0000000000001200 a a.go:21
             0000000000001100 main main.go:5
-----------+-------------------------------------------------------
         0   0000000000000077 <unknown>
-----------+-------------------------------------------------------
         7   0000000000001600 inl a.go:8 (inline)
             0000000000001600 inl a.go:9 (inline)
             0000000000001600 b b.go:34
             0000000000001600 inl a.go:8 (inline)
             0000000000001600 inl a.go:9 (inline)
             0000000000001600 b b.go:34
             0000000000001400 [prog]
             0000000000001100 main main.go:5
-----------+-------------------------------------------------------
        -2   0000000000001200 inl a.go:7:3 (inline)
             0000000000001200 a a.go:21
             0000000000001100 main main.go:5
-----------+-------------------------------------------------------
         2   0000000000001300 b b.go:33
             0000000000001200 inl a.go:7:3 (inline)
             0000000000001200 a a.go:21
             0000000000001100 main main.go:5
-----------+-------------------------------------------------------
=== idx=1 mean=false
File: prog
Type: cpu
-----------+-------------------------------------------------------
     0.20s   0000000000001300 b b.go:33
             0000000000001200 inl a.go:7:3 (inline)
             0000000000001200 a a.go:21
             0000000000001100 main main.go:5
-----------+-------------------------------------------------------
         a:  z
         k:  v1 v2
     0.09s   0000000000001200 inl a.go:7:3 (inline)
             0000000000001200 a a.go:21
             0000000000001300 b b.go:33
             0000000000001200 inl a.go:7:3 (inline)
             0000000000001200 a a.go:21
             0000000000001100 main main.go:5
-----------+-------------------------------------------------------
    -0.07s   0000000000001300 b b.go:33
             0000000000001300 b b.go:33
             0000000000001300 b b.go:33
             0000000000001100 main main.go:5
-----------+-------------------------------------------------------
     bytes:  16B 32B
     0.04s   0000000000001400 [prog]
             0000000000001200 inl a.go:7:3 (inline)
             0000000000001200 a a.go:21
             0000000000001100 main main.go:5
-----------+-------------------------------------------------------
     0.01s   0000000000000077 <unknown>
-----------+-------------------------------------------------------
         0   0000000000001600 inl a.go:8 (inline)
             0000000000001600 inl a.go:9 (inline)
             0000000000001600 b b.go:34
             0000000000001600 inl a.go:8 (inline)
             0000000000001600 inl a.go:9 (inline)
             0000000000001600 b b.go:34
             0000000000001400 [prog]
             0000000000001100 main main.go:5
-----------+-------------------------------------------------------
    -0.02s   0000000000001200 inl a.go:7:3 (inline)
             0000000000001200 a a.go:21
             0000000000001100 main main.go:5
-----------+-------------------------------------------------------
     0.20s   0000000000001300 b b.go:33
             0000000000001200 inl a.go:7:3 (inline)
             0000000000001200 a a.go:21
             0000000000001100 main main.go:5
-----------+-------------------------------------------------------
=== idx=1 mean=true
File: prog
Type: cpu
-----------+-------------------------------------------------------
     0.10s   0000000000001300 b b.go:33
             0000000000001200 inl a.go:7:3 (inline)
             0000000000001200 a a.go:21
             0000000000001100 main main.go:5
-----------+-------------------------------------------------------
         a:  z
         k:  v1 v2
     0.03s   0000000000001200 inl a.go:7:3 (inline)
             0000000000001200 a a.go:21
             0000000000001300 b b.go:33
             0000000000001200 inl a.go:7:3 (inline)
             0000000000001200 a a.go:21
             0000000000001100 main main.go:5
-----------+-------------------------------------------------------
    -0.07s   0000000000001300 b b.go:33
             0000000000001300 b b.go:33
             0000000000001300 b b.go:33
             0000000000001100 main main.go:5
-----------+-------------------------------------------------------
     bytes:  16B 32B
     0.01s   0000000000001400 [prog]
             0000000000001200 inl a.go:7:3 (inline)
             0000000000001200 a a.go:21
             0000000000001100 main main.go:5
-----------+-------------------------------------------------------
     0.01s   0000000000000077 <unknown>
-----------+-------------------------------------------------------
         0   0000000000001600 inl a.go:8 (inline)
             0000000000001600 inl a.go:9 (inline)
             0000000000001600 b b.go:34
             0000000000001600 inl a.go:8 (inline)
             0000000000001600 inl a.go:9 (inline)
             0000000000001600 b b.go:34
             0000000000001400 [prog]
             0000000000001100 main main.go:5
-----------+-------------------------------------------------------
     0.01s   0000000000001200 inl a.go:7:3 (inline)
             0000000000001200 a a.go:21
             0000000000001100 main main.go:5
-----------+-------------------------------------------------------
     0.10s   0000000000001300 b b.go:33
             0000000000001200 inl a.go:7:3 (inline)
             0000000000001200 a a.go:21
             0000000000001100 main main.go:5
-----------+-------------------------------------------------------
`
