package driver

import (
	"net/url"
	"reflect"
	"sort"
	"strings"
	"testing"
)

func TestZZEquivBGetSet(t *testing.T) {
	cfg := config{
		Output: "out", CallTree: true, RelativePercentages: false, Unit: "ms",
		CompactLabels: true, SourcePath: "sp", TrimPath: "tp", IntelSyntax: true,
		Mean: true, SampleIndex: "cpu", DivideBy: 2.5, Normalize: true, Sort: "cum",
		TagRoot: "tr", TagLeaf: "tl", DropNegative: true, NodeCount: -7,
		NodeFraction: 1e-7, EdgeFraction: 1e21, Trim: false, Focus: "a b&c=d",
		Ignore: "ig", PruneFrom: "pf", Hide: "hi", Show: "sh", ShowFrom: "sf",
		TagFocus: "tf", TagIgnore: "ti", TagShow: "ts", TagHide: "th",
		NoInlines: true, ShowColumns: true, Granularity: "files",
	}
	want := map[string]string{
		"output": "out", "call_tree": "true", "relative_percentages": "false", "unit": "ms",
		"compact_labels": "true", "source_path": "sp", "trim_path": "tp", "intel_syntax": "true",
		"mean": "true", "sample_index": "cpu", "divide_by": "2.5", "normalize": "true", "sort": "cum",
		"tagroot": "tr", "tagleaf": "tl", "drop_negative": "true", "nodecount": "-7",
		"nodefraction": "1e-07", "edgefraction": "1e+21", "trim": "false", "focus": "a b&c=d",
		"ignore": "ig", "prune_from": "pf", "hide": "hi", "show": "sh", "show_from": "sf",
		"tagfocus": "tf", "tagignore": "ti", "tagshow": "ts", "taghide": "th",
		"noinlines": "true", "showcolumns": "true", "granularity": "files",
	}
	if len(configFields) != len(want) {
		t.Fatalf("have %d fields, table has %d", len(configFields), len(want))
	}
	var rebuilt config
	for _, f := range configFields {
		got := cfg.get(f)
		if got != want[f.name] {
			t.Errorf("get(%s) = %q, want %q", f.name, got, want[f.name])
		}
		if err := rebuilt.set(f, got); err != nil {
			t.Errorf("set(%s, %q): %v", f.name, got, err)
		}
	}
	if !reflect.DeepEqual(rebuilt, cfg) {
		t.Errorf("rebuilt = %+v\nwant %+v", rebuilt, cfg)
	}

	// Defaults recorded at init.
	wantDef := map[string]string{"unit": "minimum", "nodecount": "-1", "nodefraction": "0.005",
		"edgefraction": "0.001", "trim": "true", "divide_by": "1", "sort": "flat"}
	for _, f := range configFields {
		d, ok := wantDef[f.name]
		if !ok {
			switch f.field.Type.Kind() {
			case reflect.Bool:
				d = "false"
			case reflect.Int, reflect.Float64:
				d = "0"
			}
		}
		if f.defaultValue != d {
			t.Errorf("default of %s = %q, want %q", f.name, f.defaultValue, d)
		}
	}

	// Failing and unusual assignments; a failed set must not modify the field.
	type tc struct{ name, value, err, after string }
	for _, c := range []tc{
		{"nodecount", "12x", `strconv.Atoi: parsing "12x": invalid syntax`, "-7"},
		{"nodecount", "", `strconv.Atoi: parsing "": invalid syntax`, "-7"},
		{"nodecount", "99999999999999999999", `strconv.Atoi: parsing "99999999999999999999": value out of range`, "-7"},
		{"nodecount", "+15", "", "15"},
		{"nodefraction", "abc", `strconv.ParseFloat: parsing "abc": invalid syntax`, "1e-07"},
		{"nodefraction", "1e400", `strconv.ParseFloat: parsing "1e400": value out of range`, "1e-07"},
		{"nodefraction", "0x1p-2", "", "0.25"},
		{"edgefraction", "inf", "", "+Inf"},
		{"trim", "maybe", `illegal value "maybe" for bool variable`, "false"},
		{"trim", "YES", "", "true"},
		{"trim", "n", "", "false"},
		{"call_tree", "0", "", "false"},
		{"call_tree", "T", "", "true"},
		{"sort", "Flat", `invalid "sort" value "Flat"`, "cum"},
		{"sort", "", `invalid "sort" value ""`, "cum"},
		{"sort", "flat", "", "flat"},
		{"granularity", "lines ", `invalid "granularity" value "lines "`, "files"},
		{"granularity", "addresses", "", "addresses"},
		{"focus", "", "", ""},
		{"unit", "anything goes", "", "anything goes"},
	} {
		f := configFieldMap[c.name]
		err := cfg.set(f, c.value)
		if c.err == "" {
			if err != nil {
				t.Errorf("set(%s,%q): unexpected error %v", c.name, c.value, err)
			}
		} else if err == nil || err.Error() != c.err {
			t.Errorf("set(%s,%q): err = %v, want %q", c.name, c.value, err, c.err)
		}
		if got := cfg.get(f); got != c.after {
			t.Errorf("after set(%s,%q): get = %q, want %q", c.name, c.value, got, c.after)
		}
	}
}

func TestZZEquivBBoolNames(t *testing.T) {
	var bools []string
	for name := range configFieldMap {
		if isBoolConfig(name) {
			bools = append(bools, name)
		}
	}
	sort.Strings(bools)
	want := "addresses call_tree compact_labels cum drop_negative filefunctions files flat functions " +
		"intel_syntax lines mean noinlines normalize relative_percentages showcolumns trim"
	if got := strings.Join(bools, " "); got != want {
		t.Errorf("bool names = %q\nwant %q", got, want)
	}
	if isBoolConfig("nosuch") || isBoolConfig("sort") || isBoolConfig("nodecount") || isBoolConfig("focus") {
		t.Error("non-bool reported as bool")
	}
}

func TestZZEquivBURLRoundTrip(t *testing.T) {
	cfg := defaultConfig()
	cfg.Focus = "a b&c=d"
	cfg.NodeCount = 0
	cfg.NodeFraction = 0
	cfg.EdgeFraction = 1e-9
	cfg.Trim = false
	cfg.CallTree = true
	cfg.Sort = "cum"
	cfg.Granularity = "filefunctions"
	cfg.TagRoot = "r"
	cfg.Unit = ""
	base, _ := url.Parse("http://h/ui/top?si=cpu&x=1&h=old&mean=t")
	u, changed := cfg.makeURL(*base)
	if !changed {
		t.Fatal("changed = false")
	}
	const wantQ = "calltree=t&ef=1e-09&f=a+b%26c%3Dd&g=filefunctions&n=0&nf=0&si=cpu&sort=cum&tagroot=r&trim=f&x=1"
	if u.RawQuery != wantQ {
		t.Errorf("query = %q\nwant    %q", u.RawQuery, wantQ)
	}
	back := defaultConfig()
	if err := back.applyURL(u.Query()); err != nil {
		t.Fatal(err)
	}
	// Unit was cleared to "": it counts as unset and takes its default; si is
	// a URL-only field picked up from the page URL.
	exp := cfg
	exp.Unit = "minimum"
	exp.SampleIndex = "cpu"
	if !reflect.DeepEqual(back, exp) {
		t.Errorf("round trip = %+v\nwant %+v", back, exp)
	}
	if _, changed := back.makeURL(u); changed {
		t.Error("second makeURL changed the URL")
	}
	// Error from applyURL names the field.
	bad := defaultConfig()
	err := bad.applyURL(url.Values{"f": {"ok"}, "trim": {"perhaps"}, "n": {"5"}})
	if err == nil || err.Error() != `error setting config field trim: illegal value "perhaps" for bool variable` {
		t.Errorf("applyURL err = %v", err)
	}
	if bad.NodeCount != 5 || bad.Focus != "" || !bad.Trim {
		// nodecount precedes trim in struct order and focus follows it.
		t.Errorf("partial application = n:%d f:%q trim:%v", bad.NodeCount, bad.Focus, bad.Trim)
	}
}
