package driver

// Equivalence demonstration for change C (web interface computes the sample
// type names and the help map once, at construction).
//
// It starts the web interface through serveWebInterface (with the
// plugin.Options.HTTPServer hook, as webui_test.go does), issues a sequence of
// requests with different per-request arguments, then the same requests as a
// concurrent mix, and fingerprints every response (status + full body, which
// includes the sample type menu and the help texts the change touches). The
// expected fingerprints were computed on the UNCHANGED tree and are
// hard-coded; the test passes with and without the change.
//
// Set ZZ_PRINT=1 to print the actual fingerprints.

import (
	"crypto/sha256"
	"fmt"
	"io"
	"net/http"
	"net/http/httptest"
	"os"
	"strings"
	"sync"
	"testing"

	"github.com/google/pprof/internal/plugin"
	"github.com/google/pprof/profile"
)

func zzcProfile() *profile.Profile {
	m := []*profile.Mapping{
		{ID: 1, Start: 0x1000, Limit: 0x9000, File: "/bin/zzprog", HasFunctions: true, HasFilenames: true, HasLineNumbers: true, HasInlineFrames: true},
	}
	f := []*profile.Function{
		{ID: 1, Name: "main.main", SystemName: "main.main", Filename: "/src/app/main.go", StartLine: 10},
		{ID: 2, Name: "main.work", SystemName: "main.work", Filename: "/src/app/main.go", StartLine: 40},
		{ID: 3, Name: "lib.Encode", SystemName: "lib.Encode", Filename: "/src/lib/enc.go", StartLine: 5},
		{ID: 4, Name: "lib.inlined", SystemName: "lib.inlined", Filename: "/src/lib/enc.go", StartLine: 70},
		{ID: 5, Name: "lib.Encode", SystemName: "lib.Encode", Filename: "/src/lib/enc_other.go", StartLine: 5},
		{ID: 6, Name: "runtime.memmove", SystemName: "runtime.memmove", Filename: "/go/src/runtime/memmove.s", StartLine: 1},
	}
	l := []*profile.Location{
		{ID: 1, Mapping: m[0], Address: 0x1100, Line: []profile.Line{{Function: f[0], Line: 12, Column: 3}}},
		{ID: 2, Mapping: m[0], Address: 0x1200, Line: []profile.Line{{Function: f[1], Line: 44, Column: 7}}},
		{ID: 3, Mapping: m[0], Address: 0x1210, Line: []profile.Line{{Function: f[1], Line: 44, Column: 19}}},
		{ID: 4, Mapping: m[0], Address: 0x1300, Line: []profile.Line{{Function: f[3], Line: 72, Column: 2}, {Function: f[2], Line: 9, Column: 11}}},
		{ID: 5, Mapping: m[0], Address: 0x1310, Line: []profile.Line{{Function: f[2], Line: 9, Column: 30}}},
		{ID: 6, Mapping: m[0], Address: 0x1400, Line: []profile.Line{{Function: f[4], Line: 6, Column: 1}}},
		{ID: 7, Mapping: m[0], Address: 0x1500, Line: []profile.Line{{Function: f[5], Line: 100}}},
		{ID: 8, Mapping: m[0], Address: 0x1508, Line: []profile.Line{{Function: f[5], Line: 101}}},
	}
	s := func(v1, v2 int64, lbl string, locs ...int) *profile.Sample {
		smp := &profile.Sample{Value: []int64{v1, v2}}
		for _, i := range locs {
			smp.Location = append(smp.Location, l[i-1])
		}
		if lbl != "" {
			smp.Label = map[string][]string{"req": {lbl}}
			smp.NumLabel = map[string][]int64{"bytes": {int64(len(lbl)) * 64}}
			smp.NumUnit = map[string][]string{"bytes": {"bytes"}}
		}
		return smp
	}
	return &profile.Profile{
		SampleType:    []*profile.ValueType{{Type: "samples", Unit: "count"}, {Type: "cpu", Unit: "milliseconds"}},
		PeriodType:    &profile.ValueType{Type: "cpu", Unit: "milliseconds"},
		Period:        10,
		DurationNanos: 5e9,
		Sample: []*profile.Sample{
			s(10, 100, "a", 7, 4, 2, 1),
			s(20, 200, "b", 8, 4, 2, 1),
			s(5, 50, "a", 8, 5, 3, 1),
			s(7, 70, "", 6, 3, 1),
			s(3, 30, "b", 6, 2, 1),
			s(40, 400, "", 2, 1),
			s(1, 10, "c", 3, 1),
			s(2, 20, "", 1),
		},
		Location: l,
		Function: f,
		Mapping:  m,
	}
}

type zzcUI struct {
	mu  sync.Mutex
	log []string
}

func (u *zzcUI) ReadLine(string) (string, error)     { return "", io.EOF }
func (u *zzcUI) Print(args ...interface{})           {}
func (u *zzcUI) IsTerminal() bool                    { return false }
func (u *zzcUI) WantBrowser() bool                   { return false }
func (u *zzcUI) SetAutoComplete(func(string) string) {}
func (u *zzcUI) PrintErr(args ...interface{}) {
	u.mu.Lock()
	defer u.mu.Unlock()
	u.log = append(u.log, "ERR "+fmt.Sprint(args...))
}

func zzcSum(b []byte) string { return fmt.Sprintf("%x", sha256.Sum256(b))[:16] }

func zzcGet(t *testing.T, base, path string) string {
	res, err := http.Get(base + path)
	if err != nil {
		t.Errorf("GET %s: %v", path, err)
		return "error"
	}
	defer res.Body.Close()
	body, err := io.ReadAll(res.Body)
	if err != nil {
		t.Errorf("GET %s: %v", path, err)
		return "error"
	}
	// The pages must name both sample types of the profile in the menu.
	if res.StatusCode == http.StatusOK && !(strings.Contains(string(body), "samples") && strings.Contains(string(body), "cpu")) {
		t.Errorf("GET %s: sample types missing from page", path)
	}
	return fmt.Sprintf("%d %d %s", res.StatusCode, len(body), zzcSum(body))
}

func TestZZEquivC(t *testing.T) {
	dir := t.TempDir()
	t.Setenv("HOME", dir)
	t.Setenv("XDG_CONFIG_HOME", dir)
	saved := currentConfig()
	defer setCurrentConfig(saved)
	savedMode := interactiveMode
	defer func() { interactiveMode = savedMode }()
	setCurrentConfig(defaultConfig())

	ui := &zzcUI{}
	var server *httptest.Server
	created := make(chan bool)
	creator := func(a *plugin.HTTPServerArgs) error {
		server = httptest.NewServer(http.HandlerFunc(func(w http.ResponseWriter, r *http.Request) {
			if h := a.Handlers[r.URL.Path]; h != nil {
				h.ServeHTTP(w, r)
			}
		}))
		created <- true
		return nil
	}
	go serveWebInterface("unused:1234", zzcProfile(), &plugin.Options{UI: ui, HTTPServer: creator}, true)
	<-created
	defer server.Close()

	paths := []string{
		"/top",
		"/top?f=Encode",
		"/top?si=samples",
		"/flamegraph",
		"/flamegraph?i=memmove&g=lines",
		"/peek?f=work",
		"/top?n=abc",
		"/top?g=files&noinlines=t",
		"/top?h=memmove&s=main",
		"/flamegraph?si=samples&tf=a",
		"/peek?f=Encode&showcolumns=t",
		"/top?sort=cum",
		"/top?si=nosuch",
		"/flamegraph?g=addresses",
		"/top",
	}

	// Sequential history.
	seq := make([]string, len(paths))
	var got []string
	for i, p := range paths {
		seq[i] = zzcGet(t, server.URL, p)
		got = append(got, fmt.Sprintf("GET %s -> %s", p, seq[i]))
	}
	if seq[0] != seq[len(seq)-1] {
		t.Errorf("/top changed over the history: %s then %s", seq[0], seq[len(seq)-1])
	}

	// The same requests as a concurrent mix, three rounds, reversed start order.
	const rounds = 3
	conc := make([][]string, rounds)
	var wg sync.WaitGroup
	for r := range conc {
		conc[r] = make([]string, len(paths))
		for i := len(paths) - 1; i >= 0; i-- {
			wg.Add(1)
			go func(r, i int) {
				defer wg.Done()
				conc[r][i] = zzcGet(t, server.URL, paths[i])
			}(r, i)
		}
	}
	wg.Wait()
	for r := range conc {
		for i := range paths {
			if conc[r][i] != seq[i] {
				t.Errorf("concurrent GET %s (round %d) = %s, sequential = %s", paths[i], r, conc[r][i], seq[i])
			}
		}
	}

	// Errors reported to the UI: as a multiset (order depends on scheduling).
	ui.mu.Lock()
	counts := map[string]int{}
	for _, l := range ui.log {
		counts[l]++
	}
	ui.mu.Unlock()
	for _, l := range []string{
		`ERR error setting config field nodecount: strconv.Atoi: parsing "abc": invalid syntax`,
		`ERR sample_index "nosuch" must be one of: [samples cpu]`,
	} {
		got = append(got, fmt.Sprintf("%d x %s", counts[l], l))
		delete(counts, l)
	}
	got = append(got, fmt.Sprintf("other errors: %d", len(counts)))

	actual := strings.Join(got, "\n")
	if os.Getenv("ZZ_PRINT") != "" {
		fmt.Printf("----BEGIN----\n%s\n----END----\n", actual)
		for l, n := range counts {
			fmt.Printf("other error %d x %s\n", n, l)
		}
	}
	if actual != zzcExpected {
		t.Errorf("behaviour differs from the unchanged tree:\n%s", zzcDiffLines(zzcExpected, actual))
	}
}

func zzcDiffLines(want, got string) string {
	w, g := strings.Split(want, "\n"), strings.Split(got, "\n")
	var b strings.Builder
	for i := 0; i < len(w) || i < len(g); i++ {
		var x, y string
		if i < len(w) {
			x = w[i]
		}
		if i < len(g) {
			y = g[i]
		}
		if x != y {
			fmt.Fprintf(&b, "line %d:\n  want %s\n  got  %s\n", i+1, x, y)
		}
	}
	return b.String()
}

const zzcExpected = `GET /top -> 200 29909 a01b1f9275ac8754
GET /top?f=Encode -> 200 29913 506cf756eaf04cc1
GET /top?si=samples -> 200 29877 f68ee9d53d8792db
GET /flamegraph -> 200 47554 5bf6596357636506
GET /flamegraph?i=memmove&g=lines -> 200 46581 db1ae58dad7c3871
GET /peek?f=work -> 200 27494 1011c327cafd7500
GET /top?n=abc -> 400 82 8a213cfc1e60c60b
GET /top?g=files&noinlines=t -> 200 29939 cae1ac008c36838d
GET /top?h=memmove&s=main -> 200 29588 32b28852c9dfd6f9
GET /flamegraph?si=samples&tf=a -> 200 46736 8e1654ef7bc2792e
GET /peek?f=Encode&showcolumns=t -> 200 28151 8a73e04e2eff472a
GET /top?sort=cum -> 200 29869 52ce7241e9e57e13
GET /top?si=nosuch -> 400 52 80269c172ad0edfe
GET /flamegraph?g=addresses -> 200 48292 7a5e1e634bb7af03
GET /top -> 200 29909 a01b1f9275ac8754
4 x ERR error setting config field nodecount: strconv.Atoi: parsing "abc": invalid syntax
4 x ERR sample_index "nosuch" must be one of: [samples cpu]
other errors: 0`
