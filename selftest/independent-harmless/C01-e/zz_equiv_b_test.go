package profile

import (
	"bytes"
	"compress/gzip"
	"crypto/sha256"
	"encoding/hex"
	"fmt"
	"os"
	"sync"
	"testing"
)

// Equivalence demonstration for change B (ParseData gzip sniffing /
// legacy fallback restructuring and serialize locking in profile.go).
// Expected values were computed on the unchanged tree and hard-coded.

func zzbHash(b []byte) string {
	h := sha256.Sum256(b)
	return hex.EncodeToString(h[:8])
}

func zzbGzip(parts ...[]byte) []byte {
	var out bytes.Buffer
	for _, p := range parts {
		zw := gzip.NewWriter(&out)
		zw.Write(p)
		zw.Close()
	}
	return out.Bytes()
}

func zzbProfile(k int) *Profile {
	p := &Profile{
		TimeNanos:     12345,
		DurationNanos: -1,
		Period:        1<<63 - 1,
		PeriodType:    &ValueType{Type: "", Unit: "u\xff"},
		KeepFrames:    "keep",
		Comments:      []string{"a", "", "a"},
	}
	for i := 0; i < k; i++ {
		p.SampleType = append(p.SampleType, &ValueType{Type: fmt.Sprintf("t%d", i), Unit: "count"})
	}
	m := &Mapping{ID: 1 << 50, Start: 1, Limit: 1<<64 - 1, File: "\x00bin", HasFilenames: true}
	f := &Function{ID: 9, Name: "f", SystemName: "f", Filename: "f.go", StartLine: 1 << 33}
	g := &Function{ID: 1<<64 - 1, Name: "g\xc0"}
	p.Mapping = []*Mapping{m}
	p.Function = []*Function{f, g}
	l1 := &Location{ID: 5, Mapping: m, Address: 16, Line: []Line{{Function: g, Line: 1, Column: 1}, {Function: f, Line: -2}}}
	l2 := &Location{ID: 1 << 63, Address: 1 << 63}
	l3 := &Location{ID: 6, Mapping: m, IsFolded: true, Line: []Line{{Function: f}}}
	p.Location = []*Location{l1, l2, l3}
	if k > 0 {
		for si, st := range [][]*Location{{l2}, {l1, l2}, {l1, l1, l2}, {}} {
			s := &Sample{Location: st}
			for v := 0; v < k; v++ {
				s.Value = append(s.Value, []int64{-1 << 63, 0, 7}[(si+v)%3])
			}
			if si == 0 {
				s.Label = map[string][]string{"k": {"b", "a", "b"}}
				s.NumLabel = map[string][]int64{"n": {0, -1, 0}, "m": {0}}
				s.NumUnit = map[string][]string{"n": {"x", "", ""}, "m": {"y"}}
			}
			p.Sample = append(p.Sample, s)
		}
	}
	return p
}

func zzbRaw(p *Profile) []byte {
	var b bytes.Buffer
	if err := p.WriteUncompressed(&b); err != nil {
		panic(err)
	}
	return b.Bytes()
}

func zzbGz(p *Profile) []byte {
	var b bytes.Buffer
	if err := p.Write(&b); err != nil {
		panic(err)
	}
	return b.Bytes()
}

const zzbLegacyHeap = "heap profile: 1: 2 [3: 4] @ heapprofile\n1: 2 [3: 4] @ 0x10 0x20\n\nMAPPED_LIBRARIES:\n00400000-00401000 r-xp 00000000 00:00 1 /bin/x\n"

var zzbWant = map[string]string{
	"raw k=0":                 "a9d6e9c44f653b28 fdc53d37d315c9ca",
	"raw k=1":                 "08c2233e21d18cef 36e3304313d5f086",
	"raw k=3":                 "ee03b783e56d4623 858a98ba6bda1c73",
	"gz k=0":                  "a9d6e9c44f653b28 fdc53d37d315c9ca",
	"gz k=1":                  "08c2233e21d18cef 36e3304313d5f086",
	"gz k=3":                  "ee03b783e56d4623 858a98ba6bda1c73",
	"handmade gzip k=3":       "ee03b783e56d4623 858a98ba6bda1c73",
	"empty":                   "ERR: parsing profile: empty input file",
	"gzip of empty":           "ERR: parsing profile: empty input file",
	"one byte 1f":             "ERR: parsing profile: unrecognized profile format",
	"magic only":              "ERR: decompressing profile: unexpected EOF",
	"magic + bad method":      "ERR: decompressing profile: gzip: invalid header",
	"truncated gzip":          "ERR: decompressing profile: unexpected EOF",
	"corrupt gzip checksum":   "ERR: decompressing profile: gzip: invalid checksum",
	"double gzip":             "ERR: parsing profile: unrecognized profile format",
	"concatenated raw":        "ERR: parsing profile: concatenated profiles detected",
	"concatenated gzip":       "ERR: parsing profile: concatenated profiles detected",
	"legacy heap":             "f54f86cf7cebfbb9 66996a49a7a6b897",
	"legacy heap gzip":        "f54f86cf7cebfbb9 66996a49a7a6b897",
	"garbage":                 "ERR: parsing profile: unrecognized profile format",
	"malformed no sampletype": "ERR: malformed profile: missing sample type information",
	"bad string index":        "ERR: parsing profile: unrecognized profile format",
}

func TestZZEquivB_ParseData(t *testing.T) {
	p3 := zzbProfile(3)
	gz3 := zzbGz(p3)
	corrupt := append([]byte{}, gz3...)
	corrupt[len(corrupt)-6] ^= 0xff // CRC32 field
	cases := []struct {
		name string
		in   []byte
	}{
		{"raw k=0", zzbRaw(zzbProfile(0))},
		{"raw k=1", zzbRaw(zzbProfile(1))},
		{"raw k=3", zzbRaw(p3)},
		{"gz k=0", zzbGz(zzbProfile(0))},
		{"gz k=1", zzbGz(zzbProfile(1))},
		{"gz k=3", gz3},
		{"handmade gzip k=3", zzbGzip(zzbRaw(p3))},
		{"empty", nil},
		{"gzip of empty", zzbGzip(nil)},
		{"one byte 1f", []byte{0x1f}},
		{"magic only", []byte{0x1f, 0x8b}},
		{"magic + bad method", []byte{0x1f, 0x8b, 0x07, 0, 0, 0, 0, 0, 0, 0, 0, 0}},
		{"truncated gzip", gz3[:len(gz3)/2]},
		{"corrupt gzip checksum", corrupt},
		{"double gzip", zzbGzip(gz3)},
		{"concatenated raw", append(zzbRaw(p3), zzbRaw(p3)...)},
		{"concatenated gzip", zzbGzip(zzbRaw(p3), zzbRaw(p3))},
		{"legacy heap", []byte(zzbLegacyHeap)},
		{"legacy heap gzip", zzbGzip([]byte(zzbLegacyHeap))},
		{"garbage", []byte("\x00\x01hello this is not a profile")},
		{"malformed no sampletype", []byte{0x12, 0x02, 0x10, 0x01, 0x32, 0x00}},
		{"bad string index", []byte{0x32, 0x00, 0x38, 0x05}},
	}
	print := os.Getenv("ZZ_PRINT") != ""
	for _, c := range cases {
		in := append([]byte{}, c.in...)
		p, err := ParseData(in)
		var got string
		if err != nil {
			got = "ERR: " + err.Error()
			if p != nil {
				t.Errorf("%s: non-nil profile with error", c.name)
			}
		} else {
			// Anything returned must survive write+parse unchanged and
			// re-serialize to identical bytes, compressed or not.
			b1 := zzbRaw(p)
			q, err := ParseData(zzbGz(p))
			if err != nil {
				t.Errorf("%s: reparse: %v", c.name, err)
				continue
			}
			if q.String() != p.String() || !bytes.Equal(zzbRaw(q), b1) {
				t.Errorf("%s: not stable under write+parse", c.name)
			}
			got = zzbHash([]byte(p.String())) + " " + zzbHash(b1)
		}
		if !bytes.Equal(in, c.in) {
			t.Errorf("%s: ParseData modified its input", c.name)
		}
		if print {
			fmt.Printf("\t%q: %q,\n", c.name, got)
			continue
		}
		if got != zzbWant[c.name] {
			t.Errorf("%s: got %q want %q", c.name, got, zzbWant[c.name])
		}
	}
}

// Concurrent serialization of one profile (serialize's locking) must
// give the same bytes from every goroutine.
func TestZZEquivB_ConcurrentWrite(t *testing.T) {
	p := zzbProfile(3)
	want := zzbRaw(p)
	q0, err := ParseData(zzbGz(p))
	if err != nil {
		t.Fatal(err)
	}
	wantParsed := zzbRaw(q0)
	var wg sync.WaitGroup
	errs := make(chan string, 64)
	for i := 0; i < 16; i++ {
		wg.Add(1)
		go func(i int) {
			defer wg.Done()
			for j := 0; j < 20; j++ {
				got, want := []byte(nil), want
				if (i+j)%2 == 0 {
					got = zzbRaw(p)
				} else {
					want = wantParsed
					q, err := ParseData(zzbGz(p))
					if err != nil {
						errs <- err.Error()
						return
					}
					got = zzbRaw(q)
				}
				if !bytes.Equal(got, want) {
					errs <- "bytes differ"
					return
				}
			}
		}(i)
	}
	wg.Wait()
	close(errs)
	for e := range errs {
		t.Error(e)
	}
}
