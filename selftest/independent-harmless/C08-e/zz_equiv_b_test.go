package report

import (
	"bytes"
	"fmt"
	"testing"

	"github.com/google/pprof/profile"
)

// zzEquivBProfile builds a profile whose tags are rich in ties: tag values of
// equal weight, of equal magnitude and opposite sign, a key used both as a
// string label and as a numeric label, multi-valued labels, distinct numeric
// values that format to the same text, and keys that differ only in case or
// are prefixes of each other.
func zzEquivBProfile(scale int64) *profile.Profile {
	m := &profile.Mapping{ID: 1, Start: 0x1000, Limit: 0x9000, File: "/bin/zz"}
	f := &profile.Function{ID: 1, Name: "main", SystemName: "main", Filename: "/src/main.go"}
	l := &profile.Location{ID: 1, Mapping: m, Address: 0x1000, Line: []profile.Line{{Function: f, Line: 1}}}
	p := &profile.Profile{
		SampleType: []*profile.ValueType{{Type: "alloc", Unit: "bytes"}},
		PeriodType: &profile.ValueType{Type: "space", Unit: "bytes"},
		Period:     1,
		Mapping:    []*profile.Mapping{m},
		Function:   []*profile.Function{f},
		Location:   []*profile.Location{l},
	}
	add := func(v int64, lab map[string][]string, num map[string][]int64, unit map[string][]string) {
		p.Sample = append(p.Sample, &profile.Sample{Value: []int64{v * scale}, Location: []*profile.Location{l}, Label: lab, NumLabel: num, NumUnit: unit})
	}
	for i := 0; i < 8; i++ {
		w := int64(100)
		if i%2 == 1 {
			w = -100
		}
		add(w, map[string][]string{"tenant": {fmt.Sprintf("t%d", i)}, "Tenant": {"x", "y"}, "ten": {"same"}},
			map[string][]int64{"bytes": {int64(1024 * (i%3 + 1))}, "request": {int64(i % 2)}},
			map[string][]string{"bytes": {"bytes"}})
	}
	add(100, map[string][]string{"tenant": {"t0"}, "bytes": {"2kB", "lots"}}, map[string][]int64{"bytes": {2048, 2049}}, nil)
	add(-100, map[string][]string{"tenant": {"t1"}, "zone": {""}}, map[string][]int64{"latency": {1500, 1500}}, map[string][]string{"latency": {"ms", "ms"}})
	add(300, map[string][]string{"pprof::base": {"true"}, "zone": {"a\tb"}}, nil, nil)
	add(50, nil, map[string][]int64{"alignment": {8, 16, 8}}, nil)
	add(50, nil, nil, nil)
	return p
}

func zzEquivBTags(scale int64, outputUnit string) string {
	p := zzEquivBProfile(scale)
	units, _ := p.NumLabelUnits()
	rpt := NewDefault(p, Options{OutputFormat: Tags, OutputUnit: outputUnit, NumLabelUnits: units})
	var buf bytes.Buffer
	if err := Generate(&buf, rpt, nil); err != nil {
		return "error: " + err.Error()
	}
	return buf.String()
}

func TestZZEquivB(t *testing.T) {
	for _, tc := range []struct {
		name       string
		scale      int64
		outputUnit string
		want       string
	}{
		{"minimum", 1, "minimum", zzEquivBWantMinimum},
		{"kB", 7, "kB", zzEquivBWantKB},
		{"zero-total", 0, "minimum", zzEquivBWantZero},
	} {
		for run := 0; run < 40; run++ {
			if got := zzEquivBTags(tc.scale, tc.outputUnit); got != tc.want {
				t.Fatalf("%s run %d: got\n%s\nwant\n%s\ngot quoted: %q", tc.name, run, got, tc.want, got)
			}
		}
	}
}

// Expected outputs, computed on the unchanged tree (identical over 40 runs each).
const (
	zzEquivBWantMinimum = " Tenant: Total 0 of 300B (    0%)\n         0 (    0%): x\n         0 (    0%): y\n\n alignment: Total 150B of 300B (50.00%)\n            100B (33.33%): 8B\n             50B (16.67%): 16B\n\n bytes: Total 400B of 300B (133.33%)\n        200B (66.67%): 2kB\n        100B (33.33%): 1kB\n        100B (33.33%): lots\n           0 (    0%): 3kB\n\n latency: Total -200B of 300B (66.67%)\n          -200B (66.67%): 1.50s\n\n pprof::base: Total 300B of 300B (  100%)\n              300B (  100%): true\n\n request: Total 0 of 300B (    0%)\n           400B (133.33%): 0\n          -400B (133.33%): 1B\n\n ten: Total 0 of 300B (    0%)\n      0 (    0%): same\n\n tenant: Total 0 of 300B (    0%)\n          200B (66.67%): t0\n         -200B (66.67%): t1\n          100B (33.33%): t2\n         -100B (33.33%): t3\n          100B (33.33%): t4\n         -100B (33.33%): t5\n          100B (33.33%): t6\n         -100B (33.33%): t7\n\n zone: Total 200B of 300B (66.67%)\n        300B (  100%):  ab\n       -100B (33.33%): \n\n"
	zzEquivBWantKB      = " Tenant: Total 0 of 2.05kB (    0%)\n         0 (    0%): x\n         0 (    0%): y\n\n alignment: Total 1.03kB of 2.05kB (50.00%)\n            0.68kB (33.33%): 0.01kB\n            0.34kB (16.67%): 0.02kB\n\n bytes: Total 2.73kB of 2.05kB (133.33%)\n        1.37kB (66.67%): 2kB\n        0.68kB (33.33%): 1kB\n        0.68kB (33.33%): lots\n             0 (    0%): 3kB\n\n latency: Total -1.37kB of 2.05kB (66.67%)\n          -1.37kB (66.67%): 1.50s\n\n pprof::base: Total 2.05kB of 2.05kB (  100%)\n              2.05kB (  100%): true\n\n request: Total 0 of 2.05kB (    0%)\n          0 (    0%): 0\n\n ten: Total 0 of 2.05kB (    0%)\n      0 (    0%): same\n\n tenant: Total 0 of 2.05kB (    0%)\n          1.37kB (66.67%): t0\n         -1.37kB (66.67%): t1\n          0.68kB (33.33%): t2\n         -0.68kB (33.33%): t3\n          0.68kB (33.33%): t4\n         -0.68kB (33.33%): t5\n          0.68kB (33.33%): t6\n         -0.68kB (33.33%): t7\n\n zone: Total 1.37kB of 2.05kB (66.67%)\n        2.05kB (  100%):  ab\n       -0.68kB (33.33%): \n\n"
	zzEquivBWantZero    = " Tenant: Total 0 of 0\n         0: x\n         0: y\n\n alignment: Total 0 of 0\n            0: 16B\n            0: 8B\n\n bytes: Total 0 of 0\n        0: 1kB\n        0: 2kB\n        0: 3kB\n        0: lots\n\n latency: Total 0 of 0\n          0: 1.50s\n\n pprof::base: Total 0 of 0\n              0: true\n\n request: Total 0 of 0\n          0: 0\n          0: 1B\n\n ten: Total 0 of 0\n      0: same\n\n tenant: Total 0 of 0\n         0: t0\n         0: t1\n         0: t2\n         0: t3\n         0: t4\n         0: t5\n         0: t6\n         0: t7\n\n zone: Total 0 of 0\n       0: \n       0:  ab\n\n"
)
