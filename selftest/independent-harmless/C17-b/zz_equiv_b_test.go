package report

import (
	"encoding/json"
	"reflect"
	"testing"

	"github.com/google/pprof/profile"
)

// zzEquivProfiles builds a handful of profiles that exercise recursion,
// inlining, frames without a function, empty stacks, equal function names in
// different files, line/column decorated names, negative values and
// file-granularity (nameless) functions.
func zzEquivProfiles() map[string]*profile.Profile {
	m := &profile.Mapping{ID: 1, Start: 0x1000, Limit: 0x9000, File: "bin"}
	fn := func(id uint64, name, file string) *profile.Function {
		return &profile.Function{ID: id, Name: name, SystemName: name, Filename: file}
	}
	fMain := fn(1, "main.main", "/src/app/main.go")
	fFoo := fn(2, "pkg/a.Foo", "/src/a/foo.go")
	fFoo2 := fn(3, "pkg/a.Foo", "/src/b/foo.go") // same name, different file
	fBar := fn(4, "pkg/b.(*T).Bar", "/src/b/bar.go")
	fTee := fn(5, "std::vector<int>::push_back(int const&)", "/usr/include/vector")
	fFile1 := fn(6, "", "dir/one/file1.c") // file granularity
	fFile2 := fn(7, "", "dir/two/file2.c")
	funcs := []*profile.Function{fMain, fFoo, fFoo2, fBar, fTee, fFile1, fFile2}

	ln := func(f *profile.Function, line, col int64) profile.Line {
		return profile.Line{Function: f, Line: line, Column: col}
	}
	loc := func(id uint64, lines ...profile.Line) *profile.Location {
		return &profile.Location{ID: id, Mapping: m, Address: 0x1000 + id*16, Line: lines}
	}
	lMain := loc(1, ln(fMain, 0, 0))
	lFoo := loc(2, ln(fFoo, 0, 0))
	lFoo2 := loc(3, ln(fFoo2, 0, 0))
	lBar := loc(4, ln(fBar, 0, 0))
	lTee := loc(5, ln(fTee, 0, 0))
	// Inlined: Line[0] is the innermost (callee), last is the outermost caller.
	lInl := loc(6, ln(fTee, 0, 0), ln(fBar, 0, 0), ln(fFoo, 0, 0))
	lInlRec := loc(7, ln(fFoo, 0, 0), ln(fFoo, 0, 0)) // Foo inlined into Foo
	lNoFn := loc(8, profile.Line{Line: 0})            // line without function
	lNoFn2 := loc(9, profile.Line{Line: 7})           // another, with a line number
	lNoLines := loc(10)                               // unsymbolized location
	lMainL := loc(11, ln(fMain, 12, 0))               // with line
	lMainLC := loc(12, ln(fMain, 12, 5))              // with line and column
	lMainC := loc(13, ln(fMain, 0, 9))                // column only
	lFooL := loc(14, ln(fFoo, 33, 0))
	lFoo2L := loc(15, ln(fFoo2, 33, 0)) // same decorated name, different file
	lFooNeg := loc(16, ln(fFoo, -4, 0)) // odd but legal: negative line
	lFile1 := loc(17, ln(fFile1, 0, 0))
	lFile2 := loc(18, ln(fFile2, 0, 0))
	lFile1L := loc(19, ln(fFile1, 3, 1))
	lInlMix := loc(20, ln(fBar, 8, 2), ln(fMain, 12, 5))
	locs := []*profile.Location{lMain, lFoo, lFoo2, lBar, lTee, lInl, lInlRec, lNoFn, lNoFn2,
		lNoLines, lMainL, lMainLC, lMainC, lFooL, lFoo2L, lFooNeg, lFile1, lFile2, lFile1L, lInlMix}

	smp := func(v int64, ls ...*profile.Location) *profile.Sample {
		return &profile.Sample{Value: []int64{v}, Location: ls}
	}
	mk := func(samples ...*profile.Sample) *profile.Profile {
		return &profile.Profile{
			SampleType: []*profile.ValueType{{Type: "samples", Unit: "count"}},
			Sample:     samples,
			Location:   locs,
			Function:   funcs,
			Mapping:    []*profile.Mapping{m},
		}
	}

	return map[string]*profile.Profile{
		"empty": mk(),
		"simple": mk(
			smp(100, lBar, lFoo, lMain),
			smp(200, lTee, lFoo, lMain),
			smp(7, lMain),
		),
		"recursion": mk(
			smp(100, lBar, lFoo, lFoo, lFoo, lMain),
			smp(200, lFoo, lBar, lFoo, lBar, lFoo, lMain),
			smp(30, lMain, lFoo, lMain, lMain),
			smp(4, lFoo, lFoo),
		),
		"inlined": mk(
			smp(10, lInl, lMain),
			smp(20, lTee, lInl, lInl, lMain),
			smp(40, lInlRec, lFoo, lMain),
			smp(80, lBar, lInlRec),
			smp(160, lInlMix, lInl),
		),
		"nofunc-and-empty": mk(
			smp(5),
			smp(11, lNoFn, lMain),
			smp(13, lNoFn, lNoFn2, lMain),
			smp(17, lNoLines, lFoo, lNoLines, lMain),
			smp(19, lNoLines),
			smp(-23),
		),
		"same-names": mk(
			smp(1, lFoo, lMain),
			smp(2, lFoo2, lMain),
			smp(4, lFoo2, lFoo, lFoo2, lMain),
			smp(8, lFooL, lFoo2L, lFooNeg, lMain),
			smp(16, lFoo2L, lFooL),
		),
		"lines-columns": mk(
			smp(3, lMainL, lMainLC, lMainC, lMain),
			smp(5, lMainLC, lMainLC, lMainL),
			smp(7, lInlMix, lMainLC),
			smp(9, lFooNeg, lFooL),
		),
		"negative-values": mk(
			smp(-100, lBar, lFoo, lMain),
			smp(40, lBar, lFoo, lMain),
			smp(-1, lTee, lBar, lTee, lMain),
			smp(0, lFoo),
		),
		"files": mk(
			smp(100, lFile1, lFile2),
			smp(200, lFile2, lFile1, lFile2, lFile1L),
			smp(300, lFile1L, lFile1L),
		),
	}
}

func zzEquivJSON(t *testing.T, prof *profile.Profile) string {
	t.Helper()
	rpt := NewDefault(prof, Options{OutputFormat: Tree, CallTree: true})
	b, err := json.Marshal(rpt.Stacks())
	if err != nil {
		t.Fatal(err)
	}
	return string(b)
}

// zzEquivGolden holds the JSON encoding of Report.Stacks() for each profile of
// zzEquivProfiles, computed on the unchanged tree.
var zzEquivGolden = map[string]string{
	"empty":            "{\"Total\":0,\"Scale\":1,\"Type\":\"samples\",\"Unit\":\"\",\"Stacks\":[],\"Sources\":[{\"FullName\":\"root\",\"FileName\":\"\",\"UniqueName\":\"\",\"Inlined\":false,\"Display\":[\"root\"],\"Places\":[],\"Self\":0,\"Color\":0}]}",
	"files":            "{\"Total\":600,\"Scale\":1,\"Type\":\"samples\",\"Unit\":\"\",\"Stacks\":[{\"Value\":100,\"Sources\":[0,1,2]},{\"Value\":200,\"Sources\":[0,3,1,2,1]},{\"Value\":300,\"Sources\":[0,3,3]}],\"Sources\":[{\"FullName\":\"root\",\"FileName\":\"\",\"UniqueName\":\"\",\"Inlined\":false,\"Display\":[\"root\"],\"Places\":[{\"Stack\":0,\"Pos\":0},{\"Stack\":1,\"Pos\":0},{\"Stack\":2,\"Pos\":0}],\"Self\":0,\"Color\":0},{\"FullName\":\"dir/two/file2.c\",\"FileName\":\"dir/two/file2.c\",\"UniqueName\":\"dir/two/file2.c\",\"Inlined\":false,\"Display\":[\"dir/two/file2.c\",\"two/file2.c\",\"file2.c\"],\"Places\":[{\"Stack\":0,\"Pos\":1},{\"Stack\":1,\"Pos\":2}],\"Self\":200,\"Color\":475759},{\"FullName\":\"dir/one/file1.c\",\"FileName\":\"dir/one/file1.c\",\"UniqueName\":\"dir/one/file1.c\",\"Inlined\":false,\"Display\":[\"dir/one/file1.c\",\"one/file1.c\",\"file1.c\"],\"Places\":[{\"Stack\":0,\"Pos\":2},{\"Stack\":1,\"Pos\":3}],\"Self\":100,\"Color\":255258},{\"FullName\":\"dir/one/file1.c:3:1\",\"FileName\":\"dir/one/file1.c\",\"UniqueName\":\"dir/one/file1.c:3:1\",\"Inlined\":false,\"Display\":[\"dir/one/file1.c:3:1\",\"one/file1.c:3:1\",\"file1.c:3:1\"],\"Places\":[{\"Stack\":1,\"Pos\":1},{\"Stack\":2,\"Pos\":1}],\"Self\":300,\"Color\":255258}]}",
	"inlined":          "{\"Total\":310,\"Scale\":1,\"Type\":\"samples\",\"Unit\":\"\",\"Stacks\":[{\"Value\":10,\"Sources\":[0,1,2,3,4]},{\"Value\":20,\"Sources\":[0,1,2,3,4,2,3,4,5]},{\"Value\":40,\"Sources\":[0,1,2,2,6]},{\"Value\":80,\"Sources\":[0,2,6,7]},{\"Value\":160,\"Sources\":[0,2,3,4,8,9]}],\"Sources\":[{\"FullName\":\"root\",\"FileName\":\"\",\"UniqueName\":\"\",\"Inlined\":false,\"Display\":[\"root\"],\"Places\":[{\"Stack\":0,\"Pos\":0},{\"Stack\":1,\"Pos\":0},{\"Stack\":2,\"Pos\":0},{\"Stack\":3,\"Pos\":0},{\"Stack\":4,\"Pos\":0}],\"Self\":0,\"Color\":0},{\"FullName\":\"main.main\",\"FileName\":\"/src/app/main.go\",\"UniqueName\":\"main.main\",\"Inlined\":false,\"Display\":[\"main.main\",\"main\"],\"Places\":[{\"Stack\":0,\"Pos\":1},{\"Stack\":1,\"Pos\":1},{\"Stack\":2,\"Pos\":1}],\"Self\":0,\"Color\":28173},{\"FullName\":\"pkg/a.Foo\",\"FileName\":\"/src/a/foo.go\",\"UniqueName\":\"pkg/a.Foo\",\"Inlined\":false,\"Display\":[\"a.Foo\",\"Foo\"],\"Places\":[{\"Stack\":0,\"Pos\":2},{\"Stack\":1,\"Pos\":2},{\"Stack\":2,\"Pos\":2},{\"Stack\":3,\"Pos\":1},{\"Stack\":4,\"Pos\":1}],\"Self\":0,\"Color\":95864},{\"FullName\":\"pkg/b.(*T).Bar\",\"FileName\":\"/src/b/bar.go\",\"UniqueName\":\"pkg/b.(*T).Bar\",\"Inlined\":true,\"Display\":[\"b.(*T).Bar\",\"(*T).Bar\",\"Bar\"],\"Places\":[{\"Stack\":0,\"Pos\":3},{\"Stack\":1,\"Pos\":3},{\"Stack\":4,\"Pos\":2}],\"Self\":0,\"Color\":1029787},{\"FullName\":\"std::vector\\u003cint\\u003e::push_back(int const\\u0026)\",\"FileName\":\"/usr/include/vector\",\"UniqueName\":\"std::vector\\u003cint\\u003e::push_back(int const\\u0026)\",\"Inlined\":true,\"Display\":[\"std::vector\\u003cint\\u003e::push_back(int const\\u0026)\",\"vector\\u003cint\\u003e::push_back(int const\\u0026)\",\"push_back(int const\\u0026)\"],\"Places\":[{\"Stack\":0,\"Pos\":4},{\"Stack\":1,\"Pos\":4},{\"Stack\":4,\"Pos\":3}],\"Self\":10,\"Color\":652711},{\"FullName\":\"std::vector\\u003cint\\u003e::push_back(int const\\u0026)\",\"FileName\":\"/usr/include/vector\",\"UniqueName\":\"std::vector\\u003cint\\u003e::push_back(int const\\u0026)#5\",\"Inlined\":false,\"Display\":[\"std::vector\\u003cint\\u003e::push_back(int const\\u0026)\",\"vector\\u003cint\\u003e::push_back(int const\\u0026)\",\"push_back(int const\\u0026)\"],\"Places\":[{\"Stack\":1,\"Pos\":8}],\"Self\":20,\"Color\":652711},{\"FullName\":\"pkg/a.Foo\",\"FileName\":\"/src/a/foo.go\",\"UniqueName\":\"pkg/a.Foo#2\",\"Inlined\":true,\"Display\":[\"a.Foo\",\"Foo\"],\"Places\":[{\"Stack\":2,\"Pos\":4},{\"Stack\":3,\"Pos\":2}],\"Self\":40,\"Color\":95864},{\"FullName\":\"pkg/b.(*T).Bar\",\"FileName\":\"/src/b/bar.go\",\"UniqueName\":\"pkg/b.(*T).Bar#4\",\"Inlined\":false,\"Display\":[\"b.(*T).Bar\",\"(*T).Bar\",\"Bar\"],\"Places\":[{\"Stack\":3,\"Pos\":3}],\"Self\":80,\"Color\":1029787},{\"FullName\":\"main.main:12:5\",\"FileName\":\"/src/app/main.go\",\"UniqueName\":\"main.main:12:5\",\"Inlined\":false,\"Display\":[\"main.main:12:5\",\"main:12:5\"],\"Places\":[{\"Stack\":4,\"Pos\":4}],\"Self\":0,\"Color\":28173},{\"FullName\":\"pkg/b.(*T).Bar:8:2\",\"FileName\":\"/src/b/bar.go\",\"UniqueName\":\"pkg/b.(*T).Bar:8:2\",\"Inlined\":true,\"Display\":[\"b.(*T).Bar:8:2\",\"(*T).Bar:8:2\",\"Bar:8:2\"],\"Places\":[{\"Stack\":4,\"Pos\":5}],\"Self\":160,\"Color\":1029787}]}",
	"lines-columns":    "{\"Total\":24,\"Scale\":1,\"Type\":\"samples\",\"Unit\":\"\",\"Stacks\":[{\"Value\":3,\"Sources\":[0,1,2,3,4]},{\"Value\":5,\"Sources\":[0,4,3,3]},{\"Value\":7,\"Sources\":[0,3,3,5]},{\"Value\":9,\"Sources\":[0,6,7]}],\"Sources\":[{\"FullName\":\"root\",\"FileName\":\"\",\"UniqueName\":\"\",\"Inlined\":false,\"Display\":[\"root\"],\"Places\":[{\"Stack\":0,\"Pos\":0},{\"Stack\":1,\"Pos\":0},{\"Stack\":2,\"Pos\":0},{\"Stack\":3,\"Pos\":0}],\"Self\":0,\"Color\":0},{\"FullName\":\"main.main\",\"FileName\":\"/src/app/main.go\",\"UniqueName\":\"main.main\",\"Inlined\":false,\"Display\":[\"main.main\",\"main\"],\"Places\":[{\"Stack\":0,\"Pos\":1}],\"Self\":0,\"Color\":28173},{\"FullName\":\"main.main:0:9\",\"FileName\":\"/src/app/main.go\",\"UniqueName\":\"main.main:0:9\",\"Inlined\":false,\"Display\":[\"main.main:0:9\",\"main:0:9\"],\"Places\":[{\"Stack\":0,\"Pos\":2}],\"Self\":0,\"Color\":28173},{\"FullName\":\"main.main:12:5\",\"FileName\":\"/src/app/main.go\",\"UniqueName\":\"main.main:12:5\",\"Inlined\":false,\"Display\":[\"main.main:12:5\",\"main:12:5\"],\"Places\":[{\"Stack\":0,\"Pos\":3},{\"Stack\":1,\"Pos\":2},{\"Stack\":2,\"Pos\":1}],\"Self\":5,\"Color\":28173},{\"FullName\":\"main.main:12\",\"FileName\":\"/src/app/main.go\",\"UniqueName\":\"main.main:12\",\"Inlined\":false,\"Display\":[\"main.main:12\",\"main:12\"],\"Places\":[{\"Stack\":0,\"Pos\":4},{\"Stack\":1,\"Pos\":1}],\"Self\":3,\"Color\":28173},{\"FullName\":\"pkg/b.(*T).Bar:8:2\",\"FileName\":\"/src/b/bar.go\",\"UniqueName\":\"pkg/b.(*T).Bar:8:2\",\"Inlined\":true,\"Display\":[\"b.(*T).Bar:8:2\",\"(*T).Bar:8:2\",\"Bar:8:2\"],\"Places\":[{\"Stack\":2,\"Pos\":3}],\"Self\":7,\"Color\":1029787},{\"FullName\":\"pkg/a.Foo:33\",\"FileName\":\"/src/a/foo.go\",\"UniqueName\":\"pkg/a.Foo:33\",\"Inlined\":false,\"Display\":[\"a.Foo:33\",\"Foo:33\"],\"Places\":[{\"Stack\":3,\"Pos\":1}],\"Self\":0,\"Color\":95864},{\"FullName\":\"pkg/a.Foo:-4\",\"FileName\":\"/src/a/foo.go\",\"UniqueName\":\"pkg/a.Foo:-4\",\"Inlined\":false,\"Display\":[\"a.Foo:-4\",\"Foo:-4\"],\"Places\":[{\"Stack\":3,\"Pos\":2}],\"Self\":9,\"Color\":95864}]}",
	"negative-values":  "{\"Total\":141,\"Scale\":1,\"Type\":\"samples\",\"Unit\":\"\",\"Stacks\":[{\"Value\":-100,\"Sources\":[0,1,2,3]},{\"Value\":40,\"Sources\":[0,1,2,3]},{\"Value\":-1,\"Sources\":[0,1,4,3,4]},{\"Value\":0,\"Sources\":[0,2]}],\"Sources\":[{\"FullName\":\"root\",\"FileName\":\"\",\"UniqueName\":\"\",\"Inlined\":false,\"Display\":[\"root\"],\"Places\":[{\"Stack\":0,\"Pos\":0},{\"Stack\":1,\"Pos\":0},{\"Stack\":2,\"Pos\":0},{\"Stack\":3,\"Pos\":0}],\"Self\":0,\"Color\":0},{\"FullName\":\"main.main\",\"FileName\":\"/src/app/main.go\",\"UniqueName\":\"main.main\",\"Inlined\":false,\"Display\":[\"main.main\",\"main\"],\"Places\":[{\"Stack\":0,\"Pos\":1},{\"Stack\":1,\"Pos\":1},{\"Stack\":2,\"Pos\":1}],\"Self\":0,\"Color\":28173},{\"FullName\":\"pkg/a.Foo\",\"FileName\":\"/src/a/foo.go\",\"UniqueName\":\"pkg/a.Foo\",\"Inlined\":false,\"Display\":[\"a.Foo\",\"Foo\"],\"Places\":[{\"Stack\":0,\"Pos\":2},{\"Stack\":1,\"Pos\":2},{\"Stack\":3,\"Pos\":1}],\"Self\":0,\"Color\":95864},{\"FullName\":\"pkg/b.(*T).Bar\",\"FileName\":\"/src/b/bar.go\",\"UniqueName\":\"pkg/b.(*T).Bar\",\"Inlined\":false,\"Display\":[\"b.(*T).Bar\",\"(*T).Bar\",\"Bar\"],\"Places\":[{\"Stack\":0,\"Pos\":3},{\"Stack\":1,\"Pos\":3},{\"Stack\":2,\"Pos\":3}],\"Self\":-60,\"Color\":1029787},{\"FullName\":\"std::vector\\u003cint\\u003e::push_back(int const\\u0026)\",\"FileName\":\"/usr/include/vector\",\"UniqueName\":\"std::vector\\u003cint\\u003e::push_back(int const\\u0026)\",\"Inlined\":false,\"Display\":[\"std::vector\\u003cint\\u003e::push_back(int const\\u0026)\",\"vector\\u003cint\\u003e::push_back(int const\\u0026)\",\"push_back(int const\\u0026)\"],\"Places\":[{\"Stack\":2,\"Pos\":2}],\"Self\":-1,\"Color\":652711}]}",
	"nofunc-and-empty": "{\"Total\":88,\"Scale\":1,\"Type\":\"samples\",\"Unit\":\"\",\"Stacks\":[{\"Value\":5,\"Sources\":[0]},{\"Value\":11,\"Sources\":[0,1,2]},{\"Value\":13,\"Sources\":[0,1,3,4]},{\"Value\":17,\"Sources\":[0,1,5]},{\"Value\":19,\"Sources\":[0]},{\"Value\":-23,\"Sources\":[0]}],\"Sources\":[{\"FullName\":\"root\",\"FileName\":\"\",\"UniqueName\":\"\",\"Inlined\":false,\"Display\":[\"root\"],\"Places\":[{\"Stack\":0,\"Pos\":0},{\"Stack\":1,\"Pos\":0},{\"Stack\":2,\"Pos\":0},{\"Stack\":3,\"Pos\":0},{\"Stack\":4,\"Pos\":0},{\"Stack\":5,\"Pos\":0}],\"Self\":1,\"Color\":0},{\"FullName\":\"main.main\",\"FileName\":\"/src/app/main.go\",\"UniqueName\":\"main.main\",\"Inlined\":false,\"Display\":[\"main.main\",\"main\"],\"Places\":[{\"Stack\":1,\"Pos\":1},{\"Stack\":2,\"Pos\":1},{\"Stack\":3,\"Pos\":1}],\"Self\":0,\"Color\":28173},{\"FullName\":\"?1?\",\"FileName\":\"\",\"UniqueName\":\"?1?\",\"Inlined\":false,\"Display\":[\"?1?\"],\"Places\":[{\"Stack\":1,\"Pos\":2}],\"Self\":11,\"Color\":307427},{\"FullName\":\"?2?:7\",\"FileName\":\"\",\"UniqueName\":\"?2?:7\",\"Inlined\":false,\"Display\":[\"?2?:7\"],\"Places\":[{\"Stack\":2,\"Pos\":2}],\"Self\":0,\"Color\":307427},{\"FullName\":\"?3?\",\"FileName\":\"\",\"UniqueName\":\"?3?\",\"Inlined\":false,\"Display\":[\"?3?\"],\"Places\":[{\"Stack\":2,\"Pos\":3}],\"Self\":13,\"Color\":307427},{\"FullName\":\"pkg/a.Foo\",\"FileName\":\"/src/a/foo.go\",\"UniqueName\":\"pkg/a.Foo\",\"Inlined\":false,\"Display\":[\"a.Foo\",\"Foo\"],\"Places\":[{\"Stack\":3,\"Pos\":2}],\"Self\":17,\"Color\":95864}]}",
	"recursion":        "{\"Total\":334,\"Scale\":1,\"Type\":\"samples\",\"Unit\":\"\",\"Stacks\":[{\"Value\":100,\"Sources\":[0,1,2,2,2,3]},{\"Value\":200,\"Sources\":[0,1,2,3,2,3,2]},{\"Value\":30,\"Sources\":[0,1,1,2,1]},{\"Value\":4,\"Sources\":[0,2,2]}],\"Sources\":[{\"FullName\":\"root\",\"FileName\":\"\",\"UniqueName\":\"\",\"Inlined\":false,\"Display\":[\"root\"],\"Places\":[{\"Stack\":0,\"Pos\":0},{\"Stack\":1,\"Pos\":0},{\"Stack\":2,\"Pos\":0},{\"Stack\":3,\"Pos\":0}],\"Self\":0,\"Color\":0},{\"FullName\":\"main.main\",\"FileName\":\"/src/app/main.go\",\"UniqueName\":\"main.main\",\"Inlined\":false,\"Display\":[\"main.main\",\"main\"],\"Places\":[{\"Stack\":0,\"Pos\":1},{\"Stack\":1,\"Pos\":1},{\"Stack\":2,\"Pos\":1}],\"Self\":30,\"Color\":28173},{\"FullName\":\"pkg/a.Foo\",\"FileName\":\"/src/a/foo.go\",\"UniqueName\":\"pkg/a.Foo\",\"Inlined\":false,\"Display\":[\"a.Foo\",\"Foo\"],\"Places\":[{\"Stack\":0,\"Pos\":2},{\"Stack\":1,\"Pos\":2},{\"Stack\":2,\"Pos\":3},{\"Stack\":3,\"Pos\":1}],\"Self\":204,\"Color\":95864},{\"FullName\":\"pkg/b.(*T).Bar\",\"FileName\":\"/src/b/bar.go\",\"UniqueName\":\"pkg/b.(*T).Bar\",\"Inlined\":false,\"Display\":[\"b.(*T).Bar\",\"(*T).Bar\",\"Bar\"],\"Places\":[{\"Stack\":0,\"Pos\":5},{\"Stack\":1,\"Pos\":3}],\"Self\":100,\"Color\":1029787}]}",
	"same-names":       "{\"Total\":31,\"Scale\":1,\"Type\":\"samples\",\"Unit\":\"\",\"Stacks\":[{\"Value\":1,\"Sources\":[0,1,2]},{\"Value\":2,\"Sources\":[0,1,3]},{\"Value\":4,\"Sources\":[0,1,3,2,3]},{\"Value\":8,\"Sources\":[0,1,4,5,6]},{\"Value\":16,\"Sources\":[0,6,5]}],\"Sources\":[{\"FullName\":\"root\",\"FileName\":\"\",\"UniqueName\":\"\",\"Inlined\":false,\"Display\":[\"root\"],\"Places\":[{\"Stack\":0,\"Pos\":0},{\"Stack\":1,\"Pos\":0},{\"Stack\":2,\"Pos\":0},{\"Stack\":3,\"Pos\":0},{\"Stack\":4,\"Pos\":0}],\"Self\":0,\"Color\":0},{\"FullName\":\"main.main\",\"FileName\":\"/src/app/main.go\",\"UniqueName\":\"main.main\",\"Inlined\":false,\"Display\":[\"main.main\",\"main\"],\"Places\":[{\"Stack\":0,\"Pos\":1},{\"Stack\":1,\"Pos\":1},{\"Stack\":2,\"Pos\":1},{\"Stack\":3,\"Pos\":1}],\"Self\":0,\"Color\":28173},{\"FullName\":\"pkg/a.Foo\",\"FileName\":\"/src/a/foo.go\",\"UniqueName\":\"pkg/a.Foo\",\"Inlined\":false,\"Display\":[\"a.Foo\",\"Foo\"],\"Places\":[{\"Stack\":0,\"Pos\":2},{\"Stack\":2,\"Pos\":3}],\"Self\":1,\"Color\":95864},{\"FullName\":\"pkg/a.Foo\",\"FileName\":\"/src/b/foo.go\",\"UniqueName\":\"pkg/a.Foo#3\",\"Inlined\":false,\"Display\":[\"a.Foo\",\"Foo\"],\"Places\":[{\"Stack\":1,\"Pos\":2},{\"Stack\":2,\"Pos\":2}],\"Self\":6,\"Color\":95864},{\"FullName\":\"pkg/a.Foo:-4\",\"FileName\":\"/src/a/foo.go\",\"UniqueName\":\"pkg/a.Foo:-4\",\"Inlined\":false,\"Display\":[\"a.Foo:-4\",\"Foo:-4\"],\"Places\":[{\"Stack\":3,\"Pos\":2}],\"Self\":0,\"Color\":95864},{\"FullName\":\"pkg/a.Foo:33\",\"FileName\":\"/src/b/foo.go\",\"UniqueName\":\"pkg/a.Foo:33\",\"Inlined\":false,\"Display\":[\"a.Foo:33\",\"Foo:33\"],\"Places\":[{\"Stack\":3,\"Pos\":3},{\"Stack\":4,\"Pos\":2}],\"Self\":16,\"Color\":95864},{\"FullName\":\"pkg/a.Foo:33\",\"FileName\":\"/src/a/foo.go\",\"UniqueName\":\"pkg/a.Foo:33#2\",\"Inlined\":false,\"Display\":[\"a.Foo:33\",\"Foo:33\"],\"Places\":[{\"Stack\":3,\"Pos\":4},{\"Stack\":4,\"Pos\":1}],\"Self\":8,\"Color\":95864}]}",
	"simple":           "{\"Total\":307,\"Scale\":1,\"Type\":\"samples\",\"Unit\":\"\",\"Stacks\":[{\"Value\":100,\"Sources\":[0,1,2,3]},{\"Value\":200,\"Sources\":[0,1,2,4]},{\"Value\":7,\"Sources\":[0,1]}],\"Sources\":[{\"FullName\":\"root\",\"FileName\":\"\",\"UniqueName\":\"\",\"Inlined\":false,\"Display\":[\"root\"],\"Places\":[{\"Stack\":0,\"Pos\":0},{\"Stack\":1,\"Pos\":0},{\"Stack\":2,\"Pos\":0}],\"Self\":0,\"Color\":0},{\"FullName\":\"main.main\",\"FileName\":\"/src/app/main.go\",\"UniqueName\":\"main.main\",\"Inlined\":false,\"Display\":[\"main.main\",\"main\"],\"Places\":[{\"Stack\":0,\"Pos\":1},{\"Stack\":1,\"Pos\":1},{\"Stack\":2,\"Pos\":1}],\"Self\":7,\"Color\":28173},{\"FullName\":\"pkg/a.Foo\",\"FileName\":\"/src/a/foo.go\",\"UniqueName\":\"pkg/a.Foo\",\"Inlined\":false,\"Display\":[\"a.Foo\",\"Foo\"],\"Places\":[{\"Stack\":0,\"Pos\":2},{\"Stack\":1,\"Pos\":2}],\"Self\":0,\"Color\":95864},{\"FullName\":\"pkg/b.(*T).Bar\",\"FileName\":\"/src/b/bar.go\",\"UniqueName\":\"pkg/b.(*T).Bar\",\"Inlined\":false,\"Display\":[\"b.(*T).Bar\",\"(*T).Bar\",\"Bar\"],\"Places\":[{\"Stack\":0,\"Pos\":3}],\"Self\":100,\"Color\":1029787},{\"FullName\":\"std::vector\\u003cint\\u003e::push_back(int const\\u0026)\",\"FileName\":\"/usr/include/vector\",\"UniqueName\":\"std::vector\\u003cint\\u003e::push_back(int const\\u0026)\",\"Inlined\":false,\"Display\":[\"std::vector\\u003cint\\u003e::push_back(int const\\u0026)\",\"vector\\u003cint\\u003e::push_back(int const\\u0026)\",\"push_back(int const\\u0026)\"],\"Places\":[{\"Stack\":1,\"Pos\":3}],\"Self\":200,\"Color\":652711}]}",
}

// TestZZEquivB checks that Stacks() output is byte-identical (as JSON) to the
// output of the unchanged tree, and re-checks the cross-referential invariants.
func TestZZEquivB(t *testing.T) {
	profs := zzEquivProfiles()
	if len(profs) != len(zzEquivGolden) {
		t.Fatalf("have %d profiles, %d goldens", len(profs), len(zzEquivGolden))
	}
	for name, p := range profs {
		got := zzEquivJSON(t, p)
		if want := zzEquivGolden[name]; got != want {
			t.Errorf("%s: stacks JSON differs\n got: %s\nwant: %s", name, got, want)
		}

		// Independent invariant check on the decoded data.
		var s StackSet
		if err := json.Unmarshal([]byte(got), &s); err != nil {
			t.Fatalf("%s: %v", name, err)
		}
		if s.Stacks == nil || s.Sources == nil {
			t.Errorf("%s: nil top-level slice", name)
		}
		var total int64
		self := make([]int64, len(s.Sources))
		places := make([][]StackSlot, len(s.Sources))
		for i, st := range s.Stacks {
			total += st.Value
			if len(st.Sources) == 0 || st.Sources[0] != 0 {
				t.Errorf("%s: stack %d not rooted", name, i)
				continue
			}
			seen := map[int]bool{}
			for j, src := range st.Sources {
				if src < 0 || src >= len(s.Sources) {
					t.Fatalf("%s: stack %d pos %d out of range", name, i, j)
				}
				if !seen[src] {
					seen[src] = true
					places[src] = append(places[src], StackSlot{i, j})
				}
			}
			self[st.Sources[len(st.Sources)-1]] += st.Value
		}
		// (s.Total itself is pinned by the golden; here stack values are
		// checked against the signed sum of the sample values.)
		var want int64
		for _, sm := range p.Sample {
			want += sm.Value[0]
		}
		if total != want || len(s.Stacks) != len(p.Sample) {
			t.Errorf("%s: total %d vs %d, %d stacks for %d samples", name, total, want, len(s.Stacks), len(p.Sample))
		}
		for i, src := range s.Sources {
			if src.Places == nil || src.Display == nil || len(src.Display) == 0 {
				t.Errorf("%s: source %d has nil/empty slice", name, i)
			}
			if src.Self != self[i] {
				t.Errorf("%s: source %d self %d, want %d", name, i, src.Self, self[i])
			}
			if len(places[i]) == 0 {
				places[i] = []StackSlot{}
			}
			if !reflect.DeepEqual(src.Places, places[i]) {
				t.Errorf("%s: source %d places %v, want %v", name, i, src.Places, places[i])
			}
		}
	}
}
