package profile

import (
	"crypto/sha256"
	"fmt"
	"os"
	"strings"
	"testing"
)

// Equivalence demonstration for change A (table-driven addLegacyFrameInfo,
// slices.Equal based isProfileType). The expectations were computed on the
// unchanged tree and hard-coded.

func zzaHash(s string) string {
	return fmt.Sprintf("%x", sha256.Sum256([]byte(s)))[:12]
}

// zzaStacks renders every sample as value list + leaf-to-root function names.
func zzaStacks(p *Profile) string {
	var b strings.Builder
	for _, s := range p.Sample {
		fmt.Fprintf(&b, "%v:", s.Value)
		for i, l := range s.Location {
			if i > 0 {
				b.WriteByte('<')
			}
			for j, ln := range l.Line {
				if j > 0 {
					b.WriteByte('+')
				}
				if ln.Function != nil {
					b.WriteString(ln.Function.Name)
				} else {
					b.WriteByte('?')
				}
			}
			if len(l.Line) == 0 {
				b.WriteByte('-')
			}
		}
		b.WriteByte(';')
	}
	return b.String()
}

func TestZZEquivALegacyFrameInfoSynthetic(t *testing.T) {
	for _, tc := range zzaSynthetic {
		p := &Profile{DropFrames: "stale", KeepFrames: "stale"}
		for _, n := range tc.types {
			p.SampleType = append(p.SampleType, &ValueType{Type: n, Unit: "u"})
		}
		p.addLegacyFrameInfo()
		got := zzaHash(p.DropFrames) + "/" + zzaHash(p.KeepFrames)
		if os.Getenv("ZZ_PRINT") != "" {
			fmt.Printf("SYN %q %s\n", tc.types, got)
			continue
		}
		if got != tc.want {
			t.Errorf("sample types %q: drop/keep hash %s, want %s", tc.types, got, tc.want)
		}
	}
}

var zzaSynthetic = []struct {
	types []string
	want  string
}{
	{[]string{"allocations", "size"}, zzaHeap},
	{[]string{"objects", "space"}, zzaHeap},
	{[]string{"inuse_objects", "inuse_space"}, zzaHeap},
	{[]string{"alloc_objects", "alloc_space"}, zzaHeap},
	{[]string{"alloc_objects", "alloc_space", "inuse_objects", "inuse_space"}, zzaHeap},
	{[]string{"contentions", "delay"}, zzaLock},
	{[]string{"samples", "cpu"}, zzaCPU},
	{[]string{"delay", "contentions"}, zzaCPU},      // order matters
	{[]string{"space", "objects"}, zzaCPU},          // order matters
	{[]string{"objects"}, zzaCPU},                   // strict prefix
	{[]string{"objects", "space", "extra"}, zzaCPU}, // strict extension
	{[]string{"alloc_objects", "alloc_space", "inuse_objects"}, zzaCPU},
	{[]string{"inuse_objects", "inuse_space", "alloc_objects", "alloc_space"}, zzaCPU},
	{[]string{"contentions", "space"}, zzaCPU}, // mixes two families
	{[]string{"Objects", "Space"}, zzaCPU},     // case sensitive
	{[]string{"", ""}, zzaCPU},
	{nil, zzaCPU},
	{[]string{"threads"}, zzaCPU},
}

const (
	zzaHeap = "a74838af3311/51c7e61d4f88"
	zzaLock = "2de1bddf0062/e3b0c44298fc"
	zzaCPU  = "167a151db46e/e3b0c44298fc"
)

// Legacy text profiles go through Parse -> addLegacyFrameInfo; after naming
// the frames RemoveUninteresting must prune with the family's expressions.
func TestZZEquivALegacyParseAndPrune(t *testing.T) {
	heapText := "heap profile: 3: 3072 [6: 6144] @ heapprofile\n" +
		"1: 1024 [2: 2048] @ 0x1000 0x2000 0x3000 0x4000\n" +
		"2: 2048 [4: 4096] @ 0x1000 0x5000 0x3000 0x4000\n" +
		"\nMAPPED_LIBRARIES:\n" +
		"00000000-00010000 r-xp 00000000 00:00 0 /bin/prog\n"
	lockText := "--- contentionz 1 ---\n" +
		"cycles/second = 1000000\n" +
		"sampling period = 100\n" +
		"ms since reset = 1000\n" +
		"discarded samples = 0\n" +
		"  100 10 @ 0x1000 0x2000 0x3000 0x4000\n" +
		"  200 20 @ 0x1000 0x5000 0x3000 0x4000\n" +
		"--- Memory map: ---\n" +
		"  00000000-00010000: /bin/prog\n"
	threadText := "--- threadz 1 ---\n\n" +
		"--- Thread 7fe1 (name: main/1) stack: ---\n" +
		"  0x1000 0x2000 0x3000 0x4000\n" +
		"--- Thread 7fe2 (name: w/2) stack: ---\n" +
		"  0x1000 0x5000 0x3000 0x4000\n" +
		"--- Memory map: ---\n" +
		"  00000000-00010000: /bin/prog\n"

	// Names by position in the first sample (leaf first) and for the
	// extra location of the second sample.
	namings := map[string][5]string{
		"alloc":   {"malloc", "runtime.mallocgc", "main.alloc", "main.main", "tcmalloc::Alloc(int)"},
		"keep":    {"runtime.newobject", "runtime.call32", "main.alloc", "main.main", "runtime.panic"},
		"lock":    {"base::Mutex::Unlock()", "Mutex::UnlockSlow", "main.work", "main.main", "SpinLock::SlowUnlock()"},
		"cpu":     {"__restore", "ProfileData::Add", "main.work", "main.main", "CpuProfiler::prof_handler"},
		"nomatch": {"a", "b", "c", "d", "e"},
	}
	order := []string{"alloc", "keep", "lock", "cpu", "nomatch"}
	texts := []struct{ name, text string }{{"heap", heapText}, {"lock", lockText}, {"thread", threadText}}

	for _, tx := range texts {
		for _, nm := range order {
			p, err := Parse(strings.NewReader(tx.text))
			if err != nil {
				t.Fatalf("%s: parse: %v", tx.name, err)
			}
			if len(p.Sample) != 2 || len(p.Sample[0].Location) != 4 || len(p.Sample[1].Location) != 4 {
				t.Fatalf("%s: unexpected shape:\n%s", tx.name, p.String())
			}
			names := namings[nm]
			fid := uint64(0)
			fn := func(n string) *Function {
				fid++
				f := &Function{ID: fid, Name: n, SystemName: n}
				p.Function = append(p.Function, f)
				return f
			}
			for i, l := range p.Sample[0].Location {
				l.Line = []Line{{Function: fn(names[i])}}
			}
			p.Sample[1].Location[1].Line = []Line{{Function: fn(names[4])}}
			key := tx.name + "/" + nm
			if err := p.RemoveUninteresting(); err != nil {
				t.Fatalf("%s: RemoveUninteresting: %v", key, err)
			}
			got := zzaHash(p.DropFrames) + "/" + zzaHash(p.KeepFrames) + " " + zzaStacks(p)
			if os.Getenv("ZZ_PRINT") != "" {
				fmt.Printf("PARSE %q: %q,\n", key, got)
				continue
			}
			if want := zzaParseWant[key]; got != want {
				t.Errorf("%s:\n got %s\nwant %s", key, got, want)
			}
		}
	}
}

var zzaParseWant = map[string]string{
	"heap/alloc":     "a74838af3311/51c7e61d4f88 [2 2048 1 1024]:main.alloc<main.main;[4 4096 2 2048]:main.alloc<main.main;",
	"heap/keep":      "a74838af3311/51c7e61d4f88 [2 2048 1 1024]:runtime.call32<main.alloc<main.main;[4 4096 2 2048]:runtime.panic<main.alloc<main.main;",
	"heap/lock":      "a74838af3311/51c7e61d4f88 [2 2048 1 1024]:base::Mutex::Unlock()<Mutex::UnlockSlow<main.work<main.main;[4 4096 2 2048]:base::Mutex::Unlock()<SpinLock::SlowUnlock()<main.work<main.main;",
	"heap/cpu":       "a74838af3311/51c7e61d4f88 [2 2048 1 1024]:__restore<ProfileData::Add<main.work<main.main;[4 4096 2 2048]:__restore<CpuProfiler::prof_handler<main.work<main.main;",
	"heap/nomatch":   "a74838af3311/51c7e61d4f88 [2 2048 1 1024]:a<b<c<d;[4 4096 2 2048]:a<e<c<d;",
	"lock/alloc":     "2de1bddf0062/e3b0c44298fc [1000 10000000]:malloc<runtime.mallocgc<main.alloc<main.main;[2000 20000000]:malloc<tcmalloc::Alloc(int)<main.alloc<main.main;",
	"lock/keep":      "2de1bddf0062/e3b0c44298fc [1000 10000000]:runtime.newobject<runtime.call32<main.alloc<main.main;[2000 20000000]:runtime.newobject<runtime.panic<main.alloc<main.main;",
	"lock/lock":      "2de1bddf0062/e3b0c44298fc [1000 10000000]:main.work<main.main;[2000 20000000]:main.work<main.main;",
	"lock/cpu":       "2de1bddf0062/e3b0c44298fc [1000 10000000]:__restore<ProfileData::Add<main.work<main.main;[2000 20000000]:__restore<CpuProfiler::prof_handler<main.work<main.main;",
	"lock/nomatch":   "2de1bddf0062/e3b0c44298fc [1000 10000000]:a<b<c<d;[2000 20000000]:a<e<c<d;",
	"thread/alloc":   "167a151db46e/e3b0c44298fc [1]:malloc<runtime.mallocgc<main.alloc<main.main;[1]:malloc<tcmalloc::Alloc(int)<main.alloc<main.main;",
	"thread/keep":    "167a151db46e/e3b0c44298fc [1]:runtime.newobject<runtime.call32<main.alloc<main.main;[1]:runtime.newobject<runtime.panic<main.alloc<main.main;",
	"thread/lock":    "167a151db46e/e3b0c44298fc [1]:base::Mutex::Unlock()<Mutex::UnlockSlow<main.work<main.main;[1]:base::Mutex::Unlock()<SpinLock::SlowUnlock()<main.work<main.main;",
	"thread/cpu":     "167a151db46e/e3b0c44298fc [1]:main.work<main.main;[1]:main.work<main.main;",
	"thread/nomatch": "167a151db46e/e3b0c44298fc [1]:a<b<c<d;[1]:a<e<c<d;",
}

// The legacy profiles of testdata, parsed and pruned.
func TestZZEquivATestdata(t *testing.T) {
	for _, f := range []string{
		"cppbench.heap", "cppbench.growth", "cppbench.contention", "cppbench.cpu",
		"cppbench.thread", "gobench.heap", "gobench.cpu", "java.heap", "java.contention",
		"java.cpu", "go.godoc.thread", "go.crc32.cpu",
	} {
		data, err := os.ReadFile("testdata/" + f)
		if err != nil {
			t.Fatal(err)
		}
		p, err := ParseData(data)
		if err != nil {
			t.Fatalf("%s: %v", f, err)
		}
		if err := p.RemoveUninteresting(); err != nil {
			t.Fatalf("%s: %v", f, err)
		}
		got := zzaHash(p.DropFrames) + "/" + zzaHash(p.KeepFrames) + " " + zzaHash(p.String())
		if os.Getenv("ZZ_PRINT") != "" {
			fmt.Printf("FILE %q: %q,\n", f, got)
			continue
		}
		if want := zzaFileWant[f]; got != want {
			t.Errorf("%s: got %s want %s", f, got, want)
		}
	}
}

var zzaFileWant = map[string]string{
	"cppbench.heap":       "a74838af3311/51c7e61d4f88 14b1cb108b2a",
	"cppbench.growth":     "a74838af3311/51c7e61d4f88 cfb5aa14ca71",
	"cppbench.contention": "2de1bddf0062/e3b0c44298fc a552baca08d2",
	"cppbench.cpu":        "167a151db46e/e3b0c44298fc 1757ba5db4e2",
	"cppbench.thread":     "167a151db46e/e3b0c44298fc cb221c92f5ac",
	"gobench.heap":        "a74838af3311/51c7e61d4f88 3018ff844ac7",
	"gobench.cpu":         "167a151db46e/e3b0c44298fc 1a781d6b2c8b",
	"java.heap":           "a74838af3311/51c7e61d4f88 89b2b7ce523f",
	"java.contention":     "2de1bddf0062/e3b0c44298fc 20a50f0fdd59",
	"java.cpu":            "167a151db46e/e3b0c44298fc 1c543a46e4c5",
	"go.godoc.thread":     "167a151db46e/e3b0c44298fc 14c67d5a2513",
	"go.crc32.cpu":        "167a151db46e/e3b0c44298fc 7a6189c5490e",
}
