package profile

import (
	"fmt"
	"regexp"
	"strings"
	"testing"
)

// spec: each sample is a list of locations (leaf first); each location is "fnA|fnB" lines (leaf-most inlined first).
// identical location strings share a *Location. "" function name => Line with nil Function; "-" => location without lines.
func zzABuild(samples [][]string) *Profile {
	p := &Profile{
		SampleType: []*ValueType{{Type: "samples", Unit: "count"}},
		PeriodType: &ValueType{Type: "cpu", Unit: "ns"}, Period: 1,
	}
	fns := map[string]*Function{}
	locs := map[string]*Location{}
	for si, st := range samples {
		s := &Sample{Value: []int64{int64(10 + si)}, Label: map[string][]string{"k": {fmt.Sprint("v", si)}}}
		for _, ls := range st {
			l, ok := locs[ls]
			if !ok {
				l = &Location{ID: uint64(len(p.Location) + 1), Address: uint64(0x1000 + len(p.Location))}
				if ls != "-" {
					for li, fn := range strings.Split(ls, "|") {
						var f *Function
						if fn != "" {
							f = fns[fn]
							if f == nil {
								f = &Function{ID: uint64(len(p.Function) + 1), Name: fn, SystemName: fn, Filename: "f.c"}
								fns[fn] = f
								p.Function = append(p.Function, f)
							}
						}
						l.Line = append(l.Line, Line{Function: f, Line: int64(li + 1)})
					}
				}
				locs[ls] = l
				p.Location = append(p.Location, l)
			}
			s.Location = append(s.Location, l)
		}
		p.Sample = append(p.Sample, s)
	}
	return p
}

func zzADump(p *Profile) string {
	var b strings.Builder
	for _, s := range p.Sample {
		fmt.Fprintf(&b, "%v %v:", s.Value, s.Label)
		for _, l := range s.Location {
			fmt.Fprintf(&b, " %d[", l.ID)
			for i, ln := range l.Line {
				if i > 0 {
					b.WriteString("|")
				}
				if ln.Function != nil {
					b.WriteString(ln.Function.Name)
				}
				fmt.Fprintf(&b, ":%d", ln.Line)
			}
			b.WriteString("]")
		}
		b.WriteString("\n")
	}
	fmt.Fprintf(&b, "locs=%d:", len(p.Location))
	for _, l := range p.Location {
		fmt.Fprintf(&b, " %d/%d", l.ID, len(l.Line))
	}
	fmt.Fprintf(&b, " drop=%q keep=%q\n", p.DropFrames, p.KeepFrames)
	return b.String()
}

var zzANames = []string{
	"main", ".main", "..main", "foo(int)", "Foo::(anonymous namespace)::Bar",
	"Hello::(anonymous namespace)::World(const Foo::(anonymous namespace)::Test::Bar)",
	"Foo::operator()(::Bar)", "operator()", "operator()()", "operator(", "operator(int)", "xoperator()(a)",
	"(anonymous namespace)", "(anonymous namespace)(x)", "(anonymous namespace", "(anonymous namespace)::f(int)(long)",
	"", "(", ")", "()", "a(b)(c)", "operatoroperator()(z)", "(anonymous namespace)operator()(anonymous namespace)",
	"opera(tor()", "f<(anonymous namespace)::T>(int)", "日本(語)", "a::(anonymous namespace)::operator()(int) const",
	".(x)", "operator()(anonymous namespace)(q)", "(operator())",
}

var zzAProfiles = [][][]string{
	// 0: basic with inlines, shared locs
	{{"leaf", "drop|mid", "user", "main"}, {"other", "drop|mid", "main"}, {"drop|mid", "main"}, {"x|drop", "y", "main"}},
	// 1: match at root / leaf / before first user frame
	{{"a", "b", "drop"}, {"drop", "a", "b"}, {"drop"}, {"a|drop"}, {"drop|a"}, {"a", "drop", "drop"}, {"a", "drop", "b", "drop"}},
	// 2: keep interplay, unsimplified names
	{{"l", "drop(int)", "m"}, {"l", "dropkeep", "m"}, {"l", "q|dropkeep|drop(x)|r", "m"}, {"l", ".drop", "dropkeep", "m"}},
	// 3: nil functions and empty locations
	{{"l", "-", "drop", "-"}, {"l", "|drop|", "m"}, {"l", "drop", ""}, {"-", "drop"}, {"l", "drop|", "|m"}},
	// 4: repeated, shared match inside inlined location where some samples are root there
	{{"z", "a|drop|b", "c"}, {"z", "a|drop|b"}, {"a|drop|b", "a|drop|b"}, {"w", "drop|drop", "c", "a|drop|b"}},
	// 5: c++ names
	{{"l", "ns::(anonymous namespace)::drop(int)", "m"}, {"l", "ns::operator()(int)", "m"}, {"l", "other|ns::operator()", "m"}},
}

var zzARx = [][2]string{
	{"drop", ""}, {"drop.*", "dropkeep"}, {"drop|a", ""}, {".*", "m|main|c"}, {"nomatch", ""}, {"ns::.*", ".*operator.*"}, {"", ""}, {"dro", ""},
}

var zzAWantSF = map[string]string{
	"main":                            "main",
	".main":                           "main",
	"..main":                          ".main",
	"foo(int)":                        "foo",
	"Foo::(anonymous namespace)::Bar": "Foo::(anonymous namespace)::Bar",
	"Hello::(anonymous namespace)::World(const Foo::(anonymous namespace)::Test::Bar)": "Hello::(anonymous namespace)::World",
	"Foo::operator()(::Bar)":              "Foo::operator()",
	"operator()":                          "operator()",
	"operator()()":                        "operator()",
	"operator(":                           "operator",
	"operator(int)":                       "operator",
	"xoperator()(a)":                      "xoperator()",
	"(anonymous namespace)":               "(anonymous namespace)",
	"(anonymous namespace)(x)":            "(anonymous namespace)",
	"(anonymous namespace":                "",
	"(anonymous namespace)::f(int)(long)": "(anonymous namespace)::f",
	"":                                    "",
	"(":                                   "",
	")":                                   ")",
	"()":                                  "",
	"a(b)(c)":                             "a",
	"operatoroperator()(z)":               "operatoroperator()",
	"(anonymous namespace)operator()(anonymous namespace)": "(anonymous namespace)operator()(anonymous namespace)",
	"opera(tor()":                      "opera",
	"f<(anonymous namespace)::T>(int)": "f<(anonymous namespace)::T>",
	"日本(語)":                            "日本",
	"a::(anonymous namespace)::operator()(int) const": "a::(anonymous namespace)::operator()",
	".(x)":                               "",
	"operator()(anonymous namespace)(q)": "operator()(anonymous namespace)",
	"(operator())":                       "",
}
var zzAWantRU = map[string]string{
	"0/0": "[10] map[k:[v0]]: 2[mid:2] 3[user:1] 4[main:1]\n[11] map[k:[v1]]: 2[mid:2] 4[main:1]\n[12] map[k:[v2]]: 2[mid:2] 4[main:1]\n[13] map[k:[v3]]: 7[y:1] 4[main:1]\nlocs=7: 1/1 2/1 3/1 4/1 5/1 6/2 7/1 drop=\"drop\" keep=\"\"\n",
	"0/1": "[10] map[k:[v0]]: 2[mid:2] 3[user:1] 4[main:1]\n[11] map[k:[v1]]: 2[mid:2] 4[main:1]\n[12] map[k:[v2]]: 2[mid:2] 4[main:1]\n[13] map[k:[v3]]: 7[y:1] 4[main:1]\nlocs=7: 1/1 2/1 3/1 4/1 5/1 6/2 7/1 drop=\"drop.*\" keep=\"dropkeep\"\n",
	"0/2": "[10] map[k:[v0]]: 2[mid:2] 3[user:1] 4[main:1]\n[11] map[k:[v1]]: 2[mid:2] 4[main:1]\n[12] map[k:[v2]]: 2[mid:2] 4[main:1]\n[13] map[k:[v3]]: 7[y:1] 4[main:1]\nlocs=7: 1/1 2/1 3/1 4/1 5/1 6/2 7/1 drop=\"drop|a\" keep=\"\"\n",
	"0/3": "[10] map[k:[v0]]: 4[main:1]\n[11] map[k:[v1]]: 4[main:1]\n[12] map[k:[v2]]: 4[main:1]\n[13] map[k:[v3]]: 4[main:1]\nlocs=7: 1/1 2/2 3/1 4/1 5/1 6/2 7/1 drop=\".*\" keep=\"m|main|c\"\n",
	"0/4": "[10] map[k:[v0]]: 1[leaf:1] 2[drop:1|mid:2] 3[user:1] 4[main:1]\n[11] map[k:[v1]]: 5[other:1] 2[drop:1|mid:2] 4[main:1]\n[12] map[k:[v2]]: 2[drop:1|mid:2] 4[main:1]\n[13] map[k:[v3]]: 6[x:1|drop:2] 7[y:1] 4[main:1]\nlocs=7: 1/1 2/2 3/1 4/1 5/1 6/2 7/1 drop=\"nomatch\" keep=\"\"\n",
	"0/5": "[10] map[k:[v0]]: 1[leaf:1] 2[drop:1|mid:2] 3[user:1] 4[main:1]\n[11] map[k:[v1]]: 5[other:1] 2[drop:1|mid:2] 4[main:1]\n[12] map[k:[v2]]: 2[drop:1|mid:2] 4[main:1]\n[13] map[k:[v3]]: 6[x:1|drop:2] 7[y:1] 4[main:1]\nlocs=7: 1/1 2/2 3/1 4/1 5/1 6/2 7/1 drop=\"ns::.*\" keep=\".*operator.*\"\n",
	"0/6": "[10] map[k:[v0]]: 1[leaf:1] 2[drop:1|mid:2] 3[user:1] 4[main:1]\n[11] map[k:[v1]]: 5[other:1] 2[drop:1|mid:2] 4[main:1]\n[12] map[k:[v2]]: 2[drop:1|mid:2] 4[main:1]\n[13] map[k:[v3]]: 6[x:1|drop:2] 7[y:1] 4[main:1]\nlocs=7: 1/1 2/2 3/1 4/1 5/1 6/2 7/1 drop=\"\" keep=\"\"\n",
	"0/7": "[10] map[k:[v0]]: 1[leaf:1] 2[drop:1|mid:2] 3[user:1] 4[main:1]\n[11] map[k:[v1]]: 5[other:1] 2[drop:1|mid:2] 4[main:1]\n[12] map[k:[v2]]: 2[drop:1|mid:2] 4[main:1]\n[13] map[k:[v3]]: 6[x:1|drop:2] 7[y:1] 4[main:1]\nlocs=7: 1/1 2/2 3/1 4/1 5/1 6/2 7/1 drop=\"dro\" keep=\"\"\n",
	"1/0": "[10] map[k:[v0]]: 1[a:1] 2[b:1] 3[drop:1]\n[11] map[k:[v1]]: 1[a:1] 2[b:1]\n[12] map[k:[v2]]: 3[drop:1]\n[13] map[k:[v3]]: 4[a:1|drop:2]\n[14] map[k:[v4]]: 5[a:2]\n[15] map[k:[v5]]: 1[a:1] 3[drop:1] 3[drop:1]\n[16] map[k:[v6]]: 2[b:1] 3[drop:1]\nlocs=5: 1/1 2/1 3/1 4/2 5/1 drop=\"drop\" keep=\"\"\n",
	"1/1": "[10] map[k:[v0]]: 1[a:1] 2[b:1] 3[drop:1]\n[11] map[k:[v1]]: 1[a:1] 2[b:1]\n[12] map[k:[v2]]: 3[drop:1]\n[13] map[k:[v3]]: 4[a:1|drop:2]\n[14] map[k:[v4]]: 5[a:2]\n[15] map[k:[v5]]: 1[a:1] 3[drop:1] 3[drop:1]\n[16] map[k:[v6]]: 2[b:1] 3[drop:1]\nlocs=5: 1/1 2/1 3/1 4/2 5/1 drop=\"drop.*\" keep=\"dropkeep\"\n",
	"1/2": "[10] map[k:[v0]]: 2[b:1] 3[drop:1]\n[11] map[k:[v1]]: 2[b:1]\n[12] map[k:[v2]]: 3[drop:1]\n[13] map[k:[v3]]: 4[a:1|drop:2]\n[14] map[k:[v4]]: 5[drop:1|a:2]\n[15] map[k:[v5]]: 1[a:1] 3[drop:1] 3[drop:1]\n[16] map[k:[v6]]: 2[b:1] 3[drop:1]\nlocs=5: 1/1 2/1 3/1 4/2 5/2 drop=\"drop|a\" keep=\"\"\n",
	"1/3": "[10] map[k:[v0]]: 1[a:1] 2[b:1] 3[drop:1]\n[11] map[k:[v1]]: 3[drop:1] 1[a:1] 2[b:1]\n[12] map[k:[v2]]: 3[drop:1]\n[13] map[k:[v3]]: 4[a:1|drop:2]\n[14] map[k:[v4]]: 5[drop:1|a:2]\n[15] map[k:[v5]]: 1[a:1] 3[drop:1] 3[drop:1]\n[16] map[k:[v6]]: 1[a:1] 3[drop:1] 2[b:1] 3[drop:1]\nlocs=5: 1/1 2/1 3/1 4/2 5/2 drop=\".*\" keep=\"m|main|c\"\n",
	"1/4": "[10] map[k:[v0]]: 1[a:1] 2[b:1] 3[drop:1]\n[11] map[k:[v1]]: 3[drop:1] 1[a:1] 2[b:1]\n[12] map[k:[v2]]: 3[drop:1]\n[13] map[k:[v3]]: 4[a:1|drop:2]\n[14] map[k:[v4]]: 5[drop:1|a:2]\n[15] map[k:[v5]]: 1[a:1] 3[drop:1] 3[drop:1]\n[16] map[k:[v6]]: 1[a:1] 3[drop:1] 2[b:1] 3[drop:1]\nlocs=5: 1/1 2/1 3/1 4/2 5/2 drop=\"nomatch\" keep=\"\"\n",
	"1/5": "[10] map[k:[v0]]: 1[a:1] 2[b:1] 3[drop:1]\n[11] map[k:[v1]]: 3[drop:1] 1[a:1] 2[b:1]\n[12] map[k:[v2]]: 3[drop:1]\n[13] map[k:[v3]]: 4[a:1|drop:2]\n[14] map[k:[v4]]: 5[drop:1|a:2]\n[15] map[k:[v5]]: 1[a:1] 3[drop:1] 3[drop:1]\n[16] map[k:[v6]]: 1[a:1] 3[drop:1] 2[b:1] 3[drop:1]\nlocs=5: 1/1 2/1 3/1 4/2 5/2 drop=\"ns::.*\" keep=\".*operator.*\"\n",
	"1/6": "[10] map[k:[v0]]: 1[a:1] 2[b:1] 3[drop:1]\n[11] map[k:[v1]]: 3[drop:1] 1[a:1] 2[b:1]\n[12] map[k:[v2]]: 3[drop:1]\n[13] map[k:[v3]]: 4[a:1|drop:2]\n[14] map[k:[v4]]: 5[drop:1|a:2]\n[15] map[k:[v5]]: 1[a:1] 3[drop:1] 3[drop:1]\n[16] map[k:[v6]]: 1[a:1] 3[drop:1] 2[b:1] 3[drop:1]\nlocs=5: 1/1 2/1 3/1 4/2 5/2 drop=\"\" keep=\"\"\n",
	"1/7": "[10] map[k:[v0]]: 1[a:1] 2[b:1] 3[drop:1]\n[11] map[k:[v1]]: 3[drop:1] 1[a:1] 2[b:1]\n[12] map[k:[v2]]: 3[drop:1]\n[13] map[k:[v3]]: 4[a:1|drop:2]\n[14] map[k:[v4]]: 5[drop:1|a:2]\n[15] map[k:[v5]]: 1[a:1] 3[drop:1] 3[drop:1]\n[16] map[k:[v6]]: 1[a:1] 3[drop:1] 2[b:1] 3[drop:1]\nlocs=5: 1/1 2/1 3/1 4/2 5/2 drop=\"dro\" keep=\"\"\n",
	"2/0": "[10] map[k:[v0]]: 3[m:1]\n[11] map[k:[v1]]: 1[l:1] 4[dropkeep:1] 3[m:1]\n[12] map[k:[v2]]: 5[r:4] 3[m:1]\n[13] map[k:[v3]]: 4[dropkeep:1] 3[m:1]\nlocs=6: 1/1 2/1 3/1 4/1 5/1 6/1 drop=\"drop\" keep=\"\"\n",
	"2/1": "[10] map[k:[v0]]: 3[m:1]\n[11] map[k:[v1]]: 1[l:1] 4[dropkeep:1] 3[m:1]\n[12] map[k:[v2]]: 5[r:4] 3[m:1]\n[13] map[k:[v3]]: 4[dropkeep:1] 3[m:1]\nlocs=6: 1/1 2/1 3/1 4/1 5/1 6/1 drop=\"drop.*\" keep=\"dropkeep\"\n",
	"2/2": "[10] map[k:[v0]]: 3[m:1]\n[11] map[k:[v1]]: 1[l:1] 4[dropkeep:1] 3[m:1]\n[12] map[k:[v2]]: 5[r:4] 3[m:1]\n[13] map[k:[v3]]: 4[dropkeep:1] 3[m:1]\nlocs=6: 1/1 2/1 3/1 4/1 5/1 6/1 drop=\"drop|a\" keep=\"\"\n",
	"2/3": "[10] map[k:[v0]]: 3[m:1]\n[11] map[k:[v1]]: 3[m:1]\n[12] map[k:[v2]]: 3[m:1]\n[13] map[k:[v3]]: 3[m:1]\nlocs=6: 1/1 2/1 3/1 4/1 5/4 6/1 drop=\".*\" keep=\"m|main|c\"\n",
	"2/4": "[10] map[k:[v0]]: 1[l:1] 2[drop(int):1] 3[m:1]\n[11] map[k:[v1]]: 1[l:1] 4[dropkeep:1] 3[m:1]\n[12] map[k:[v2]]: 1[l:1] 5[q:1|dropkeep:2|drop(x):3|r:4] 3[m:1]\n[13] map[k:[v3]]: 1[l:1] 6[.drop:1] 4[dropkeep:1] 3[m:1]\nlocs=6: 1/1 2/1 3/1 4/1 5/4 6/1 drop=\"nomatch\" keep=\"\"\n",
	"2/5": "[10] map[k:[v0]]: 1[l:1] 2[drop(int):1] 3[m:1]\n[11] map[k:[v1]]: 1[l:1] 4[dropkeep:1] 3[m:1]\n[12] map[k:[v2]]: 1[l:1] 5[q:1|dropkeep:2|drop(x):3|r:4] 3[m:1]\n[13] map[k:[v3]]: 1[l:1] 6[.drop:1] 4[dropkeep:1] 3[m:1]\nlocs=6: 1/1 2/1 3/1 4/1 5/4 6/1 drop=\"ns::.*\" keep=\".*operator.*\"\n",
	"2/6": "[10] map[k:[v0]]: 1[l:1] 2[drop(int):1] 3[m:1]\n[11] map[k:[v1]]: 1[l:1] 4[dropkeep:1] 3[m:1]\n[12] map[k:[v2]]: 1[l:1] 5[q:1|dropkeep:2|drop(x):3|r:4] 3[m:1]\n[13] map[k:[v3]]: 1[l:1] 6[.drop:1] 4[dropkeep:1] 3[m:1]\nlocs=6: 1/1 2/1 3/1 4/1 5/4 6/1 drop=\"\" keep=\"\"\n",
	"2/7": "[10] map[k:[v0]]: 1[l:1] 2[drop(int):1] 3[m:1]\n[11] map[k:[v1]]: 1[l:1] 4[dropkeep:1] 3[m:1]\n[12] map[k:[v2]]: 1[l:1] 5[q:1|dropkeep:2|drop(x):3|r:4] 3[m:1]\n[13] map[k:[v3]]: 1[l:1] 6[.drop:1] 4[dropkeep:1] 3[m:1]\nlocs=6: 1/1 2/1 3/1 4/1 5/4 6/1 drop=\"dro\" keep=\"\"\n",
	"3/0": "[10] map[k:[v0]]: 2[]\n[11] map[k:[v1]]: 4[:3] 5[m:1]\n[12] map[k:[v2]]: 6[:1]\n[13] map[k:[v3]]: 2[] 3[drop:1]\n[14] map[k:[v4]]: 7[:2] 8[:1|m:2]\nlocs=8: 1/1 2/0 3/1 4/1 5/1 6/1 7/1 8/2 drop=\"drop\" keep=\"\"\n",
	"3/1": "[10] map[k:[v0]]: 2[]\n[11] map[k:[v1]]: 4[:3] 5[m:1]\n[12] map[k:[v2]]: 6[:1]\n[13] map[k:[v3]]: 2[] 3[drop:1]\n[14] map[k:[v4]]: 7[:2] 8[:1|m:2]\nlocs=8: 1/1 2/0 3/1 4/1 5/1 6/1 7/1 8/2 drop=\"drop.*\" keep=\"dropkeep\"\n",
	"3/2": "[10] map[k:[v0]]: 2[]\n[11] map[k:[v1]]: 4[:3] 5[m:1]\n[12] map[k:[v2]]: 6[:1]\n[13] map[k:[v3]]: 2[] 3[drop:1]\n[14] map[k:[v4]]: 7[:2] 8[:1|m:2]\nlocs=8: 1/1 2/0 3/1 4/1 5/1 6/1 7/1 8/2 drop=\"drop|a\" keep=\"\"\n",
	"3/3": "[10] map[k:[v0]]: 2[]\n[11] map[k:[v1]]: 4[:3] 5[m:1]\n[12] map[k:[v2]]: 6[:1]\n[13] map[k:[v3]]: 2[] 3[drop:1]\n[14] map[k:[v4]]: 7[:2] 8[:1|m:2]\nlocs=8: 1/1 2/0 3/1 4/1 5/1 6/1 7/1 8/2 drop=\".*\" keep=\"m|main|c\"\n",
	"3/4": "[10] map[k:[v0]]: 1[l:1] 2[] 3[drop:1] 2[]\n[11] map[k:[v1]]: 1[l:1] 4[:1|drop:2|:3] 5[m:1]\n[12] map[k:[v2]]: 1[l:1] 3[drop:1] 6[:1]\n[13] map[k:[v3]]: 2[] 3[drop:1]\n[14] map[k:[v4]]: 1[l:1] 7[drop:1|:2] 8[:1|m:2]\nlocs=8: 1/1 2/0 3/1 4/3 5/1 6/1 7/2 8/2 drop=\"nomatch\" keep=\"\"\n",
	"3/5": "[10] map[k:[v0]]: 1[l:1] 2[] 3[drop:1] 2[]\n[11] map[k:[v1]]: 1[l:1] 4[:1|drop:2|:3] 5[m:1]\n[12] map[k:[v2]]: 1[l:1] 3[drop:1] 6[:1]\n[13] map[k:[v3]]: 2[] 3[drop:1]\n[14] map[k:[v4]]: 1[l:1] 7[drop:1|:2] 8[:1|m:2]\nlocs=8: 1/1 2/0 3/1 4/3 5/1 6/1 7/2 8/2 drop=\"ns::.*\" keep=\".*operator.*\"\n",
	"3/6": "[10] map[k:[v0]]: 1[l:1] 2[] 3[drop:1] 2[]\n[11] map[k:[v1]]: 1[l:1] 4[:1|drop:2|:3] 5[m:1]\n[12] map[k:[v2]]: 1[l:1] 3[drop:1] 6[:1]\n[13] map[k:[v3]]: 2[] 3[drop:1]\n[14] map[k:[v4]]: 1[l:1] 7[drop:1|:2] 8[:1|m:2]\nlocs=8: 1/1 2/0 3/1 4/3 5/1 6/1 7/2 8/2 drop=\"\" keep=\"\"\n",
	"3/7": "[10] map[k:[v0]]: 1[l:1] 2[] 3[drop:1] 2[]\n[11] map[k:[v1]]: 1[l:1] 4[:1|drop:2|:3] 5[m:1]\n[12] map[k:[v2]]: 1[l:1] 3[drop:1] 6[:1]\n[13] map[k:[v3]]: 2[] 3[drop:1]\n[14] map[k:[v4]]: 1[l:1] 7[drop:1|:2] 8[:1|m:2]\nlocs=8: 1/1 2/0 3/1 4/3 5/1 6/1 7/2 8/2 drop=\"dro\" keep=\"\"\n",
	"4/0": "[10] map[k:[v0]]: 2[b:3] 3[c:1]\n[11] map[k:[v1]]: 1[z:1] 2[b:3]\n[12] map[k:[v2]]: 2[b:3] 2[b:3]\n[13] map[k:[v3]]: 3[c:1] 2[b:3]\nlocs=5: 1/1 2/1 3/1 4/1 5/2 drop=\"drop\" keep=\"\"\n",
	"4/1": "[10] map[k:[v0]]: 2[b:3] 3[c:1]\n[11] map[k:[v1]]: 1[z:1] 2[b:3]\n[12] map[k:[v2]]: 2[b:3] 2[b:3]\n[13] map[k:[v3]]: 3[c:1] 2[b:3]\nlocs=5: 1/1 2/1 3/1 4/1 5/2 drop=\"drop.*\" keep=\"dropkeep\"\n",
	"4/2": "[10] map[k:[v0]]: 2[b:3] 3[c:1]\n[11] map[k:[v1]]: 1[z:1] 2[b:3]\n[12] map[k:[v2]]: 2[b:3] 2[b:3]\n[13] map[k:[v3]]: 3[c:1] 2[b:3]\nlocs=5: 1/1 2/1 3/1 4/1 5/2 drop=\"drop|a\" keep=\"\"\n",
	"4/3": "[10] map[k:[v0]]: 3[c:1]\n[11] map[k:[v1]]: 1[z:1] 2[a:1|drop:2|b:3]\n[12] map[k:[v2]]: 2[a:1|drop:2|b:3] 2[a:1|drop:2|b:3]\n[13] map[k:[v3]]: 3[c:1] 2[a:1|drop:2|b:3]\nlocs=5: 1/1 2/3 3/1 4/1 5/2 drop=\".*\" keep=\"m|main|c\"\n",
	"4/4": "[10] map[k:[v0]]: 1[z:1] 2[a:1|drop:2|b:3] 3[c:1]\n[11] map[k:[v1]]: 1[z:1] 2[a:1|drop:2|b:3]\n[12] map[k:[v2]]: 2[a:1|drop:2|b:3] 2[a:1|drop:2|b:3]\n[13] map[k:[v3]]: 4[w:1] 5[drop:1|drop:2] 3[c:1] 2[a:1|drop:2|b:3]\nlocs=5: 1/1 2/3 3/1 4/1 5/2 drop=\"nomatch\" keep=\"\"\n",
	"4/5": "[10] map[k:[v0]]: 1[z:1] 2[a:1|drop:2|b:3] 3[c:1]\n[11] map[k:[v1]]: 1[z:1] 2[a:1|drop:2|b:3]\n[12] map[k:[v2]]: 2[a:1|drop:2|b:3] 2[a:1|drop:2|b:3]\n[13] map[k:[v3]]: 4[w:1] 5[drop:1|drop:2] 3[c:1] 2[a:1|drop:2|b:3]\nlocs=5: 1/1 2/3 3/1 4/1 5/2 drop=\"ns::.*\" keep=\".*operator.*\"\n",
	"4/6": "[10] map[k:[v0]]: 1[z:1] 2[a:1|drop:2|b:3] 3[c:1]\n[11] map[k:[v1]]: 1[z:1] 2[a:1|drop:2|b:3]\n[12] map[k:[v2]]: 2[a:1|drop:2|b:3] 2[a:1|drop:2|b:3]\n[13] map[k:[v3]]: 4[w:1] 5[drop:1|drop:2] 3[c:1] 2[a:1|drop:2|b:3]\nlocs=5: 1/1 2/3 3/1 4/1 5/2 drop=\"\" keep=\"\"\n",
	"4/7": "[10] map[k:[v0]]: 1[z:1] 2[a:1|drop:2|b:3] 3[c:1]\n[11] map[k:[v1]]: 1[z:1] 2[a:1|drop:2|b:3]\n[12] map[k:[v2]]: 2[a:1|drop:2|b:3] 2[a:1|drop:2|b:3]\n[13] map[k:[v3]]: 4[w:1] 5[drop:1|drop:2] 3[c:1] 2[a:1|drop:2|b:3]\nlocs=5: 1/1 2/3 3/1 4/1 5/2 drop=\"dro\" keep=\"\"\n",
	"5/0": "[10] map[k:[v0]]: 1[l:1] 2[ns::(anonymous namespace)::drop(int):1] 3[m:1]\n[11] map[k:[v1]]: 1[l:1] 4[ns::operator()(int):1] 3[m:1]\n[12] map[k:[v2]]: 1[l:1] 5[other:1|ns::operator():2] 3[m:1]\nlocs=5: 1/1 2/1 3/1 4/1 5/2 drop=\"drop\" keep=\"\"\n",
	"5/1": "[10] map[k:[v0]]: 1[l:1] 2[ns::(anonymous namespace)::drop(int):1] 3[m:1]\n[11] map[k:[v1]]: 1[l:1] 4[ns::operator()(int):1] 3[m:1]\n[12] map[k:[v2]]: 1[l:1] 5[other:1|ns::operator():2] 3[m:1]\nlocs=5: 1/1 2/1 3/1 4/1 5/2 drop=\"drop.*\" keep=\"dropkeep\"\n",
	"5/2": "[10] map[k:[v0]]: 1[l:1] 2[ns::(anonymous namespace)::drop(int):1] 3[m:1]\n[11] map[k:[v1]]: 1[l:1] 4[ns::operator()(int):1] 3[m:1]\n[12] map[k:[v2]]: 1[l:1] 5[other:1|ns::operator():2] 3[m:1]\nlocs=5: 1/1 2/1 3/1 4/1 5/2 drop=\"drop|a\" keep=\"\"\n",
	"5/3": "[10] map[k:[v0]]: 3[m:1]\n[11] map[k:[v1]]: 3[m:1]\n[12] map[k:[v2]]: 3[m:1]\nlocs=5: 1/1 2/1 3/1 4/1 5/2 drop=\".*\" keep=\"m|main|c\"\n",
	"5/4": "[10] map[k:[v0]]: 1[l:1] 2[ns::(anonymous namespace)::drop(int):1] 3[m:1]\n[11] map[k:[v1]]: 1[l:1] 4[ns::operator()(int):1] 3[m:1]\n[12] map[k:[v2]]: 1[l:1] 5[other:1|ns::operator():2] 3[m:1]\nlocs=5: 1/1 2/1 3/1 4/1 5/2 drop=\"nomatch\" keep=\"\"\n",
	"5/5": "[10] map[k:[v0]]: 3[m:1]\n[11] map[k:[v1]]: 1[l:1] 4[ns::operator()(int):1] 3[m:1]\n[12] map[k:[v2]]: 1[l:1] 5[other:1|ns::operator():2] 3[m:1]\nlocs=5: 1/1 2/1 3/1 4/1 5/2 drop=\"ns::.*\" keep=\".*operator.*\"\n",
	"5/6": "[10] map[k:[v0]]: 1[l:1] 2[ns::(anonymous namespace)::drop(int):1] 3[m:1]\n[11] map[k:[v1]]: 1[l:1] 4[ns::operator()(int):1] 3[m:1]\n[12] map[k:[v2]]: 1[l:1] 5[other:1|ns::operator():2] 3[m:1]\nlocs=5: 1/1 2/1 3/1 4/1 5/2 drop=\"\" keep=\"\"\n",
	"5/7": "[10] map[k:[v0]]: 1[l:1] 2[ns::(anonymous namespace)::drop(int):1] 3[m:1]\n[11] map[k:[v1]]: 1[l:1] 4[ns::operator()(int):1] 3[m:1]\n[12] map[k:[v2]]: 1[l:1] 5[other:1|ns::operator():2] 3[m:1]\nlocs=5: 1/1 2/1 3/1 4/1 5/2 drop=\"dro\" keep=\"\"\n",
}
var zzAWantPF = map[string]string{
	"0/0": "[10] map[k:[v0]]: 2[drop:1|mid:2] 3[user:1] 4[main:1]\n[11] map[k:[v1]]: 2[drop:1|mid:2] 4[main:1]\n[12] map[k:[v2]]: 2[drop:1|mid:2] 4[main:1]\n[13] map[k:[v3]]: 6[drop:2] 7[y:1] 4[main:1]\nlocs=7: 1/1 2/2 3/1 4/1 5/1 6/1 7/1 drop=\"\" keep=\"\"\n",
	"0/1": "[10] map[k:[v0]]: 2[drop:1|mid:2] 3[user:1] 4[main:1]\n[11] map[k:[v1]]: 2[drop:1|mid:2] 4[main:1]\n[12] map[k:[v2]]: 2[drop:1|mid:2] 4[main:1]\n[13] map[k:[v3]]: 6[drop:2] 7[y:1] 4[main:1]\nlocs=7: 1/1 2/2 3/1 4/1 5/1 6/1 7/1 drop=\"\" keep=\"\"\n",
	"0/2": "[10] map[k:[v0]]: 2[drop:1|mid:2] 3[user:1] 4[main:1]\n[11] map[k:[v1]]: 2[drop:1|mid:2] 4[main:1]\n[12] map[k:[v2]]: 2[drop:1|mid:2] 4[main:1]\n[13] map[k:[v3]]: 6[drop:2] 7[y:1] 4[main:1]\nlocs=7: 1/1 2/2 3/1 4/1 5/1 6/1 7/1 drop=\"\" keep=\"\"\n",
	"0/3": "[10] map[k:[v0]]: 1[leaf:1] 2[drop:1|mid:2] 3[user:1] 4[main:1]\n[11] map[k:[v1]]: 5[other:1] 2[drop:1|mid:2] 4[main:1]\n[12] map[k:[v2]]: 2[drop:1|mid:2] 4[main:1]\n[13] map[k:[v3]]: 6[x:1|drop:2] 7[y:1] 4[main:1]\nlocs=7: 1/1 2/2 3/1 4/1 5/1 6/2 7/1 drop=\"\" keep=\"\"\n",
	"0/4": "[10] map[k:[v0]]: 1[leaf:1] 2[drop:1|mid:2] 3[user:1] 4[main:1]\n[11] map[k:[v1]]: 5[other:1] 2[drop:1|mid:2] 4[main:1]\n[12] map[k:[v2]]: 2[drop:1|mid:2] 4[main:1]\n[13] map[k:[v3]]: 6[x:1|drop:2] 7[y:1] 4[main:1]\nlocs=7: 1/1 2/2 3/1 4/1 5/1 6/2 7/1 drop=\"\" keep=\"\"\n",
	"0/5": "[10] map[k:[v0]]: 1[leaf:1] 2[drop:1|mid:2] 3[user:1] 4[main:1]\n[11] map[k:[v1]]: 5[other:1] 2[drop:1|mid:2] 4[main:1]\n[12] map[k:[v2]]: 2[drop:1|mid:2] 4[main:1]\n[13] map[k:[v3]]: 6[x:1|drop:2] 7[y:1] 4[main:1]\nlocs=7: 1/1 2/2 3/1 4/1 5/1 6/2 7/1 drop=\"\" keep=\"\"\n",
	"0/7": "[10] map[k:[v0]]: 1[leaf:1] 2[drop:1|mid:2] 3[user:1] 4[main:1]\n[11] map[k:[v1]]: 5[other:1] 2[drop:1|mid:2] 4[main:1]\n[12] map[k:[v2]]: 2[drop:1|mid:2] 4[main:1]\n[13] map[k:[v3]]: 6[x:1|drop:2] 7[y:1] 4[main:1]\nlocs=7: 1/1 2/2 3/1 4/1 5/1 6/2 7/1 drop=\"\" keep=\"\"\n",
	"1/0": "[10] map[k:[v0]]: 3[drop:1]\n[11] map[k:[v1]]: 3[drop:1] 1[a:1] 2[b:1]\n[12] map[k:[v2]]: 3[drop:1]\n[13] map[k:[v3]]: 4[drop:2]\n[14] map[k:[v4]]: 5[drop:1|a:2]\n[15] map[k:[v5]]: 3[drop:1] 3[drop:1]\n[16] map[k:[v6]]: 3[drop:1] 2[b:1] 3[drop:1]\nlocs=5: 1/1 2/1 3/1 4/1 5/2 drop=\"\" keep=\"\"\n",
	"1/1": "[10] map[k:[v0]]: 3[drop:1]\n[11] map[k:[v1]]: 3[drop:1] 1[a:1] 2[b:1]\n[12] map[k:[v2]]: 3[drop:1]\n[13] map[k:[v3]]: 4[drop:2]\n[14] map[k:[v4]]: 5[drop:1|a:2]\n[15] map[k:[v5]]: 3[drop:1] 3[drop:1]\n[16] map[k:[v6]]: 3[drop:1] 2[b:1] 3[drop:1]\nlocs=5: 1/1 2/1 3/1 4/1 5/2 drop=\"\" keep=\"\"\n",
	"1/2": "[10] map[k:[v0]]: 1[a:1] 2[b:1] 3[drop:1]\n[11] map[k:[v1]]: 3[drop:1] 1[a:1] 2[b:1]\n[12] map[k:[v2]]: 3[drop:1]\n[13] map[k:[v3]]: 4[a:1|drop:2]\n[14] map[k:[v4]]: 5[drop:1|a:2]\n[15] map[k:[v5]]: 1[a:1] 3[drop:1] 3[drop:1]\n[16] map[k:[v6]]: 1[a:1] 3[drop:1] 2[b:1] 3[drop:1]\nlocs=5: 1/1 2/1 3/1 4/2 5/2 drop=\"\" keep=\"\"\n",
	"1/3": "[10] map[k:[v0]]: 1[a:1] 2[b:1] 3[drop:1]\n[11] map[k:[v1]]: 3[drop:1] 1[a:1] 2[b:1]\n[12] map[k:[v2]]: 3[drop:1]\n[13] map[k:[v3]]: 4[a:1|drop:2]\n[14] map[k:[v4]]: 5[drop:1|a:2]\n[15] map[k:[v5]]: 1[a:1] 3[drop:1] 3[drop:1]\n[16] map[k:[v6]]: 1[a:1] 3[drop:1] 2[b:1] 3[drop:1]\nlocs=5: 1/1 2/1 3/1 4/2 5/2 drop=\"\" keep=\"\"\n",
	"1/4": "[10] map[k:[v0]]: 1[a:1] 2[b:1] 3[drop:1]\n[11] map[k:[v1]]: 3[drop:1] 1[a:1] 2[b:1]\n[12] map[k:[v2]]: 3[drop:1]\n[13] map[k:[v3]]: 4[a:1|drop:2]\n[14] map[k:[v4]]: 5[drop:1|a:2]\n[15] map[k:[v5]]: 1[a:1] 3[drop:1] 3[drop:1]\n[16] map[k:[v6]]: 1[a:1] 3[drop:1] 2[b:1] 3[drop:1]\nlocs=5: 1/1 2/1 3/1 4/2 5/2 drop=\"\" keep=\"\"\n",
	"1/5": "[10] map[k:[v0]]: 1[a:1] 2[b:1] 3[drop:1]\n[11] map[k:[v1]]: 3[drop:1] 1[a:1] 2[b:1]\n[12] map[k:[v2]]: 3[drop:1]\n[13] map[k:[v3]]: 4[a:1|drop:2]\n[14] map[k:[v4]]: 5[drop:1|a:2]\n[15] map[k:[v5]]: 1[a:1] 3[drop:1] 3[drop:1]\n[16] map[k:[v6]]: 1[a:1] 3[drop:1] 2[b:1] 3[drop:1]\nlocs=5: 1/1 2/1 3/1 4/2 5/2 drop=\"\" keep=\"\"\n",
	"1/7": "[10] map[k:[v0]]: 1[a:1] 2[b:1] 3[drop:1]\n[11] map[k:[v1]]: 3[drop:1] 1[a:1] 2[b:1]\n[12] map[k:[v2]]: 3[drop:1]\n[13] map[k:[v3]]: 4[a:1|drop:2]\n[14] map[k:[v4]]: 5[drop:1|a:2]\n[15] map[k:[v5]]: 1[a:1] 3[drop:1] 3[drop:1]\n[16] map[k:[v6]]: 1[a:1] 3[drop:1] 2[b:1] 3[drop:1]\nlocs=5: 1/1 2/1 3/1 4/2 5/2 drop=\"\" keep=\"\"\n",
	"2/0": "[10] map[k:[v0]]: 2[drop(int):1] 3[m:1]\n[11] map[k:[v1]]: 1[l:1] 4[dropkeep:1] 3[m:1]\n[12] map[k:[v2]]: 5[drop(x):3|r:4] 3[m:1]\n[13] map[k:[v3]]: 6[.drop:1] 4[dropkeep:1] 3[m:1]\nlocs=6: 1/1 2/1 3/1 4/1 5/2 6/1 drop=\"\" keep=\"\"\n",
	"2/1": "[10] map[k:[v0]]: 2[drop(int):1] 3[m:1]\n[11] map[k:[v1]]: 4[dropkeep:1] 3[m:1]\n[12] map[k:[v2]]: 5[dropkeep:2|drop(x):3|r:4] 3[m:1]\n[13] map[k:[v3]]: 6[.drop:1] 4[dropkeep:1] 3[m:1]\nlocs=6: 1/1 2/1 3/1 4/1 5/3 6/1 drop=\"\" keep=\"\"\n",
	"2/2": "[10] map[k:[v0]]: 2[drop(int):1] 3[m:1]\n[11] map[k:[v1]]: 1[l:1] 4[dropkeep:1] 3[m:1]\n[12] map[k:[v2]]: 5[drop(x):3|r:4] 3[m:1]\n[13] map[k:[v3]]: 6[.drop:1] 4[dropkeep:1] 3[m:1]\nlocs=6: 1/1 2/1 3/1 4/1 5/2 6/1 drop=\"\" keep=\"\"\n",
	"2/3": "[10] map[k:[v0]]: 1[l:1] 2[drop(int):1] 3[m:1]\n[11] map[k:[v1]]: 1[l:1] 4[dropkeep:1] 3[m:1]\n[12] map[k:[v2]]: 1[l:1] 5[q:1|dropkeep:2|drop(x):3|r:4] 3[m:1]\n[13] map[k:[v3]]: 1[l:1] 6[.drop:1] 4[dropkeep:1] 3[m:1]\nlocs=6: 1/1 2/1 3/1 4/1 5/4 6/1 drop=\"\" keep=\"\"\n",
	"2/4": "[10] map[k:[v0]]: 1[l:1] 2[drop(int):1] 3[m:1]\n[11] map[k:[v1]]: 1[l:1] 4[dropkeep:1] 3[m:1]\n[12] map[k:[v2]]: 1[l:1] 5[q:1|dropkeep:2|drop(x):3|r:4] 3[m:1]\n[13] map[k:[v3]]: 1[l:1] 6[.drop:1] 4[dropkeep:1] 3[m:1]\nlocs=6: 1/1 2/1 3/1 4/1 5/4 6/1 drop=\"\" keep=\"\"\n",
	"2/5": "[10] map[k:[v0]]: 1[l:1] 2[drop(int):1] 3[m:1]\n[11] map[k:[v1]]: 1[l:1] 4[dropkeep:1] 3[m:1]\n[12] map[k:[v2]]: 1[l:1] 5[q:1|dropkeep:2|drop(x):3|r:4] 3[m:1]\n[13] map[k:[v3]]: 1[l:1] 6[.drop:1] 4[dropkeep:1] 3[m:1]\nlocs=6: 1/1 2/1 3/1 4/1 5/4 6/1 drop=\"\" keep=\"\"\n",
	"2/7": "[10] map[k:[v0]]: 1[l:1] 2[drop(int):1] 3[m:1]\n[11] map[k:[v1]]: 1[l:1] 4[dropkeep:1] 3[m:1]\n[12] map[k:[v2]]: 1[l:1] 5[q:1|dropkeep:2|drop(x):3|r:4] 3[m:1]\n[13] map[k:[v3]]: 1[l:1] 6[.drop:1] 4[dropkeep:1] 3[m:1]\nlocs=6: 1/1 2/1 3/1 4/1 5/4 6/1 drop=\"\" keep=\"\"\n",
	"3/0": "[10] map[k:[v0]]: 3[drop:1] 2[]\n[11] map[k:[v1]]: 4[drop:2|:3] 5[m:1]\n[12] map[k:[v2]]: 3[drop:1] 6[:1]\n[13] map[k:[v3]]: 3[drop:1]\n[14] map[k:[v4]]: 7[drop:1|:2] 8[:1|m:2]\nlocs=8: 1/1 2/0 3/1 4/2 5/1 6/1 7/2 8/2 drop=\"\" keep=\"\"\n",
	"3/1": "[10] map[k:[v0]]: 3[drop:1] 2[]\n[11] map[k:[v1]]: 4[drop:2|:3] 5[m:1]\n[12] map[k:[v2]]: 3[drop:1] 6[:1]\n[13] map[k:[v3]]: 3[drop:1]\n[14] map[k:[v4]]: 7[drop:1|:2] 8[:1|m:2]\nlocs=8: 1/1 2/0 3/1 4/2 5/1 6/1 7/2 8/2 drop=\"\" keep=\"\"\n",
	"3/2": "[10] map[k:[v0]]: 3[drop:1] 2[]\n[11] map[k:[v1]]: 4[drop:2|:3] 5[m:1]\n[12] map[k:[v2]]: 3[drop:1] 6[:1]\n[13] map[k:[v3]]: 3[drop:1]\n[14] map[k:[v4]]: 7[drop:1|:2] 8[:1|m:2]\nlocs=8: 1/1 2/0 3/1 4/2 5/1 6/1 7/2 8/2 drop=\"\" keep=\"\"\n",
	"3/3": "[10] map[k:[v0]]: 1[l:1] 2[] 3[drop:1] 2[]\n[11] map[k:[v1]]: 1[l:1] 4[drop:2|:3] 5[m:1]\n[12] map[k:[v2]]: 1[l:1] 3[drop:1] 6[:1]\n[13] map[k:[v3]]: 3[drop:1]\n[14] map[k:[v4]]: 1[l:1] 7[drop:1|:2] 8[m:2]\nlocs=8: 1/1 2/0 3/1 4/2 5/1 6/1 7/2 8/1 drop=\"\" keep=\"\"\n",
	"3/4": "[10] map[k:[v0]]: 1[l:1] 2[] 3[drop:1] 2[]\n[11] map[k:[v1]]: 1[l:1] 4[:1|drop:2|:3] 5[m:1]\n[12] map[k:[v2]]: 1[l:1] 3[drop:1] 6[:1]\n[13] map[k:[v3]]: 2[] 3[drop:1]\n[14] map[k:[v4]]: 1[l:1] 7[drop:1|:2] 8[:1|m:2]\nlocs=8: 1/1 2/0 3/1 4/3 5/1 6/1 7/2 8/2 drop=\"\" keep=\"\"\n",
	"3/5": "[10] map[k:[v0]]: 1[l:1] 2[] 3[drop:1] 2[]\n[11] map[k:[v1]]: 1[l:1] 4[:1|drop:2|:3] 5[m:1]\n[12] map[k:[v2]]: 1[l:1] 3[drop:1] 6[:1]\n[13] map[k:[v3]]: 2[] 3[drop:1]\n[14] map[k:[v4]]: 1[l:1] 7[drop:1|:2] 8[:1|m:2]\nlocs=8: 1/1 2/0 3/1 4/3 5/1 6/1 7/2 8/2 drop=\"\" keep=\"\"\n",
	"3/7": "[10] map[k:[v0]]: 1[l:1] 2[] 3[drop:1] 2[]\n[11] map[k:[v1]]: 1[l:1] 4[:1|drop:2|:3] 5[m:1]\n[12] map[k:[v2]]: 1[l:1] 3[drop:1] 6[:1]\n[13] map[k:[v3]]: 2[] 3[drop:1]\n[14] map[k:[v4]]: 1[l:1] 7[drop:1|:2] 8[:1|m:2]\nlocs=8: 1/1 2/0 3/1 4/3 5/1 6/1 7/2 8/2 drop=\"\" keep=\"\"\n",
	"4/0": "[10] map[k:[v0]]: 2[drop:2|b:3] 3[c:1]\n[11] map[k:[v1]]: 2[drop:2|b:3]\n[12] map[k:[v2]]: 2[drop:2|b:3] 2[drop:2|b:3]\n[13] map[k:[v3]]: 5[drop:1|drop:2] 3[c:1] 2[drop:2|b:3]\nlocs=5: 1/1 2/2 3/1 4/1 5/2 drop=\"\" keep=\"\"\n",
	"4/1": "[10] map[k:[v0]]: 2[drop:2|b:3] 3[c:1]\n[11] map[k:[v1]]: 2[drop:2|b:3]\n[12] map[k:[v2]]: 2[drop:2|b:3] 2[drop:2|b:3]\n[13] map[k:[v3]]: 5[drop:1|drop:2] 3[c:1] 2[drop:2|b:3]\nlocs=5: 1/1 2/2 3/1 4/1 5/2 drop=\"\" keep=\"\"\n",
	"4/2": "[10] map[k:[v0]]: 2[a:1|drop:2|b:3] 3[c:1]\n[11] map[k:[v1]]: 2[a:1|drop:2|b:3]\n[12] map[k:[v2]]: 2[a:1|drop:2|b:3] 2[a:1|drop:2|b:3]\n[13] map[k:[v3]]: 5[drop:1|drop:2] 3[c:1] 2[a:1|drop:2|b:3]\nlocs=5: 1/1 2/3 3/1 4/1 5/2 drop=\"\" keep=\"\"\n",
	"4/3": "[10] map[k:[v0]]: 1[z:1] 2[a:1|drop:2|b:3] 3[c:1]\n[11] map[k:[v1]]: 1[z:1] 2[a:1|drop:2|b:3]\n[12] map[k:[v2]]: 2[a:1|drop:2|b:3] 2[a:1|drop:2|b:3]\n[13] map[k:[v3]]: 4[w:1] 5[drop:1|drop:2] 3[c:1] 2[a:1|drop:2|b:3]\nlocs=5: 1/1 2/3 3/1 4/1 5/2 drop=\"\" keep=\"\"\n",
	"4/4": "[10] map[k:[v0]]: 1[z:1] 2[a:1|drop:2|b:3] 3[c:1]\n[11] map[k:[v1]]: 1[z:1] 2[a:1|drop:2|b:3]\n[12] map[k:[v2]]: 2[a:1|drop:2|b:3] 2[a:1|drop:2|b:3]\n[13] map[k:[v3]]: 4[w:1] 5[drop:1|drop:2] 3[c:1] 2[a:1|drop:2|b:3]\nlocs=5: 1/1 2/3 3/1 4/1 5/2 drop=\"\" keep=\"\"\n",
	"4/5": "[10] map[k:[v0]]: 1[z:1] 2[a:1|drop:2|b:3] 3[c:1]\n[11] map[k:[v1]]: 1[z:1] 2[a:1|drop:2|b:3]\n[12] map[k:[v2]]: 2[a:1|drop:2|b:3] 2[a:1|drop:2|b:3]\n[13] map[k:[v3]]: 4[w:1] 5[drop:1|drop:2] 3[c:1] 2[a:1|drop:2|b:3]\nlocs=5: 1/1 2/3 3/1 4/1 5/2 drop=\"\" keep=\"\"\n",
	"4/7": "[10] map[k:[v0]]: 1[z:1] 2[a:1|drop:2|b:3] 3[c:1]\n[11] map[k:[v1]]: 1[z:1] 2[a:1|drop:2|b:3]\n[12] map[k:[v2]]: 2[a:1|drop:2|b:3] 2[a:1|drop:2|b:3]\n[13] map[k:[v3]]: 4[w:1] 5[drop:1|drop:2] 3[c:1] 2[a:1|drop:2|b:3]\nlocs=5: 1/1 2/3 3/1 4/1 5/2 drop=\"\" keep=\"\"\n",
	"5/0": "[10] map[k:[v0]]: 1[l:1] 2[ns::(anonymous namespace)::drop(int):1] 3[m:1]\n[11] map[k:[v1]]: 1[l:1] 4[ns::operator()(int):1] 3[m:1]\n[12] map[k:[v2]]: 1[l:1] 5[other:1|ns::operator():2] 3[m:1]\nlocs=5: 1/1 2/1 3/1 4/1 5/2 drop=\"\" keep=\"\"\n",
	"5/1": "[10] map[k:[v0]]: 1[l:1] 2[ns::(anonymous namespace)::drop(int):1] 3[m:1]\n[11] map[k:[v1]]: 1[l:1] 4[ns::operator()(int):1] 3[m:1]\n[12] map[k:[v2]]: 1[l:1] 5[other:1|ns::operator():2] 3[m:1]\nlocs=5: 1/1 2/1 3/1 4/1 5/2 drop=\"\" keep=\"\"\n",
	"5/2": "[10] map[k:[v0]]: 1[l:1] 2[ns::(anonymous namespace)::drop(int):1] 3[m:1]\n[11] map[k:[v1]]: 1[l:1] 4[ns::operator()(int):1] 3[m:1]\n[12] map[k:[v2]]: 1[l:1] 5[other:1|ns::operator():2] 3[m:1]\nlocs=5: 1/1 2/1 3/1 4/1 5/2 drop=\"\" keep=\"\"\n",
	"5/3": "[10] map[k:[v0]]: 1[l:1] 2[ns::(anonymous namespace)::drop(int):1] 3[m:1]\n[11] map[k:[v1]]: 1[l:1] 4[ns::operator()(int):1] 3[m:1]\n[12] map[k:[v2]]: 1[l:1] 5[other:1|ns::operator():2] 3[m:1]\nlocs=5: 1/1 2/1 3/1 4/1 5/2 drop=\"\" keep=\"\"\n",
	"5/4": "[10] map[k:[v0]]: 1[l:1] 2[ns::(anonymous namespace)::drop(int):1] 3[m:1]\n[11] map[k:[v1]]: 1[l:1] 4[ns::operator()(int):1] 3[m:1]\n[12] map[k:[v2]]: 1[l:1] 5[other:1|ns::operator():2] 3[m:1]\nlocs=5: 1/1 2/1 3/1 4/1 5/2 drop=\"\" keep=\"\"\n",
	"5/5": "[10] map[k:[v0]]: 2[ns::(anonymous namespace)::drop(int):1] 3[m:1]\n[11] map[k:[v1]]: 4[ns::operator()(int):1] 3[m:1]\n[12] map[k:[v2]]: 5[ns::operator():2] 3[m:1]\nlocs=5: 1/1 2/1 3/1 4/1 5/1 drop=\"\" keep=\"\"\n",
	"5/7": "[10] map[k:[v0]]: 1[l:1] 2[ns::(anonymous namespace)::drop(int):1] 3[m:1]\n[11] map[k:[v1]]: 1[l:1] 4[ns::operator()(int):1] 3[m:1]\n[12] map[k:[v2]]: 1[l:1] 5[other:1|ns::operator():2] 3[m:1]\nlocs=5: 1/1 2/1 3/1 4/1 5/2 drop=\"\" keep=\"\"\n",
}

// TestZZEquivA checks simplifyFunc directly and through RemoveUninteresting / PruneFrom
// against outputs recorded on the unmodified tree.
func TestZZEquivA(t *testing.T) {
	if len(zzAWantSF) != len(zzANames) {
		t.Fatalf("table size mismatch")
	}
	for _, n := range zzANames {
		if got, want := simplifyFunc(n), zzAWantSF[n]; got != want {
			t.Errorf("simplifyFunc(%q) = %q, want %q", n, got, want)
		}
	}
	for pi, sp := range zzAProfiles {
		for ri, rx := range zzARx {
			key := fmt.Sprintf("%d/%d", pi, ri)
			p := zzABuild(sp)
			p.DropFrames, p.KeepFrames = rx[0], rx[1]
			if err := p.RemoveUninteresting(); err != nil {
				t.Fatal(err)
			}
			if got := zzADump(p); got != zzAWantRU[key] {
				t.Errorf("RemoveUninteresting %s:\n got %q\nwant %q", key, got, zzAWantRU[key])
			}
			if rx[0] == "" {
				continue
			}
			p = zzABuild(sp)
			p.PruneFrom(regexp.MustCompile("^(" + rx[0] + ")$"))
			if got := zzADump(p); got != zzAWantPF[key] {
				t.Errorf("PruneFrom %s:\n got %q\nwant %q", key, got, zzAWantPF[key])
			}
		}
	}
}

// zzARefSimplify is a verbatim copy of the regexp-based simplifyFunc of the unmodified tree.
func zzARefSimplify(f string) string {
	reserved := []string{"(anonymous namespace)", "operator()"}
	var quoted []string
	for _, name := range append(append([]string{}, reserved...), "(") {
		quoted = append(quoted, regexp.QuoteMeta(name))
	}
	rx := regexp.MustCompile(strings.Join(quoted, "|"))
	funcName := strings.TrimPrefix(f, ".")
	for _, ind := range rx.FindAllStringSubmatchIndex(funcName, -1) {
		foundReserved := false
		for _, res := range reserved {
			if funcName[ind[0]:ind[1]] == res {
				foundReserved = true
				break
			}
		}
		if !foundReserved {
			funcName = funcName[:ind[0]]
			break
		}
	}
	return funcName
}

// TestZZEquivADifferential compares simplifyFunc with the reference copy on
// pseudo-random names assembled from tokens that stress the reserved-name logic.
func TestZZEquivADifferential(t *testing.T) {
	toks := []string{"(anonymous namespace)", "operator()", "(", ")", ".", "::", "operator", "(anonymous", " namespace)", "a", "Foo", "<", ">", "語", "\xff", "o", "()"}
	seed := uint32(12345)
	next := func(n int) int {
		seed = seed*1664525 + 1013904223
		return int(seed>>8) % n
	}
	for i := 0; i < 20000; i++ {
		var b strings.Builder
		for k := next(7); k >= 0; k-- {
			b.WriteString(toks[next(len(toks))])
		}
		s := b.String()
		if got, want := simplifyFunc(s), zzARefSimplify(s); got != want {
			t.Fatalf("simplifyFunc(%q) = %q, reference %q", s, got, want)
		}
	}
}
