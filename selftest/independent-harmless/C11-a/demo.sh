#!/bin/bash
# usage: demo.sh <worktree root>
set -u
export GOFLAGS=-mod=mod GOPROXY=off GOSUMDB=off GOTOOLCHAIN=local
root=${1:?worktree root}
here=$(cd "$(dirname "$0")" && pwd)
cp "$here/zz_equiv_a_test.go" "$root/profile/zz_equiv_a_test.go"
(cd "$root" && go test -vet=off -count=1 -run 'TestZZEquivA' ./profile)
rc=$?
rm -f "$root/profile/zz_equiv_a_test.go"
exit $rc
