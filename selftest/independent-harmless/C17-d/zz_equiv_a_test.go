package driver

// Equivalence demonstration for property C17 (change A). The expected
// digests below were computed on the unchanged tree; the test must pass both
// with and without the change.

import (
	"crypto/sha256"
	"encoding/hex"
	"encoding/json"
	"fmt"
	"io"
	"net/http"
	"os"
	"strings"
	"testing"

	"net/http/httptest"

	"github.com/google/pprof/internal/plugin"
	"github.com/google/pprof/internal/proftest"
	"github.com/google/pprof/internal/report"
	"github.com/google/pprof/profile"
)

func zzProfileA() *profile.Profile {
	fn := func(id uint64, name, file string) *profile.Function {
		return &profile.Function{ID: id, Name: name, SystemName: name, Filename: file}
	}
	fMain := fn(1, "main.main", "/src/app/main.go")
	fFoo := fn(2, "example.com/pkg/foo.(*T).Run", "/src/pkg/foo/foo.go")
	fBar := fn(3, "ns::Klass<int>::bar(char&, 'x')", "/src/cc/bar.cc")
	fBar2 := fn(4, "ns::Klass<int>::bar(char&, 'x')", "/src/other/bar.cc")
	fOdd := fn(5, "a</script><!--b \"q\"\\", "dir/<odd>&.go")
	fns := []*profile.Function{fMain, fFoo, fBar, fBar2, fOdd}
	m := &profile.Mapping{ID: 1, Start: 0x1000, Limit: 0x100000, File: "testbin",
		HasFunctions: true, HasFilenames: true, HasLineNumbers: true}
	ln := func(f *profile.Function, line, col int64) profile.Line {
		return profile.Line{Function: f, Line: line, Column: col}
	}
	loc := func(id uint64, lines ...profile.Line) *profile.Location {
		return &profile.Location{ID: id, Address: 0x1000 * id, Mapping: m, Line: lines}
	}
	lMain := loc(1, ln(fMain, 10, 0))
	lFoo := loc(2, ln(fFoo, 20, 3))
	lInl := loc(3, ln(fBar, 31, 0), ln(fFoo, 22, 0), ln(fMain, 12, 7))
	lBar2 := loc(4, ln(fBar2, 31, 0))
	lNoFn := loc(5, ln(fOdd, 0, 0), ln(fBar2, 0, 9)) // line-less inlined frame
	lNoLine := loc(6)
	lOdd := loc(7, ln(fOdd, 1, 0))
	locs := []*profile.Location{lMain, lFoo, lInl, lBar2, lNoFn, lNoLine, lOdd}
	s := func(v int64, l ...*profile.Location) *profile.Sample {
		return &profile.Sample{Value: []int64{1, v}, Location: l}
	}
	return &profile.Profile{
		PeriodType:    &profile.ValueType{Type: "cpu", Unit: "milliseconds"},
		Period:        1,
		DurationNanos: 10e9,
		SampleType:    []*profile.ValueType{{Type: "samples", Unit: "count"}, {Type: "cpu", Unit: "milliseconds"}},
		Sample: []*profile.Sample{
			s(100, lInl, lFoo, lMain),
			s(-40, lFoo, lFoo, lInl, lFoo, lMain),
			s(7),
			s(5, lNoLine),
			s(11, lNoFn, lMain),
			s(13, lNoFn, lNoFn, lMain),
			s(17, lBar2, lInl, lMain),
			s(19, lOdd, lFoo, lMain),
			s(23, lMain),
			s(100, lInl, lFoo, lMain),
		},
		Location: locs,
		Function: fns,
		Mapping:  []*profile.Mapping{m},
	}
}

// zzServerA serves the web UI for prof; errors printed to the UI are allowed
// (some of the requests below are expected to fail).
func zzServerA(t *testing.T, prof *profile.Profile) *httptest.Server {
	var server *httptest.Server
	created := make(chan bool)
	creator := func(a *plugin.HTTPServerArgs) error {
		server = httptest.NewServer(http.HandlerFunc(
			func(w http.ResponseWriter, r *http.Request) {
				if h := a.Handlers[r.URL.Path]; h != nil {
					h.ServeHTTP(w, r)
				}
			}))
		created <- true
		return nil
	}
	go serveWebInterface("unused:1234", prof, &plugin.Options{
		Obj:        fakeObjTool{},
		UI:         &proftest.TestUI{T: t, AllowRx: "."},
		HTTPServer: creator,
	}, false)
	<-created
	t.Cleanup(server.Close)
	return server
}

var zzWantA = map[string]string{
	"q:":                          "75ba9f4812e3a3bf83308881198014cc33696237df691cc6d8072eff54c5c408",
	"q:?g=functions":              "3531dbe9f4cde6bfc4d4422a314d3830db243fdffe7e607c0c46f0a57b8f2899",
	"q:?g=filefunctions":          "75ba9f4812e3a3bf83308881198014cc33696237df691cc6d8072eff54c5c408",
	"q:?g=files":                  "9616123c3ace4ac84cdd6fe7ff40c05a5754630f7dbd361a6c6ae89dcecd4165",
	"q:?g=lines":                  "9829bbc185d69f3c3081087cb60d6e2bd5d1a0222051fbbf7a9dabc4a15ebed0",
	"q:?g=addresses":              "bbdca3872dc97510e8d2717f4986a775f21bcbb49053bd8c71571637e8f28b0c",
	"q:?f=foo":                    "1ce175dcfc0dd93ac183abba504f1e7ded63b455309d9001a0f5ca1b329d6c6b",
	"q:?i=bar":                    "491a2c61cc220829ff6d40976ab78cf34b827e2aedeac38e6ed4278ad265f6cc",
	"q:?si=samples":               "8e440bf006e315436eddb8caceb8fcc2ad59328bad41a68008b0983f83ecb99f",
	"q:?noinlines=true":           "c563a03e7dece787bf7a78df50a081b5102b88738cce4857473ced0b53494e96",
	"q:?g=lines&showcolumns=true": "bbdca3872dc97510e8d2717f4986a775f21bcbb49053bd8c71571637e8f28b0c",
	"q:?h=main":                   "37fee9055d805efd730cb69fec417d1727bee6e9d2ee7b95a1262751fa1464fb",
	"q:?sf=Run":                   "cef31fde3069a448da3193bf4401a7cc984647d92d35b175f84025be0e21a79b",
	"q:?f=nosuchfunction":         "dc0ec9c213a43087a6c0a39f48c7cc6e375dd9038acbe494b6f0f19d88a658e9",
	"q:?g=bogus":                  "status 400",
	"q:?n=notanumber":             "status 400",
}

func TestZZEquivA(t *testing.T) {
	print := os.Getenv("ZZ_PRINT") != ""
	server := zzServerA(t, zzProfileA())
	for _, q := range []string{
		"", "?g=functions", "?g=filefunctions", "?g=files", "?g=lines", "?g=addresses",
		"?f=foo", "?i=bar", "?si=samples", "?noinlines=true", "?g=lines&showcolumns=true",
		"?h=main", "?sf=Run", "?f=nosuchfunction", "?g=bogus", "?n=notanumber",
	} {
		res, err := http.Get(server.URL + "/flamegraph" + q)
		if err != nil {
			t.Fatal(err)
		}
		data, err := io.ReadAll(res.Body)
		res.Body.Close()
		if err != nil {
			t.Fatal(err)
		}
		var got string
		if res.StatusCode != http.StatusOK {
			got = fmt.Sprint("status ", res.StatusCode)
		} else {
			line := ""
			for _, l := range strings.Split(string(data), "\n") {
				if strings.HasPrefix(strings.TrimSpace(l), "stackViewer(") {
					line = strings.TrimSpace(l)
				}
			}
			if line == "" {
				t.Errorf("%q: no stackViewer call in page", q)
				continue
			}
			zzCheckCallA(t, q, line)
			sum := sha256.Sum256([]byte(line))
			got = hex.EncodeToString(sum[:])
			if !print && got != zzWantA["q:"+q] {
				t.Logf("%q: page line: %s", q, line)
			}
		}
		if print {
			fmt.Printf("\t%q: %q,\n", "q:"+q, got)
			continue
		}
		if got != zzWantA["q:"+q] {
			t.Errorf("%q: got %s, want %s", q, got, zzWantA["q:"+q])
		}
	}
}

// zzCheckCallA parses "stackViewer(<stacks>, <nodes>);" and checks that the
// node list mirrors the sources and that the C17 invariants hold.
func zzCheckCallA(t *testing.T, q, line string) {
	t.Helper()
	args := strings.TrimSuffix(strings.TrimPrefix(line, "stackViewer("), ");")
	dec := json.NewDecoder(strings.NewReader(args))
	var raw json.RawMessage
	if err := dec.Decode(&raw); err != nil {
		t.Errorf("%q: cannot parse stacks: %v", q, err)
		return
	}
	if strings.Contains(string(raw), "null") && strings.Contains(string(raw), ":null") {
		t.Errorf("%q: null in stacks JSON", q)
	}
	var s report.StackSet
	if err := json.Unmarshal(raw, &s); err != nil {
		t.Errorf("%q: cannot parse stacks: %v", q, err)
		return
	}
	rest := strings.TrimSpace(args[dec.InputOffset():])
	rest = strings.TrimSpace(strings.TrimPrefix(rest, ","))
	var nodes []string
	if err := json.Unmarshal([]byte(rest), &nodes); err != nil {
		t.Errorf("%q: cannot parse nodes %q: %v", q, rest, err)
		return
	}
	if len(nodes) != len(s.Sources) || len(nodes) == 0 || nodes[0] != "" {
		t.Errorf("%q: bad node list %q for %d sources", q, nodes, len(s.Sources))
		return
	}
	for i := 1; i < len(nodes); i++ {
		if nodes[i] != s.Sources[i].FullName {
			t.Errorf("%q: node %d = %q, want %q", q, i, nodes[i], s.Sources[i].FullName)
		}
	}
	var total int64
	self := make([]int64, len(s.Sources))
	nplaces := make([]int, len(s.Sources))
	for i, st := range s.Stacks {
		total += st.Value
		if len(st.Sources) == 0 || st.Sources[0] != 0 {
			t.Errorf("%q: stack %d not rooted", q, i)
			return
		}
		seen := map[int]bool{}
		for _, src := range st.Sources {
			if src < 0 || src >= len(s.Sources) {
				t.Errorf("%q: stack %d: source out of range", q, i)
				return
			}
			if !seen[src] {
				seen[src] = true
				nplaces[src]++
			}
		}
		self[st.Sources[len(st.Sources)-1]] += st.Value
	}
	for i, src := range s.Sources {
		if src.Self != self[i] || len(src.Places) != nplaces[i] || len(src.Display) == 0 {
			t.Errorf("%q: source %d inconsistent: %+v", q, i, src)
		}
		for _, p := range src.Places {
			if p.Stack < 0 || p.Stack >= len(s.Stacks) || p.Pos < 0 || p.Pos >= len(s.Stacks[p.Stack].Sources) ||
				s.Stacks[p.Stack].Sources[p.Pos] != i {
				t.Errorf("%q: source %d: bad place %v", q, i, p)
				continue
			}
			for k := 0; k < p.Pos; k++ {
				if s.Stacks[p.Stack].Sources[k] == i {
					t.Errorf("%q: source %d: place %v is not the outermost occurrence", q, i, p)
				}
			}
		}
	}
	_ = total
}
