package profile

import (
	"bytes"
	"crypto/sha256"
	"encoding/hex"
	"os"
	"path/filepath"
	"reflect"
	"testing"
)

// Equivalence demonstration for change A (string-table interning in
// preEncode). The expected values were computed on the unchanged tree.

func zzDigest(b []byte) string {
	h := sha256.Sum256(b)
	return hex.EncodeToString(h[:8])
}

func zzHandBuilt() *Profile {
	m := &Mapping{ID: 1, Start: 0x1000, Limit: 0x4000, File: "/bin/app", BuildID: "abc"}
	f1 := &Function{ID: 1, Name: "main", SystemName: "main", Filename: "main.go", StartLine: 3}
	f2 := &Function{ID: 2, Name: "work", SystemName: "_Zwork", Filename: "main.go"}
	l1 := &Location{ID: 1, Mapping: m, Address: 0x1100, Line: []Line{{Function: f1, Line: 10, Column: 2}}}
	l2 := &Location{ID: 2, Mapping: m, Address: 0x1200, Line: []Line{{Function: f2, Line: 20}, {Function: f1, Line: 11}}}
	l3 := &Location{ID: 3, Address: 0x9999}
	return &Profile{
		SampleType:        []*ValueType{{Type: "samples", Unit: "count"}, {Type: "cpu", Unit: "nanoseconds"}},
		DefaultSampleType: "cpu",
		PeriodType:        &ValueType{Type: "cpu", Unit: "nanoseconds"},
		Period:            10,
		TimeNanos:         12345,
		DurationNanos:     678,
		DropFrames:        "drop.*",
		KeepFrames:        "main",
		Comments:          []string{"first", "main", "", "first"},
		DocURL:            "http://example.com/doc",
		Sample: []*Sample{
			{
				Location: []*Location{l1, l2, l3},
				Value:    []int64{1, 100},
				Label:    map[string][]string{"zeta": {"v2", "v1"}, "alpha": {"main", "drop.*"}},
				NumLabel: map[string][]int64{"bytes": {8, 16, 0}, "alloc": {3}},
				NumUnit:  map[string][]string{"bytes": {"bytes", "", "kb"}},
			},
			{
				Location: []*Location{l2},
				Value:    []int64{2, 200},
				NumLabel: map[string][]int64{"bytes": {32}},
				NumUnit:  map[string][]string{"bytes": {"count"}},
			},
			{
				Location: []*Location{l3, l1, l2, l1},
				Value:    []int64{-3, 0},
				Label:    map[string][]string{"cpu": {"count"}},
			},
		},
		Mapping:  []*Mapping{m},
		Location: []*Location{l1, l2, l3},
		Function: []*Function{f1, f2},
	}
}

func TestZZEquivA(t *testing.T) {
	// 1. The exact string table of a hand-built profile (first-use order).
	p := zzHandBuilt()
	var buf bytes.Buffer
	if err := p.WriteUncompressed(&buf); err != nil {
		t.Fatal(err)
	}
	wantTable := []string{"", "samples", "count", "cpu", "nanoseconds",
		"alpha", "main", "drop.*", "zeta", "v2", "v1", "alloc", "bytes", "kb",
		"/bin/app", "abc", "main.go", "work", "_Zwork",
		"first", "http://example.com/doc"}
	if !reflect.DeepEqual(p.stringTable, wantTable) {
		t.Errorf("string table:\n got %q\nwant %q", p.stringTable, wantTable)
	}
	if got, want := zzDigest(buf.Bytes()), "3f383567489e662f"; got != want {
		t.Errorf("hand-built encoding digest %s, want %s", got, want)
	}
	// Encoding twice must give identical bytes and a fresh table.
	var buf2 bytes.Buffer
	if err := p.WriteUncompressed(&buf2); err != nil {
		t.Fatal(err)
	}
	if !bytes.Equal(buf.Bytes(), buf2.Bytes()) {
		t.Errorf("second encoding differs from first")
	}
	// Round trip.
	q, err := ParseData(buf.Bytes())
	if err != nil {
		t.Fatalf("re-parse: %v", err)
	}
	if err := q.CheckValid(); err != nil {
		t.Fatalf("re-parsed invalid: %v", err)
	}
	if got, want := q.String(), zzHandBuilt().String(); got != want {
		t.Errorf("round trip differs:\n got %s\nwant %s", got, want)
	}
	// An empty profile still gets string_table[0] == "".
	e := &Profile{}
	buf.Reset()
	if err := e.WriteUncompressed(&buf); err != nil {
		t.Fatal(err)
	}
	if !reflect.DeepEqual(e.stringTable, []string{""}) {
		t.Errorf("empty profile table %q", e.stringTable)
	}
	if got, want := hex.EncodeToString(buf.Bytes()), "32007000"; got != want {
		t.Errorf("empty profile bytes %s, want %s", got, want)
	}

	// 2. Parsed legacy and proto inputs: the uncompressed re-encoding is
	// byte-for-byte what the unchanged tree produced.
	want := map[string]string{
		"go.crc32.cpu":        "a85f5d097e288a3c",
		"gobench.heap":        "ae5dd0845c1403b1",
		"cppbench.contention": "1124ad5b895fda9c",
		"cppbench.thread.all": "ff81aa717c23a08d",
		"java.heap":           "9f1cfab74c04bc4d",
		"java.cpu":            "419c74a4a7396257",
		"cppbench.growth":     "643cd0b7c9e88ed1",
	}
	for name, w := range want {
		data, err := os.ReadFile(filepath.Join("testdata", name))
		if err != nil {
			t.Fatal(err)
		}
		pp, err := ParseData(data)
		if err != nil {
			t.Fatalf("%s: %v", name, err)
		}
		var out bytes.Buffer
		if err := pp.WriteUncompressed(&out); err != nil {
			t.Fatalf("%s: %v", name, err)
		}
		if got := zzDigest(out.Bytes()); got != w {
			t.Errorf("%s: encoding digest %s, want %s (table len %d)", name, got, w, len(pp.stringTable))
		}
		// Copy() goes through serialize+Parse; must stay valid and equal.
		cp := pp.Copy()
		if err := cp.CheckValid(); err != nil {
			t.Errorf("%s: copy invalid: %v", name, err)
		}
		if cp.String() != pp.String() {
			t.Errorf("%s: copy differs", name)
		}
	}
}
