package binutils

// Equivalence demonstration for change B (file.baseOnce -> ensureBase with an
// atomic flag and a mutex). It only uses behaviour visible through the
// plugin.ObjFile interface and the elfOpen test hook, so it compiles and
// passes both on the unchanged tree and with the patch. Expected values were
// computed on the unchanged tree.

import (
	"debug/elf"
	"fmt"
	"path/filepath"
	"sync"
	"sync/atomic"
	"testing"

	"github.com/google/pprof/internal/plugin"
)

// exe_linux_64 has two loadable program headers:
//
//	LOAD off 0x0   vaddr 0x400000 filesz 0x6fc memsz 0x6fc R E
//	LOAD off 0xe10 vaddr 0x600e10 filesz 0x230 memsz 0x238 RW
func zzOpen(t *testing.T, start, limit, offset uint64) plugin.ObjFile {
	t.Helper()
	b := binrep{}
	o, err := b.openELF(filepath.Join("testdata", "exe_linux_64"), start, limit, offset, "")
	if err != nil {
		t.Fatalf("openELF(%#x,%#x,%#x): %v", start, limit, offset, err)
	}
	return o
}

type zzQuery struct {
	addr    uint64
	want    uint64
	wantErr bool
}

func TestZZEquivBObjAddrSequences(t *testing.T) {
	for _, tc := range []struct {
		desc                 string
		start, limit, offset uint64
		queries              []zzQuery
	}{
		{"text mapping at bias 0x5000000", 0x5400000, 0x5401000, 0, []zzQuery{
			{0x5400400, 0x400400, false}, {0x5400000, 0x400000, false}, {0x54006fb, 0x4006fb, false},
			// Sticky base: no per-address re-validation after the first one.
			{0x5400800, 0x400800, false},
		}},
		{"text mapping, first address outside the segment: sticky error", 0x5400000, 0x5401000, 0, []zzQuery{
			{0x5400800, 0, true}, {0x5400400, 0, true}, {0x5400000, 0, true},
		}},
		{"first address outside the mapping: sticky error", 0x5400000, 0x5401000, 0, []zzQuery{
			{0x5401000, 0, true}, {0x5400400, 0, true},
		}},
		{"short data mapping", 0x5600e00, 0x5602000, 0xe00, []zzQuery{
			{0x5600e10, 0x600e10, false}, {0x5600e00, 0x600e00, false}, {0x5601047, 0x601047, false},
		}},
		{"page aligned data mapping", 0x5600000, 0x5602000, 0, []zzQuery{
			{0x5601000, 0x601000, false}, {0x5600e10, 0x600e10, false},
		}},
		{"page aligned data mapping, bss tail first: sticky error", 0x5600000, 0x5602000, 0, []zzQuery{
			{0x5601048, 0, true}, {0x5601000, 0, true},
		}},
		{"bad file offset: sticky error", 0x5600000, 0x5602000, 0x2000, []zzQuery{
			{0x5600e10, 0, true}, {0x5600e11, 0, true},
		}},
		{"large mapping, data segment chosen by first sample", 0x5600000, 0x5603000, 0, []zzQuery{
			{0x5600e10, 0x600e10, false}, {0x5600400, 0x600400, false},
		}},
		{"large mapping at a high bias, text segment chosen by first sample", 0x7f1234400000, 0x7f1234403000, 0, []zzQuery{
			{0x7f1234400400, 0x400400, false}, {0x7f1234400e10, 0x400e10, false},
		}},
		{"unbiased", 0x400000, 0x401000, 0, []zzQuery{
			{0x400400, 0x400400, false}, {0x4006fb, 0x4006fb, false},
		}},
	} {
		t.Run(tc.desc, func(t *testing.T) {
			o := zzOpen(t, tc.start, tc.limit, tc.offset)
			for i, q := range tc.queries {
				// Alternate the two entry points that trigger the base computation.
				if i%2 == 1 {
					if _, err := o.(*fileNM).file.SourceLine(q.addr); (err != nil) != q.wantErr {
						t.Errorf("query %d: file.SourceLine(%#x) err = %v, want error=%v", i, q.addr, err, q.wantErr)
					}
				}
				got, err := o.ObjAddr(q.addr)
				if (err != nil) != q.wantErr {
					t.Fatalf("query %d: ObjAddr(%#x) err = %v, want error=%v", i, q.addr, err, q.wantErr)
				}
				if err == nil && got != q.want {
					t.Errorf("query %d: ObjAddr(%#x) = %#x, want %#x", i, q.addr, got, q.want)
				}
			}
		})
	}
}

// The base is computed exactly once per file even if many goroutines race on
// the first address, and every goroutine observes the result of that one
// computation.
func TestZZEquivBConcurrentOnce(t *testing.T) {
	realELFOpen := elfOpen
	defer func() { elfOpen = realELFOpen }()
	var opens atomic.Int64
	elfOpen = func(name string) (*elf.File, error) {
		opens.Add(1)
		return realELFOpen(name)
	}

	for round := 0; round < 20; round++ {
		// All addresses are in the text segment: whichever goroutine wins,
		// the bias is 0x7f1234000000.
		o := zzOpen(t, 0x7f1234400000, 0x7f1234401000, 0)
		before := opens.Load()
		var wg sync.WaitGroup
		errs := make(chan string, 64)
		for g := 0; g < 64; g++ {
			wg.Add(1)
			go func(g int) {
				defer wg.Done()
				addr := uint64(0x7f1234400000 + g*0x1b)
				var got uint64
				var err error
				if g%3 == 0 {
					if _, err = o.(*fileNM).file.SourceLine(addr); err == nil {
						got, err = o.ObjAddr(addr)
					}
				} else {
					got, err = o.ObjAddr(addr)
				}
				if err != nil || got != addr-0x7f1234000000 {
					errs <- fmt.Sprintf("addr %#x: got %#x, err %v", addr, got, err)
				}
			}(g)
		}
		wg.Wait()
		close(errs)
		for e := range errs {
			t.Errorf("round %d: unexpected result: %s", round, e)
		}
		if n := opens.Load() - before; n != 1 {
			t.Errorf("round %d: ELF file opened %d times for the base computation, want 1", round, n)
		}

		// Racing good and bad first addresses: either everything fails (a bad
		// address won) or everything is translated with the one right bias.
		o = zzOpen(t, 0x5400000, 0x5401000, 0)
		before = opens.Load()
		type res struct {
			addr, got uint64
			err       error
		}
		results := make([]res, 32)
		for g := range results {
			wg.Add(1)
			go func(g int) {
				defer wg.Done()
				addr := uint64(0x5400100 + g*0x40) // g >= 24: beyond the segment end 0x6fc
				got, err := o.ObjAddr(addr)
				results[g] = res{addr, got, err}
			}(g)
		}
		wg.Wait()
		failed := results[0].err != nil
		for g, r := range results {
			if (r.err != nil) != failed {
				t.Errorf("round %d: goroutine %d err=%v but goroutine 0 err=%v", round, g, r.err, results[0].err)
			}
			if r.err == nil && r.got != r.addr-0x5000000 {
				t.Errorf("round %d: ObjAddr(%#x) = %#x, want %#x", round, r.addr, r.got, r.addr-0x5000000)
			}
		}
		if n := opens.Load() - before; n != 1 {
			t.Errorf("round %d: ELF file opened %d times for the base computation, want 1", round, n)
		}
	}
}
