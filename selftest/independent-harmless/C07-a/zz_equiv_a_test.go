package profile

import (
	"fmt"
	"os"
	"sort"
	"strings"
	"testing"
)

// zzProf builds a small profile whose sample types are given as "type/unit"
// strings; every sample i has stack stacks[i] (function names, leaf first)
// and values vals[i].
func zzProf(types []string, dflt string, stacks [][]string, vals [][]int64) *Profile {
	p := &Profile{DefaultSampleType: dflt, PeriodType: &ValueType{Type: "cpu", Unit: "nanoseconds"}, Period: 1}
	for _, t := range types {
		tu := strings.SplitN(t, "/", 2)
		p.SampleType = append(p.SampleType, &ValueType{Type: tu[0], Unit: tu[1]})
	}
	m := &Mapping{ID: 1, Start: 0x1000, Limit: 0x9000, File: "/bin/zz", HasFunctions: true}
	p.Mapping = []*Mapping{m}
	fns := map[string]*Function{}
	locs := map[string]*Location{}
	for i, st := range stacks {
		s := &Sample{Value: append([]int64(nil), vals[i]...)}
		for _, name := range st {
			l := locs[name]
			if l == nil {
				f := &Function{ID: uint64(len(fns) + 1), Name: name, SystemName: name, Filename: name + ".go"}
				fns[name] = f
				p.Function = append(p.Function, f)
				l = &Location{ID: uint64(len(locs) + 1), Mapping: m, Address: 0x1000 + uint64(strings.Index("a,b,c,d,main", name))*16, Line: []Line{{Function: f, Line: 7}}}
				locs[name] = l
				p.Location = append(p.Location, l)
			}
			s.Location = append(s.Location, l)
		}
		p.Sample = append(p.Sample, s)
	}
	return p
}

func zzDump(p *Profile) string {
	var b strings.Builder
	fmt.Fprintf(&b, "default=%q types=", p.DefaultSampleType)
	for _, st := range p.SampleType {
		fmt.Fprintf(&b, "%s/%s,", st.Type, st.Unit)
	}
	b.WriteString("\n")
	var lines []string
	for _, s := range p.Sample {
		var names []string
		for _, l := range s.Location {
			for _, ln := range l.Line {
				names = append(names, ln.Function.Name)
			}
		}
		lines = append(lines, fmt.Sprintf("%s %v", strings.Join(names, ";"), s.Value))
	}
	sort.Strings(lines)
	b.WriteString(strings.Join(lines, "\n"))
	b.WriteString("\n")
	return b.String()
}

type zzCase struct {
	name string
	mk   func() []*Profile
	want string
}

var zzStacks = [][]string{{"a", "b", "main"}, {"c", "main"}, {"a", "main"}, {"d"}}

func zzCases() []zzCase {
	return []zzCase{
		{
			name: "permuted",
			mk: func() []*Profile {
				return []*Profile{
					zzProf([]string{"samples/count", "cpu/nanoseconds", "alloc/bytes"}, "cpu", zzStacks,
						[][]int64{{1, 10, 100}, {2, 0, 200}, {0, 30, 0}, {4, 40, 400}}),
					zzProf([]string{"alloc/bytes", "samples/count", "cpu/nanoseconds"}, "alloc", zzStacks,
						[][]int64{{1000, 5, 50}, {0, 0, 60}, {3000, 7, 0}, {0, 0, 0}}),
					zzProf([]string{"cpu/nanoseconds", "alloc/bytes", "samples/count"}, "", zzStacks[:2],
						[][]int64{{9, 90, 900}, {8, 0, 0}}),
				}
			},
			want: zzWantPermuted,
		},
		{
			name: "partial-overlap",
			mk: func() []*Profile {
				return []*Profile{
					zzProf([]string{"samples/count", "cpu/nanoseconds", "alloc/bytes", "inuse/bytes"}, "inuse", zzStacks,
						[][]int64{{1, 10, 100, 7}, {2, 0, 200, 0}, {0, 30, 0, 0}, {0, 0, 0, 9}}),
					zzProf([]string{"inuse/bytes", "cpu/nanoseconds", "extra/count", "samples/count"}, "extra", zzStacks,
						[][]int64{{1, 2, 3, 4}, {0, 0, 5, 0}, {6, 0, 0, 0}, {0, 7, 0, 8}}),
				}
			},
			want: zzWantPartial,
		},
		{
			name: "duplicate-type-columns",
			mk: func() []*Profile {
				return []*Profile{
					zzProf([]string{"cpu/nanoseconds", "samples/count"}, "samples", zzStacks[:3],
						[][]int64{{1, 2}, {3, 4}, {5, 6}}),
					zzProf([]string{"samples/count", "cpu/nanoseconds", "cpu/nanoseconds"}, "cpu", zzStacks[:3],
						[][]int64{{10, 20, 30}, {40, 50, 60}, {0, 0, 70}}),
				}
			},
			want: zzWantDup,
		},
		{
			name: "identical-order-noop",
			mk: func() []*Profile {
				return []*Profile{
					zzProf([]string{"samples/count", "cpu/nanoseconds"}, "cpu", zzStacks[:2], [][]int64{{1, 2}, {0, 4}}),
					zzProf([]string{"samples/count", "cpu/nanoseconds"}, "samples", zzStacks[1:3], [][]int64{{5, 0}, {7, 8}}),
				}
			},
			want: zzWantNoop,
		},
		{
			name: "empty-intersection",
			mk: func() []*Profile {
				return []*Profile{
					zzProf([]string{"samples/count"}, "", zzStacks[:1], [][]int64{{1}}),
					zzProf([]string{"cpu/nanoseconds"}, "", zzStacks[:1], [][]int64{{2}}),
				}
			},
			want: zzWantEmpty,
		},
	}
}

func zzRun(ps []*Profile) string {
	var b strings.Builder
	if err := CompatibilizeSampleTypes(ps); err != nil {
		fmt.Fprintf(&b, "compat error: %v\n", err)
		return b.String()
	}
	for i, p := range ps {
		fmt.Fprintf(&b, "-- input %d after compatibilize\n%s", i, zzDump(p))
	}
	m, err := Merge(ps)
	if err != nil {
		fmt.Fprintf(&b, "merge error: %v\n", err)
		return b.String()
	}
	fmt.Fprintf(&b, "-- merged\n%s", zzDump(m))
	// source minus base: negate the last one and merge again.
	last := ps[len(ps)-1].Copy()
	last.Scale(-1)
	d, err := Merge([]*Profile{m, last})
	if err != nil {
		fmt.Fprintf(&b, "diff error: %v\n", err)
		return b.String()
	}
	fmt.Fprintf(&b, "-- merged minus last\n%s", zzDump(d))
	return b.String()
}

func TestZZEquivA(t *testing.T) {
	for _, tc := range zzCases() {
		got := zzRun(tc.mk())
		if os.Getenv("ZZ_PRINT") != "" {
			fmt.Printf("=== %s\n%s", tc.name, got)
			continue
		}
		if got != tc.want {
			t.Errorf("%s: got\n%s\nwant\n%s", tc.name, got, tc.want)
		}
	}
	// Direct check of the unexported helper on a list not derived from the
	// first profile's order, including the "type missing" error.
	p := zzProf([]string{"a/count", "b/count", "c/count"}, "b", zzStacks[:2], [][]int64{{1, 2, 3}, {4, 5, 6}})
	if err := compatibilizeSampleTypes(p, []string{"c", "a"}); err != nil {
		t.Fatal(err)
	}
	if got, want := zzDump(p), "default=\"c\" types=c/count,a/count,\na;b;main [3 1]\nc;main [6 4]\n"; got != want {
		t.Errorf("helper: got %q want %q", got, want)
	}
	err := compatibilizeSampleTypes(p, []string{"c", "zz"})
	if err == nil || err.Error() != `"zz" sample type is not found in profile` {
		t.Errorf("helper: unexpected error %v", err)
	}
	if err := compatibilizeSampleTypes(p, nil); err == nil || err.Error() != "sample type list is empty" {
		t.Errorf("helper: unexpected error %v", err)
	}
}

// ---- golden outputs (computed on the unchanged tree) ----

const zzWantPermuted = `-- input 0 after compatibilize
default="cpu" types=samples/count,cpu/nanoseconds,alloc/bytes,
a;b;main [1 10 100]
a;main [0 30 0]
c;main [2 0 200]
d [4 40 400]
-- input 1 after compatibilize
default="alloc" types=samples/count,cpu/nanoseconds,alloc/bytes,
a;b;main [5 50 1000]
a;main [7 0 3000]
c;main [0 60 0]
d [0 0 0]
-- input 2 after compatibilize
default="samples" types=samples/count,cpu/nanoseconds,alloc/bytes,
a;b;main [900 9 90]
c;main [0 8 0]
-- merged
default="cpu" types=samples/count,cpu/nanoseconds,alloc/bytes,
a;b;main [906 69 1190]
a;main [7 30 3000]
c;main [2 68 200]
d [4 40 400]
-- merged minus last
default="cpu" types=samples/count,cpu/nanoseconds,alloc/bytes,
a;b;main [6 60 1100]
a;main [7 30 3000]
c;main [2 60 200]
d [4 40 400]
`

const zzWantPartial = `-- input 0 after compatibilize
default="inuse" types=samples/count,cpu/nanoseconds,inuse/bytes,
a;b;main [1 10 7]
a;main [0 30 0]
c;main [2 0 0]
d [0 0 9]
-- input 1 after compatibilize
default="samples" types=samples/count,cpu/nanoseconds,inuse/bytes,
a;b;main [4 2 1]
a;main [0 0 6]
c;main [0 0 0]
d [8 7 0]
-- merged
default="inuse" types=samples/count,cpu/nanoseconds,inuse/bytes,
a;b;main [5 12 8]
a;main [0 30 6]
c;main [2 0 0]
d [8 7 9]
-- merged minus last
default="inuse" types=samples/count,cpu/nanoseconds,inuse/bytes,
a;b;main [1 10 7]
a;main [0 30 0]
c;main [2 0 0]
d [0 0 9]
`

const zzWantDup = `-- input 0 after compatibilize
default="samples" types=samples/count,
a;b;main [2]
a;main [6]
c;main [4]
-- input 1 after compatibilize
default="samples" types=samples/count,
a;b;main [10]
a;main [0]
c;main [40]
-- merged
default="samples" types=samples/count,
a;b;main [12]
a;main [6]
c;main [44]
-- merged minus last
default="samples" types=samples/count,
a;b;main [2]
a;main [6]
c;main [4]
`

const zzWantNoop = `-- input 0 after compatibilize
default="cpu" types=samples/count,cpu/nanoseconds,
a;b;main [1 2]
c;main [0 4]
-- input 1 after compatibilize
default="samples" types=samples/count,cpu/nanoseconds,
a;main [7 8]
c;main [5 0]
-- merged
default="cpu" types=samples/count,cpu/nanoseconds,
a;b;main [1 2]
a;main [7 8]
c;main [5 4]
-- merged minus last
default="cpu" types=samples/count,cpu/nanoseconds,
a;b;main [1 2]
c;main [0 4]
`

const zzWantEmpty = `compat error: profiles have empty common sample type list
`

