package profile

// Equivalence demonstration for change B (FilterTagsByName remembers the
// keep/remove decision per distinct label key). Passes with and without the
// change: compares against hard-coded results computed on the unchanged tree
// and against a verbatim copy of the unchanged implementation.

import (
	"fmt"
	"math/rand"
	"regexp"
	"sort"
	"strings"
	"testing"
)

// zzbRefFilterTagsByName is a verbatim copy of the unchanged implementation.
func zzbRefFilterTagsByName(p *Profile, show, hide *regexp.Regexp) (sm, hm bool) {
	matchRemove := func(name string) bool {
		matchShow := show == nil || show.MatchString(name)
		matchHide := hide != nil && hide.MatchString(name)

		if matchShow {
			sm = true
		}
		if matchHide {
			hm = true
		}
		return !matchShow || matchHide
	}
	for _, s := range p.Sample {
		for lab := range s.Label {
			if matchRemove(lab) {
				delete(s.Label, lab)
			}
		}
		for lab := range s.NumLabel {
			if matchRemove(lab) {
				delete(s.NumLabel, lab)
			}
		}
	}
	return
}

func zzbSig(p *Profile, sm, hm bool) string {
	var b strings.Builder
	fmt.Fprintf(&b, "sm=%v hm=%v\n", sm, hm)
	for _, s := range p.Sample {
		var labs []string
		for k, v := range s.Label {
			labs = append(labs, fmt.Sprintf("%s=%v", k, v))
		}
		for k, v := range s.NumLabel {
			labs = append(labs, fmt.Sprintf("%s#%v", k, v))
		}
		sort.Strings(labs)
		var ids []uint64
		for _, l := range s.Location {
			ids = append(ids, l.ID)
		}
		fmt.Fprintf(&b, "S %v %v %v\n", s.Value, ids, labs)
	}
	return b.String()
}

func zzbFixedProfile() *Profile {
	l1 := &Location{ID: 1, Address: 1}
	l2 := &Location{ID: 2, Address: 2}
	return &Profile{
		SampleType: []*ValueType{{Type: "s", Unit: "count"}},
		Location:   []*Location{l1, l2},
		Sample: []*Sample{
			{Value: []int64{1}, Location: []*Location{l1}, Label: map[string][]string{"user": {"alice"}, "request": {"r1", "r2"}}, NumLabel: map[string][]int64{"bytes": {16, 32}, "user": {7}}},
			{Value: []int64{2}, Location: []*Location{l2, l1}, Label: map[string][]string{"user": {"bob"}}},
			{Value: []int64{3}, Location: []*Location{l2}, NumLabel: map[string][]int64{"bytes": {64}, "requests": {1}}},
			{Value: []int64{4}, Location: []*Location{l1}},
			{Value: []int64{5}, Location: []*Location{l1, l2}, Label: map[string][]string{"request": {"r3"}, "userid": {"u"}, "": {"empty"}}, NumLabel: map[string][]int64{"bytes": {8}}},
		},
	}
}

func zzbRx(s string) *regexp.Regexp {
	if s == "" {
		return nil
	}
	return regexp.MustCompile(s)
}

var zzbCases = []struct{ show, hide, want string }{
	{"", "", "sm=true hm=false\nS [1] [1] [bytes#[16 32] request=[r1 r2] user#[7] user=[alice]]\nS [2] [2 1] [user=[bob]]\nS [3] [2] [bytes#[64] requests#[1]]\nS [4] [1] []\nS [5] [1 2] [=[empty] bytes#[8] request=[r3] userid=[u]]\n"},
	{"user", "", "sm=true hm=false\nS [1] [1] [user#[7] user=[alice]]\nS [2] [2 1] [user=[bob]]\nS [3] [2] []\nS [4] [1] []\nS [5] [1 2] [userid=[u]]\n"},
	{"", "user", "sm=true hm=true\nS [1] [1] [bytes#[16 32] request=[r1 r2]]\nS [2] [2 1] []\nS [3] [2] [bytes#[64] requests#[1]]\nS [4] [1] []\nS [5] [1 2] [=[empty] bytes#[8] request=[r3]]\n"},
	{"^user$", "", "sm=true hm=false\nS [1] [1] [user#[7] user=[alice]]\nS [2] [2 1] [user=[bob]]\nS [3] [2] []\nS [4] [1] []\nS [5] [1 2] []\n"},
	{"request|bytes", "requests", "sm=true hm=true\nS [1] [1] [bytes#[16 32] request=[r1 r2]]\nS [2] [2 1] []\nS [3] [2] [bytes#[64]]\nS [4] [1] []\nS [5] [1 2] [bytes#[8] request=[r3]]\n"},
	{"nomatch", "", "sm=false hm=false\nS [1] [1] []\nS [2] [2 1] []\nS [3] [2] []\nS [4] [1] []\nS [5] [1 2] []\n"},
	{"", "nomatch", "sm=true hm=false\nS [1] [1] [bytes#[16 32] request=[r1 r2] user#[7] user=[alice]]\nS [2] [2 1] [user=[bob]]\nS [3] [2] [bytes#[64] requests#[1]]\nS [4] [1] []\nS [5] [1 2] [=[empty] bytes#[8] request=[r3] userid=[u]]\n"},
	{"^$", "", "sm=true hm=false\nS [1] [1] []\nS [2] [2 1] []\nS [3] [2] []\nS [4] [1] []\nS [5] [1 2] [=[empty]]\n"},
	{"e", "e", "sm=true hm=true\nS [1] [1] []\nS [2] [2 1] []\nS [3] [2] []\nS [4] [1] []\nS [5] [1 2] []\n"},
	{"nomatch", "bytes", "sm=false hm=true\nS [1] [1] []\nS [2] [2 1] []\nS [3] [2] []\nS [4] [1] []\nS [5] [1 2] []\n"},
}

func TestZZEquivB_Fixed(t *testing.T) {
	for i, c := range zzbCases {
		p := zzbFixedProfile()
		sm, hm := p.FilterTagsByName(zzbRx(c.show), zzbRx(c.hide))
		got := zzbSig(p, sm, hm)
		r := zzbFixedProfile()
		rsm, rhm := zzbRefFilterTagsByName(r, zzbRx(c.show), zzbRx(c.hide))
		if want := zzbSig(r, rsm, rhm); got != want {
			t.Errorf("case %d (%q,%q): differs from reference copy\n got:\n%s\nwant:\n%s", i, c.show, c.hide, got, want)
		}
		if got != c.want {
			t.Errorf("case %d (%q,%q): differs from hard-coded expectation\n got:\n%q\nwant:\n%q", i, c.show, c.hide, got, c.want)
		}
	}
}

func TestZZEquivB_Random(t *testing.T) {
	keys := []string{"user", "userid", "request", "requests", "bytes", "alloc", "k", ""}
	exprs := []string{"", "", "user", "^user$", "request", "req|bytes", "s$", "k", "nomatch", "^$", "."}
	rnd := rand.New(rand.NewSource(66))
	build := func(rnd *rand.Rand) *Profile {
		l := &Location{ID: 1, Address: 1}
		p := &Profile{SampleType: []*ValueType{{Type: "s", Unit: "count"}}, Location: []*Location{l}}
		for i, n := 0, rnd.Intn(8); i < n; i++ {
			s := &Sample{Value: []int64{int64(i + 1)}, Location: []*Location{l}}
			for j, m := 0, rnd.Intn(4); j < m; j++ {
				if s.Label == nil {
					s.Label = map[string][]string{}
				}
				s.Label[keys[rnd.Intn(len(keys))]] = []string{fmt.Sprint("v", j)}
			}
			for j, m := 0, rnd.Intn(4); j < m; j++ {
				if s.NumLabel == nil {
					s.NumLabel = map[string][]int64{}
				}
				s.NumLabel[keys[rnd.Intn(len(keys))]] = []int64{int64(j)}
			}
			p.Sample = append(p.Sample, s)
		}
		return p
	}
	for i := 0; i < 5000; i++ {
		seed := rnd.Int63()
		show, hide := exprs[rnd.Intn(len(exprs))], exprs[rnd.Intn(len(exprs))]
		p, r := build(rand.New(rand.NewSource(seed))), build(rand.New(rand.NewSource(seed)))
		sm, hm := p.FilterTagsByName(zzbRx(show), zzbRx(hide))
		rsm, rhm := zzbRefFilterTagsByName(r, zzbRx(show), zzbRx(hide))
		if got, want := zzbSig(p, sm, hm), zzbSig(r, rsm, rhm); got != want {
			t.Fatalf("iteration %d show=%q hide=%q:\n got:\n%s\nwant:\n%s", i, show, hide, got, want)
		}
	}
}
