package profile

// Equivalence demonstration for rewrite B (one shared helper that turns the
// addresses of a stack into shared Location objects, used by the heap,
// contention/mutex, threadz and Java heapz/contentionz parsers). The expected
// strings were produced on the UNCHANGED tree; the test must pass both with
// and without the patch. Only ParseData and exported Profile fields are used.

import (
	"crypto/sha256"
	"fmt"
	"os"
	"sort"
	"strings"
	"testing"
)

// zzBRender shows samples in order with values, labels and, per frame,
// "locationID:address mappingID [function file:line]". Location IDs expose
// the order in which locations were first used.
func zzBRender(p *Profile) string {
	var sb strings.Builder
	fmt.Fprintf(&sb, "period=%d/%s/%s dur=%d types=", p.Period, p.PeriodType.Type, p.PeriodType.Unit, p.DurationNanos)
	for _, st := range p.SampleType {
		fmt.Fprintf(&sb, "%s/%s,", st.Type, st.Unit)
	}
	sb.WriteString("\n")
	for _, s := range p.Sample {
		fmt.Fprintf(&sb, "S %v @", s.Value)
		for _, l := range s.Location {
			fmt.Fprintf(&sb, " %d:%#x", l.ID, l.Address)
			if l.Mapping != nil {
				fmt.Fprintf(&sb, "m%d", l.Mapping.ID)
			}
			for _, ln := range l.Line {
				fmt.Fprintf(&sb, "[%s %s:%d]", ln.Function.Name, ln.Function.Filename, ln.Line)
			}
		}
		var keys []string
		for k := range s.NumLabel {
			keys = append(keys, k)
		}
		sort.Strings(keys)
		for _, k := range keys {
			fmt.Fprintf(&sb, " %s=%v", k, s.NumLabel[k])
		}
		sb.WriteString("\n")
	}
	fmt.Fprintf(&sb, "L")
	for _, l := range p.Location {
		fmt.Fprintf(&sb, " %d:%#x", l.ID, l.Address)
	}
	sb.WriteString("\n")
	for _, m := range p.Mapping {
		fmt.Fprintf(&sb, "M %d %#x-%#x off=%#x file=%q build=%q\n", m.ID, m.Start, m.Limit, m.Offset, m.File, m.BuildID)
	}
	return sb.String()
}

const zzBProcMaps = `
MAPPED_LIBRARIES:
00400000-00480000 r-xp 00000000 08:01 1234 /bin/prog
00480000-00490000 rw-p 00080000 08:01 1234 /bin/prog
7f0000000000-7f0000100000 r-xp 00002000 08:01 99 /lib/libc.so.6
`

const zzBBriefMaps = `--- Memory map: ---
  00400000-00480000: /bin/prog
  7f0000000000-7f0000100000: /lib/libc-2.15.so
  ffffffffff600000-ffffffffff601000: [vsyscall]
`

var zzBCases = map[string]string{
	// heap, v2 sampling with alloc columns, shared and recursive frames, an
	// empty stack, address 0x0 and 0x1 (wrap / zero after the -1 adjustment).
	"heap_v2-alloc": `heap profile: 5: 1000 [10: 5000] @ heap_v2/524288
# comment

1: 100 [2: 300] @ 0x400101 0x400201 0x400301
1: 262144 [1: 262144] @ 0x400111 0x400201 0x400301
0: 0 [3: 12] @ 0x400101 0x400101 0x400101 0x7f0000000051
2: 2048 [0: 0] @
1: 17 [1: 17] @ 0x0 0x1 0x400301
` + zzBProcMaps,
	"heap-period-halved": `heap profile: 1: 2 [ 1: 2 ] @ heap/1048576
1: 524288 [1: 524288] @ 0x420cef 0x422151 0x4221da
3: 1572864 [3: 1572864] @ 0x420cef 0x422151 0x41dc0d 0x4221da
   7:   1234 [  7:   1234] @ 0x41dc0d 0x420cef
` + zzBBriefMaps,
	"heapprofile-noalloc": `heap profile: 3: 300 [3: 300] @ heapprofile
1: 100 [1: 100] @ 0x401000 0x402000
2: 200 [2: 200] @ 0x402000 0x401000 0x402000
-1: -50 [0: 0] @ 0x403000
`,
	"growth": `heap profile: 2: 64 [2: 64] @ growthz
1: 32 [1: 32] @ 0x401000 0x402000 0x403000
1: 32 [1: 32] @ 0x401000 0x402000 0x403000 0x404000
` + zzBBriefMaps,
	"fragmentation": `heap profile: 2: 64 [2: 64] @ fragmentationz
2: 64 [2: 64] @ 0x7f0000000100 0x401000
` + zzBProcMaps,
	// contentionz (C++): cycles/second scaling and period multiplication.
	"contentionz-cpp": `--- contentionz 1 ---
cycles/second = 3201000000
sampling period = 100
ms since reset = 16502830
discarded samples = 0
  19490304       27 @ 0xbccc97 0xc61202 0x42ed5f 0x7fcdc2ff214e
       768        1 @ 0xbccc97 0xa42dc7 0x42ed5f 0x7fcdc2ff214e
      5760        2 @ 0xbccc97 0xbccc97
        10        3 @
--- Memory map: ---
  00400000-00fcb000: /home/u/server_main
  7fcdc2fea000-7fcdc3002000: /lib/libpthread-2.15.so
`,
	"mutex-go": `--- mutex:
cycles/second=2000000000
sampling period=5
# a comment
1000 3 @ 0x45f001 0x45f101 0x45f201
2500 1 @ 0x45f001 0x45f301

70 7 @ 0x45f301 0x45f001
`,
	"contention-go-nohz": `--- contention:
sampling period = 0
1000 3 @ 0x45f001 0x45f101
7 9 @ 0x45f101 0x45f001
`,
	// threadz: leaf left alone, callers moved back, same-as-previous bumps
	// the preceding sample, duplicated leaf removed.
	"threadz": `--- threadz 1 ---

--- Thread 7f794ab90940 (name: main/14748) stack: ---
  PC:  0x00bc8f1c: helper(arg *)
  0x0040be31: main
  0x7f7949a9811d: __libc_start_main
--- Thread 7f794964e700 (name: thread1/14751) stack: ---
  PC:  0x7f794a32bf7d: nanosleep
  0x7f794a32414e: start_thread
      creator: 0xa45b96 0xa460b4 0xbaa17f 0x40bce4 0x7f7949a9811d
--- Thread 7f794934c700 (name: thread2/14752) stack: ---
  PC:  0x00bc8f1c: Wait(int)
  0x00bc8f1c: Wait(int)
  0x7f794a32414e: start_thread
      creator: 0xa45b96 0xa48928 0xbaa17f 0x40bce4 0x7f7949a9811d
--- Thread 7f7948978700 (name: thread3/14759) stack: ---
  [same as previous thread]
--- Thread 7f7948978701 (name: thread4/14760) stack: ---
  [same as previous thread]
--- Thread 7f7948978702 (name: thread5/14761) stack: ---
  PC:  0x0040be31: main
  0x0040be31: main
  0x00bc8f1d: x
--- Memory map: ---
  00400000-00fcb000: /home/u/cppbench_server_main
  7f7949a60000-7f7949c0e000: /lib/libc-2.15.so
  7f794a31d000-7f794a335000: /lib/libpthread-2.15.so
`,
	"thread-no-header": `--- Thread 7f794ab90940 (name: main/14748) stack: ---
  PC:  0x00bc8f1c: helper(arg *)
  0x0040be31: main
--- Thread 7f794ab90941 (name: w/14749) stack: ---
  0x0040be31 0x00bc8f1c 0x0040be31
---- no stack trace for 3 threads
`,
	// Java heapz: addresses taken as given, values inverted and unsampled.
	"java-heapz": `--- heapz 1 ---
format = java
resolution = bytes
          7048     1 @ 0x00000003 0x00000004 0x00000005 0x00000004 0x00000003
          4752     9 @ 0x0000002b 0x00000004
           240     5 @ 0x00000097
       1048576     2 @ 0x00000005 0x0000002b


 0x00000003 com.example.function003 (Source003.java:103)
 0x00000004 com.example.function004 (Source004.java:104)
 0x00000005 com.example.function005 (Source005.java:-1)
 0x0000002b libfoo (/usr/lib/libfoo.so)
 0x00000097 GC
 0x00000098 unused.fn (U.java:1)
`,
	"java-contentionz": `--- contentionz 1 ---
format = java
resolution = microseconds
sampling period = 100
ms since reset = 6019923
            1     1 @ 0x00000003 0x00000004
           14     1 @ 0x0000000d 0x00000004 0x0000000d
            2     2 @ 0x00000003 0x00000004
            2     3 @ 0x00000036


 0x0000003 com.example.function03 (source.java:03)
 0x0000004 com.example.function04 (source.java:04)
 0x000000d [generated stub/JIT]
 0x0000036 com.example.function36 (source.java:36)
`,
	// Errors must stay errors.
	"heap-bad-sample":    "heap profile: 1: 2 [1: 2] @ heapprofile\n0: 5 [0: 0] @ 0x1000\n",
	"heap-huge-addr":     "heap profile: 1: 2 [1: 2] @ heapprofile\n1: 5 [1: 5] @ 0x10000000000000000\n",
	"java-heapz-zero":    "--- heapz 1 ---\nformat = java\nresolution = bytes\n   0   1 @ 0x3\n\n",
	"contentionz-format": "--- contentionz 1 ---\nformat = cpp\n 1 1 @ 0x3\n",
}

func zzBOutcome(doc string) string {
	p, err := ParseData([]byte(doc))
	if err != nil {
		return "ERR " + err.Error()
	}
	return fmt.Sprintf("%s#%x", zzBRender(p), sha256.Sum256([]byte(p.String())))
}

func TestZZEquivB(t *testing.T) {
	var names []string
	for n := range zzBCases {
		names = append(names, n)
	}
	sort.Strings(names)
	if os.Getenv("ZZ_PRINT") != "" {
		for _, n := range names {
			fmt.Printf("\t%q: %q,\n", n, zzBOutcome(zzBCases[n]))
		}
		return
	}
	if len(names) != len(zzBWant) {
		t.Fatalf("have %d cases, %d expectations", len(names), len(zzBWant))
	}
	ok := 0
	for _, n := range names {
		got := zzBOutcome(zzBCases[n])
		if got != zzBWant[n] {
			t.Errorf("case %s:\n got %q\nwant %q", n, got, zzBWant[n])
		}
		if !strings.HasPrefix(got, "ERR") {
			ok++
		}
	}
	if ok < 12 {
		t.Errorf("only %d cases parsed successfully; the demonstration is too weak", ok)
	}
}

// zzBWant: outcomes recorded on the unchanged tree.
var zzBWant = map[string]string{
	"contention-go-nohz":  "period=0/contentions/count dur=0 types=contentions/count,delay/nanoseconds,\nS [3 1000] @ 1:0x45f000m1 2:0x45f100m1\nS [9 7] @ 2:0x45f100m1 1:0x45f000m1\nL 1:0x45f000 2:0x45f100\nM 1 0x0-0xffffffffffffffff off=0x0 file=\"\" build=\"\"\n#03550bc25fe22aa82a0ee2213d38a8b898a304de96a26524605fbe4a7a682f68",
	"contentionz-cpp":     "period=100/contentions/count dur=16502830000000 types=contentions/count,delay/nanoseconds,\nS [2700 608881724] @ 1:0xbccc96m1 2:0xc61201m1 3:0x42ed5em1 4:0x7fcdc2ff214dm2\nS [100 23992] @ 1:0xbccc96m1 5:0xa42dc6m1 3:0x42ed5em1 4:0x7fcdc2ff214dm2\nS [200 179943] @ 1:0xbccc96m1 1:0xbccc96m1\nS [300 312] @\nL 1:0xbccc96 2:0xc61201 3:0x42ed5e 4:0x7fcdc2ff214d 5:0xa42dc6\nM 1 0x400000-0xfcb000 off=0x0 file=\"/home/u/server_main\" build=\"\"\nM 2 0x7fcdc2fea000-0x7fcdc3002000 off=0x0 file=\"/lib/libpthread-2.15.so\" build=\"\"\n#288db35f553e11fdca2089c9e5360c9dd0ea67d661596d80d64f816a346cb71b",
	"contentionz-format":  "ERR parsing profile: unrecognized profile format",
	"fragmentation":       "period=1/space/bytes dur=0 types=objects/count,space/bytes,\nS [2 64] @ 1:0x7f00000000ffm2 2:0x400fffm1 bytes=[32]\nL 1:0x7f00000000ff 2:0x400fff\nM 1 0x400000-0x480000 off=0x0 file=\"/bin/prog\" build=\"\"\nM 2 0x7f0000000000-0x7f0000100000 off=0x2000 file=\"/lib/libc.so.6\" build=\"\"\n#74bae0d10ce53cd9a92c3739fd42ca57ba99739f33950749596f2a9181643780",
	"growth":              "period=1/space/bytes dur=0 types=objects/count,space/bytes,\nS [1 32] @ 1:0x400fffm1 2:0x401fffm1 3:0x402fffm1 bytes=[32]\nS [1 32] @ 1:0x400fffm1 2:0x401fffm1 3:0x402fffm1 4:0x403fffm1 bytes=[32]\nL 1:0x400fff 2:0x401fff 3:0x402fff 4:0x403fff\nM 1 0x400000-0x480000 off=0x0 file=\"/bin/prog\" build=\"\"\nM 2 0x7f0000000000-0x7f0000100000 off=0x0 file=\"/lib/libc-2.15.so\" build=\"\"\nM 3 0xffffffffff600000-0xffffffffff601000 off=0x0 file=\"[vsyscall]\" build=\"\"\n#137ce94786d4397f5bc4d76c4b1523dc796065565dffaecbd8469953ffa12ec7",
	"heap-bad-sample":     "ERR parsing profile: inuse count was 0 but inuse bytes was 5",
	"heap-huge-addr":      "ERR parsing profile: malformed sample: 1: 5 [1: 5] @ 0x10000000000000000: failed to parse as hex 64-bit number: 0x10000000000000000",
	"heap-period-halved":  "period=524288/space/bytes dur=0 types=objects/count,space/bytes,\nS [1 829411] @ 1:0x420ceem1 2:0x422150m1 3:0x4221d9m1 bytes=[524288]\nS [4 2488234] @ 1:0x420ceem1 2:0x422150m1 4:0x41dc0cm1 3:0x4221d9m1 bytes=[524288]\nS [20822 3670633] @ 4:0x41dc0cm1 1:0x420ceem1 bytes=[176]\nL 1:0x420cee 2:0x422150 3:0x4221d9 4:0x41dc0c\nM 1 0x400000-0x480000 off=0x0 file=\"/bin/prog\" build=\"\"\nM 2 0x7f0000000000-0x7f0000100000 off=0x0 file=\"/lib/libc-2.15.so\" build=\"\"\nM 3 0xffffffffff600000-0xffffffffff601000 off=0x0 file=\"[vsyscall]\" build=\"\"\n#18e8fe8a835e02ebe5cab9bb7d2107278dafde9acbe49e2d2851e84a1a00d2a5",
	"heap_v2-alloc":       "period=524288/space/bytes dur=0 types=alloc_objects/count,alloc_space/bytes,inuse_objects/count,inuse_space/bytes,\nS [6991 1048726 5243 524338] @ 1:0x400100m1 2:0x400200m1 3:0x400300m1 bytes=[100]\nS [2 666237 2 666237] @ 4:0x400110m1 2:0x400200m1 3:0x400300m1 bytes=[262144]\nS [393217 1572870 0 0] @ 1:0x400100m1 1:0x400100m1 1:0x400100m1 5:0x7f0000000050m2 bytes=[4]\nS [0 0 1025 1049600] @ bytes=[1024]\nS [30840 524296 30840 524296] @ 6:0xffffffffffffffffm3 7:0x0 3:0x400300m1 bytes=[17]\nL 1:0x400100 2:0x400200 3:0x400300 4:0x400110 5:0x7f0000000050 6:0xffffffffffffffff 7:0x0\nM 1 0x400000-0x480000 off=0x0 file=\"/bin/prog\" build=\"\"\nM 2 0x7f0000000000-0x7f0000100000 off=0x2000 file=\"/lib/libc.so.6\" build=\"\"\nM 3 0x0-0xffffffffffffffff off=0x0 file=\"\" build=\"\"\n#c0ba0cc1eb42533f5a8b24ab3ba36b25f8e59d3e9aca1905f9f58c355edff27f",
	"heapprofile-noalloc": "period=1/space/bytes dur=0 types=objects/count,space/bytes,\nS [1 100] @ 1:0x400fffm1 2:0x401fffm1 bytes=[100]\nS [2 200] @ 2:0x401fffm1 1:0x400fffm1 2:0x401fffm1 bytes=[100]\nS [-1 -50] @ 3:0x402fffm1 bytes=[50]\nL 1:0x400fff 2:0x401fff 3:0x402fff\nM 1 0x0-0xffffffffffffffff off=0x0 file=\"\" build=\"\"\n#b43c48046eed3423cfbf2c422a04caa6adc6d6a38d4779f31b877c7b11c69b64",
	"java-contentionz":    "period=100/contentions/count dur=6019923000000 types=contentions/count,delay/microseconds,\nS [100 100] @ 1:0x0[com.example.function03 source.java:3] 2:0x0[com.example.function04 source.java:4]\nS [100 1400] @ 3:0x0[STUB :0] 2:0x0[com.example.function04 source.java:4] 3:0x0[STUB :0]\nS [200 200] @ 1:0x0[com.example.function03 source.java:3] 2:0x0[com.example.function04 source.java:4]\nS [300 200] @ 4:0x0[com.example.function36 source.java:36]\nL 1:0x0 2:0x0 3:0x0 4:0x0\n#7476b1852de8544c61fbc6c924aace0d1feae399c3315b733eecd56e89233fde",
	"java-heapz":          "period=0// dur=0 types=inuse_objects/count,inuse_space/bytes,\nS [74 527819] @ 1:0x0[com.example.function003 Source003.java:103] 2:0x0[com.example.function004 Source004.java:104] 3:0x0[com.example.function005 Source005.java:0] 2:0x0[com.example.function004 Source004.java:104] 1:0x0[com.example.function003 Source003.java:103] bytes=[7048]\nS [8941 4720968] @ 4:0x0[libfoo libfoo.so:0] 2:0x0[com.example.function004 Source004.java:104] bytes=[528]\nS [54615 2621560] @ 5:0x0[GC :0] bytes=[48]\nS [3 1658822] @ 3:0x0[com.example.function005 Source005.java:0] 4:0x0[libfoo libfoo.so:0] bytes=[524288]\nL 1:0x0 2:0x0 3:0x0 4:0x0 5:0x0\n#f622e8b5d775c19a18ee01b52768a9d20f142d0fc88f24ddc95393ddccde5036",
	"java-heapz-zero":     "period=0// dur=0 types=inuse_objects/count,inuse_space/bytes,\nS [0 0] @ 1:0x0m1 bytes=[0]\nL 1:0x0\nM 1 0x0-0xffffffffffffffff off=0x0 file=\"\" build=\"\"\n#f79a695a69550d21b217795ac5a77d0385eb24e293b8cd0403b709f10736fb13",
	"mutex-go":            "period=5/contentions/count dur=0 types=contentions/count,delay/nanoseconds,\nS [15 2500] @ 1:0x45f000m1 2:0x45f100m1 3:0x45f200m1\nS [5 6250] @ 1:0x45f000m1 4:0x45f300m1\nS [35 175] @ 4:0x45f300m1 1:0x45f000m1\nL 1:0x45f000 2:0x45f100 3:0x45f200 4:0x45f300\nM 1 0x0-0xffffffffffffffff off=0x0 file=\"\" build=\"\"\n#424a0b078abc6ba1d7b35c4733be8c5fa081efd1627f62d3a391e3c803817b74",
	"thread-no-header":    "period=1/thread/count dur=0 types=thread/count,\nS [1] @ 1:0xbc8f1cm1 2:0x40be30m1\nS [1] @ 3:0x40be31m1 4:0xbc8f1bm1 2:0x40be30m1\nL 1:0xbc8f1c 2:0x40be30 3:0x40be31 4:0xbc8f1b\nM 1 0x0-0xffffffffffffffff off=0x0 file=\"\" build=\"\"\n#c21f28ef166f31fce6d9e62e741c5d780bf877e17665c2f9d8065ef6a2054f8d",
	"threadz":             "period=1/thread/count dur=0 types=thread/count,\nS [1] @ 1:0xbc8f1cm1 2:0x40be30m1 3:0x7f7949a9811cm2\nS [1] @ 4:0x7f794a32bf7dm3 5:0x7f794a32414dm3 6:0xa45b95m1 7:0xa460b3m1 8:0xbaa17em1 9:0x40bce3m1 3:0x7f7949a9811cm2\nS [3] @ 1:0xbc8f1cm1 5:0x7f794a32414dm3 6:0xa45b95m1 11:0xa48927m1 8:0xbaa17em1 9:0x40bce3m1 3:0x7f7949a9811cm2\nS [1] @ 12:0x40be31m1 1:0xbc8f1cm1\nL 1:0xbc8f1c 2:0x40be30 3:0x7f7949a9811c 4:0x7f794a32bf7d 5:0x7f794a32414d 6:0xa45b95 7:0xa460b3 8:0xbaa17e 9:0x40bce3 10:0xbc8f1b 11:0xa48927 12:0x40be31\nM 1 0x400000-0xfcb000 off=0x0 file=\"/home/u/cppbench_server_main\" build=\"\"\nM 2 0x7f7949a60000-0x7f7949c0e000 off=0x0 file=\"/lib/libc-2.15.so\" build=\"\"\nM 3 0x7f794a31d000-0x7f794a335000 off=0x0 file=\"/lib/libpthread-2.15.so\" build=\"\"\n#bde192b709458f0cd62a1610bdbafe87b6b0076ec660c247227b31fe43bada45",
}
