package profile

// Equivalence demonstration for change C (legacy_profile.go: the two regular
// expressions used by parseGoCount, countStartRE and countRE, replaced by
// hand-written string code).
//
// refParseGoCountC is a verbatim copy of the pre-change parseGoCount with its
// own copies of the two regexps; the test compares parseGoCount against it on
// exhaustive single-edit mutations of valid lines and on random token soups,
// and additionally checks hard-coded outcomes computed on the UNCHANGED tree.
// The test passes both with and without the change.

import (
	"bufio"
	"bytes"
	"crypto/sha256"
	"encoding/hex"
	"fmt"
	"math/rand"
	"reflect"
	"regexp"
	"strconv"
	"strings"
	"testing"
)

var (
	refCountStartREC = regexp.MustCompile(`\A(\S+) profile: total \d+\z`)
	refCountREC      = regexp.MustCompile(`\A(\d+) @(( 0x[0-9a-f]+)+)\z`)
)

func refParseGoCountC(b []byte) (*Profile, error) {
	s := bufio.NewScanner(bytes.NewBuffer(b))
	// Skip comments at the beginning of the file.
	for s.Scan() && isSpaceOrComment(s.Text()) {
	}
	if err := s.Err(); err != nil {
		return nil, err
	}
	m := refCountStartREC.FindStringSubmatch(s.Text())
	if m == nil {
		return nil, errUnrecognized
	}
	profileType := m[1]
	p := &Profile{
		PeriodType: &ValueType{Type: profileType, Unit: "count"},
		Period:     1,
		SampleType: []*ValueType{{Type: profileType, Unit: "count"}},
	}
	locations := make(map[uint64]*Location)
	for s.Scan() {
		line := s.Text()
		if isSpaceOrComment(line) {
			continue
		}
		if strings.HasPrefix(line, "---") {
			break
		}
		m := refCountREC.FindStringSubmatch(line)
		if m == nil {
			return nil, errMalformed
		}
		n, err := strconv.ParseInt(m[1], 0, 64)
		if err != nil {
			return nil, errMalformed
		}
		fields := strings.Fields(m[2])
		locs := make([]*Location, 0, len(fields))
		for _, stk := range fields {
			addr, err := strconv.ParseUint(stk, 0, 64)
			if err != nil {
				return nil, errMalformed
			}
			// Adjust all frames by -1 to land on top of the call instruction.
			addr--
			loc := locations[addr]
			if loc == nil {
				loc = &Location{
					Address: addr,
				}
				locations[addr] = loc
				p.Location = append(p.Location, loc)
			}
			locs = append(locs, loc)
		}
		p.Sample = append(p.Sample, &Sample{
			Location: locs,
			Value:    []int64{n},
		})
	}
	if err := s.Err(); err != nil {
		return nil, err
	}

	if err := parseAdditionalSections(s, p); err != nil {
		return nil, err
	}
	return p, nil
}

// compareC checks parseGoCount against the reference on one input and returns
// whether the input was accepted.
func compareC(t *testing.T, in []byte) bool {
	t.Helper()
	p1, e1 := parseGoCount(in)
	p2, e2 := refParseGoCountC(in)
	if e1 != e2 {
		t.Fatalf("parseGoCount(%q): err = %v, reference err = %v", in, e1, e2)
	}
	if !reflect.DeepEqual(p1, p2) {
		t.Fatalf("parseGoCount(%q): profile differs from reference:\n%v\nvs\n%v", in, p1, p2)
	}
	return e1 == nil
}

const editAlphabetC = " \t\v\f\r@x0189afgAF:-+_#.\xff\xc2\xa0"

func TestZZEquivC_SingleEdits(t *testing.T) {
	headers := []string{
		"goroutine profile: total 12",
		"threadcreate profile: total 0",
		"a profile: total 007",
	}
	samples := []string{
		"1 @ 0x1a 0xff",
		"12 @ 0x0",
		"010 @ 0xdeadbeef 0x1 0x1 0xffffffffffffffff",
	}
	edits := func(s string) []string {
		out := []string{s}
		for i := 0; i <= len(s); i++ {
			if i < len(s) {
				out = append(out, s[:i]+s[i+1:]) // delete
				if i+1 < len(s) {
					out = append(out, s[:i]+s[i+1:i+2]+s[i:i+1]+s[i+2:]) // swap
				}
			}
			for j := 0; j < len(editAlphabetC); j++ {
				c := editAlphabetC[j : j+1]
				out = append(out, s[:i]+c+s[i:]) // insert
				if i < len(s) {
					out = append(out, s[:i]+c+s[i+1:]) // replace
				}
			}
		}
		return out
	}
	n, acc := 0, 0
	for _, h := range headers {
		for _, e := range edits(h) {
			n++
			if compareC(t, []byte(e+"\n"+samples[0]+"\n")) {
				acc++
			}
		}
	}
	for _, s := range samples {
		for _, e := range edits(s) {
			n++
			if compareC(t, []byte(headers[0]+"\n"+e+"\n"+samples[1]+"\n")) {
				acc++
			}
			// also as the final line without a newline
			n++
			if compareC(t, []byte(headers[0]+"\n"+e)) {
				acc++
			}
		}
	}
	if n < 10000 || acc < 500 || acc > n-500 {
		t.Fatalf("degenerate sweep: %d inputs, %d accepted", n, acc)
	}
}

func TestZZEquivC_TokenSoup(t *testing.T) {
	hdrTok := []string{"goroutine", "threadcreate", "x", " ", " ", "  ", "\t", "\v", "\f", "\r", "profile:", " profile: total ", " profile: total ", "total", "12", "0", "9", "#", "-", "+1", "\xff", "é", " ", " ", "１", ""}
	smpTok := []string{"1", "010", "08", "0x10", "99999999999999999999", " @", " @", "@", " ", " 0x", " 0x", " 0x", "0x", "1a", "ff", "FF", "g", "  ", "\t", "0", "-", "---", "ffffffffffffffff", "10000000000000000", "\xff", "#", "١"}
	rng := rand.New(rand.NewSource(20260930))
	soup := func(tok []string) string {
		var sb strings.Builder
		for k := rng.Intn(7); k >= 0; k-- {
			sb.WriteString(tok[rng.Intn(len(tok))])
		}
		return sb.String()
	}
	acc := 0
	const N = 60000
	for i := 0; i < N; i++ {
		var in string
		switch rng.Intn(3) {
		case 0: // soup header, valid sample
			in = soup(hdrTok) + "\n1 @ 0x1 0x2\n"
		case 1: // valid header, soup samples
			in = "goroutine profile: total 3\n" + soup(smpTok) + "\n" + soup(smpTok) + "\n"
		default:
			in = "# comment\n\n" + soup(hdrTok) + "\n" + soup(smpTok) + "\n--- junk\n" + soup(smpTok)
		}
		if compareC(t, []byte(in)) {
			acc++
		}
	}
	if acc < N/100 || acc > N*99/100 {
		t.Fatalf("degenerate soup: %d of %d accepted", acc, N)
	}
}

// Hard-coded outcomes computed on the unchanged tree.
func TestZZEquivC_Fixed(t *testing.T) {
	render := func(p *Profile, err error) string {
		if err != nil {
			return "E:" + err.Error()
		}
		var sb strings.Builder
		fmt.Fprintf(&sb, "%s/%s", p.SampleType[0].Type, p.PeriodType.Type)
		for _, s := range p.Sample {
			fmt.Fprintf(&sb, " %d@", s.Value[0])
			for _, l := range s.Location {
				fmt.Fprintf(&sb, "%d:%x,", l.ID, l.Address)
			}
		}
		return sb.String()
	}
	cases := []struct{ in, want string }{
		{"goroutine profile: total 2\n1 @ 0x10 0x20\n1 @ 0x20\n", "goroutine/goroutine 1@1:f,2:1f, 1@2:1f,"},
		{"# c\n\nthreadcreate profile: total 5\n010 @ 0x1 0x0\n", "threadcreate/threadcreate 8@1:0,2:ffffffffffffffff,"},
		{"\xffz profile: total 5\n3 @ 0xa\n--- anything\n4 @ bad\n", "\xffz/\xffz 3@1:9,"},
		{"goroutine profile: total 2\n", "goroutine/goroutine"},
		{"goroutine profile: total\n", "E:unrecognized profile format"},
		{"goroutine  profile: total 2\n", "E:unrecognized profile format"},
		{"go routine profile: total 2\n", "E:unrecognized profile format"},
		{" profile: total 2\n", "E:unrecognized profile format"},
		{"goroutine profile: total 2 \n", "E:unrecognized profile format"},
		{"goroutine profile: total -2\n", "E:unrecognized profile format"},
		{"goroutine profile: total 2\n08 @ 0x1\n", "E:malformed profile format"},
		{"goroutine profile: total 2\n1 @\n", "E:malformed profile format"},
		{"goroutine profile: total 2\n1 @ 0x\n", "E:malformed profile format"},
		{"goroutine profile: total 2\n1 @ 0xA\n", "E:malformed profile format"},
		{"goroutine profile: total 2\n1 @  0x1\n", "E:malformed profile format"},
		{"goroutine profile: total 2\n1 @ 0x1 \n", "E:malformed profile format"},
		{"goroutine profile: total 2\n1 @ 0x1 @ 0x2\n", "E:malformed profile format"},
		{"goroutine profile: total 2\n-1 @ 0x1\n", "E:malformed profile format"},
		{"goroutine profile: total 2\n1 @ 0x10000000000000000\n", "E:malformed profile format"},
		{"goroutine profile: total 2\n99999999999999999999 @ 0x1\n", "E:malformed profile format"},
	}
	for _, c := range cases {
		if got := render(parseGoCount([]byte(c.in))); got != c.want {
			t.Errorf("parseGoCount(%q) = %q, want %q", c.in, got, c.want)
		}
	}
}

var ptrRxC = regexp.MustCompile(`0x[0-9a-f]+`)

// Property-level check through ParseData: every truncation / substitution /
// deletion of a legacy goroutine profile gives an error or a valid profile that
// can be written, copied, compacted and printed; the digest of all outcomes is
// the one computed on the unchanged tree.
func TestZZEquivC_ParseDataSweep(t *testing.T) {
	seed := []byte("goroutine profile: total 7\n" +
		"4 @ 0x401234 0x402000 0x7f0000001000\n" +
		"2 @ 0x402000\n" +
		"# a comment\n" +
		"1 @ 0x7f0000001000 0x401234\n" +
		"\n--- Memory map: ---\n" +
		"00400000-00500000 r-xp 00000000 fd:01 123 /bin/app\n" +
		"7f0000000000-7f0000100000 r-xp 00001000 fd:01 456 /lib/libc.so.6\n")
	h := sha256.New()
	ok, bad := 0, 0
	emit := func(tag string, data []byte) {
		p, err := ParseData(data)
		var o string
		if err != nil {
			bad++
			o = "E:" + ptrRxC.ReplaceAllString(err.Error(), "PTR")
		} else {
			ok++
			if err := p.CheckValid(); err != nil {
				t.Errorf("%s: parsed profile is not valid: %v", tag, err)
			}
			for _, s := range p.Sample {
				if len(s.Value) != len(p.SampleType) {
					t.Errorf("%s: sample with %d values for %d types", tag, len(s.Value), len(p.SampleType))
				}
			}
			var buf bytes.Buffer
			if err := p.Write(&buf); err != nil {
				t.Errorf("%s: Write: %v", tag, err)
			}
			o = "P:" + p.String() + "\nC:" + p.Copy().String() + "\nK:" + p.Compact().String()
		}
		fmt.Fprintf(h, "%s\x00%s\x00", tag, o)
	}
	emit("seed", seed)
	for i := 0; i < len(seed); i++ {
		emit(fmt.Sprintf("trunc%d", i), seed[:i])
		emit(fmt.Sprintf("del%d", i), append(append([]byte(nil), seed[:i]...), seed[i+1:]...))
		for _, v := range []byte(" \t\n@x09afgF-#\xff") {
			if v == seed[i] {
				continue
			}
			d := append([]byte(nil), seed...)
			d[i] = v
			emit(fmt.Sprintf("sub%d_%d", i, v), d)
			d = append(append(append([]byte(nil), seed[:i]...), v), seed[i:]...)
			emit(fmt.Sprintf("ins%d_%d", i, v), d)
		}
	}
	got := hex.EncodeToString(h.Sum(nil))
	const want = "548626101b589ef7c14ba487eaa46c703a967cf3623833d42d05a025771192c4"
	const wantOK, wantBad = 4849, 2464
	if got != want || ok != wantOK || bad != wantBad {
		t.Errorf("sweep digest = %s (ok %d, err %d); want %s (ok %d, err %d)", got, ok, bad, want, wantOK, wantBad)
	}
}
