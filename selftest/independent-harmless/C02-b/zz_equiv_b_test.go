package profile

// Equivalence demonstration for change B (encode.go: postDecode's paired
// "dense slice + sparse map" id lookups replaced by a generic idTable[T]).
//
// Expectations were computed on the UNCHANGED tree and hard-coded. The test
// passes both with and without the change.

import (
	"bytes"
	"crypto/sha256"
	"encoding/hex"
	"fmt"
	"regexp"
	"strings"
	"testing"
)

// --- a tiny protobuf wire builder -------------------------------------------------

type wireB struct{ b []byte }

func (w *wireB) varint(x uint64) {
	for x >= 128 {
		w.b = append(w.b, byte(x)|0x80)
		x >>= 7
	}
	w.b = append(w.b, byte(x))
}
func (w *wireB) u(tag int, x uint64) *wireB { w.varint(uint64(tag) << 3); w.varint(x); return w }
func (w *wireB) bytes(tag int, x []byte) *wireB {
	w.varint(uint64(tag)<<3 | 2)
	w.varint(uint64(len(x)))
	w.b = append(w.b, x...)
	return w
}
func (w *wireB) msg(tag int, m *wireB) *wireB { return w.bytes(tag, m.b) }
func (w *wireB) packed(tag int, xs ...uint64) *wireB {
	var in wireB
	for _, x := range xs {
		in.varint(x)
	}
	return w.bytes(tag, in.b)
}
func mB() *wireB { return &wireB{} }

func mappingB(id uint64, file uint64) *wireB {
	return mB().u(1, id).u(2, 0x1000*id&0xffffff).u(3, 0x1000*id&0xffffff+0x800).u(5, file)
}
func functionB(id uint64, name uint64) *wireB { return mB().u(1, id).u(2, name).u(4, 3) }
func locationB(id, mapping uint64, fns ...uint64) *wireB {
	w := mB().u(1, id).u(2, mapping).u(3, 0x1000+id)
	for i, f := range fns {
		w.msg(4, mB().u(1, f).u(2, uint64(10+i)))
	}
	return w
}
func sampleB(v uint64, locs ...uint64) *wireB {
	w := mB()
	if len(locs) > 2 {
		w.packed(1, locs...)
	} else {
		for _, l := range locs {
			w.u(1, l)
		}
	}
	return w.u(2, v)
}

// strings: 0:"" 1:"samples" 2:"count" 3:"file.go" 4:"fA" 5:"fB" 6:"fC" 7:"/bin/a" 8:"[kernel.kallsyms]_stext"
func headerB() *wireB {
	w := mB().msg(1, mB().u(1, 1).u(2, 2))
	return w
}
func trailerB(w *wireB) []byte {
	for _, s := range []string{"", "samples", "count", "file.go", "fA", "fB", "fC", "/bin/a", "[kernel.kallsyms]_stext"} {
		w.bytes(6, []byte(s))
	}
	return w.b
}

// describeB renders how every id reference was resolved, using table indices
// rather than pointers.
func describeB(p *Profile) string {
	mi := map[*Mapping]int{}
	for i, m := range p.Mapping {
		mi[m] = i
	}
	fi := map[*Function]int{}
	for i, f := range p.Function {
		fi[f] = i
	}
	li := map[*Location]int{}
	for i, l := range p.Location {
		li[l] = i
	}
	var sb strings.Builder
	for i, m := range p.Mapping {
		fmt.Fprintf(&sb, "M%d{id=%d file=%q krs=%q} ", i, m.ID, m.File, m.KernelRelocationSymbol)
	}
	for i, f := range p.Function {
		fmt.Fprintf(&sb, "F%d{id=%d name=%q} ", i, f.ID, f.Name)
	}
	for i, l := range p.Location {
		fmt.Fprintf(&sb, "L%d{id=%d idx=%d m=", i, l.ID, l.mappingIDX)
		if l.Mapping == nil {
			sb.WriteString("nil")
		} else if j, ok := mi[l.Mapping]; ok {
			fmt.Fprintf(&sb, "M%d", j)
		} else {
			sb.WriteString("FOREIGN")
		}
		for _, ln := range l.Line {
			if ln.Function == nil {
				fmt.Fprintf(&sb, " nil/%d", ln.functionIDX)
			} else if j, ok := fi[ln.Function]; ok {
				fmt.Fprintf(&sb, " F%d/%d", j, ln.functionIDX)
			} else {
				sb.WriteString(" FOREIGN")
			}
		}
		sb.WriteString("} ")
	}
	for i, s := range p.Sample {
		fmt.Fprintf(&sb, "S%d{", i)
		for _, l := range s.Location {
			if l == nil {
				sb.WriteString("nil ")
			} else if j, ok := li[l]; ok {
				fmt.Fprintf(&sb, "L%d ", j)
			} else {
				sb.WriteString("FOREIGN ")
			}
		}
		fmt.Fprintf(&sb, "idx=%v} ", s.locationIDX)
	}
	return strings.TrimSpace(sb.String())
}

var ptrRxB = regexp.MustCompile(`0x[0-9a-f]+`)

func errB(err error) string {
	if err == nil {
		return "<nil>"
	}
	return ptrRxB.ReplaceAllString(err.Error(), "PTR")
}

func TestZZEquivB_Resolution(t *testing.T) {
	const big = 1 << 40
	cases := []struct {
		name      string
		data      []byte
		want      string // describeB after ParseUncompressed
		wantValid string // CheckValid result
		wantParse string // ParseData error
	}{
		{
			name: "dense-ids",
			data: trailerB(headerB().
				msg(2, sampleB(1, 1, 2)).msg(2, sampleB(2, 2, 1, 2)).
				msg(3, mappingB(1, 7)).msg(3, mappingB(2, 8)).
				msg(4, locationB(1, 1, 1, 2)).msg(4, locationB(2, 2, 2)).
				msg(5, functionB(1, 4)).msg(5, functionB(2, 5))),
			want:      `M0{id=1 file="/bin/a" krs=""} M1{id=2 file="[kernel.kallsyms]_stext" krs="_stext"} F0{id=1 name="fA"} F1{id=2 name="fB"} L0{id=1 idx=0 m=M0 F0/0 F1/0} L1{id=2 idx=0 m=M1 F1/0} S0{L0 L1 idx=[]} S1{L1 L0 L1 idx=[]}`,
			wantValid: "<nil>", wantParse: "<nil>",
		},
		{
			name: "sparse-ids-and-boundary",
			// 2 mappings -> dense ids are 0..2, id 3 is the first sparse id.
			data: trailerB(headerB().
				msg(2, sampleB(1, big, 3)).msg(2, sampleB(2, 3, big, 3, ^uint64(0))).
				msg(3, mappingB(3, 7)).msg(3, mappingB(big, 8)).
				msg(4, locationB(big, 3, big+1, 2)).msg(4, locationB(3, big, 2)).msg(4, locationB(^uint64(0), 2)).
				msg(5, functionB(big+1, 4)).msg(5, functionB(2, 5))),
			want:      `M0{id=3 file="/bin/a" krs=""} M1{id=1099511627776 file="[kernel.kallsyms]_stext" krs="_stext"} F0{id=1099511627777 name="fA"} F1{id=2 name="fB"} L0{id=1099511627776 idx=0 m=M0 F0/0 F1/0} L1{id=3 idx=0 m=M1 F1/0} L2{id=18446744073709551615 idx=0 m=nil} S0{L0 L1 idx=[]} S1{L1 L0 L1 L2 idx=[]}`,
			wantValid: "<nil>", wantParse: "<nil>",
		},
		{
			name: "duplicate-ids-last-wins",
			data: trailerB(headerB().
				msg(2, sampleB(1, 1, big)).
				msg(3, mappingB(1, 7)).msg(3, mappingB(1, 8)).msg(3, mappingB(big, 7)).msg(3, mappingB(big, 8)).
				msg(4, locationB(1, 1, 1)).msg(4, locationB(1, big, big)).msg(4, locationB(big, 1)).msg(4, locationB(big, big)).
				msg(5, functionB(1, 4)).msg(5, functionB(1, 5)).msg(5, functionB(big, 4)).msg(5, functionB(big, 6))),
			want:      `M0{id=1 file="/bin/a" krs=""} M1{id=1 file="[kernel.kallsyms]_stext" krs="_stext"} M2{id=1099511627776 file="/bin/a" krs=""} M3{id=1099511627776 file="[kernel.kallsyms]_stext" krs="_stext"} F0{id=1 name="fA"} F1{id=1 name="fB"} F2{id=1099511627776 name="fA"} F3{id=1099511627776 name="fC"} L0{id=1 idx=0 m=M1 F1/0} L1{id=1 idx=0 m=M3 F3/0} L2{id=1099511627776 idx=0 m=M1} L3{id=1099511627776 idx=0 m=M3} S0{L1 L3 idx=[]}`,
			wantValid: "multiple mappings with same id: 1", wantParse: "malformed profile: multiple mappings with same id: 1",
		},
		{
			name: "id-zero",
			data: trailerB(headerB().
				msg(2, sampleB(1, 0, 1)).
				msg(3, mappingB(0, 7)).
				msg(4, locationB(0, 0, 0)).msg(4, locationB(1, 0, 0, 1)).
				msg(5, functionB(0, 4)).msg(5, functionB(1, 5))),
			want:      `M0{id=0 file="/bin/a" krs=""} F0{id=0 name="fA"} F1{id=1 name="fB"} L0{id=0 idx=0 m=M0 nil/0} L1{id=1 idx=0 m=M0 nil/0 F1/0} S0{L0 L1 idx=[]}`,
			wantValid: "found mapping with reserved ID=0", wantParse: "malformed profile: found mapping with reserved ID=0",
		},
		{
			name: "dangling-function",
			data: trailerB(headerB().
				msg(2, sampleB(1, 1)).
				msg(3, mappingB(1, 7)).
				msg(4, locationB(1, 1, 1, 9, big)).
				msg(5, functionB(1, 4))),
			want:      `M0{id=1 file="/bin/a" krs=""} F0{id=1 name="fA"} L0{id=1 idx=0 m=M0 F0/0 nil/0 nil/0} S0{L0 idx=[]}`,
			wantValid: "location id: 1 has a line with nil function", wantParse: "malformed profile: location id: 1 has a line with nil function",
		},
		{
			name: "dangling-mapping-is-nil-mapping",
			data: trailerB(headerB().
				msg(2, sampleB(1, 1, 2)).
				msg(3, mappingB(1, 7)).
				msg(4, locationB(1, 5, 1)).msg(4, locationB(2, big, 1)).
				msg(5, functionB(1, 4))),
			want:      `M0{id=1 file="/bin/a" krs=""} F0{id=1 name="fA"} L0{id=1 idx=0 m=nil F0/0} L1{id=2 idx=0 m=nil F0/0} S0{L0 L1 idx=[]}`,
			wantValid: "<nil>", wantParse: "<nil>",
		},
		{
			name: "dangling-location",
			data: trailerB(headerB().
				msg(2, sampleB(1, 1)).msg(2, sampleB(1, 1, 7, big)).
				msg(3, mappingB(1, 7)).
				msg(4, locationB(1, 1, 1)).
				msg(5, functionB(1, 4))),
			want:      `M0{id=1 file="/bin/a" krs=""} F0{id=1 name="fA"} L0{id=1 idx=0 m=M0 F0/0} S0{L0 idx=[]} S1{L0 nil nil idx=[]}`,
			wantValid: "sample has nil location", wantParse: "malformed profile: sample has nil location",
		},
		{
			name: "references-before-definitions-empty-tables",
			data: trailerB(headerB().
				msg(2, sampleB(1, 1)).
				msg(4, locationB(1, 0))),
			want:      `L0{id=1 idx=0 m=nil} S0{L0 idx=[]}`,
			wantValid: "<nil>", wantParse: "<nil>",
		},
	}
	for _, c := range cases {
		p, err := ParseUncompressed(c.data)
		if err != nil {
			t.Errorf("%s: ParseUncompressed: %v", c.name, err)
			continue
		}
		if got := describeB(p); got != c.want {
			t.Errorf("%s: resolution\n got: %s\nwant: %s", c.name, got, c.want)
		}
		if got := errB(p.CheckValid()); got != c.wantValid {
			t.Errorf("%s: CheckValid = %q, want %q", c.name, got, c.wantValid)
		}
		q, err := ParseData(c.data)
		if got := errB(err); got != c.wantParse {
			t.Errorf("%s: ParseData err = %q, want %q", c.name, got, c.wantParse)
		}
		if err == nil {
			exerciseB(t, c.name, q)
		}
	}
}

// exerciseB drives a successfully parsed profile through the operations the
// property promises cannot crash, and checks the validity contract.
func exerciseB(t *testing.T, name string, p *Profile) string {
	if err := p.CheckValid(); err != nil {
		t.Errorf("%s: parsed profile is not valid: %v", name, err)
	}
	seenL := map[uint64]bool{}
	for _, l := range p.Location {
		if l.ID == 0 || seenL[l.ID] {
			t.Errorf("%s: location id %d zero or repeated", name, l.ID)
		}
		seenL[l.ID] = true
	}
	for _, s := range p.Sample {
		if len(s.Value) != len(p.SampleType) {
			t.Errorf("%s: sample with %d values for %d types", name, len(s.Value), len(p.SampleType))
		}
		for _, l := range s.Location {
			if l == nil || !seenL[l.ID] {
				t.Errorf("%s: sample references unknown location", name)
			}
		}
	}
	var buf bytes.Buffer
	if err := p.Write(&buf); err != nil {
		t.Errorf("%s: Write: %v", name, err)
	}
	back, err := ParseData(buf.Bytes())
	if err != nil {
		t.Errorf("%s: re-parse of written profile: %v", name, err)
	} else if back.String() != p.String() {
		t.Errorf("%s: written profile re-parses differently", name)
	}
	return "P:" + p.String() + "\nC:" + p.Copy().String() + "\nK:" + p.Compact().String()
}

func TestZZEquivB_Sweep(t *testing.T) {
	const big = 1 << 40
	seed := trailerB(headerB().
		msg(2, sampleB(1, big, 3)).msg(2, sampleB(2, 3, big, 3, 1)).msg(2, sampleB(3)).
		msg(3, mappingB(3, 7)).msg(3, mappingB(big, 8)).
		msg(4, locationB(big, 3, big+1, 2)).msg(4, locationB(3, big, 2)).msg(4, locationB(1, 0)).
		msg(5, functionB(big+1, 4)).msg(5, functionB(2, 5)))
	h := sha256.New()
	ok, bad := 0, 0
	emit := func(tag string, data []byte) {
		p, err := ParseData(data)
		var o string
		if err != nil {
			bad++
			o = "E:" + errB(err)
		} else {
			ok++
			o = exerciseB(t, tag, p)
		}
		fmt.Fprintf(h, "%s\x00%s\x00", tag, o)
	}
	emit("seed", seed)
	for i := 0; i < len(seed); i++ {
		emit(fmt.Sprintf("trunc%d", i), seed[:i])
		for _, v := range []byte{0x00, 0x01, 0x02, 0x03, 0x04, 0x7f, 0x80, 0xff, seed[i] ^ 0x08, seed[i] + 1, seed[i] - 1} {
			if v == seed[i] {
				continue
			}
			d := append([]byte(nil), seed...)
			d[i] = v
			emit(fmt.Sprintf("sub%d_%d", i, v), d)
		}
		emit(fmt.Sprintf("del%d", i), append(append([]byte(nil), seed[:i]...), seed[i+1:]...))
	}
	got := hex.EncodeToString(h.Sum(nil))
	const want = "6f16f8e06b2a9bcbcb4baa84ecfc6b8700dd05ca2faff2de232d9962f5d126b9"
	const wantOK, wantBad = 932, 1899
	if got != want || ok != wantOK || bad != wantBad {
		t.Errorf("sweep digest = %s (ok %d, err %d); want %s (ok %d, err %d)", got, ok, bad, want, wantOK, wantBad)
	}
}
