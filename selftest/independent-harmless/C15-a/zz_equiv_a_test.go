package measurement

import (
	"crypto/sha256"
	"fmt"
	"math"
	"strings"
	"testing"

	"github.com/google/pprof/profile"
)

// Unit spellings: canonical aliases, plurals, mixed case, short units that must
// not be de-pluralized, the multi-byte "μs", near misses and unknown units.
var zzASpellings = []string{
	"", "b", "B", "bs", "byte", "bytes", "Bytes", "BYTES", "bytess", "kb", "kB", "KB", "kbs", "kbyte", "kbytes",
	"kilobyte", "kilobytes", "KiloBytes", "mb", "mbs", "megabyte", "megabytes", "gb", "gigabytes", "tb", "terabytes",
	"pb", "PB", "pbs", "petabyte", "petabytes",
	"ns", "nss", "NS", "nanosecond", "nanoseconds", "Nanoseconds", "us", "uss", "μs", "μss", "Μs", "microsecond", "microseconds",
	"ms", "mss", "MS", "millisecond", "milliseconds", "s", "S", "ss", "sec", "secs", "second", "seconds", "Seconds",
	"hour", "hours", "hr", "hrs", "HRS", "hrss", "h", "min", "minute", "minutes",
	"gcu", "GCU", "gcus", "nanogcu", "nanogcus", "microgcu", "milligcu", "milligcus", "kilogcu", "megagcu", "gigagcu",
	"teragcu", "petagcu", "PetaGCUs", "n*GCU", "k*gcu",
	"count", "counts", "sample", "samples", "unit", "objects", "auto", "minimum", "bogus", "sb", "bss", "as",
}

var zzAValues = []int64{0, 1, -1, 2, 999, 1000, 1023, 1024, 1025, -1024, 1<<20 - 1, 1 << 20, 3600e9 - 1, 3600e9, 123456789012,
	1 << 40, 1<<50 + 12345, math.MaxInt64, math.MinInt64 + 1, math.MinInt64}

func zzASniff(t *testing.T) string {
	var b strings.Builder
	for _, s := range zzASpellings {
		fmt.Fprintf(&b, "%q:", s)
		for i, ut := range UnitTypes {
			u := ut.sniffUnit(s)
			if u == nil {
				fmt.Fprintf(&b, " %d=nil", i)
				continue
			}
			fmt.Fprintf(&b, " %d=%s/%v/%v", i, u.CanonicalName, u.Factor, u.aliases)
		}
		b.WriteString("\n")
	}
	return b.String()
}

func TestZZEquivA_SniffExplicit(t *testing.T) {
	// Expected values computed on the unchanged tree.
	for _, tc := range []struct {
		spelling string
		want     [3]string // canonical name per unit type, "" if unknown
	}{
		{"bytes", [3]string{"B", "", ""}},
		{"BYTES", [3]string{"B", "", ""}},
		{"bs", [3]string{"", "", ""}},
		{"bytess", [3]string{"", "", ""}},
		{"kbs", [3]string{"kB", "", ""}},
		{"PetaBytes", [3]string{"PB", "", ""}},
		{"ns", [3]string{"", "ns", ""}},
		{"nss", [3]string{"", "ns", ""}},
		{"μs", [3]string{"", "us", ""}},
		{"μss", [3]string{"", "us", ""}},
		{"uss", [3]string{"", "us", ""}},
		{"ms", [3]string{"", "ms", ""}},
		{"s", [3]string{"", "s", ""}},
		{"ss", [3]string{"", "", ""}},
		{"secs", [3]string{"", "s", ""}},
		{"hrs", [3]string{"", "hrs", ""}},
		{"hours", [3]string{"", "hrs", ""}},
		{"hrss", [3]string{"", "", ""}},
		{"GCUs", [3]string{"", "", "GCU"}},
		{"milligcus", [3]string{"", "", "m*GCU"}},
		{"k*gcu", [3]string{"", "", ""}},
		{"count", [3]string{"", "", ""}},
		{"", [3]string{"", "", ""}},
	} {
		for i, ut := range UnitTypes {
			got := ""
			if u := ut.sniffUnit(tc.spelling); u != nil {
				got = u.CanonicalName
			}
			if got != tc.want[i] {
				t.Errorf("UnitTypes[%d].sniffUnit(%q) = %q, want %q", i, tc.spelling, got, tc.want[i])
			}
		}
	}
}

func TestZZEquivA_SniffDoesNotAliasTable(t *testing.T) {
	// The returned *Unit is a private copy: writing through it must not change the table.
	u := UnitTypes[0].sniffUnit("kilobytes")
	if u == nil {
		t.Fatal("kilobytes unknown")
	}
	u.Factor = 7
	u.CanonicalName = "x"
	if v, unit := Scale(2048, "kilobytes", "bytes"); v != 2048*1024 || unit != "B" {
		t.Errorf("table modified through sniffUnit result: got %v %q", v, unit)
	}
}

func TestZZEquivA_Sweep(t *testing.T) {
	var b strings.Builder
	b.WriteString(zzASniff(t))
	for _, from := range zzASpellings {
		for _, to := range zzASpellings {
			for _, v := range zzAValues {
				f, u := Scale(v, from, to)
				fmt.Fprintf(&b, "%d %q %q -> %x %q %q\n", v, from, to, math.Float64bits(f), u, ScaledLabel(v, from, to))
			}
			c := compatibleValueTypes(&profile.ValueType{Type: "space", Unit: from}, &profile.ValueType{Type: "spaces", Unit: to})
			fmt.Fprintf(&b, "compat %q %q %v\n", from, to, c)
		}
	}
	got := fmt.Sprintf("%x", sha256.Sum256([]byte(b.String())))
	const want = "2d682e4a10da68f734f82727c8e8ba70677939455614ce29c25b75f63015ee99" // computed on the unchanged tree
	if got != want {
		t.Errorf("sweep digest = %s, want %s (%d bytes)", got, want, b.Len())
	}
}
