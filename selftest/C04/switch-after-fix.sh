#!/bin/sh
# Run in /verif AFTER fixes/C07-aggregate-drops-start-line-with-function.patch is committed to /repo.
# Activates the model of the repaired Profile.Aggregate (StartLine := 0 when the function identity is
# dropped): Lean model + lemmas + Props/C04 (granularity_identity: files => startLine = 0), the two
# regression witnesses, checks/C04.json, and the revert mutant.  The Go harness needs no change: it
# calls the real Aggregate and takes every expected identity from the Lean model.
set -e
cd "$(dirname "$0")/../.."
# the staged files are whole-file copies: refuse to overwrite originals edited since they were staged
if ! sha256sum -c --quiet selftest/C04/after-fix.base.sha256; then
  echo "an original changed since the after-fix files were staged: merge by hand (diff <file> <file>.after-fix)"; exit 1
fi
for f in lean/PprofVerif/Model/Graph.lean lean/PprofVerif/Lemmas/Aggregate.lean lean/PprofVerif/Lemmas/AggregateFields.lean \
         lean/PprofVerif/Props/C04.lean checks/C04.json \
         corpus/C04/fixed-files-granularity-start-line-graph.json corpus/C04/fixed-files-granularity-start-line-cli.json \
         selftest/C04/mutant-after-fix-revert-aggregate-start-line.patch; do
  mv "$f.after-fix" "$f"
done
rm selftest/C04/after-fix.base.sha256
echo "mutant-after-fix-revert-aggregate-start-line.patch (reverts the /repo fix) MUST give VIOLATION for C04 and C05." >> selftest/C04/README
echo "now: add the 'fixed:' line (C04 reports the defect as C04/graph.New/graph/node-missing, node-extra and C04/<level>/<format>/entry with agg=101000-style flags), let build-C07 drop its 'known' entry, run bin/check C04 and bin/check C05"
