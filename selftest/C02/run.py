#!/usr/bin/env python3
"""selftest/C02/run.py [patch-name-substring…] — apply each patch of this directory to a scratch
worktree of /repo, run `bin/check C02` against it and compare with the expectation encoded in
the file name: mutant-* must yield VIOLATION (with a replay that reproduces), harmless-* must not."""
import glob, os, re, subprocess, sys
HERE = os.path.dirname(os.path.abspath(__file__))
VERIF = os.path.dirname(os.path.dirname(HERE))
WT = os.environ.get("C02_WT", "/tmp/wt-C02-selftest")
def sh(cmd, **kw): return subprocess.run(cmd, shell=True, text=True, stdout=subprocess.PIPE, stderr=subprocess.STDOUT, **kw)
own = not os.path.exists(WT)
if own: print(sh(f"git -C /repo worktree add --detach {WT} HEAD").stdout.strip())
ok = True
try:
    for p in sorted(glob.glob(os.path.join(HERE, "*.patch"))):
        name = os.path.basename(p)[:-6]
        if sys.argv[1:] and not any(a in name for a in sys.argv[1:]): continue
        sh("git checkout -q . && git clean -fdq", cwd=WT)
        r = sh(f"git apply {p}", cwd=WT)
        if r.returncode: print(name, "PATCH DOES NOT APPLY", r.stdout); ok = False; continue
        r = sh("bin/check C02", cwd=VERIF, env=dict(os.environ, VERIF_REPO=WT))
        viol = [l for l in r.stdout.splitlines() if l.startswith("VIOLATION")]
        want = name.startswith("mutant")
        verdict = "ok" if bool(viol) == want else "WRONG"
        replay_ok = ""
        if want and viol:
            m = re.search(r"replay=(\S+)", viol[0])
            if m and "no-failing-input-found" not in viol[0]:
                rr = sh(f"bin/check C02 --replay {m.group(1)}", cwd=VERIF, env=dict(os.environ, VERIF_REPO=WT))
                replay_ok = " replay-reproduces" if "VIOLATION" in rr.stdout else " REPLAY-DOES-NOT-REPRODUCE"
                if "REPLAY" in replay_ok: verdict = "WRONG"
        if verdict != "ok": ok = False
        sigs = [l.strip() for l in r.stdout.splitlines() if l.startswith("  #")]
        print(f"{name}: {verdict}{replay_ok} ({len(viol)} violation lines) {r.stdout.splitlines()[-1]}")
        for s in sigs[:4]: print("    " + s[:220])
finally:
    sh("git checkout -q . && git clean -fdq", cwd=WT)
    if own: sh(f"git -C /repo worktree remove --force {WT}")
sys.exit(0 if ok else 1)
