#!/bin/sh
# Run in /verif AFTER both fixes/C08-calltree-deterministic.patch and
# fixes/C08-comparenodes-fieldwise-tiebreak.patch are committed to /repo (commit them together: the
# staged files assume both).  Activates the model/check of the repaired behaviour.
set -e
cd "$(dirname "$0")/../.."
cp lean/PprofVerif/Props/C08.lean.after-fix              lean/PprofVerif/Props/C08.lean
cp lean/PprofVerif/Spec/MapRangesExpected.lean.after-fix lean/PprofVerif/Spec/MapRangesExpected.lean
cp harness/c08_fixed.go.after-fix                        harness/c08_fixed.go
cp checks/C08.json.after-fix                             checks/C08.json
git mv corpus/C08/known-sprint-collision.json          corpus/C08/fixed-sprint-collision.json
git mv corpus/C08/known-call-tree-identical-info.json  corpus/C08/fixed-call-tree-identical-info.json
rm lean/PprofVerif/Props/C08.lean.after-fix lean/PprofVerif/Spec/MapRangesExpected.lean.after-fix harness/c08_fixed.go.after-fix checks/C08.json.after-fix
echo "now: delete the two C08 'known' lines from KNOWN_FINDINGS.jsonl, add the 'fixed:' lines, run bin/check C08"
