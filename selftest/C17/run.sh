#!/bin/sh
# usage: selftest/C17/run.sh [patch...]  — applies each patch to a scratch worktree of /repo, runs bin/check C17, reverts.
WT=${WT:-/tmp/wt-C17}
[ -d "$WT" ] || git -C /repo worktree add --detach "$WT" HEAD >/dev/null 2>&1
cd /verif
[ $# -eq 0 ] && set -- selftest/C17/*.patch
for p in "$@"; do
  git -C "$WT" checkout -q -- . && git -C "$WT" apply "$(realpath "$p")" || { echo "$p: does not apply"; continue; }
  git -C "$WT" checkout -q --detach $(git -C /repo rev-parse HEAD); (cd "$WT" && GOFLAGS=-mod=mod GOPROXY=off GOSUMDB=off GOTOOLCHAIN=local go build ./internal/report/ ) || { echo "$p: does not compile"; continue; }
  out=$(VERIF_REPO="$WT" bin/check C17 2>&1); rc=$?
  echo "$(basename "$p"): exit=$rc $(echo "$out" | grep -c '^VIOLATION') violation line(s): $(echo "$out" | grep '^  # ' | head -3 | cut -c1-150 | tr '\n' '|')"
  git -C "$WT" checkout -q -- .
done
