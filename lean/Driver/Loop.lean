/-
Line-protocol loop shared by the per-property drivers `pvdrv-Cxx`.  One request per line
(`<op> <tokens…>`), one reply line per request, flushed immediately.  Core Lean only.
-/
namespace Driver

def step (ops : List (String × (List String → String))) (line : String) : String :=
  match (line.trimAscii.toString.splitOn " ").filter (· ≠ "") with
  | [] => "bad-op"
  | op :: args =>
    match ops.lookup op with
    | some f => f args
    | none => if op == "ping" then "pong" else "bad-op"

partial def loop (ops : List (String × (List String → String))) (hin hout : IO.FS.Stream) : IO Unit := do
  let line ← hin.getLine
  if line.isEmpty then return ()
  hout.putStrLn (step ops line)
  hout.flush
  loop ops hin hout

def run (ops : List (String × (List String → String))) : IO Unit := do
  loop ops (← IO.getStdin) (← IO.getStdout)

end Driver
