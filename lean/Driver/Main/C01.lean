import Driver.Loop
import Driver.Ops.C01
/- pvdrv-C01: model driver for property C01.  Import further Driver.Ops.* modules here if this
   property's harness needs operations defined for another property. -/
def main : IO Unit := Driver.run (Driver.C01.ops)
