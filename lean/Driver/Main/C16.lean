import Driver.Loop
import Driver.Ops.C16
/- pvdrv-C16: model driver for property C16.  Import further Driver.Ops.* modules here if this
   property's harness needs operations defined for another property. -/
def main : IO Unit := Driver.run (Driver.C16.ops)
