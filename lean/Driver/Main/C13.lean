import Driver.Loop
import Driver.Ops.C13
/- pvdrv-C13: model driver for property C13.  Import further Driver.Ops.* modules here if this
   property's harness needs operations defined for another property. -/
def main : IO Unit := Driver.run (Driver.C13.ops)
