import Driver.Loop
import Driver.Ops.C15
/- pvdrv-C15: model driver for property C15.  Import further Driver.Ops.* modules here if this
   property's harness needs operations defined for another property. -/
def main : IO Unit := Driver.run (Driver.C15.ops)
