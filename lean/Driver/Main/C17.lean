import Driver.Loop
import Driver.Ops.C17
/- pvdrv-C17: model driver for property C17.  Import further Driver.Ops.* modules here if this
   property's harness needs operations defined for another property. -/
def main : IO Unit := Driver.run (Driver.C17.ops)
