import Driver.Loop
import Driver.Ops.C07
/- pvdrv-C07: model driver for property C07.  Import further Driver.Ops.* modules here if this
   property's harness needs operations defined for another property. -/
def main : IO Unit := Driver.run (Driver.C07.ops)
