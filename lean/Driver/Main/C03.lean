import Driver.Loop
import Driver.Ops.C03
/- pvdrv-C03: model driver for property C03.  Import further Driver.Ops.* modules here if this
   property's harness needs operations defined for another property. -/
def main : IO Unit := Driver.run (Driver.C03.ops)
