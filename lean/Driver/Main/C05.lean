import Driver.Loop
import Driver.Ops.C05
/- pvdrv-C05: model driver for property C05.  Import further Driver.Ops.* modules here if this
   property's harness needs operations defined for another property. -/
def main : IO Unit := Driver.run (Driver.C05.ops)
