import Driver.Loop
import Driver.Ops.C04
import Driver.Ops.C05
/- pvdrv-C05: model driver for property C05 (graph figures under a kept set come from the C04
   operations; the node selection of text reports from Driver.Ops.C05). -/
def main : IO Unit := Driver.run (Driver.C04.ops ++ Driver.C05.ops ++ Driver.C05.opsTree)
