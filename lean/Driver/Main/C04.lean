import Driver.Loop
import Driver.Ops.C04
/- pvdrv-C04: model driver for property C04.  Import further Driver.Ops.* modules here if this
   property's harness needs operations defined for another property. -/
def main : IO Unit := Driver.run (Driver.C04.ops)
