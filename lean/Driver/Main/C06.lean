import Driver.Loop
import Driver.Ops.C06
/- pvdrv-C06: model driver for property C06.  Import further Driver.Ops.* modules here if this
   property's harness needs operations defined for another property. -/
def main : IO Unit := Driver.run (Driver.C06.ops)
