import Driver.Loop
import Driver.Ops.C10
/- pvdrv-C10: model driver for property C10.  Import further Driver.Ops.* modules here if this
   property's harness needs operations defined for another property. -/
def main : IO Unit := Driver.run (Driver.C10.ops)
