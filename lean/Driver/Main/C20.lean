import Driver.Loop
import Driver.Ops.C20
/- pvdrv-C20: model driver for property C20.  Import further Driver.Ops.* modules here if this
   property's harness needs operations defined for another property. -/
def main : IO Unit := Driver.run (Driver.C20.ops)
