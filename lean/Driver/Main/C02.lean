import Driver.Loop
import Driver.Ops.C01
import Driver.Ops.C02
def main : IO Unit := Driver.run (Driver.C01.ops ++ Driver.C02.ops)
