import Driver.Loop
import Driver.Ops.C19
/- pvdrv-C19: model driver for property C19.  Import further Driver.Ops.* modules here if this
   property's harness needs operations defined for another property. -/
def main : IO Unit := Driver.run (Driver.C19.ops)
