import Driver.Loop
import Driver.Ops.C18
/- pvdrv-C18: model driver for property C18.  Import further Driver.Ops.* modules here if this
   property's harness needs operations defined for another property. -/
def main : IO Unit := Driver.run (Driver.C18.ops)
