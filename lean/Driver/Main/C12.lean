import Driver.Loop
import Driver.Ops.C12
/- pvdrv-C12: model driver for property C12.  Import further Driver.Ops.* modules here if this
   property's harness needs operations defined for another property. -/
def main : IO Unit := Driver.run (Driver.C12.ops)
