import Driver.Loop
import Driver.Ops.C14
/- pvdrv-C14: model driver for property C14.  Import further Driver.Ops.* modules here if this
   property's harness needs operations defined for another property. -/
def main : IO Unit := Driver.run (Driver.C14.ops)
