import Driver.Loop
import Driver.Ops.C08
/- pvdrv-C08: model driver for property C08.  Import further Driver.Ops.* modules here if this
   property's harness needs operations defined for another property. -/
def main : IO Unit := Driver.run (Driver.C08.ops)
