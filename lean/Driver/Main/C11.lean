import Driver.Loop
import Driver.Ops.C11
/- pvdrv-C11: model driver for property C11.  Import further Driver.Ops.* modules here if this
   property's harness needs operations defined for another property. -/
/- C06's operations (apply.model, name.spec, …) are linked too: the command-line stream composes the
   sample filters with prune_from (C11's own ops come first, so its `views`/`valid` win). -/
def main : IO Unit := Driver.run (Driver.C11.ops ++ Driver.C06.ops)
