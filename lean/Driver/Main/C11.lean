import Driver.Loop
import Driver.Ops.C11
/- pvdrv-C11: model driver for property C11.  Import further Driver.Ops.* modules here if this
   property's harness needs operations defined for another property. -/
def main : IO Unit := Driver.run (Driver.C11.ops)
