import Driver.Loop
import Driver.Ops.C09
/- pvdrv-C09: model driver for property C09.  Import further Driver.Ops.* modules here if this
   property's harness needs operations defined for another property. -/
def main : IO Unit := Driver.run (Driver.C09.ops)
