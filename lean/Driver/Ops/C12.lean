import PprofVerif.Model.Symbolize
/-
Driver operations for C12.  The plug-ins of the model (`ObjTool σ`, `Symz τ`, `isSourceURL`,
`filter`) are instantiated with *script interpreters*: the harness draws a script from its PRNG,
runs the real code against Go plug-ins that interpret the script, and sends the same script here.
Both interpreters log the calls they receive.
-/
namespace Driver.C12
open PV PV.Sym

/-- script of one `Open` call. -/
structure FileScript where
  openErr : Bool
  buildID : Str
  failAt : Nat                       -- the failAt-th SourceLine call on this file errs (0 = never)
  answers : List (Nat × List Frame)  -- address ↦ stack; missing = no answer
  deriving Inhabited

structure ObjState where
  pending : List FileScript
  cur : Option FileScript
  calls : Nat
  log : List String                  -- most recent first
  deriving Inhabited

def natS (n : Nat) : String := toString n

def scriptedTool : ObjTool ObjState where
  openFile s m :=
    let e := "O:" ++ m.file.toTok ++ ":" ++ natS m.start ++ ":" ++ natS m.limit ++ ":" ++ natS m.offset
    match s.pending with
    | [] => ({ s with log := e :: s.log }, .err "no such file")
    | f :: rest =>
      if f.openErr then ({ s with pending := rest, log := e :: s.log }, .err "open failed")
      else ({ pending := rest, cur := some f, calls := 0, log := e :: s.log }, .ok ())
  buildID s :=
    match s.cur with
    | some f => ({ s with log := "B" :: s.log }, f.buildID)
    | none => ({ s with log := "B" :: s.log }, [])
  sourceLine s addr :=
    let s1 := { s with calls := s.calls + 1, log := ("S:" ++ natS addr) :: s.log }
    match s.cur with
    | none => (s1, .err "closed")
    | some f =>
      if f.failAt ≠ 0 ∧ f.failAt = s.calls + 1 then (s1, .err "scripted failure")
      else match f.answers.lookup addr with
        | some fr => (s1, .ok fr)
        | none => (s1, .ok [])
  close s := { s with cur := none, log := "C" :: s.log }

/-- script of one POST: the body answers the queried addresses (`c12Post` in harness/c12.go). -/
structure PostScript where
  isErr : Bool
  names : List Str
  dropEvery : Nat
  before : Str
  after : Str
  sep : Str
  deriving Inhabited

def respondLines (ps : PostScript) : Nat → List Str → Str
  | _, [] => []
  | i, a :: rest =>
    let line : Str :=
      if ps.dropEvery ≠ 0 ∧ i % ps.dropEvery = 0 then []
      else a ++ ps.sep ++ (match ps.names with
                           | [] => a
                           | _ => ps.names.getD (i % ps.names.length) []) ++ [10]
    line ++ respondLines ps (i + 1) rest

def respond (ps : PostScript) (query : Str) : Str :=
  ps.before ++ respondLines ps 0 (splitOn 43 query) ++ ps.after

structure PostState where
  pending : List PostScript          -- per POST, in call order
  log : List String
  deriving Inhabited

def missMarker : Str := [0, 77, 73, 83, 83]

def tableFn (tab : List (Str × Str)) (dflt : Str → Str) (s : Str) : Str :=
  match tab.lookup s with
  | some d => d
  | none => dflt s

def scriptedSymz (urls : List (Str × Str)) : Symz PostState where
  symbolzURL := tableFn urls (fun _ => [])
  post s src q :=
    let e := "P:" ++ src.toTok ++ ":" ++ q.toTok
    match s.pending with
    | [] => ({ s with log := e :: s.log }, .err "no answer")
    | ps :: rest =>
      if ps.isErr then ({ pending := rest, log := e :: s.log }, .err "post failed")
      else ({ pending := rest, log := e :: s.log }, .ok (respond ps q))
  parseLine := parseSymbolzLine

namespace Rd
open PV.Rd
def frame : Rd Frame := do
  pure { func := ← str, file := ← str, line := ← int, column := ← int, startLine := ← int }
def fileScript : Rd FileScript := do
  pure { openErr := ← bool, buildID := ← str, failAt := ← nat,
         answers := ← list (do let a ← nat; let fr ← list frame; pure (a, fr)) }
def source : Rd Source := do pure { source := ← str, start := ← nat }
def sources : Rd Sources := list (do let k ← str; let v ← list source; pure (k, v))
def postAns : Rd PostScript := do
  pure { isErr := ← bool, names := ← list str, dropEvery := ← nat, before := ← str, after := ← str,
         sep := ← str }
def strPair : Rd (Str × Str) := do let a ← str; let b ← str; pure (a, b)
def dmode : Rd DMode := do
  let n ← nat
  match n with
  | 0 => pure .dflt
  | 1 => pure .templates
  | 2 => pure .full
  | 3 => pure .none
  | _ => failure
end Rd

def logWr (l : List String) : Wr := toString l.length :: l.reverse

def reply (err wrapped : Bool) (p : Profile) (log1 log2 : List String) : String :=
  Wr.render (["ok"] ++ Wr.bool err ++ Wr.bool wrapped ++ Wr.profile p ++ logWr log1 ++ logWr log2)

def ops : List (String × (List String → String)) := [
  -- Symbolizer.Symbolize(mode, sources, p) with scripted plug-ins
  ("sym.run", fun ts =>
    let rd : PV.Rd _ := do
      let mode ← PV.Rd.str
      let p ← PV.Rd.profile
      let srcs ← Rd.sources
      let files ← PV.Rd.list Rd.fileScript
      let posts ← PV.Rd.list Rd.postAns
      let urls ← PV.Rd.list Rd.strPair
      let srcURLs ← PV.Rd.list PV.Rd.str
      let filt ← PV.Rd.list Rd.strPair
      pure (mode, p, srcs, files, posts, urls, srcURLs, filt)
    match PV.Rd.run rd ts with
    | none => "bad-op"
    | some (mode, p, srcs, files, posts, urls, srcURLs, filt) =>
      let env : Env ObjState PostState := {
        tool := scriptedTool
        isSourceURL := fun f => srcURLs.contains f
        symz := scriptedSymz urls
        filter := fun _ => tableFn filt (fun _ => missMarker) }
      let r := symbolize env mode srcs p { pending := files, cur := none, calls := 0, log := [] }
                 { pending := posts, log := [] }
      reply r.err r.wrapped r.profile r.s.log r.t.log),
  -- symbolz.Symbolize(p, force, sources, syms, ui) called directly
  ("sym.remote", fun ts =>
    let rd : PV.Rd _ := do
      let force ← PV.Rd.bool
      let p ← PV.Rd.profile
      let srcs ← Rd.sources
      let posts ← PV.Rd.list Rd.postAns
      let urls ← PV.Rd.list Rd.strPair
      pure (force, p, srcs, posts, urls)
    match PV.Rd.run rd ts with
    | none => "bad-op"
    | some (force, p, srcs, posts, urls) =>
      let r := remoteLoop (scriptedSymz urls) force srcs { pending := posts, log := [] }
                 { functions := p.functions, top := 0, wrapped := false } p.locations p.mappings
      reply r.2.2.2.2 r.2.1.wrapped
        { p with functions := r.2.1.functions, locations := r.2.2.1, mappings := r.2.2.2.1 } [] r.1.log),
  -- symbolizer.Demangle(p, force, mode) called directly
  ("sym.demangle", fun ts =>
    let rd : PV.Rd _ := do
      let force ← PV.Rd.bool
      let dm ← Rd.dmode
      let p ← PV.Rd.profile
      let filt ← PV.Rd.list Rd.strPair
      pure (force, dm, p, filt)
    match PV.Rd.run rd ts with
    | none => "bad-op"
    | some (force, dm, p, filt) =>
      let fs := demangle (fun _ => tableFn filt (fun _ => missMarker)) force dm p.functions
      reply false false { p with functions := fs } [] []),
  ("sym.parsemode", fun ts =>
    match PV.Rd.run PV.Rd.str ts with
    | none => "bad-op"
    | some m => match parseMode m with
      | none => "none"
      | some o => Wr.render (Wr.bool o.remote ++ Wr.bool o.locl ++ Wr.bool o.fast ++ Wr.bool o.force ++
          [match o.dmode with | .dflt => "0" | .templates => "1" | .full => "2" | .none => "3"])),
  ("sym.removematching", fun ts =>
    match PV.Rd.run (do let s ← PV.Rd.str; let a ← PV.Rd.nat; let b ← PV.Rd.nat; pure (s, a, b)) ts with
    | none => "bad-op"
    | some (s, a, b) => (removeMatching s (UInt8.ofNat a) (UInt8.ofNat b)).toTok),
  ("sym.parseline", fun ts =>
    match PV.Rd.run PV.Rd.str ts with
    | none => "bad-op"
    | some s => match parseSymbolzLine s with
      | none => "nomatch"
      | some (.ok a, name) => "ok " ++ natS a ++ " " ++ name.toTok
      | some (_, name) => "range " ++ name.toTok),
  ("sym.adjust", fun ts =>
    match PV.Rd.run (do let a ← PV.Rd.nat; let o ← PV.Rd.int; pure (a, o)) ts with
    | none => "bad-op"
    | some (a, o) => match adjust a o with
      | none => "overflow"
      | some v => natS v)
]
end Driver.C12
