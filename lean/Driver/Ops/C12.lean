import PprofVerif.Base.Tok
/- Driver operations for C12. -/
namespace Driver.C12
open PV

def ops : List (String × (List String → String)) := []
end Driver.C12
