import PprofVerif.Model.Merge
import PprofVerif.Spec.Weight
/- Driver operations for C03 (merge): the model (`merge.model`, `compact.model`) and the Spec
   (`merge.spec` = expected weight table + header of a merge, `merge.abs` = weight table of one
   profile).  Weight tables are printed as rows `count nvalues v… <stack key tokens>` separated by
   the token `|`, sorted by their text, so that equality of tables is equality of strings. -/
namespace Driver.C03
open PV PV.Merge PV.Spec

def outProfile : Outcome Profile → String
  | .ok p => "ok " ++ Wr.render (Wr.profile p)
  | .err _ => "err"
  | .panic s => "panic " ++ s

namespace W
open PV.Wr
def funcIdent (f : FuncIdent) : Wr := str f.name ++ str f.systemName ++ str f.filename ++ int f.startLine
def mapIdent (m : MapIdent) : Wr := str m.buildIDOrFile ++ nat m.size ++ nat m.offset
def lineIdent (l : LineIdent) : Wr := opt funcIdent l.fn ++ int l.line ++ int l.column
def frameIdent (f : FrameIdent) : Wr :=
  opt mapIdent f.mapping ++ nat f.relAddr ++ list lineIdent f.lines ++ bool f.folded
def numLabel (x : Str × (List Int × List Str)) : Wr := str x.1 ++ list int x.2.1 ++ list str x.2.2
def stackKey (k : StackKey) : Wr :=
  list frameIdent k.frames ++ list (kv str) k.label ++ list numLabel k.numLabel
def header (h : Header) : Wr :=
  list valueType h.sampleType ++ opt valueType h.periodType ++ str h.dropFrames ++ str h.keepFrames ++
  int h.timeNanos ++ int h.durationNanos ++ int h.period ++ list str h.comments ++
  str h.defaultSampleType ++ str h.docURL
end W

def row (k : StackKey) (count : Nat) (v : List Int) : String :=
  Wr.render (Wr.nat count ++ Wr.list Wr.int v ++ W.stackKey k)

def renderRows (rows : List String) : String :=
  let sorted := rows.mergeSort (fun a b => !(b < a))
  toString sorted.length ++ sorted.foldl (fun acc r => acc ++ " | " ++ r) ""

/-- distinct stack keys of a list of resolved samples, first occurrence order. -/
def distinctKeys (rs : List RSample) : List StackKey :=
  internBy id (rs.map stackKey)

/-- `merge.abs`: every stack of `p` with the number of samples carrying it and its weight. -/
def absTable (p : Profile) : String :=
  match resolve p with
  | none => "unresolvable"
  | some rs =>
    "ok " ++ renderRows ((distinctKeys rs).map fun k => row k (countR rs k) (weight p k))
      ++ " # " ++ Wr.render (W.header (headerOf p))

/-- `merge.spec`: what C03 promises about `Merge ps` — for every stack present in some input the
sum of its weights (`Spec.mergedWeight`), rows that sum to all-zero removed, each stack once;
and the documented header. -/
def specTable (ps : List Profile) : String :=
  match ps with
  | [] => "err"
  | first :: rest =>
    if !(rest.all (compatibleB first)) then "incompatible"
    else match optMap resolve ps with
    | none => "unresolvable"
    | some rss =>
      let keys := distinctKeys rss.flatten
      let rows := keys.filterMap fun k =>
        let w := mergedWeight ps k
        if isZeroV w then none else some (row k 1 w)
      "ok " ++ renderRows rows ++ " # " ++ Wr.render (W.header (combineHeadersSpec first rest))

def withProfiles (ts : List String) (f : List Profile → String) : String :=
  match Rd.run (Rd.list Rd.profile) ts with
  | none => "bad-op"
  | some ps => f ps

def withProfile (ts : List String) (f : Profile → String) : String :=
  match Rd.run Rd.profile ts with
  | none => "bad-op"
  | some p => f p

def ops : List (String × (List String → String)) := [
  ("merge.model", fun ts => withProfiles ts fun ps => outProfile (merge ps)),
  ("merge.once", fun ts => withProfiles ts fun ps => outProfile (mergeOnce ps)),
  ("compact.model", fun ts => withProfile ts fun p => outProfile (compact p)),
  ("merge.spec", fun ts => withProfiles ts specTable),
  ("merge.abs", fun ts => withProfile ts absTable),
  ("merge.valid", fun ts => withProfile ts fun p =>
    if p.validB && p.mapsSorted then "1" else "0")
]
end Driver.C03
