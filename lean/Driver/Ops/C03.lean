import PprofVerif.Base.Tok
/- Driver operations for C03. -/
namespace Driver.C03
open PV

def ops : List (String × (List String → String)) := []
end Driver.C03
