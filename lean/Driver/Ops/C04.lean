import PprofVerif.Model.Graph
/- Driver operations for C04/C05 (graph figures).  Presentation only: reads a profile and options,
   runs `PV.Graph` (model) or `PV.GSpec` (specification) and prints tables. -/
namespace Driver.C04
open PV PV.GSpec PV.Graph

def rdNodeInfo : Rd NodeInfo := do
  pure { name := ← Rd.str, origName := ← Rd.str, address := ← Rd.nat, file := ← Rd.str,
         startLine := ← Rd.int, lineno := ← Rd.int, columnno := ← Rd.int, objfile := ← Rd.str }

def wrNodeInfo (n : NodeInfo) : Wr :=
  Wr.str n.name ++ Wr.str n.origName ++ Wr.nat n.address ++ Wr.str n.file ++ Wr.int n.startLine ++
  Wr.int n.lineno ++ Wr.int n.columnno ++ Wr.str n.objfile

def rdAggFlags : Rd AggFlags := do
  pure { inlineFrame := ← Rd.bool, function := ← Rd.bool, filename := ← Rd.bool,
         linenumber := ← Rd.bool, columnnumber := ← Rd.bool, address := ← Rd.bool }

def wrAggFlags (f : AggFlags) : Wr :=
  Wr.bool f.inlineFrame ++ Wr.bool f.function ++ Wr.bool f.filename ++ Wr.bool f.linenumber ++
  Wr.bool f.columnnumber ++ Wr.bool f.address

/-- common request: options, clean table, profile. -/
structure Req where
  callTree : Bool
  o : GOpts
  agg : Option AggFlags
  vi : Nat
  mean : Bool
  kept : Option (List NodeInfo)
  keptPaths : Option (List (List NodeInfo))   -- call-tree mode: kept nodes by path from the root
  clean : List (Str × Str)
  p : Profile

def rdReq : Rd Req := do
  let callTree ← Rd.bool
  let objNames ← Rd.bool
  let origFnNames ← Rd.bool
  let agg ← Rd.opt rdAggFlags
  let vi ← Rd.nat
  let mean ← Rd.bool
  let kept ← Rd.opt (Rd.list rdNodeInfo)
  let keptPaths ← Rd.opt (Rd.list (Rd.list rdNodeInfo))
  let clean ← Rd.list (do let a ← Rd.str; let b ← Rd.str; pure (a, b))
  let p ← Rd.profile
  pure { callTree, o := { objNames, origFnNames }, agg, vi, mean, kept, keptPaths, clean, p }

def cleanFn (tbl : List (Str × Str)) (s : Str) : Str :=
  match tbl.lookup s with
  | some c => c
  | none => s

def Req.samples (r : Req) : Option (List (GSample NodeInfo)) :=
  let p := match r.agg with
    | none => r.p
    | some f => aggregate r.p f
  samplesOf (cleanFn r.clean) p r.o r.vi r.mean

/-! interning of NodeInfo for output -/
def internIdx (tbl : List NodeInfo) (n : NodeInfo) : List NodeInfo × Nat :=
  match tbl.findIdx? (· == n) with
  | some i => (tbl, i)
  | none => (tbl ++ [n], tbl.length)

def internKey (tbl : List NodeInfo) (k : List NodeInfo) : List NodeInfo × List Nat :=
  k.foldl (fun (t, acc) n => let (t', i) := internIdx t n; (t', acc ++ [i])) (tbl, [])

structure OutTables where
  nodes : List (List NodeInfo × WD × WD)                    -- key, flat, cum
  edges : List (List NodeInfo × List NodeInfo × WD × Bool)  -- src, dst, weight, residual
  total : WD

def wrWD (v : WD) : Wr := Wr.int v.w ++ Wr.int v.d ++ Wr.int v.value

def renderTables (t : OutTables) : String :=
  -- intern all keys
  let (tbl, nodes) := t.nodes.foldl (fun (tb, acc) (k, f, c) =>
    let (tb', ik) := internKey tb k; (tb', acc ++ [(ik, f, c)])) ([], [])
  let (tbl, edges) := t.edges.foldl (fun (tb, acc) (a, b, w, r) =>
    let (tb1, ia) := internKey tb a
    let (tb2, ib) := internKey tb1 b
    (tb2, acc ++ [(ia, ib, w, r)])) (tbl, [])
  "ok " ++ Wr.render (
    Wr.list wrNodeInfo tbl ++
    Wr.list (fun (k, f, c) => Wr.list Wr.nat k ++ wrWD f ++ wrWD c) nodes ++
    Wr.list (fun (a, b, w, r) => Wr.list Wr.nat a ++ Wr.list Wr.nat b ++ wrWD w ++ Wr.bool r) edges ++
    wrWD t.total)

/-- all distinct keys / adjacent pairs of a sample list, first-appearance order. -/
def allKeys {κ : Type} [DecidableEq κ] (ss : List (GSample κ)) : List κ :=
  (ss.flatMap (·.frames)).eraseDups

def allPairs {κ : Type} [DecidableEq κ] (ss : List (GSample κ)) : List (κ × κ) :=
  (ss.flatMap (fun s => s.frames.zip s.frames.tail)).eraseDups

/-- tables according to the SPECIFICATION, for keys of type κ; `K` = kept predicate. -/
def specTables {κ : Type} [DecidableEq κ] (toKey : κ → List NodeInfo) (K : κ → Bool)
    (ss : List (GSample κ)) (totalOf : WD) : OutTables :=
  let keys := (allKeys ss).filter K
  let shown := keys.filter (fun n => (cumSpecK K ss n).w != 0 || (flatSpecK K ss n).w != 0)
  let pairs := (allPairs (ss.map (restrict K))).filter (fun (a, b) => edgeExistsK K ss a b)
  { nodes := shown.map (fun n => (toKey n, flatSpecK K ss n, cumSpecK K ss n)),
    edges := pairs.map (fun (a, b) => (toKey a, toKey b, edgeSpecK K ss a b, edgeResidualSpecK K ss a b)),
    total := totalOf }

/-- tables according to the MODEL of graph.go. -/
def modelTables {κ : Type} [DecidableEq κ] (toKey : κ → List NodeInfo) (g : GState κ) (total : WD) : OutTables :=
  { nodes := g.shownNodes.map (fun (n, a) => (toKey n, a.flat, a.cum)),
    edges := g.edges.map (fun ((a, b), e) => (toKey a, toKey b, e.weight, e.residual)),
    total := total }

def keptFn {κ : Type} [DecidableEq κ] (k : Option (List κ)) : κ → Bool :=
  match k with
  | none => fun _ => true
  | some l => fun n => l.contains n

def runSpec (r : Req) : String :=
  match r.samples with
  | none => "invalid"
  | some ss =>
    if r.callTree then
      renderTables (specTables (κ := List NodeInfo) id (keptFn r.keptPaths) (ss.map treeSample) (totalSpec ss))
    else
      renderTables (specTables (κ := NodeInfo) (fun n => [n]) (keptFn r.kept) ss (totalSpec ss))

def runModel (r : Req) : String :=
  match r.samples with
  | none => "invalid"
  | some ss =>
    if r.callTree then
      renderTables (modelTables (κ := List NodeInfo) id (newTree ss) (computeTotalWD ss))
    else
      renderTables (modelTables (κ := NodeInfo) (fun n => [n]) (newGraph (keptFn r.kept) ss) (computeTotalWD ss))

/-- frames of every sample (root → leaf) with value and divisor. -/
def runFrames (r : Req) : String :=
  match r.samples with
  | none => "invalid"
  | some ss =>
    let (tbl, rows) := ss.foldl (fun (tb, acc) s =>
      let (tb', ik) := internKey tb s.frames; (tb', acc ++ [(ik, s.w, s.d, s.base)])) ([], [])
    "ok " ++ Wr.render (Wr.list wrNodeInfo tbl ++
      Wr.list (fun (k, w, d, b) => Wr.list Wr.nat k ++ Wr.int w ++ Wr.int d ++ Wr.bool b) rows)

def granOfNat : Nat → Option Granularity
  | 0 => some .functions | 1 => some .filefunctions | 2 => some .files | 3 => some .lines
  | 4 => some .addresses | _ => none

def ops : List (String × (List String → String)) := [
  ("graph.spec", fun ts => match Rd.run rdReq ts with
    | none => "bad-op"
    | some r => runSpec r),
  ("graph.model", fun ts => match Rd.run rdReq ts with
    | none => "bad-op"
    | some r => runModel r),
  ("graph.frames", fun ts => match Rd.run rdReq ts with
    | none => "bad-op"
    | some r => runFrames r),
  ("graph.aggflags", fun ts =>
    match Rd.run (do let g ← Rd.nat; let ni ← Rd.bool; let sc ← Rd.bool; pure (g, ni, sc)) ts with
    | none => "bad-op"
    | some (g, ni, sc) => match granOfNat g with
      | none => "bad-op"
      | some gr => "ok " ++ Wr.render (Wr.opt wrAggFlags (aggFlags gr ni sc))),
  ("graph.tag", fun ts =>
    match Rd.run (do let r ← Rd.list Rd.str; let l ← Rd.list Rd.str; let p ← Rd.profile; pure (r, l, p)) ts with
    | none => "bad-op"
    | some (r, l, p) => "ok " ++ Wr.render (Wr.profile (addLabelNodes p r l))),
  ("graph.sampleindex", fun ts =>
    match Rd.run (do let s ← Rd.str; let p ← Rd.profile; pure (s, p)) ts with
    | none => "bad-op"
    | some (s, p) =>
      if p.sampleType.isEmpty then "err" else
      match sampleIndexByName p s with
      | some i => "ok " ++ toString i
      | none => "err")
]
end Driver.C04
