import PprofVerif.Base.Tok
/- Driver operations for C04. -/
namespace Driver.C04
open PV

def ops : List (String × (List String → String)) := []
end Driver.C04
