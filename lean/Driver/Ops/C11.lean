import PprofVerif.Spec.Prune
import Driver.Ops.C06
/- Driver operations for C11 (frame-dropping rules).

Token forms: tbl := <list str> — the SIMPLIFIED names (see op `simplify`) an expression matches;
views as in Driver.Ops.C06. -/
namespace Driver.C11
open PV PV.Prune PV.PruneSpec PV.FilterSpec Driver.C06

def rdTbl : Rd Rx := do
  let t ← Rd.list Rd.str
  pure (fun s => t.contains s)

def rdOptTbl : Rd (Option Rx) := do
  let t ← Rd.opt (Rd.list Rd.str)
  pure (t.map (fun tbl => fun s => tbl.contains s))

def rdDK : Rd (Rx × Option Rx) := do let d ← rdTbl; let k ← rdOptTbl; pure (d, k)

def viewsOf (p : Profile) : String := wrViews (p.samples.map (view p))

def ops : List (String × (List String → String)) := [
  ("simplify", fun ts => match Rd.run Rd.str ts with
    | some s => (simplifyFunc s).toTok
    | none => "bad-op"),
  ("prune.model", fun ts => with2 rdDK Rd.profile ts fun (d, k) p =>
    Wr.render (Wr.profile (prune p d k))),
  ("prune.unrepaired", fun ts => with2 rdDK Rd.profile ts fun (d, k) p =>
    Wr.render (Wr.profile (pruneUnrepaired p d k))),
  ("prune.spec", fun ts => with2 rdDK Rd.profile ts fun (d, k) p =>
    wrViews (pruneSpec p (pruneName d k))),
  ("prunefrom.model", fun ts => with2 rdTbl Rd.profile ts fun d p =>
    Wr.render (Wr.profile (pruneFrom p d))),
  ("prunefrom.spec", fun ts => with2 rdTbl Rd.profile ts fun d p =>
    wrViews (pruneFromSpec p (fun n => d (simplifyFunc n)))),
  ("ru.model", fun ts =>
    with2 (Rd.list (do let k ← Rd.str; let r ← rdOptTbl; pure (k, r))) Rd.profile ts fun tbl p =>
    match removeUninteresting (fun e => (tbl.lookup e).bind id) p with
    | .ok r => "ok " ++ Wr.render (Wr.profile r)
    | .err _ => "err"
    | .panic _ => "panic"),
  ("anchored", fun ts => match Rd.run Rd.str ts with
    | some s => (anchored s).toTok
    | none => "bad-op"),
  ("views", fun ts => match Rd.run Rd.profile ts with
    | some p => viewsOf p
    | none => "bad-op"),
  ("valid", fun ts => match Rd.run Rd.profile ts with
    | some p => if p.validB then "1" else "0"
    | none => "bad-op")
]
end Driver.C11
