import PprofVerif.Base.Tok
/- Driver operations for C11. -/
namespace Driver.C11
open PV

def ops : List (String × (List String → String)) := []
end Driver.C11
