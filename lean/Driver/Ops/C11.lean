import PprofVerif.Spec.Prune
import Driver.Ops.C06
/- Driver operations for C11 (frame-dropping rules).

Token forms: tbl := <list str> — the SIMPLIFIED names (see op `simplify`) an expression matches;
views as in Driver.Ops.C06. -/
namespace Driver.C11
open PV PV.Prune PV.PruneSpec PV.FilterSpec Driver.C06

def rdTbl : Rd Rx := do
  let t ← Rd.list Rd.str
  pure (fun s => t.contains s)

def rdOptTbl : Rd (Option Rx) := do
  let t ← Rd.opt (Rd.list Rd.str)
  pure (t.map (fun tbl => fun s => tbl.contains s))

def rdDK : Rd (Rx × Option Rx) := do let d ← rdTbl; let k ← rdOptTbl; pure (d, k)

/-- which way the hypothesis `PruneH` of prune_spec_frames_partial fails for a sample (root-first
ids): 0 holds, 1 family A (first user location shares its location with a match), 2 family B
(root-most line matches, an inner line does not).  `leadFamily = 0 ↔ leadOK`. -/
def leadFamily (cls : Nat → LocClass) (allm : Nat → Bool) : List Nat → Nat
  | [] => 0
  | id :: r =>
    match cls id with
    | .user => 0
    | .whole => if allm id then leadFamily cls allm r else 2
    | .beneath => 1

/-- `laterWhole` of Lemmas/PruneLemmas.lean (hypothesis `PruneFromH`), restated here because the
driver links core-only modules. -/
def laterWholeD (Q whole : Nat → Bool) : List Nat → Bool
  | [] => true
  | id :: r => if Q id then r.all (fun x => !Q x || whole x) else laterWholeD Q whole r

def allMatchIdD (p : Profile) (q : Str → Bool) (id : Nat) : Bool :=
  match p.findLocation id with
  | some l => !l.lines.isEmpty && l.lines.all (lineMatches p q)
  | none => false

def firstLineMatchesD (p : Profile) (q : Str → Bool) (id : Nat) : Bool :=
  match p.findLocation id with
  | some l => (match l.lines with | ln :: _ => lineMatches p q ln | [] => false)
  | none => false

def viewsOf (p : Profile) : String := wrViews (p.samples.map (view p))

def ops : List (String × (List String → String)) := [
  ("simplify", fun ts => match Rd.run Rd.str ts with
    | some s => (simplifyFunc s).toTok
    | none => "bad-op"),
  ("prune.model", fun ts => with2 rdDK Rd.profile ts fun (d, k) p =>
    Wr.render (Wr.profile (prune p d k))),
  ("prune.repaired", fun ts => with2 rdDK Rd.profile ts fun (d, k) p =>
    Wr.render (Wr.profile (pruneRepaired p d k))),
  ("prune.spec", fun ts => with2 rdDK Rd.profile ts fun (d, k) p =>
    wrViews (pruneSpec p (pruneName d k))),
  ("prune.H", fun ts => with2 rdDK Rd.profile ts fun (d, k) p =>
    let q := pruneName d k
    " ".intercalate (p.samples.map fun s =>
      toString (leadFamily (classOf p q) (allMatchIdD p q) s.locationIDs.reverse))),
  ("prunefrom.H", fun ts => with2 rdTbl Rd.profile ts fun d p =>
    let q := fun n => d (simplifyFunc n)
    " ".intercalate (p.samples.map fun s =>
      if laterWholeD (pruneFromId p q) (firstLineMatchesD p q) s.locationIDs then "0" else "1")),
  ("prunefrom.model", fun ts => with2 rdTbl Rd.profile ts fun d p =>
    Wr.render (Wr.profile (pruneFrom p d))),
  ("prunefrom.spec", fun ts => with2 rdTbl Rd.profile ts fun d p =>
    wrViews (pruneFromSpec p (fun n => d (simplifyFunc n)))),
  ("ru.model", fun ts =>
    with2 (Rd.list (do let k ← Rd.str; let r ← rdOptTbl; pure (k, r))) Rd.profile ts fun tbl p =>
    match removeUninteresting (fun e => (tbl.lookup e).bind id) p with
    | .ok r => "ok " ++ Wr.render (Wr.profile r)
    | .err _ => "err"
    | .panic _ => "panic"),
  ("anchored", fun ts => match Rd.run Rd.str ts with
    | some s => (anchored s).toTok
    | none => "bad-op"),
  ("views", fun ts => match Rd.run Rd.profile ts with
    | some p => viewsOf p
    | none => "bad-op"),
  ("valid", fun ts => match Rd.run Rd.profile ts with
    | some p => if p.validB then "1" else "0"
    | none => "bad-op")
]
end Driver.C11
