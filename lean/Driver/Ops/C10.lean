import PprofVerif.Model.Session
/- Driver operations for C10: the session model (`Model/Session.lean`) behind the line protocol.

   sess.run  <stypes: list str> <dflt: str> <floats: list (str, opt str)> <lines: list str>
     → `ok` <n> then per line: <kind> <isAssignLine> <cmd: list str> <diff: list (str str)> <outfile: str>, then the
       final option record <list (str str)> and `alive`/`done`.
       kind ∈ assign-ok assign-err blank options quit help cmd-err cmd panic dead;
       diff = the options in which the per-command configuration (vcopy) differs from the options in
       effect, i.e. what the command's own arguments contributed.
   web.view  <floats> <endpoint> <cfg-assignments: list str> <params: list (str str)>
     → `bad` | `ok` <cmd: list str> <cfg: list (str str)>
   The report generator is not part of the model (it is the parameter the theorems quantify over); here it
   is instantiated with a function that just returns what it was asked for. -/
namespace Driver.C10
open PV PV.Session

abbrev Out := List Str × Config

def floatTab : Rd (List (Str × Option Str)) := Rd.list (do let k ← Rd.str; let v ← Rd.opt Rd.str; pure (k, v))

def mkEnv (tab : List (Str × Option Str)) : Env Unit Out :=
  { decode := fun _ => .ok (), report := fun p c cmd => ((cmd, c), p), floatNorm := fun s => (List.lookup s tab).join }

def wrCfg (c : Config) : Wr := Wr.list (fun kv => Wr.str kv.1 ++ Wr.str kv.2) c

def cfgDiff (base v : Config) : Config :=
  v.filter (fun kv => base.get kv.1 != some kv.2)

def describe (cur : Config) (evs : List (Ev Out)) (assignLine : Bool) (wasDone : Bool) (nowDone : Bool) : Wr :=
  let flag := Wr.bool assignLine
  let none := Wr.list Wr.str [] ++ wrCfg [] ++ Wr.str []
  if wasDone then ["dead"] ++ flag ++ none
  else match evs with
  | [.report (cmd, v)] =>
    -- last token: the file this report is written to (effective `output`), "" = stdout / temp file
    ["cmd"] ++ flag ++ Wr.list Wr.str cmd ++ wrCfg (cfgDiff cur v) ++ Wr.str ((v.get (lit "output")).getD [])
  | [.options _] => ["options"] ++ flag ++ none
  | [.help _] => ["help"] ++ flag ++ none
  | [.panic] => ["panic"] ++ flag ++ none
  | [] => (if assignLine then ["assign-ok"] else if nowDone then ["quit"] else ["blank"]) ++ flag ++ none
  | _ => (if assignLine then ["assign-err"] else ["cmd-err"]) ++ flag ++ none

def runLines (E : Env Unit Out) : Session → List Str → Wr × Session
  | s, [] => ([], s)
  | s, l :: r =>
    let (s', evs) := step E s l
    let d := describe s.cfg evs (isAssignLine s.stypes l) s.done s'.done
    let (w, sf) := runLines E s' r
    (d ++ w, sf)

def epOf (s : String) : Option Endpoint :=
  match s with
  | "dot" => some .dot | "top" => some .top | "disasm" => some .disasm | "source" => some .source
  | "peek" => some .peek | "flamegraph" => some .flamegraph | _ => none

def ops : List (String × (List String → String)) := [
  ("sess.run", fun ts =>
    match Rd.run (do
        let st ← Rd.list Rd.str; let d ← Rd.str; let tab ← floatTab; let ls ← Rd.list Rd.str
        pure (st, d, tab, ls)) ts with
    | none => "bad-op"
    | some (st, d, tab, ls) =>
      let E := mkEnv tab
      let (w, sf) := runLines E (init [] st d) ls
      Wr.render (["ok"] ++ Wr.nat ls.length ++ w ++ wrCfg sf.cfg ++ [if sf.done then "done" else "alive"])),
  ("web.view", fun ts =>
    match Rd.run (do
        let tab ← floatTab; let e ← Rd.tok; let ps ← Rd.list (do let k ← Rd.str; let v ← Rd.str; pure (k, v))
        pure (tab, e, ps)) ts with
    | none => "bad-op"
    | some (tab, e, ps) =>
      match epOf e with
      | none => "bad-op"
      | some ep =>
        -- the web UI starts from the defaults (no `configure("compact_labels")`, that is interactive only)
        match applyURL (fun s => (List.lookup s tab).join) ps defaultConfig with
        | .error _ => "bad"
        | .ok c => Wr.render (["ok"] ++ Wr.list Wr.str (webCmd ep ps) ++ wrCfg (editor ep c)))
]
end Driver.C10
