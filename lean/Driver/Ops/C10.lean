import PprofVerif.Base.Tok
/- Driver operations for C10. -/
namespace Driver.C10
open PV

def ops : List (String × (List String → String)) := []
end Driver.C10
