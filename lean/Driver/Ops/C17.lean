import PprofVerif.Base.Tok
/- Driver operations for C17. -/
namespace Driver.C17
open PV

def ops : List (String × (List String → String)) := []
end Driver.C17
