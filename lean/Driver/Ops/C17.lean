import PprofVerif.Base.Tok
import PprofVerif.Model.Stacks
import PprofVerif.Spec.Stacks
import PprofVerif.Spec.StacksAggregate
import PprofVerif.Model.StacksSelect
/- Driver operations for C17 (flame-graph stack set).
   `stacks.model <trim_path> <source_path> <idx> <profile>`  → `ok <stackset>` | `err` | `panic`, the raw (index based) dump of
        the model's StackSet; the harness canonicalises it with the same function it uses for the
        real StackSet.
   `stacks.frames <idx> <profile>` → `ok <n> {<value> <m> {name file fnID line column inlined}}` | `none`,
        the Spec's reading of "the sample's frames from caller to callee".
   `stacks.places <n> {<m> idx…} <i>` / `stacks.self …` are not needed: the oracle evaluates these
        statements directly on the indices. -/
namespace Driver.C17
open PV PV.Stacks

def wSlice {α} (f : α → Wr) (s : Slice α) : Wr := Wr.bool s.nonnil ++ Wr.list f s.elems

def wStack (s : Stack) : Wr := Wr.int s.value ++ wSlice Wr.nat s.sources
def wSource (s : Source) : Wr :=
  Wr.str s.fullName ++ Wr.str s.fileName ++ Wr.str s.uniqueName ++ Wr.bool s.inlined ++
  Wr.int s.self ++ wSlice (fun (p : Nat × Nat) => Wr.nat p.1 ++ Wr.nat p.2) s.places
def wStackSet (s : StackSet) : Wr :=
  Wr.int s.total ++ wSlice wStack s.stacks ++ wSlice wSource s.sources

def wFrame (f : Frame) : Wr :=
  Wr.str f.name ++ Wr.str f.file ++ Wr.nat f.fnID ++ Wr.int f.line ++ Wr.int f.column ++ Wr.bool f.inlined

/-- the part of a profile `Stacks()` reads (harness: `c17StackView`). -/
def wStackView (p : Profile) : Wr :=
  Wr.list (fun (f : Function) => Wr.nat f.id ++ Wr.str f.name ++ Wr.str f.filename) p.functions ++
  Wr.list (fun (l : Location) => Wr.nat l.id ++
    Wr.list (fun (ln : Line) => Wr.nat ln.functionID ++ Wr.int ln.line ++ Wr.int ln.column) l.lines) p.locations ++
  Wr.list (fun (s : Sample) => Wr.list Wr.nat s.locationIDs ++ Wr.list Wr.int s.values) p.samples

def rdFlagsProfile : Rd (Spec.AggFlags × Profile) := do
  let a ← Rd.bool; let b ← Rd.bool; let c ← Rd.bool; let d ← Rd.bool; let e ← Rd.bool; let g ← Rd.bool
  let p ← Rd.profile
  pure ({ none := a, inlines := b, function := c, filename := d, linenumber := e, columns := g }, p)

def rdSelProfile : Rd (Str × Profile) := do
  let s ← Rd.str
  let p ← Rd.profile
  pure (s, p)

def rdOpts : Rd Opts := do
  let t ← Rd.str
  let sp ← Rd.str
  pure ⟨t, sp⟩

def rdOptsIdxProfile : Rd (Opts × Nat × Profile) := do
  let o ← rdOpts
  let i ← Rd.nat
  let p ← Rd.profile
  pure (o, i, p)

def rdOptsSelProfile : Rd (Opts × Str × Profile) := do
  let o ← rdOpts
  let s ← Rd.str
  let p ← Rd.profile
  pure (o, s, p)

def rdOptsPath : Rd (Opts × Str) := do
  let o ← rdOpts
  let s ← Rd.str
  pure (o, s)

def rdIdxProfile : Rd (Nat × Profile) := do
  let i ← Rd.nat
  let p ← Rd.profile
  pure (i, p)

def ops : List (String × (List String → String)) := [
  ("stacks.trimpath", fun ts =>
    match Rd.run rdOptsPath ts with
    | none => "bad-op"
    | some (o, path) => "ok " ++ Str.toTok (trimPath o path)),
  ("stacks.model", fun ts =>
    match Rd.run rdOptsIdxProfile ts with
    | none => "bad-op"
    | some (o, i, p) =>
      match stacks o p i with
      | .ok s => "ok " ++ Wr.render (wStackSet s)
      | .err _ => "err"
      | .panic _ => "panic"),
  ("stacks.frames", fun ts =>
    match Rd.run rdIdxProfile ts with
    | none => "bad-op"
    | some (i, p) =>
      match Spec.resolve p i with
      | some rs => "ok " ++ Wr.render (Wr.list (fun (x : Int × List Frame) => Wr.int x.1 ++ Wr.list wFrame x.2) rs)
      | none => "none"),
  ("stacks.select", fun ts =>
    match Rd.run rdSelProfile ts with
    | none => "bad-op"
    | some (sel, p) =>
      match selectIndex p sel with
      | .ok i => "ok " ++ toString i
      | .err _ => "err"
      | .panic _ => "panic"),
  ("stacks.modelsel", fun ts =>
    match Rd.run rdOptsSelProfile ts with
    | none => "bad-op"
    | some (o, sel, p) =>
      match stacksBySel o p sel with
      | .ok s => "ok " ++ Wr.render (wStackSet s)
      | .err _ => "err"
      | .panic _ => "panic"),
  ("stacks.aggregate", fun ts =>
    match Rd.run rdFlagsProfile ts with
    | none => "bad-op"
    | some (f, p) => "ok " ++ Wr.render (wStackView (Spec.aggregate f p))),
  ("valid", fun ts =>
    match Rd.run Rd.profile ts with
    | none => "bad-op"
    | some p => if p.validB then "1" else "0")
]
end Driver.C17
