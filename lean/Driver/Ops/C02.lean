import PprofVerif.Base.Tok
/- Driver operations for C02. -/
namespace Driver.C02
open PV

def ops : List (String × (List String → String)) := []
end Driver.C02
