import PprofVerif.Model.Parse
/- Driver operations for C02: the format dispatch and the binary legacy CPU parser model. -/
namespace Driver.C02
open PV PV.LegacyCPU

def wrSlice : Slice → Wr
  | none => ["nil"]
  | some b => Wr.str b

def wrSample (s : CPUSample) : Wr := Wr.list Wr.int s.values ++ Wr.list Wr.nat s.addrs

def wrCPU (r : CPUResult) : Wr :=
  [match r.flavour with | .cpp => "cpp" | .java => "java"] ++ [r.word.name] ++ Wr.int r.period ++
  Wr.list wrSample r.samples ++ wrSlice r.rest

def ops : List (String × (List String → String)) := [
  -- legacy.cpu x<hex>  →  unrecognized | ok <flavour> <word> <period> <samples…> <rest> | panic <site>
  ("legacy.cpu", fun ts =>
    match Rd.run Rd.str ts with
    | none => "bad-op"
    | some b => match parseCPU b with
      | .ok none => "unrecognized"
      | .ok (some r) => "ok " ++ Wr.render (wrCPU r)
      | .err _ => "err"
      | .panic s => "panic " ++ s),
  -- c02.dispatch x<hex>  →  proto <profile> | rejected | cpu <…> | text | panic <site>
  ("c02.dispatch", fun ts =>
    match Rd.run Rd.str ts with
    | none => "bad-op"
    | some b => match Parse.dispatch b with
      | .ok (.proto p) => "proto " ++ Wr.render (Wr.profile p)
      | .ok .rejected => "rejected"
      | .ok (.legacyCPU r) => "cpu " ++ Wr.render (wrCPU r)
      | .ok .legacyText => "text"
      | .err _ => "err"
      | .panic s => "panic " ++ s)
]
end Driver.C02
