import PprofVerif.Base.Tok
/- Driver operations for C13. -/
namespace Driver.C13
open PV

def ops : List (String × (List String → String)) := []
end Driver.C13
