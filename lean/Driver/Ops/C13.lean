import PprofVerif.Base.Tok
import PprofVerif.Model.Elf
import PprofVerif.Spec.ElfLoader
/- Driver operations for C13 (ELF address translation, nm lookup). -/
namespace Driver.C13
open PV PV.Elf

def rdHdr : Rd ProgHeader := do
  let t ← Rd.nat; let fl ← Rd.nat; let o ← Rd.nat; let v ← Rd.nat; let fs ← Rd.nat; let ms ← Rd.nat
  pure ⟨t, fl, o, v, fs, ms⟩

def rdSym : Rd Sym := do
  let a ← Rd.nat; let s ← Rd.nat; let d ← Rd.bool
  pure ⟨a, s, d⟩

def outNat : Outcome Nat → String
  | .ok n => "ok " ++ toString n
  | .err _ => "err"
  | .panic _ => "panic"

/-- positions (in `l`) of the elements kept by `p`, as "k i1 … ik". -/
def keptIdx {α} (p : α → Bool) (l : List α) : String :=
  let rec go : List α → Nat → List Nat
    | [], _ => []
    | a :: as, i => if p a then i :: go as (i + 1) else go as (i + 1)
  let ix := go l 0
  " ".intercalate (toString ix.length :: ix.map toString)

def idxOf (l : List ProgHeader) (h : ProgHeader) : String :=
  match l.findIdx? (· == h) with
  | some i => toString i
  | none => "?"

def ops : List (String × (List String → String)) := [
  ("elf.getbase", fun ts =>
    match Rd.run (do
        let ty ← Rd.nat; let seg ← Rd.opt rdHdr; let st ← Rd.opt Rd.nat
        let s ← Rd.nat; let l ← Rd.nat; let o ← Rd.nat
        pure (getBase ty seg st s l o)) ts with
    | none => "bad-op"
    | some r => outNat r),
  ("elf.phfm", fun ts =>
    match Rd.run (do
        let hs ← Rd.list rdHdr; let mo ← Rd.nat; let ms ← Rd.nat
        pure (keptIdx (phfmKeep mo ms) hs)) ts with
    | none => "bad-op"
    | some r => r),
  ("elf.hffo", fun ts =>
    match Rd.run (do
        let hs ← Rd.list rdHdr; let fo ← Rd.nat
        pure (match headerForFileOffset hs fo with
          | .ok h => "ok " ++ idxOf hs h
          | .err _ => "err"
          | .panic _ => "panic")) ts with
    | none => "bad-op"
    | some r => r),
  ("elf.findtext", fun ts =>
    match Rd.run (do
        let as ← Rd.list Rd.nat; let hs ← Rd.list rdHdr
        pure (match findTextProgHeader as hs with
          | some h => "1 " ++ idxOf hs h
          | none => "0")) ts with
    | none => "bad-op"
    | some r => r),
  -- elf.objaddr etype progs textAddrs kernelOffset? start limit offset addr
  ("elf.objaddr", fun ts =>
    match Rd.run (do
        let ty ← Rd.nat; let hs ← Rd.list rdHdr; let as ← Rd.list Rd.nat; let ko ← Rd.opt Rd.nat
        let s ← Rd.nat; let l ← Rd.nat; let o ← Rd.nat; let x ← Rd.nat
        pure (objAddr ⟨s, l, o, ko⟩ ⟨ty, hs, as⟩ x)) ts with
    | none => "bad-op"
    | some r => outNat r),
  -- elf.layout page hdr B v0 v1 start limit offset  →  1 iff Spec.LoaderLayout holds
  ("elf.layout", fun ts =>
    match Rd.run (do
        let pg ← Rd.nat; let h ← rdHdr; let b ← Rd.nat; let v0 ← Rd.nat; let v1 ← Rd.nat
        let s ← Rd.nat; let l ← Rd.nat; let o ← Rd.nat
        pure (layoutB pg h b v0 v1 ⟨s, l, o, none⟩)) ts with
    | none => "bad-op"
    | some r => if r then "1" else "0"),
  -- nm.addrinfo base n (addr size isData)* x
  ("nm.addrinfo", fun ts =>
    match Rd.run (do
        let b ← Rd.nat; let ss ← Rd.list rdSym; let x ← Rd.nat
        pure (addrInfo (relocate b ss) x)) ts with
    | none => "bad-op"
    | some (.ok none) => "ok 0"
    | some (.ok (some i)) => "ok 1 " ++ toString i
    | some (.err _) => "err"
    | some (.panic _) => "panic")
]
end Driver.C13
