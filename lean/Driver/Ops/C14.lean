import PprofVerif.Base.Tok
/- Driver operations for C14. -/
namespace Driver.C14
open PV

def ops : List (String × (List String → String)) := []
end Driver.C14
