import PprofVerif.Model.LegacyPb
/- Driver operations for C14 (legacy formats): print a document, its documented meaning, and
   the Lean parser on bytes.  The float parameters of the model are instantiated here with
   Lean's IEEE doubles (`Float.exp` = C `exp`). -/
namespace Driver.C14
open PV PV.Legacy

def scaleF : ScaleFn := fun count size rate =>
  let avg := Float.ofInt size / Float.ofInt count
  let scale := 1.0 / (1.0 - Float.exp (-avg / Float.ofNat rate))
  ((Float.ofInt count * scale).toInt64.toInt, (Float.ofInt size * scale).toInt64.toInt)

def cycF : CycFn := fun cycles period hz =>
  (Float.ofNat cycles * Float.ofNat period / (Float.ofNat hz / 1e9)).toInt64.toInt

namespace R
open PV.Rd

def filler : Rd Filler := do pure { indent := ← nat, comment := ← opt str }
def perm : Rd Perm := do
  match ← nat with
  | 0 => pure .rxp | 1 => pure .rp | 2 => pure .rwp | 3 => pure .rwxp | 4 => pure .nonep | 5 => pure .xp
  | _ => failure
def mapForm : Rd MapForm := do
  match ← nat with
  | 0 => pure (.proc (← perm) (← nat) (← nat) (← nat) (← nat) (← opt str))
  | 1 => pure (.brief (← bool) (← opt perm) (← opt str) (← opt nat) (← opt str))
  | _ => failure
def mapEntry : Rd MapEntry := do
  pure { indent := ← nat, ox := ← bool, width := ← nat, start := ← nat, limit := ← nat, gap := ← nat, form := ← mapForm }
def logPrefix : Rd LogPrefix := do pure { text := ← str, line := ← nat }
def mapLine : Rd MapLine := do
  match ← nat with
  | 0 => pure (.entry (← opt logPrefix) (← mapEntry))
  | 1 => pure (.entryRef (← opt logPrefix) (← mapEntry) (← str) (← str))
  | 2 => pure (.attr (← opt logPrefix) (← nat) (← str) (← bool) (← str))
  | _ => failure
def mapSection : Rd MapSection := do
  pure { entries := ← list (do let f ← list filler; let e ← mapLine; pure (f, e)), post := ← list filler }

def countDoc : Rd CountDoc := do
  pure { pre := ← list filler, name := ← str, total := ← nat, width := ← nat,
         recs := ← list (do pure { fill := ← list filler, n := ← nat, addrs := ← list nat }),
         post := ← list filler, map := ← opt mapSection }

def heapKind : Rd HeapKind := do
  match ← nat with
  | 0 => pure .heapzV2 | 1 => pure .heapV2 | 2 => pure .heapprofile | 3 => pure .heap
  | 4 => pure .growth | 5 => pure .growthz | 6 => pure .fragmentation | 7 => pure .fragmentationz
  | _ => failure
def heapDoc : Rd HeapDoc := do
  pure { kind := ← heapKind, totInuseN := ← nat, totInuseB := ← nat, totAllocN := ← nat, totAllocB := ← nat,
         rate := ← opt nat, pad := ← nat, width := ← nat,
         recs := ← list (do pure { fill := ← list filler, indent := ← nat, inuseN := ← int, inuseB := ← int,
                                   allocN := ← nat, allocB := ← nat, addrs := ← list nat }),
         post := ← list filler, libs := ← bool, map := ← opt mapSection }

def contDoc : Rd ContDoc := do
  let head ← (do match ← nat with
    | 0 => pure (ContHead.contentionz (← nat)) | 1 => pure .mutex | 2 => pure .contention | _ => failure)
  let key : Rd ContKey := do
    match ← nat with
    | 0 => pure .cyclesPerSecond | 1 => pure .samplingPeriod | 2 => pure .msSinceReset | 3 => pure .discarded
    | _ => failure
  pure { head := head,
         attrs := ← list (do pure { fill := ← list filler, indent := ← nat, key := ← key, value := ← int, spaced := ← bool }),
         width := ← nat,
         recs := ← list (do pure { fill := ← list filler, indent := ← nat, cycles := ← nat, count := ← nat,
                                   gap := ← nat, addrs := ← list nat }),
         post := ← list filler, map := ← opt mapSection }

def threadLine : Rd ThreadLine := do
  let blanks ← nat
  let indent ← nat
  let label ← (do match ← nat with
    | 0 => pure ThreadLabel.none | 1 => pure .pc | 2 => pure .pc2 | 3 => pure .creator | _ => failure)
  pure { blanks := blanks, indent := indent, label := label, addrs := ← list nat, sym := ← opt str }
def threadDoc : Rd ThreadDoc := do
  let pre ← list filler
  let head ← opt (do let n ← nat; let fs ← list filler; pure (n, fs))
  let width ← nat
  let recs ← list (do
    let id ← nat; let name ← str; let tid ← nat
    let body ← (do match ← nat with
      | 0 => pure (ThreadBody.same (← nat) (← nat))
      | 1 => pure (ThreadBody.stack (← list threadLine))
      | _ => failure)
    pure ({ id := id, name := name, tid := tid, body := body } : ThreadRec))
  let ending ← (do match ← nat with
    | 0 => pure (ThreadEnd.map (← mapSection))
    | 1 => pure (ThreadEnd.noStack (← nat) (← opt mapSection))
    | _ => failure)
  pure { pre := pre, head := head, width := width, recs := recs, ending := ending }

def cpuDoc : Rd CpuDoc := do
  pure { big := ← bool, w64 := ← bool, period := ← nat,
         recs := ← list (do pure { count := ← nat, addrs := ← list nat }),
         eod := ← bool, map := ← opt mapSection }

def javaLocKind : Rd JavaLocKind := do
  match ← nat with
  | 0 => pure (.fileLine (← str) (← str) (← int))
  | 1 => pure (.path (← str) (← str))
  | 2 => pure (.stub (← str) (← str))
  | 3 => pure (.plain (← str))
  | _ => failure
def javaLoc : Rd JavaLoc := do
  pure { fill := ← list filler, indent := ← nat, width := ← nat, addr := ← nat, gap := ← nat, kind := ← javaLocKind }

def javaCpuDoc : Rd JavaCpuDoc := do
  pure { big := ← bool, w64 := ← bool, period := ← nat,
         recs := ← list (do pure { count := ← nat, addrs := ← list nat }),
         eod := ← bool, blanksAfter := ← nat, locs := ← list javaLoc }

def javaDoc : Rd JavaDoc := do
  let kind := javaLocKind
  pure { heap := ← bool, format := ← bool, resolution := ← str, samplingPeriod := ← opt nat,
         msSinceReset := ← opt nat, spaced := ← bool, width := ← nat,
         recs := ← list (do pure { blanks := ← nat, indent := ← nat, first := ← nat, second := ← nat,
                                   gap := ← nat, addrs := ← list nat }),
         blanksAfter := ← nat,
         locs := ← list (do pure { fill := ← list filler, indent := ← nat, width := ← nat, addr := ← nat,
                                   gap := ← nat, kind := ← kind }) }
end R

/-- a document of any format -/
inductive Doc where
  | count (d : CountDoc) | heap (d : HeapDoc) | cont (d : ContDoc) | thread (d : ThreadDoc)
  | cpu (d : CpuDoc) | java (d : JavaDoc) | javacpu (d : JavaCpuDoc)

def readDoc (ts : List String) : Option Doc :=
  match ts with
  | "count" :: r => (Rd.run R.countDoc r).map .count
  | "heap" :: r => (Rd.run R.heapDoc r).map .heap
  | "contention" :: r => (Rd.run R.contDoc r).map .cont
  | "thread" :: r => (Rd.run R.threadDoc r).map .thread
  | "cpu" :: r => (Rd.run R.cpuDoc r).map .cpu
  | "java" :: r => (Rd.run R.javaDoc r).map .java
  | "javacpu" :: r => (Rd.run R.javaCpuDoc r).map .javacpu
  | _ => none

def Doc.print : Doc → Str
  | .count d => printCount d | .heap d => printHeap d | .cont d => printContention d
  | .thread d => printThread d | .cpu d => printCpu d | .java d => printJava d | .javacpu d => printJavaCpu d

def Doc.wf : Doc → Bool
  | .count d => d.wf | .heap d => d.wf | .cont d => d.wf | .thread d => d.wf | .cpu d => d.wf | .java d => d.wf
  | .javacpu d => d.wf

/-- the extra hypothesis of the ParseData-level theorem (threadz only) -/
def Doc.chainOK : Doc → Bool
  | .thread d => d.chainOK
  | _ => true

def Doc.expected : Doc → Profile
  | .count d => expectedCount d | .heap d => expectedHeap scaleF d | .cont d => expectedContention cycF d
  | .thread d => expectedThread d | .cpu d => expectedCpu d | .java d => expectedJava scaleF d
  | .javacpu d => expectedJavaCpu d

/-- the format's own parser (what `parseX_printX` is about) -/
def Doc.parseOwn (d : Doc) (b : Str) : Outcome Profile :=
  match d with
  | .count _ => parseGoCount b | .heap _ => parseHeap scaleF b | .cont _ => parseContention cycF b
  | .thread _ => parseThread b | .cpu _ => parseCPU b | .java _ => parseJavaProfile scaleF b
  | .javacpu _ => parseCPU b

/-- the binary part of a document (empty for the text formats) and its text lines -/
def Doc.parts : Doc → Str × List Str
  | .count d => ([], d.lines) | .heap d => ([], d.lines) | .cont d => ([], d.lines) | .thread d => ([], d.lines)
  | .java d => ([], d.lines)
  | .cpu d =>
    (words d.big d.w64 ([0, 3, 0, d.period, 0] ++ d.recs.flatMap CpuRec.words ++ (if d.eod then [0, 1, 0] else [])),
     if d.eod then (match d.map with | none => [] | some m => m.bodyLines) else [])
  | .javacpu d =>
    (words d.big d.w64 ([0, 3, 1, d.period, 0] ++ d.recs.flatMap CpuRec.words ++ (if d.eod then [0, 1, 0] else [])),
     if d.eod then d.trailerLines else [])

/-- may text follow the binary part at all? (a binary profile without end marker ends with its last word) -/
def Doc.textAllowed : Doc → Bool
  | .cpu d => d.eod | .javacpu d => d.eod | _ => true

/-- A termination variant: CRLF mask over the lines (bit i = line i), last line unterminated,
bytes appended after the final terminator (only when there is one). -/
structure Variant where
  mask : Nat
  noFinal : Bool
  extra : Str

def Doc.printV (d : Doc) (v : Variant) : Str :=
  let (bin, ls) := d.parts
  if !d.textAllowed then bin else
  let cs := (List.range ls.length).map (fun i => v.mask.testBit (i % 64))
  bin ++ renderLines cs v.noFinal ls ++ (if v.noFinal && !ls.isEmpty then [] else v.extra)

/-- Is the documented meaning of the document unchanged by the variant?  CRLF, a missing final
terminator and trailing blank material are tolerated by every parser, except: bytes other than
blanks/newlines after the end (a NUL) and — Java text profiles — an unterminated last line that
is an attribute or sample line (`parseJavaHeader`/`parseJavaSamples` only read terminated lines). -/
def Doc.preserving (d : Doc) (v : Variant) : Bool :=
  v.extra.all (fun b => b.toNat == 32 || b.toNat == 9 || b.toNat == 10 || b.toNat == 13) &&
  (match d with
   | .java jd => !v.noFinal || !jd.locs.isEmpty || jd.blanksAfter != 0
   | _ => true)

def outProfile : Outcome Profile → String
  | .ok p => "ok " ++ Wr.render (Wr.profile p)
  | .err e => "err " ++ (e.replace " " "-")
  | .panic s => "panic " ++ (s.replace " " "-")

def ops : List (String × (List String → String)) := [
  ("legacy.print", fun ts =>
    match readDoc ts with
    | none => "bad-op"
    | some d => Str.toTok d.print),
  -- print with a termination variant: mask noFinal extra, then the document; reply `<0|1> x<hex>`
  -- (1 = the variant does not change the documented meaning)
  ("legacy.printv", fun ts =>
    match ts with
    | m :: nf :: ex :: rest =>
      (match m.toNat?, Str.ofTok? ex, readDoc rest with
       | some mask, some extra, some d =>
         let v : Variant := { mask := mask, noFinal := nf == "1", extra := extra }
         (if d.preserving v then "1 " else "0 ") ++ Str.toTok (d.printV v)
       | _, _, _ => "bad-op")
    | _ => "bad-op"),
  ("legacy.wf", fun ts =>
    match readDoc ts with
    | none => "bad-op"
    | some d => if d.wf then "1" else "0"),
  ("legacy.chainok", fun ts =>
    match readDoc ts with
    | none => "bad-op"
    | some d => if d.chainOK then "1" else "0"),
  ("legacy.expected", fun ts =>
    match readDoc ts with
    | none => "bad-op"
    | some d => if d.wf then "ok " ++ Wr.render (Wr.profile d.expected) else "not-wf"),
  -- the whole dispatch chain of parseLegacy on arbitrary bytes
  ("legacy.parse", fun ts =>
    match Rd.run Rd.str ts with
    | none => "bad-op"
    | some b => outProfile (parseLegacy scaleF cycF b)),
  -- the whole of ParseData: the protobuf decoder model first, then the chain
  ("legacy.parsedata", fun ts =>
    match Rd.run Rd.str ts with
    | none => "bad-op"
    | some b => outProfile (parseDataReal scaleF cycF b)),
  -- ParseProcMaps on a text (glog prefixes, attribute lines, `$attr` references)
  ("legacy.procmaps", fun ts =>
    match Rd.run Rd.str ts with
    | none => "bad-op"
    | some b => Wr.render (Wr.list Wr.mapping (parseProcMaps (splitLines b)))),
  -- the format's own parser on the printed document
  ("legacy.parseprinted", fun ts =>
    match readDoc ts with
    | none => "bad-op"
    | some d => outProfile (d.parseOwn d.print))
]
end Driver.C14
