import PprofVerif.Base.Tok
/- Driver operations for C09. -/
namespace Driver.C09
open PV

def ops : List (String × (List String → String)) := []
end Driver.C09
