import PprofVerif.Base.Tok
import PprofVerif.Model.Crash
/- Driver operations for C09 (crash-freedom of the driver's decision logic). -/
namespace Driver.C09
open PV PV.Crash

def valTok : Val → String
  | .b true => "b1"
  | .b false => "b0"
  | .i n => "i" ++ toString n
  | .f s => "f" ++ s.toTok
  | .s s => "s" ++ s.toTok

def filterNames : List Str :=
  [S "focus", S "ignore", S "hide", S "show", S "show_from", S "tagfocus", S "tagignore", S "tagshow", S "taghide"]

/-- `k=v` for every non-empty filter option, in the order of `reportOptions`. -/
def activeFilters (c : Cfg) : List Str :=
  filterNames.filterMap fun k => match c k with
    | .s v => if v.isEmpty then none else some (k ++ [61] ++ v)
    | _ => none

def evTok : Ev → Wr
  | .printErr => ["E"]
  | .set n v => ["S", n.toTok, v.toTok]
  | .options => ["O"]
  | .help => ["H"]
  | .quit => ["Q"]
  | .report cmd cfg _ =>
    ["R"] ++ Wr.list Wr.str cmd ++ [valTok (cfg (S "output")), valTok (cfg (S "nodecount")), valTok (cfg (S "sort"))]
      ++ Wr.list Wr.str (activeFilters cfg)

def envAscii : Env :=
  { fields := fieldsAscii, trimSpace := trimSpaceAscii,
    -- ParseFloat is external: the harness only sends float values from a pool whose verdict it passes
    -- along as the marker byte '!' (0x21) prefix = "ParseFloat fails"; see `session` below.
    parseFloatOk := fun _ => true,
    gen := fun _ _ => .ok () }

/-- run a script line by line, collecting one token group per line. -/
def runLines (e : Env) : Sess → List Str → List (List Ev) → Outcome (Sess × List (List Ev))
  | s, [], acc => .ok (s, acc.reverse)
  | s, l :: ls, acc =>
    match step e s l with
    | .ok (s1, ev) => if ev.any isQuit then .ok (s1, (ev :: acc).reverse) else runLines e s1 ls (ev :: acc)
    | .err m => .err m
    | .panic site => .panic site

def rdSession : Rd (List Str × Str × Str × Str × List Str × List Str) := do
  let types ← Rd.list Rd.str
  let dflt ← Rd.str
  let sort0 ← Rd.str
  let gran0 ← Rd.str
  let badFloats ← Rd.list Rd.str
  let lines ← Rd.list Rd.str
  pure (types, dflt, sort0, gran0, badFloats, lines)

def ops : List (String × (List String → String)) := [
  -- tagfilter <value>  →  absent | range <kind> | regexp <key> <value> | err | panic <site>
  ("tagfilter", fun ts =>
    match Rd.run Rd.str ts with
    | none => "bad-op"
    | some v => match compileTagFilter scaleUnitTable v with
      | .ok .absent => "absent"
      | .ok (.range k) => "range " ++ k.name
      | .ok (.regexp k v) => "regexp " ++ k.toTok ++ " " ++ v.toTok
      | .err _ => "err"
      | .panic s => "panic " ++ s),
  -- the same for the model of the PINNED code (panics on ParseInt overflow)
  ("tagfilter.pinned", fun ts =>
    match Rd.run Rd.str ts with
    | none => "bad-op"
    | some v => match compileTagFilterPinned scaleUnitTable v with
      | .ok .absent => "absent"
      | .ok (.range k) => "range " ++ k.name
      | .ok (.regexp k v) => "regexp " ++ k.toTok ++ " " ++ v.toTok
      | .err _ => "err"
      | .panic s => "panic " ++ s),
  -- locate <guarded> <npaths> <file> <buildid>  →  ok <number of candidate names tried> | panic <site>
  ("locate", fun ts =>
    match Rd.run (do let g ← Rd.bool; let n ← Rd.nat; let f ← Rd.str; let b ← Rd.str; pure (g, n, f, b)) ts with
    | none => "bad-op"
    | some (g, n, f, b) =>
      let e : PathEnv := { join := fun _ => [], base := id, dir := id, noVolume := id, glob := fun _ => [],
                           opens := fun _ _ => false }
      let rec count : Nat → Nat → Outcome Nat
        | 0, acc => .ok acc
        | k+1, acc => match candidateNames g e [] ⟨f, b⟩ with
          | .ok names => count k (acc + names.length)
          | .err m => .err m
          | .panic s => .panic s
      match count n 0 with
      | .ok c => "ok " ++ toString c
      | .err _ => "err"
      | .panic s => "panic " ++ s),
  -- cmdline <tokens>  →  err | panic <site> | ok <R-event tokens>
  ("cmdline", fun ts =>
    match Rd.run (Rd.list Rd.str) ts with
    | none => "bad-op"
    | some toks => match parseCommandLine toks defaultCfg with
      | .ok (cmd, cfg) => "ok " ++ Wr.render (evTok (.report cmd cfg true))
      | .err _ => "err"
      | .panic s => "panic " ++ s),
  -- session <sampleTypes> <defaultSampleType> <initial sort> <initial granularity> <values ParseFloat rejects> <lines>
  --   (sort/granularity cannot be reset through flags in a long-lived process, so the harness passes
  --    the values the real session started with)
  --   →  panic <site> | ok <nlines> (<nev> <ev>…)… <final option values in table order>
  ("session", fun ts =>
    match Rd.run rdSession ts with
    | none => "bad-op"
    | some (types, dflt, sort0, gran0, badFloats, lines) =>
      let e := { envAscii with parseFloatOk := fun v => !badFloats.contains v }
      -- interactive() starts with configure("compact_labels", "true")
      let s0 : Sess := { cfg := ((defaultCfg.put (S "compact_labels") (.b true)).put (S "sort") (.s sort0)).put
                           (S "granularity") (.s gran0), prof := ⟨types, dflt⟩ }
      match runLines e s0 lines [] with
      | .ok (s, evs) =>
        "ok " ++ Wr.render (Wr.list (fun ev => Wr.list evTok ev) evs ++ Crash.fields.map (fun f => valTok (s.cfg f.name)))
      | .err _ => "err"
      | .panic site => "panic " ++ site),
  -- symmode <mode>  →  skip | run <local> <unknown options> <demangler options> | panic <site>
  ("symmode", fun ts =>
    match Rd.run Rd.str ts with
    | none => "bad-op"
    | some m => match symbolizeMode lowerAscii m with
      | .ok none => "skip"
      | .ok (some (st, n)) => "run " ++ (if st.loc then "1" else "0") ++ " " ++ toString st.unknown ++ " " ++ toString n
      | .err _ => "err"
      | .panic s => "panic " ++ s),
  -- fields: the option table  →  <name> <kind>…
  ("fields", fun _ =>
    Wr.render (Wr.list (fun f : Field => [f.name.toTok, match f.kind with
      | .bool => "bool" | .int => "int" | .float => "float" | .string => "string"
      | .choice _ => "choice" | .other => "other"]) Crash.fields)),
  ("commands", fun _ =>
    Wr.render (Wr.list (fun c : Str × Bool => [c.1.toTok, if c.2 then "1" else "0"]) Crash.commands))
]
end Driver.C09
