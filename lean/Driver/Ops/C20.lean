import PprofVerif.Base.Tok
/- Driver operations for C20. -/
namespace Driver.C20
open PV

def ops : List (String × (List String → String)) := []
end Driver.C20
