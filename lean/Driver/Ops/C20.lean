import PprofVerif.Base.Tok
import PprofVerif.Model.Conc
import PprofVerif.Gen.LockFacts
/- Driver operations for C20.

* `fs.seq <limit> <k> <n> <idx₁ … idxₙ>` — the exclusive-create model: `k` calls of newTempFile one
  after the other on a directory in which the listed indices exist; reply `ok i₁ … i_k`
  (`-` = gave up).  The harness compares this with the names the real newTempFile returns.
* `facts.bad` — the access sites of the REGENERATED lock facts that are not dominated by their
  guard (empty on a healthy tree); `facts.summary` — sizes of the tables.  Used by the harness to
  say *which* site broke an obligation and to aim the race search at it.
-/
namespace Driver.C20
open PV PV.Conc PV.ConcFacts

def showSite (s : Site) : String :=
  s.var ++ "@" ++ s.file ++ ":" ++ toString s.line ++ "(" ++ s.fn ++ "," ++
    (if s.write then "write" else "read") ++ "," ++ reprStr s.barrier ++ ")"

def badSites : List Site :=
  Gen.LockFacts.sites.filter fun s => match lookup Gen.LockFacts.guards s.varId with
    | some g => !siteOk g s
    | none => true

def ops : List (String × (List String → String)) := [
  ("fs.seq", fun ts =>
    match Rd.run (do let limit ← Rd.nat; let k ← Rd.nat; let ex ← Rd.list Rd.nat; pure (limit, k, ex)) ts with
    | none => "bad-op"
    | some (limit, k, ex) =>
      let d : FS.Dir := fun n => if ex.contains n then some 0 else none
      "ok " ++ " ".intercalate ((FS.runSeq limit d k).map fun r => match r with
        | some n => toString n
        | none => "-")),
  ("facts.bad", fun _ =>
    let bad := badSites.map showSite ++
      (Gen.LockFacts.immutableWrites.filter (fun s => !s.barrier.threadLocal)).map showSite ++
      (if lockOrderOk Gen.LockFacts.lockRank Gen.LockFacts.nestedEdges then []
       else Gen.LockFacts.nested.map fun n => "lock-order-cycle:" ++ n.1 ++ ":" ++ n.2.1 ++ ">" ++ n.2.2.1) ++
      ((Gen.LockFacts.goSites.filter (fun g => !goOk g)).map fun g => "go:" ++ g.fn ++ "@" ++ g.file ++ ":" ++ toString g.line) ++
      ((Gen.LockFacts.looseSync.filter (fun l => l.2.2.1 == "leak")).map fun l => "lock-leak:" ++ l.1 ++ ":" ++ l.2.1 ++ "@" ++ l.2.2.2.2) ++
      ((Gen.LockFacts.splitRMW.filter (fun x => !startupFns.contains x.1)).map fun x => "split-rmw:" ++ x.1 ++ ":" ++ x.2.1 ++ "@" ++ x.2.2.1) ++
      ((Gen.LockFacts.renames.filter (fun x => x.2.2.2 == "")).map fun x => "rename-target-not-reserved:" ++ x.1 ++ "@" ++ x.2.1) ++
      ((Gen.LockFacts.globalWrites.filter (fun x => x.2.2.2 == .none && !startupFns.contains x.2.1)).map fun x => "global-written-without-barrier:" ++ x.1 ++ ":" ++ x.2.1 ++ "@" ++ x.2.2.1) ++
      (if tempExcl Gen.LockFacts.tempFile then [] else ["tempfile:flags=" ++ toString Gen.LockFacts.tempFile.flags])
    toString bad.length ++ (if bad.isEmpty then "" else " " ++ " ".intercalate (bad.map fun s => s.replace " " "_"))),
  ("facts.summary", fun _ =>
    "guards " ++ toString Gen.LockFacts.guards.length ++ " sites " ++ toString Gen.LockFacts.sites.length ++
    " regions " ++ toString Gen.LockFacts.regions.length ++ " go " ++ toString Gen.LockFacts.goSites.length ++
    " flags " ++ toString Gen.LockFacts.tempFile.flags)
]
end Driver.C20
