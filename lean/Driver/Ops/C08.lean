import PprofVerif.Base.Tok
import PprofVerif.Model.GraphOrder
import PprofVerif.Gen.Comparators
import PprofVerif.Model.SymIds
/- Driver operations for C08: the model's sort under the REGENERATED comparators.

   sort.tags  <flat 0|1> <n> (name unit value flat flatDiv cum cumDiv)*
   sort.nodes <OrderName> <n> (node)*        node = name orig addr file startLine lineno columnno objfile flat flatDiv cum cumDiv ext
   sort.edges <n> (node node weight weightDiv)*
   node.render (node)                        → x<PrintableName> x<fmt.Sprint(Info)>
   proper                                    → which regenerated comparators are proper
   sym.ids <start> <n> (key)*                → `ok <n> id…  <m> key…` ids per frame in processing order, then
                                               the functions appended to prof.Function in order

   sort.* reply: `ok <n> <index of the input element at position 0> … ties <t>` where t counts adjacent
   result pairs that the comparator cannot separate (0 ⇒ the order is the unique sorted order). -/
namespace Driver.C08
open PV PV.Order PV.GraphOrder PV.Gen.Comparators

def rdInfo : Rd NodeInfo := do
  let name ← Rd.str; let orig ← Rd.str; let addr ← Rd.nat; let file ← Rd.str
  let sl ← Rd.int; let ln ← Rd.int; let cn ← Rd.int; let obj ← Rd.str
  pure ⟨name, orig, addr, file, sl, ln, cn, obj⟩

def rdNode : Rd Node := do
  let i ← rdInfo
  let flat ← Rd.int; let flatDiv ← Rd.int; let cum ← Rd.int; let cumDiv ← Rd.int; let ext ← Rd.int
  pure ⟨i, flat, flatDiv, cum, cumDiv, ext⟩

def rdEdge : Rd Edge := do
  let s ← rdNode; let d ← rdNode; let w ← Rd.int; let wd ← Rd.int
  pure ⟨s, d, w, wd⟩

def rdTag : Rd Tag := do
  let name ← Rd.str; let unit ← Rd.str; let value ← Rd.int
  let flat ← Rd.int; let flatDiv ← Rd.int; let cum ← Rd.int; let cumDiv ← Rd.int
  pure ⟨name, unit, value, flat, flatDiv, cum, cumDiv⟩

def indexed {α : Type} : List α → Nat → List (Nat × α)
  | [], _ => []
  | a :: l, i => (i, a) :: indexed l (i + 1)

def countTies {α : Type} (lt : α → α → Bool) : List α → Nat
  | [] => 0
  | [_] => 0
  | a :: b :: l => (if !lt a b && !lt b a then 1 else 0) + countTies lt (b :: l)

def sortReply {α : Type} (lt : α → α → Bool) (l : List α) : String :=
  let s := sortBy (fun (x y : Nat × α) => lt x.2 y.2) (indexed l 0)
  "ok " ++ Wr.render (Wr.list Wr.nat (s.map (·.1))) ++ " ties " ++ toString (countTies lt (s.map (·.2)))

def nodeOrder? : String → Option (List (KD NodeProj) × ScoreSrc)
  | "FlatNameOrder" => some (nodes_FlatNameOrder, .external "")
  | "FlatCumNameOrder" => some (nodes_FlatCumNameOrder, .external "")
  | "CumNameOrder" => some (nodes_CumNameOrder, nodes_CumNameOrder_score)
  | "NameOrder" => some (nodes_NameOrder, .external "")
  | "FileOrder" => some (nodes_FileOrder, .external "")
  | "AddressOrder" => some (nodes_AddressOrder, .external "")
  | "EntropyOrder" => some (nodes_EntropyOrder, nodes_EntropyOrder_score)
  | _ => none

def b01 (b : Bool) : String := if b then "1" else "0"

def ops : List (String × (List String → String)) := [
  ("sort.tags", fun ts =>
    match Rd.run (do let f ← Rd.bool; let l ← Rd.list rdTag; pure (f, l)) ts with
    | none => "bad-op"
    | some (f, l) => sortReply (tagLess (if f then tags_Less__flat else tags_Less__not_flat)) l),
  ("sort.nodes", fun ts =>
    match ts with
    | [] => "bad-op"
    | o :: rest =>
      match nodeOrder? o, Rd.run (Rd.list rdNode) rest with
      | some (ks, sc), some l => sortReply (nodeLess sc ks) l
      | _, _ => "bad-op"),
  ("sort.edges", fun ts =>
    match Rd.run (Rd.list rdEdge) ts with
    | none => "bad-op"
    | some l => sortReply (edgeLess edgeList_Less) l),
  ("node.render", fun ts =>
    match Rd.run rdNode ts with
    | none => "bad-op"
    | some n => Str.toTok (printableName n.info) ++ " " ++ Str.toTok (sprintInfo n.info)),
  ("sym.ids", fun ts =>
    match Rd.run (do let s ← Rd.nat; let l ← Rd.list Rd.str; pure (s, l)) ts with
    | none => "bad-op"
    | some (s, l) =>
      "ok " ++ Wr.render (Wr.list Wr.nat ((PV.SymIds.assign s [] l).map (·.2)) ++ Wr.list Wr.str (PV.SymIds.added [] l))),
  ("proper", fun _ =>
    "tags_flat=" ++ b01 (allProperKD tags_Less__flat) ++ " tags_not_flat=" ++ b01 (allProperKD tags_Less__not_flat) ++
    " edges=" ++ b01 (allProperKD edgeList_Less) ++
    " edges_identity=" ++ b01 (hasIdKey (EdgeProj.Src .Sprint_Info) edgeList_Less && hasIdKey (EdgeProj.Dest .Sprint_Info) edgeList_Less) ++
    " nodes=" ++ b01 ([nodes_FlatNameOrder, nodes_FlatCumNameOrder, nodes_CumNameOrder, nodes_NameOrder, nodes_FileOrder,
        nodes_AddressOrder, nodes_EntropyOrder].all allProperKD))
]
end Driver.C08
