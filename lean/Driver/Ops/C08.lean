import PprofVerif.Base.Tok
/- Driver operations for C08. -/
namespace Driver.C08
open PV

def ops : List (String × (List String → String)) := []
end Driver.C08
