import PprofVerif.Base.Tok
/- Driver operations for C06. -/
namespace Driver.C06
open PV

def ops : List (String × (List String → String)) := []
end Driver.C06
