import PprofVerif.Model.TagFilter
import PprofVerif.Spec.Filter
/- Driver operations for C06 (sample filters).

Token forms
  rx      := 0 | 1 <list str>                 nil regexp | the strings of the profile it matches
  views   := <list view>, view := <list int> <list kv-str> <list kv-int> <list kv-str> <list frame>
  frame   := locID mappingID (0 | 1 fnID line col)
  tagf    := <str value> <list (str piece, rx)> <list (str key, str unit)>
             (`rx` 0 for a piece = regexp.Compile fails)
-/
namespace Driver.C06
open PV PV.Filter PV.FilterSpec PV.TagFilter

def rdRx : Rd (Option Rx) := do
  let t ← Rd.opt (Rd.list Rd.str)
  pure (t.map (fun tbl => fun s => tbl.contains s))

def wrFrame (f : Frame) : Wr :=
  Wr.nat f.locID ++ Wr.nat f.mappingID ++
  (match f.line with
   | none => ["0"]
   | some ln => "1" :: (Wr.nat ln.functionID ++ Wr.int ln.line ++ Wr.int ln.column))

def wrView (v : View) : Wr :=
  Wr.list Wr.int v.values ++ Wr.list (Wr.kv Wr.str) v.label ++ Wr.list (Wr.kv Wr.int) v.numLabel ++
  Wr.list (Wr.kv Wr.str) v.numUnit ++ Wr.list wrFrame v.frames

def wrViews (vs : List View) : String := Wr.render (Wr.list wrView vs)

structure TagF where
  value : Str
  pieces : List (Str × Option Rx)
  units : List (Str × Str)

def rdTagF : Rd TagF := do
  let v ← Rd.str
  let ps ← Rd.list (do let k ← Rd.str; let r ← rdRx; pure (k, r))
  let us ← Rd.list (do let k ← Rd.str; let u ← Rd.str; pure (k, u))
  pure ⟨v, ps, us⟩

def TagF.compile (t : TagF) : Outcome (Option TagMatch) :=
  compileTagFilter (fun piece => (t.pieces.lookup piece).bind id)
    (fun k => (t.units.lookup k).getD []) t.value

structure Opts where
  focus : Option Rx
  ignore : Option Rx
  hide : Option Rx
  show_ : Option Rx
  showFrom : Option Rx
  tagFocus : TagF
  tagIgnore : TagF
  tagShow : Option Rx
  tagHide : Option Rx

def rdOpts : Rd Opts := do
  pure { focus := ← rdRx, ignore := ← rdRx, hide := ← rdRx, show_ := ← rdRx, showFrom := ← rdRx,
         tagFocus := ← rdTagF, tagIgnore := ← rdTagF, tagShow := ← rdRx, tagHide := ← rdRx }

/-- `applyFocus` without prune_from (C11): FilterSamplesByName, ShowFrom, FilterSamplesByTag,
FilterTagsByName, in that order; option errors come first. -/
def applyFocus (o : Opts) (p : Profile) : Outcome Profile :=
  match o.tagFocus.compile with
  | .panic s => .panic s
  | .err e => .err e
  | .ok tf =>
    match o.tagIgnore.compile with
    | .panic s => .panic s
    | .err e => .err e
    | .ok ti =>
      let p1 := (filterSamplesByName p o.focus o.ignore o.hide o.show_).profile
      let p2 := (showFrom p1 o.showFrom).1
      let p3 := (filterSamplesByTag p2 tf ti).1
      .ok (filterTagsByName p3 o.tagShow o.tagHide).1

/-- what survives serialization: a NumUnit entry exists only next to its NumLabel entry
(`pprof -proto` output is compared after Write/Parse). -/
def dropOrphanUnits (s : Sample) : Sample :=
  { s with numUnit := s.numUnit.filter (fun kv => s.numLabel.any (fun nl => nl.1 == kv.1)) }

def b (x : Bool) : String := if x then "1" else "0"

def with2 {α β} (ra : Rd α) (rb : Rd β) (ts : List String) (f : α → β → String) : String :=
  match Rd.run (do let a ← ra; let b ← rb; pure (a, b)) ts with
  | some (a, b) => f a b
  | none => "bad-op"

def rd4 : Rd (Option Rx × Option Rx × Option Rx × Option Rx) := do
  let a ← rdRx; let b ← rdRx; let c ← rdRx; let d ← rdRx; pure (a, b, c, d)

def rd2 : Rd (Option Rx × Option Rx) := do let a ← rdRx; let b ← rdRx; pure (a, b)

def rdSamples : Rd (Option TagMatch) := do
  let t ← Rd.opt (Rd.list Rd.sample)
  pure (t.map (fun tbl => fun s => tbl.contains s))

def ops : List (String × (List String → String)) := [
  ("name.model", fun ts => with2 rd4 Rd.profile ts fun (fo, ig, hi, sh) p =>
    let r := filterSamplesByName p fo ig hi sh
    Wr.render (Wr.profile r.profile) ++ " " ++ b r.fm ++ " " ++ b r.im ++ " " ++ b r.hm ++ " " ++ b r.hnm),
  ("name.spec", fun ts => with2 rd4 Rd.profile ts fun (fo, ig, hi, sh) p =>
    wrViews (nameSpec p fo ig hi sh)),
  ("showfrom.model", fun ts => with2 rdRx Rd.profile ts fun sf p =>
    let r := showFrom p sf
    Wr.render (Wr.profile r.1) ++ " " ++ b r.2),
  ("showfrom.spec", fun ts => with2 rdRx Rd.profile ts fun sf p => wrViews (showFromSpec p sf)),
  ("tags.model", fun ts => with2 rd2 Rd.profile ts fun (sh, hi) p =>
    let r := filterTagsByName p sh hi
    Wr.render (Wr.profile r.1) ++ " " ++ b r.2.1 ++ " " ++ b r.2.2),
  ("tags.spec", fun ts => with2 rd2 Rd.profile ts fun (sh, hi) p =>
    wrViews (p.samples.map (tagsSpecView p sh hi))),
  ("bytag.model", fun ts =>
    with2 (do let a ← rdSamples; let b ← rdSamples; pure (a, b)) Rd.profile ts fun (fo, ig) p =>
    let r := filterSamplesByTag p fo ig
    Wr.render (Wr.profile r.1) ++ " " ++ b r.2.1 ++ " " ++ b r.2.2),
  ("bytag.spec", fun ts =>
    with2 (do let a ← rdSamples; let b ← rdSamples; pure (a, b)) Rd.profile ts fun (fo, ig) p =>
    wrViews (tagSpec p fo ig)),
  ("tagfilter.model", fun ts =>
    with2 (do let a ← rdTagF; let b ← rdTagF; pure (a, b)) Rd.profile ts fun (tf, ti) p =>
    match tf.compile, ti.compile with
    | .ok f, .ok i => let r := filterSamplesByTag p f i
                      "ok " ++ Wr.render (Wr.profile r.1) ++ " " ++ b r.2.1 ++ " " ++ b r.2.2
    | .panic _, _ => "panic"
    | _, .panic _ => "panic"
    | _, _ => "err"),
  ("tagfilter.spec", fun ts =>
    with2 (do let a ← rdTagF; let b ← rdTagF; pure (a, b)) Rd.profile ts fun (tf, ti) p =>
    match tf.compile, ti.compile with
    | .ok f, .ok i => "ok " ++ wrViews (tagSpec p f i)
    | .panic _, _ => "panic"
    | _, .panic _ => "panic"
    | _, _ => "err"),
  ("apply.model", fun ts => with2 rdOpts Rd.profile ts fun o p =>
    match applyFocus o p with
    | .ok r => "ok " ++ Wr.render (Wr.profile r) ++ " | " ++ wrViews (r.samples.map (fun s => view r (dropOrphanUnits s)))
    | .err _ => "err"
    | .panic _ => "panic"),
  ("views", fun ts => match Rd.run Rd.profile ts with
    | some p => wrViews (p.samples.map (view p))
    | none => "bad-op"),
  ("total", fun ts => with2 Rd.nat Rd.profile ts fun i p =>
    toString (total i (p.samples.map (view p)))),
  ("scale", fun ts =>
    match Rd.run (do let v ← Rd.int; let f ← Rd.str; let t ← Rd.str; pure (v, f, t)) ts with
    | some (v, f, t) => match scale v f t with
      | some (q, u) => "ok " ++ toString q.num ++ " " ++ toString q.den ++ " " ++ u.toTok
      | none => "auto"
    | none => "bad-op"),
  ("tagrange", fun ts =>
    match Rd.run (do let s ← Rd.str; let vs ← Rd.list (do let v ← Rd.int; let u ← Rd.str; pure (v, u)); pure (s, vs)) ts with
    | some (s, vs) => match parseTagFilterRange s with
      | .ok none => "nil"
      | .ok (some rf) => "range " ++ rf.unit.toTok ++ " " ++ " ".intercalate (vs.map fun (v, u) => b (rf.test v u))
      | .err _ => "err"
      | .panic _ => "panic"
    | none => "bad-op"),
  ("valid", fun ts => match Rd.run Rd.profile ts with
    | some p => b p.validB
    | none => "bad-op")
]
end Driver.C06
