import PprofVerif.Base.Tok
import PprofVerif.Model.Settings
import PprofVerif.Model.SettingsFS
import PprofVerif.Gen.ConfigFields
/- Driver operations for C19 (saved configurations).  Token forms:
   val     = `b 0|1` | `i <int>` | `f x<hex>` | `s x<hex>`
   config  = list of val in the order of the regenerated field table
   query   = list of (x<key> x<value>)
   obj     = list of (x<name> val);  doc = list of (x<name> obj);  file = opt doc
   floats  = list of (x<text> opt x<canonical>)   -- graph of strconv.ParseFloat∘fmt.Sprint on the texts of the case
   req     = `save query` | `delete x<name>`
   fsop    = `open fd x<name> creat trunc excl` | `write fd x<data>` | `fsync fd` | `close fd`
           | `rename x<src> x<dst>` | `unlink x<name>` | `restart` -/
namespace Driver.C19
open PV PV.Settings

def table : List FieldSpec := PV.Gen.ConfigFields.fields

namespace R
def val : Rd Val := do
  let t ← Rd.tok
  match t with
  | "b" => do let b ← Rd.bool; pure (.b b)
  | "i" => do let n ← Rd.int; pure (.i n)
  | "f" => do let s ← Rd.str; pure (.f s)
  | "s" => do let s ← Rd.str; pure (.s s)
  | _ => failure
def config : Rd Config := Rd.list val
def pair {α β} (a : Rd α) (b : Rd β) : Rd (α × β) := do let x ← a; let y ← b; pure (x, y)
def query : Rd Query := Rd.list (pair Rd.str Rd.str)
def obj : Rd Obj := Rd.list (pair Rd.str val)
def doc : Rd FileObj := Rd.list (pair Rd.str obj)
def file : Rd (Option FileObj) := Rd.opt doc
def floats : Rd FloatOps := do
  let tab ← Rd.list (pair Rd.str (Rd.opt Rd.str))
  pure { parse := fun s => match tab.lookup s with | some r => r | none => none }
def req : Rd Req := do
  let t ← Rd.tok
  match t with
  | "save" => do let q ← query; pure (.save q)
  | "delete" => do let n ← Rd.str; pure (.delete n)
  | _ => failure
def fsop : Rd FS.Op := do
  let t ← Rd.tok
  match t with
  | "open" => do
    let fd ← Rd.nat; let n ← Rd.str; let c ← Rd.bool; let tr ← Rd.bool; let e ← Rd.bool
    pure (.open fd n c tr e)
  | "write" => do let fd ← Rd.nat; let d ← Rd.str; pure (.write fd d)
  | "fsync" => do let fd ← Rd.nat; pure (.fsync fd)
  | "close" => do let fd ← Rd.nat; pure (.close fd)
  | "rename" => do let a ← Rd.str; let b ← Rd.str; pure (.rename a b)
  | "unlink" => do let a ← Rd.str; pure (.unlink a)
  | "restart" => pure .restart
  | _ => failure
end R

namespace W
def val : Val → Wr
  | .b v => "b" :: Wr.bool v
  | .i n => "i" :: Wr.int n
  | .f t => "f" :: Wr.str t
  | .s s => "s" :: Wr.str s
def config (c : Config) : Wr := Wr.list val c
def query (q : Query) : Wr := Wr.list (fun p => Wr.str p.1 ++ Wr.str p.2) q
def obj (o : Obj) : Wr := Wr.list (fun p => Wr.str p.1 ++ val p.2) o
def doc (d : FileObj) : Wr := Wr.list (fun p => Wr.str p.1 ++ obj p.2) d
def file (f : Option FileObj) : Wr := Wr.opt doc f
def kind : Kind → String
  | .bool => "bool" | .int => "int" | .float => "float" | .string => "string" | .choice => "choice"
def field (f : FieldSpec) : Wr :=
  [f.goName] ++ Wr.str f.name ++ Wr.bool f.saved ++ Wr.bool f.omitempty ++ Wr.str f.urlparam ++ [kind f.kind]
    ++ Wr.list Wr.str f.choices ++ val f.default
end W

/-- `configMenu`: the default configuration first, then the saved ones (none if the file does not
load); each entry with the query `makeURL` produces from the page's query. -/
def menu (cur : Config) (file : Option FileObj) (q : Query) : List (Str × Query × Bool) :=
  let user : Settings := match (match file with | none => some [] | some d => decS table cur d) with
    | some s => s
    | none => []
  ((Str.ofString "Default", defaults table) :: user).map (fun p =>
    let r := makeURL table p.2 q
    (p.1, r.1, r.2))

/-- all orders of a list (small inputs only). -/
def perms {α} : List α → List (List α)
  | [] => [[]]
  | x :: r => (perms r).flatMap (fun p => (List.range (p.length + 1)).map (fun k => p.take k ++ x :: p.drop k))

def serialResult (fo : FloatOps) (cur : Config) (file : Option FileObj) (rs : List Req) : Option FileObj :=
  rs.foldl (fun f r => (handleObj fo table cur f r).1) file

def ops : List (String × (List String → String)) := [
  ("config.table", fun _ =>
    Wr.render (Wr.list W.field table ++ Wr.list (fun s => [s]) PV.Gen.ConfigFields.transient)),
  ("config.makeurl", fun ts =>
    match Rd.run (R.pair R.config R.query) ts with
    | none => "bad-op"
    | some (c, q) => let r := makeURL table c q; Wr.render (W.query r.1 ++ Wr.bool r.2)),
  ("config.applyurl", fun ts =>
    match Rd.run (R.pair R.floats (R.pair R.config R.query)) ts with
    | none => "bad-op"
    | some (fo, c, q) => match applyURL fo table c q with
      | none => "err"
      | some c' => "ok " ++ Wr.render (W.config c')),
  ("settings.handle", fun ts =>
    match Rd.run (R.pair R.floats (R.pair R.config (R.pair R.file R.req))) ts with
    | none => "bad-op"
    | some (fo, cur, f, r) =>
      let res := handleObj fo table cur f r
      Wr.render (Wr.bool res.2 ++ W.file res.1)),
  ("settings.menu", fun ts =>
    match Rd.run (R.pair R.config (R.pair R.file R.query)) ts with
    | none => "bad-op"
    | some (cur, f, q) =>
      Wr.render (Wr.list (fun e => Wr.str e.1 ++ W.query e.2.1 ++ Wr.bool e.2.2) (menu cur f q))),
  ("settings.load", fun ts =>
    -- what a reload shows: each stored object decoded (saved fields intact, transient fields current)
    match Rd.run (R.pair R.config R.doc) ts with
    | none => "bad-op"
    | some (cur, d) => match decS table cur d with
      | none => "err"
      | some s => "ok " ++ Wr.render (Wr.list (fun p => Wr.str p.1 ++ W.config p.2) s)),
  ("settings.serial", fun ts =>
    -- is `final` the result of SOME serial order of the requests?
    match Rd.run (R.pair R.floats (R.pair R.config (R.pair R.file (R.pair (Rd.list R.req) R.file)))) ts with
    | none => "bad-op"
    | some (fo, cur, f0, rs, final) =>
      if rs.length > 6 then "too-many"
      else
        let idx := List.range rs.length
        match (perms idx).find? (fun p => serialResult fo cur f0 (p.filterMap (rs[·]?)) == final) with
        | some p => "yes " ++ Wr.render (Wr.list Wr.nat p)
        | none => "no"),
  ("fs.accepts", fun ts =>
    match Rd.run (R.pair Rd.str (R.pair (Rd.opt Rd.str) (R.pair Rd.str (R.pair Rd.bool
            (R.pair (Rd.list (R.pair Rd.str Rd.str)) (Rd.list R.fsop)))))) ts with
    | none => "bad-op"
    | some (f, old, new, mayFail, files, os) =>
      match FS.accepts f old new mayFail (FS.ofFiles files) os with
      | none => "atomic"
      | some (k, why) => s!"bad {k} {why}")
]
end Driver.C19
