import PprofVerif.Base.Tok
/- Driver operations for C19. -/
namespace Driver.C19
open PV

def ops : List (String × (List String → String)) := []
end Driver.C19
