import PprofVerif.Base.Tok
import PprofVerif.Model.Measure
import PprofVerif.Spec.Units
/- Driver operations for C15 (unit conversion and value formatting). -/
namespace Driver.C15
open PV PV.Measure

def wrQ (q : Q) : Wr := [toString q.num, toString q.den]

def wrUnit (u : MUnit) : Wr := Wr.str u.name ++ Wr.list Wr.str u.aliases ++ [toString u.fnum, toString u.fden]

def wrFamily (F : Family) : Wr := Wr.str F.name ++ wrUnit F.default ++ Wr.list wrUnit F.units

def wrSUnit (u : Spec.Units.SUnit) : Wr :=
  Wr.str u.display ++ Wr.list Wr.str u.names ++ [toString u.num, toString u.den]

def wrSFamily (F : Spec.Units.SFamily) : Wr := Wr.str F.default ++ Wr.list wrSUnit F.units

def rdVT : Rd VT := do
  let t ← Rd.str
  let u ← Rd.str
  pure { typ := t, unit := u }

def wrVT (v : VT) : Wr := Wr.str v.typ ++ Wr.str v.unit

def rdProf : Rd MProf := do
  let pt ← Rd.opt rdVT
  let period ← Rd.int
  let sts ← Rd.list rdVT
  let ss ← Rd.list (Rd.list Rd.int)
  pure { periodType := pt, period := period, sampleTypes := sts, samples := ss }

/-- reply: period type, exact period, new sample types, exact ratios (the scaled values are
`value * ratio`; the harness recomputes them) -/
def wrProfOut (p : MProfOut) : Wr :=
  Wr.opt wrVT p.periodType ++ wrQ p.period ++ Wr.list wrVT p.sampleTypes ++ Wr.list wrQ p.ratios

def clsName : PctClass → String
  | .hundred => "hundred"
  | .fixed => "fixed"
  | .short => "short"

def ops : List (String × (List String → String)) := [
  -- the regenerated table, as the model sees it
  ("c15.table", fun _ => Wr.render (Wr.list wrFamily table)),
  -- the hand-written dictionary of unit meanings
  ("c15.spec", fun _ => Wr.render (Wr.list wrSFamily Spec.Units.spec)),
  -- spec: which unit does this string denote?  `0` | `1 <family index> <display> <num> <den>`
  ("c15.recognise", fun ts =>
    match Rd.run (do let s ← Rd.str; let l ← Rd.str; pure (s, l)) ts with
    | none => "bad-op"
    | some (s, l) =>
      match Spec.Units.recognise2 s l with
      | none => "0"
      | some (i, u) => Wr.render (["1", toString i] ++ Wr.str u.display ++ [toString u.num, toString u.den])),
  -- model: Scale(v, from, to) -> `<num> <den> <unit>`
  ("c15.scale", fun ts =>
    match Rd.run (do let v ← Rd.int; let f ← Rd.str; let t ← Rd.str; pure (v, f, t)) ts with
    | none => "bad-op"
    | some (v, f, t) => let r := scale table v f t; Wr.render (wrQ r.1 ++ Wr.str r.2)),
  -- model: ScaledLabel(v, from, to) -> rounded number and unit suffix
  ("c15.label", fun ts =>
    match Rd.run (do let v ← Rd.int; let f ← Rd.str; let t ← Rd.str; pure (v, f, t)) ts with
    | none => "bad-op"
    | some (v, f, t) => let r := label table v f t; Wr.render (wrQ r.1 ++ Wr.str r.2)),
  -- model: report value formatter with ratio rnum/rden -> divided value, rounded number, unit suffix
  ("c15.format", fun ts =>
    match Rd.run (do let v ← Rd.int; let n ← Rd.int; let d ← Rd.nat; let f ← Rd.str; let t ← Rd.str; pure (v, n, d, f, t)) ts with
    | none => "bad-op"
    | some (v, n, d, f, t) =>
      let r : Q := ⟨n, d⟩
      let w := if Q.ltB Q.zero r && !decide (Q.eqv r Q.one) then scaleByRatio v r else v
      let l := formatValue table r v f t
      Wr.render ([toString w] ++ wrQ l.1 ++ Wr.str l.2)),
  -- model: selectOutputUnit  <n> (flat cum)* total rnum rden sampleUnit callgrind -> unit
  ("c15.selectunit", fun ts =>
    match Rd.run (do
        let ns ← Rd.list (do let f ← Rd.int; let c ← Rd.int; pure (f, c))
        let tot ← Rd.int; let n ← Rd.int; let d ← Rd.nat; let u ← Rd.str; let cg ← Rd.bool
        pure (ns, tot, n, d, u, cg)) ts with
    | none => "bad-op"
    | some (ns, tot, n, d, u, cg) => Wr.render (Wr.str (selectOutputUnit table ns tot ⟨n, d⟩ u cg))),
  -- model: Percentage(v, total) -> ratio and formatting class
  ("c15.pct", fun ts =>
    match Rd.run (do let v ← Rd.int; let t ← Rd.int; pure (v, t)) ts with
    | none => "bad-op"
    | some (v, t) => let r := percentage v t; Wr.render (wrQ r.1 ++ [clsName r.2])),
  -- model: CommonValueType
  ("c15.common", fun ts =>
    match Rd.run (Rd.list rdVT) ts with
    | none => "bad-op"
    | some l =>
      match commonValueType table l with
      | .ok c => Wr.render ("ok" :: Wr.opt wrVT c)
      | .err _ => "err"
      | .panic s => "panic " ++ s),
  -- model: ScaleProfiles
  ("c15.scaleprofiles", fun ts =>
    match Rd.run (Rd.list rdProf) ts with
    | none => "bad-op"
    | some ps =>
      match scaleProfiles table ps with
      | .ok out => Wr.render ("ok" :: Wr.list wrProfOut out)
      | .err _ => "err"
      | .panic s => "panic " ++ s)
]
end Driver.C15
