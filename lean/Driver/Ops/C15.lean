import PprofVerif.Base.Tok
/- Driver operations for C15. -/
namespace Driver.C15
open PV

def ops : List (String × (List String → String)) := []
end Driver.C15
