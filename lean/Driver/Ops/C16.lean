import PprofVerif.Base.Tok
/- Driver operations for C16. -/
namespace Driver.C16
open PV

def ops : List (String × (List String → String)) := []
end Driver.C16
