import PprofVerif.Base.Tok
import PprofVerif.Model.Fetch
import PprofVerif.Gen.FetchConsts
/- Driver operations for C16 (multi-source fetch).

   fetch.chunk
       → the chunk size extracted from the current source (Gen/FetchConsts.lean) or `unknown`
   fetch.facts
       → `<chunkShape> <barrierShape> <collectShape>` as recognised by the translator
   fetch.model <c> <n> <n bits: 1 = source i succeeds> <π: list> <m> <m bits> <σ: list>
       runs Fetch.grabSourcesAndBases on the free-monoid instance (profile of source i = [i],
       of base j = [1000000 + j], merge = concatenation in merge order) with chunk size c
       (0 ⇒ the extracted one, or 128 when it was not recognised: by
       `chunked_eq_flat` the result does not depend on it) under the completion orders π (sources) and σ (bases)
       → `<ok|err|panic> src <list> base <list> errs <list of failed source idx> berrs <list>`
         (the src/base lists are the merged "profiles": the indices collected, in merge order;
          on err/panic they are empty)
-/
/- fetch.descs <c> <n> <n × (scheme trusted bodyOk)> <π> <m> <m × (…)> <σ>
       like fetch.model, but every source is DESCRIBED (scheme 0 plug-in, 1 file, 2 http, 3 https,
       4 https+insecure; certificate trusted; valid body) and the model's trust table
       (SrcDesc.fetchable) decides which ones can be fetched. -/
/- fetch.common <k> <k × (list of type numbers)>
       → the list of common types in the first list's order (Fetch.commonTypes) -/
/- fetch.unitsum <k> <k × (factor value)>
       → `<finest factor> <sum converted to it>` (Fetch.unitSum) -/
/- fetch.locate <k> <k × (dir name id)> <name> <buildid>
       → index of the tree entry the mapping resolves to (Fetch.locate), or `none` -/
namespace Driver.C16
open PV PV.Fetch

def bits (n : Nat) : Rd (List Bool) := Rd.rep Rd.bool n

def req : Rd (Nat × List Bool × List Nat × List Bool × List Nat) := do
  let c ← Rd.nat
  let n ← Rd.nat
  let sb ← bits n
  let π ← Rd.list Rd.nat
  let m ← Rd.nat
  let bb ← bits m
  let σ ← Rd.list Rd.nat
  pure (c, sb, π, bb, σ)

def baseTag : Nat := 1000000

def desc : Rd SrcDesc := do
  let sc ← Rd.nat
  let t ← Rd.bool
  let b ← Rd.bool
  let scheme ← match sc with
    | 0 => pure Scheme.plugin
    | 1 => pure Scheme.file
    | 2 => pure Scheme.http
    | 3 => pure Scheme.https
    | 4 => pure Scheme.httpsInsecure
    | _ => failure
  pure ⟨scheme, t, b⟩

def reqD : Rd (Nat × List SrcDesc × List Nat × List SrcDesc × List Nat) := do
  let c ← Rd.nat
  let n ← Rd.nat
  let sd ← Rd.rep desc n
  let π ← Rd.list Rd.nat
  let m ← Rd.nat
  let bd ← Rd.rep desc m
  let σ ← Rd.list Rd.nat
  pure (c, sd, π, bd, σ)

def render (r : BothRun Unit (List Nat)) : String :=
  let tail := Wr.render (["errs"] ++ Wr.list Wr.nat (r.srcPrinted.map (·.1)) ++
                         ["berrs"] ++ Wr.list Wr.nat (r.basePrinted.map (·.1)))
  match r.res with
  | .ok b =>
    Wr.render (["ok", "src"] ++ Wr.list Wr.nat (b.src.getD []) ++
               ["base"] ++ Wr.list Wr.nat ((b.base.getD []).map (· - baseTag))) ++ " " ++ tail
  | .err _ => "err src 0 base 0 " ++ tail
  | .panic _ => "panic src 0 base 0 " ++ tail

def ops : List (String × (List String → String)) := [
  ("fetch.chunk", fun _ => match Gen.FetchConsts.chunkSize? with
    | some c => toString c
    | none => "unknown"),
  ("fetch.facts", fun _ => Gen.FetchConsts.chunkShape ++ " " ++ Gen.FetchConsts.barrierShape ++ " " ++
    Gen.FetchConsts.collectShape),
  ("fetch.locate", fun ts =>
    match Rd.run (do
        let tree ← Rd.list (do let a ← Rd.nat; let b ← Rd.nat; let c ← Rd.nat; pure (a, b, c))
        let name ← Rd.nat
        let bid ← Rd.nat
        pure (tree, name, bid)) ts with
    | none => "bad-op"
    | some (tree, name, bid) =>
      match locate tree name bid with
      | some i => toString i
      | none => "none"),
  ("fetch.common", fun ts =>
    match Rd.run (Rd.list (Rd.list Rd.nat)) ts with
    | none => "bad-op"
    | some l => Wr.render (Wr.list Wr.nat (commonTypes l))),
  ("fetch.unitsum", fun ts =>
    match Rd.run (Rd.list (do let f ← Rd.nat; let v ← Rd.nat; pure (f, v))) ts with
    | none => "bad-op"
    | some l => let r := unitSum l; toString r.1 ++ " " ++ toString r.2),
  ("fetch.descs", fun ts =>
    match Rd.run reqD ts with
    | none => "bad-op"
    | some (c, sd, π, bd, σ) =>
      let c := if c = 0 then Gen.FetchConsts.chunkSize?.getD 128 else c
      render (grabSourcesAndBases catMerge c (outsOfDescs 0 sd) sd.length π (outsOfDescs baseTag bd) bd.length σ)),
  ("fetch.model", fun ts =>
    match Rd.run req ts with
    | none => "bad-op"
    | some (c, sb, π, bb, σ) =>
      let c := if c = 0 then Gen.FetchConsts.chunkSize?.getD 128 else c
      let r := grabSourcesAndBases catMerge c (outsOfBits 0 sb) sb.length π (outsOfBits baseTag bb) bb.length σ
      let tail := Wr.render (["errs"] ++ Wr.list Wr.nat (r.srcPrinted.map (·.1)) ++
                             ["berrs"] ++ Wr.list Wr.nat (r.basePrinted.map (·.1)))
      match r.res with
      | .ok b =>
        Wr.render (["ok", "src"] ++ Wr.list Wr.nat (b.src.getD []) ++
                   ["base"] ++ Wr.list Wr.nat ((b.base.getD []).map (· - baseTag))) ++ " " ++ tail
      | .err _ => "err src 0 base 0 " ++ tail
      | .panic _ => "panic src 0 base 0 " ++ tail)
]
end Driver.C16
