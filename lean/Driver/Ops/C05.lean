import PprofVerif.Model.Trim
/- Driver operations for C05 (node selection of trimmed text reports). The graph figures under a
   kept set are served by Driver.Ops.C04 (`graph.spec` / `graph.model` with a kept list). -/
namespace Driver.C05
open PV PV.Trim

def rdEntry (i : Nat) : Rd Entry := do
  pure { id := i, name := ← Rd.str, infoStr := ← Rd.str, flat := ← Rd.int, cum := ← Rd.int }

def rdEntries : Nat → Nat → Rd (List Entry)
  | 0, _ => pure []
  | n+1, i => do let e ← rdEntry i; let r ← rdEntries n (i + 1); pure (e :: r)

def ops : List (String × (List String → String)) := [
  -- trim.text <fracNum> <fracDen> <nodeCount> <cumSort> <n> (name infoStr flat cum)*  →  ok <cutoff> <k> ids…
  ("trim.text", fun ts =>
    match Rd.run (do
        let fn ← Rd.int; let fd ← Rd.int; let nc ← Rd.nat; let cs ← Rd.bool
        let n ← Rd.nat
        let es ← rdEntries n 0
        pure (({ fracNum := fn, fracDen := fd, nodeCount := nc, cumSort := cs } : TrimOpts), es)) ts with
    | none => "bad-op"
    | some (o, es) =>
      if o.fracDen ≤ 0 then "bad-op" else
      let r := trimText o es
      let c := cutoffOf ((es.map (·.flat)).sum) o.fracNum o.fracDen
      "ok " ++ Wr.render (Wr.int c ++ Wr.list (fun e => Wr.nat e.id) r))
]
end Driver.C05
