import PprofVerif.Base.Tok
/- Driver operations for C05. -/
namespace Driver.C05
open PV

def ops : List (String × (List String → String)) := []
end Driver.C05
