import PprofVerif.Model.Trim
import PprofVerif.Model.TrimTree
import Driver.Ops.C04
/- Driver operations for C05 (node selection of trimmed text reports). The graph figures under a
   kept set are served by Driver.Ops.C04 (`graph.spec` / `graph.model` with a kept list). -/
namespace Driver.C05
open PV PV.Trim

def rdEntry (i : Nat) : Rd Entry := do
  pure { id := i, name := ← Rd.str, infoStr := ← Rd.str, flat := ← Rd.int, cum := ← Rd.int }

def rdEntries : Nat → Nat → Rd (List Entry)
  | 0, _ => pure []
  | n+1, i => do let e ← rdEntry i; let r ← rdEntries n (i + 1); pure (e :: r)

def ops : List (String × (List String → String)) := [
  -- trim.text <fracNum> <fracDen> <nodeCount> <cumSort> <n> (name infoStr flat cum)*  →  ok <cutoff> <k> ids…
  ("trim.text", fun ts =>
    match Rd.run (do
        let fn ← Rd.int; let fd ← Rd.int; let nc ← Rd.nat; let cs ← Rd.bool
        let n ← Rd.nat
        let es ← rdEntries n 0
        pure (({ fracNum := fn, fracDen := fd, nodeCount := nc, cumSort := cs } : TrimOpts), es)) ts with
    | none => "bad-op"
    | some (o, es) =>
      if o.fracDen ≤ 0 then "bad-op" else
      let r := trimText o es
      let c := cutoffOf ((es.map (·.flat)).sum) o.fracNum o.fracDen
      "ok " ++ Wr.render (Wr.int c ++ Wr.list (fun e => Wr.nat e.id) r))
]
end Driver.C05

/-! ### `trim.tree`: the model of `Graph.TrimTree` on the call tree of a profile -/
namespace Driver.C05
open PV PV.GSpec PV.Graph PV.TrimTree Driver.C04

/-- listed-node view of a table: the entries whose `sel` end is a listed node, in node order -/
def viewEdges (nodes : List (List NodeInfo × NodeAcc)) (pick : List NodeInfo → ETable (List NodeInfo)) :
    List (List NodeInfo × List NodeInfo × WD × Bool) :=
  nodes.flatMap fun (n, _) => (pick n).map fun ((a, b), e) => (a, b, e.weight, e.residual)

/-- `trim.tree <g.Nodes order: list of paths> <graph request with keptPaths>` →
    `ok <nodes + In-view edges> ;; ok <nodes + Out-view edges>` | `panic …` | `err …` | `order-mismatch` -/
def runTrimTree (ord : List (List NodeInfo)) (r : Req) : String :=
  match r.samples with
  | none => "invalid"
  | some ss =>
    let g := newTree ss
    let shown := g.shownNodes.map Prod.fst
    if !(ord.length == shown.length && ord.all (shown.contains ·) && ord.eraseDups.length == ord.length) then
      "order-mismatch"
    else
      let nodes := ord.map fun n => (n, tget g.nodes n NodeAcc.zero)
      -- EdgeMap.Sort is a parameter of the model; on trees every node has at most one in-edge, so any
      -- permutation-returning sort gives the same result (Props.C05.trimTree_*): the identity is used
      match trimNewTree id (keptFn r.keptPaths) g nodes with
      | .panic m => "panic " ++ m
      | .err m => "err " ++ m
      | .ok st =>
        let ns := st.nodes.map fun (n, a) => (n, a.flat, a.cum)
        let total := computeTotalWD ss
        renderTables { nodes := ns, edges := viewEdges st.nodes (inEdges st.ins), total := total } ++ " ;; " ++
        renderTables { nodes := ns, edges := viewEdges st.nodes (outEdges st.outs), total := total }

def opsTree : List (String × (List String → String)) := [
  ("trim.tree", fun ts =>
    match Rd.run (do let ord ← Rd.list (Rd.list rdNodeInfo); let r ← rdReq; pure (ord, r)) ts with
    | none => "bad-op"
    | some (ord, r) => runTrimTree ord r)
]
end Driver.C05
