import PprofVerif.Base.Tok
/- Driver operations for C18. -/
namespace Driver.C18
open PV

def ops : List (String × (List String → String)) := []
end Driver.C18
