import PprofVerif.Base.Tok
import PprofVerif.Model.Dot
import PprofVerif.Model.Callgrind
/- Driver operations for C18: the Lean DOT parser and callgrind checker applied to the real
   output of pprof, and the models of escapeForDot / callgrindName / callgrindAddress. -/
namespace Driver.C18
open PV

def wrNode (n : Dot.NodeStmt) : Wr :=
  Wr.str n.id ++ Wr.list (fun kv => Wr.str kv.1 ++ Wr.str kv.2) n.attrs

def nameErr : Callgrind.NameErr → String
  | .undefinedRef id => s!"backref-undefined {id}"
  | .redefined id => s!"id-redefined {id}"
  | .malformed => "name-malformed"

def cgErr : Callgrind.Err → String
  | .name spec e => s!"{nameErr e} {Str.toTok spec}"
  | .badLine => "bad-line"
  | .badHeader => "bad-header"
  | .badSubposition => "bad-subposition"
  | .badCost => "bad-cost"
  | .callWithoutCost => "call-without-cost-line"
  | .callWithoutTarget => "call-without-cfn"
  | .noEvents => "no-events-header"
  | .noFinalNewline => "no-final-newline"

def wrCost (c : Callgrind.Cost) : Wr :=
  Wr.str c.ob ++ Wr.str c.fl ++ Wr.str c.fn ++ Wr.list Wr.nat c.pos ++ Wr.list Wr.nat c.costs

def wrCall (c : Callgrind.Call) : Wr :=
  Wr.str c.fl ++ Wr.str c.fn ++ Wr.str c.cfl ++ Wr.str c.cfn ++ Wr.nat c.count ++
  Wr.list Wr.nat c.tpos ++ Wr.list Wr.nat c.spos ++ Wr.list Wr.nat c.costs

def ops : List (String × (List String → String)) := [
  -- ok <name?> <nodes> <edges> <undeclared endpoints> | err lex | err parse
  ("dot.check", fun ts =>
    match Rd.run Rd.str ts with
    | none => "bad-op"
    | some s =>
      match Dot.lex s with
      | none => "err lex"
      | some toks =>
        match Dot.parseToks toks with
        | none => "err parse"
        | some g =>
          "ok " ++ Wr.render (Wr.opt Wr.str g.name ++ Wr.list wrNode g.nodes ++
            Wr.list (fun e => Wr.str e.1 ++ Wr.str e.2) g.edges ++ Wr.list Wr.str g.undeclared)),
  ("dot.escape", fun ts =>
    match Rd.run Rd.str ts with
    | none => "bad-op"
    | some s => Str.toTok (Dot.escape s)),
  ("dot.unescape", fun ts =>
    match Rd.run Rd.str ts with
    | none => "bad-op"
    | some s => Str.toTok (Dot.unescape s)),
  -- lexQuoted on `"` ++ body ++ `"` ++ rest: ok <body> <rest> | none
  ("dot.lexq", fun ts =>
    match Rd.run Rd.str ts with
    | none => "bad-op"
    | some s =>
      match Dot.lexQuoted s with
      | some (b, r) => "ok " ++ Wr.render (Wr.str b ++ Wr.str r)
      | none => "none"),
  -- ok <costs> <calls> <calls whose target has no cost line> | err <line> <kind…>
  ("callgrind.check", fun ts =>
    match Rd.run Rd.str ts with
    | none => "bad-op"
    | some s =>
      match Callgrind.check s with
      | .ok r => "ok " ++ Wr.render (Wr.list wrCost r.costs ++ Wr.list wrCall r.calls ++
                                       Wr.list wrCall r.undeclaredTargets)
      | .error (line, e) => s!"err {line} {cgErr e}"),
  -- model of callgrindName over a sequence of names sharing one table
  ("callgrind.names", fun ts =>
    match Rd.run (Rd.list Rd.str) ts with
    | none => "bad-op"
    | some names =>
      let (toks, _) := names.foldl (fun (acc : List Str × List (Str × Nat)) n =>
        let (t, tbl) := Callgrind.cgName acc.2 n
        (t :: acc.1, tbl)) ([], [])
      Wr.render (Wr.list Wr.str toks.reverse)),
  -- model of callgrindAddress: <hasPrev> <prev> <cur>
  ("callgrind.addr", fun ts =>
    match Rd.run (do let h ← Rd.bool; let p ← Rd.nat; let c ← Rd.nat; pure (h, p, c)) ts with
    | none => "bad-op"
    | some (h, p, c) => Str.toTok (Callgrind.cgAddr (if h then some p else none) c))
]
end Driver.C18
