import PprofVerif.Model.Codec
/- Driver operations for C01/C02 (codec). -/
namespace Driver.C01
open PV PV.Codec

def outProfile : Outcome Profile → String
  | .ok p => "ok " ++ Wr.render (Wr.profile p)
  | .err _ => "err"
  | .panic s => "panic " ++ s

def ops : List (String × (List String → String)) := [
  ("codec.serialize", fun ts =>
    match Rd.run Rd.profile ts with
    | none => "bad-op"
    | some p => match serialize p with
      | .ok b => "ok " ++ Str.toTok b
      | .err _ => "err"
      | .panic s => "panic " ++ s),
  ("codec.parse", fun ts =>
    match Rd.run Rd.str ts with
    | none => "bad-op"
    | some b => outProfile (parseUncompressed b)),
  ("codec.normalize", fun ts =>
    match Rd.run Rd.profile ts with
    | none => "bad-op"
    | some p => Wr.render (Wr.profile (Codec.Profile.normalize p))),
  ("codec.copy", fun ts =>
    match Rd.run Rd.profile ts with
    | none => "bad-op"
    | some p => outProfile (copy p)),
  ("valid", fun ts =>
    match Rd.run Rd.profile ts with
    | none => "bad-op"
    | some p => if p.validB then "1" else "0")
]
end Driver.C01
