import PprofVerif.Base.Tok
import PprofVerif.Model.Combine
/- Driver operations for C07 (combining / subtracting profiles).
   Token forms:  key = frames:list(nat) tag:nat base:bool;  sample = key vals:list(int);
   prof = list(sample);  ratio = num:int den:nat;  col = typ:nat unitname:nat fam:nat factor:nat;
   tprof = list(col) prof. -/
namespace Driver.C07
open PV PV.Combine

namespace R
def key : Rd StackKey := do
  let f ← Rd.list Rd.nat; let t ← Rd.nat; let b ← Rd.bool; pure ⟨f, t, b⟩
def sample : Rd Sample := do let k ← key; let v ← Rd.list Rd.int; pure (k, v)
def prof : Rd Prof := Rd.list sample
def ratio : Rd Ratio := do
  let n ← Rd.int; let d ← Rd.nat
  match Ratio.mk? n d with
  | some r => pure r
  | none => failure
def colT : Rd ColT := do
  let t ← Rd.nat; let u ← Rd.nat; let f ← Rd.nat; let k ← Rd.nat; pure ⟨t, ⟨u, f, k⟩⟩
def tprof : Rd TProf := do let c ← Rd.list colT; let p ← prof; pure ⟨c, p⟩
end R

namespace W
def key (k : StackKey) : Wr := Wr.list Wr.nat k.frames ++ Wr.nat k.tag ++ Wr.bool k.base
def sample (s : Sample) : Wr := key s.1 ++ Wr.list Wr.int s.2
def prof (p : Prof) : Wr := Wr.list sample p
def colT (c : ColT) : Wr := Wr.nat c.typ ++ Wr.nat c.unit.name ++ Wr.nat c.unit.fam ++ Wr.nat c.unit.factor
def tprof (p : TProf) : Wr := Wr.list colT p.cols ++ prof p.samples
end W

def out {α} (f : α → Wr) : Outcome α → String
  | .ok a => "ok " ++ Wr.render (f a)
  | .err _ => "err"
  | .panic _ => "panic"

/-- is `a/d` within 2^-10 of a half-integer?  (there the float computation of the real code may
round the other way; the harness then compares with tolerance) -/
def nearTie (a : Int) (d : Nat) : Bool :=
  let m := (2 * a.natAbs) % (2 * d)
  let dist := if m ≥ d then m - d else d - m
  dist * 1024 < 2 * d

def anyNearTie (rs : List Ratio) (p : Prof) : Bool :=
  p.any (fun s => (List.zipWith (fun (r : Ratio) x => !r.isOne && nearTie (x * r.num) r.den) rs s.2).any id)

/-- does `-normalize` of this case round a value that is within 2^-10 of a tie? -/
def fetchTie (nz : Bool) (s b : List TProf) : Bool :=
  nz && match combineT s, combineT b with
  | .ok p, .ok pb => anyNearTie (normRatios p.cols.length p.samples pb.samples) p.samples
  | _, _ => false

def mode? : Nat → Option Mode
  | 0 => some .plain
  | 1 => some .base
  | 2 => some .diffBase
  | _ => none

def ops : List (String × (List String → String)) := [
  ("c07.scalen", fun ts =>
    match Rd.run (do let n ← Rd.nat; let rs ← Rd.list R.ratio; let p ← R.prof; pure (n, rs, p)) ts with
    | none => "bad-op"
    | some (n, rs, p) => out W.prof (scaleN rs n p)),
  ("c07.scalen-pinned", fun ts =>
    match Rd.run (do let n ← Rd.nat; let rs ← Rd.list R.ratio; let p ← R.prof; pure (n, rs, p)) ts with
    | none => "bad-op"
    | some (n, rs, p) => out W.prof (scaleNPinned rs n p)),
  ("c07.normalize-pinned", fun ts =>
    match Rd.run (do let n ← Rd.nat; let p ← R.prof; let pb ← R.prof; pure (n, p, pb)) ts with
    | none => "bad-op"
    | some (n, p, pb) =>
      if !(wfB n p && wfB n pb) then "bad-op" else out W.prof (normalizePinned n p pb)),
  ("c07.scaleprofiles-pinned", fun ts =>
    match Rd.run (Rd.list R.tprof) ts with
    | none => "bad-op"
    | some ps => out (Wr.list W.tprof) (scaleProfilesWith scaleNPinned ps)),
  ("c07.fetch-pinned", fun ts =>
    match Rd.run (do let m ← Rd.nat; let nz ← Rd.bool; let s ← Rd.list R.tprof; let b ← Rd.list R.tprof
                     pure (m, nz, s, b)) ts with
    | none => "bad-op"
    | some (m, nz, s, b) =>
      match mode? m with
      | none => "bad-op"
      | some md =>
        if !((s ++ b).all (fun p => wfB p.cols.length p.samples)) then "bad-op" else
        match fetchPinned md nz s b with
        | .ok r => "ok " ++ Wr.render (W.tprof r ++ Wr.bool (fetchTie nz s b))
        | .err _ => "err"
        | .panic _ => "panic"),
  ("c07.scaleneg", fun ts =>
    match Rd.run R.prof ts with
    | none => "bad-op"
    | some p => "ok " ++ Wr.render (W.prof (scaleNeg1 p))),
  ("c07.normalize", fun ts =>
    match Rd.run (do let n ← Rd.nat; let p ← R.prof; let pb ← R.prof; pure (n, p, pb)) ts with
    | none => "bad-op"
    | some (n, p, pb) =>
      if !(wfB n p && wfB n pb) then "bad-op" else
      match normalize n p pb with
      | .ok q => "ok " ++ Wr.render (W.prof q ++ Wr.bool (anyNearTie (normRatios n p pb) p))
      | .err _ => "err"
      | .panic _ => "panic"),
  ("c07.compat", fun ts =>
    match Rd.run (Rd.list R.tprof) ts with
    | none => "bad-op"
    | some ps => out (Wr.list W.tprof) (compatibilize ps)),
  ("c07.scaleprofiles", fun ts =>
    match Rd.run (Rd.list R.tprof) ts with
    | none => "bad-op"
    | some ps => out (Wr.list W.tprof) (scaleProfiles ps)),
  ("c07.fetch", fun ts =>
    match Rd.run (do let m ← Rd.nat; let nz ← Rd.bool; let s ← Rd.list R.tprof; let b ← Rd.list R.tprof
                     pure (m, nz, s, b)) ts with
    | none => "bad-op"
    | some (m, nz, s, b) =>
      match mode? m with
      | none => "bad-op"
      | some md =>
        if !((s ++ b).all (fun p => wfB p.cols.length p.samples)) then "bad-op" else
        match fetch md nz s b with
        | .ok r => "ok " ++ Wr.render (W.tprof r ++ Wr.bool (fetchTie nz s b))
        | .err _ => "err"
        | .panic _ => "panic"),
  -- figures of a report: for nodes 0..k-1 flat and cum of column i, then the total
  ("c07.report", fun ts =>
    match Rd.run (do let i ← Rd.nat; let p ← R.prof; let tbl ← Rd.list (Rd.list Rd.nat); let k ← Rd.nat
                     pure (i, p, tbl, k)) ts with
    | none => "bad-op"
    | some (i, p, tbl, k) =>
      let nodesOf : Nat → List Nat := fun l => match tbl[l]? with | some ns => ns | none => []
      if p.any (fun s => s.1.frames.any (fun l => tbl.length ≤ l)) then "bad-op" else
      match figureO i (fun _ => true) p with
      | .ok _ =>
        let rows := (List.range k).flatMap (fun nd =>
          Wr.int (figure (col i) (flatPred nodesOf nd) p) ++ Wr.int (figure (col i) (cumPred nodesOf nd) p))
        "ok " ++ Wr.render (rows ++ Wr.int (diffBaseTotal (col i) p))
      | .err _ => "err"
      | .panic _ => "panic")
]
end Driver.C07
