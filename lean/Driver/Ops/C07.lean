import PprofVerif.Base.Tok
/- Driver operations for C07. -/
namespace Driver.C07
open PV

def ops : List (String × (List String → String)) := []
end Driver.C07
