import Driver.Ops.C01
import Driver.Ops.C02
import Driver.Ops.C03
import Driver.Ops.C04
import Driver.Ops.C05
import Driver.Ops.C06
import Driver.Ops.C07
import Driver.Ops.C08
import Driver.Ops.C09
import Driver.Ops.C10
import Driver.Ops.C11
import Driver.Ops.C12
import Driver.Ops.C13
import Driver.Ops.C14
import Driver.Ops.C15
import Driver.Ops.C16
import Driver.Ops.C17
import Driver.Ops.C18
import Driver.Ops.C19
import Driver.Ops.C20
/-
`pvdrv`: line-protocol driver for the executable model.  One request per line
(`<op> <tokens…>`), one reply line per request, flushed immediately.
Core Lean only, so it links as a `lean_exe`.
-/
open Driver

def allOps : List (String × (List String → String)) :=
  C01.ops ++ C02.ops ++ C03.ops ++ C04.ops ++ C05.ops ++ C06.ops ++ C07.ops ++ C08.ops ++
  C09.ops ++ C10.ops ++ C11.ops ++ C12.ops ++ C13.ops ++ C14.ops ++ C15.ops ++ C16.ops ++
  C17.ops ++ C18.ops ++ C19.ops ++ C20.ops

def step (line : String) : String :=
  match (line.trimAscii.toString.splitOn " ").filter (· ≠ "") with
  | [] => "bad-op"
  | op :: args =>
    match allOps.lookup op with
    | some f => f args
    | none => if op == "ping" then "pong" else "bad-op"

partial def loop (hin hout : IO.FS.Stream) : IO Unit := do
  let line ← hin.getLine
  if line.isEmpty then return ()
  hout.putStrLn (step line)
  hout.flush
  loop hin hout

def main : IO Unit := do loop (← IO.getStdin) (← IO.getStdout)
