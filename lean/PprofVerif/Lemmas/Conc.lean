import PprofVerif.Model.Conc
/-!
# C20 — helper lemmas about the interleaving semantics of `Model/Conc.lean`

Inversion of `step`, the mutual-exclusion invariant, the per-variable key lemma `exec_var`
(pending work of the current holder, then the sections entered later, in entry order), program
order per thread, progress and finiteness for single-lock programs, the `sync.Once` fold and the
invariant of concurrent exclusive creates.  Core Lean only.
-/
namespace PV.Conc
variable {σ : Type}

theorem step_cases {c : Config σ} {i : Nat} {c1 : Config σ} {ev : Option (Section σ)}
    (h : step c i = some (c1, ev)) :
    (∃ s rest, c.ts[i]? = some (.idle (s :: rest)) ∧ s.locks = [] ∧
        c1 = ⟨c.mem, c.ts.set i (.inside [] [] s.body rest)⟩ ∧ ev = some s) ∨
    (∃ s rest m need, c.ts[i]? = some (.idle (s :: rest)) ∧ s.locks = m :: need ∧ free c.ts m = true ∧
        c1 = ⟨c.mem, c.ts.set i (.inside [m] need s.body rest)⟩ ∧ ev = some s) ∨
    (∃ held m need todo rest, c.ts[i]? = some (.inside held (m :: need) todo rest) ∧ free c.ts m = true ∧
        c1 = ⟨c.mem, c.ts.set i (.inside (m :: held) need todo rest)⟩ ∧ ev = none) ∨
    (∃ held a todo rest, c.ts[i]? = some (.inside held [] (a :: todo) rest) ∧
        c1 = ⟨c.mem.set a.var (a.f (c.mem a.var)), c.ts.set i (.inside held [] todo rest)⟩ ∧ ev = none) ∨
    (∃ held rest, c.ts[i]? = some (.inside held [] [] rest) ∧
        c1 = ⟨c.mem, c.ts.set i (.idle rest)⟩ ∧ ev = none) := by
  unfold step at h
  split at h
  · cases h
  · cases h
  · rename_i s rest hts
    split at h
    · rename_i hl
      cases h
      exact Or.inl ⟨s, rest, hts, hl, rfl, rfl⟩
    · rename_i m need hl
      split at h
      · rename_i hf
        cases h
        exact Or.inr (Or.inl ⟨s, rest, m, need, hts, hl, hf, rfl, rfl⟩)
      · cases h
  · rename_i held m need todo rest hts
    split at h
    · rename_i hf
      cases h
      exact Or.inr (Or.inr (Or.inl ⟨held, m, need, todo, rest, hts, hf, rfl, rfl⟩))
    · cases h
  · rename_i held a todo rest hts
    cases h
    exact Or.inr (Or.inr (Or.inr (Or.inl ⟨held, a, todo, rest, hts, rfl, rfl⟩)))
  · rename_i held rest hts
    cases h
    exact Or.inr (Or.inr (Or.inr (Or.inr ⟨held, rest, hts, rfl, rfl⟩)))

/-! ### mutual exclusion (every program) -/

def MutexInv (ts : List (TState σ)) : Prop :=
  ∀ (i j m : Nat) (ti tj : TState σ), i ≠ j → ts[i]? = some ti → ts[j]? = some tj → ti.holds m = true → tj.holds m = true → False

theorem free_getElem {ts : List (TState σ)} {m : Nat} (hf : free ts m = true) {j : Nat} {t : TState σ}
    (h : ts[j]? = some t) : t.holds m = false := by
  unfold free at hf
  rw [List.all_eq_true] at hf
  have := hf t (List.mem_of_getElem? h)
  simpa using this

theorem getElem?_set_ne' {ts : List (TState σ)} {i j : Nat} {t : TState σ} (h : i ≠ j) :
    (ts.set i t)[j]? = ts[j]? := by
  rw [List.getElem?_set]; simp [h]

theorem getElem?_set_self' {ts : List (TState σ)} {i : Nat} {t t0 : TState σ} (h : ts[i]? = some t0) :
    (ts.set i t)[i]? = some t := by
  have hlt : i < ts.length := by
    rcases Nat.lt_or_ge i ts.length with h' | h'
    · exact h'
    · rw [List.getElem?_eq_none h'] at h; cases h
  rw [List.getElem?_set]; simp [hlt]

/-- replacing thread `i` by a state that holds only what it held before, or mutexes that were free -/
theorem mutexInv_set {ts : List (TState σ)} {i : Nat} {t t' : TState σ} (hinv : MutexInv ts)
    (hi : ts[i]? = some t) (hh : ∀ m, t'.holds m = true → t.holds m = true ∨ free ts m = true) :
    MutexInv (ts.set i t') := by
  unfold MutexInv at hinv ⊢
  intro a b m ta tb hab ha hb hta htb
  by_cases hai : a = i
  · subst hai
    have hbi : a ≠ b := hab
    rw [getElem?_set_self' hi] at ha
    rw [getElem?_set_ne' hbi] at hb
    cases ha
    rcases hh m hta with h1 | h1
    · exact hinv a b m t tb hab hi hb h1 htb
    · have := free_getElem h1 hb
      rw [this] at htb; cases htb
  · by_cases hbi : b = i
    · subst hbi
      rw [getElem?_set_self' hi] at hb
      rw [getElem?_set_ne' (Ne.symm hai)] at ha
      cases hb
      rcases hh m htb with h1 | h1
      · exact hinv a b m ta t hab ha hi hta h1
      · have := free_getElem h1 ha
        rw [this] at hta; cases hta
    · rw [getElem?_set_ne' (Ne.symm hai)] at ha
      rw [getElem?_set_ne' (Ne.symm hbi)] at hb
      exact hinv a b m ta tb hab ha hb hta htb

theorem holds_cons {held need : List Nat} {todo : List (Action σ)} {rest : List (Section σ)} {m k : Nat}
    (h : (TState.inside (m :: held) need todo rest).holds k = true) :
    k = m ∨ (TState.inside held need todo rest).holds k = true := by
  simp [TState.holds] at h ⊢
  rcases h with h | h
  · exact Or.inl h
  · exact Or.inr h

theorem mutexInv_step {c c1 : Config σ} {i : Nat} {ev : Option (Section σ)} (hinv : MutexInv c.ts)
    (h : step c i = some (c1, ev)) : MutexInv c1.ts := by
  rcases step_cases h with ⟨s, rest, hts, _, rfl, _⟩ | ⟨s, rest, m, need, hts, _, hf, rfl, _⟩ |
      ⟨held, m, need, todo, rest, hts, hf, rfl, _⟩ | ⟨held, a, todo, rest, hts, rfl, _⟩ | ⟨held, rest, hts, rfl, _⟩
  · exact mutexInv_set hinv hts (fun m hm => by simp [TState.holds] at hm)
  · refine mutexInv_set hinv hts (fun k hk => ?_)
    simp [TState.holds] at hk
    subst hk; exact Or.inr hf
  · refine mutexInv_set hinv hts (fun k hk => ?_)
    rcases holds_cons hk with h1 | h1
    · subst h1; exact Or.inr hf
    · exact Or.inl (by simpa [TState.holds] using h1)
  · exact mutexInv_set hinv hts (fun k hk => Or.inl (by simpa [TState.holds] using hk))
  · exact mutexInv_set hinv hts (fun k hk => by simp [TState.holds] at hk)

theorem mutexInv_initial (prog : List (Thread σ)) (mem : Mem σ) : MutexInv (initial prog mem).ts := by
  unfold MutexInv
  intro i j m ti tj _ hi _ hti _
  simp [initial] at hi
  rcases hi with ⟨t, _, rfl⟩
  simp [TState.holds] at hti

theorem mutexInv_exec {c c' : Config σ} {sched : List Nat} {log : List (Nat × Section σ)}
    (hinv : MutexInv c.ts) (h : exec c sched = some (c', log)) : MutexInv c'.ts := by
  induction sched generalizing c log with
  | nil => simp [exec] at h; rcases h with ⟨rfl, _⟩; exact hinv
  | cons i is ih =>
    unfold exec at h
    split at h
    · cases h
    · rename_i c1 ev hs
      split at h
      · cases h
      · rename_i c2 log1 he
        cases h
        exact ih (mutexInv_step hinv hs) he

/-! ### per-variable view -/

/-- the effect of a list of actions on variable `v` -/
def actsOn (v : Nat) (l : List (Action σ)) (x : σ) : σ :=
  l.foldl (fun x a => if a.var = v then a.f x else x) x

@[simp] theorem actsOn_nil (v : Nat) (x : σ) : actsOn v ([] : List (Action σ)) x = x := rfl

theorem actsOn_cons (v : Nat) (a : Action σ) (l : List (Action σ)) (x : σ) :
    actsOn v (a :: l) x = actsOn v l (if a.var = v then a.f x else x) := rfl

theorem actsOn_silent {v : Nat} {l : List (Action σ)} (h : ∀ a ∈ l, a.var ≠ v) (x : σ) : actsOn v l x = x := by
  induction l generalizing x with
  | nil => rfl
  | cons a l ih =>
    rw [actsOn_cons]
    have : a.var ≠ v := h a (by simp)
    simp only [this, if_false]
    exact ih (fun b hb => h b (by simp [hb])) x

theorem runBody_apply (body : List (Action σ)) (mem : Mem σ) (v : Nat) :
    runBody body mem v = actsOn v body (mem v) := by
  induction body generalizing mem with
  | nil => rfl
  | cons a l ih =>
    show runBody l (mem.set a.var (a.f (mem a.var))) v = _
    rw [ih, actsOn_cons]
    congr 1
    unfold Mem.set
    by_cases h : a.var = v
    · subst h; simp
    · have : ¬ v = a.var := fun e => h e.symm
      simp [h, this]

theorem runSerial_apply (secs : List (Section σ)) (mem : Mem σ) (v : Nat) :
    runSerial secs mem v = secs.foldl (fun x s => actsOn v s.body x) (mem v) := by
  induction secs generalizing mem with
  | nil => rfl
  | cons s l ih =>
    show runSerial l (runBody s.body mem) v = _
    rw [ih, runBody_apply]; rfl

def todoOf : TState σ → List (Action σ)
  | .idle _ => []
  | .inside _ _ todo _ => todo

def restOf : TState σ → List (Section σ)
  | .idle rest => rest
  | .inside _ _ _ rest => rest

/-- the pending actions of all threads that are inside a section, applied in thread order -/
def pendAll (v : Nat) (ts : List (TState σ)) (x : σ) : σ :=
  ts.foldl (fun x t => actsOn v (todoOf t) x) x

def Silent (v : Nat) (t : TState σ) : Prop := ∀ x, actsOn v (todoOf t) x = x

theorem pendAll_cons (v : Nat) (t : TState σ) (ts : List (TState σ)) (x : σ) :
    pendAll v (t :: ts) x = pendAll v ts (actsOn v (todoOf t) x) := rfl

theorem pendAll_silent {v : Nat} {ts : List (TState σ)} (h : ∀ t ∈ ts, Silent v t) (x : σ) :
    pendAll v ts x = x := by
  induction ts generalizing x with
  | nil => rfl
  | cons t ts ih =>
    rw [pendAll_cons, h t (by simp) x]
    exact ih (fun u hu => h u (by simp [hu])) x

theorem pendAll_one {v : Nat} {ts : List (TState σ)} {i : Nat} {t : TState σ} (hi : ts[i]? = some t)
    (h : ∀ j tj, ts[j]? = some tj → j ≠ i → Silent v tj) (x : σ) :
    pendAll v ts x = actsOn v (todoOf t) x := by
  induction ts generalizing i x with
  | nil => simp at hi
  | cons t0 ts ih =>
    rw [pendAll_cons]
    cases i with
    | zero =>
      simp at hi; subst hi
      apply pendAll_silent
      intro u hu
      rcases List.getElem?_of_mem hu with ⟨k, hk⟩
      exact h (k + 1) u (by simpa using hk) (by omega)
    | succ k =>
      have h0 : Silent v t0 := h 0 t0 (by simp) (by omega)
      rw [h0 x]
      apply ih (i := k) (by simpa using hi)
      intro j tj hj hne
      exact h (j + 1) tj (by simpa using hj) (by omega)

theorem pendAll_set_same {v : Nat} {ts : List (TState σ)} {i : Nat} {t t' : TState σ} (hi : ts[i]? = some t)
    (h : ∀ x, actsOn v (todoOf t') x = actsOn v (todoOf t) x) (x : σ) :
    pendAll v (ts.set i t') x = pendAll v ts x := by
  induction ts generalizing i x with
  | nil => simp at hi
  | cons t0 ts ih =>
    cases i with
    | zero =>
      simp at hi; subst hi
      simp only [List.set_cons_zero, pendAll_cons, h]
    | succ k =>
      simp only [List.set_cons_succ, pendAll_cons]
      exact ih (by simpa using hi) _

/-! ### the discipline as an invariant of configurations -/

def GoodSec (L : Nat → Nat) (s : Section σ) : Prop := ∃ m, s.locks = [m] ∧ ∀ a ∈ s.body, L a.var = m

def GoodT (L : Nat → Nat) : TState σ → Prop
  | .idle rest => ∀ s ∈ rest, GoodSec L s
  | .inside held need todo rest =>
    ∃ m, held = [m] ∧ need = [] ∧ (∀ a ∈ todo, L a.var = m) ∧ ∀ s ∈ rest, GoodSec L s

def GoodCfg (L : Nat → Nat) (c : Config σ) : Prop :=
  (∀ (i : Nat) (t : TState σ), c.ts[i]? = some t → GoodT L t) ∧ MutexInv c.ts

theorem goodT_silent {L : Nat → Nat} {t : TState σ} {v : Nat} (hg : GoodT L t) (hh : t.holds (L v) = false) :
    Silent v t := by
  intro x
  cases t with
  | idle rest => rfl
  | inside held need todo rest =>
    rcases hg with ⟨m, rfl, rfl, hb, _⟩
    apply actsOn_silent
    intro a ha hav
    have := hb a ha
    subst hav
    simp [TState.holds] at hh
    first | exact hh this | exact hh this.symm

theorem good_set {L : Nat → Nat} {c : Config σ} {i : Nat} {t t' : TState σ}
    (hg : ∀ (j : Nat) (tj : TState σ), c.ts[j]? = some tj → GoodT L tj) (hi : c.ts[i]? = some t) (ht' : GoodT L t') :
    ∀ (j : Nat) (tj : TState σ), (c.ts.set i t')[j]? = some tj → GoodT L tj := by
  intro j tj hj
  by_cases hji : i = j
  · subst hji
    rw [getElem?_set_self' hi] at hj; cases hj; exact ht'
  · rw [getElem?_set_ne' hji] at hj; exact hg j tj hj

theorem goodCfg_step {L : Nat → Nat} {c c1 : Config σ} {i : Nat} {ev : Option (Section σ)}
    (hg : GoodCfg L c) (h : step c i = some (c1, ev)) : GoodCfg L c1 := by
  refine ⟨?_, mutexInv_step hg.2 h⟩
  rcases step_cases h with ⟨s, rest, hts, hl, rfl, _⟩ | ⟨s, rest, m, need, hts, hl, hf, rfl, _⟩ |
      ⟨held, m, need, todo, rest, hts, hf, rfl, _⟩ | ⟨held, a, todo, rest, hts, rfl, _⟩ | ⟨held, rest, hts, rfl, _⟩
  · have hgt := hg.1 i _ hts
    rcases hgt s (by simp) with ⟨m, hm, _⟩
    rw [hl] at hm; cases hm
  · have hgt := hg.1 i _ hts
    rcases hgt s (by simp) with ⟨m', hm, hb⟩
    rw [hl] at hm
    cases hm
    exact good_set hg.1 hts ⟨m, rfl, rfl, hb, fun s' hs' => hgt s' (by simp [hs'])⟩
  · rcases hg.1 i _ hts with ⟨_, _, hn, _⟩
    cases hn
  · rcases hg.1 i _ hts with ⟨m, hh, hn, hb, hr⟩
    exact good_set hg.1 hts ⟨m, hh, rfl, fun b hb' => hb b (by simp [hb']), hr⟩
  · rcases hg.1 i _ hts with ⟨m, hh, hn, hb, hr⟩
    exact good_set hg.1 hts hr

/-- **Key lemma.**  From any configuration that respects the discipline, a schedule that runs to
termination leaves in every variable `v` the value obtained by first finishing the section that
currently holds `L v` (if any) and then running the sections entered later, in the order in which
they were entered. -/
theorem exec_var {L : Nat → Nat} {sched : List Nat} {c c' : Config σ} {log : List (Nat × Section σ)}
    (hg : GoodCfg L c) (h : exec c sched = some (c', log)) (hterm : c'.terminated = true) (v : Nat) :
    c'.mem v = log.foldl (fun x e => actsOn v e.2.body x) (pendAll v c.ts (c.mem v)) := by
  induction sched generalizing c log with
  | nil =>
    simp [exec] at h
    rcases h with ⟨rfl, rfl⟩
    simp only [List.foldl_nil]
    rw [pendAll_silent]
    intro t ht x
    unfold Config.terminated at hterm
    rw [List.all_eq_true] at hterm
    have := hterm t ht
    cases t with
    | idle rest => rfl
    | inside _ _ _ _ => simp [TState.finished] at this
  | cons i is ih =>
    unfold exec at h
    split at h
    · cases h
    · rename_i c1 ev hs
      split at h
      · cases h
      · rename_i c2 log1 he
        cases h
        have ih' := ih (goodCfg_step hg hs) he
        rw [ih']
        -- it remains to relate the pending work before and after the step
        rcases step_cases hs with ⟨s, rest, hts, hl, rfl, rfl⟩ | ⟨s, rest, m, need, hts, hl, hf, rfl, rfl⟩ |
            ⟨held, m, need, todo, rest, hts, hf, rfl, rfl⟩ | ⟨held, a, todo, rest, hts, rfl, rfl⟩ |
            ⟨held, rest, hts, rfl, rfl⟩
        · have hgt := hg.1 i _ hts
          rcases hgt s (by simp) with ⟨m, hm, _⟩
          rw [hl] at hm; cases hm
        · -- entering section `s` on mutex `m`
          have hgt := hg.1 i _ hts
          rcases hgt s (by simp) with ⟨m', hm, hb⟩
          rw [hl] at hm; cases hm
          simp only [List.foldl_cons]
          congr 1
          by_cases hv : L v = m
          · -- `m` was free: nobody has pending work on `v`
            have hsil : ∀ j tj, c.ts[j]? = some tj → Silent v tj := fun j tj hj =>
              goodT_silent (hg.1 j tj hj) (by rw [hv]; exact free_getElem hf hj)
            have e1 : pendAll v c.ts (c.mem v) = c.mem v := pendAll_silent (fun t ht => by
              rcases List.getElem?_of_mem ht with ⟨k, hk⟩; exact hsil k t hk) _
            have e2 : pendAll v (c.ts.set i (.inside [m] [] s.body rest)) (c.mem v) = actsOn v s.body (c.mem v) :=
              pendAll_one (getElem?_set_self' hts) (fun j tj hj hne => by
                rw [getElem?_set_ne' (Ne.symm hne)] at hj; exact hsil j tj hj) _
            show pendAll v (c.ts.set i _) (c.mem v) = actsOn v s.body (pendAll v c.ts (c.mem v))
            rw [e1, e2]
          · -- the section does not touch `v`
            have hs0 : ∀ x, actsOn v s.body x = x := fun x =>
              actsOn_silent (fun a ha hav => hv (by rw [← hav]; exact hb a ha)) x
            rw [hs0]
            exact pendAll_set_same hts (fun x => by simp [todoOf, hs0]) _
        · rcases hg.1 i _ hts with ⟨_, _, hn, _⟩
          cases hn
        · -- one action of the holder of `m`
          rcases hg.1 i _ hts with ⟨m, hh, _, hb, _⟩
          subst hh
          congr 1
          by_cases hv : a.var = v
          · have hLv : L v = m := by rw [← hv]; exact hb a (by simp)
            have hsil : ∀ j tj, c.ts[j]? = some tj → j ≠ i → Silent v tj := fun j tj hj hne =>
              goodT_silent (hg.1 j tj hj) (by
                cases hh : tj.holds (L v) with
                | false => rfl
                | true =>
                  exfalso
                  exact hg.2 j i (L v) tj _ hne hj hts hh (by simp [TState.holds, hLv]))
            have e1 : pendAll v c.ts (c.mem v) = actsOn v (a :: todo) (c.mem v) := pendAll_one hts hsil _
            have e2 : ∀ y, pendAll v (c.ts.set i (.inside [m] [] todo rest)) y = actsOn v todo y := fun y =>
              pendAll_one (getElem?_set_self' hts) (fun j tj hj hne => by
                rw [getElem?_set_ne' (Ne.symm hne)] at hj; exact hsil j tj hj hne) _
            show pendAll v (c.ts.set i _) (Mem.set c.mem a.var (a.f (c.mem a.var)) v) = pendAll v c.ts (c.mem v)
            rw [e1, e2, actsOn_cons]
            simp [hv, Mem.set]
          · have hmem : Mem.set c.mem a.var (a.f (c.mem a.var)) v = c.mem v := by
              have : ¬ v = a.var := fun e => hv e.symm
              simp [Mem.set, this]
            show pendAll v (c.ts.set i _) (Mem.set c.mem a.var (a.f (c.mem a.var)) v) = pendAll v c.ts (c.mem v)
            rw [hmem]
            exact pendAll_set_same hts (fun x => by simp [todoOf, actsOn_cons, hv]) _
        · -- leaving the section
          show List.foldl _ (pendAll v (c.ts.set i _) (c.mem v)) log1 = List.foldl _ (pendAll v c.ts (c.mem v)) log1
          rw [pendAll_set_same hts (fun x => by simp [todoOf]) _]

/-! ### program order per thread -/

theorem sectionsOf_cons_self (i : Nat) (s : Section σ) (log : List (Nat × Section σ)) :
    sectionsOf ((i, s) :: log) i = s :: sectionsOf log i := by
  simp [sectionsOf]

theorem sectionsOf_cons_ne {i k : Nat} (h : k ≠ i) (s : Section σ) (log : List (Nat × Section σ)) :
    sectionsOf ((k, s) :: log) i = sectionsOf log i := by
  simp [sectionsOf, h]

/-- what one step does to the remaining sections of every thread -/
theorem step_rest {c c1 : Config σ} {k : Nat} {ev : Option (Section σ)} (h : step c k = some (c1, ev))
    {i : Nat} {t : TState σ} (hi : c.ts[i]? = some t) :
    ∃ t1, c1.ts[i]? = some t1 ∧
      restOf t = (match ev with
                  | some s => if k = i then [s] else []
                  | none => []) ++ restOf t1 := by
  rcases step_cases h with ⟨s, rest, hts, _, rfl, rfl⟩ | ⟨s, rest, m, need, hts, _, _, rfl, rfl⟩ |
      ⟨held, m, need, todo, rest, hts, _, rfl, rfl⟩ | ⟨held, a, todo, rest, hts, rfl, rfl⟩ | ⟨held, rest, hts, rfl, rfl⟩
  all_goals
    by_cases hk : k = i
    · subst hk
      rw [hts] at hi; cases hi
      exact ⟨_, getElem?_set_self' hts, by simp [restOf]⟩
    · exact ⟨t, by rw [getElem?_set_ne' hk]; exact hi, by simp [hk]⟩

theorem exec_rest {sched : List Nat} {c c' : Config σ} {log : List (Nat × Section σ)}
    (h : exec c sched = some (c', log)) {i : Nat} {t : TState σ} (hi : c.ts[i]? = some t) :
    ∃ t', c'.ts[i]? = some t' ∧ restOf t = sectionsOf log i ++ restOf t' := by
  induction sched generalizing c log t with
  | nil =>
    simp [exec] at h
    rcases h with ⟨rfl, rfl⟩
    exact ⟨t, hi, by simp [sectionsOf]⟩
  | cons k is ih =>
    unfold exec at h
    split at h
    · cases h
    · rename_i c1 ev hs
      split at h
      · cases h
      · rename_i c2 log1 he
        cases h
        rcases step_rest hs hi with ⟨t1, h1, hr⟩
        rcases ih he h1 with ⟨t', h2, hr'⟩
        refine ⟨t', h2, ?_⟩
        rw [hr, hr']
        cases ev with
        | none => simp
        | some s =>
          by_cases hk : k = i
          · subst hk; simp [sectionsOf_cons_self]
          · simp [hk, sectionsOf_cons_ne hk]

theorem finished_rest {t : TState σ} (h : t.finished = true) : restOf t = [] := by
  cases t with
  | idle rest => cases rest with
    | nil => rfl
    | cons _ _ => simp [TState.finished] at h
  | inside _ _ _ _ => simp [TState.finished] at h

theorem terminated_getElem {c : Config σ} (h : c.terminated = true) {i : Nat} {t : TState σ}
    (hi : c.ts[i]? = some t) : t.finished = true := by
  unfold Config.terminated at h
  rw [List.all_eq_true] at h
  exact h t (List.mem_of_getElem? hi)

/-- every logged section was, at the start, among the remaining sections of its thread -/
theorem exec_log_mem {sched : List Nat} {c c' : Config σ} {log : List (Nat × Section σ)}
    (h : exec c sched = some (c', log)) : ∀ e ∈ log, ∃ t, c.ts[e.1]? = some t ∧ e.2 ∈ restOf t := by
  induction sched generalizing c log with
  | nil =>
    simp [exec] at h
    rcases h with ⟨rfl, rfl⟩
    intro e he; cases he
  | cons k is ih =>
    unfold exec at h
    split at h
    · cases h
    · rename_i c1 ev hs
      split at h
      · cases h
      · rename_i c2 log1 he
        cases h
        have tailCase : ∀ e ∈ log1, ∃ t, c.ts[e.1]? = some t ∧ e.2 ∈ restOf t := by
          intro e hel
          rcases ih he e hel with ⟨t1, h1, hm⟩
          -- thread e.1 exists in c as well
          have hlen : c1.ts.length = c.ts.length := by
            rcases step_cases hs with ⟨_, _, _, _, rfl, _⟩ | ⟨_, _, _, _, _, _, _, rfl, _⟩ |
              ⟨_, _, _, _, _, _, _, rfl, _⟩ | ⟨_, _, _, _, _, rfl, _⟩ | ⟨_, _, _, rfl, _⟩ <;> simp
          have hlt : e.1 < c.ts.length := by
            rcases Nat.lt_or_ge e.1 c1.ts.length with h' | h'
            · omega
            · rw [List.getElem?_eq_none h'] at h1; cases h1
          have hex : c.ts[e.1]? = some c.ts[e.1] := List.getElem?_eq_getElem hlt
          rcases step_rest hs hex with ⟨t1', h1', hr⟩
          rw [h1] at h1'; cases h1'
          exact ⟨_, hex, by rw [hr]; simp [hm]⟩
        cases ev with
        | none => exact tailCase
        | some s =>
          intro e hel
          simp only [List.mem_cons] at hel
          rcases hel with rfl | hel
          · rcases step_cases hs with ⟨s', rest, hts, _, _, hev⟩ | ⟨s', rest, m, need, hts, _, _, _, hev⟩ |
              ⟨_, _, _, _, _, _, _, _, hev⟩ | ⟨_, _, _, _, _, _, hev⟩ | ⟨_, _, _, _, hev⟩
            · cases hev; exact ⟨_, hts, by simp [restOf]⟩
            · cases hev; exact ⟨_, hts, by simp [restOf]⟩
            · cases hev
            · cases hev
            · cases hev
          · exact tailCase e hel

/-! ### progress for programs that take one lock at a time -/

def SingleT : TState σ → Prop
  | .idle rest => ∀ s ∈ rest, s.locks.length ≤ 1
  | .inside _ need _ rest => need = [] ∧ ∀ s ∈ rest, s.locks.length ≤ 1

def SingleCfg (c : Config σ) : Prop := ∀ (i : Nat) (t : TState σ), c.ts[i]? = some t → SingleT t

theorem single_set {c : Config σ} {i : Nat} {t t' : TState σ} (hg : SingleCfg c) (hi : c.ts[i]? = some t)
    (ht' : SingleT t') : ∀ (j : Nat) (tj : TState σ), (c.ts.set i t')[j]? = some tj → SingleT tj := by
  intro j tj hj
  by_cases hji : i = j
  · subst hji
    rw [getElem?_set_self' hi] at hj; cases hj; exact ht'
  · rw [getElem?_set_ne' hji] at hj; exact hg j tj hj

theorem singleCfg_step {c c1 : Config σ} {i : Nat} {ev : Option (Section σ)} (hg : SingleCfg c)
    (h : step c i = some (c1, ev)) : SingleCfg c1 := by
  rcases step_cases h with ⟨s, rest, hts, hl, rfl, _⟩ | ⟨s, rest, m, need, hts, hl, hf, rfl, _⟩ |
      ⟨held, m, need, todo, rest, hts, hf, rfl, _⟩ | ⟨held, a, todo, rest, hts, rfl, _⟩ | ⟨held, rest, hts, rfl, _⟩
  · have := hg i _ hts
    exact single_set hg hts ⟨rfl, fun s' hs' => this s' (by simp [hs'])⟩
  · have hgt := hg i _ hts
    have h1 := hgt s (by simp)
    rw [hl] at h1
    have : need = [] := by
      cases need with
      | nil => rfl
      | cons _ _ => simp at h1
    subst this
    exact single_set hg hts ⟨rfl, fun s' hs' => hgt s' (by simp [hs'])⟩
  · have := (hg i _ hts).1
    cases this
  · have := hg i _ hts
    exact single_set hg hts ⟨rfl, this.2⟩
  · have := hg i _ hts
    exact single_set hg hts this.2

theorem singleCfg_exec {sched : List Nat} {c c' : Config σ} {log : List (Nat × Section σ)}
    (hg : SingleCfg c) (h : exec c sched = some (c', log)) : SingleCfg c' := by
  induction sched generalizing c log with
  | nil => simp [exec] at h; rcases h with ⟨rfl, _⟩; exact hg
  | cons i is ih =>
    unfold exec at h
    split at h
    · cases h
    · rename_i c1 ev hs
      split at h
      · cases h
      · rename_i c2 log1 he
        cases h
        exact ih (singleCfg_step hg hs) he

theorem canStep_of {c : Config σ} {i : Nat} {t : TState σ} (hi : c.ts[i]? = some t)
    (hs : (step c i).isSome = true) : canStep c = true := by
  unfold canStep
  rw [List.any_eq_true]
  refine ⟨i, ?_, hs⟩
  rw [List.mem_range]
  rcases Nat.lt_or_ge i c.ts.length with h' | h'
  · exact h'
  · rw [List.getElem?_eq_none h'] at hi; cases hi

/-- a configuration in which nobody waits for a second lock is never stuck -/
theorem progress {c : Config σ} (hg : SingleCfg c) (hnt : c.terminated = false) : canStep c = true := by
  by_cases hin : ∃ (i : Nat) (held need : List Nat) (todo : List (Action σ)) (rest : List (Section σ)),
      c.ts[i]? = some (.inside held need todo rest)
  · -- a thread inside a section can always go on
    rcases hin with ⟨i, held, need, todo, rest, hi⟩
    have := (hg i _ hi).1
    subst this
    apply canStep_of hi
    cases todo with
    | nil => simp [step, hi]
    | cons a todo => simp [step, hi]
  · -- everybody is between sections, so every mutex is free
    have hidle : ∀ (j : Nat) (tj : TState σ), c.ts[j]? = some tj → ∃ rest, tj = .idle rest := by
      intro j tj hj
      cases tj with
      | idle rest => exact ⟨rest, rfl⟩
      | inside held need todo rest => exact absurd ⟨j, held, need, todo, rest, hj⟩ hin
    have hfree : ∀ m, free c.ts m = true := by
      intro m
      unfold free
      rw [List.all_eq_true]
      intro t ht
      rcases List.getElem?_of_mem ht with ⟨k, hk⟩
      rcases hidle k t hk with ⟨rest, rfl⟩
      rfl
    -- some thread still has a section to run
    have : ∃ t ∈ c.ts, t.finished = false := by
      unfold Config.terminated at hnt
      have := List.all_eq_false.mp hnt
      rcases this with ⟨t, ht, hf⟩
      exact ⟨t, ht, by simpa using hf⟩
    rcases this with ⟨t, ht, hf⟩
    rcases List.getElem?_of_mem ht with ⟨k, hk⟩
    rcases hidle k t hk with ⟨rest, rfl⟩
    cases rest with
    | nil => simp [TState.finished] at hf
    | cons s rest =>
      apply canStep_of hk
      cases hl : s.locks with
      | nil => simp [step, hk, hl]
      | cons m need => simp [step, hk, hl, hfree m]

/-! ### every execution is finite -/

def restSize (rest : List (Section σ)) : Nat := (rest.map stepsOf).sum

def tSize : TState σ → Nat
  | .idle rest => restSize rest
  | .inside _ need todo rest => need.length + todo.length + 1 + restSize rest

def cfgSize (ts : List (TState σ)) : Nat := (ts.map tSize).sum

theorem cfgSize_set {ts : List (TState σ)} {i : Nat} {t t' : TState σ} (hi : ts[i]? = some t) :
    cfgSize (ts.set i t') + tSize t = cfgSize ts + tSize t' := by
  induction ts generalizing i with
  | nil => simp at hi
  | cons t0 ts ih =>
    cases i with
    | zero =>
      simp at hi; subst hi
      simp [cfgSize]; omega
    | succ k =>
      have := ih (i := k) (by simpa using hi)
      simp [cfgSize] at this ⊢
      omega

theorem step_size {c c1 : Config σ} {i : Nat} {ev : Option (Section σ)} (h : step c i = some (c1, ev)) :
    cfgSize c1.ts + 1 = cfgSize c.ts := by
  rcases step_cases h with ⟨s, rest, hts, hl, rfl, _⟩ | ⟨s, rest, m, need, hts, hl, hf, rfl, _⟩ |
      ⟨held, m, need, todo, rest, hts, hf, rfl, _⟩ | ⟨held, a, todo, rest, hts, rfl, _⟩ | ⟨held, rest, hts, rfl, _⟩
  · have := cfgSize_set (t' := TState.inside [] [] s.body rest) hts
    simp [tSize, restSize, stepsOf, hl] at this ⊢; omega
  · have := cfgSize_set (t' := TState.inside [m] need s.body rest) hts
    simp [tSize, restSize, stepsOf, hl] at this ⊢; omega
  · have := cfgSize_set (t' := TState.inside (m :: held) need todo rest) hts
    simp [tSize, restSize] at this ⊢; omega
  · have := cfgSize_set (t' := TState.inside held [] todo rest) hts
    simp [tSize, restSize] at this ⊢; omega
  · have := cfgSize_set (t' := TState.idle rest) hts
    simp [tSize, restSize] at this ⊢; omega

theorem cfgSize_terminated {c : Config σ} (h : c.terminated = true) : cfgSize c.ts = 0 := by
  unfold Config.terminated at h
  rw [List.all_eq_true] at h
  unfold cfgSize
  generalize c.ts = ts at h
  induction ts with
  | nil => rfl
  | cons t ts ih =>
    have ht := h t (by simp)
    have : tSize t = 0 := by
      cases t with
      | idle rest =>
        cases rest with
        | nil => rfl
        | cons _ _ => simp [TState.finished] at ht
      | inside _ _ _ _ => simp [TState.finished] at ht
    simp [this]
    exact ih (fun u hu => h u (by simp [hu]))

theorem exec_length {sched : List Nat} {c c' : Config σ} {log : List (Nat × Section σ)}
    (h : exec c sched = some (c', log)) : sched.length + cfgSize c'.ts = cfgSize c.ts := by
  induction sched generalizing c log with
  | nil => simp [exec] at h; rcases h with ⟨rfl, _⟩; simp
  | cons i is ih =>
    unfold exec at h
    split at h
    · cases h
    · rename_i c1 ev hs
      split at h
      · cases h
      · rename_i c2 log1 he
        cases h
        have := ih he
        have := step_size hs
        simp; omega


/-! ### fork/join with one result slot per goroutine (fetch.go) -/

/-- every action a thread will still perform -/
def remaining : TState σ → List (Action σ)
  | .idle rest => rest.flatMap (·.body)
  | .inside _ _ todo rest => todo ++ rest.flatMap (·.body)

/-- thread `i` only ever touches variable `i` -/
def OwnSlot (ts : List (TState σ)) : Prop :=
  ∀ (i : Nat) (t : TState σ), ts[i]? = some t → ∀ a ∈ remaining t, a.var = i

theorem ownSlot_step {c c1 : Config σ} {k : Nat} {ev : Option (Section σ)} (ho : OwnSlot c.ts)
    (h : step c k = some (c1, ev)) : OwnSlot c1.ts := by
  have key : ∀ (t t' : TState σ), c.ts[k]? = some t → (∀ a ∈ remaining t', a ∈ remaining t) →
      OwnSlot (c.ts.set k t') := by
    intro t t' hk hsub i ti hi a ha
    by_cases hki : k = i
    · subst hki
      rw [getElem?_set_self' hk] at hi; cases hi
      exact ho k t hk a (hsub a ha)
    · rw [getElem?_set_ne' hki] at hi
      exact ho i ti hi a ha
  rcases step_cases h with ⟨s, rest, hts, _, rfl, _⟩ | ⟨s, rest, m, need, hts, _, _, rfl, _⟩ |
      ⟨held, m, need, todo, rest, hts, _, rfl, _⟩ | ⟨held, a, todo, rest, hts, rfl, _⟩ | ⟨held, rest, hts, rfl, _⟩
  · exact key _ _ hts (fun a ha => by simpa [remaining] using ha)
  · exact key _ _ hts (fun a ha => by simpa [remaining] using ha)
  · exact key _ _ hts (fun a ha => by simpa [remaining] using ha)
  · exact key _ _ hts (fun b hb => by
      simp [remaining] at hb ⊢
      rcases hb with hb | hb
      · exact Or.inr (Or.inl hb)
      · exact Or.inr (Or.inr hb))
  · exact key _ _ hts (fun a ha => by simpa [remaining] using ha)

theorem actsOn_append (v : Nat) (l1 l2 : List (Action σ)) (x : σ) :
    actsOn v (l1 ++ l2) x = actsOn v l2 (actsOn v l1 x) := by
  simp [actsOn, List.foldl_append]

/-- the value slot `v` will have at the end: what thread `v` still has to do, applied to the
current value (`v` beyond the thread list: nobody touches it) -/
def slotFinal (c : Config σ) (v : Nat) : σ :=
  match c.ts[v]? with
  | some t => actsOn v (remaining t) (c.mem v)
  | none => c.mem v

theorem slotFinal_step {c c1 : Config σ} {k : Nat} {ev : Option (Section σ)} (ho : OwnSlot c.ts)
    (h : step c k = some (c1, ev)) (v : Nat) : slotFinal c1 v = slotFinal c v := by
  rcases step_cases h with ⟨s, rest, hts, _, rfl, _⟩ | ⟨s, rest, m, need, hts, _, _, rfl, _⟩ |
      ⟨held, m, need, todo, rest, hts, _, rfl, _⟩ | ⟨held, a, todo, rest, hts, rfl, _⟩ | ⟨held, rest, hts, rfl, _⟩
  case inr.inr.inr.inl =>
    -- an action of thread k on its own slot
    have hak : a.var = k := ho k _ hts a (by simp [remaining])
    unfold slotFinal
    by_cases hkv : k = v
    · subst hkv
      simp only [getElem?_set_self' hts, hts]
      simp [remaining, actsOn_cons, hak, Mem.set]
    · simp only [getElem?_set_ne' hkv]
      have : Mem.set c.mem a.var (a.f (c.mem a.var)) v = c.mem v := by
        have : ¬ v = a.var := fun e => hkv (by rw [e, hak])
        simp [Mem.set, this]
      simp [this]
  all_goals
    unfold slotFinal
    by_cases hkv : k = v
    · subst hkv
      simp only [getElem?_set_self' hts, hts]
      simp [remaining]
    · simp only [getElem?_set_ne' hkv]

theorem exec_slots {sched : List Nat} {c c' : Config σ} {log : List (Nat × Section σ)}
    (ho : OwnSlot c.ts) (h : exec c sched = some (c', log)) (hterm : c'.terminated = true) (v : Nat) :
    c'.mem v = slotFinal c v := by
  induction sched generalizing c log with
  | nil =>
    simp [exec] at h
    rcases h with ⟨rfl, rfl⟩
    unfold slotFinal
    cases ht : c.ts[v]? with
    | none => rfl
    | some t =>
      have := finished_rest (terminated_getElem hterm ht)
      cases t with
      | idle rest => simp [restOf] at this; subst this; simp [remaining]
      | inside _ _ _ _ => have := terminated_getElem hterm ht; simp [TState.finished] at this
  | cons i is ih =>
    unfold exec at h
    split at h
    · cases h
    · rename_i c1 ev hs
      split at h
      · cases h
      · rename_i c2 log1 he
        cases h
        rw [ih (ownSlot_step ho hs) he, slotFinal_step ho hs]


/-! ### progress for programs that acquire nested locks in rank order -/

def OrderedSec (rank : Nat → Nat) (s : Section σ) : Prop := s.locks.Pairwise fun a b => rank a < rank b

theorem actsOn_flatMap (v : Nat) (t : List (Section σ)) (x : σ) :
    actsOn v (t.flatMap (·.body)) x = t.foldl (fun x s => actsOn v s.body x) x := by
  induction t generalizing x with
  | nil => rfl
  | cons s t ih => simp only [List.flatMap_cons, actsOn_append, List.foldl_cons, ih]

def OrdT (rank : Nat → Nat) : TState σ → Prop
  | .idle rest => ∀ s ∈ rest, OrderedSec rank s
  | .inside held need _ rest =>
    (∀ h ∈ held, ∀ n ∈ need, rank h < rank n) ∧ (need.Pairwise fun a b => rank a < rank b) ∧
    ∀ s ∈ rest, OrderedSec rank s

def OrdCfg (rank : Nat → Nat) (c : Config σ) : Prop :=
  ∀ (i : Nat) (t : TState σ), c.ts[i]? = some t → OrdT rank t

theorem ord_set {rank : Nat → Nat} {c : Config σ} {i : Nat} {t t' : TState σ} (hg : OrdCfg rank c)
    (hi : c.ts[i]? = some t) (ht' : OrdT rank t') :
    ∀ (j : Nat) (tj : TState σ), (c.ts.set i t')[j]? = some tj → OrdT rank tj := by
  intro j tj hj
  by_cases hji : i = j
  · subst hji
    rw [getElem?_set_self' hi] at hj; cases hj; exact ht'
  · rw [getElem?_set_ne' hji] at hj; exact hg j tj hj

theorem ordCfg_step {rank : Nat → Nat} {c c1 : Config σ} {i : Nat} {ev : Option (Section σ)}
    (hg : OrdCfg rank c) (h : step c i = some (c1, ev)) : OrdCfg rank c1 := by
  rcases step_cases h with ⟨s, rest, hts, hl, rfl, _⟩ | ⟨s, rest, m, need, hts, hl, hf, rfl, _⟩ |
      ⟨held, m, need, todo, rest, hts, hf, rfl, _⟩ | ⟨held, a, todo, rest, hts, rfl, _⟩ | ⟨held, rest, hts, rfl, _⟩
  · have := hg i _ hts
    exact ord_set hg hts ⟨by simp, by simp, fun s' hs' => this s' (by simp [hs'])⟩
  · have hgt := hg i _ hts
    have h1 : OrderedSec rank s := hgt s (by simp)
    unfold OrderedSec at h1
    rw [hl, List.pairwise_cons] at h1
    refine ord_set hg hts ⟨?_, h1.2, fun s' hs' => hgt s' (by simp [hs'])⟩
    intro h hh n hn
    simp at hh; subst hh
    exact h1.1 n hn
  · rcases hg i _ hts with ⟨h1, h2, h3⟩
    rw [List.pairwise_cons] at h2
    refine ord_set hg hts ⟨?_, h2.2, h3⟩
    intro h hh n hn
    simp at hh
    rcases hh with rfl | hh
    · exact h2.1 n hn
    · exact h1 h hh n (by simp [hn])
  · rcases hg i _ hts with ⟨h1, h2, h3⟩
    exact ord_set hg hts ⟨h1, h2, h3⟩
  · rcases hg i _ hts with ⟨_, _, h3⟩
    exact ord_set hg hts h3

theorem ordCfg_exec {rank : Nat → Nat} {sched : List Nat} {c c' : Config σ} {log : List (Nat × Section σ)}
    (hg : OrdCfg rank c) (h : exec c sched = some (c', log)) : OrdCfg rank c' := by
  induction sched generalizing c log with
  | nil => simp [exec] at h; rcases h with ⟨rfl, _⟩; exact hg
  | cons i is ih =>
    unfold exec at h
    split at h
    · cases h
    · rename_i c1 ev hs
      split at h
      · cases h
      · rename_i c2 log1 he
        cases h
        exact ih (ordCfg_step hg hs) he

/-- rank of the mutex a thread is waiting for -/
def waitRank (rank : Nat → Nat) : TState σ → Nat
  | .inside _ (m :: _) _ _ => rank m
  | _ => 0

def rankBound (rank : Nat → Nat) (ts : List (TState σ)) : Nat := (ts.map (waitRank rank)).foldl max 0

theorem le_foldl_max (l : List Nat) (a x : Nat) (h : x ≤ a ∨ x ∈ l) : x ≤ l.foldl max a := by
  induction l generalizing a with
  | nil => simpa using h
  | cons b l ih =>
    simp only [List.foldl_cons]
    apply ih
    rcases h with h | h
    · exact Or.inl (Nat.le_trans h (Nat.le_max_left a b))
    · simp at h
      rcases h with rfl | h
      · exact Or.inl (Nat.le_max_right a x)
      · exact Or.inr h

theorem waitRank_le_bound {rank : Nat → Nat} {ts : List (TState σ)} {i : Nat} {t : TState σ}
    (hi : ts[i]? = some t) : waitRank rank t ≤ rankBound rank ts := by
  apply le_foldl_max
  exact Or.inr (List.mem_map.mpr ⟨t, List.mem_of_getElem? hi, rfl⟩)

/-- a thread inside a section can step, or the chain of holders it waits for ends in one that can -/
theorem chain_progress {rank : Nat → Nat} {c : Config σ} (hg : OrdCfg rank c) :
    ∀ (n i : Nat) (held need : List Nat) (todo : List (Action σ)) (rest : List (Section σ)),
      c.ts[i]? = some (.inside held need todo rest) →
      rankBound rank c.ts - waitRank rank (.inside held need todo rest : TState σ) ≤ n → canStep c = true := by
  intro n
  induction n with
  | zero =>
    intro i held need todo rest hi hn
    cases need with
    | nil =>
      apply canStep_of hi
      cases todo <;> simp [step, hi]
    | cons m need =>
      by_cases hf : free c.ts m = true
      · apply canStep_of hi; simp [step, hi, hf]
      · -- somebody holds m; that thread waits for a mutex of higher rank — impossible at the bound
        have hf' : free c.ts m = false := by simpa using hf
        unfold free at hf'
        rcases List.all_eq_false.mp hf' with ⟨tj, htj, hh⟩
        have hh : tj.holds m = true := by simpa using hh
        rcases List.getElem?_of_mem htj with ⟨j, hj⟩
        cases tj with
        | idle _ => simp [TState.holds] at hh
        | inside held' need' todo' rest' =>
          cases need' with
          | nil => apply canStep_of hj; cases todo' <;> simp [step, hj]
          | cons m' need'' =>
            have hlt : rank m < rank m' := by
              have := (hg j _ hj).1 m (by simpa [TState.holds] using hh) m' (by simp)
              exact this
            have hb := waitRank_le_bound (rank := rank) hj
            simp [waitRank] at hb hn
            omega
  | succ n ih =>
    intro i held need todo rest hi hn
    cases need with
    | nil =>
      apply canStep_of hi
      cases todo <;> simp [step, hi]
    | cons m need =>
      by_cases hf : free c.ts m = true
      · apply canStep_of hi; simp [step, hi, hf]
      · have hf' : free c.ts m = false := by simpa using hf
        unfold free at hf'
        rcases List.all_eq_false.mp hf' with ⟨tj, htj, hh⟩
        have hh : tj.holds m = true := by simpa using hh
        rcases List.getElem?_of_mem htj with ⟨j, hj⟩
        cases tj with
        | idle _ => simp [TState.holds] at hh
        | inside held' need' todo' rest' =>
          cases need' with
          | nil => apply canStep_of hj; cases todo' <;> simp [step, hj]
          | cons m' need'' =>
            have hlt : rank m < rank m' := by
              have := (hg j _ hj).1 m (by simpa [TState.holds] using hh) m' (by simp)
              exact this
            have hb := waitRank_le_bound (rank := rank) hj
            apply ih j held' (m' :: need'') todo' rest' hj
            simp [waitRank] at hb hn ⊢
            omega

theorem progress_ordered {rank : Nat → Nat} {c : Config σ} (hg : OrdCfg rank c) (hnt : c.terminated = false) :
    canStep c = true := by
  by_cases hin : ∃ (i : Nat) (held need : List Nat) (todo : List (Action σ)) (rest : List (Section σ)),
      c.ts[i]? = some (.inside held need todo rest)
  · rcases hin with ⟨i, held, need, todo, rest, hi⟩
    exact chain_progress hg _ i held need todo rest hi (Nat.le_refl _)
  · have hidle : ∀ (j : Nat) (tj : TState σ), c.ts[j]? = some tj → ∃ rest, tj = .idle rest := by
      intro j tj hj
      cases tj with
      | idle rest => exact ⟨rest, rfl⟩
      | inside held need todo rest => exact absurd ⟨j, held, need, todo, rest, hj⟩ hin
    have hfree : ∀ m, free c.ts m = true := by
      intro m
      unfold free
      rw [List.all_eq_true]
      intro t ht
      rcases List.getElem?_of_mem ht with ⟨k, hk⟩
      rcases hidle k t hk with ⟨rest, rfl⟩
      rfl
    have : ∃ t ∈ c.ts, t.finished = false := by
      unfold Config.terminated at hnt
      rcases List.all_eq_false.mp hnt with ⟨t, ht, hf⟩
      exact ⟨t, ht, by simpa using hf⟩
    rcases this with ⟨t, ht, hf⟩
    rcases List.getElem?_of_mem ht with ⟨k, hk⟩
    rcases hidle k t hk with ⟨rest, rfl⟩
    cases rest with
    | nil => simp [TState.finished] at hf
    | cons s rest =>
      apply canStep_of hk
      cases hl : s.locks with
      | nil => simp [step, hk, hl]
      | cons m need => simp [step, hk, hl, hfree m]

/-! ### sync.Once -/

theorem once_fold_done {τ : Type} (o : Nat) (secs : List (Section (Bool × τ)))
    (hs : ∀ s ∈ secs, ∃ f, s = onceSection o f) (x : Bool × τ) (hx : x.1 = true) :
    secs.foldl (fun x s => actsOn o s.body x) x = x := by
  induction secs generalizing x with
  | nil => rfl
  | cons s secs ih =>
    rcases hs s (by simp) with ⟨f, rfl⟩
    simp only [List.foldl_cons]
    have : actsOn o (onceSection o f).body x = x := by
      simp [onceSection, onceAction, actsOn, hx]
    rw [this]
    exact ih (fun s' hs' => hs s' (by simp [hs'])) x hx

theorem once_fold {τ : Type} (o : Nat) (f : τ → τ) (secs : List (Section (Bool × τ)))
    (hs : ∀ s ∈ secs, ∃ g, s = onceSection o g) (x0 : τ) :
    (onceSection o f :: secs).foldl (fun x s => actsOn o s.body x) (false, x0) = (true, f x0) := by
  simp only [List.foldl_cons]
  have : actsOn o (onceSection o f).body (false, x0) = (true, f x0) := by
    simp [onceSection, onceAction, actsOn]
  rw [this]
  exact once_fold_done o secs hs _ rfl

theorem onceProg_disciplined {τ : Type} (o : Nat) (inits : List (List (τ → τ))) :
    Disciplined (fun v => v) (onceProg o inits) := by
  intro t ht s hs
  simp [onceProg] at ht
  rcases ht with ⟨fs, _, rfl⟩
  simp at hs
  rcases hs with ⟨f, _, rfl⟩
  exact ⟨o, rfl, by simp [onceSection, onceAction]⟩

/-! ### exclusive create -/
namespace FS

/-- invariant of `k` concurrent newTempFile calls started on directory `d0` -/
structure Inv (limit : Nat) (tag : Nat → Nat) (d0 : Dir) (s : State) : Prop where
  /-- files that existed before are untouched -/
  keep : ∀ n c, d0 n = some c → s.dir n = some c
  /-- a returned name did not exist before and holds what its creator wrote -/
  got : ∀ (i n : Nat), s.cs[i]? = some (.got n) → d0 n = none ∧ s.dir n = some (tag i)
  /-- indices below the one being tried are taken -/
  trying : ∀ (i n : Nat), s.cs[i]? = some (.trying n) → 1 ≤ n ∧ ∀ k, 1 ≤ k → k < n → (s.dir k).isSome = true
  /-- a creator gives up only when every index below the limit is taken -/
  gaveUp : ∀ (i : Nat), s.cs[i]? = some .gaveUp → ∀ k, 1 ≤ k → k < limit → (s.dir k).isSome = true
  /-- two creators never return the same name -/
  distinct : ∀ (i j n : Nat), i ≠ j → s.cs[i]? = some (.got n) → s.cs[j]? = some (.got n) → False

theorem cs_set_ne {cs : List Creator} {i j : Nat} {x : Creator} (h : i ≠ j) : (cs.set i x)[j]? = cs[j]? := by
  rw [List.getElem?_set]; simp [h]

theorem cs_set_self {cs : List Creator} {i : Nat} {x x0 : Creator} (h : cs[i]? = some x0) :
    (cs.set i x)[i]? = some x := by
  have hlt : i < cs.length := by
    rcases Nat.lt_or_ge i cs.length with h' | h'
    · exact h'
    · rw [List.getElem?_eq_none h'] at h; cases h
  rw [List.getElem?_set]; simp [hlt]

theorem inv_start (limit : Nat) (tag : Nat → Nat) (d0 : Dir) (k : Nat) : Inv limit tag d0 (start d0 k) := by
  refine ⟨fun n c h => h, ?_, ?_, ?_, ?_⟩
  · intro i n h
    simp [start, List.getElem?_replicate] at h
  · intro i n h
    simp [start, List.getElem?_replicate] at h
    rcases h with ⟨_, rfl⟩
    exact ⟨Nat.le_refl 1, fun k h1 h2 => by omega⟩
  · intro i h
    simp [start, List.getElem?_replicate] at h
  · intro i j n _ h
    simp [start, List.getElem?_replicate] at h

theorem inv_step {limit : Nat} {tag : Nat → Nat} {d0 : Dir} {s s1 : State} {i : Nat}
    (hinv : Inv limit tag d0 s) (h : step true limit tag s i = some s1) : Inv limit tag d0 s1 := by
  unfold step at h
  split at h
  · rename_i n hi
    split at h
    · -- index limit reached
      rename_i hlim
      cases h
      refine ⟨hinv.keep, ?_, ?_, ?_, ?_⟩
      · intro j m hj
        by_cases hji : i = j
        · subst hji; rw [cs_set_self hi] at hj; cases hj
        · rw [cs_set_ne hji] at hj; exact hinv.got j m hj
      · intro j m hj
        by_cases hji : i = j
        · subst hji; rw [cs_set_self hi] at hj; cases hj
        · rw [cs_set_ne hji] at hj; exact hinv.trying j m hj
      · intro j hj k h1 h2
        by_cases hji : i = j
        · subst hji
          exact (hinv.trying i n hi).2 k h1 (by omega)
        · rw [cs_set_ne hji] at hj; exact hinv.gaveUp j hj k h1 h2
      · intro a b m hab ha hb
        by_cases hai : i = a
        · subst hai; rw [cs_set_self hi] at ha; cases ha
        · by_cases hbi : i = b
          · subst hbi; rw [cs_set_self hi] at hb; cases hb
          · rw [cs_set_ne hai] at ha; rw [cs_set_ne hbi] at hb
            exact hinv.distinct a b m hab ha hb
    · split at h
      · -- EEXIST: try the next index
        rename_i hlim hex
        cases h
        have hex' : (s.dir n).isSome = true := by simpa using hex
        refine ⟨hinv.keep, ?_, ?_, ?_, ?_⟩
        · intro j m hj
          by_cases hji : i = j
          · subst hji; rw [cs_set_self hi] at hj; cases hj
          · rw [cs_set_ne hji] at hj; exact hinv.got j m hj
        · intro j m hj
          by_cases hji : i = j
          · subst hji
            rw [cs_set_self hi] at hj; cases hj
            have := hinv.trying i n hi
            refine ⟨by omega, fun k h1 h2 => ?_⟩
            by_cases hkn : k = n
            · subst hkn; exact hex'
            · exact this.2 k h1 (by omega)
          · rw [cs_set_ne hji] at hj; exact hinv.trying j m hj
        · intro j hj
          by_cases hji : i = j
          · subst hji; rw [cs_set_self hi] at hj; cases hj
          · rw [cs_set_ne hji] at hj; exact hinv.gaveUp j hj
        · intro a b m hab ha hb
          by_cases hai : i = a
          · subst hai; rw [cs_set_self hi] at ha; cases ha
          · by_cases hbi : i = b
            · subst hbi; rw [cs_set_self hi] at hb; cases hb
            · rw [cs_set_ne hai] at ha; rw [cs_set_ne hbi] at hb
              exact hinv.distinct a b m hab ha hb
      · -- the name is free: create it
        rename_i hlim hex
        cases h
        have hfree : s.dir n = none := by
          cases hd : s.dir n with
          | none => rfl
          | some c => simp [hd] at hex
        have hd0 : d0 n = none := by
          cases hd : d0 n with
          | none => rfl
          | some c => rw [hinv.keep n c hd] at hfree; cases hfree
        have hmono : ∀ k, (s.dir k).isSome = true → ((s.dir.set n (tag i)) k).isSome = true := by
          intro k hk
          unfold Dir.set
          by_cases hkn : k = n
          · simp [hkn]
          · simp [hkn, hk]
        have hother : ∀ (j m : Nat), s.cs[j]? = some (.got m) → m ≠ n := by
          intro j m hj hmn
          subst hmn
          rw [(hinv.got j m hj).2] at hfree; cases hfree
        refine ⟨?_, ?_, ?_, ?_, ?_⟩
        · intro m c hm
          have hmn : m ≠ n := fun e => by rw [e, hd0] at hm; cases hm
          simp [Dir.set, hmn, hinv.keep m c hm]
        · intro j m hj
          by_cases hji : i = j
          · subst hji
            rw [cs_set_self hi] at hj; cases hj
            exact ⟨hd0, by simp [Dir.set]⟩
          · rw [cs_set_ne hji] at hj
            have := hinv.got j m hj
            have hmn := hother j m hj
            exact ⟨this.1, by simp [Dir.set, hmn, this.2]⟩
        · intro j m hj
          by_cases hji : i = j
          · subst hji; rw [cs_set_self hi] at hj; cases hj
          · rw [cs_set_ne hji] at hj
            have := hinv.trying j m hj
            exact ⟨this.1, fun k h1 h2 => hmono k (this.2 k h1 h2)⟩
        · intro j hj k h1 h2
          by_cases hji : i = j
          · subst hji; rw [cs_set_self hi] at hj; cases hj
          · rw [cs_set_ne hji] at hj
            exact hmono k (hinv.gaveUp j hj k h1 h2)
        · intro a b m hab ha hb
          by_cases hai : i = a
          · subst hai
            rw [cs_set_self hi] at ha; cases ha
            rw [cs_set_ne hab] at hb
            exact hother b n hb rfl
          · by_cases hbi : i = b
            · subst hbi
              rw [cs_set_self hi] at hb; cases hb
              rw [cs_set_ne hai] at ha
              exact hother a n ha rfl
            · rw [cs_set_ne hai] at ha; rw [cs_set_ne hbi] at hb
              exact hinv.distinct a b m hab ha hb
  · cases h

theorem inv_exec {limit : Nat} {tag : Nat → Nat} {d0 : Dir} {sched : List Nat} {s s' : State}
    (hinv : Inv limit tag d0 s) (h : exec true limit tag s sched = some s') : Inv limit tag d0 s' := by
  induction sched generalizing s with
  | nil => simp [exec] at h; subst h; exact hinv
  | cons i is ih =>
    unfold exec at h
    split at h
    · cases h
    · rename_i s1 hs
      exact ih (inv_step hinv hs) h

end FS

/-! ### readers-writer lock -/
namespace RW

def todoW : TS σ → List (σ → σ)
  | .writing todo _ => todo
  | _ => []

/-- the updates the current writer (if any) still has to apply -/
def pend (ts : List (TS σ)) : List (σ → σ) := ts.flatMap todoW

/-- a writer excludes everybody else -/
def Excl (ts : List (TS σ)) : Prop :=
  ∀ (i j : Nat) (ti tj : TS σ), i ≠ j → ts[i]? = some ti → ts[j]? = some tj → ti.isWriting = true → tj.isIdle = true

structure Inv (x0 : σ) (s : State σ) : Prop where
  excl : Excl s.ts
  /-- finishing the write in progress yields the value of the whole write log -/
  value : applyAll (pend s.ts) s.val = runWrites s.wlog.reverse x0
  /-- every value read is the value after some prefix of the write log, i.e. after complete writes -/
  reads : ∀ e ∈ s.obs, ∃ k, k ≤ s.wlog.length ∧ e.2 = runWrites (s.wlog.reverse.take k) x0

theorem ts_set_ne {ts : List (TS σ)} {i j : Nat} {t : TS σ} (h : i ≠ j) : (ts.set i t)[j]? = ts[j]? := by
  rw [List.getElem?_set]; simp [h]

theorem ts_set_self {ts : List (TS σ)} {i : Nat} {t t0 : TS σ} (h : ts[i]? = some t0) :
    (ts.set i t)[i]? = some t := by
  have hlt : i < ts.length := by
    rcases Nat.lt_or_ge i ts.length with h' | h'
    · exact h'
    · rw [List.getElem?_eq_none h'] at h; cases h
  rw [List.getElem?_set]; simp [hlt]

theorem pend_none {ts : List (TS σ)} (h : ∀ t ∈ ts, t.isWriting = false) : pend ts = [] := by
  induction ts with
  | nil => rfl
  | cons t ts ih =>
    have ht := h t (by simp)
    have : todoW t = [] := by cases t <;> simp_all [todoW, TS.isWriting]
    simp [pend, this]
    intro u hu
    have := h u (by simp [hu])
    cases u <;> simp_all [todoW, TS.isWriting]

theorem pend_one {ts : List (TS σ)} {i : Nat} {t : TS σ} (hi : ts[i]? = some t)
    (h : ∀ (j : Nat) (tj : TS σ), ts[j]? = some tj → j ≠ i → tj.isWriting = false) : pend ts = todoW t := by
  induction ts generalizing i with
  | nil => simp at hi
  | cons t0 ts ih =>
    cases i with
    | zero =>
      simp at hi; subst hi
      have : pend ts = [] := pend_none (fun u hu => by
        rcases List.getElem?_of_mem hu with ⟨k, hk⟩
        exact h (k + 1) u (by simpa using hk) (by omega))
      show todoW t0 ++ pend ts = todoW t0
      rw [this]; simp
    | succ k =>
      have h0 : t0.isWriting = false := h 0 t0 (by simp) (by omega)
      have : todoW t0 = [] := by cases t0 <;> simp_all [todoW, TS.isWriting]
      show todoW t0 ++ pend ts = todoW t
      rw [this]
      simp
      exact ih (i := k) (by simpa using hi) (fun j tj hj hne => h (j + 1) tj (by simpa using hj) (by omega))

theorem all_of_getElem {ts : List (TS σ)} {p : TS σ → Bool} (h : ts.all p = true) {j : Nat} {t : TS σ}
    (hj : ts[j]? = some t) : p t = true := by
  rw [List.all_eq_true] at h
  exact h t (List.mem_of_getElem? hj)

theorem idle_not_writing {t : TS σ} (h : t.isIdle = true) : t.isWriting = false := by
  cases t <;> simp_all [TS.isIdle, TS.isWriting]

theorem runWrites_snoc (ws : List (List (σ → σ))) (b : List (σ → σ)) (x : σ) :
    runWrites (ws ++ [b]) x = applyAll b (runWrites ws x) := by
  simp [runWrites, List.foldl_append]

/-- replacing thread `i` by a non-writing state keeps `Excl` when … -/
theorem excl_set_nonwriter {ts : List (TS σ)} {i : Nat} {t t' : TS σ} (he : Excl ts) (hi : ts[i]? = some t)
    (hnw : t'.isWriting = false) (hidle : t'.isIdle = false → ∀ (j : Nat) (tj : TS σ), ts[j]? = some tj → tj.isWriting = false) :
    Excl (ts.set i t') := by
  intro a b ta tb hab ha hb hwa
  by_cases hai : i = a
  · subst hai
    rw [ts_set_self hi] at ha; cases ha
    rw [hnw] at hwa; cases hwa
  · rw [ts_set_ne hai] at ha
    by_cases hbi : i = b
    · subst hbi
      rw [ts_set_self hi] at hb; cases hb
      cases hidl : t'.isIdle with
      | true => rfl
      | false =>
        have := hidle hidl a ta ha
        rw [this] at hwa; cases hwa
    · rw [ts_set_ne hbi] at hb
      exact he a b ta tb hab ha hb hwa

theorem inv_step {x0 : σ} {s s1 : State σ} {i : Nat} (hinv : Inv x0 s) (h : step s i = some s1) : Inv x0 s1 := by
  unfold step at h
  split at h
  · -- Lock
    rename_i body rest hi
    split at h
    · rename_i hall
      cases h
      have hidle : ∀ (j : Nat) (tj : TS σ), s.ts[j]? = some tj → tj.isIdle = true := fun j tj hj => all_of_getElem hall hj
      have hp0 : pend s.ts = [] := pend_none (fun t ht => by
        rcases List.getElem?_of_mem ht with ⟨k, hk⟩; exact idle_not_writing (hidle k t hk))
      have hp1 : pend (s.ts.set i (.writing body rest)) = body := by
        rw [pend_one (ts_set_self hi) (fun j tj hj hne => by
          rw [ts_set_ne (Ne.symm hne)] at hj; exact idle_not_writing (hidle j tj hj))]
        rfl
      refine ⟨?_, ?_, ?_⟩
      · intro a b ta tb hab ha hb hwa
        by_cases hbi : i = b
        · subst hbi
          have hai : i ≠ a := fun e => hab e.symm
          rw [ts_set_ne hai] at ha
          have := idle_not_writing (hidle a ta ha)
          rw [this] at hwa; cases hwa
        · rw [ts_set_ne hbi] at hb; exact hidle b tb hb
      · show applyAll (pend (s.ts.set i (.writing body rest))) s.val = runWrites (body :: s.wlog).reverse x0
        rw [hp1, List.reverse_cons, runWrites_snoc, ← hinv.value, hp0]
        rfl
      · intro e he
        rcases hinv.reads e he with ⟨k, hk, hek⟩
        refine ⟨k, by simp; omega, ?_⟩
        rw [hek, List.reverse_cons, List.take_append_of_le_length (by simpa using hk)]
    · cases h
  · -- RLock
    rename_i rest hi
    split at h
    · rename_i hall
      cases h
      have hnw : ∀ (j : Nat) (tj : TS σ), s.ts[j]? = some tj → tj.isWriting = false := fun j tj hj => by
        have := all_of_getElem hall hj; simpa using this
      refine ⟨excl_set_nonwriter hinv.excl hi rfl (fun _ => hnw), ?_, hinv.reads⟩
      show applyAll (pend (s.ts.set i (.reading rest))) s.val = _
      rw [← hinv.value]
      congr 1
      rw [pend_none (fun t ht => by
        rcases List.getElem?_of_mem ht with ⟨k, hk⟩
        by_cases hki : i = k
        · subst hki; rw [ts_set_self hi] at hk; cases hk; rfl
        · rw [ts_set_ne hki] at hk; exact hnw k t hk)]
      rw [pend_none (fun t ht => by
        rcases List.getElem?_of_mem ht with ⟨k, hk⟩; exact hnw k t hk)]
    · cases h
  · -- one update of the writer
    rename_i f todo rest hi
    cases h
    have hothers : ∀ (j : Nat) (tj : TS σ), s.ts[j]? = some tj → j ≠ i → tj.isWriting = false := fun j tj hj hne =>
      idle_not_writing (hinv.excl i j _ tj (Ne.symm hne) hi hj rfl)
    refine ⟨?_, ?_, hinv.reads⟩
    · intro a b ta tb hab ha hb hwa
      by_cases hai : i = a
      · subst hai
        rw [ts_set_ne hab] at hb
        exact hinv.excl i b _ tb hab hi hb rfl
      · rw [ts_set_ne hai] at ha
        have := hothers a ta ha (Ne.symm hai)
        rw [this] at hwa; cases hwa
    · show applyAll (pend (s.ts.set i (.writing todo rest))) (f s.val) = _
      rw [← hinv.value, pend_one hi hothers]
      rw [pend_one (ts_set_self hi) (fun j tj hj hne => by
        rw [ts_set_ne (Ne.symm hne)] at hj; exact hothers j tj hj hne)]
      rfl
  · -- Unlock
    rename_i rest hi
    cases h
    have hothers : ∀ (j : Nat) (tj : TS σ), s.ts[j]? = some tj → j ≠ i → tj.isWriting = false := fun j tj hj hne =>
      idle_not_writing (hinv.excl i j _ tj (Ne.symm hne) hi hj rfl)
    refine ⟨excl_set_nonwriter hinv.excl hi rfl (fun h => by simp [TS.isIdle] at h), ?_, hinv.reads⟩
    show applyAll (pend (s.ts.set i (.idle rest))) s.val = _
    rw [← hinv.value, pend_one hi hothers]
    rw [pend_one (ts_set_self hi) (fun j tj hj hne => by
      rw [ts_set_ne (Ne.symm hne)] at hj; exact hothers j tj hj hne)]
    rfl
  · -- the read itself
    rename_i rest hi
    cases h
    have hnw : ∀ (j : Nat) (tj : TS σ), s.ts[j]? = some tj → tj.isWriting = false := fun j tj hj => by
      by_cases hji : j = i
      · subst hji; rw [hi] at hj; cases hj; rfl
      · cases hw : tj.isWriting with
        | false => rfl
        | true =>
          have := hinv.excl j i tj _ hji hj hi hw
          simp [TS.isIdle] at this
    have hp : pend s.ts = [] := pend_none (fun t ht => by
      rcases List.getElem?_of_mem ht with ⟨k, hk⟩; exact hnw k t hk)
    refine ⟨excl_set_nonwriter hinv.excl hi rfl (fun _ => hnw), ?_, ?_⟩
    · show applyAll (pend (s.ts.set i (.readDone rest))) s.val = _
      rw [← hinv.value, hp]
      rw [pend_none (fun t ht => by
        rcases List.getElem?_of_mem ht with ⟨k, hk⟩
        by_cases hki : i = k
        · subst hki; rw [ts_set_self hi] at hk; cases hk; rfl
        · rw [ts_set_ne hki] at hk; exact hnw k t hk)]
    · intro e he
      simp only [List.mem_cons] at he
      rcases he with rfl | he
      · refine ⟨s.wlog.length, Nat.le_refl _, ?_⟩
        have := hinv.value
        rw [hp] at this
        simp only [applyAll, List.foldl_nil] at this
        rw [← List.length_reverse, List.take_length]
        exact this
      · exact hinv.reads e he
  · -- RUnlock
    rename_i rest hi
    cases h
    have hnw : ∀ (j : Nat) (tj : TS σ), s.ts[j]? = some tj → tj.isWriting = false := fun j tj hj => by
      by_cases hji : j = i
      · subst hji; rw [hi] at hj; cases hj; rfl
      · cases hw : tj.isWriting with
        | false => rfl
        | true =>
          have := hinv.excl j i tj _ hji hj hi hw
          simp [TS.isIdle] at this
    refine ⟨excl_set_nonwriter hinv.excl hi rfl (fun _ => hnw), ?_, hinv.reads⟩
    show applyAll (pend (s.ts.set i (.idle rest))) s.val = _
    rw [← hinv.value]
    congr 1
    rw [pend_none (fun t ht => by
      rcases List.getElem?_of_mem ht with ⟨k, hk⟩
      by_cases hki : i = k
      · subst hki; rw [ts_set_self hi] at hk; cases hk; rfl
      · rw [ts_set_ne hki] at hk; exact hnw k t hk)]
    rw [pend_none (fun t ht => by
      rcases List.getElem?_of_mem ht with ⟨k, hk⟩; exact hnw k t hk)]
  · cases h

theorem inv_start (x0 : σ) (prog : List (List (Op σ))) : Inv x0 (start x0 prog) := by
  refine ⟨?_, ?_, ?_⟩
  · intro i j ti tj _ hi _ hw
    simp [start] at hi
    rcases hi with ⟨_, _, rfl⟩
    simp [TS.isWriting] at hw
  · have : pend (start x0 prog).ts = [] := pend_none (fun t ht => by
      simp [start] at ht
      rcases ht with ⟨_, _, rfl⟩; rfl)
    rw [this]; rfl
  · intro e he; simp [start] at he

theorem inv_exec {x0 : σ} {sched : List Nat} {s s' : State σ} (hinv : Inv x0 s) (h : exec s sched = some s') :
    Inv x0 s' := by
  induction sched generalizing s with
  | nil => simp [exec] at h; subst h; exact hinv
  | cons i is ih =>
    unfold exec at h
    split at h
    · cases h
    · rename_i s1 hs
      exact ih (inv_step hinv hs) h

theorem pend_terminated {s : State σ} (h : s.terminated = true) : pend s.ts = [] := by
  apply pend_none
  intro t ht
  unfold State.terminated at h
  rw [List.all_eq_true] at h
  have := h t ht
  cases t <;> simp_all [TS.finished, TS.isWriting]

end RW

end PV.Conc
