import PprofVerif.Model.TagFilter
/-! Helper lemmas for C06: the range scanner of the model of parseTagFilterRange on well-formed
range texts (a, a:, :a, a:b).  Main result: parseTagFilterRange_forms. -/
namespace PV.TagFilter
open PV

/-- `x` is empty or starts with a byte that does not satisfy `q`. -/
def stops (q : UInt8 → Bool) : Str → Bool
  | [] => true
  | b :: _ => !q b

theorem takeWhile_append_stop (q : UInt8 → Bool) (a x : Str) (ha : a.all q = true) (hx : stops q x = true) :
    (a ++ x).takeWhile q = a ∧ (a ++ x).dropWhile q = x := by
  induction a with
  | nil =>
    cases x with
    | nil => exact ⟨rfl, rfl⟩
    | cons b r =>
      simp only [stops, Bool.not_eq_eq_eq_not, Bool.not_true] at hx
      simp [List.takeWhile_cons, List.dropWhile_cons, hx]
  | cons b r ih =>
    simp only [List.all_cons, Bool.and_eq_true] at ha
    obtain ⟨i1, i2⟩ := ih ha.2
    simp [List.takeWhile_cons, List.dropWhile_cons, ha.1, i1, i2]

theorem alpha_not_digit (b : UInt8) (h : isAlpha b = true) : isDigit b = false := by
  unfold isAlpha at h; unfold isDigit
  simp only [Bool.or_eq_true, Bool.and_eq_true, decide_eq_true_eq] at h
  simp only [Bool.and_eq_false_iff, decide_eq_false_iff_not, UInt8.not_le]
  rcases h with h | h
  · right; exact UInt8.lt_of_lt_of_le (by decide) h.1
  · right; exact UInt8.lt_of_lt_of_le (by decide) h.1

theorem digit_not_sign (b : UInt8) (h : isDigit b = true) : isSign b = false := by
  unfold isDigit at h; unfold isSign
  simp only [Bool.and_eq_true, decide_eq_true_eq] at h
  simp only [Bool.or_eq_false_iff, beq_eq_false_iff_ne, ne_eq]
  constructor
  · intro hb; subst hb; exact absurd h.1 (by decide)
  · intro hb; subst hb; exact absurd h.1 (by decide)

/-- a number token of a range expression: optional sign, digits, optional letters. -/
structure NumTok where
  sg : Str
  ds : Str
  al : Str

def NumTok.WF (t : NumTok) : Prop :=
  (t.sg = [] ∨ t.sg = [43] ∨ t.sg = [45]) ∧ t.ds ≠ [] ∧ t.ds.all isDigit = true ∧ t.al.all isAlpha = true

def NumTok.num (t : NumTok) : Str := t.sg ++ t.ds
def NumTok.text (t : NumTok) : Str := t.sg ++ t.ds ++ t.al
def NumTok.rmatch (t : NumTok) : RMatch := ⟨t.text, t.num, t.al⟩

theorem stops_digit_alpha_rest (al rest : Str) (hal : al.all isAlpha = true)
    (hr : stops isDigit rest = true) : stops isDigit (al ++ rest) = true := by
  cases al with
  | nil => simpa using hr
  | cons b r =>
    simp only [List.all_cons, Bool.and_eq_true] at hal
    simp [stops, alpha_not_digit b hal.1]

theorem matchHere_tok (t : NumTok) (h : t.WF) (rest : Str)
    (hr1 : stops isAlpha rest = true) (hr2 : stops isDigit rest = true) :
    matchHere (t.text ++ rest) = some (t.rmatch, rest) := by
  obtain ⟨hsg, hne, hds, hal⟩ := h
  have hd := takeWhile_append_stop isDigit t.ds (t.al ++ rest) hds (stops_digit_alpha_rest t.al rest hal hr2)
  have ha := takeWhile_append_stop isAlpha t.al rest hal hr1
  have hdne : t.ds.isEmpty = false := by cases hx : t.ds with | nil => exact absurd hx hne | cons _ _ => rfl
  cases hds' : t.ds with
  | nil => exact absurd hds' hne
  | cons d dr =>
    have hdd : isDigit d = true := by rw [hds'] at hds; simp only [List.all_cons, Bool.and_eq_true] at hds; exact hds.1
    rcases hsg with hs | hs | hs
    · -- no sign
      have htxt : t.text ++ rest = d :: (dr ++ (t.al ++ rest)) := by simp [NumTok.text, hs, hds']
      rw [htxt]
      unfold matchHere
      simp only [digit_not_sign d hdd, Bool.false_eq_true, ↓reduceIte]
      have e : d :: (dr ++ (t.al ++ rest)) = t.ds ++ (t.al ++ rest) := by simp [hds']
      rw [e, hd.1, hd.2, ha.1, ha.2]
      simp [hdne, NumTok.rmatch, NumTok.text, NumTok.num, hs]
    · have htxt : t.text ++ rest = 43 :: (t.ds ++ (t.al ++ rest)) := by simp [NumTok.text, hs]
      rw [htxt]
      unfold matchHere
      have : isSign 43 = true := by decide
      simp only [this, ↓reduceIte]
      rw [hd.1, hd.2, ha.1, ha.2]
      simp [hdne, NumTok.rmatch, NumTok.text, NumTok.num, hs]
    · have htxt : t.text ++ rest = 45 :: (t.ds ++ (t.al ++ rest)) := by simp [NumTok.text, hs]
      rw [htxt]
      unfold matchHere
      have : isSign 45 = true := by decide
      simp only [this, ↓reduceIte]
      rw [hd.1, hd.2, ha.1, ha.2]
      simp [hdne, NumTok.rmatch, NumTok.text, NumTok.num, hs]


theorem matchHere_colon (rest : Str) : matchHere (58 :: rest) = none := by
  unfold matchHere
  have h1 : isSign 58 = false := by decide
  have h2 : isDigit 58 = false := by decide
  simp [h1, List.takeWhile_cons, h2]

theorem scanRanges_nil (fuel n : Nat) : scanRanges fuel n [] = [] := by
  cases fuel <;> cases n <;> simp [scanRanges]

theorem text_ne_nil (t : NumTok) (h : t.WF) : t.text ≠ [] := by
  obtain ⟨_, hne, _, _⟩ := h
  intro hx
  simp only [NumTok.text, List.append_eq_nil_iff] at hx
  exact hne hx.1.2

theorem stops_nil (q : UInt8 → Bool) : stops q [] = true := rfl
theorem stops_colon_alpha (r : Str) : stops isAlpha (58 :: r) = true := by simp [stops]; decide
theorem stops_colon_digit (r : Str) : stops isDigit (58 :: r) = true := by simp [stops]; decide

/-- scanning one token followed by `rest` (fuel and count permitting). -/
theorem scanRanges_tok (t : NumTok) (h : t.WF) (rest : Str) (fuel n : Nat)
    (hr1 : stops isAlpha rest = true) (hr2 : stops isDigit rest = true) :
    scanRanges (fuel + 1) (n + 1) (t.text ++ rest) = t.rmatch :: scanRanges fuel n rest := by
  have hne := text_ne_nil t h
  cases htx : t.text ++ rest with
  | nil => simp only [List.append_eq_nil_iff] at htx; exact absurd htx.1 hne
  | cons b r =>
    rw [← htx]
    have := matchHere_tok t h rest hr1 hr2
    simp only [scanRanges, htx]
    rw [htx] at this
    simp [this]

theorem scanRanges_colon (fuel n : Nat) (rest : Str) :
    scanRanges (fuel + 1) (n + 1) (58 :: rest) = scanRanges fuel (n + 1) rest := by
  simp [scanRanges, matchHere_colon]

theorem findRanges_eq (t : NumTok) (h : t.WF) : findRanges t.text = [t.rmatch] := by
  unfold findRanges
  have := scanRanges_tok t h [] t.text.length 1 rfl rfl
  simp only [List.append_nil] at this
  rw [this, scanRanges_nil]

theorem findRanges_ge (t : NumTok) (h : t.WF) : findRanges (t.text ++ colon) = [t.rmatch] := by
  unfold findRanges colon
  have hl : (t.text ++ [58]).length + 1 = (t.text.length + 1) + 1 := by simp
  rw [hl, scanRanges_tok t h [58] (t.text.length + 1) 1 (stops_colon_alpha []) (stops_colon_digit [])]
  rw [scanRanges_colon, scanRanges_nil]

theorem findRanges_le (t : NumTok) (h : t.WF) : findRanges (colon ++ t.text) = [t.rmatch] := by
  unfold findRanges colon
  simp only [List.singleton_append, List.length_cons]
  rw [scanRanges_colon]
  have := scanRanges_tok t h [] t.text.length 1 rfl rfl
  simp only [List.append_nil] at this
  rw [this, scanRanges_nil]

theorem findRanges_between (a b : NumTok) (ha : a.WF) (hb : b.WF) :
    findRanges (a.text ++ colon ++ b.text) = [a.rmatch, b.rmatch] := by
  unfold findRanges colon
  have hl : (a.text ++ [58] ++ b.text).length + 1 = (a.text.length + b.text.length + 1) + 1 := by
    simp; omega
  rw [hl, List.append_assoc, scanRanges_tok a ha ([58] ++ b.text) _ 1 (stops_colon_alpha _) (stops_colon_digit _)]
  have hbne : b.text.length ≥ 1 := by
    cases hx : b.text with
    | nil => exact absurd hx (text_ne_nil b hb)
    | cons _ _ => simp
  obtain ⟨k, hk⟩ : ∃ k, a.text.length + b.text.length + 1 = (k + 1) + 1 := ⟨a.text.length + b.text.length - 1, by omega⟩
  rw [hk]
  simp only [List.singleton_append]
  rw [scanRanges_colon]
  have := scanRanges_tok b hb [] k 0 rfl rfl
  simp only [List.append_nil] at this
  rw [this, scanRanges_nil]


theorem text_head_ne_colon (t : NumTok) (h : t.WF) : ∃ b r, t.text = b :: r ∧ b ≠ 58 := by
  obtain ⟨hsg, hne, hds, _⟩ := h
  cases hd : t.ds with
  | nil => exact absurd hd hne
  | cons d dr =>
    have hdd : isDigit d = true := by rw [hd] at hds; simp only [List.all_cons, Bool.and_eq_true] at hds; exact hds.1
    rcases hsg with hs | hs | hs
    · refine ⟨d, dr ++ t.al, by simp [NumTok.text, hs, hd], ?_⟩
      intro hx; subst hx; exact absurd hdd (by decide)
    · exact ⟨43, t.ds ++ t.al, by simp [NumTok.text, hs], by decide⟩
    · exact ⟨45, t.ds ++ t.al, by simp [NumTok.text, hs], by decide⟩

theorem append_colon_ne (l : Str) : (l ++ colon == l) = false := by
  apply beq_eq_false_iff_ne.mpr
  intro h
  have := congrArg List.length h
  simp [colon] at this

theorem colon_append_ne (l : Str) : (colon ++ l == l) = false := by
  apply beq_eq_false_iff_ne.mpr
  intro h
  have := congrArg List.length h
  simp [colon] at this

theorem colon_append_ne_append_colon (t : NumTok) (h : t.WF) : (colon ++ t.text == t.text ++ colon) = false := by
  obtain ⟨b, r, htx, hb⟩ := text_head_ne_colon t h
  apply beq_eq_false_iff_ne.mpr
  intro he
  rw [htx] at he
  simp only [colon, List.singleton_append, List.cons_append, List.cons.injEq] at he
  exact hb he.1.symm

/-- **parseTagFilterRange on well-formed range texts.**  For number tokens `a`, `b`
(optional sign, digits, optional letters) whose numbers fit int64 (`parseInt64 … = some v`):
`a` is "equal to a", `a:` "at least a", `:a` "at most a", and `a:b` "between a and b" provided the
second bound scales to the first bound's unit — all bounds scaled by `measurement.Scale` into the
unit of the first one. -/
theorem parseTagFilterRange_forms (a b : NumTok) (ha : a.WF) (hb : b.WF) (va vb : Int)
    (hva : parseInt64 a.num = some va) (hvb : parseInt64 b.num = some vb)
    (sa : Q) (ua : Str) (hsa : scale va a.al a.al = some (sa, ua))
    (sb : Q) (ub : Str) (hsb : scale vb b.al ua = some (sb, ub)) :
    parseTagFilterRange a.text = .ok (some ⟨.eq, sa, sa, ua⟩) ∧
    parseTagFilterRange (a.text ++ colon) = .ok (some ⟨.ge, sa, sa, ua⟩) ∧
    parseTagFilterRange (colon ++ a.text) = .ok (some ⟨.le, sa, sa, ua⟩) ∧
    parseTagFilterRange (a.text ++ colon ++ b.text) =
      (if ua != ub then .ok none else .ok (some ⟨.between, sa, sb, ua⟩)) := by
  have hra : a.rmatch.num = a.num ∧ a.rmatch.unit = a.al ∧ a.rmatch.whole = a.text := ⟨rfl, rfl, rfl⟩
  have hrb : b.rmatch.num = b.num ∧ b.rmatch.unit = b.al ∧ b.rmatch.whole = b.text := ⟨rfl, rfl, rfl⟩
  refine ⟨?_, ?_, ?_, ?_⟩
  · simp only [parseTagFilterRange, findRanges_eq a ha, hra.1, hra.2.1, hra.2.2, hva, hsa]
    simp
  · simp only [parseTagFilterRange, findRanges_ge a ha, hra.1, hra.2.1, hra.2.2, hva, hsa, append_colon_ne]
    simp
  · simp only [parseTagFilterRange, findRanges_le a ha, hra.1, hra.2.1, hra.2.2, hva, hsa, colon_append_ne,
      colon_append_ne_append_colon a ha]
    simp
  · simp only [parseTagFilterRange, findRanges_between a b ha hb, hra.1, hra.2.1, hra.2.2, hrb.1, hrb.2.1,
      hrb.2.2, hva, hvb, hsa, hsb]
    simp

/-- what the returned closure tests (definition unfolded once, for the reader): the value is
scaled into the filter's unit and compared in exact arithmetic; a value whose unit does not scale
into the filter's unit never matches. -/
theorem rangeFilter_test_between (lo hi : Q) (unit : Str) (v : Int) (u : Str) (sv : Q)
    (h : scale v u unit = some (sv, unit)) :
    (⟨.between, lo, hi, unit⟩ : RangeFilter).test v u = (Q.le lo sv && Q.le sv hi) := by
  simp [RangeFilter.test, h]

end PV.TagFilter
