import PprofVerif.Lemmas.GraphTree
namespace PV.Graph
open PV.GSpec
variable {κ : Type} [DecidableEq κ]

/-- the (parent path, child path) pairs the tree builder links while walking `fs` below `par`. -/
def treePairs : Option (List κ) → List κ → List (List κ × List κ)
  | _, [] => []
  | none, f :: fs => treePairs (some [f]) fs
  | some p, f :: fs => (p, p ++ [f]) :: treePairs (some (p ++ [f])) fs

theorem treePairs_some_eq_zip (fs : List κ) : ∀ (q : List κ),
    treePairs (some q) fs = (q :: pathsFrom q fs).zip (pathsFrom q fs) := by
  induction fs with
  | nil => intro q; simp [treePairs, pathsFrom_nil]
  | cons f fs ih =>
    intro q
    rw [pathsFrom_cons]
    simp only [treePairs, List.zip_cons_cons, ih]

theorem treePairs_none_eq_zip (fs : List κ) :
    treePairs none fs = (prefixes fs).zip (prefixes fs).tail := by
  cases fs with
  | nil => simp [treePairs, prefixes]
  | cons f r =>
    rw [prefixes_eq_pathsFrom, pathsFrom_cons]
    simp only [treePairs, List.nil_append, List.tail_cons]
    exact treePairs_some_eq_zip r [f]

theorem treePairs_some_len (fs : List κ) : ∀ (q : List κ) (x y : List κ),
    (x, y) ∈ treePairs (some q) fs → q.length ≤ x.length ∧ y.length = x.length + 1 := by
  induction fs with
  | nil => intro q x y h; simp [treePairs] at h
  | cons f fs ih =>
    intro q x y h
    simp only [treePairs, List.mem_cons, Prod.mk.injEq] at h
    rcases h with ⟨rfl, rfl⟩ | h
    · simp
    · have := ih _ x y h
      simp at this
      omega

theorem treePairs_none_ne (fs : List κ) (x y : List κ) (h : (x, y) ∈ treePairs none fs) : x ≠ y := by
  cases fs with
  | nil => simp [treePairs] at h
  | cons f r =>
    simp only [treePairs] at h
    have := (treePairs_some_len r [f] x y h).2
    intro e; rw [e] at this; omega

theorem treeStep_edgeAt_none (v : WD) (a : TInner κ) (f : κ) (x y : List κ) (h : a.parent = none) :
    (treeStep v a f).g.edgeAt x y = a.g.edgeAt x y := by
  unfold treeStep; simp [h]
theorem treeStep_edgeAt_some (v : WD) (a : TInner κ) (f : κ) (p x y : List κ) (h : a.parent = some p) :
    (treeStep v a f).g.edgeAt x y = ((a.g.addCum (p ++ [f]) v).addEdge p (p ++ [f]) v false).edgeAt x y := by
  unfold treeStep; simp [h]

theorem foldTree_weight (v : WD) (x y : List κ) (fs : List κ) : ∀ (a : TInner κ) (par : Option (List κ)),
    a.parent = par →
    (fs.foldl (treeStep v) a).g.weight x y = a.g.weight x y + ind ((x, y) ∈ treePairs par fs) v := by
  induction fs with
  | nil => intro a par _; simp [treePairs]
  | cons f fs ih =>
    intro a par hpar
    rw [List.foldl_cons]
    cases par with
    | none =>
      have hp' : (treeStep v a f).parent = some [f] := by rw [treeStep_parent, hpar]; rfl
      rw [ih _ _ hp', weight_eq_edgeAt, treeStep_edgeAt_none v a f x y hpar]
      rfl
    | some p =>
      have hp' : (treeStep v a f).parent = some (p ++ [f]) := by rw [treeStep_parent, hpar]; rfl
      rw [ih _ _ hp', weight_eq_edgeAt, treeStep_edgeAt_some v a f p x y hpar, addEdge_edgeAt, weight_eq_edgeAt]
      simp only [addCum_edgeAt]
      have hdisj : ¬ ((x, y) = (p, p ++ [f]) ∧ (x, y) ∈ treePairs (some (p ++ [f])) fs) := by
        rintro ⟨h1, h2⟩
        have := (treePairs_some_len fs (p ++ [f]) x y h2).1
        rw [(Prod.mk.inj h1).1] at this
        simp at this
      have e : ind ((x, y) ∈ treePairs (some p) (f :: fs)) v =
          ind ((x, y) = (p, p ++ [f]) ∨ (x, y) ∈ treePairs (some (p ++ [f])) fs) v := by
        by_cases h : (x, y) = (p, p ++ [f]) ∨ (x, y) ∈ treePairs (some (p ++ [f])) fs
        · rw [ind_true h, ind_true (by simp only [treePairs]; exact List.mem_cons.mpr h)]
        · rw [ind_false h, ind_false (by simp only [treePairs]; exact fun hc => h (List.mem_cons.mp hc))]
      rw [e, ind_or_disjoint _ _ _ hdisj, ← WD.add_assoc]
      congr 1
      by_cases hxy : p = x ∧ p ++ [f] = y
      · obtain ⟨rfl, rfl⟩ := hxy
        simp
      · have : ¬ (x, y) = (p, p ++ [f]) := fun h => hxy ⟨(Prod.mk.inj h).1.symm, (Prod.mk.inj h).2.symm⟩
        simp [hxy, this]

theorem treeSampleStep_weight (g : GState (List κ)) (s : GSample κ) (x y : List κ) :
    (treeSampleStep g s).weight x y = g.weight x y + ind ((x, y) ∈ treePairs none s.frames) s.wd := by
  unfold treeSampleStep
  by_cases hs : (s.d == 0 && s.w == 0) = true
  · simp [hs, wd_zero_of_skip s hs]
  · simp only [hs]
    have h := foldTree_weight s.wd x y s.frames ⟨g, none⟩ none rfl
    generalize List.foldl (treeStep s.wd) ⟨g, none⟩ s.frames = r at h
    cases hp : r.parent with
    | none => simpa [hp] using h
    | some p =>
      simp only [hp, Bool.false_eq_true, if_false]
      rw [weight_eq_edgeAt, addFlat_edgeAt, ← weight_eq_edgeAt]
      simpa using h

theorem foldTreeSamples_weight (x y : List κ) (c : GSample κ → Bool)
    (hc : ∀ s, c s = true ↔ (x, y) ∈ treePairs none s.frames)
    (ss : List (GSample κ)) : ∀ (g : GState (List κ)),
    (ss.foldl treeSampleStep g).weight x y = g.weight x y + sumOver ss c := by
  induction ss with
  | nil => intro g; simp
  | cons s ss ih =>
    intro g
    rw [List.foldl_cons, ih, treeSampleStep_weight, sumOver_cons, WD.add_assoc, ind_of_bool _ _ (hc s)]

theorem tree_edge_eq_spec (ss : List (GSample κ)) (a b : List κ) :
    (newTree ss).weight a b = edgeSpec (ss.map treeSample) a b := by
  unfold newTree edgeSpec
  rw [sumOver_map_wd treeSample (fun _ => rfl),
    foldTreeSamples_weight a b (fun s => decide (a ≠ b) && adjacent a b (treeSample s).frames) (fun s => by
      unfold adjacent treeSample
      simp only [Bool.and_eq_true, decide_eq_true_eq]
      rw [treePairs_none_eq_zip]
      constructor
      · exact fun h => h.2
      · intro h
        refine ⟨?_, h⟩
        rw [← treePairs_none_eq_zip] at h
        exact treePairs_none_ne _ _ _ h)]
  simp only [empty_weight, WD.zero_add]
end PV.Graph
