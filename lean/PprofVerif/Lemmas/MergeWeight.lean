import PprofVerif.Lemmas.MergeAccum
import PprofVerif.Lemmas.MergeResolve
import Mathlib.Data.List.Perm.Basic
/-!
Algebra of the Spec weight function `weightR` over lists of resolved samples: zero samples do
not count, concatenation adds, permutation does not matter, a stack that occurs once weighs its
sample's values.
-/
namespace PV.Merge
open PV.Spec
open PV.Wire (InI64 two63)

theorem isZeroSample_eq_zeroV {n : Nat} {v : List Int} (hl : v.length = n) (hz : isZeroSample v = true) :
    v = zeroV n := by
  subst hl
  unfold isZeroSample at hz
  rw [List.all_eq_true] at hz
  apply List.ext_getElem (by simp [zeroV])
  intro i h1 h2
  have := hz v[i] (List.getElem_mem h1)
  simp only [zeroV, List.getElem_replicate]
  simpa using this

theorem sumV_cons {n : Nat} (v : List Int) (vs : List (List Int)) (hv : v.length = n)
    (hvs : ∀ w ∈ vs, w.length = n) : sumV n (v :: vs) = addV (addV (zeroV n) v) (sumV n vs) := by
  unfold sumV
  rw [List.foldl_cons]
  exact foldl_addV_eq vs _ (addV_VecOK (zeroV_VecOK n).1 hv) hvs

theorem sumV_singleton {n : Nat} {v : List Int} (hv : VecOK n v) : sumV n [v] = v := by
  simp only [sumV, List.foldl_cons, List.foldl_nil]
  exact zeroV_addV hv

/-- dropping all-zero vectors does not change a sum. -/
theorem sumV_filter_nonzero {n : Nat} (vs : List (List Int)) (h : ∀ v ∈ vs, v.length = n) :
    sumV n (vs.filter fun v => !isZeroSample v) = sumV n vs := by
  induction vs with
  | nil => rfl
  | cons v vs ih =>
    have hv := h v (by simp)
    have hvs : ∀ w ∈ vs, w.length = n := fun w hw => h w (List.mem_cons_of_mem _ hw)
    have hf : ∀ w ∈ vs.filter (fun v => !isZeroSample v), w.length = n :=
      fun w hw => hvs w (List.mem_of_mem_filter hw)
    rw [sumV_cons v vs hv hvs, ← ih hvs]
    by_cases hz : isZeroSample v = true
    · simp only [List.filter_cons, hz, Bool.not_true, Bool.false_eq_true, if_false]
      rw [isZeroSample_eq_zeroV hv hz, zeroV_addV (zeroV_VecOK n), zeroV_addV (sumV_VecOK _ hf)]
    · simp only [List.filter_cons, hz, Bool.not_false, if_true]
      rw [sumV_cons v _ hv hf]

def SamplesOK (n : Nat) (rs : List RSample) : Prop := ∀ s ∈ rs, VecOK n s.values

theorem weightR_VecOK {n : Nat} {rs : List RSample} (h : SamplesOK n rs) (k : StackKey) :
    VecOK n (weightR n rs k) := by
  unfold weightR
  apply sumV_VecOK
  intro v hv
  obtain ⟨s, hs, rfl⟩ := List.mem_map.mp hv
  exact (h s (List.mem_of_mem_filter hs)).1

/-- zero samples do not count. -/
theorem weightR_filter_nonzero {n : Nat} {rs : List RSample} (h : SamplesOK n rs) (k : StackKey) :
    weightR n (rs.filter fun s => !isZeroSample s.values) k = weightR n rs k := by
  unfold weightR
  rw [List.filter_filter]
  have : (rs.filter fun s => decide (stackKey s = k) && !isZeroSample s.values).map (·.values) =
      ((rs.filter fun s => decide (stackKey s = k)).map (·.values)).filter fun v => !isZeroSample v := by
    rw [List.filter_map, ← List.filter_filter]
    congr 1
    rw [List.filter_filter, List.filter_filter]
    apply List.filter_congr
    intro s _
    simp [Bool.and_comm]
  rw [this, sumV_filter_nonzero]
  intro v hv
  obtain ⟨s, hs, rfl⟩ := List.mem_map.mp hv
  exact (h s (List.mem_of_mem_filter hs)).1

theorem weightR_append {n : Nat} {as bs : List RSample} (ha : SamplesOK n as) (hb : SamplesOK n bs)
    (k : StackKey) : weightR n (as ++ bs) k = addV (weightR n as k) (weightR n bs k) := by
  unfold weightR
  rw [List.filter_append, List.map_append, sumV_append]
  · intro v hv
    obtain ⟨s, hs, rfl⟩ := List.mem_map.mp hv
    exact (ha s (List.mem_of_mem_filter hs)).1
  · intro v hv
    obtain ⟨s, hs, rfl⟩ := List.mem_map.mp hv
    exact (hb s (List.mem_of_mem_filter hs)).1

/-- the weight of a concatenation of sample lists is the sum of the weights. -/
theorem weightR_flatten {n : Nat} (rss : List (List RSample)) (h : ∀ rs ∈ rss, SamplesOK n rs) (k : StackKey) :
    weightR n rss.flatten k = sumV n (rss.map fun rs => weightR n rs k) := by
  induction rss with
  | nil => rfl
  | cons rs rss ih =>
    have hrs := h rs (by simp)
    have hrss : ∀ x ∈ rss, SamplesOK n x := fun x hx => h x (List.mem_cons_of_mem _ hx)
    have hfl : SamplesOK n rss.flatten := by
      intro s hs
      obtain ⟨x, hx, hsx⟩ := List.mem_flatten.mp hs
      exact hrss x hx s hsx
    rw [List.flatten_cons, weightR_append hrs hfl, ih hrss, List.map_cons, sumV_cons _ _ (weightR_VecOK hrs k).1]
    · rw [zeroV_addV (weightR_VecOK hrs k)]
    · intro w hw
      obtain ⟨x, hx, rfl⟩ := List.mem_map.mp hw
      exact (weightR_VecOK (hrss x hx) k).1

/-- a stack carried by exactly one sample weighs that sample's values. -/
theorem weightR_of_nodup {n : Nat} {rs : List RSample} (h : SamplesOK n rs)
    (hn : (rs.map stackKey).Nodup) {s : RSample} (hs : s ∈ rs) : weightR n rs (stackKey s) = s.values := by
  unfold weightR
  rw [filter_key_eq_singleton stackKey rs s hn hs]
  exact sumV_singleton (h s hs)

theorem weightR_of_not_mem {n : Nat} {rs : List RSample} {k : StackKey}
    (h : ∀ s ∈ rs, stackKey s ≠ k) : weightR n rs k = zeroV n := by
  unfold weightR
  have : rs.filter (fun s => decide (stackKey s = k)) = [] := by
    rw [List.filter_eq_nil_iff]
    intro s hs
    simpa using h s hs
  rw [this]; rfl

theorem addV_right_comm (a b c : List Int) : addV (addV a b) c = addV (addV a c) b := by
  rw [addV_assoc, addV_comm b c, ← addV_assoc]

/-- sums of value vectors do not depend on the order of the summands. -/
theorem sumV_perm {n : Nat} {as bs : List (List Int)} (hp : as.Perm bs) : sumV n as = sumV n bs := by
  unfold sumV
  haveI : RightCommutative addV := ⟨addV_right_comm⟩
  exact hp.foldl_eq _

/-! ### transfer of `Nodup` along a `Forall₂` -/

theorem forall₂_nodup {α β κ ι : Type} {R : α → β → Prop} (f : α → κ) (g : β → ι) :
    ∀ {xs : List α} {ys : List β}, List.Forall₂ R xs ys → (xs.map f).Nodup →
      (∀ x ∈ xs, ∀ x' ∈ xs, ∀ y y', R x y → R x' y' → g y = g y' → f x = f x') → (ys.map g).Nodup
  | _, _, List.Forall₂.nil, _, _ => by simp
  | _, _, @List.Forall₂.cons _ _ _ x y xs ys hr hrs, hn, hinj => by
    rw [List.map_cons, List.nodup_cons] at hn ⊢
    refine ⟨?_, forall₂_nodup f g hrs hn.2 (fun a ha a' ha' b b' hab hab' hg =>
      hinj a (List.mem_cons_of_mem _ ha) a' (List.mem_cons_of_mem _ ha') b b' hab hab' hg)⟩
    intro hm
    obtain ⟨y', hy', hgy⟩ := List.mem_map.mp hm
    obtain ⟨x', hx', hr'⟩ := forall₂_mem_right hrs hy'
    have := hinj x (by simp) x' (List.mem_cons_of_mem _ hx') y y' hr hr' hgy.symm
    exact hn.1 (this ▸ List.mem_map_of_mem hx')

end PV.Merge
