import PprofVerif.Lemmas.CodecSchemaFactsDec
/-!
The regenerated wire schema (`Gen/CodecSchema.lean`, written by tools/extract/codecschema.go from
profile/encode.go and profile/proto.go on every run) against the schema and the constants of the
model.  Proofs of the obligations `Props/C01.lean` and `Props/C02.lean` list under "wire schema";
a change of the Go schema makes one of the `decide`/`rfl` proofs below fail.
-/
namespace PV.CodecSchema.Facts
open PV PV.Wire PV.Codec PV.CodecSchema PV.Spec.CodecSchemaExpected

/-- The encoder schemas, interpreted generically, are the model's `encode` functions. -/
theorem schema_encoders_are_model :
    (∀ p : ProfileX, encodeBy ProfileX.dict p ProfileX.encSchema = some p.encode) ∧
    (∀ p : ValueTypeX, encodeBy ValueTypeX.dict p ValueTypeX.encSchema = some p.encode) ∧
    (∀ p : SampleX, encodeBy SampleX.dict p SampleX.encSchema = some p.encode) ∧
    (∀ p : LabelX, encodeBy LabelX.dict p LabelX.encSchema = some p.encode) ∧
    (∀ p : MappingX, encodeBy MappingX.dict p MappingX.encSchema = some p.encode) ∧
    (∀ p : LocationX, encodeBy LocationX.dict p LocationX.encSchema = some p.encode) ∧
    (∀ p : LineX, encodeBy LineX.dict p LineX.encSchema = some p.encode) ∧
    (∀ p : FunctionX, encodeBy FunctionX.dict p FunctionX.encSchema = some p.encode) :=
  ⟨ProfileX.encode_eq, ValueTypeX.encode_eq, SampleX.encode_eq, LabelX.encode_eq, MappingX.encode_eq,
   LocationX.encode_eq, LineX.encode_eq, FunctionX.encode_eq⟩

/-- The schema regenerated from profile/encode.go is the schema of the model: same message types
in the same order, same statements (tag, encoder, field, guard) in every `encode` method, same
decoder closure (shape, receiver type, field, nested message type) at every table index. -/
theorem codec_schema_matches : Gen.CodecSchema.all = expectedSchema := by
  first
  | decide
  | fail "OBLIGATION codec_schema_matches no longer holds: the encode methods / decoder tables of profile/encode.go are not the wire schema of the model (diff lean/PprofVerif/Gen/CodecSchema.lean against Model/CodecSchema.lean)"

/-- proto.go `encodeUint64s`/`encodeInt64s` switch to the packed form at the threshold the model
uses, for every tag and every list. -/
theorem packed_threshold_matches (tag : Nat) :
    (∀ xs : List Nat, encodeUint64s tag xs =
      if xs.length > Gen.CodecSchema.proto.packedThresholdUint64s
      then encodeMessage tag (xs.flatMap encodeVarint) else xs.flatMap (encodeUint64 tag)) ∧
    (∀ xs : List Int, encodeInt64s tag xs =
      if xs.length > Gen.CodecSchema.proto.packedThresholdInt64s
      then encodeMessage tag ((xs.map toU64).flatMap encodeVarint) else xs.flatMap (encodeInt64 tag)) := by
  first
  | (refine ⟨fun xs => rfl, fun xs => ?_⟩
     simp [encodeInt64s, encodeUint64s, Gen.CodecSchema.proto, List.flatMap_map]
     rfl)
  | fail "OBLIGATION packed_threshold_matches no longer holds: the packed-encoding threshold of proto.go encodeUint64s/encodeInt64s is not the model's (Model/Wire.lean: > 2); the round trip may still hold, the model no longer describes the bytes written"

/-- The model interns the strings of the probe profile in the order of `internSites`. -/
theorem intern_order_model : internTable probe = some ([] :: internSites.map (·.marker)) := by
  first
  | decide
  | fail "OBLIGATION intern_order_model no longer holds: Codec.preEncode does not intern the probe's strings in the order of Spec.internSites"

/-- preEncode of profile/encode.go calls `addString` in that order (same expressions under the same
loops and conditions). -/
theorem intern_order_matches :
    Gen.CodecSchema.emptyStringInternedFirst = true ∧ Gen.CodecSchema.internOrder = expectedInternOrder := by
  first
  | decide
  | fail "OBLIGATION intern_order_matches no longer holds: preEncode of profile/encode.go no longer calls addString in the model's order (or under other loops/conditions)"

end PV.CodecSchema.Facts
