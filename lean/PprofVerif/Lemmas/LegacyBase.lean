import PprofVerif.Model.LegacyBase
/-!
Helper lemmas for C14: number renderings and their readers, span/prefix scanners,
`splitLines ∘ unlines`, `trimSpace`, filler lines, hex address lists.
-/
namespace PV.Legacy
open PV

/-! ### `Stops p r`: `r` is empty or starts with a byte not satisfying `p` -/
def Stops (p : UInt8 → Bool) (r : Str) : Prop := ∀ c t, r = c :: t → p c = false

@[simp] theorem Stops_nil (p : UInt8 → Bool) : Stops p [] := by intro c t h; cases h
@[simp] theorem Stops_cons (p : UInt8 → Bool) (c : UInt8) (t : Str) : Stops p (c :: t) ↔ p c = false := by
  constructor
  · intro h; exact h c t rfl
  · intro h c' t' e; cases e; exact h

theorem takeWhile_append_stops {p : UInt8 → Bool} {a r : Str} (ha : ∀ b ∈ a, p b = true) (hr : Stops p r) :
    (a ++ r).takeWhile p = a := by
  rw [List.takeWhile_append_of_pos ha]
  cases r with
  | nil => simp
  | cons c t => simp [(Stops_cons p c t).1 hr]

theorem dropWhile_append_stops {p : UInt8 → Bool} {a r : Str} (ha : ∀ b ∈ a, p b = true) (hr : Stops p r) :
    (a ++ r).dropWhile p = r := by
  rw [List.dropWhile_append_of_pos ha]
  cases r with
  | nil => simp
  | cons c t => simp [(Stops_cons p c t).1 hr]

theorem dropWhile_stops {p : UInt8 → Bool} {r : Str} (hr : Stops p r) : r.dropWhile p = r := by
  simpa using dropWhile_append_stops (a := []) (by simp) hr

theorem takeWhile_stops {p : UInt8 → Bool} {r : Str} (hr : Stops p r) : r.takeWhile p = [] := by
  simpa using takeWhile_append_stops (a := []) (by simp) hr

theorem Stops_append_of_ne_nil {p : UInt8 → Bool} {a r : Str} (ha : a ≠ []) (h : Stops p a) : Stops p (a ++ r) := by
  cases a with
  | nil => exact absurd rfl ha
  | cons c t => simpa using h

/-! ### prefixes -/
@[simp] theorem stripPrefix_nil (s : Str) : stripPrefix [] s = some s := by cases s <;> rfl

theorem stripPrefix_append (l r : Str) : stripPrefix l (l ++ r) = some r := by
  induction l with
  | nil => simp
  | cons a l ih => simp [stripPrefix, ih]

theorem stripPrefix_cons_ne {a b : UInt8} (l s : Str) (h : a ≠ b) : stripPrefix (a :: l) (b :: s) = none := by
  simp [stripPrefix, h]

theorem hasPrefix_append (l r : Str) : hasPrefix l (l ++ r) = true := by simp [hasPrefix, stripPrefix_append]

/-! ### digits -/
theorem toNat_digitChar {d : Nat} (h : d < 16) : (digitChar d).toNat = if d < 10 then 48 + d else 87 + d := by
  unfold digitChar
  split <;> rw [UInt8.toNat_ofNat_of_lt'] <;> simp [UInt8.size] <;> omega

theorem digitVal_digitChar {d : Nat} (h : d < 16) : digitVal (digitChar d) = d := by
  simp only [digitVal, toNat_digitChar h]
  by_cases h10 : d < 10
  · simp [h10]; omega
  · simp only [h10, if_false]
    have : ¬ (48 ≤ 87 + d ∧ 87 + d ≤ 57) := by omega
    have h2 : (97 ≤ 87 + d ∧ 87 + d ≤ 102) := by omega
    simp [this, h2]

theorem isDigit_digitChar {d : Nat} (h : d < 10) : isDigit (digitChar d) = true := by
  simp [isDigit, toNat_digitChar (show d < 16 by omega), h]; omega

theorem isHexLower_digitChar {d : Nat} (h : d < 16) : isHexLower (digitChar d) = true := by
  simp only [isHexLower, isDigit, toNat_digitChar h]
  by_cases h10 : d < 10
  · simp [h10]; omega
  · simp [h10]; omega

theorem digitsRev_ne_nil (base f n : Nat) : digitsRev base (f+1) n ≠ [] := by
  simp only [digitsRev]; split <;> simp

theorem digitsRev_all {base : Nat} (hb : base ≤ 16) (hb2 : 2 ≤ base) :
    ∀ f n, ∀ b ∈ digitsRev base f n, ∃ d, d < base ∧ b = digitChar d := by
  intro f
  induction f with
  | zero => intro n b hb'; simp [digitsRev] at hb'
  | succ f ih =>
    intro n b hb'
    simp only [digitsRev] at hb'
    split at hb'
    · simp at hb'; exact ⟨n, by assumption, hb'⟩
    · simp at hb'
      rcases hb' with h | h
      · exact ⟨n % base, Nat.mod_lt _ (by omega), h⟩
      · exact ih _ _ h

/-- least-significant-first value -/
def valRev (base : Nat) : Str → Nat
  | [] => 0
  | b :: r => digitVal b + base * valRev base r

theorem valRev_digitsRev {base : Nat} (hb : base ≤ 16) (hb2 : 2 ≤ base) :
    ∀ f n, n < f → valRev base (digitsRev base f n) = n := by
  intro f
  induction f with
  | zero => intro n h; omega
  | succ f ih =>
    intro n h
    simp only [digitsRev]
    split
    · simp [valRev, digitVal_digitChar (show n < 16 by omega)]
    · rename_i hn
      have hlt : n / base < f := by
        have : n / base < n := Nat.div_lt_self (by omega) (by omega)
        omega
      simp only [valRev, ih _ hlt, digitVal_digitChar (show n % base < 16 from Nat.lt_of_lt_of_le (Nat.mod_lt _ (by omega)) hb)]
      have := Nat.mod_add_div n base
      omega

theorem valueOf_foldl (base : Nat) (s : Str) (acc : Nat) :
    s.foldl (fun acc b => acc * base + digitVal b) acc = acc * base ^ s.length + valueOf base s := by
  induction s generalizing acc with
  | nil => simp [valueOf]
  | cons b r ih =>
    simp only [List.foldl_cons, valueOf, List.length_cons]
    rw [ih, ih (0 * base + digitVal b)]
    simp [Nat.pow_succ, Nat.add_mul, Nat.mul_assoc, Nat.add_assoc, Nat.mul_comm base]

theorem valueOf_append (base : Nat) (a b : Str) :
    valueOf base (a ++ b) = valueOf base a * base ^ b.length + valueOf base b := by
  simp only [valueOf, List.foldl_append]
  exact valueOf_foldl base b _

theorem valueOf_reverse (base : Nat) (s : Str) : valueOf base s.reverse = valRev base s := by
  induction s with
  | nil => simp [valueOf, valRev]
  | cons b r ih =>
    simp only [List.reverse_cons, valueOf_append, ih, valRev]
    simp [valueOf, Nat.mul_comm, Nat.add_comm]

theorem valueOf_render {base : Nat} (hb : base ≤ 16) (hb2 : 2 ≤ base) (n : Nat) : valueOf base (render base n) = n := by
  simp [render, valueOf_reverse, valRev_digitsRev hb hb2 (n+1) n (by omega)]

theorem render_ne_nil (base n : Nat) : render base n ≠ [] := by
  simp [render, digitsRev_ne_nil]

theorem render_all {base : Nat} (hb : base ≤ 16) (hb2 : 2 ≤ base) (n : Nat) :
    ∀ b ∈ render base n, ∃ d, d < base ∧ b = digitChar d := by
  intro b h
  simp only [render, List.mem_reverse] at h
  exact digitsRev_all hb hb2 _ _ b h

theorem render_all_valid {base : Nat} (hb : base ≤ 16) (hb2 : 2 ≤ base) (n : Nat) :
    (render base n).all (fun b => decide (digitVal b < base)) = true := by
  simp only [List.all_eq_true, decide_eq_true_eq]
  intro b h
  obtain ⟨d, hd, rfl⟩ := render_all hb hb2 n b h
  rw [digitVal_digitChar (by omega)]; exact hd

theorem parseNat_render {base : Nat} (hb : base ≤ 16) (hb2 : 2 ≤ base) (n : Nat) :
    parseNat base (render base n) = some n := by
  simp [parseNat, render_ne_nil, render_all_valid hb hb2, valueOf_render hb hb2]

theorem dec_ne_nil (n : Nat) : dec n ≠ [] := render_ne_nil 10 n
theorem hex_ne_nil (n : Nat) : hex n ≠ [] := render_ne_nil 16 n

theorem dec_isDigit (n : Nat) : ∀ b ∈ dec n, isDigit b = true := by
  intro b h
  obtain ⟨d, hd, rfl⟩ := render_all (by decide) (by decide) n b h
  exact isDigit_digitChar hd

theorem hex_isHexLower (n : Nat) : ∀ b ∈ hex n, isHexLower b = true := by
  intro b h
  obtain ⟨d, hd, rfl⟩ := render_all (by decide) (by decide) n b h
  exact isHexLower_digitChar hd

theorem parseNat_dec (n : Nat) : parseNat 10 (dec n) = some n := parseNat_render (by decide) (by decide) n
theorem parseNat_hex (n : Nat) : parseNat 16 (hex n) = some n := parseNat_render (by decide) (by decide) n

theorem parseI64_dec {n : Nat} (h : n < two63) : parseI64 (dec n) = some n := by
  simp [parseI64, parseNat_dec, h]

/-! zero padding -/
theorem isHexLower_48 : isHexLower 48 = true := by decide
theorem digitVal_48 : digitVal 48 = 0 := by decide

theorem valueOf_zeros (base k : Nat) (s : Str) : valueOf base (List.replicate k 48 ++ s) = valueOf base s := by
  induction k with
  | zero => simp
  | succ k ih =>
    simp only [List.replicate_succ, List.cons_append]
    have : valueOf base (48 :: (List.replicate k 48 ++ s)) = valueOf base ([48] ++ (List.replicate k 48 ++ s)) := rfl
    rw [this, valueOf_append, ih]
    simp [valueOf, digitVal_48]

theorem hexPad_ne_nil (w n : Nat) : hexPad w n ≠ [] := by simp [hexPad, hex_ne_nil]

theorem hexPad_isHexLower (w n : Nat) : ∀ b ∈ hexPad w n, isHexLower b = true := by
  intro b h
  simp only [hexPad, List.mem_append, List.mem_replicate] at h
  rcases h with ⟨_, rfl⟩ | h
  · exact isHexLower_48
  · exact hex_isHexLower n b h

theorem isHexLower_digitVal {b : UInt8} (h : isHexLower b = true) : digitVal b < 16 := by
  simp only [isHexLower, isDigit, Bool.or_eq_true, decide_eq_true_eq] at h
  unfold digitVal
  rcases h with h | h
  · simp [h]; omega
  · have : ¬ (48 ≤ b.toNat ∧ b.toNat ≤ 57) := by omega
    simp [this, h]; omega

theorem parseNat_hexPad (w n : Nat) : parseNat 16 (hexPad w n) = some n := by
  have hall : (hexPad w n).all (fun b => decide (digitVal b < 16)) = true := by
    simp only [List.all_eq_true, decide_eq_true_eq]
    intro b h; exact isHexLower_digitVal (hexPad_isHexLower w n b h)
  have hv : valueOf 16 (hexPad w n) = n := by
    simp [hexPad, valueOf_zeros, hex, valueOf_render]
  simp [parseNat, hexPad_ne_nil, hall, hv]

theorem parseU64Hex_hexPad {w n : Nat} (h : n < two64) : parseU64Hex (hexPad w n) = some n := by
  simp [parseU64Hex, parseNat_hexPad, h]

theorem parseU64Base0_hex0x {w n : Nat} (h : n < two64) : parseU64Base0 (hex0x w n) = some n := by
  have : hex0x w n = [48, 120] ++ hexPad w n := rfl
  unfold parseU64Base0
  rw [this, stripPrefix_append]
  exact parseU64Hex_hexPad h


/-! ### leading digit, base-0 reader -/
theorem digitsRev_getLast {base : Nat} (hb2 : 2 ≤ base) :
    ∀ f n, n < f → 0 < n → ∃ d, 0 < d ∧ d < base ∧ (digitsRev base f n).getLast? = some (digitChar d) := by
  intro f
  induction f with
  | zero => intro n h; omega
  | succ f ih =>
    intro n h hn
    simp only [digitsRev]
    split
    · exact ⟨n, hn, by assumption, by simp⟩
    · rename_i hnb
      have hlt : n / base < f := by
        have : n / base < n := Nat.div_lt_self (by omega) (by omega)
        omega
      have hpos : 0 < n / base := Nat.div_pos (by omega) (by omega)
      obtain ⟨d, hd0, hdb, hl⟩ := ih (n / base) hlt hpos
      refine ⟨d, hd0, hdb, ?_⟩
      cases hq : digitsRev base f (n / base) with
      | nil => rw [hq] at hl; simp at hl
      | cons x xs => rw [hq] at hl; simpa [List.getLast?_cons_cons] using hl

theorem dec_head {n : Nat} (hn : 0 < n) : ∃ c r, dec n = c :: r ∧ c.toNat ≠ 48 := by
  obtain ⟨d, hd0, hdb, hl⟩ := digitsRev_getLast (base := 10) (by decide) (n+1) n (by omega) hn
  have hh : (dec n).head? = some (digitChar d) := by
    simp only [dec, render, List.head?_reverse]; exact hl
  cases hq : dec n with
  | nil => rw [hq] at hh; simp at hh
  | cons c r =>
    rw [hq] at hh
    simp at hh
    refine ⟨c, r, rfl, ?_⟩
    rw [hh, toNat_digitChar (by omega)]
    split <;> omega

theorem parseI64Base0_dec {n : Nat} (h : n < two63) : parseI64Base0 (dec n) = some n := by
  rw [← parseI64_dec h]
  by_cases hn : n = 0
  · subst hn; decide
  · obtain ⟨c, r, hq, hc⟩ := dec_head (Nat.pos_of_ne_zero hn)
    rw [hq]
    cases r with
    | nil => rfl
    | cons c2 r2 => simp [parseI64Base0, hc]

/-! ### lines -/
/-- a line the printers may emit: no newline, no carriage return. -/
def LineOK (l : Str) : Prop := ∀ b ∈ l, b.toNat ≠ 10 ∧ b.toNat ≠ 13

instance (l : Str) : Decidable (LineOK l) := by unfold LineOK; infer_instance

theorem dropCR_of_ok {l : Str} (h : LineOK l) : dropCR l = l := by
  unfold dropCR
  split
  · rename_i hl
    have : l.getLast? = some 13 := by simpa using hl
    have hm := List.mem_of_getLast? this
    exact absurd rfl (h 13 hm).2
  · rfl

theorem splitLinesAux_line (l rest acc : Str) (h : ∀ b ∈ l, b.toNat ≠ 10) :
    splitLinesAux (l ++ 10 :: rest) acc = dropCR (acc.reverse ++ l) :: splitLinesAux rest [] := by
  induction l generalizing acc with
  | nil => simp [splitLinesAux]
  | cons b l ih =>
    have hb : b.toNat ≠ 10 := h b (by simp)
    simp only [List.cons_append, splitLinesAux, beq_iff_eq, hb, if_false]
    rw [ih (b :: acc) (fun x hx => h x (by simp [hx]))]
    simp

theorem splitLines_unlines (ls : List Str) (h : ∀ l ∈ ls, LineOK l) : splitLines (unlines ls) = ls := by
  unfold splitLines
  induction ls with
  | nil => simp [unlines, splitLinesAux]
  | cons l ls ih =>
    have hl : LineOK l := h l (by simp)
    simp only [unlines, List.flatMap_cons, List.append_assoc, List.singleton_append]
    rw [splitLinesAux_line l _ [] (fun b hb => (hl b hb).1)]
    simp only [List.reverse_nil, List.nil_append, dropCR_of_ok hl]
    congr 1
    exact ih (fun l' hl' => h l' (by simp [hl']))

theorem LineOK_append {a b : Str} (ha : LineOK a) (hb : LineOK b) : LineOK (a ++ b) := by
  intro x hx; rcases List.mem_append.1 hx with h | h
  · exact ha x h
  · exact hb x h

theorem LineOK_of_isPrint {l : Str} (h : ∀ b ∈ l, isPrint b = true) : LineOK l := by
  intro b hb
  have := h b hb
  simp only [isPrint, decide_eq_true_eq] at this
  omega

theorem isPrint_of_isHexLower {b : UInt8} (h : isHexLower b = true) : isPrint b = true := by
  simp only [isHexLower, isDigit, Bool.or_eq_true, decide_eq_true_eq] at h
  simp only [isPrint, decide_eq_true_eq]; omega

theorem isPrint_of_isDigit {b : UInt8} (h : isDigit b = true) : isPrint b = true := by
  simp only [isDigit, decide_eq_true_eq] at h
  simp only [isPrint, decide_eq_true_eq]; omega

theorem LineOK_dec (n : Nat) : LineOK (dec n) :=
  LineOK_of_isPrint (fun b hb => isPrint_of_isDigit (dec_isDigit n b hb))

theorem LineOK_hexPad (w n : Nat) : LineOK (hexPad w n) :=
  LineOK_of_isPrint (fun b hb => isPrint_of_isHexLower (hexPad_isHexLower w n b hb))

theorem LineOK_replicate32 (n : Nat) : LineOK (List.replicate n 32) := by
  intro b hb; rw [List.mem_replicate] at hb; rw [hb.2]; decide

/-! ### trimming -/
theorem isSpace_32 : isSpace 32 = true := by decide

theorem trimLeft_replicate (n : Nat) (body : Str) (h : Stops isSpace body) :
    trimLeft (List.replicate n 32 ++ body) = body := by
  unfold trimLeft
  exact dropWhile_append_stops (by intro b hb; rw [List.mem_replicate] at hb; rw [hb.2]; exact isSpace_32) h

theorem trimRight_of_stops {s : Str} (h : Stops isSpace s.reverse) : trimRight s = s := by
  unfold trimRight; rw [dropWhile_stops h]; simp

theorem trimSpace_replicate (n : Nat) (body : Str) (h1 : Stops isSpace body) (h2 : Stops isSpace body.reverse) :
    trimSpace (List.replicate n 32 ++ body) = body := by
  unfold trimSpace; rw [trimLeft_replicate n body h1, trimRight_of_stops h2]

theorem trimSpace_of_stops {body : Str} (h1 : Stops isSpace body) (h2 : Stops isSpace body.reverse) :
    trimSpace body = body := by
  simpa using trimSpace_replicate 0 body h1 h2

theorem trimSpace_blank (n : Nat) : trimSpace (List.replicate n 32) = [] := by
  have := trimLeft_replicate n [] (by simp)
  simp only [List.append_nil] at this
  simp [trimSpace, this, trimRight]

theorem dropWhile_snoc_neg {p : UInt8 → Bool} (l : Str) (c : UInt8) (hc : p c = false) :
    ∃ l', (l ++ [c]).dropWhile p = l' ++ [c] := by
  induction l with
  | nil => exact ⟨[], by simp [hc]⟩
  | cons b l ih =>
    obtain ⟨l', hl'⟩ := ih
    by_cases hb : p b = true
    · exact ⟨l', by simp [List.dropWhile_cons, hb, hl']⟩
    · exact ⟨b :: l, by simp [List.dropWhile_cons, hb]⟩

theorem trimRight_cons {c : UInt8} (t : Str) (hc : isSpace c = false) : ∃ t', trimRight (c :: t) = c :: t' := by
  unfold trimRight
  obtain ⟨l', hl'⟩ := dropWhile_snoc_neg (p := isSpace) t.reverse c hc
  rw [List.reverse_cons, hl']
  exact ⟨l'.reverse, by simp⟩

theorem isSpaceOrComment_filler (f : Filler) : isSpaceOrComment f.print = true := by
  unfold Filler.print isSpaceOrComment
  cases f.comment with
  | none => simp [trimSpace_blank]
  | some t =>
    simp only [trimSpace]
    rw [trimLeft_replicate _ _ (by simp; decide)]
    obtain ⟨t', ht'⟩ := trimRight_cons (c := 35) t (by decide)
    rw [ht']; rfl

/-- a non-blank, non-comment body -/
theorem isSpaceOrComment_body (n : Nat) (c : UInt8) (t : Str) (hc : c.toNat ≠ 35) (h1 : isSpace c = false)
    (h2 : Stops isSpace (c :: t).reverse) : isSpaceOrComment (List.replicate n 32 ++ c :: t) = false := by
  unfold isSpaceOrComment
  rw [trimSpace_replicate n (c :: t) (by simpa using h1) h2]
  simp [hc]

theorem LineOK_filler {f : Filler} (h : f.wf = true) : LineOK f.print := by
  unfold Filler.print
  apply LineOK_append (LineOK_replicate32 _)
  cases hc : f.comment with
  | none => intro b hb; simp at hb
  | some t =>
    simp only [Filler.wf, hc, commentOK, List.all_eq_true, Bool.and_eq_true] at h
    apply LineOK_of_isPrint
    intro b hb
    simp only [List.mem_cons] at hb
    rcases hb with rfl | hb
    · decide
    · exact (h b hb).1.1.1

/-! ### address lists -/
theorem printAddrs_nil (w : Nat) : printAddrs w [] = [] := rfl
theorem printAddrs_cons (w a : Nat) (as : List Nat) :
    printAddrs w (a :: as) = 32 :: 48 :: 120 :: (hexPad w a ++ printAddrs w as) := by
  simp [printAddrs, hex0x]

theorem Stops_isHexLower_printAddrs (w : Nat) (as : List Nat) : Stops isHexLower (printAddrs w as) := by
  cases as with
  | nil => simp [printAddrs]
  | cons a as => rw [printAddrs_cons]; simp; decide

/-! `findHex` (state machine) on printed address lists -/
theorem hexRestart_of_ne {b : UInt8} (h : b.toNat ≠ 48) : hexRestart b = .s0 := by simp [hexRestart, h]

theorem isHexLower_toNat {b : UInt8} (h : isHexLower b = false) : b.toNat ≠ 48 := by
  intro e
  have : b = 48 := UInt8.toNat_inj.1 (by simpa using e)
  subst this; revert h; decide

theorem findHexGo_digits (ds R acc : Str) (hd : ∀ b ∈ ds, isHexLower b = true) :
    findHexGo (ds ++ R) (.s3 acc) = findHexGo R (.s3 (ds.reverse ++ acc)) := by
  induction ds generalizing acc with
  | nil => rfl
  | cons b ds ih =>
    simp only [List.cons_append, findHexGo, hd b (by simp), if_true]
    rw [ih (b :: acc) (fun x hx => hd x (by simp [hx]))]
    simp

theorem findHexGo_s3_stop (R acc : Str) (hR : Stops isHexLower R) :
    findHexGo R (.s3 acc) = acc.reverse :: findHexGo R .s0 := by
  cases R with
  | nil => simp [findHexGo]
  | cons c t =>
    have hc : isHexLower c = false := (Stops_cons _ c t).1 hR
    simp [findHexGo, hc]

theorem findHexGo_s2_digits (ds R : Str) (hne : ds ≠ []) (hd : ∀ b ∈ ds, isHexLower b = true) (hR : Stops isHexLower R) :
    findHexGo (ds ++ R) .s2 = ds :: findHexGo R .s0 := by
  cases ds with
  | nil => exact absurd rfl hne
  | cons d ds =>
    simp only [List.cons_append, findHexGo, hd d (by simp), if_true]
    rw [findHexGo_digits ds R [d] (fun x hx => hd x (by simp [hx])), findHexGo_s3_stop _ _ hR]
    simp

theorem findHexGo_printAddrs (w : Nat) (as : List Nat) (C : Str) (hC : Stops isHexLower C) :
    findHexGo (printAddrs w as ++ C) .s0 = as.map (hexPad w) ++ findHexGo C .s0 := by
  induction as with
  | nil => simp [printAddrs]
  | cons a as ih =>
    rw [printAddrs_cons]
    have hS : Stops isHexLower (printAddrs w as ++ C) := by
      cases as with
      | nil => simpa [printAddrs] using hC
      | cons a' as' => rw [printAddrs_cons]; simp; decide
    have e : findHexGo (32 :: 48 :: 120 :: (hexPad w a ++ printAddrs w as) ++ C) .s0
        = findHexGo (hexPad w a ++ (printAddrs w as ++ C)) .s2 := by
      simp [findHexGo, hexRestart]
    rw [e, findHexGo_s2_digits _ _ (hexPad_ne_nil w a) (hexPad_isHexLower w a) hS, ih]
    simp

/-- bytes that cannot take part in a hex literal keep the scanner in its start state -/
theorem findHexGo_skip (A S : Str) (hA : ∀ b ∈ A, b.toNat ≠ 48) : findHexGo (A ++ S) .s0 = findHexGo S .s0 := by
  induction A with
  | nil => rfl
  | cons b A ih =>
    simp only [List.cons_append, findHexGo, hexRestart_of_ne (hA b (by simp))]
    exact ih (fun x hx => hA x (by simp [hx]))

theorem findHexGo_none (A : Str) (hA : ∀ b ∈ A, b.toNat ≠ 48) : findHexGo A .s0 = [] := by
  simpa [findHexGo] using findHexGo_skip A [] hA

theorem findHex_printAddrs (w : Nat) (as : List Nat) : findHex (printAddrs w as) = as.map (hexPad w) := by
  simpa [findHex, findHexGo] using findHexGo_printAddrs w as [] (by simp)

theorem parseHexList_map (w : Nat) (as : List Nat) (h : ∀ a ∈ as, a < two64) :
    parseHexList (as.map (hexPad w)) = some as := by
  induction as with
  | nil => rfl
  | cons a as ih =>
    simp only [List.map_cons, parseHexList, parseU64Hex_hexPad (h a (by simp)),
      ih (fun x hx => h x (by simp [hx]))]
    rfl

theorem parseHexAddresses_printAddrs (w : Nat) (as : List Nat) (h : ∀ a ∈ as, a < two64) :
    parseHexAddresses (printAddrs w as) = some as := by
  simp [parseHexAddresses, findHex_printAddrs, parseHexList_map w as h]

/-- the class `[ x0-9a-f]` -/
def isAddrText (x : UInt8) : Bool := x.toNat == 32 || x.toNat == 120 || isHexLower x

theorem printAddrs_isAddrText (w : Nat) (as : List Nat) : ∀ b ∈ printAddrs w as, isAddrText b = true := by
  induction as with
  | nil => intro b hb; simp [printAddrs] at hb
  | cons a as ih =>
    intro b hb
    rw [printAddrs_cons] at hb
    simp only [List.mem_cons, List.mem_append] at hb
    rcases hb with rfl | rfl | rfl | hb | hb
    · decide
    · decide
    · decide
    · simp [isAddrText, hexPad_isHexLower w a b hb]
    · exact ih b hb

theorem LineOK_printAddrs (w : Nat) (as : List Nat) : LineOK (printAddrs w as) := by
  apply LineOK_of_isPrint
  intro b hb
  have := printAddrs_isAddrText w as b hb
  simp only [isAddrText, Bool.or_eq_true, beq_iff_eq] at this
  rcases this with (h | h) | h
  · simp [isPrint, h]
  · simp [isPrint, h]
  · exact isPrint_of_isHexLower h


/-! ### ends of printed texts (for `TrimSpace`) -/
theorem isSpace_false_of_isHexLower {b : UInt8} (h : isHexLower b = true) : isSpace b = false := by
  simp only [isHexLower, isDigit, Bool.or_eq_true, decide_eq_true_eq] at h
  simp only [isSpace, isReSpace, Bool.or_eq_false_iff, beq_eq_false_iff_ne]
  omega

theorem Stops_reverse_append {p : UInt8 → Bool} (a b : Str) (hb : b ≠ []) (h : Stops p b.reverse) :
    Stops p (a ++ b).reverse := by
  rw [List.reverse_append]
  exact Stops_append_of_ne_nil (by simpa using hb) h

theorem render_reverse_stops (base n : Nat) (hb : base ≤ 16) (hb2 : 2 ≤ base) : Stops isSpace (render base n).reverse := by
  have hne := render_ne_nil base n
  cases hq : (render base n).reverse with
  | nil => simp at hq; exact absurd hq hne
  | cons c t =>
    have hc : c ∈ render base n := by
      have : c ∈ (render base n).reverse := by rw [hq]; simp
      simpa using this
    obtain ⟨d, hd, rfl⟩ := render_all hb hb2 n c hc
    simp only [Stops_cons]
    exact isSpace_false_of_isHexLower (isHexLower_digitChar (by omega))

theorem dec_reverse_stops (n : Nat) : Stops isSpace (dec n).reverse := render_reverse_stops 10 n (by decide) (by decide)
theorem hex_reverse_stops (n : Nat) : Stops isSpace (hex n).reverse := render_reverse_stops 16 n (by decide) (by decide)

theorem hexPad_reverse_stops (w n : Nat) : Stops isSpace (hexPad w n).reverse := by
  unfold hexPad
  exact Stops_reverse_append _ _ (hex_ne_nil n) (hex_reverse_stops n)

theorem printAddrs_ne_nil (w : Nat) {as : List Nat} (h : as ≠ []) : printAddrs w as ≠ [] := by
  cases as with
  | nil => exact absurd rfl h
  | cons a as => rw [printAddrs_cons]; simp

theorem printAddrs_reverse_stops (w : Nat) (as : List Nat) (h : as ≠ []) : Stops isSpace (printAddrs w as).reverse := by
  induction as with
  | nil => exact absurd rfl h
  | cons a as ih =>
    rw [printAddrs_cons]
    by_cases has : as = []
    · subst has
      simp only [printAddrs_nil, List.append_nil]
      rw [show (32 :: 48 :: 120 :: hexPad w a) = [32, 48, 120] ++ hexPad w a from rfl]
      exact Stops_reverse_append _ _ (hexPad_ne_nil w a) (hexPad_reverse_stops w a)
    · rw [show (32 :: 48 :: 120 :: (hexPad w a ++ printAddrs w as)) = ([32, 48, 120] ++ hexPad w a) ++ printAddrs w as by simp]
      exact Stops_reverse_append _ _ (printAddrs_ne_nil w has) (ih has)

/-- text ending in an address list (or, without addresses, in `pre`) -/
theorem append_printAddrs_reverse_stops (pre : Str) (w : Nat) (as : List Nat) (hpre : Stops isSpace pre.reverse) (hne : pre ≠ []) :
    Stops isSpace (pre ++ printAddrs w as).reverse := by
  by_cases has : as = []
  · subst has; simpa [printAddrs_nil] using hpre
  · exact Stops_reverse_append _ _ (printAddrs_ne_nil w has) (printAddrs_reverse_stops w as has)

theorem isSpaceOrComment_head (n : Nat) {c : UInt8} (t : Str) (h1 : isSpace c = false) (h2 : c.toNat ≠ 35) :
    isSpaceOrComment (List.replicate n 32 ++ c :: t) = false := by
  unfold isSpaceOrComment trimSpace
  rw [trimLeft_replicate _ _ (by simpa using h1)]
  obtain ⟨t', ht'⟩ := trimRight_cons t h1
  rw [ht']; simp [h2]

theorem isSpaceOrComment_head' {c : UInt8} (t : Str) (h1 : isSpace c = false) (h2 : c.toNat ≠ 35) :
    isSpaceOrComment (c :: t) = false := by
  simpa using isSpaceOrComment_head 0 t h1 h2

theorem dec_cons (n : Nat) : ∃ c t, dec n = c :: t ∧ isDigit c = true := by
  cases hq : dec n with
  | nil => exact absurd hq (dec_ne_nil n)
  | cons c t => exact ⟨c, t, rfl, dec_isDigit n c (by simp [hq])⟩

theorem isSpace_false_of_isDigit {b : UInt8} (h : isDigit b = true) : isSpace b = false :=
  isSpace_false_of_isHexLower (by simp [isHexLower, h])

theorem ne35_of_isDigit {b : UInt8} (h : isDigit b = true) : b.toNat ≠ 35 := by
  simp only [isDigit, decide_eq_true_eq] at h; omega

theorem ne45_of_isDigit {b : UInt8} (h : isDigit b = true) : b ≠ 45 := by
  intro e; subst e; revert h; decide

end PV.Legacy
