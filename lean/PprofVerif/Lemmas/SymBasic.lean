import PprofVerif.Model.Symbolize
/-!
Helper lemmas for C12 (1/3): machine integers (`adjust`), `removeMatching`, demangling.
Core Lean only.
-/
namespace PV.Sym
open PV

/-! ### adjust -/

theorem adjust_eq (addr : Nat) (off : Int) (ha : addr < two64)
    (hlo : -(two63 : Int) ≤ off) (hhi : off < (two63 : Int)) :
    adjust addr off =
      if 0 ≤ (addr : Int) + off ∧ (addr : Int) + off < (two64 : Int)
      then some ((addr : Int) + off).toNat else none := by
  have h64 : (two64 : Int) = 18446744073709551616 := rfl
  have h63 : (two63 : Int) = 9223372036854775808 := rfl
  have ha' : (addr : Int) < 18446744073709551616 := by unfold two64 at ha; omega
  rw [h63] at hlo hhi
  unfold adjust toU64
  by_cases hc : 0 ≤ (addr : Int) + off ∧ (addr : Int) + off < (two64 : Int)
  · have hm : (((addr : Int) + off) % (two64 : Int)).toNat = ((addr : Int) + off).toNat := by
      rw [h64] at *; omega
    rw [if_pos hc, hm]
    rw [h64] at hc
    by_cases h0 : off < 0
    · rw [if_pos h0, if_neg (by omega)]
    · rw [if_neg h0, if_neg (by omega)]
  · rw [if_neg hc]
    rw [h64] at hc
    by_cases h0 : off < 0
    · have hm : (((addr : Int) + off) % (two64 : Int)).toNat ≥ addr := by rw [h64]; omega
      rw [if_pos h0, if_pos hm]
    · have hm : (((addr : Int) + off) % (two64 : Int)).toNat < addr := by rw [h64]; omega
      rw [if_neg h0, if_pos hm]

/-! ### removeMatching -/

theorem rmScan_kept (a b : UInt8) (n : Nat) (kept pend s : Str) :
    rmScan a b n kept pend s = kept ++ rmScan a b n [] pend s := by
  induction s generalizing n kept pend with
  | nil => cases n <;> simp [rmScan]
  | cons c cs ih =>
    cases n with
    | zero =>
      simp only [rmScan]
      split
      · exact ih 1 kept [c]
      · split
        · simp
        · rw [ih 0 (kept ++ [c]) [], ih 0 ([] ++ [c]) []]; simp
    | succ n =>
      simp only [rmScan]
      split
      · exact ih (n+2) kept _
      · split
        · split
          · exact ih 0 kept []
          · exact ih n kept _
        · exact ih (n+1) kept _

theorem rmScan_sublist (a b : UInt8) (n : Nat) (kept pend s : Str) :
    (rmScan a b n kept pend s).Sublist (kept ++ pend ++ s) := by
  induction s generalizing n kept pend with
  | nil => cases n <;> simp [rmScan]
  | cons c cs ih =>
    cases n with
    | zero =>
      simp only [rmScan]
      split
      · have := ih 1 kept [c]
        refine this.trans ?_
        simp only [List.append_assoc]
        exact (List.Sublist.refl _).append ((List.sublist_append_right pend _))
      · split
        · simp only [List.append_assoc]
          exact (List.Sublist.refl _).append (List.sublist_append_right pend _)
        · have := ih 0 (kept ++ [c]) []
          refine this.trans ?_
          simp only [List.append_assoc, List.append_nil, List.singleton_append]
          exact (List.Sublist.refl _).append (List.sublist_append_right pend _)
    | succ n =>
      simp only [rmScan]
      split
      · have := ih (n+2) kept (pend ++ [c]); simpa using this
      · split
        · split
          · have := ih 0 kept []
            refine this.trans ?_
            simp only [List.append_nil, List.append_assoc]
            exact (List.Sublist.refl _).append ((List.sublist_append_right pend _).trans
              ((List.Sublist.refl _).append (List.sublist_cons_self c cs)))
          · have := ih n kept (pend ++ [c]); simpa using this
        · have := ih (n+1) kept (pend ++ [c]); simpa using this

theorem removeMatching_sublist (s : Str) (a b : UInt8) : (removeMatching s a b).Sublist s := by
  have := rmScan_sublist a b 0 [] [] s
  simpa [removeMatching] using this

theorem rmScan_plain (a b : UInt8) (s rest : Str) (ha : a ∉ s) (hb : b ∉ s) :
    rmScan a b 0 [] [] (s ++ rest) = s ++ rmScan a b 0 [] [] rest := by
  induction s with
  | nil => simp
  | cons c cs ih =>
    simp only [List.mem_cons, not_or] at ha hb
    simp only [List.cons_append, rmScan]
    rw [if_neg (fun h => ha.1 h.symm), if_neg (fun h => hb.1 h.symm)]
    rw [rmScan_kept, ih ha.2 hb.2]; simp

/-- inside a group at depth 1 whose body contains neither bracket, the scan drops the group. -/
theorem rmScan_group (a b : UInt8) (pend mid rest : Str) (hab : a ≠ b) (ha : a ∉ mid) (hb : b ∉ mid) :
    rmScan a b 1 [] pend (mid ++ b :: rest) = rmScan a b 0 [] [] rest := by
  induction mid generalizing pend with
  | nil =>
    simp only [List.nil_append, rmScan]
    rw [if_neg (fun h => hab h.symm)]; simp
  | cons c cs ih =>
    simp only [List.mem_cons, not_or] at ha hb
    simp only [List.cons_append, rmScan]
    rw [if_neg (fun h => ha.1 h.symm), if_neg (fun h => hb.1 h.symm)]
    exact ih _ ha.2 hb.2

theorem removeMatching_noop (s : Str) (a b : UInt8) (ha : a ∉ s) (hb : b ∉ s) :
    removeMatching s a b = s := by
  have := rmScan_plain a b s [] ha hb
  simpa [removeMatching, rmScan] using this

theorem removeMatching_group (pre mid post : Str) (a b : UInt8) (hab : a ≠ b)
    (ha1 : a ∉ pre) (hb1 : b ∉ pre) (ha2 : a ∉ mid) (hb2 : b ∉ mid) :
    removeMatching (pre ++ a :: (mid ++ b :: post)) a b = pre ++ removeMatching post a b := by
  unfold removeMatching
  rw [rmScan_plain a b pre _ ha1 hb1]
  congr 1
  simp only [rmScan, if_true]
  exact rmScan_group a b [a] mid post hab ha2 hb2

/-! ### demangling -/

theorem heuristicName_ne_nil (opts : List DOpt) (sys : Str) (h : sys ≠ []) :
    heuristicName opts sys ≠ [] := by
  unfold heuristicName
  split
  · simp only []
    split
    · exact h
    · assumption
  · exact h

theorem demangleSingle_name_ne_nil (filter : List DOpt → Str → Str)
    (hf : ∀ o s, s ≠ [] → filter o s ≠ []) (opts : List DOpt) (f : Function) (h : f.name ≠ []) :
    (demangleSingle filter opts f).name ≠ [] := by
  unfold demangleSingle
  split
  · exact h
  · rename_i hc
    have hs : f.systemName = f.name := by
      by_cases e : f.systemName = f.name
      · exact e
      · exact absurd ⟨h, e⟩ hc
    have hsys : f.systemName ≠ [] := hs ▸ h
    simp only []
    split
    · exact hf _ _ hsys
    · split
      · rename_i t ht
        split
        · rename_i hd
          by_cases e : t = []
          · intro h2; apply hd; simp only [] at h2; rw [h2, e]
          · exact hf _ _ e
        · exact heuristicName_ne_nil _ _ hsys
      · exact heuristicName_ne_nil _ _ hsys

theorem forceReset_name_ne_nil (f : Function) (h : f.name ≠ []) : (forceReset f).name ≠ [] := by
  unfold forceReset
  split
  · rename_i hc; exact hc.2
  · exact h

theorem demangleOne_name_ne_nil (filter : List DOpt → Str → Str)
    (hf : ∀ o s, s ≠ [] → filter o s ≠ []) (force : Bool) (dm : DMode) (f : Function)
    (h : f.name ≠ []) : (demangleOne filter force dm f).name ≠ [] := by
  unfold demangleOne
  have h1 : (if force then forceReset f else f).name ≠ [] := by
    split
    · exact forceReset_name_ne_nil f h
    · exact h
  simp only []
  split
  · exact h1
  · exact demangleSingle_name_ne_nil filter hf _ _ h1

/-- `Demangle` changes nothing but `name`. -/
theorem demangleSingle_frame (filter : List DOpt → Str → Str) (opts : List DOpt) (f : Function) :
    (demangleSingle filter opts f).id = f.id ∧ (demangleSingle filter opts f).systemName = f.systemName ∧
    (demangleSingle filter opts f).filename = f.filename ∧ (demangleSingle filter opts f).startLine = f.startLine := by
  unfold demangleSingle
  split
  · simp
  · simp only []
    split
    · simp
    · split
      · split <;> simp
      · simp

theorem forceReset_frame (f : Function) :
    (forceReset f).id = f.id ∧ (forceReset f).systemName = f.systemName ∧
    (forceReset f).filename = f.filename ∧ (forceReset f).startLine = f.startLine := by
  unfold forceReset; split <;> simp

theorem demangleOne_frame (filter : List DOpt → Str → Str) (force : Bool) (dm : DMode) (f : Function) :
    (demangleOne filter force dm f).id = f.id ∧ (demangleOne filter force dm f).systemName = f.systemName ∧
    (demangleOne filter force dm f).filename = f.filename ∧ (demangleOne filter force dm f).startLine = f.startLine := by
  unfold demangleOne
  simp only []
  have h1 := forceReset_frame f
  split
  · split <;> simp [h1]
  · have h2 := demangleSingle_frame filter (by assumption :: by assumption) (if force then forceReset f else f)
    split <;> simp_all

theorem demangle_map_id (filter : List DOpt → Str → Str) (force : Bool) (dm : DMode) (fs : List Function) :
    (demangle filter force dm fs).map (·.id) = fs.map (·.id) := by
  unfold demangle
  rw [List.map_map]
  apply List.map_congr_left
  intro f _
  exact (demangleOne_frame filter force dm f).1

end PV.Sym
