import PprofVerif.Lemmas.TagFrames
/-!
`addLabelNodes` at the level of abstract samples: the sample list of the rewritten profile is the
original one with every stack extended by its label-derived pseudo frames.
-/
namespace PV.Graph
open PV PV.GSpec

theorem Ext.of_fields {p1 p2 : Profile} (h1 : p2.locations = p1.locations) (h2 : p2.functions = p1.functions)
    (h3 : p2.mappings = p1.mappings) : Ext p1 p2 := by
  refine ⟨?_, ?_, h3⟩
  · intro id l h; unfold Profile.findLocation at h ⊢; rw [h1]; exact h
  · intro id f h; unfold Profile.findFunction at h ⊢; rw [h2]; exact h

theorem findMapping_zero_of_valid (p : Profile) (hv : p.Valid) : p.findMapping 0 = none := by
  unfold Profile.Valid Profile.validB at hv
  simp only [Bool.and_eq_true, decide_eq_true_eq] at hv
  obtain ⟨⟨⟨⟨_, hm⟩, _⟩, _⟩, _⟩ := hv
  unfold idsNodup at hm
  have hm' := of_decide_eq_true hm
  unfold Profile.findMapping
  rw [List.find?_eq_none]
  intro m hmem hid
  apply hm'.2
  have : m.id = 0 := by simpa using hid
  rw [← this]
  exact List.mem_map.mpr ⟨m, hmem, rfl⟩

/-- the abstract sample of a tagged sample -/
def extendSample (clean : Str → Str) (rk lk : List Str) (s : Sample) (g : GSample NodeInfo) : GSample NodeInfo :=
  { g with frames := extendFrames clean rk lk s g.frames }

theorem optAll_cons_some {α β : Type} (f : α → Option β) (a : α) (r : List α) (bs : List β)
    (h : optAll f (a :: r) = some bs) : ∃ b bs', f a = some b ∧ optAll f r = some bs' ∧ bs = b :: bs' := by
  cases hfa : f a with
  | none => simp [optAll, hfa] at h
  | some b =>
    cases hr : optAll f r with
    | none => simp [optAll, hfa, hr] at h
    | some bs' =>
      simp [optAll, hfa, hr] at h
      exact ⟨b, bs', rfl, rfl, h.symm⟩

theorem samples_tagged (clean : Str → Str) (p p' : Profile) (e : Ext p p') (hm : p'.findMapping 0 = none)
    (o : GOpts) (rk lk : List Str) (vi : Nat) (mean : Bool) :
    ∀ (l l' : List Sample) (ss : List (GSample NodeInfo)), AllTagged p' rk lk l l' →
    optAll (fun s =>
      match framesOf clean p o s, s.values[vi]?, (if mean then s.values[0]? else some 0) with
      | some fs, some w, some d => some ({ frames := fs, w := w, d := d, base := isBase s } : GSample NodeInfo)
      | _, _, _ => none) l = some ss →
    optAll (fun s =>
      match framesOf clean p' o s, s.values[vi]?, (if mean then s.values[0]? else some 0) with
      | some fs, some w, some d => some ({ frames := fs, w := w, d := d, base := isBase s } : GSample NodeInfo)
      | _, _, _ => none) l' = some (List.zipWith (extendSample clean rk lk) l ss) := by
  intro l
  induction l with
  | nil =>
    intro l' ss ht h
    cases l' with
    | nil => simp [optAll] at h; subst h; rfl
    | cons _ _ => exact ht.elim
  | cons s r ih =>
    intro l' ss ht h
    cases l' with
    | nil => exact ht.elim
    | cons s' r' =>
      obtain ⟨g, gs, hg, hr, rfl⟩ := optAll_cons_some _ _ _ _ h
      have hrest := ih r' gs ht.2 hr
      obtain ⟨lv, rt, hs', _, _⟩ := id ht.1
      cases hfs : framesOf clean p o s with
      | none => simp [hfs] at hg
      | some fs =>
        have hfr := framesOf_tagged clean p p' e hm o rk lk s s' fs ht.1 hfs
        have hvals : s'.values = s.values := by rw [hs']
        have hbase : isBase s' = isBase s := by rw [hs']; rfl
        simp only [hfs] at hg
        cases hw : s.values[vi]? with
        | none => simp [hw] at hg
        | some w =>
          cases hd : (if mean then s.values[0]? else some 0) with
          | none => simp [hw, hd] at hg
          | some d =>
            simp only [hw, hd, Option.some.injEq] at hg
            subst hg
            simp only [optAll, hfr, hvals, hw, hd, hbase, hrest, List.zipWith_cons_cons]
            rfl

theorem samplesOf_addLabelNodes (clean : Str → Str) (p : Profile) (o : GOpts) (rk lk : List Str)
    (vi : Nat) (mean : Bool) (hv : p.Valid) (ss : List (GSample NodeInfo))
    (h : samplesOf clean p o vi mean = some ss) :
    samplesOf clean (addLabelNodes p rk lk) o vi mean =
      some (List.zipWith (extendSample clean rk lk) p.samples ss) := by
  obtain ⟨st, e1, hl, hf, hmaps, hall⟩ := addLabelNodes_spec p rk lk
  have e2 : Ext st.p (addLabelNodes p rk lk) := Ext.of_fields hl hf (hmaps.trans e1.maps.symm)
  have hm : (addLabelNodes p rk lk).findMapping 0 = none := by
    have := findMapping_zero_of_valid p hv
    unfold Profile.findMapping at this ⊢
    rw [hmaps]; exact this
  unfold samplesOf at h ⊢
  exact samples_tagged clean p _ (e1.trans e2) hm o rk lk vi mean p.samples _ ss (hall.mono e2) h

end PV.Graph
