import PprofVerif.Lemmas.LegacyDispatch
/-!
Helper lemmas for C14: the dispatch chain of `parseLegacy` for the text formats — every parser
tried BEFORE the right one answers `unrecognized` (not another error) on a printed document, so
the chain returns what the format's own parser returns.
-/
namespace PV.Legacy
open PV

/-! ### general -/
theorem splitLines_unlines_cons (l : Str) (ls : List Str) (hl : LineOK l) :
    splitLines (unlines (l :: ls)) = l :: splitLines (unlines ls) := by
  unfold splitLines
  simp only [unlines, List.flatMap_cons, List.append_assoc, List.singleton_append]
  rw [splitLinesAux_line l _ [] (fun b hb => (hl b hb).1)]
  simp [dropCR_of_ok hl]

theorem searchRe_skip_ne {α} (m : Str → Option α) (c0 : UInt8) (hm : ∀ c t, c ≠ c0 → m (c :: t) = none)
    (A B : Str) (hA : ∀ b ∈ A, b ≠ c0) : searchRe m (A ++ B) = searchRe m B := by
  induction A with
  | nil => rfl
  | cons c A ih =>
    simp only [List.cons_append, searchRe, hm c _ (hA c (by simp))]
    exact ih (fun b hb => hA b (by simp [hb]))

theorem parseHeapLines_unrec (scale : ScaleFn) (hd : Str) (rest : List Str) (h : noHeapHeader hd = true) :
    parseHeapLines scale (hd :: rest) = .err "unrecognized" := by
  simp only [noHeapHeader, Bool.and_eq_true, Option.isNone_iff_eq_none] at h
  simp [parseHeapLines, h.1.1, h.1.2, h.2]

/-- all three header matchers start with the literal `heap profile:` -/
def hpLit : Str := asc "heap profile:"

theorem matchHeapHeaderAt_of_strip {s : Str} (h : stripPrefix hpLit s = none) : matchHeapHeaderAt s = none := by
  unfold matchHeapHeaderAt; unfold hpLit at h; rw [h]; rfl
theorem matchOtherHeaderAt_of_strip (k : Str) {s : Str} (h : stripPrefix hpLit s = none) : matchOtherHeaderAt k s = none := by
  unfold matchOtherHeaderAt; unfold hpLit at h; rw [h]; rfl

theorem stripPrefix_none_of_not_mem {P s : Str} {c : UInt8} (hc : c ∈ P) (hs : c ∉ s) : stripPrefix P s = none := by
  cases hq : stripPrefix P s with
  | none => rfl
  | some r => exact absurd (hasPrefix_mem (l := P) (s := s) (by simp [hasPrefix, hq]) c hc) hs

theorem noHeapHeader_of_no_colon {l : Str} (h : (58 : UInt8) ∉ l) : noHeapHeader l = true := by
  have key : ∀ t : Str, (58 : UInt8) ∉ t → stripPrefix hpLit t = none :=
    fun t ht => stripPrefix_none_of_not_mem (c := 58) (by decide) ht
  have tl : ∀ (c : UInt8) (t : Str), (58 : UInt8) ∉ (c :: t) → (58 : UInt8) ∉ t := fun c t h hm => h (by simp [hm])
  simp only [noHeapHeader, Bool.and_eq_true, Option.isNone_iff_eq_none]
  exact ⟨⟨searchRe_none_of_all _ _ (fun t ht => matchHeapHeaderAt_of_strip (key t ht)) tl l h,
    searchRe_none_of_all _ _ (fun t ht => matchOtherHeaderAt_of_strip _ (key t ht)) tl l h⟩,
    searchRe_none_of_all _ _ (fun t ht => matchOtherHeaderAt_of_strip _ (key t ht)) tl l h⟩

theorem noHeapHeader_of_no_h {l : Str} (h : ∀ b ∈ l, b ≠ (104 : UInt8)) : noHeapHeader l = true := by
  have e1 := searchRe_skip matchHeapHeaderAt matchHeapHeaderAt_ne_h l [] h
  have e2 := searchRe_skip (matchOtherHeaderAt (asc "growth")) (matchOtherHeaderAt_ne_h _) l [] h
  have e3 := searchRe_skip (matchOtherHeaderAt (asc "fragmentation")) (matchOtherHeaderAt_ne_h _) l [] h
  simp only [List.append_nil] at e1 e2 e3
  simp only [noHeapHeader, e1, e2, e3]
  decide

theorem noHeapHeader_filler {f : Filler} (h : f.wf = true) : noHeapHeader f.print = true :=
  noHeapHeader_of_no_colon (filler_no_colon h)


def countTail (n : Nat) : Str := asc " profile: total " ++ dec n

/-- `heap profile:` can only be found across the end of a blank-free name when the name ends in
`heap`; what follows is then ` total …`, which is not a number. -/
theorem strip_hp_name (u : Str) (hu : ∀ b ∈ u, b ≠ (32 : UInt8)) (n : Nat) :
    stripPrefix hpLit (u ++ countTail n) = none ∨
    stripPrefix hpLit (u ++ countTail n) = some (asc " total " ++ dec n) := by
  have hp : hpLit = [104, 101, 97, 112, 32, 112, 114, 111, 102, 105, 108, 101, 58] := by decide
  have ht : countTail n = 32 :: 112 :: 114 :: 111 :: 102 :: 105 :: 108 :: 101 :: 58 :: (asc " total " ++ dec n) := by
    unfold countTail
    have : asc " profile: total " = [32, 112, 114, 111, 102, 105, 108, 101, 58] ++ asc " total " := by decide
    rw [this]; simp
  rw [hp, ht]
  match u, hu with
  | [], _ => left; simp [stripPrefix]
  | [a], _ => left; simp [stripPrefix]
  | [a, b], _ => left; simp [stripPrefix]
  | [a, b, c], _ => left; simp [stripPrefix]
  | [a, b, c, d], _ =>
    by_cases h : a = 104 ∧ b = 101 ∧ c = 97 ∧ d = 112
    · right; obtain ⟨rfl, rfl, rfl, rfl⟩ := h; simp [stripPrefix]
    · left
      simp only [List.cons_append, List.nil_append, stripPrefix]
      by_cases h1 : a = 104
      · by_cases h2 : b = 101
        · by_cases h3 : c = 97
          · have h4 : ¬ d = 112 := fun h4 => h ⟨h1, h2, h3, h4⟩
            subst h1 h2 h3
            have : ((112 : UInt8) == d) = false := by simp [Ne.symm h4]
            simp [this]
          · subst h1 h2
            have : ((97 : UInt8) == c) = false := by simp [Ne.symm h3]
            simp [this]
        · subst h1
          have : ((101 : UInt8) == b) = false := by simp [Ne.symm h2]
          simp [this]
      · have : ((104 : UInt8) == a) = false := by simp [Ne.symm h1]
        simp [this]
  | a :: b :: c :: d :: e :: r, hu =>
    left
    have he : e ≠ 32 := hu e (by simp)
    have : ((32 : UInt8) == e) = false := by simp [Ne.symm he]
    simp only [List.cons_append, stripPrefix, this]
    repeat (first | rfl | split)

theorem reFourNumbers_total (n : Nat) : reFourNumbers (asc " total " ++ dec n) = none := by
  have : asc " total " = 32 :: 116 :: asc "otal " := by decide
  rw [this]
  simp [reFourNumbers, reNumColon, skipSp, reDigits, isDigit]

theorem matchHeapHeaderAt_name (u : Str) (hu : ∀ b ∈ u, b ≠ (32 : UInt8)) (n : Nat) :
    matchHeapHeaderAt (u ++ countTail n) = none := by
  unfold matchHeapHeaderAt
  rcases strip_hp_name u hu n with h | h <;> (unfold hpLit at h; rw [h])
  · rfl
  · simp [reFourNumbers_total]

theorem matchOtherHeaderAt_name (k : Str) (u : Str) (hu : ∀ b ∈ u, b ≠ (32 : UInt8)) (n : Nat) :
    matchOtherHeaderAt k (u ++ countTail n) = none := by
  unfold matchOtherHeaderAt
  rcases strip_hp_name u hu n with h | h <;> (unfold hpLit at h; rw [h])
  · rfl
  · simp [reFourNumbers_total]

theorem searchRe_append_none {α} (m : Str → Option α) (b : Str) (P : Str → Prop)
    (hm : ∀ u, P u → m (u ++ b) = none) (htail : ∀ c t, P (c :: t) → P t)
    (hb : searchRe m b = none) (a : Str) (ha : P a) : searchRe m (a ++ b) = none := by
  induction a with
  | nil => simpa using hb
  | cons c a ih =>
    have := hm _ ha
    simp only [List.cons_append] at this
    simp only [List.cons_append, searchRe, this]
    exact ih (htail c a ha)

theorem countTail_no_h (n : Nat) : ∀ b ∈ countTail n, b ≠ (104 : UInt8) := by
  intro b hb
  simp only [countTail, List.mem_append] at hb
  rcases hb with h | h
  · revert b; decide
  · exact ne104_of_isDigit (dec_isDigit n b h)

/-! ### `parseCPU` on text -/
theorem parseCPU_unlines (l : Str) (ls : List Str) (h : ∀ c t, l = c :: t → c ≠ 0) :
    parseCPU (unlines (l :: ls)) = .err "unrecognized" := by
  have e : unlines (l :: ls) = l ++ 10 :: unlines ls := by simp [unlines]
  rw [e]
  cases l with
  | nil => exact parseCPU_text 10 _ (by decide)
  | cons c t => exact parseCPU_text c _ (h c t rfl)

theorem filler_head (f : Filler) : ∀ c t, f.print = c :: t → c ≠ 0 := by
  intro c t e
  unfold Filler.print at e
  cases hi : f.indent with
  | zero =>
    cases hc : f.comment with
    | none => simp [hi, hc] at e
    | some x => simp [hi, hc] at e; rw [← e.1]; decide
  | succ n => simp [hi, List.replicate_succ] at e; rw [← e.1]; decide

theorem dash_head (t : Str) : ∀ c t', (45 :: t : Str) = c :: t' → c ≠ 0 := by
  intro c t' e; cases e; decide

/-! ### count documents -/
theorem noHeapHeader_countHeader (d : CountDoc) (h : countNameOK d.name = true) : noHeapHeader d.headerLine = true := by
  have e : d.headerLine = d.name ++ countTail d.total := by simp [CountDoc.headerLine, countTail]
  have hn : ∀ b ∈ d.name, b ≠ (32 : UInt8) := by
    intro b hb e32
    have := countNameOK_nonspace h b hb
    subst e32; revert this; decide
  have tl : ∀ (c : UInt8) (t : Str), (∀ b ∈ c :: t, b ≠ (32 : UInt8)) → ∀ b ∈ t, b ≠ (32 : UInt8) :=
    fun c t h b hb => h b (by simp [hb])
  have s1 := searchRe_skip matchHeapHeaderAt matchHeapHeaderAt_ne_h _ [] (countTail_no_h d.total)
  have s2 := searchRe_skip (matchOtherHeaderAt (asc "growth")) (matchOtherHeaderAt_ne_h _) _ [] (countTail_no_h d.total)
  have s3 := searchRe_skip (matchOtherHeaderAt (asc "fragmentation")) (matchOtherHeaderAt_ne_h _) _ [] (countTail_no_h d.total)
  simp only [List.append_nil] at s1 s2 s3
  have r1 := searchRe_append_none matchHeapHeaderAt (countTail d.total) (fun u => ∀ b ∈ u, b ≠ (32 : UInt8))
    (fun u hu => matchHeapHeaderAt_name u hu _) tl (by rw [s1]; rfl) d.name hn
  have r2 := searchRe_append_none (matchOtherHeaderAt (asc "growth")) (countTail d.total) (fun u => ∀ b ∈ u, b ≠ (32 : UInt8))
    (fun u hu => matchOtherHeaderAt_name _ u hu _) tl (by rw [s2]; rfl) d.name hn
  have r3 := searchRe_append_none (matchOtherHeaderAt (asc "fragmentation")) (countTail d.total) (fun u => ∀ b ∈ u, b ≠ (32 : UInt8))
    (fun u hu => matchOtherHeaderAt_name _ u hu _) tl (by rw [s3]; rfl) d.name hn
  rw [e]
  simp only [noHeapHeader, r1, r2, r3]
  decide

theorem countHeader_head (d : CountDoc) (h : countNameOK d.name = true) : ∀ c t, d.headerLine = c :: t → c ≠ 0 := by
  intro c t e
  cases hn : d.name with
  | nil => simp [countNameOK, hn] at h
  | cons c0 t0 =>
    simp only [CountDoc.headerLine, hn, List.cons_append, List.cons.injEq] at e
    simp only [countNameOK, hn, Bool.and_eq_true, List.all_eq_true] at h
    have := (h.1 c0 (by simp)).1
    rw [← e.1]
    intro e0; subst e0; revert this; decide

theorem parseLegacy_printCount (scale : ScaleFn) (cyc : CycFn) (d : CountDoc) (h : d.wf = true) :
    parseLegacy scale cyc (printCount d) = .ok (expectedCount d) := by
  have hcount := parseGoCount_printCount d h
  have hlines := splitLines_printCount d h
  simp only [CountDoc.wf, Bool.and_eq_true, List.all_eq_true] at h
  obtain ⟨⟨⟨⟨hpre, hname⟩, _⟩, _⟩, _⟩ := h
  obtain ⟨L0, rest, hL, hcpu0, hheap0⟩ : ∃ L0 rest, d.lines = L0 :: rest ∧ (∀ c t, L0 = c :: t → c ≠ 0) ∧ noHeapHeader L0 = true := by
    cases hp : d.pre with
    | nil => exact ⟨d.headerLine, d.lines.tail, by simp [CountDoc.lines, hp, printFillers], countHeader_head d hname, noHeapHeader_countHeader d hname⟩
    | cons f fs =>
      exact ⟨f.print, d.lines.tail, by simp [CountDoc.lines, hp, printFillers], filler_head f,
        noHeapHeader_filler (hpre f (by simp [hp]))⟩
  have hcpu : parseCPU (printCount d) = .err "unrecognized" := by
    unfold printCount; rw [hL]; exact parseCPU_unlines _ _ hcpu0
  have hheap : parseHeap scale (printCount d) = .err "unrecognized" := by
    unfold parseHeap; rw [hlines, hL]; exact parseHeapLines_unrec scale _ _ hheap0
  simp [parseLegacy, hcpu, hheap, hcount]

/-! ### lines starting `--- x…` -/
theorem matchCountStart_dashes (c : UInt8) (t : Str) (hc : c ≠ 112) : matchCountStart (45 :: 45 :: 45 :: 32 :: c :: t) = none := by
  have e : asc " profile: total " = 32 :: 112 :: asc "rofile: total " := by decide
  have hc' : ((112 : UInt8) == c) = false := by simp [Ne.symm hc]
  simp [matchCountStart, isReSpace, e, stripPrefix, hc']

theorem not_filler_dashes (t : Str) : isSpaceOrComment (45 :: t) = false :=
  isSpaceOrComment_head' _ (by decide) (by decide)

theorem parseGoCountLines_dashes (fs : List Filler) (c : UInt8) (t : Str) (more : List Str) (hc : c ≠ 112) :
    parseGoCountLines (printFillers fs ++ (45 :: 45 :: 45 :: 32 :: c :: t) :: more) = .err "unrecognized" := by
  unfold parseGoCountLines
  rw [skipLeadingFillers_fillers _ _ _ (not_filler_dashes _)]
  simp [matchCountStart_dashes c t hc]

/-! ### threadz documents -/
theorem threadzLine_eq (n : Nat) : threadzLine n = 45 :: 45 :: 45 :: 32 :: 116 :: (asc "hreadz " ++ (dec n ++ asc " ---")) := by
  have : asc "--- threadz " = 45 :: 45 :: 45 :: 32 :: 116 :: asc "hreadz " := by decide
  simp [threadzLine, this, List.append_assoc]

theorem ThreadRec.headerLine_eq (r : ThreadRec) :
    r.headerLine = 45 :: 45 :: 45 :: 32 :: 84 :: (asc "hread " ++ (hex r.id ++ (asc " (name: " ++ (r.name ++ (47 :: (dec r.tid ++ asc ") stack: ---")))))) := by
  have : asc "--- Thread " = 45 :: 45 :: 45 :: 32 :: 84 :: asc "hread " := by decide
  simp [ThreadRec.headerLine, this, List.append_assoc]

theorem threadzLine_no_colon (n : Nat) : (58 : UInt8) ∉ threadzLine n := by
  intro hm
  simp only [threadzLine, List.mem_append] at hm
  rcases hm with (hm | hm) | hm
  · revert hm; decide
  · have := dec_isDigit n 58 hm; revert this; decide
  · revert hm; decide

theorem parseLegacy_printThread (scale : ScaleFn) (cyc : CycFn) (d : ThreadDoc) (h : d.wf = true) (hc : d.chainOK = true) :
    parseLegacy scale cyc (printThread d) = .ok (expectedThread d) := by
  have hthread := parseThread_printThread d h
  have hlines := splitLines_printThread d h
  simp only [ThreadDoc.wf, Bool.and_eq_true, List.all_eq_true] at h
  obtain ⟨⟨⟨hpre, hhead⟩, _⟩, _⟩ := h
  -- the first line that is not a comment: `--- threadz N ---` or the first thread header
  obtain ⟨c, t, more, hL, hc112⟩ : ∃ c t more, d.lines = printFillers d.pre ++ (45 :: 45 :: 45 :: 32 :: c :: t) :: more ∧ c ≠ 112 := by
    cases hh : d.head with
    | some p =>
      obtain ⟨n, fs⟩ := p
      exact ⟨116, asc "hreadz " ++ (dec n ++ asc " ---"), (printFillers fs ++ (d.recs.flatMap (ThreadRec.lines d.width) ++ d.ending.lines)),
        by simp [ThreadDoc.lines, hh, threadzLine_eq, List.append_assoc], by decide⟩
    | none =>
      cases hr : d.recs with
      | nil => rw [hh, hr] at hhead; simp at hhead
      | cons r rs =>
        exact ⟨84, asc "hread " ++ (hex r.id ++ (asc " (name: " ++ (r.name ++ (47 :: (dec r.tid ++ asc ") stack: ---"))))),
          r.body.lines d.width ++ (rs.flatMap (ThreadRec.lines d.width) ++ d.ending.lines),
          by simp [ThreadDoc.lines, hh, hr, ThreadRec.lines, ThreadRec.headerLine_eq, List.append_assoc], by decide⟩
  -- the very first line
  obtain ⟨L0, rest, hL0, hcpu0, hheap0⟩ : ∃ L0 rest, d.lines = L0 :: rest ∧ (∀ c t, L0 = c :: t → c ≠ 0) ∧ noHeapHeader L0 = true := by
    cases hp : d.pre with
    | cons f fs =>
      exact ⟨f.print, d.lines.tail, by simp [ThreadDoc.lines, hp, printFillers], filler_head f,
        noHeapHeader_filler (hpre f (by simp [hp]))⟩
    | nil =>
      cases hh : d.head with
      | some p =>
        obtain ⟨n, fs⟩ := p
        refine ⟨threadzLine n, d.lines.tail, by simp [ThreadDoc.lines, hp, hh, printFillers], ?_, noHeapHeader_of_no_colon (threadzLine_no_colon n)⟩
        rw [threadzLine_eq]; exact dash_head _
      | none =>
        cases hr : d.recs with
        | nil => rw [hh, hr] at hhead; simp at hhead
        | cons r rs =>
          refine ⟨r.headerLine, d.lines.tail, by simp [ThreadDoc.lines, hp, hh, hr, printFillers, ThreadRec.lines], ?_, ?_⟩
          · rw [r.headerLine_eq]; exact dash_head _
          · simpa [ThreadDoc.chainOK, hp, hh, hr] using hc
  have hcpu : parseCPU (printThread d) = .err "unrecognized" := by
    unfold printThread; rw [hL0]; exact parseCPU_unlines _ _ hcpu0
  have hheap : parseHeap scale (printThread d) = .err "unrecognized" := by
    unfold parseHeap; rw [hlines, hL0]; exact parseHeapLines_unrec scale _ _ hheap0
  have hcount : parseGoCount (printThread d) = .err "unrecognized" := by
    unfold parseGoCount; rw [hlines, hL]; exact parseGoCountLines_dashes _ c t more hc112
  simp [parseLegacy, hcpu, hheap, hcount, hthread]

/-! ### `parseThread` on lines that are not threadz lines -/
theorem matchThreadzAt_ne (c : UInt8) (t : Str) (h : c ≠ 45) : matchThreadzAt (c :: t) = none := by
  have : asc "--- threadz " = 45 :: asc "-- threadz " := by decide
  unfold matchThreadzAt
  rw [this, stripPrefix_cons_ne _ _ (Ne.symm h)]; rfl

theorem matchThreadStartAt_ne (c : UInt8) (t : Str) (h : c ≠ 45) : matchThreadStartAt (c :: t) = none := by
  have : asc "--- Thread " = 45 :: asc "-- Thread " := by decide
  unfold matchThreadStartAt
  rw [this, stripPrefix_cons_ne _ _ (Ne.symm h)]; rfl

/-- `--- x…` with `x` neither `t` nor `T`, continued by a text without `-` and a tail on which
neither regexp matches: not the start of a threadz document. -/
theorem notThread_dashes (c : UInt8) (A B : Str) (h1 : c ≠ 116) (h2 : c ≠ 84) (h3 : c ≠ 45) (hA : ∀ b ∈ A, b ≠ (45 : UInt8))
    (hB1 : searchRe matchThreadzAt B = none) (hB2 : searchRe matchThreadStartAt B = none) :
    searchRe matchThreadzAt (45 :: 45 :: 45 :: 32 :: c :: (A ++ B)) = none ∧
    searchRe matchThreadStartAt (45 :: 45 :: 45 :: 32 :: c :: (A ++ B)) = none := by
  have e1 : asc "--- threadz " = 45 :: 45 :: 45 :: 32 :: 116 :: asc "hreadz " := by decide
  have e2 : asc "--- Thread " = 45 :: 45 :: 45 :: 32 :: 84 :: asc "hread " := by decide
  have c1 : ((116 : UInt8) == c) = false := by simp [Ne.symm h1]
  have c2 : ((84 : UInt8) == c) = false := by simp [Ne.symm h2]
  have z0 : matchThreadzAt (45 :: 45 :: 45 :: 32 :: c :: (A ++ B)) = none := by simp [matchThreadzAt, e1, stripPrefix, c1]
  have z1 : matchThreadzAt (45 :: 45 :: 32 :: c :: (A ++ B)) = none := by simp [matchThreadzAt, e1, stripPrefix]
  have z2 : matchThreadzAt (45 :: 32 :: c :: (A ++ B)) = none := by simp [matchThreadzAt, e1, stripPrefix]
  have s0 : matchThreadStartAt (45 :: 45 :: 45 :: 32 :: c :: (A ++ B)) = none := by simp [matchThreadStartAt, e2, stripPrefix, c2]
  have s1 : matchThreadStartAt (45 :: 45 :: 32 :: c :: (A ++ B)) = none := by simp [matchThreadStartAt, e2, stripPrefix]
  have s2 : matchThreadStartAt (45 :: 32 :: c :: (A ++ B)) = none := by simp [matchThreadStartAt, e2, stripPrefix]
  constructor
  · simp only [searchRe, z0, z1, z2, matchThreadzAt_ne 32 _ (by decide), matchThreadzAt_ne c _ h3]
    rw [searchRe_skip_ne _ 45 matchThreadzAt_ne A B hA]; exact hB1
  · simp only [searchRe, s0, s1, s2, matchThreadStartAt_ne 32 _ (by decide), matchThreadStartAt_ne c _ h3]
    rw [searchRe_skip_ne _ 45 matchThreadStartAt_ne A B hA]; exact hB2

theorem parseThreadLines_unrec (x : Str) (more : List Str) (hx : isSpaceOrComment x = false)
    (h1 : searchRe matchThreadzAt x = none) (h2 : searchRe matchThreadStartAt x = none) :
    parseThreadLines (x :: more) = .err "unrecognized" := by
  simp [parseThreadLines, skipLeadingFillers, hx, h1, isThreadStart, h2]

/-! ### contention documents -/
theorem ContHead.shape (hd : ContHead) : ∃ c A B, hd.print = 45 :: 45 :: 45 :: 32 :: c :: (A ++ B) ∧
    c ≠ 116 ∧ c ≠ 84 ∧ c ≠ 45 ∧ c ≠ 112 ∧ (∀ b ∈ A, b ≠ (45 : UInt8)) ∧
    searchRe matchThreadzAt B = none ∧ searchRe matchThreadStartAt B = none ∧
    (∀ b ∈ (45 :: 45 :: 45 :: 32 :: c :: (A ++ B) : Str), b ≠ (104 : UInt8)) := by
  cases hd with
  | contentionz n =>
    refine ⟨99, asc "ontentionz " ++ dec n, asc " ---", ?_, by decide, by decide, by decide, by decide, ?_, by decide, by decide, ?_⟩
    · have : asc "--- contentionz " = 45 :: 45 :: 45 :: 32 :: 99 :: asc "ontentionz " := by decide
      simp [ContHead.print, this, List.append_assoc]
    · intro b hb
      rcases List.mem_append.1 hb with hb' | hb'
      · clear hb; revert b; decide
      · exact ne45_of_isDigit (dec_isDigit n b hb')
    · intro b hb
      simp only [List.mem_cons, List.mem_append] at hb
      rcases hb with rfl | rfl | rfl | rfl | rfl | (hb' | hb') | hb'
      all_goals first
        | decide
        | exact ne104_of_isDigit (dec_isDigit n b hb')
        | (revert b; decide)
  | mutex => exact ⟨109, asc "utex:", [], by decide, by decide, by decide, by decide, by decide, by decide, by decide, by decide, by decide⟩
  | contention => exact ⟨99, asc "ontention:", [], by decide, by decide, by decide, by decide, by decide, by decide, by decide, by decide, by decide⟩

theorem parseLegacy_printContention (scale : ScaleFn) (cyc : CycFn) (d : ContDoc) (h : d.wf = true) :
    parseLegacy scale cyc (printContention d) = .ok (expectedContention cyc d) := by
  have hcont := parseContention_printContention cyc d h
  have hlines := splitLines_printContention d h
  obtain ⟨c, A, B, hp, h116, h84, h45, h112, hA, hB1, hB2, hnoh⟩ := d.head.shape
  have hL : d.lines = (45 :: 45 :: 45 :: 32 :: c :: (A ++ B)) :: d.lines.tail := by
    simp [ContDoc.lines, hp]
  have hcpu : parseCPU (printContention d) = .err "unrecognized" := by
    unfold printContention; rw [hL]; exact parseCPU_unlines _ _ (dash_head _)
  have hheap : parseHeap scale (printContention d) = .err "unrecognized" := by
    unfold parseHeap; rw [hlines, hL]; exact parseHeapLines_unrec scale _ _ (noHeapHeader_of_no_h hnoh)
  have hcount : parseGoCount (printContention d) = .err "unrecognized" := by
    unfold parseGoCount; rw [hlines, hL]
    exact parseGoCountLines_dashes [] c (A ++ B) _ h112
  have hthread : parseThread (printContention d) = .err "unrecognized" := by
    unfold parseThread; rw [hlines, hL]
    obtain ⟨t1, t2⟩ := notThread_dashes c A B h116 h84 h45 hA hB1 hB2
    exact parseThreadLines_unrec _ _ (not_filler_dashes _) t1 t2
  simp [parseLegacy, hcpu, hheap, hcount, hthread, hcont]

/-! ### Java heapz / contentionz documents -/
/-- the first attribute line: `format = java` when present, else `resolution = …` -/
def JavaDoc.attr1 (d : JavaDoc) : Str :=
  if d.format then javaAttr d.spaced (asc "format") (asc "java") else javaAttr d.spaced (asc "resolution") d.resolution

theorem JavaDoc.lines_two (d : JavaDoc) : ∃ rest, d.lines = d.headLine :: d.attr1 :: rest := by
  unfold JavaDoc.lines JavaDoc.attrLines JavaDoc.attr1
  cases d.format <;> simp

/-- `parseContention` reads `format` / `resolution` as the attributes of a Java profile and
answers "unrecognized". -/
theorem contAttrLoop_javaAttr (spaced : Bool) (k v : Str) (hk : WordText k) (hv : WordText v)
    (hkey : contKeyOf k = none) (R : List Str) (st : ContState) :
    contAttrLoop (javaAttr spaced k v :: R) st = .err "unrecognized" := by
  have hne : ∀ b ∈ k ++ (if spaced then [32] else []), b.toNat ≠ 61 := by
    intro b hb
    rcases List.mem_append.1 hb with hb | hb
    · have := hk.word b hb
      intro e
      have : b = 61 := UInt8.toNat_inj.1 (by simpa using e)
      subst this; revert ‹isWordOrSp 61 = true›; decide
    · cases spaced <;> simp at hb; subst hb; decide
  have hsplit : splitEq (javaAttr spaced k v) = some (k ++ (if spaced then [32] else []), (if spaced then [32] else []) ++ v) := by
    rw [javaAttr_eq]; exact splitEq_append _ _ hne
  obtain ⟨c, t, hkc⟩ : ∃ c t, k = c :: t := by
    cases hq : k with
    | nil => exact absurd hq hk.ne
    | cons c t => exact ⟨c, t, rfl⟩
  have hc : isWordOrSp c = true := hk.word c (by simp [hkc])
  have hcs : isSpace c = false := by have := hk.front; rw [hkc] at this; simpa using this
  have hline : javaAttr spaced k v = c :: (t ++ (if spaced then [32] else []) ++ 61 :: ((if spaced then [32] else []) ++ v)) := by
    rw [javaAttr_eq, hkc]; simp
  have h35 : c.toNat ≠ 35 := by
    intro e
    have : c = 35 := UInt8.toNat_inj.1 (by simpa using e)
    subst this; revert hc; decide
  have h45 : c ≠ 45 := by intro e; subst e; revert hc; decide
  have hf : isSpaceOrComment (javaAttr spaced k v) = false := by rw [hline]; exact isSpaceOrComment_head' _ hcs h35
  have hd : hasPrefix (asc "---") (javaAttr spaced k v) = false := by rw [hline]; exact hasPrefix_dashes_ne _ h45
  rw [contAttrLoop]
  simp only [attr_trim spaced k v hk hv, hf, hd, Bool.false_eq_true, if_false, hsplit, hk.trim_pre spaced, hkey]

theorem parseLegacy_printJava (scale : ScaleFn) (cyc : CycFn) (d : JavaDoc) (h : d.wf = true) :
    parseLegacy scale cyc (printJava d) = .ok (expectedJava scale d) := by
  have hjava := parseJava_printJava scale d h
  simp only [JavaDoc.wf, Bool.and_eq_true, List.all_eq_true, decide_eq_true_eq, bne_iff_ne, ne_eq] at h
  obtain ⟨⟨⟨⟨⟨hresne, hresw⟩, _⟩, _⟩, _⟩, _⟩ := h
  have hres : WordText d.resolution := wordText_resolution hresne (List.all_eq_true.2 hresw)
  obtain ⟨rest, hL⟩ := d.lines_two
  have hOK1 : LineOK d.headLine := by unfold JavaDoc.headLine; cases d.heap <;> decide
  have hOK2 : LineOK d.attr1 := by
    have hr : LineOK d.resolution := LineOK_of_isPrint (fun b hb => by
      have := hres.word b hb
      simp only [isWordOrSp, isWord, isDigit, Bool.or_eq_true, decide_eq_true_eq, beq_iff_eq] at this
      simp only [isPrint, decide_eq_true_eq]; omega)
    unfold JavaDoc.attr1
    cases d.format
    · exact LineOK_javaAttr _ _ _ (by decide) hr
    · exact LineOK_javaAttr _ _ _ (by decide) (by decide)
  have hlines : splitLines (printJava d) = d.headLine :: d.attr1 :: splitLines (unlines rest) := by
    unfold printJava
    rw [hL, splitLines_unlines_cons _ _ hOK1, splitLines_unlines_cons _ _ hOK2]
  have hcpu : parseCPU (printJava d) = .err "unrecognized" := by
    unfold printJava; rw [hL]
    apply parseCPU_unlines
    unfold JavaDoc.headLine; cases d.heap <;> (intro c t e; cases e; decide)
  have hheap : parseHeap scale (printJava d) = .err "unrecognized" := by
    unfold parseHeap; rw [hlines]
    apply parseHeapLines_unrec
    unfold JavaDoc.headLine; cases d.heap <;> decide
  have hcount : parseGoCount (printJava d) = .err "unrecognized" := by
    unfold parseGoCount; rw [hlines]
    have e : ∃ c t, d.headLine = 45 :: 45 :: 45 :: 32 :: c :: t ∧ c ≠ 112 := by
      unfold JavaDoc.headLine; cases d.heap
      · exact ⟨99, asc "ontentionz 1 ---", by decide, by decide⟩
      · exact ⟨104, asc "eapz 1 ---", by decide, by decide⟩
    obtain ⟨c, t, e1, e2⟩ := e
    rw [e1]; exact parseGoCountLines_dashes [] c t _ e2
  have hthread : parseThread (printJava d) = .err "unrecognized" := by
    unfold parseThread; rw [hlines]
    apply parseThreadLines_unrec
    · unfold JavaDoc.headLine; cases d.heap <;> decide
    · unfold JavaDoc.headLine; cases d.heap <;> decide
    · unfold JavaDoc.headLine; cases d.heap <;> decide
  have hcont : parseContention cyc (printJava d) = .err "unrecognized" := by
    unfold parseContention; rw [hlines]
    cases hh : d.heap with
    | true =>
      have : (hasPrefix (asc "--- contentionz ") d.headLine || hasPrefix (asc "--- mutex:") d.headLine ||
          hasPrefix (asc "--- contention:") d.headLine) = false := by unfold JavaDoc.headLine; rw [hh]; decide
      simp [parseContentionLines, this]
    | false =>
      have : (hasPrefix (asc "--- contentionz ") d.headLine || hasPrefix (asc "--- mutex:") d.headLine ||
          hasPrefix (asc "--- contention:") d.headLine) = true := by unfold JavaDoc.headLine; rw [hh]; decide
      have ha : contAttrLoop (d.attr1 :: splitLines (unlines rest)) .init = .err "unrecognized" := by
        unfold JavaDoc.attr1
        cases d.format
        · exact contAttrLoop_javaAttr _ _ _ wt_resolution hres (by decide) _ _
        · exact contAttrLoop_javaAttr _ _ _ wt_format wt_java (by decide) _ _
      simp [parseContentionLines, this, ha]
  simp [parseLegacy, hcpu, hheap, hcount, hthread, hcont, hjava]

end PV.Legacy
