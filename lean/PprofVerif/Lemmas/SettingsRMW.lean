import PprofVerif.Model.SettingsRMW
import Mathlib.Tactic.Cases
/-! Serialisability of locked read-modify-write cycles (C19). -/
namespace PV.RMW

variable {σ : Type}

def inCrit : PC σ → Bool
  | .locked => true
  | .haveRead _ => true
  | .written => true
  | _ => false

def hasWritten : PC σ → Bool
  | .written => true
  | .done => true
  | _ => false

/-- invariant of every reachable state of the LOCKED system. -/
structure Inv (n : Nat) (edit : Nat → σ → σ) (f0 : σ) (s : Sys σ) : Prop where
  crit : ∀ j, inCrit (s.pcs j) = true → s.lock = some j
  lockc : ∀ j, s.lock = some j → inCrit (s.pcs j) = true
  file : s.file = serial edit s.log f0
  read : ∀ j v, s.pcs j = .haveRead v → v = s.file
  logw : ∀ j, j ∈ s.log ↔ hasWritten (s.pcs j) = true
  nodup : s.log.Nodup
  bound : ∀ j, j ∈ s.log → j < n

theorem inv_init (n : Nat) (edit : Nat → σ → σ) (f0 : σ) : Inv n edit f0 (init f0) := by
  refine ⟨?_, ?_, rfl, ?_, ?_, List.nodup_nil, ?_⟩ <;> simp [init, inCrit, hasWritten]

theorem upd_same (pcs : Nat → PC σ) (i : Nat) (p : PC σ) : upd pcs i p i = p := by simp [upd]
theorem upd_other (pcs : Nat → PC σ) (i j : Nat) (p : PC σ) (h : j ≠ i) : upd pcs i p j = pcs j := by
  simp [upd, h]

theorem serial_append (edit : Nat → σ → σ) (l : List Nat) (i : Nat) (f : σ) :
    serial edit (l ++ [i]) f = edit i (serial edit l f) := by
  simp [serial, List.foldl_append]

theorem inv_step (n : Nat) (edit : Nat → σ → σ) (f0 : σ) (s s' : Sys σ) (i : Nat)
    (h : Inv n edit f0 s) (hs : step true n edit s i = some s') : Inv n edit f0 s' := by
  unfold step at hs
  by_cases hin : i < n
  · simp only [hin, if_true] at hs
    cases hpc : s.pcs i with
    | start =>
      simp only [hpc] at hs
      cases hl : s.lock with
      | some k => simp [hl] at hs
      | none =>
        simp only [hl] at hs
        cases hs
        refine ⟨?_, ?_, h.file, ?_, ?_, h.nodup, h.bound⟩
        all_goals (try dsimp only)
        · intro j hj
          by_cases hji : j = i
          · simp [hji]
          · rw [upd_other _ _ _ _ hji] at hj
            have := h.crit j hj
            rw [hl] at this; cases this
        · intro j hj
          simp only [Option.some.injEq] at hj
          subst hj
          simp [upd_same, inCrit]
        · intro j v hj
          by_cases hji : j = i
          · subst hji; simp [upd_same] at hj
          · rw [upd_other _ _ _ _ hji] at hj; exact h.read j v hj
        · intro j
          by_cases hji : j = i
          · subst hji
            rw [upd_same]
            have := h.logw j
            rw [hpc] at this
            simpa [hasWritten] using this
          · rw [upd_other _ _ _ _ hji]; exact h.logw j
    | locked =>
      simp only [hpc] at hs
      cases hs
      have hli : s.lock = some i := h.crit i (by rw [hpc]; rfl)
      refine ⟨?_, ?_, h.file, ?_, ?_, h.nodup, h.bound⟩
      all_goals (try dsimp only)
      · intro j hj
        by_cases hji : j = i
        · subst hji; exact hli
        · rw [upd_other _ _ _ _ hji] at hj; exact h.crit j hj
      · intro j hj
        by_cases hji : j = i
        · subst hji; simp [upd_same, inCrit]
        · rw [upd_other _ _ _ _ hji]; exact h.lockc j hj
      · intro j v hj
        by_cases hji : j = i
        · subst hji
          rw [upd_same] at hj
          cases hj; rfl
        · rw [upd_other _ _ _ _ hji] at hj; exact h.read j v hj
      · intro j
        by_cases hji : j = i
        · subst hji
          rw [upd_same]
          have := h.logw j
          rw [hpc] at this
          simpa [hasWritten] using this
        · rw [upd_other _ _ _ _ hji]; exact h.logw j
    | haveRead v =>
      simp only [hpc] at hs
      cases hs
      have hli : s.lock = some i := h.crit i (by rw [hpc]; rfl)
      have hv : v = s.file := h.read i v hpc
      have hnot : i ∉ s.log := by
        intro hmem
        have := (h.logw i).1 hmem
        rw [hpc] at this
        simp [hasWritten] at this
      refine ⟨?_, ?_, ?_, ?_, ?_, ?_, ?_⟩
      all_goals (try dsimp only)
      · intro j hj
        by_cases hji : j = i
        · subst hji; exact hli
        · rw [upd_other _ _ _ _ hji] at hj; exact h.crit j hj
      · intro j hj
        by_cases hji : j = i
        · subst hji; simp [upd_same, inCrit]
        · rw [upd_other _ _ _ _ hji]; exact h.lockc j hj
      · show edit i v = serial edit (s.log ++ [i]) f0
        rw [serial_append, ← h.file, hv]
      · intro j w hj
        by_cases hji : j = i
        · subst hji; simp [upd_same] at hj
        · rw [upd_other _ _ _ _ hji] at hj
          -- another thread in its critical section would hold the lock too
          have hc : s.lock = some j := h.crit j (by rw [hj]; rfl)
          rw [hli] at hc
          exact absurd (Option.some.inj hc).symm hji
      · intro j
        by_cases hji : j = i
        · subst hji
          simp [upd_same, hasWritten]
        · rw [upd_other _ _ _ _ hji]
          simp only [List.mem_append, List.mem_singleton, hji, or_false]
          exact h.logw j
      · show (s.log ++ [i]).Nodup
        rw [List.nodup_append]
        refine ⟨h.nodup, by simp, ?_⟩
        intro a ha b hb
        simp only [List.mem_singleton] at hb
        subst hb
        intro hab; subst hab; exact hnot ha
      · intro j hj
        simp only [List.mem_append, List.mem_singleton] at hj
        rcases hj with hj | hj
        · exact h.bound j hj
        · subst hj; exact hin
    | written =>
      simp only [hpc] at hs
      cases hs
      have hli : s.lock = some i := h.crit i (by rw [hpc]; rfl)
      refine ⟨?_, ?_, h.file, ?_, ?_, h.nodup, h.bound⟩
      all_goals (try dsimp only)
      · intro j hj
        by_cases hji : j = i
        · subst hji; simp [upd_same, inCrit] at hj
        · rw [upd_other _ _ _ _ hji] at hj
          have hc : s.lock = some j := h.crit j hj
          rw [hli] at hc
          exact absurd (Option.some.inj hc).symm hji
      · intro j hj
        cases hj
      · intro j v hj
        by_cases hji : j = i
        · subst hji; simp [upd_same] at hj
        · rw [upd_other _ _ _ _ hji] at hj; exact h.read j v hj
      · intro j
        by_cases hji : j = i
        · subst hji
          rw [upd_same]
          have := h.logw j
          rw [hpc] at this
          simpa [hasWritten] using this
        · rw [upd_other _ _ _ _ hji]; exact h.logw j
    | done =>
      simp [hpc] at hs
  · simp [hin] at hs

theorem inv_run (n : Nat) (edit : Nat → σ → σ) (f0 : σ) (sched : List Nat) :
    ∀ (s s' : Sys σ), Inv n edit f0 s → run true n edit s sched = some s' → Inv n edit f0 s' := by
  induction sched with
  | nil => intro s s' h hr; simp [run] at hr; subst hr; exact h
  | cons i r ih =>
    intro s s' h hr
    simp only [run] at hr
    cases hst : step true n edit s i with
    | none => simp [hst] at hr
    | some s1 =>
      simp only [hst, Option.bind_some] at hr
      exact ih s1 s' (inv_step n edit f0 s s1 i h hst) hr

/-- every complete run of `n` locked read-modify-write cycles ends in the state that running the
edits one after another, in the order `log` (a permutation of the threads), produces. -/
theorem locked_serialisable (n : Nat) (edit : Nat → σ → σ) (f0 : σ) (sched : List Nat) (s : Sys σ)
    (hr : run true n edit (init f0) sched = some s) (hc : Complete n s) :
    s.file = serial edit s.log f0 ∧ s.log.Perm (List.range n) := by
  have h := inv_run n edit f0 sched _ _ (inv_init n edit f0) hr
  refine ⟨h.file, ?_⟩
  rw [List.perm_ext_iff_of_nodup h.nodup List.nodup_range]
  intro a
  constructor
  · intro ha; exact List.mem_range.2 (h.bound a ha)
  · intro ha
    have := hc a (List.mem_range.1 ha)
    apply (h.logw a).2
    cases hp : s.pcs a <;> simp [hp, isDone] at this ⊢ <;> simp [hasWritten]

end PV.RMW
