import PprofVerif.Lemmas.TagFrames
/-!
`Profile.Aggregate` (model: `Graph.aggregate`) blanks fields of functions, lines and locations in
place and never touches an id.  Two consequences the entry-identity model (`nodeInfo` after
`aggregate`) relies on:

* validity is preserved (`aggregate_valid`), so `samplesOf` is defined on the aggregated profile;
* the frames of the aggregated profile are the frames computed from the ORIGINAL records with the
  blanked fields blanked (`framesOf_aggregate`): id lookups commute with the in-place rewriting.
  Instantiated at the flag sets of `driver.aggregate` this is, per granularity, which `NodeInfo`
  fields identify an entry.
-/
namespace PV.Graph
open PV

/-! ### the three record rewrites of `aggregate` -/

def aggFn (f : AggFlags) (fn : Function) : Function :=
  let fn := if !f.function then { fn with name := [], systemName := [], startLine := 0 } else fn
  if !f.filename then { fn with filename := [] } else fn

def aggLines (f : AggFlags) (lines : List Line) : List Line :=
  let lines := if !f.inlineFrame && lines.length > 1 then lines.drop (lines.length - 1) else lines
  let lines := if !f.linenumber then lines.map (fun ln => { ln with line := 0, column := 0 }) else lines
  if !f.columnnumber then lines.map (fun ln => { ln with column := 0 }) else lines

def aggLoc (f : AggFlags) (l : Location) : Location :=
  { l with lines := aggLines f l.lines, address := if !f.address then 0 else l.address }

theorem aggregate_eq (p : Profile) (f : AggFlags) :
    aggregate p f = { p with functions := p.functions.map (aggFn f), locations := p.locations.map (aggLoc f) } := rfl

@[simp] theorem aggFn_id (f : AggFlags) (fn : Function) : (aggFn f fn).id = fn.id := by
  unfold aggFn; cases f.function <;> cases f.filename <;> rfl
@[simp] theorem aggLoc_id (f : AggFlags) (l : Location) : (aggLoc f l).id = l.id := rfl
@[simp] theorem aggLoc_mappingID (f : AggFlags) (l : Location) : (aggLoc f l).mappingID = l.mappingID := rfl

/-- the inline selection: all lines, or only the last (outermost caller) one -/
def keepLines (f : AggFlags) (lines : List Line) : List Line :=
  if !f.inlineFrame && lines.length > 1 then lines.drop (lines.length - 1) else lines

/-- what aggregation leaves of one line -/
def aggLine (f : AggFlags) (ln : Line) : Line :=
  { functionID := ln.functionID, line := if f.linenumber then ln.line else 0,
    column := if f.linenumber && f.columnnumber then ln.column else 0 }

theorem aggLines_eq (f : AggFlags) (lines : List Line) : aggLines f lines = (keepLines f lines).map (aggLine f) := by
  unfold aggLines keepLines aggLine
  simp only
  generalize (if (!f.inlineFrame && decide (lines.length > 1)) = true then List.drop (lines.length - 1) lines else lines) = ls
  cases f.linenumber <;> cases f.columnnumber <;> simp

theorem keepLines_sub (f : AggFlags) (lines : List Line) : ∀ ln ∈ keepLines f lines, ln ∈ lines := by
  intro ln h
  unfold keepLines at h
  split at h
  · exact List.mem_of_mem_drop h
  · exact h

theorem keepLines_isEmpty (f : AggFlags) (lines : List Line) : (keepLines f lines).isEmpty = lines.isEmpty := by
  unfold keepLines
  split
  · rename_i h
    simp only [Bool.and_eq_true, decide_eq_true_eq] at h
    have h1 : lines ≠ [] := by rintro rfl; simp at h
    have h2 : List.drop (lines.length - 1) lines ≠ [] := by
      intro hd
      have := congrArg List.length hd
      simp at this; omega
    cases hl : lines with
    | nil => exact absurd hl h1
    | cons a r =>
      rw [← hl]
      cases hd : List.drop (lines.length - 1) lines with
      | nil => exact absurd hd h2
      | cons _ _ => rw [hl]; rfl
  · rfl

/-! ### id lookups commute with the rewrites -/

theorem find?_map_id {α : Type} (g : α → α) (key : α → Nat) (hk : ∀ a, key (g a) = key a) (l : List α) (id : Nat) :
    (l.map g).find? (fun a => key a == id) = (l.find? (fun a => key a == id)).map g := by
  induction l with
  | nil => rfl
  | cons a r ih =>
    simp only [List.map_cons, List.find?_cons, hk]
    cases key a == id <;> simp [ih]

theorem findFunction_aggregate (p : Profile) (f : AggFlags) (id : Nat) :
    (aggregate p f).findFunction id = (p.findFunction id).map (aggFn f) := by
  rw [aggregate_eq]
  unfold Profile.findFunction
  exact find?_map_id (aggFn f) (·.id) (aggFn_id f) p.functions id

theorem findLocation_aggregate (p : Profile) (f : AggFlags) (id : Nat) :
    (aggregate p f).findLocation id = (p.findLocation id).map (aggLoc f) := by
  rw [aggregate_eq]
  unfold Profile.findLocation
  exact find?_map_id (aggLoc f) (·.id) (aggLoc_id f) p.locations id

theorem findMapping_aggregate (p : Profile) (f : AggFlags) (id : Nat) :
    (aggregate p f).findMapping id = p.findMapping id := rfl

/-! ### validity -/

theorem any_map_id {α : Type} (g : α → α) (key : α → Nat) (hk : ∀ a, key (g a) = key a) (l : List α) (id : Nat) :
    (l.map g).any (fun a => key a == id) = l.any (fun a => key a == id) := by
  induction l with
  | nil => rfl
  | cons a r ih => simp [List.any_cons, hk, ih]

/-- `Aggregate` preserves `CheckValid` + reference closure, for every flag combination. -/
theorem aggregate_valid (p : Profile) (f : AggFlags) (hv : p.Valid) : (aggregate p f).Valid := by
  unfold Profile.Valid Profile.validB at hv ⊢
  simp only [Bool.and_eq_true] at hv ⊢
  obtain ⟨⟨⟨⟨⟨h1, h2⟩, h3⟩, h4⟩, h5⟩, h6⟩ := hv
  have hlocany : ∀ id, (aggregate p f).locations.any (·.id == id) = p.locations.any (·.id == id) := by
    intro id; rw [aggregate_eq]; exact any_map_id (aggLoc f) (·.id) (aggLoc_id f) p.locations id
  have hfnany : ∀ id, (aggregate p f).functions.any (·.id == id) = p.functions.any (·.id == id) := by
    intro id; rw [aggregate_eq]; exact any_map_id (aggFn f) (·.id) (aggFn_id f) p.functions id
  refine ⟨⟨⟨⟨⟨h1, ?_⟩, h3⟩, ?_⟩, ?_⟩, ?_⟩
  · simp only [hlocany]; exact h2
  · have : (aggregate p f).functions.map (·.id) = p.functions.map (·.id) := by
      rw [aggregate_eq]; simp [List.map_map, Function.comp]
    rw [this]; exact h4
  · have : (aggregate p f).locations.map (·.id) = p.locations.map (·.id) := by
      rw [aggregate_eq]; simp [List.map_map, Function.comp]
    rw [this]; exact h5
  · rw [List.all_eq_true] at h6 ⊢
    intro l' hl'
    rw [aggregate_eq] at hl'
    obtain ⟨l, hl, rfl⟩ := List.mem_map.mp hl'
    have h := h6 l hl
    simp only [Bool.and_eq_true, List.all_eq_true] at h ⊢
    refine ⟨h.1, ?_⟩
    intro ln' hln'
    have : ln' ∈ aggLines f l.lines := hln'
    rw [aggLines_eq] at this
    obtain ⟨ln, hln, rfl⟩ := List.mem_map.mp this
    have hl2 := h.2 ln (keepLines_sub f l.lines ln hln)
    refine ⟨hl2.1, ?_⟩
    have : (aggLine f ln).functionID = ln.functionID := rfl
    rw [this, hfnany]; exact hl2.2

/-! ### frames of the aggregated profile, from the original records -/

/-- `nodeInfo` of the aggregated profile written over the ORIGINAL function / line / location:
each identity field is the original one or blank, as the flag says. -/
def nodeInfoAgg (clean : Str → Str) (p : Profile) (o : GOpts) (f : AggFlags) (l : Location) (line : Line)
    (objfile : Str) : Option NodeInfo :=
  let address := if f.address then l.address else 0
  if line.functionID = 0 then
    some { name := [], origName := [], address := address, file := [], startLine := 0, lineno := 0,
           columnno := 0, objfile := objfile }
  else
    match p.findFunction line.functionID with
    | none => none
    | some fn =>
      let name := if f.function then fn.name else []
      let sys := if f.function then fn.systemName else []
      let fname := if f.filename then fn.filename else []
      let file := if fname ≠ [] then clean fname else []
      let orig := if o.origFnNames then sys else []
      let withObj := o.objNames || (name = [] && orig = [])
      some { name := name, origName := orig, address := address, file := file,
             startLine := if withObj && f.function then fn.startLine else 0,
             lineno := if f.linenumber then line.line else 0,
             columnno := if f.linenumber && f.columnnumber then line.column else 0,
             objfile := if withObj then objfile else [] }

/-- `Mapping.File` of a location's mapping ("" for none) -/
def objfileOf (p : Profile) (l : Location) : Str :=
  match p.findMapping l.mappingID with
  | some m => m.file
  | none => []

def locNodesAgg (clean : Str → Str) (p : Profile) (o : GOpts) (f : AggFlags) (l : Location) : Option (List NodeInfo) :=
  optAll (fun ln => nodeInfoAgg clean p o f l ln (objfileOf p l))
    (if l.lines.isEmpty then [({ functionID := 0, line := 0, column := 0 } : Line)] else keepLines f l.lines)

def locOfAgg (clean : Str → Str) (p : Profile) (o : GOpts) (f : AggFlags) (id : Nat) : Option (List NodeInfo) :=
  match p.findLocation id with
  | none => none
  | some l => locNodesAgg clean p o f l

/-- the stack of a sample at the granularity given by the flags, computed on the original profile -/
def framesAgg (clean : Str → Str) (p : Profile) (o : GOpts) (f : AggFlags) (s : Sample) : Option (List NodeInfo) :=
  (optAll (locOfAgg clean p o f) s.locationIDs).map (fun perLoc => (perLoc.map List.reverse).reverse.flatten)

theorem locNodes_eq (clean : Str → Str) (p : Profile) (o : GOpts) (l : Location) :
    locNodes clean p o l = optAll (fun ln => nodeInfo clean p o l ln (objfileOf p l))
      (if l.lines.isEmpty then [({ functionID := 0, line := 0, column := 0 } : Line)] else l.lines) := rfl

theorem optAll_map {α β γ : Type} (g : α → β) (h : β → Option γ) (l : List α) :
    optAll h (l.map g) = optAll (fun a => h (g a)) l := by
  induction l with
  | nil => rfl
  | cons a r ih => simp [optAll, ih]

theorem optAll_congr {α β : Type} (g h : α → Option β) (l : List α) (e : ∀ a ∈ l, g a = h a) :
    optAll g l = optAll h l := by
  induction l with
  | nil => rfl
  | cons a r ih =>
    simp only [optAll]
    rw [e a List.mem_cons_self, ih (fun x hx => e x (List.mem_cons_of_mem _ hx))]

theorem nodeInfo_aggregate (clean : Str → Str) (p : Profile) (o : GOpts) (f : AggFlags) (l : Location)
    (ln : Line) (objfile : Str) :
    nodeInfo clean (aggregate p f) o (aggLoc f l) (aggLine f ln) objfile = nodeInfoAgg clean p o f l ln objfile := by
  unfold nodeInfo nodeInfoAgg
  have hid : (aggLine f ln).functionID = ln.functionID := rfl
  have haddr : (aggLoc f l).address = if f.address then l.address else 0 := by
    unfold aggLoc; cases f.address <;> rfl
  rw [hid, haddr]
  by_cases h0 : ln.functionID = 0
  · simp [h0]
  · simp only [h0, if_false]
    rw [findFunction_aggregate]
    cases hf : p.findFunction ln.functionID with
    | none => rfl
    | some fn =>
      simp only [Option.map_some]
      unfold aggFn aggLine
      cases f.function <;> cases f.filename <;> cases o.objNames <;> cases o.origFnNames <;> first | rfl | simp

theorem locNodes_aggregate (clean : Str → Str) (p : Profile) (o : GOpts) (f : AggFlags) (l : Location) :
    locNodes clean (aggregate p f) o (aggLoc f l) = locNodesAgg clean p o f l := by
  rw [locNodes_eq]
  unfold locNodesAgg
  have hobj : objfileOf (aggregate p f) (aggLoc f l) = objfileOf p l := rfl
  rw [hobj]
  have hl : (aggLoc f l).lines = (keepLines f l.lines).map (aggLine f) := aggLines_eq f l.lines
  have he : (aggLoc f l).lines.isEmpty = l.lines.isEmpty := by
    rw [hl]; simp only [List.isEmpty_map]; exact keepLines_isEmpty f l.lines
  rw [he]
  by_cases hemp : l.lines.isEmpty = true
  · simp only [hemp, if_true, optAll]
    have := nodeInfo_aggregate clean p o f l ({ functionID := 0, line := 0, column := 0 } : Line) (objfileOf p l)
    have hpl : aggLine f ({ functionID := 0, line := 0, column := 0 } : Line) = { functionID := 0, line := 0, column := 0 } := by
      unfold aggLine; cases f.linenumber <;> cases f.columnnumber <;> rfl
    rw [hpl] at this
    rw [this]
  · simp only [hemp, Bool.false_eq_true, if_false]
    rw [hl, optAll_map]
    apply optAll_congr
    intro ln _
    exact nodeInfo_aggregate clean p o f l ln _

/-- frames of the aggregated profile = frames at that granularity computed on the original one -/
theorem framesOf_aggregate (clean : Str → Str) (p : Profile) (o : GOpts) (f : AggFlags) (s : Sample) :
    framesOf clean (aggregate p f) o s = framesAgg clean p o f s := by
  rw [framesOf_eq]
  unfold framesAgg
  congr 1
  apply optAll_congr
  intro id _
  unfold locOf locOfAgg
  rw [findLocation_aggregate]
  cases p.findLocation id with
  | none => rfl
  | some l => simp only [Option.map_some]; exact locNodes_aggregate clean p o f l

end PV.Graph
