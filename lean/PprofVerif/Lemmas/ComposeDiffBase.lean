import PprofVerif.Model.CombineBridge
import PprofVerif.Lemmas.NormalizeIdem
import PprofVerif.Lemmas.Combine
/-!
# Composition C07 ← C01: the diff-base label and the weight function survive the proto round trip

`Model/CombineBridge.lean` maps an id-based profile to the weight-function view of C07.  The only
change a write/read round trip makes to a profile is `Profile.normalize` (C01); it keeps stacks and
values, and it keeps `Sample.DiffBaseSample()` because the label value `true` is not the empty
string (`isBase_normalize`) — so the C07 view is unchanged (`ofProfile_normalize`).
`SetLabel("pprof::base", ["true"])` is `setBase` in the C07 view (`ofProfile_setBaseP`).
-/
namespace PV
namespace Combine
open Codec

theorem trueStr_ne_nil : Str.ofString "true" ≠ [] := by decide +kernel

theorem lookup_map_filter {β} (k : Str) (g : β → β) (q : β → Bool) : ∀ (l : List (Str × β)), (Codec.keys l).Nodup →
    ((l.map fun e => (e.1, g e.2)).filter fun e => q e.2).lookup k =
      (l.lookup k).bind fun v => if q (g v) then some (g v) else none
  | [], _ => rfl
  | (k0, v0) :: r, hnd => by
    have hnd' : (Codec.keys r).Nodup := (List.nodup_cons.mp hnd).2
    have hk0 : k0 ∉ Codec.keys r := (List.nodup_cons.mp hnd).1
    have ih := lookup_map_filter k g q r hnd'
    by_cases hk : k = k0
    · subst hk
      have hr : r.lookup k = none := by
        cases h : r.lookup k with
        | none => rfl
        | some v => exact absurd (List.mem_map_of_mem (f := (·.1)) (lookup_mem h)) hk0
      by_cases hq : q (g v0) = true
      · simp [hq, List.lookup]
      · simp only [List.map_cons, List.filter_cons, hq, Bool.false_eq_true, if_false, ih, hr, List.lookup_cons_self,
          Option.bind_some, Option.bind_none]
    · have hbeq : (k == k0) = false := by simpa using hk
      by_cases hq : q (g v0) = true
      · simp only [List.map_cons, List.filter_cons, hq, if_true, List.lookup, hbeq, ih]
      · simp only [List.map_cons, List.filter_cons, hq, Bool.false_eq_true, if_false, List.lookup, hbeq, ih]

theorem contains_filter_ne_nil (vs : List Str) (t : Str) (ht : t ≠ []) :
    (vs.filter (· ≠ [])).contains t = vs.contains t := by
  induction vs with
  | nil => rfl
  | cons v r ih =>
    by_cases hv : v = []
    · subst hv
      have hne : (t == ([] : Str)) = false := by simpa using ht
      simp only [List.filter_cons, ne_eq, not_true_eq_false, decide_false, Bool.false_eq_true, if_false, ih,
        List.contains_cons, hne, Bool.false_or]
    · simp only [List.filter_cons, ne_eq, hv, not_false_eq_true, decide_true, if_true, List.contains_cons, ih]

/-- **the label `pprof::base=true` survives normalisation** (its value is not the empty string),
for samples whose label map is a real map (distinct keys) -/
theorem isBase_normalize (s : PV.Sample) (hnd : (Codec.keys s.label).Nodup) :
    Graph.isBase (Sample.normalize s) = Graph.isBase s := by
  unfold Graph.isBase
  have hl : (Sample.normalize s).label =
      ((s.label.map fun e => (e.1, e.2.filter (· ≠ []))).filter fun e => decide (e.2 ≠ [])) := rfl
  rw [hl, lookup_map_filter (Str.ofString "pprof::base") (fun vs => vs.filter (· ≠ [])) (fun vs => decide (vs ≠ [])) s.label hnd]
  cases h : s.label.lookup (Str.ofString "pprof::base") with
  | none => rfl
  | some vs =>
    simp only [Option.bind_some]
    by_cases hq : vs.filter (· ≠ []) ≠ []
    · have hd : decide (vs.filter (· ≠ []) ≠ []) = true := decide_eq_true hq
      rw [if_pos hd]
      exact contains_filter_ne_nil vs _ trueStr_ne_nil
    · have hd : ¬ (decide (vs.filter (· ≠ []) ≠ []) = true) := by simpa using hq
      rw [if_neg hd]
      have hnil : vs.filter (· ≠ []) = [] := by simpa using hq
      have := contains_filter_ne_nil vs (Str.ofString "true") trueStr_ne_nil
      rw [hnil] at this
      exact this


/-- what the round trip does to a profile (`normalize`) is invisible in the C07 view, for every tag
function that does not tell a sample from its normal form -/
theorem ofProfile_normalize (tag : PV.Sample → Nat) (htag : ∀ s, tag (Sample.normalize s) = tag s)
    (p : Profile) (hs : p.mapsSorted = true) :
    ofProfile tag (Profile.normalize p) = ofProfile tag p := by
  unfold ofProfile Profile.normalize
  simp only [List.map_map]
  apply List.map_congr_left
  intro s hs'
  unfold Profile.mapsSorted at hs
  rw [List.all_eq_true] at hs
  have hss := hs s hs'
  unfold Sample.mapsSorted at hss
  simp only [Bool.and_eq_true] at hss
  have hnd : (Codec.keys s.label).Nodup := nodup_keys_of_pairwise (pairwise_of_keysSorted _ hss.1.1)
  simp only [Function.comp, htag, isBase_normalize s hnd]
  rfl

/-- a tag computed from the normal form of the sample never tells a sample from its normal form -/
theorem tag_normalize_invariant (tag : PV.Sample → Nat) (s : PV.Sample) (hnd : (Codec.keys s.numLabel).Nodup) :
    (tag ∘ Sample.normalize) (Sample.normalize s) = (tag ∘ Sample.normalize) s := by
  simp only [Function.comp, Sample.normalize_idem s hnd]

theorem ofProfile_normalize_normalTag (tag : PV.Sample → Nat) (p : Profile) (hs : p.mapsSorted = true) :
    ofProfile (tag ∘ Sample.normalize) (Profile.normalize p) = ofProfile (tag ∘ Sample.normalize) p := by
  unfold ofProfile Profile.normalize
  simp only [List.map_map]
  apply List.map_congr_left
  intro s hs'
  unfold Profile.mapsSorted at hs
  rw [List.all_eq_true] at hs
  have hss := hs s hs'
  unfold Sample.mapsSorted at hss
  simp only [Bool.and_eq_true] at hss
  have hnd : (Codec.keys s.label).Nodup := nodup_keys_of_pairwise (pairwise_of_keysSorted _ hss.1.1)
  have hnd2 : (Codec.keys s.numLabel).Nodup := nodup_keys_of_pairwise (pairwise_of_keysSorted _ hss.1.2)
  simp only [Function.comp, Sample.normalize_idem s hnd2, isBase_normalize s hnd]
  rfl

theorem lookup_setSorted {β} (k : Str) (v : β) : ∀ (l : List (Str × β)), (setSorted k v l).lookup k = some v
  | [] => by simp [setSorted]
  | e :: r => by
    unfold setSorted
    by_cases h1 : (e.1 == k) = true
    · simp [h1]
    · simp only [h1, Bool.false_eq_true, if_false]
      by_cases h2 : Str.lt k e.1 = true
      · simp [h2]
      · have hne : (k == e.1) = false := by
          have : ¬ e.1 = k := by simpa using h1
          simpa using fun h => this h.symm
        simp only [h2, Bool.false_eq_true, if_false, List.lookup, hne]
        exact lookup_setSorted k v r

/-- after `SetLabel("pprof::base", ["true"])` the sample is a diff-base sample -/
theorem isBase_setBaseLabel (s : PV.Sample) : Graph.isBase (setBaseLabel s) = true := by
  unfold Graph.isBase setBaseLabel
  have h : (setSorted baseKey [trueStr] s.label).lookup (Str.ofString "pprof::base") = some [trueStr] :=
    lookup_setSorted baseKey [trueStr] s.label
  simp only [h]
  simp [trueStr]

/-- labelling a base profile is `setBase` in the C07 view, for tags that ignore that label -/
theorem ofProfile_setBaseP (tag : PV.Sample → Nat) (htag : ∀ s, tag (setBaseLabel s) = tag s) (p : Profile) :
    ofProfile tag (setBaseP p) = setBase (ofProfile tag p) := by
  unfold ofProfile setBaseP setBase
  simp only [List.map_map]
  apply List.map_congr_left
  intro s _
  simp only [Function.comp, htag, isBase_setBaseLabel]
  rfl

end Combine
end PV
