import PprofVerif.Lemmas.TrimTreeNew
/-!
Node table of `newTree`: unique keys, a listed row carries the specification's figures, a node is
present iff some counted sample passes through its path, and the node set is closed under ancestors.
-/
namespace PV.Graph
open PV PV.GSpec PV.TrimTree
variable {κ : Type} [DecidableEq κ]

def GState.hasNode (g : GState κ) (n : κ) : Bool := thas g.nodes n

@[simp] theorem addCum_hasNode (g : GState κ) (n m : κ) (v : WD) :
    (g.addCum n v).hasNode m = (g.hasNode m || decide (n = m)) := by
  unfold GState.addCum GState.hasNode; simp [thas_tupd]
@[simp] theorem addFlat_hasNode (g : GState κ) (n m : κ) (v : WD) :
    (g.addFlat n v).hasNode m = (g.hasNode m || decide (n = m)) := by
  unfold GState.addFlat GState.hasNode; simp [thas_tupd]
@[simp] theorem addEdge_hasNode (g : GState κ) (p n m : κ) (v : WD) (r : Bool) :
    (g.addEdge p n v r).hasNode m = g.hasNode m := rfl

theorem treeStep_hasNode (v : WD) (a : TInner κ) (f : κ) (m pp : List κ) (hpp : ppOf a.parent = pp) :
    (treeStep v a f).g.hasNode m = (a.g.hasNode m || decide (pp ++ [f] = m)) := by
  subst hpp
  unfold treeStep ppOf; cases a.parent <;> simp

theorem foldTree_hasNode (v : WD) (m : List κ) (fs : List κ) : ∀ (a : TInner κ) (pp : List κ), ppOf a.parent = pp →
    (fs.foldl (treeStep v) a).g.hasNode m = (a.g.hasNode m || decide (m ∈ pathsFrom pp fs)) := by
  induction fs with
  | nil => intro a pp _; simp [pathsFrom_nil]
  | cons f fs ih =>
    intro a pp hpp
    have hpar : ppOf (treeStep v a f).parent = pp ++ [f] := by rw [treeStep_parent, hpp]; rfl
    rw [List.foldl_cons, ih _ _ hpar, treeStep_hasNode v a f m pp hpp, pathsFrom_cons, Bool.or_assoc]
    congr 1
    by_cases h : pp ++ [f] = m
    · subst h; simp
    · have : ¬ m = pp ++ [f] := fun e => h e.symm
      simp [h, this]

theorem mem_prefixes_self {fs : List κ} (h : fs ≠ []) : fs ∈ prefixes fs := by
  have := prefixes_getLast fs
  simp only [h, if_false] at this
  exact List.mem_of_getLast? this

theorem treeSampleStep_hasNode (g : GState (List κ)) (s : GSample κ) (m : List κ) :
    (treeSampleStep g s).hasNode m = (g.hasNode m || (counted s && decide (m ∈ prefixes s.frames))) := by
  unfold treeSampleStep
  by_cases hs : (s.d == 0 && s.w == 0) = true
  · have : counted s = false := by rw [counted_eq, hs]; rfl
    simp [hs, this]
  · have hc : counted s = true := by
      rw [counted_eq]
      cases h : (s.d == 0 && s.w == 0) with
      | true => exact absurd h hs
      | false => rfl
    simp only [hs]
    have h := foldTree_hasNode s.wd m s.frames ⟨g, none⟩ [] rfl
    rw [← prefixes_eq_pathsFrom] at h
    have hp := foldTree_parent s.wd s.frames ⟨g, none⟩
    generalize List.foldl (treeStep s.wd) ⟨g, none⟩ s.frames = r at h hp
    by_cases hnil : s.frames = []
    · simp [hnil] at hp
      simp [hp, hc, h, hnil]
    · simp [hnil, ppOf] at hp
      simp only [hp, Bool.false_eq_true, if_false, addFlat_hasNode, h, hc, Bool.true_and]
      by_cases hm : s.frames = m
      · subst hm
        simp [mem_prefixes_self hnil]
      · simp [hm]

theorem newTree_hasNode (ss : List (GSample κ)) (m : List κ) :
    (newTree ss).hasNode m = ss.any (fun s => counted s && decide (m ∈ prefixes s.frames)) := by
  unfold newTree
  have : ∀ (l : List (GSample κ)) (g : GState (List κ)),
      (l.foldl treeSampleStep g).hasNode m =
        (g.hasNode m || l.any (fun s => counted s && decide (m ∈ prefixes s.frames))) := by
    intro l
    induction l with
    | nil => intro g; simp
    | cons s l ih => intro g; rw [List.foldl_cons, ih, treeSampleStep_hasNode, List.any_cons, Bool.or_assoc]
  rw [this]
  simp [GState.hasNode, GState.empty, thas]

/-! ### prefixes and ancestors -/

theorem mem_prefixes_iff (fs x : List κ) : x ∈ prefixes fs ↔ x ≠ [] ∧ ∃ t, fs = x ++ t := by
  induction fs generalizing x with
  | nil =>
    simp only [prefixes, List.not_mem_nil, false_iff, not_and]
    intro hx ⟨t, ht⟩
    cases x with
    | nil => exact hx rfl
    | cons _ _ => simp at ht
  | cons y r ih =>
    simp only [prefixes, List.mem_cons, List.mem_map]
    constructor
    · rintro (rfl | ⟨z, hz, rfl⟩)
      · exact ⟨by simp, r, rfl⟩
      · obtain ⟨_, t, ht⟩ := (ih z).mp hz
        exact ⟨by simp, t, by rw [ht]; rfl⟩
    · rintro ⟨hx, t, ht⟩
      cases x with
      | nil => exact absurd rfl hx
      | cons x0 xr =>
        simp only [List.cons_append, List.cons.injEq] at ht
        obtain ⟨rfl, hr⟩ := ht
        cases xr with
        | nil => left; rfl
        | cons x1 xr' =>
          right
          exact ⟨x1 :: xr', (ih _).mpr ⟨by simp, t, hr⟩, rfl⟩

/-- a sample that passes through a node passes through all its ancestors -/
theorem mem_prefixes_of_ancestor {fs b x : List κ} (hb : b ∈ prefixes fs) (hx : x ∈ ancestors b) :
    x ∈ prefixes fs := by
  obtain ⟨_, t, rfl⟩ := (mem_prefixes_iff fs b).mp hb
  obtain ⟨t', _, rfl⟩ := mem_ancestors_prefix hx
  exact (mem_prefixes_iff _ x).mpr ⟨(mem_ancestors_length hx).1, t' ++ t, by simp⟩

/-- the node set of a call tree is closed under ancestors -/
theorem newTree_hasNode_ancestor (ss : List (GSample κ)) (b x : List κ)
    (hb : (newTree ss).hasNode b = true) (hx : x ∈ ancestors b) : (newTree ss).hasNode x = true := by
  rw [newTree_hasNode, List.any_eq_true] at hb ⊢
  obtain ⟨s, hs, hc⟩ := hb
  simp only [Bool.and_eq_true, decide_eq_true_eq] at hc
  exact ⟨s, hs, by simp [hc.1, mem_prefixes_of_ancestor hc.2 hx]⟩

/-- the target of an edge is a node -/
theorem newTree_hasNode_of_edge (ss : List (GSample κ)) (a b : List κ) (h : (newTree ss).hasEdge a b = true) :
    (newTree ss).hasNode b = true := by
  rw [newTree_hasEdge, List.any_eq_true] at h
  obtain ⟨s, hs, hc⟩ := h
  simp only [Bool.and_eq_true, decide_eq_true_eq] at hc
  rw [newTree_hasNode, List.any_eq_true]
  have hm := hc.2
  rw [treePairs_none_eq_zip] at hm
  exact ⟨s, hs, by simp [hc.1, (mem_zip_tail_mem hm).2]⟩

/-! ### unique node keys; listed rows -/

theorem treeStep_nodesNodup (v : WD) (a : TInner κ) (f : κ) (h : NodesNodup a.g) : NodesNodup (treeStep v a f).g := by
  unfold treeStep
  cases a.parent with
  | none => exact KeysNodup.tupd h _ _ _
  | some p => exact KeysNodup.tupd h _ _ _

theorem newTree_nodesNodup (ss : List (GSample κ)) : NodesNodup (newTree ss) := by
  unfold newTree
  have hfold : ∀ (v : WD) (fs : List κ) (a : TInner κ), NodesNodup a.g → NodesNodup (fs.foldl (treeStep v) a).g := by
    intro v fs
    induction fs with
    | nil => intro a h; exact h
    | cons f fs ih => intro a h; exact ih _ (treeStep_nodesNodup v a f h)
  have hstep : ∀ (g : GState (List κ)) (s : GSample κ), NodesNodup g → NodesNodup (treeSampleStep g s) := by
    intro g s h
    unfold treeSampleStep
    split
    · exact h
    · have := hfold s.wd s.frames ⟨g, none⟩ h
      generalize List.foldl (treeStep s.wd) ⟨g, none⟩ s.frames = r at this
      simp only
      cases hp : r.parent with
      | none => simpa [hp] using this
      | some p => simp only [hp]; exact KeysNodup.tupd this _ _ _
  have : ∀ (l : List (GSample κ)) (g : GState (List κ)), NodesNodup g → NodesNodup (l.foldl treeSampleStep g) := by
    intro l
    induction l with
    | nil => intro g h; exact h
    | cons s l ih => intro g h; exact ih _ (hstep g s h)
  exact this ss _ (by simp [NodesNodup, KeysNodup, GState.empty])

/-- a listed row of a call tree carries the specification's figures for its path -/
theorem tree_shownNodes_spec (ss : List (GSample κ)) (n : List κ) (a : NodeAcc)
    (h : (n, a) ∈ (newTree ss).shownNodes) :
    a.flat = flatSpec (ss.map treeSample) n ∧ a.cum = cumSpec (ss.map treeSample) n := by
  unfold GState.shownNodes at h
  have hm : (n, a) ∈ (newTree ss).nodes := (List.mem_filter.mp h).1
  have hget := tget_of_mem _ (newTree_nodesNodup ss) n a NodeAcc.zero hm
  constructor
  · have := tree_flat_eq_spec ss n
    unfold GState.flat at this
    rw [hget] at this
    exact this
  · have := tree_cum_eq_spec ss n
    unfold GState.cum at this
    rw [hget] at this
    exact this

theorem shownNodes_keys_nodup (g : GState κ) (h : NodesNodup g) : (g.shownNodes.map Prod.fst).Nodup := by
  unfold GState.shownNodes
  exact keysNodup_filter h _

end PV.Graph
