import PprofVerif.Model.Merge
import PprofVerif.Lemmas.Varint
import Mathlib.Data.List.Basic
/-!
The key encodings of `profile/merge.go` identify what they encode (DESIGN Appendix A.2):
`sampleKey` (varints and length-delimited strings, as repaired) and the `lines` string of
`Location.key` (hex fields joined by `|`, as repaired) are injective, for all inputs.
-/
namespace PV.Merge
open PV.Wire (encodeVarint toU64 InI64 two63 two64 ofNat_toNat_lt)

/-! ### uniquely decodable encoders -/

/-- `enc` is a prefix code on the values satisfying `P`: what follows an encoding cannot be
confused with part of it. -/
def PrefixInjOn {α : Type} (P : α → Prop) (enc : α → Str) : Prop :=
  ∀ a b (r r' : Str), P a → P b → enc a ++ r = enc b ++ r' → a = b ∧ r = r'

theorem encodeVarint_ge {x : Nat} (h : x ≥ 128) :
    encodeVarint x = UInt8.ofNat (x % 128 + 128) :: encodeVarint (x / 128) := by
  rw [encodeVarint]; simp [h]

theorem encodeVarint_lt {x : Nat} (h : x < 128) : encodeVarint x = [UInt8.ofNat x] := by
  rw [encodeVarint]; simp [Nat.not_le.mpr h]

theorem ofNat_inj_lt {a b : Nat} (ha : a < 256) (hb : b < 256) (h : UInt8.ofNat a = UInt8.ofNat b) : a = b := by
  have := congrArg UInt8.toNat h
  rwa [ofNat_toNat_lt ha, ofNat_toNat_lt hb] at this

/-- base-128 varints are a prefix code — for every natural number, no 2⁶⁴ bound needed. -/
theorem encodeVarint_prefix_inj (x : Nat) : ∀ (y : Nat) (r r' : Str),
    encodeVarint x ++ r = encodeVarint y ++ r' → x = y ∧ r = r' := by
  induction x using Nat.strongRecOn with
  | _ x ih =>
    intro y r r' h
    by_cases hx : x ≥ 128
    · by_cases hy : y ≥ 128
      · rw [encodeVarint_ge hx, encodeVarint_ge hy] at h
        simp only [List.cons_append, List.cons.injEq] at h
        have h1 := ofNat_inj_lt (by omega) (by omega) h.1
        obtain ⟨h2, h3⟩ := ih (x / 128) (by omega) (y / 128) r r' h.2
        exact ⟨by omega, h3⟩
      · rw [encodeVarint_ge hx, encodeVarint_lt (x := y) (by omega)] at h
        simp only [List.cons_append, List.cons.injEq] at h
        have h1 := ofNat_inj_lt (by omega) (by omega) h.1
        omega
    · by_cases hy : y ≥ 128
      · rw [encodeVarint_lt (x := x) (by omega), encodeVarint_ge hy] at h
        simp only [List.cons_append, List.cons.injEq] at h
        have h1 := ofNat_inj_lt (by omega) (by omega) h.1
        omega
      · rw [encodeVarint_lt (x := x) (by omega), encodeVarint_lt (x := y) (by omega)] at h
        simp only [List.cons_append, List.nil_append, List.cons.injEq] at h
        exact ⟨ofNat_inj_lt (by omega) (by omega) h.1, h.2⟩

theorem putNumber_prefix_inj : PrefixInjOn (fun _ => True) putNumber := by
  intro a b r r' _ _ h
  exact encodeVarint_prefix_inj a b r r' h

theorem putDelimited_prefix_inj : PrefixInjOn (fun _ => True) putDelimited := by
  intro s t r r' _ _ h
  unfold putDelimited at h
  rw [List.append_assoc, List.append_assoc] at h
  obtain ⟨hl, h2⟩ := putNumber_prefix_inj _ _ _ _ trivial trivial h
  obtain ⟨h3, h4⟩ := List.append_inj h2 hl
  exact ⟨h3, h4⟩

theorem toU64_inj {a b : Int} (ha : InI64 a) (hb : InI64 b) (h : toU64 a = toU64 b) : a = b := by
  unfold InI64 two63 at ha hb
  unfold toU64 two64 at h
  omega

theorem putNumberI64_prefix_inj : PrefixInjOn InI64 (fun v => putNumber (toU64 v)) := by
  intro a b r r' ha hb h
  obtain ⟨h1, h2⟩ := putNumber_prefix_inj _ _ _ _ trivial trivial h
  exact ⟨toU64_inj ha hb h1, h2⟩

/-- two encoders in sequence. -/
theorem prefixInj_pair {α β : Type} {P : α → Prop} {Q : β → Prop} {f : α → Str} {g : β → Str}
    (hf : PrefixInjOn P f) (hg : PrefixInjOn Q g) :
    PrefixInjOn (fun ab : α × β => P ab.1 ∧ Q ab.2) (fun ab => f ab.1 ++ g ab.2) := by
  intro a b r r' ha hb h
  simp only [List.append_assoc] at h
  obtain ⟨h1, h2⟩ := hf _ _ _ _ ha.1 hb.1 h
  obtain ⟨h3, h4⟩ := hg _ _ _ _ ha.2 hb.2 h2
  exact ⟨Prod.ext h1 h3, h4⟩

/-- element-wise encoding of two lists of the same length. -/
theorem flatMap_prefix_inj {α : Type} {P : α → Prop} {f : α → Str} (hf : PrefixInjOn P f) :
    ∀ (xs ys : List α) (r r' : Str), xs.length = ys.length → (∀ x ∈ xs, P x) → (∀ y ∈ ys, P y) →
      xs.flatMap f ++ r = ys.flatMap f ++ r' → xs = ys ∧ r = r'
  | [], [], r, r', _, _, _, h => ⟨rfl, by simpa using h⟩
  | [], _ :: _, _, _, hl, _, _, _ => by simp at hl
  | _ :: _, [], _, _, hl, _, _, _ => by simp at hl
  | x :: xs, y :: ys, r, r', hl, hx, hy, h => by
    simp only [List.flatMap_cons, List.append_assoc] at h
    obtain ⟨h1, h2⟩ := hf _ _ _ _ (hx x (by simp)) (hy y (by simp)) h
    obtain ⟨h3, h4⟩ := flatMap_prefix_inj hf xs ys r r' (by simpa using hl)
      (fun a ha => hx a (List.mem_cons_of_mem _ ha)) (fun a ha => hy a (List.mem_cons_of_mem _ ha)) h2
    exact ⟨by rw [h1, h3], h4⟩

/-- a list written as its length followed by its elements (right-associated form). -/
theorem counted_prefix_inj' {α : Type} {P : α → Prop} {f : α → Str} (hf : PrefixInjOn P f)
    (xs ys : List α) (r r' : Str) (hx : ∀ x ∈ xs, P x) (hy : ∀ y ∈ ys, P y)
    (h : putNumber xs.length ++ (xs.flatMap f ++ r) = putNumber ys.length ++ (ys.flatMap f ++ r')) :
    xs = ys ∧ r = r' := by
  obtain ⟨hl, h2⟩ := putNumber_prefix_inj _ _ _ _ trivial trivial h
  exact flatMap_prefix_inj hf xs ys r r' hl hx hy h2

/-- a list written as its length followed by its elements. -/
theorem counted_prefix_inj {α : Type} {P : α → Prop} {f : α → Str} (hf : PrefixInjOn P f) :
    PrefixInjOn (fun xs : List α => ∀ x ∈ xs, P x) (fun xs => putNumber xs.length ++ xs.flatMap f) := by
  intro xs ys r r' hx hy h
  simp only [List.append_assoc] at h
  exact counted_prefix_inj' hf xs ys r r' hx hy h

theorem prefixInjOn_mono {α : Type} {P Q : α → Prop} {f : α → Str} (h : PrefixInjOn P f)
    (hq : ∀ a, Q a → P a) : PrefixInjOn Q f :=
  fun a b r r' ha hb he => h a b r r' (hq a ha) (hq b hb) he

theorem putStrLabel_prefix_inj : PrefixInjOn (fun _ => True) putStrLabel := by
  have h := prefixInj_pair putDelimited_prefix_inj (counted_prefix_inj putDelimited_prefix_inj)
  intro a b r r' _ _ he
  have := h a b r r' ⟨trivial, fun _ _ => trivial⟩ ⟨trivial, fun _ _ => trivial⟩
    (by simpa [putStrLabel, List.append_assoc] using he)
  exact this

theorem putNumLabel_prefix_inj :
    PrefixInjOn (fun kvu : Str × (List Int × List Str) => ∀ v ∈ kvu.2.1, InI64 v) putNumLabel := by
  have h := prefixInj_pair putDelimited_prefix_inj
    (prefixInj_pair (counted_prefix_inj putNumberI64_prefix_inj) (counted_prefix_inj putDelimited_prefix_inj))
  intro a b r r' ha hb he
  exact h a b r r' ⟨trivial, ha, fun _ _ => trivial⟩ ⟨trivial, hb, fun _ _ => trivial⟩
    (by simpa [putNumLabel, List.append_assoc] using he)

theorem putNumber_zero : putNumber 0 = [0] := by
  unfold putNumber; rw [encodeVarint_lt (by omega)]; rfl

/-- the location section: non-zero ids closed by a `0`. -/
theorem locIDs_prefix_inj : ∀ (xs ys : List Nat) (r r' : Str), (∀ x ∈ xs, x ≠ 0) → (∀ y ∈ ys, y ≠ 0) →
    xs.flatMap putNumber ++ (putNumber 0 ++ r) = ys.flatMap putNumber ++ (putNumber 0 ++ r') →
    xs = ys ∧ r = r'
  | [], [], r, r', _, _, h => by
    simp only [List.flatMap_nil, List.nil_append] at h
    exact ⟨rfl, (putNumber_prefix_inj _ _ _ _ trivial trivial h).2⟩
  | [], y :: ys, r, r', _, hy, h => by
    simp only [List.flatMap_nil, List.nil_append, List.flatMap_cons, List.append_assoc] at h
    have := (putNumber_prefix_inj _ _ _ _ trivial trivial h).1
    exact absurd this.symm (hy y (by simp))
  | x :: xs, [], r, r', hx, _, h => by
    simp only [List.flatMap_nil, List.nil_append, List.flatMap_cons, List.append_assoc] at h
    have := (putNumber_prefix_inj _ _ _ _ trivial trivial h).1
    exact absurd this (hx x (by simp))
  | x :: xs, y :: ys, r, r', hx, hy, h => by
    simp only [List.flatMap_cons, List.append_assoc] at h
    obtain ⟨h1, h2⟩ := putNumber_prefix_inj _ _ _ _ trivial trivial h
    obtain ⟨h3, h4⟩ := locIDs_prefix_inj xs ys r r' (fun a ha => hx a (List.mem_cons_of_mem _ ha))
      (fun a ha => hy a (List.mem_cons_of_mem _ ha)) h2
    exact ⟨by rw [h1, h3], h4⟩

theorem labelsWithUnits_length (nl : List (Str × List Int)) (nu : List (Str × List Str)) :
    (labelsWithUnits nl nu).length = nl.length := by simp [labelsWithUnits]

theorem labelsWithUnits_InI64 (nl : List (Str × List Int)) (nu : List (Str × List Str))
    (h : ∀ kv ∈ nl, ∀ v ∈ kv.2, InI64 v) : ∀ kvu ∈ labelsWithUnits nl nu, ∀ v ∈ kvu.2.1, InI64 v := by
  intro kvu hk
  obtain ⟨kv, hkv, rfl⟩ := List.mem_map.mp hk
  exact h kv hkv

/-- **`sampleKey` identifies the remapped stack and the label sets.** -/
theorem sampleKey_inj (a b : Sample) (ha : ∀ id ∈ a.locationIDs, id ≠ 0) (hb : ∀ id ∈ b.locationIDs, id ≠ 0)
    (hna : ∀ kv ∈ a.numLabel, ∀ v ∈ kv.2, InI64 v) (hnb : ∀ kv ∈ b.numLabel, ∀ v ∈ kv.2, InI64 v)
    (h : sampleKey a = sampleKey b) :
    a.locationIDs = b.locationIDs ∧ a.label = b.label ∧
      labelsWithUnits a.numLabel a.numUnit = labelsWithUnits b.numLabel b.numUnit := by
  unfold sampleKey at h
  rw [← labelsWithUnits_length a.numLabel a.numUnit, ← labelsWithUnits_length b.numLabel b.numUnit] at h
  simp only [List.append_assoc] at h
  obtain ⟨h1, h2⟩ := locIDs_prefix_inj _ _ _ _ ha hb h
  obtain ⟨h3, h4⟩ := counted_prefix_inj' putStrLabel_prefix_inj a.label b.label _ _
    (fun _ _ => trivial) (fun _ _ => trivial) h2
  have h5 := counted_prefix_inj' putNumLabel_prefix_inj (labelsWithUnits a.numLabel a.numUnit)
    (labelsWithUnits b.numLabel b.numUnit) [] []
    (labelsWithUnits_InI64 _ _ hna) (labelsWithUnits_InI64 _ _ hnb) (by simpa using h4)
  exact ⟨h1, h3, h5.1⟩

/-! ### the `lines` string of `Location.key` -/

theorem hexDigitB_toNat {d : Nat} (h : d < 16) :
    (hexDigitB d).toNat = if d < 10 then 48 + d else 87 + d := by
  unfold hexDigitB
  split
  · exact ofNat_toNat_lt (by omega)
  · exact ofNat_toNat_lt (by omega)

theorem hexDigitB_inj {a b : Nat} (ha : a < 16) (hb : b < 16) (h : hexDigitB a = hexDigitB b) : a = b := by
  have := congrArg UInt8.toNat h
  rw [hexDigitB_toNat ha, hexDigitB_toNat hb] at this
  split at this <;> split at this <;> omega

theorem hexDigitB_ne {d : Nat} (h : d < 16) : hexDigitB d ≠ 0x7c ∧ hexDigitB d ≠ 0x2d := by
  have ht := hexDigitB_toNat h
  constructor
  · intro he; rw [he] at ht; simp at ht; split at ht <;> omega
  · intro he; rw [he] at ht; simp at ht; split at ht <;> omega

theorem hexNat_lt {n : Nat} (h : n < 16) : hexNat n = [hexDigitB n] := by
  rw [hexNat]; simp [h]

theorem hexNat_ge {n : Nat} (h : ¬ n < 16) : hexNat n = hexNat (n / 16) ++ [hexDigitB (n % 16)] := by
  rw [hexNat]; simp [h]

theorem hexNat_ne_nil (n : Nat) : hexNat n ≠ [] := by
  by_cases h : n < 16
  · rw [hexNat_lt h]; simp
  · rw [hexNat_ge h]; simp

theorem hexNat_digits (n : Nat) : ∀ c ∈ hexNat n, c ≠ 0x7c ∧ c ≠ 0x2d := by
  induction n using Nat.strongRecOn with
  | _ n ih =>
    intro c hc
    by_cases h : n < 16
    · rw [hexNat_lt h] at hc
      simp only [List.mem_singleton] at hc
      subst hc; exact hexDigitB_ne h
    · rw [hexNat_ge h] at hc
      rcases List.mem_append.mp hc with hc | hc
      · exact ih (n / 16) (by omega) c hc
      · simp only [List.mem_singleton] at hc
        subst hc; exact hexDigitB_ne (by omega)

theorem hexNat_inj (a : Nat) : ∀ b, hexNat a = hexNat b → a = b := by
  induction a using Nat.strongRecOn with
  | _ a ih =>
    intro b h
    by_cases ha : a < 16
    · by_cases hb : b < 16
      · rw [hexNat_lt ha, hexNat_lt hb] at h
        exact hexDigitB_inj ha hb (by simpa using h)
      · rw [hexNat_lt ha, hexNat_ge hb] at h
        have := congrArg List.length h
        have hne := hexNat_ne_nil (b / 16)
        simp only [List.length_singleton, List.length_append] at this
        have : (hexNat (b / 16)).length = 0 := by omega
        exact absurd (List.eq_nil_of_length_eq_zero this) hne
    · by_cases hb : b < 16
      · rw [hexNat_ge ha, hexNat_lt hb] at h
        have := congrArg List.length h
        have hne := hexNat_ne_nil (a / 16)
        simp only [List.length_singleton, List.length_append] at this
        have : (hexNat (a / 16)).length = 0 := by omega
        exact absurd (List.eq_nil_of_length_eq_zero this) hne
      · rw [hexNat_ge ha, hexNat_ge hb] at h
        obtain ⟨h1, h2⟩ := List.append_inj' h rfl
        have h3 := ih (a / 16) (by omega) (b / 16) h1
        have h4 := hexDigitB_inj (a := a % 16) (b := b % 16) (by omega) (by omega) (by simpa using h2)
        omega

theorem fmtInt_ne_nil (x : Int) : fmtInt x ≠ [] := by
  unfold fmtInt; split
  · simp
  · exact hexNat_ne_nil _

theorem fmtInt_no_sep (x : Int) : ∀ c ∈ fmtInt x, c ≠ 0x7c := by
  intro c hc
  unfold fmtInt at hc
  split at hc
  · rcases List.mem_cons.mp hc with rfl | hc
    · decide
    · exact (hexNat_digits _ c hc).1
  · exact (hexNat_digits _ c hc).1

theorem fmtInt_inj (a b : Int) (h : fmtInt a = fmtInt b) : a = b := by
  unfold fmtInt at h
  by_cases ha : a < 0 <;> by_cases hb : b < 0
  · simp only [ha, hb, if_true, List.cons.injEq, true_and] at h
    have := hexNat_inj _ _ h
    omega
  · simp only [ha, hb, if_true, if_false] at h
    have hne := hexNat_ne_nil b.toNat
    cases hh : hexNat b.toNat with
    | nil => exact absurd hh hne
    | cons c cs =>
      rw [hh] at h
      have hc := (hexNat_digits b.toNat c (by rw [hh]; simp)).2
      simp only [List.cons.injEq] at h
      exact absurd h.1.symm hc
  · simp only [ha, hb, if_true, if_false] at h
    have hne := hexNat_ne_nil a.toNat
    cases hh : hexNat a.toNat with
    | nil => exact absurd hh hne
    | cons c cs =>
      rw [hh] at h
      have hc := (hexNat_digits a.toNat c (by rw [hh]; simp)).2
      simp only [List.cons.injEq] at h
      exact absurd h.1 hc
  · simp only [ha, hb, if_false] at h
    have := hexNat_inj _ _ h
    omega

/-- a separator-free field followed by the separator is a prefix code. -/
theorem sepfree_append_inj (sep : UInt8) : ∀ (x y r r' : Str), sep ∉ x → sep ∉ y →
    x ++ sep :: r = y ++ sep :: r' → x = y ∧ r = r'
  | [], [], r, r', _, _, h => by simpa using h
  | [], c :: y, r, r', _, hy, h => by
    simp only [List.nil_append, List.cons_append, List.cons.injEq] at h
    exact absurd (h.1 ▸ List.mem_cons_self) hy
  | a :: x, [], r, r', hx, _, h => by
    simp only [List.nil_append, List.cons_append, List.cons.injEq] at h
    exact absurd (h.1 ▸ List.mem_cons_self) hx
  | a :: x, c :: y, r, r', hx, hy, h => by
    simp only [List.cons_append, List.cons.injEq] at h
    obtain ⟨h1, h2⟩ := sepfree_append_inj sep x y r r' (fun hm => hx (List.mem_cons_of_mem _ hm))
      (fun hm => hy (List.mem_cons_of_mem _ hm)) h.2
    exact ⟨by rw [h.1, h1], h2⟩

theorem count_joinSep (sep : UInt8) : ∀ (xs : List Str), (∀ x ∈ xs, sep ∉ x) →
    List.count sep (joinSep sep xs) = xs.length - 1
  | [], _ => rfl
  | [x], h => by
    simp only [joinSep, List.length_singleton, Nat.sub_self]
    exact List.count_eq_zero.mpr (h x (by simp))
  | x :: y :: r, h => by
    have ih := count_joinSep sep (y :: r) (fun a ha => h a (List.mem_cons_of_mem _ ha))
    simp only [joinSep, List.count_append, List.count_cons_self, List.length_cons] at ih ⊢
    rw [List.count_eq_zero.mpr (h x (by simp)), ih]
    omega

theorem joinSep_inj_len (sep : UInt8) : ∀ (xs ys : List Str), (∀ x ∈ xs, sep ∉ x) → (∀ y ∈ ys, sep ∉ y) →
    xs.length = ys.length → joinSep sep xs = joinSep sep ys → xs = ys
  | [], [], _, _, _, _ => rfl
  | [], _ :: _, _, _, hl, _ => by simp at hl
  | _ :: _, [], _, _, hl, _ => by simp at hl
  | [x], [y], _, _, _, h => by simpa [joinSep] using h
  | [_], _ :: _ :: _, _, _, hl, _ => by simp at hl
  | _ :: _ :: _, [_], _, _, hl, _ => by simp at hl
  | x :: x2 :: xr, y :: y2 :: yr, hx, hy, hl, h => by
    simp only [joinSep] at h
    obtain ⟨h1, h2⟩ := sepfree_append_inj sep x y _ _ (hx x (by simp)) (hy y (by simp)) h
    have := joinSep_inj_len sep (x2 :: xr) (y2 :: yr) (fun a ha => hx a (List.mem_cons_of_mem _ ha))
      (fun a ha => hy a (List.mem_cons_of_mem _ ha)) (by simpa using hl) h2
    rw [h1, this]

/-- `strings.Join` of separator-free fields is injective (apart from `[]` vs `[""]`). -/
theorem joinSep_inj (sep : UInt8) (xs ys : List Str) (hx : ∀ x ∈ xs, sep ∉ x) (hy : ∀ y ∈ ys, sep ∉ y)
    (hx1 : xs.length ≠ 1) (hy1 : ys.length ≠ 1) (h : joinSep sep xs = joinSep sep ys) : xs = ys := by
  have hc := congrArg (List.count sep) h
  rw [count_joinSep sep xs hx, count_joinSep sep ys hy] at hc
  by_cases h0 : xs.length = 0
  · by_cases h0' : ys.length = 0
    · rw [List.eq_nil_of_length_eq_zero h0, List.eq_nil_of_length_eq_zero h0']
    · have hx0 := List.eq_nil_of_length_eq_zero h0
      subst hx0
      -- ys has ≥ 2 fields: its join contains a separator
      omega
  · by_cases h0' : ys.length = 0
    · omega
    · exact joinSep_inj_len sep xs ys hx hy (by omega) h

theorem lineFields_sepfree (ln : Line) : ∀ f ∈ lineFields ln, (0x7c : UInt8) ∉ f := by
  intro f hf
  simp only [lineFields, List.mem_cons, List.mem_nil_iff, or_false] at hf
  rcases hf with rfl | rfl | rfl
  · split
    · simp
    · intro hm; exact (hexNat_digits _ _ hm).1 rfl
  · intro hm; exact fmtInt_no_sep _ _ hm rfl
  · intro hm; exact fmtInt_no_sep _ _ hm rfl

theorem lineFields_inj (a b : Line) (h : lineFields a = lineFields b) : a = b := by
  simp only [lineFields, List.cons.injEq, and_true] at h
  obtain ⟨h1, h2, h3⟩ := h
  have hl := fmtInt_inj _ _ h2
  have hc := fmtInt_inj _ _ h3
  have hf : a.functionID = b.functionID := by
    by_cases ha : a.functionID = 0 <;> by_cases hb : b.functionID = 0
    · rw [ha, hb]
    · simp only [ha, hb, if_true, if_false] at h1
      exact absurd h1.symm (hexNat_ne_nil _)
    · simp only [ha, hb, if_true, if_false] at h1
      exact absurd h1 (hexNat_ne_nil _)
    · simp only [ha, hb, if_false] at h1
      exact hexNat_inj _ _ h1
  cases a; cases b; simp_all

theorem flatMap_lineFields_inj : ∀ (a b : List Line), a.flatMap lineFields = b.flatMap lineFields → a = b
  | [], [], _ => rfl
  | [], y :: ys, h => by simp [lineFields] at h
  | x :: xs, [], h => by simp [lineFields] at h
  | x :: xs, y :: ys, h => by
    simp only [List.flatMap_cons] at h
    have hl : (lineFields x).length = (lineFields y).length := by simp [lineFields]
    obtain ⟨h1, h2⟩ := List.append_inj h hl
    rw [lineFields_inj x y h1, flatMap_lineFields_inj xs ys h2]

theorem flatMap_lineFields_length (a : List Line) : (a.flatMap lineFields).length = 3 * a.length := by
  induction a with
  | nil => rfl
  | cons x xs ih => simp only [List.flatMap_cons, List.length_append, ih, List.length_cons]; simp [lineFields]; omega

/-- **the `lines` string of `Location.key` (as repaired) identifies the inline chain.** -/
theorem linesKey_inj (a b : List Line) (h : linesKey a = linesKey b) : a = b := by
  unfold linesKey at h
  apply flatMap_lineFields_inj
  refine joinSep_inj 0x7c _ _ ?_ ?_ ?_ ?_ h
  · intro f hf
    obtain ⟨ln, _, hfl⟩ := List.mem_flatMap.mp hf
    exact lineFields_sepfree ln f hfl
  · intro f hf
    obtain ⟨ln, _, hfl⟩ := List.mem_flatMap.mp hf
    exact lineFields_sepfree ln f hfl
  · rw [flatMap_lineFields_length]; omega
  · rw [flatMap_lineFields_length]; omega

theorem locationKey_inj (ms ms' : Nat) (l l' : Location) (h : locationKey ms l = locationKey ms' l') :
    l.mappingID = l'.mappingID ∧ l.lines = l'.lines ∧ l.isFolded = l'.isFolded ∧
      (if l.mappingID = 0 then l.address else subU64 l.address ms) =
        (if l'.mappingID = 0 then l'.address else subU64 l'.address ms') := by
  unfold locationKey at h
  simp only [LocationKey.mk.injEq] at h
  exact ⟨h.2.1, linesKey_inj _ _ h.2.2.1, h.2.2.2, h.1⟩

end PV.Merge
