import PprofVerif.Lemmas.StacksIntern
/-! C17 helper lemmas, part C: invariant of the sample loop of `makeInitialStacks`. -/
namespace PV.Stacks
open PV

/-- the stack the loop builds for a sample with value/frames `x`, given the final `srcs` map. -/
def mkStack (M : List (Key × Nat)) (x : Int × List Frame) : Stack :=
  ⟨x.1, Slice.lit (0 :: x.2.map (idxIn M))⟩

structure Inv (o : Opts) (acc : St × Slice Stack) (done : List (Int × List Frame)) : Prop where
  wf : WF o acc.1
  snn : acc.2.nonnil = true
  stacks : acc.2.elems = done.map (mkStack acc.1.srcs)
  known : ∀ x ∈ done, ∀ f ∈ x.2, (acc.1.srcs.lookup f.key).isSome = true
  self : ∀ i s, acc.1.sources.elems[i]? = some s →
           s.self = Spec.selfOf acc.2.elems i ∧ s.places = Slice.lit []
  root : ∃ s, acc.1.sources.elems[0]? = some s ∧ s.fullName = Str.ofString "root" ∧ s.inlined = false

theorem WF.pos {o : Opts} {st : St} (h : WF o st) : 0 < st.sources.elems.length := by rw [h.len]; omega

theorem inRange {o : Opts} {st : St} (h : WF o st) (fs : List Frame)
    (hk : ∀ f ∈ fs, (st.srcs.lookup f.key).isSome = true) :
    ∀ i ∈ 0 :: fs.map (idxIn st.srcs), i < st.sources.elems.length := by
  intro i hi
  rcases List.mem_cons.1 hi with rfl | hi
  · exact h.pos
  · obtain ⟨f, hf, rfl⟩ := List.mem_map.1 hi
    have := hk f hf
    cases hl : st.srcs.lookup f.key with
    | none => simp [hl] at this
    | some j => rw [idxIn_of_lookup hl]; exact (h.rng _ _ hl).2

theorem idxIn_mono {a b : St} (e : Ext a b) {f : Frame} (hk : (a.srcs.lookup f.key).isSome = true) :
    idxIn a.srcs f = idxIn b.srcs f := by
  cases hl : a.srcs.lookup f.key with
  | none => simp [hl] at hk
  | some j => rw [idxIn_of_lookup hl, idxIn_of_lookup (e.mono _ _ hl)]

theorem isSome_mono {a b : St} (e : Ext a b) {f : Frame} (hk : (a.srcs.lookup f.key).isSome = true) :
    (b.srcs.lookup f.key).isSome = true := by
  cases hl : a.srcs.lookup f.key with
  | none => simp [hl] at hk
  | some j => simp [e.mono _ _ hl]

theorem selfOf_eq_zero (stacks : List Stack) (i : Nat)
    (h : ∀ st ∈ stacks, ∀ j ∈ st.sources.elems, j ≠ i) : Spec.selfOf stacks i = 0 := by
  have : stacks.filter (fun st => st.sources.elems.getLast? == some i) = [] := by
    rw [List.filter_eq_nil_iff]
    intro st hst hl
    have hl' : st.sources.elems.getLast? = some i := by simpa using hl
    exact h st hst i (List.mem_of_getLast? hl') rfl
  simp [Spec.selfOf, this]

theorem selfOf_append_single (stacks : List Stack) (n : Stack) (i : Nat) :
    Spec.selfOf (stacks ++ [n]) i =
      Spec.selfOf stacks i + (if n.sources.elems.getLast? = some i then n.value else 0) := by
  simp only [Spec.selfOf, List.filter_append, List.map_append, List.sum_append]
  congr 1
  by_cases h : n.sources.elems.getLast? = some i
  · simp [h]
  · simp [h]

theorem WF_modify_self {o : Opts} {st : St} (h : WF o st) (i : Nat) (v : Int) :
    WF o { st with sources := ⟨st.sources.nonnil,
      st.sources.elems.modify i (fun s => { s with self := s.self + v })⟩ } := by
  refine ⟨by simp [List.length_modify, h.len], h.nn, ?_, ?_, h.inj⟩
  · intro k j hk; simpa [List.length_modify] using h.rng k j hk
  · intro k j hk
    obtain ⟨s, hs, hd⟩ := h.desc k j hk
    simp only [List.getElem?_modify, hs, Option.map_eq_map, Option.map_some]
    by_cases e : i = j
    · exact ⟨{ s with self := s.self + v }, by rw [if_pos e], hd⟩
    · exact ⟨s, by rw [if_neg e], hd⟩

theorem slice_eq_lit {α} (s : Slice α) (l : List α) (hn : s.nonnil = true) (he : s.elems = l) :
    s = Slice.lit l := by
  cases s; simp_all [Slice.lit]

theorem sampleStep_spec (o : Opts) (acc : St × Slice Stack) (done : List (Int × List Frame))
    (x : Int × List Frame) (h : Inv o acc done) :
    ∃ acc', sampleStep o acc x = .ok acc' ∧ Inv o acc' (done ++ [x]) := by
  obtain ⟨w1, e1, el, nn, kn⟩ := pushFrames_spec o x.2 acc.1 (Slice.lit [0]) h.wf
  generalize hr : pushFrames o acc.1 (Slice.lit [0]) x.2 = r at w1 e1 el nn kn
  have nn' : r.2.nonnil = true := nn rfl
  have el' : r.2.elems = 0 :: x.2.map (idxIn r.1.srcs) := by simpa [Slice.lit] using el
  have hr2 : r.2 = Slice.lit (0 :: x.2.map (idxIn r.1.srcs)) := slice_eq_lit _ _ nn' el'
  -- the leaf
  have hne : r.2.elems ≠ [] := by rw [el']; simp
  obtain ⟨leaf, hleaf⟩ : ∃ leaf, r.2.elems.getLast? = some leaf := by
    cases hg : r.2.elems.getLast? with
    | none => exact absurd (List.getLast?_eq_none_iff.1 hg) hne
    | some l => exact ⟨l, rfl⟩
  have hleafIn : leaf ∈ (0 :: x.2.map (idxIn r.1.srcs)) := by
    rw [← el']; exact List.mem_of_getLast? hleaf
  have hleafLt : leaf < r.1.sources.elems.length := inRange w1 x.2 kn leaf hleafIn
  have hget : r.2.get (r.2.len - 1) = .ok leaf := by
    simp only [Slice.get, Slice.len, ← List.getLast?_eq_getElem?, hleaf]
  -- run the step
  refine ⟨({ r.1 with sources := ⟨r.1.sources.nonnil,
      r.1.sources.elems.modify leaf (fun s => { s with self := s.self + x.1 })⟩ },
      acc.2.push { value := x.1, sources := r.2 }), ?_, ?_⟩
  · simp only [sampleStep, hr, hget, Slice.upd, if_pos hleafLt, bind, Outcome.bind, pure]
  -- the invariant
  have oldRange : ∀ st ∈ acc.2.elems, ∀ j ∈ st.sources.elems, j < acc.1.sources.elems.length := by
    intro st hst j hj
    rw [h.stacks] at hst
    obtain ⟨y, hy, rfl⟩ := List.mem_map.1 hst
    exact inRange h.wf y.2 (h.known y hy) j hj
  obtain ⟨extra, hex, hfresh⟩ := e1.app
  refine ⟨WF_modify_self w1 leaf x.1, rfl, ?_, ?_, ?_, ?_⟩
  · -- stacks
    simp only [Slice.push, List.map_append, List.map_cons, List.map_nil, h.stacks]
    congr 1
    · apply List.map_congr_left
      intro y hy
      simp only [mkStack]
      congr 3
      apply List.map_congr_left
      intro f hf
      exact idxIn_mono e1 (h.known y hy f hf)
    · simp [mkStack, hr2]
  · -- known
    intro y hy f hf
    rcases List.mem_append.1 hy with hy | hy
    · exact isSome_mono e1 (h.known y hy f hf)
    · simp only [List.mem_singleton] at hy; subst hy; exact kn f hf
  · -- self
    intro i s2 hs2
    simp only [List.getElem?_modify, Option.map_eq_map, Option.map_eq_some_iff] at hs2
    obtain ⟨s1, hs1, rfl⟩ := hs2
    have claim : s1.self = Spec.selfOf acc.2.elems i ∧ s1.places = Slice.lit [] := by
      by_cases hi : i < acc.1.sources.elems.length
      · rw [hex, List.getElem?_append_left hi] at hs1
        exact h.self i s1 hs1
      · rw [hex, List.getElem?_append_right (by omega)] at hs1
        have hm : s1 ∈ extra := List.mem_of_getElem? hs1
        have hz := selfOf_eq_zero acc.2.elems i (by
          intro st hst j hj
          have := oldRange st hst j hj
          omega)
        rw [hz]; exact hfresh s1 hm
    simp only [Slice.push, selfOf_append_single, hleaf, Option.some.injEq]
    by_cases e : leaf = i
    · simp [e, claim.1, claim.2]
    · simp [e, claim.1, claim.2]
  · -- root
    obtain ⟨s, hs, hn⟩ := h.root
    have : r.1.sources.elems[0]? = some s := by
      rw [hex, List.getElem?_append_left h.wf.pos]; exact hs
    simp only [List.getElem?_modify, this, Option.map_eq_map, Option.map_some]
    by_cases e : leaf = 0
    · exact ⟨{ s with self := s.self + x.1 }, by rw [if_pos e], hn⟩
    · exact ⟨s, by rw [if_neg e], hn⟩

theorem foldO_sampleStep (o : Opts) (rest : List (Int × List Frame)) :
    ∀ (acc : St × Slice Stack) (done : List (Int × List Frame)), Inv o acc done →
    ∃ acc', foldO (sampleStep o) acc rest = .ok acc' ∧ Inv o acc' (done ++ rest) := by
  induction rest with
  | nil => intro acc done h; exact ⟨acc, rfl, by simpa using h⟩
  | cons x r ih =>
    intro acc done h
    obtain ⟨acc1, h1, i1⟩ := sampleStep_spec o acc done x h
    obtain ⟨acc2, h2, i2⟩ := ih acc1 (done ++ [x]) i1
    exact ⟨acc2, by simp [foldO, h1, h2, bind, Outcome.bind], by simpa using i2⟩

theorem Inv_init (o : Opts) : Inv o (St.init, Slice.lit []) [] := by
  refine ⟨⟨rfl, rfl, ?_, ?_, ?_⟩, rfl, rfl, by simp, ?_, ⟨rootSource, rfl, rfl, rfl⟩⟩
  · intro k i h; simp [St.init] at h
  · intro k i h; simp [St.init] at h
  · intro k k' i h; simp [St.init] at h
  · intro i s hs
    cases i with
    | zero =>
      simp [St.init, Slice.lit] at hs
      subst hs
      simp [rootSource, Spec.selfOf, Slice.lit]
    | succ n => simp [St.init, Slice.lit] at hs

theorem makeInitialStacks_spec (o : Opts) (rs : List (Int × List Frame)) :
    ∃ acc, makeInitialStacks o rs = .ok acc ∧ Inv o acc rs := by
  obtain ⟨acc, h, i⟩ := foldO_sampleStep o rs _ [] (Inv_init o)
  exact ⟨acc, h, by simpa using i⟩

end PV.Stacks
