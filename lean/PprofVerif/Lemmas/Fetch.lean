import PprofVerif.Model.Fetch
/-!
Helper lemmas for property C16 (multi-source fetch).  Core Lean only (no Mathlib needed).
The property theorems themselves are in `Props/C16.lean`.
-/
namespace PV.Fetch
variable {ε α : Type}

/-! ### writes to distinct slots commute -/

theorem complete_comm (outs : Nat → Res ε α) (s : Slots ε α) (i j : Nat) :
    complete outs (complete outs s i) j = complete outs (complete outs s j) i := by
  unfold complete
  by_cases h : i = j
  · subst h; rfl
  · exact List.set_comm _ _ h

theorem runSchedule_perm (outs : Nat → Res ε α) {π σ : List Nat} (h : π.Perm σ) :
    ∀ s : Slots ε α, runSchedule outs π s = runSchedule outs σ s := by
  induction h with
  | nil => intro s; rfl
  | cons x _ ih => intro s; exact ih (complete outs s x)
  | swap x y l => intro s; simp only [runSchedule, List.foldl_cons]; rw [complete_comm]
  | trans _ _ ih1 ih2 => intro s; rw [ih1, ih2]

theorem runSchedule_length (outs : Nat → Res ε α) (π : List Nat) :
    ∀ s : Slots ε α, (runSchedule outs π s).length = s.length := by
  induction π with
  | nil => intro s; rfl
  | cons x π ih => intro s; simp only [runSchedule, List.foldl_cons] at *; rw [ih]; simp [complete]

theorem runSchedule_getElem? (outs : Nat → Res ε α) (π : List Nat) :
    ∀ (s : Slots ε α) (i : Nat), i < s.length →
      (runSchedule outs π s)[i]? = if i ∈ π then some (some (outs i)) else s[i]? := by
  induction π with
  | nil => intro s i _; simp [runSchedule]
  | cons x π ih =>
    intro s i hi
    have hl : i < (complete outs s x).length := by simp [complete]; exact hi
    have := ih (complete outs s x) i hl
    simp only [runSchedule, List.foldl_cons] at *
    rw [this]
    by_cases h1 : i ∈ π
    · simp [h1]
    · simp only [h1, if_false, List.mem_cons, or_false]
      by_cases h2 : i = x
      · subst h2; simp [complete, hi]
      · have h3 : ¬ x = i := fun h => h2 h.symm
        simp [h2, complete, h3]

/-- after a complete schedule every slot holds its goroutine's result, whatever the order -/
theorem runSchedule_complete (outs : Nat → Res ε α) (π : List Nat) (len : Nat) (hc : Complete π len) :
    runSchedule outs π (initSlots len) = (List.range len).map (fun i => some (outs i)) := by
  apply List.ext_getElem?
  intro i
  by_cases hi : i < len
  · rw [runSchedule_getElem? outs π _ i (by simp [initSlots]; exact hi)]
    simp [hc i hi, hi]
  · have h1 : (runSchedule outs π (initSlots len : Slots ε α)).length ≤ i := by
      rw [runSchedule_length]; simp [initSlots]; omega
    rw [List.getElem?_eq_none h1, List.getElem?_eq_none (by simp; omega)]


/-! ### the scan over fully written slots -/

theorem slots_range' (outs : Nat → Res ε α) (off len : Nat) :
    (List.range len).map (fun i => some (outs (off + i)))
      = (List.range' off len).map (fun j => some (outs j)) := by
  rw [List.range'_eq_map_range]; simp [List.map_map, Function.comp_def]

theorem scanFrom_written (outs : Nat → Res ε α) (len : Nat) : ∀ off,
    scanFrom off ((List.range' off len).map (fun j => some (outs j)))
      = ⟨failures outs off len, .ok (successes outs off len)⟩ := by
  induction len with
  | zero => intro off; simp [scanFrom, failures, successes]
  | succ len ih =>
    intro off
    simp only [List.range'_succ, List.map_cons, failures, successes, List.filterMap_cons]
    cases h : outs off with
    | ok p => simp [scanFrom, ih (off + 1), okAt, failAt, h, failures, successes]
    | fail e => simp [scanFrom, ih (off + 1), okAt, failAt, h, failures, successes]

/-- closed form of `concurrentGrab` under ANY complete schedule -/
theorem concurrentGrab_complete (merge : List α → Outcome α) (outs : Nat → Res ε α) (off len : Nat)
    (π : List Nat) (hc : Complete π len) :
    concurrentGrab merge outs off len π
      = ⟨failures outs off len, mergeCollected merge (successes outs off len)⟩ := by
  unfold concurrentGrab
  rw [runSchedule_complete _ π len hc, slots_range', scanFrom_written]

/-! ### index ranges split at chunk boundaries -/

theorem successes_append (outs : Nat → Res ε α) (off a b : Nat) :
    successes outs off (a + b) = successes outs off a ++ successes outs (off + a) b := by
  simp [successes, ← List.filterMap_append, List.range'_append_1]

theorem failures_append (outs : Nat → Res ε α) (off a b : Nat) :
    failures outs off (a + b) = failures outs off a ++ failures outs (off + a) b := by
  simp [failures, ← List.filterMap_append, List.range'_append_1]

theorem mem_successes {outs : Nat → Res ε α} {off len i : Nat} {p : α}
    (h : (i, p) ∈ successes outs off len) : off ≤ i ∧ i < off + len ∧ outs i = .ok p := by
  simp only [successes, List.mem_filterMap, List.mem_range'_1] at h
  obtain ⟨j, ⟨h1, h2⟩, h3⟩ := h
  unfold okAt at h3
  cases hj : outs j with
  | ok q => rw [hj] at h3; simp at h3; obtain ⟨rfl, rfl⟩ := h3; exact ⟨h1, h2, hj⟩
  | fail e => rw [hj] at h3; simp at h3

theorem chunkSched_complete (π : List Nat) (n start e : Nat) (hc : Complete π n) (he : e ≤ n) :
    Complete (chunkSched π start e) (e - start) := by
  intro j hj
  simp only [chunkSched, List.mem_map, List.mem_filter, Bool.and_eq_true, decide_eq_true_eq]
  exact ⟨start + j, ⟨hc _ (by omega), by omega, by omega⟩, by omega⟩

/-! ### sums on the abstraction -/

theorem foldl_assoc {β : Type} (add : β → β → β) (h : ∀ a b c, add (add a b) c = add a (add b c))
    (a : β) : ∀ (ys : List β) (y : β), (ys.foldl add (add a y)) = add a (ys.foldl add y) := by
  intro ys
  induction ys with
  | nil => intro y; rfl
  | cons z zs ih => intro y; simp only [List.foldl_cons]; rw [h, ih]

theorem foldl_append_assoc {β : Type} (add : β → β → β) (h : ∀ a b c, add (add a b) c = add a (add b c))
    (x : β) (xs : List β) (y : β) (ys : List β) :
    (xs ++ y :: ys).foldl add x = add (xs.foldl add x) (ys.foldl add y) := by
  rw [List.foldl_append, List.foldl_cons, foldl_assoc add h]


theorem absSum_eq_none {β : Type} (add : β → β → β) (l : List β) : absSum add l = none ↔ l = [] := by
  cases l <;> simp [absSum]

theorem absSum_append {β : Type} (add : β → β → β) (h : ∀ a b c, add (add a b) c = add a (add b c))
    (xs ys : List β) :
    absSum add (xs ++ ys) = match absSum add xs, absSum add ys with
      | none, b => b
      | some a, none => some a
      | some a, some b => some (add a b) := by
  cases xs with
  | nil => simp [absSum]
  | cons x xs =>
    cases ys with
    | nil => simp [absSum]
    | cons y ys => simp [absSum, foldl_append_assoc add h]

theorem mergeCollected_spec {β : Type} {merge : List α → Outcome α} {Good : α → Prop} {abs : α → β}
    {add : β → β → β} (hm : MergeSpec merge Good abs add)
    (S : List (Nat × α)) (hg : ∀ x, x ∈ S → Good x.2) :
    ∃ g, mergeCollected merge S = .ok g ∧ g.idx = S.map (·.1) ∧ g.count = S.length ∧
      (∀ p, g.p = some p → Good p) ∧ g.p.map abs = absSum add (S.map (fun x => abs x.2)) := by
  cases S with
  | nil => exact ⟨⟨none, 0, []⟩, rfl, rfl, rfl, by simp, by simp [absSum]⟩
  | cons o os =>
    obtain ⟨r, h1, h2, h3⟩ := hm.merge_ok o.2 (os.map (·.2)) (by
      intro y hy
      simp only [List.mem_cons, List.mem_map] at hy
      rcases hy with rfl | ⟨x, hx, rfl⟩
      · exact hg o (by simp)
      · exact hg x (by simp [hx]))
    refine ⟨⟨some r, (o :: os).length, (o :: os).map (·.1)⟩, ?_, rfl, rfl, ?_, ?_⟩
    · simp only [mergeCollected, List.map_cons, h1]
    · intro p hp; simp at hp; subst hp; exact h2
    · simp [absSum, h3, List.map_map, Function.comp_def]

theorem chunkLoop_spec {β : Type} {merge : List α → Outcome α} {Good : α → Prop} {abs : α → β}
    {add : β → β → β} (hm : MergeSpec merge Good abs add) (outs : Nat → Res ε α) (c n : Nat)
    (π : List Nat) (hg : ∀ i p, i < n → outs i = .ok p → Good p) (hc : Complete π n) (hc1 : 1 ≤ c) :
    ∀ (fuel start : Nat) (pr : List (Nat × ε)) (acc : Grab α), n ≤ start + fuel →
      GroupSpec Good abs add outs (min start n) pr acc →
      ∃ acc', chunkLoop merge outs c n π fuel start pr acc = ⟨failures outs 0 n, .ok acc'⟩ ∧
        GroupSpec Good abs add outs n (failures outs 0 n) acc' := by
  intro fuel
  induction fuel with
  | zero =>
    intro start pr acc hf hs
    have hn : ¬ start < n := by omega
    have hmin : min start n = n := by omega
    rw [hmin] at hs
    refine ⟨acc, ?_, ?_⟩
    · simp [chunkLoop, hn, hs.printed]
    · rw [← hs.printed]; exact hs
  | succ fuel ih =>
    intro start pr acc hf hs
    by_cases hn : start < n
    · have hmin : min start n = start := by omega
      rw [hmin] at hs
      -- the chunk [start, e)
      generalize he : (if start + c > n then n else start + c) = e
      have he1 : start < e := by rw [← he]; split <;> omega
      have he2 : e ≤ n := by rw [← he]; split <;> omega
      have he3 : min (start + c) n = e := by rw [← he]; split <;> omega
      have hsplit : ∀ (o : Nat → Res ε α), successes o 0 e = successes o 0 start ++ successes o start (e - start) := by
        intro o
        have := successes_append o 0 start (e - start)
        rw [show start + (e - start) = e by omega, Nat.zero_add] at this
        exact this
      have hsplitf : failures outs 0 e = failures outs 0 start ++ failures outs start (e - start) := by
        have := failures_append outs 0 start (e - start)
        rw [show start + (e - start) = e by omega, Nat.zero_add] at this
        exact this
      have hcg := concurrentGrab_complete merge outs start (e - start) (chunkSched π start e)
        (chunkSched_complete π n start e hc he2)
      obtain ⟨ch, hch, hidx, hcnt, hgood, habs⟩ := mergeCollected_spec hm (successes outs start (e - start)) (by
        intro x hx
        obtain ⟨h1, h2, h3⟩ := mem_successes (p := x.2) (i := x.1) hx
        exact hg x.1 x.2 (by omega) h3)
      have hstep : ∀ acc2 : Grab α, GroupSpec Good abs add outs e (pr ++ failures outs start (e - start)) acc2 →
          ∃ acc', chunkLoop merge outs c n π fuel (start + c) (pr ++ failures outs start (e - start)) acc2
              = ⟨failures outs 0 n, .ok acc'⟩ ∧
            GroupSpec Good abs add outs n (failures outs 0 n) acc' := by
        intro acc2 h2
        apply ih (start + c) _ acc2 (by omega)
        rw [he3]; exact h2
      have hpr : pr ++ failures outs start (e - start) = failures outs 0 e := by
        rw [hsplitf, hs.printed]
      unfold chunkLoop
      simp only [hn, if_true, he, hcg, hch]
      -- case analysis as in the Go switch
      cases hq : ch.p with
      | none =>
        have hS2 : successes outs start (e - start) = [] := by
          have : absSum add ((successes outs start (e - start)).map (fun x => abs x.2)) = none := by
            rw [← habs, hq]; rfl
          simpa using (absSum_eq_none add _).1 this
        simp only []
        apply hstep acc
        refine ⟨hpr, ?_, ?_, hs.good, ?_⟩
        · rw [hsplit, hS2, List.append_nil]; exact hs.idx
        · rw [hsplit, hS2, List.append_nil]; exact hs.count
        · rw [hsplit, hS2, List.append_nil]; exact hs.abs_eq
      | some q =>
        cases hp : acc.p with
        | none =>
          have hS1 : successes outs 0 start = [] := by
            have : absSum add ((successes outs 0 start).map (fun x => abs x.2)) = none := by
              rw [← hs.abs_eq, hp]; rfl
            simpa using (absSum_eq_none add _).1 this
          simp only []
          apply hstep ⟨some q, ch.count, ch.idx⟩
          refine ⟨hpr, ?_, ?_, ?_, ?_⟩
          · rw [hsplit, hS1, List.nil_append]; exact hidx
          · rw [hsplit, hS1, List.nil_append]; exact hcnt
          · intro p hp'; exact hgood p (by rw [hq]; exact hp')
          · rw [hsplit, hS1, List.nil_append, ← habs, hq]
        | some p =>
          obtain ⟨r, hr1, hr2, hr3⟩ := hm.merge_ok p [q] (by
            intro y hy
            simp only [List.mem_cons, List.mem_nil_iff, or_false] at hy
            rcases hy with rfl | rfl
            · exact hs.good _ hp
            · exact hgood _ hq)
          simp only [hr1]
          apply hstep ⟨some r, acc.count + ch.count, acc.idx ++ ch.idx⟩
          refine ⟨hpr, ?_, ?_, ?_, ?_⟩
          · rw [hsplit, List.map_append, hs.idx, hidx]
          · rw [hsplit, List.length_append, hs.count, hcnt]
          · intro p' hp'; simp at hp'; subst hp'; exact hr2
          · rw [hsplit, List.map_append, absSum_append add hm.assoc, ← hs.abs_eq, ← habs, hp, hq]
            simp [hr3]
    · have hmin : min start n = n := by omega
      rw [hmin] at hs
      refine ⟨acc, ?_, ?_⟩
      · simp [chunkLoop, hn, hs.printed]
      · rw [← hs.printed]; exact hs


/-! ### the failure list names every failing index exactly once, in index order -/

theorem filterMap_failAt_fst (outs : Nat → Res ε α) (l : List Nat) :
    (l.filterMap (failAt outs)).map (·.1) = l.filter (fun i => (outs i).isFail) := by
  induction l with
  | nil => rfl
  | cons x l ih =>
    cases h : outs x with
    | ok p => simp [failAt, h, Res.isFail, ih]
    | fail e => simp [failAt, h, Res.isFail, ih]

theorem filterMap_okAt_fst (outs : Nat → Res ε α) (l : List Nat) :
    (l.filterMap (okAt outs)).map (·.1) = l.filter (fun i => (outs i).isOk) := by
  induction l with
  | nil => rfl
  | cons x l ih =>
    cases h : outs x with
    | ok p => simp [okAt, h, Res.isOk, ih]
    | fail e => simp [okAt, h, Res.isOk, ih]

theorem failures_fst (outs : Nat → Res ε α) (off len : Nat) :
    (failures outs off len).map (·.1) = (List.range' off len).filter (fun i => (outs i).isFail) :=
  filterMap_failAt_fst outs _

theorem successes_fst (outs : Nat → Res ε α) (off len : Nat) :
    (successes outs off len).map (·.1) = (List.range' off len).filter (fun i => (outs i).isOk) :=
  filterMap_okAt_fst outs _

theorem mem_failures {outs : Nat → Res ε α} {off len i : Nat} {e : ε}
    (h : (i, e) ∈ failures outs off len) : off ≤ i ∧ i < off + len ∧ outs i = .fail e := by
  simp only [failures, List.mem_filterMap, List.mem_range'_1] at h
  obtain ⟨j, ⟨h1, h2⟩, h3⟩ := h
  unfold failAt at h3
  cases hj : outs j with
  | ok q => rw [hj] at h3; simp at h3
  | fail e' => rw [hj] at h3; simp at h3; obtain ⟨rfl, rfl⟩ := h3; exact ⟨h1, h2, hj⟩

theorem successes_eq_nil (outs : Nat → Res ε α) (off len : Nat) :
    successes outs off len = [] ↔ ∀ i, off ≤ i → i < off + len → (outs i).isFail = true := by
  simp only [successes, List.filterMap_eq_nil_iff, List.mem_range'_1]
  constructor
  · intro h i h1 h2
    have := h i ⟨h1, h2⟩
    unfold okAt at this
    cases hi : outs i with
    | ok p => rw [hi] at this; simp at this
    | fail e => rfl
  · intro h i ⟨h1, h2⟩
    have := h i h1 h2
    unfold okAt
    cases hi : outs i with
    | ok p => rw [hi] at this; simp [Res.isFail] at this
    | fail e => rfl

/-! ### the whole chunked loop does not depend on the completion order (no assumption on merge, any c) -/

theorem chunkLoop_sched_indep (merge : List α → Outcome α) (outs : Nat → Res ε α) (c n : Nat)
    (π σ : List Nat) (hπ : Complete π n) (hσ : Complete σ n) :
    ∀ (fuel start : Nat) (pr : List (Nat × ε)) (acc : Grab α),
      chunkLoop merge outs c n π fuel start pr acc = chunkLoop merge outs c n σ fuel start pr acc := by
  intro fuel
  induction fuel with
  | zero => intro start pr acc; simp [chunkLoop]
  | succ fuel ih =>
    intro start pr acc
    unfold chunkLoop
    by_cases hn : start < n
    · generalize he : (if start + c > n then n else start + c) = e
      have he2 : e ≤ n := by rw [← he]; split <;> omega
      simp only [hn, if_true]
      rw [concurrentGrab_complete merge outs start (e - start) _ (chunkSched_complete π n start e hπ he2),
          concurrentGrab_complete merge outs start (e - start) _ (chunkSched_complete σ n start e hσ he2)]
      simp only [ih]
    · simp [hn]

/-! ### the driver's instance satisfies `MergeSpec` -/

theorem flatten_eq_foldl (xs : List (List Nat)) : ∀ x : List Nat, (x :: xs).flatten = xs.foldl (· ++ ·) x := by
  induction xs with
  | nil => intro x; simp
  | cons y ys ih => intro x; rw [List.foldl_cons, ← ih (x ++ y)]; simp

theorem catMerge_spec : MergeSpec catMerge (fun _ => True) (fun x => x) (· ++ ·) where
  assoc := fun a b c => List.append_assoc a b c
  merge_ok := by
    intro x xs _
    exact ⟨(x :: xs).flatten, rfl, trivial, by rw [List.map_id']; exact flatten_eq_foldl xs x⟩


/-! ### the regenerated chunking facts -/

theorem chunkFactsOk_spec (size step span : Option Nat) (h : chunkFactsOk size step span = true) :
    (∀ c, size = some c → 1 ≤ c) ∧
    (∀ a b, step = some a → span = some b → a = b ∧ 1 ≤ a ∧ ∀ c, size = some c → b ≤ c) := by
  unfold chunkFactsOk at h
  rw [Bool.and_eq_true] at h
  obtain ⟨h1, h2⟩ := h
  constructor
  · intro c hc; subst hc; simpa using h1
  · intro a b ha hb
    subst ha; subst hb
    simp only [Bool.and_eq_true, decide_eq_true_eq] at h2
    obtain ⟨⟨h3, h4⟩, h5⟩ := h2
    refine ⟨h3, h4, ?_⟩
    intro c hc; subst hc; simpa using h5


/-! ### the converted sum does not depend on the order of the sources -/

theorem minFactor_perm {l l' : List (Nat × Nat)} (h : l.Perm l') : minFactor l = minFactor l' := by
  induction h with
  | nil => rfl
  | cons x _ ih => simp only [minFactor, ih]
  | swap x y l =>
    simp only [minFactor]
    cases minFactor l with
    | none => simp [Nat.min_comm]
    | some m => simp only [Option.some.injEq]; omega
  | trans _ _ ih1 ih2 => rw [ih1, ih2]

theorem convertedSum_perm (m : Nat) {l l' : List (Nat × Nat)} (h : l.Perm l') :
    convertedSum m l = convertedSum m l' := by
  induction h with
  | nil => rfl
  | cons x _ ih => simp only [convertedSum, ih]
  | swap x y l => simp only [convertedSum]; omega
  | trans _ _ ih1 ih2 => rw [ih1, ih2]

end PV.Fetch
