import PprofVerif.Lemmas.CodecSchemaInterp
import PprofVerif.Spec.CodecSchemaExpected
import PprofVerif.Model.IdTables
/-!
The DECODER side of the regenerated wire schema (`Gen/CodecSchema.lean`) against the model: what
parsing (C02) depends on.  A change that touches only the encoders, the packed threshold or
preEncode breaks nothing in this file (it breaks `Lemmas/CodecSchemaFacts.lean`, which C01 uses).
-/
namespace PV.CodecSchema.Facts
open PV PV.Wire PV.Codec PV.CodecSchema PV.Spec.CodecSchemaExpected

/-- The decoder tables, interpreted generically (`dec[b.field]`, out of range ⇒ skipped), are the
model's `apply` functions — for every wire field, including field numbers outside the tables. -/
theorem schema_decoders_are_model :
    (∀ (m : ProfileX) (f : Field), applyBy ProfileX.dict m f ProfileX.decTable = ProfileX.apply m f) ∧
    (∀ (m : ValueTypeX) (f : Field), applyBy ValueTypeX.dict m f ValueTypeX.decTable = ValueTypeX.apply m f) ∧
    (∀ (m : SampleX) (f : Field), applyBy SampleX.dict m f SampleX.decTable = SampleX.apply m f) ∧
    (∀ (m : LabelX) (f : Field), applyBy LabelX.dict m f LabelX.decTable = LabelX.apply m f) ∧
    (∀ (m : MappingX) (f : Field), applyBy MappingX.dict m f MappingX.decTable = MappingX.apply m f) ∧
    (∀ (m : LocationX) (f : Field), applyBy LocationX.dict m f LocationX.decTable = LocationX.apply m f) ∧
    (∀ (m : LineX) (f : Field), applyBy LineX.dict m f LineX.decTable = LineX.apply m f) ∧
    (∀ (m : FunctionX) (f : Field), applyBy FunctionX.dict m f FunctionX.decTable = FunctionX.apply m f) :=
  ⟨ProfileX.apply_eq, ValueTypeX.apply_eq, SampleX.apply_eq, LabelX.apply_eq, MappingX.apply_eq,
   LocationX.apply_eq, LineX.apply_eq, FunctionX.apply_eq⟩

/-- The decoder tables regenerated from profile/encode.go are the decoder tables of the model: same
message types in the same order, same closure (decode function, receiver type, field, nested
message type, attachment, extra checks) at every table index. -/
theorem decoder_schema_matches :
    Gen.CodecSchema.all.map decoderPart = expectedSchema.map decoderPart := by
  first
  | decide
  | fail "OBLIGATION decoder_schema_matches no longer holds: the []decoder tables of profile/encode.go are not the decoder tables of the model (diff lean/PprofVerif/Gen/CodecSchema.lean against Model/CodecSchema.lean)"

/-- Every regenerated decoder table lists its entries at their own index (the Go code indexes the
table by the field number; the model's tables carry the index explicitly). -/
theorem decoder_indexes_are_positions : Gen.CodecSchema.all.all indexesArePositions = true := by
  first
  | decide
  | fail "OBLIGATION decoder_indexes_are_positions no longer holds"

/-- proto.go `decodeVarint` gives up at the byte index at which the model does. -/
theorem varint_limit_matches (i u : Nat) (b : UInt8) (rest : Bytes) :
    decodeVarintGo i u (b :: rest) =
      if i ≥ Gen.CodecSchema.proto.varintLimit then .err "bad varint" else
      let u' := (u + (b.toNat % 128) * 2 ^ (7 * i)) % two64
      if b.toNat < 128 then .ok (u', rest) else decodeVarintGo (i + 1) u' rest := by
  first
  | rfl
  | fail "OBLIGATION varint_limit_matches no longer holds: the byte limit of proto.go decodeVarint is not the model's (Model/Wire.lean: i ≥ 10)"

/-- proto.go `decodeField` splits the key, accepts exactly the wire types and reads exactly the
fixed widths the model does: for any input whose key varint decodes to `x`. -/
theorem wire_types_match (data rest : Bytes) (x : Nat) (h : decodeVarint data = .ok (x, rest)) :
    (x % (Gen.CodecSchema.proto.typeMask + 1) ∉ Gen.CodecSchema.proto.wireTypes →
      decodeField data = .err "unknown wire type") ∧
    (∀ t n, (t, n) ∈ Gen.CodecSchema.proto.fixedSizes → x % (Gen.CodecSchema.proto.typeMask + 1) = t →
      decodeField data =
        if rest.length < n then .err "not enough data"
        else .ok ({ num := x / 2 ^ Gen.CodecSchema.proto.fieldShift, typ := t, u64 := le (rest.take n), data := [] },
                  rest.drop n)) := by
  first
  | (have hd : decodeField data = (match x % 8 with
         | 0 => do
           let (u, data) ← decodeVarint rest
           pure ({ num := x / 8, typ := x % 8, u64 := u, data := [] }, data)
         | 1 =>
           if rest.length < 8 then .err "not enough data"
           else pure ({ num := x / 8, typ := x % 8, u64 := le (rest.take 8), data := [] }, rest.drop 8)
         | 2 => do
           let (n, data) ← decodeVarint rest
           if n > data.length then .err "too much data"
           else pure ({ num := x / 8, typ := x % 8, u64 := 0, data := data.take n }, data.drop n)
         | 5 =>
           if rest.length < 4 then .err "not enough data"
           else pure ({ num := x / 8, typ := x % 8, u64 := le (rest.take 4), data := [] }, rest.drop 4)
         | _ => .err "unknown wire type" : Outcome (Field × Bytes)) := by
       unfold decodeField
       rw [h]
       rfl
     rw [hd]
     constructor
     · intro hn
       simp [Gen.CodecSchema.proto] at hn
       split <;> first | rfl | omega
     · intro t n hm ht
       simp [Gen.CodecSchema.proto] at hm ht
       rcases hm with ⟨rfl, rfl⟩ | ⟨rfl, rfl⟩
       · simp [ht, Gen.CodecSchema.proto]
       · simp [ht, Gen.CodecSchema.proto])
  | fail "OBLIGATION wire_types_match no longer holds: proto.go decodeField does not split the key / accept the wire types / read the fixed widths the model does (Model/Wire.lean: x>>3, x&7, types 0 1 2 5, 8 and 4 bytes)"

/-- the hypothesis of `wire_types_match` is satisfiable: a fixed64 field (key 9 = field 1, type 1) -/
example : decodeVarint [9, 1, 2, 3, 4, 5, 6, 7, 8] = .ok (9, [1, 2, 3, 4, 5, 6, 7, 8]) := by decide

/-- `switch b.typ` of proto.go decodeField ends in a `default:` branch that returns an error (the
model's `| _ => .err "unknown wire type"`). -/
theorem unknown_wire_type_is_error : Gen.CodecSchema.proto.defaultRejects = true := by
  first
  | decide
  | fail "OBLIGATION unknown_wire_type_is_error no longer holds: the default branch of `switch b.typ` in proto.go decodeField does not return an error"

/-- postDecode's dense id tables, WHEN the translator recognises the id-table code (inline slices or
one generic helper type): at most one per entity table (Mapping, Function, Location), each of the length the model (`IdTables.build`) uses, and
no index expression on them outside `if id < uint64(len(table))`.  (`denseTables = none`: the code has
another shape; then only the dynamic correspondence and C02's `postDecode_id_tables_total` speak.) -/
theorem dense_tables_match (ts : List Gen.CodecSchema.DenseTable)
    (h : Gen.CodecSchema.denseTables = some ts) :
    ∃ extra, ts.all (denseTableOK extra) = true ∧
      ∀ ids : List Nat, IdTables.build ids =
        IdTables.buildGo { dense := List.replicate (ids.length + extra) none, sparse := [] } 0 ids := by
  unfold Gen.CodecSchema.denseTables at h
  first
  | (cases h <;> exact ⟨1, by decide, fun _ => rfl⟩)
  | fail "OBLIGATION dense_tables_match no longer holds: the dense id tables of postDecode are not `make([]*T, len(p.T)+1)` for T among Mapping, Function, Location, or an index expression on them is not under `id < uint64(len(table))`"

end PV.CodecSchema.Facts
