import PprofVerif.Model.Stacks
/-! C17 helper lemmas, part J: `trimPath` only ever removes a prefix. -/
namespace PV.Stacks
open PV

theorem firstBase_drop (path : Str) (dirs : List Str) (r : Str) (h : firstBase path dirs = some r) :
    ∃ n, r = path.drop n := by
  induction dirs with
  | nil => simp [firstBase] at h
  | cons d t ih =>
    simp only [firstBase] at h
    cases hi : indexOf ([47] ++ pathBase d ++ [47]) path 0 with
    | none => rw [hi] at h; exact ih h
    | some k => rw [hi] at h; exact ⟨_, (Option.some.inj h).symm⟩

theorem firstPrefix_drop (path : Str) (ts : List Str) (r : Str) (h : firstPrefix path ts = some r) :
    ∃ n, r = path.drop n := by
  induction ts with
  | nil => simp [firstPrefix] at h
  | cons t rest ih =>
    simp only [firstPrefix] at h
    by_cases hp : (withSlash t).isPrefixOf path = true
    · rw [if_pos hp] at h; exact ⟨_, (Option.some.inj h).symm⟩
    · rw [if_neg hp] at h; exact ih h

theorem trimPath_drop (o : Opts) (path : Str) : ∃ n, trimPath o path = path.drop n := by
  unfold trimPath
  cases h1 : (if o.trimPath = [] then firstBase path (splitList o.sourcePath) else none) with
  | some r =>
    by_cases ht : o.trimPath = []
    · rw [if_pos ht] at h1; exact firstBase_drop path _ r h1
    · rw [if_neg ht] at h1; cases h1
  | none =>
    simp only
    cases h2 : firstPrefix path (splitList o.trimPath ++ [cwdDot, cwd]) with
    | some r => exact firstPrefix_drop path _ r h2
    | none => exact ⟨0, rfl⟩

end PV.Stacks
