import PprofVerif.Lemmas.DotEscape
import PprofVerif.Model.DotDoc
/-! C18 helper lemmas: the lexer, token by token.  `Lexes s ts` = some amount of fuel lexes `s`
    into `ts`; it implies `lex s = some ts` (fuel above the input length is irrelevant). -/
namespace PV.Dot

def Lexes (s : Bytes) (ts : List Tok) : Prop := ∃ f, lexF f s = some ts

theorem scanA_length : ∀ (s : Bytes) (esc : Bool) (b r : Bytes), scanA esc s = some (b, r) → r.length < s.length := by
  intro s
  induction s with
  | nil => intro esc b r h; cases esc <;> simp [scanA] at h
  | cons x t ih =>
    intro esc b r h
    have key : ∀ (e : Bool) (y : UInt8), (scanA e t).map (fun p => (y :: p.1, p.2)) = some (b, r) →
        r.length < (x :: t).length := by
      intro e y hm
      cases hs : scanA e t with
      | none => simp [hs] at hm
      | some p =>
        simp [hs] at hm
        have := ih e p.1 p.2 (by rw [hs])
        rw [← hm.2]; simp; omega
    cases esc
    · simp only [scanA] at h
      split at h
      · simp at h; rw [← h.2]; simp
      · split at h
        · exact key true _ h
        · exact key false _ h
    · simp only [scanA] at h
      exact key false _ h

theorem dropWhile_length_le (p : UInt8 → Bool) (s : Bytes) : (s.dropWhile p).length ≤ s.length := by
  induction s with
  | nil => simp
  | cons x t ih =>
    simp only [List.dropWhile]
    split
    · simp; omega
    · simp

theorem bcls_idb {b : UInt8} (h : bcls b = .idb) : isIdByte b = true := by
  unfold bcls at h
  repeat' (first | (split at h) | (simp at h; done))
  assumption

/-- every step that continues consumes at least one byte -/
theorem lexStep_length (s : Bytes) :
    (∀ r, lexStep s = .skip r → r.length < s.length) ∧ (∀ t r, lexStep s = .tok t r → r.length < s.length) := by
  cases s with
  | nil => simp [lexStep]
  | cons b r =>
    simp only [lexStep]
    cases hc : bcls b with
    | space => simp
    | bad => simp
    | punct t => simp
    | quote =>
      cases hsq : scanQ r with
      | none => simp
      | some p =>
        have hl := scanA_length r false p.1 p.2 (by unfold scanQ at hsq; rw [hsq])
        simp; omega
    | dash =>
      cases r with
      | nil => simp
      | cons c r' =>
        simp only
        split
        · simp; omega
        · simp
    | idb =>
      have hid := bcls_idb hc
      simp only
      split
      · have := dropWhile_length_le isIdByte r
        simp [List.dropWhile, hid]; omega
      · simp

theorem lexStep_eof (s : Bytes) (h : lexStep s = .eof) : s = [] := by
  cases s with
  | nil => rfl
  | cons b r =>
    exfalso
    simp only [lexStep] at h
    cases hc : bcls b with
    | space => simp [hc] at h
    | bad => simp [hc] at h
    | punct t => simp [hc] at h
    | quote =>
      simp only [hc] at h
      cases hsq : scanQ r with
      | none => simp [hsq] at h
      | some p => simp [hsq] at h
    | dash =>
      simp only [hc] at h
      cases r with
      | nil => simp at h
      | cons c r' =>
        simp only at h
        split at h <;> simp at h
    | idb =>
      simp only [hc] at h
      split at h <;> simp at h

/-- fuel above the input length is irrelevant -/
theorem lexF_fuel : ∀ (n : Nat) (s : Bytes), s.length ≤ n → ∀ f f', s.length < f → s.length < f' → lexF f s = lexF f' s := by
  intro n
  induction n with
  | zero =>
    intro s hs f f' hf hf'
    have : s = [] := by cases s with | nil => rfl | cons _ _ => simp at hs
    subst this
    cases f with
    | zero => simp at hf
    | succ f => cases f' with
      | zero => simp at hf'
      | succ f' => simp [lexF, lexStep]
  | succ n ih =>
    intro s hs f f' hf hf'
    cases f with
    | zero => simp at hf
    | succ f =>
      cases f' with
      | zero => simp at hf'
      | succ f' =>
        simp only [lexF]
        have hl := lexStep_length s
        cases hst : lexStep s with
        | eof => rfl
        | fail => rfl
        | skip r =>
          have := hl.1 r hst
          exact ih r (by omega) f f' (by omega) (by omega)
        | tok t r =>
          have := hl.2 t r hst
          simp only
          rw [ih r (by omega) f f' (by omega) (by omega)]

/-- more fuel does not change a successful run -/
theorem lexF_mono : ∀ (f : Nat) (s : Bytes) (ts : List Tok), lexF f s = some ts → ∀ f', f ≤ f' → lexF f' s = some ts := by
  intro f
  induction f with
  | zero => intro s ts h; simp [lexF] at h
  | succ f ih =>
    intro s ts h f' hf'
    cases f' with
    | zero => omega
    | succ f' =>
      simp only [lexF] at h ⊢
      cases hst : lexStep s with
      | eof => simpa [hst] using h
      | fail => simp [hst] at h
      | skip r =>
        simp only [hst] at h ⊢
        exact ih r ts h f' (by omega)
      | tok t r =>
        simp only [hst] at h ⊢
        cases hr : lexF f r with
        | none => simp [hr] at h
        | some ts' =>
          rw [ih r ts' hr f' (by omega)]
          simpa [hr] using h

theorem Lexes.toLex {s : Bytes} {ts : List Tok} (h : Lexes s ts) : lex s = some ts := by
  obtain ⟨f, hf⟩ := h
  have hm := lexF_mono f s ts hf (f + s.length + 1) (by omega)
  unfold lex
  rw [← hm]
  exact lexF_fuel s.length s (Nat.le_refl _) _ _ (by omega) (by omega)

/-! ### introduction rules -/

theorem Lexes.nil : Lexes [] [] := ⟨1, by simp [lexF, lexStep]⟩

theorem Lexes.skip {s r : Bytes} {ts : List Tok} (hs : lexStep s = .skip r) (h : Lexes r ts) : Lexes s ts := by
  obtain ⟨f, hf⟩ := h
  exact ⟨f + 1, by simp [lexF, hs, hf]⟩

theorem Lexes.step {s r : Bytes} {t : Tok} {ts : List Tok} (hs : lexStep s = .tok t r) (h : Lexes r ts) :
    Lexes s (t :: ts) := by
  obtain ⟨f, hf⟩ := h
  exact ⟨f + 1, by simp [lexF, hs, hf]⟩

theorem Lexes.sp {r ts} (h : Lexes r ts) : Lexes (0x20 :: r) ts :=
  Lexes.skip (by simp only [lexStep, show bcls 0x20 = .space by decide]) h
theorem Lexes.nl {r ts} (h : Lexes r ts) : Lexes (0x0a :: r) ts :=
  Lexes.skip (by simp only [lexStep, show bcls 0x0a = .space by decide]) h
theorem Lexes.lbrace {r ts} (h : Lexes r ts) : Lexes (0x7b :: r) (.lbrace :: ts) :=
  Lexes.step (by simp only [lexStep, show bcls 0x7b = .punct .lbrace by decide]) h
theorem Lexes.rbrace {r ts} (h : Lexes r ts) : Lexes (0x7d :: r) (.rbrace :: ts) :=
  Lexes.step (by simp only [lexStep, show bcls 0x7d = .punct .rbrace by decide]) h
theorem Lexes.lbrack {r ts} (h : Lexes r ts) : Lexes (0x5b :: r) (.lbrack :: ts) :=
  Lexes.step (by simp only [lexStep, show bcls 0x5b = .punct .lbrack by decide]) h
theorem Lexes.rbrack {r ts} (h : Lexes r ts) : Lexes (0x5d :: r) (.rbrack :: ts) :=
  Lexes.step (by simp only [lexStep, show bcls 0x5d = .punct .rbrack by decide]) h
theorem Lexes.eq {r ts} (h : Lexes r ts) : Lexes (0x3d :: r) (.eq :: ts) :=
  Lexes.step (by simp only [lexStep, show bcls 0x3d = .punct .eq by decide]) h
theorem Lexes.arrow {r ts} (h : Lexes r ts) : Lexes (0x2d :: 0x3e :: r) (.arrow :: ts) :=
  Lexes.step (by simp only [lexStep, show bcls 0x2d = .dash by decide, if_true]) h

theorem Lexes.str {body r : Bytes} {ts : List Tok} (hb : qsafeB body = true) (h : Lexes r ts) :
    Lexes (DQ :: body ++ DQ :: r) (.str body :: ts) := by
  refine Lexes.step ?_ h
  simp only [List.cons_append, lexStep, show bcls DQ = .quote by decide, scanQ_of_qsafeB body hb r]

/-- what a bare identifier must look like -/
structure IdOK (w : Bytes) : Prop where
  ne : w ≠ []
  idb : ∀ b ∈ w, isIdByte b = true
  valid : validId w = true

theorem takeWhile_id (w : Bytes) (d : UInt8) (r : Bytes) (hw : ∀ b ∈ w, isIdByte b = true) (hd : isIdByte d = false) :
    (w ++ d :: r).takeWhile isIdByte = w ∧ (w ++ d :: r).dropWhile isIdByte = d :: r := by
  induction w with
  | nil => simp [List.takeWhile, List.dropWhile, hd]
  | cons x t ih =>
    have hx := hw x (by simp)
    have := ih (fun b hb => hw b (by simp [hb]))
    simp [List.takeWhile, List.dropWhile, hx, this.1, this.2]

theorem bcls_of_isIdByte : ∀ (b : UInt8), isIdByte b = true → bcls b = .idb := by
  have h : ∀ n : Nat, n < 256 → isIdByte (UInt8.ofNat n) = true → bcls (UInt8.ofNat n) = .idb := by decide +kernel
  intro b hb
  have := h b.toNat (UInt8.toNat_lt b) (by simpa using hb)
  simpa using this

/-- a bare identifier followed by a non-identifier byte is one token -/
theorem Lexes.id {w : Bytes} {d : UInt8} {r : Bytes} {ts : List Tok} (hw : IdOK w) (hd : isIdByte d = false)
    (h : Lexes (d :: r) ts) : Lexes (w ++ d :: r) (.id w :: ts) := by
  refine Lexes.step ?_ h
  cases hwc : w with
  | nil => exact absurd hwc hw.ne
  | cons x t =>
    have hx : isIdByte x = true := hw.idb x (by rw [hwc]; simp)
    have htd := takeWhile_id w d r hw.idb hd
    rw [hwc] at htd
    simp only [List.cons_append] at htd
    have hv := hw.valid
    rw [hwc] at hv
    simp only [List.cons_append, lexStep, bcls_of_isIdByte x hx, htd.1, htd.2, hv, if_true]

end PV.Dot
