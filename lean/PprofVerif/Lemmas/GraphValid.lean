import PprofVerif.Lemmas.GraphIndex
namespace PV.Graph
open PV.GSpec

theorem optAll_some {α β : Type} (f : α → Option β) (l : List α) (h : ∀ a ∈ l, ∃ b, f a = some b) :
    ∃ bs, optAll f l = some bs := by
  induction l with
  | nil => exact ⟨[], rfl⟩
  | cons a r ih =>
    obtain ⟨b, hb⟩ := h a List.mem_cons_self
    obtain ⟨bs, hbs⟩ := ih (fun x hx => h x (List.mem_cons_of_mem _ hx))
    exact ⟨b :: bs, by simp [optAll, hb, hbs]⟩

theorem optAll_none {α β : Type} (f : α → Option β) (l : List α) (h : optAll f l = none) :
    ∃ a ∈ l, f a = none := by
  induction l with
  | nil => simp [optAll] at h
  | cons a r ih =>
    cases hfa : f a with
    | none => exact ⟨a, List.mem_cons_self, hfa⟩
    | some b =>
      cases hr : optAll f r with
      | none =>
        obtain ⟨x, hx, hxn⟩ := ih hr
        exact ⟨x, List.mem_cons_of_mem _ hx, hxn⟩
      | some bs => simp [optAll, hfa, hr] at h

theorem find_of_any {α : Type} (l : List α) (q : α → Bool) (h : l.any q = true) :
    ∃ a, l.find? q = some a ∧ a ∈ l := by
  rw [List.any_eq_true] at h
  obtain ⟨x, hx, hq⟩ := h
  cases hf : l.find? q with
  | none => rw [List.find?_eq_none] at hf; exact absurd hq (hf x hx)
  | some a => exact ⟨a, rfl, List.mem_of_find?_eq_some hf⟩

/-- on a valid profile (CheckValid + references inside the tables) the abstraction to samples is
defined for every in-range value column: the model never meets a dangling id or a short value list. -/
theorem samplesOf_defined (clean : Str → Str) (p : Profile) (o : GOpts) (vi : Nat) (mean : Bool)
    (hv : p.Valid) (hvi : vi < p.sampleType.length) :
    ∃ ss, samplesOf clean p o vi mean = some ss := by
  unfold Profile.Valid Profile.validB at hv
  simp only [Bool.and_eq_true, List.all_eq_true] at hv
  obtain ⟨⟨⟨⟨⟨_, hs⟩, _⟩, _⟩, _⟩, hl⟩ := hv
  unfold samplesOf
  apply optAll_some
  intro s hsmem
  have hs' := hs s hsmem
  simp only [Bool.and_eq_true, beq_iff_eq, List.all_eq_true, bne_iff_ne, ne_eq] at hs'
  obtain ⟨hlen, hlocs⟩ := hs'
  have hfr : ∃ fs, framesOf clean p o s = some fs := by
    unfold framesOf
    split
    · rename_i heq
      exfalso
      obtain ⟨id, hid, hnone⟩ := optAll_none _ _ heq
      obtain ⟨_, hany⟩ := hlocs id hid
      obtain ⟨l, hfind, hlmem⟩ := find_of_any _ _ hany
      unfold Profile.findLocation at hnone
      rw [hfind] at hnone
      simp only at hnone
      unfold locNodes at hnone
      obtain ⟨ln, hln, hni⟩ := optAll_none _ _ hnone
      have hlines := hl l hlmem
      simp only [Bool.and_eq_true, List.all_eq_true, bne_iff_ne, ne_eq] at hlines
      unfold nodeInfo at hni
      by_cases h0 : ln.functionID = 0
      · simp [h0] at hni
      · simp only [h0, if_false] at hni
        have hmem : ln ∈ l.lines := by
          by_cases he : l.lines.isEmpty = true
          · simp only [he, if_true, List.mem_singleton] at hln
            subst hln; exact absurd rfl h0
          · simpa [he] using hln
        obtain ⟨_, hfany⟩ := hlines.2 ln hmem
        obtain ⟨fn, hff, _⟩ := find_of_any _ _ hfany
        unfold Profile.findFunction at hni
        rw [hff] at hni
        simp at hni
    · exact ⟨_, rfl⟩
  obtain ⟨fs, hfs⟩ := hfr
  have hw : ∃ w, s.values[vi]? = some w := by
    have : vi < s.values.length := by omega
    exact ⟨s.values[vi], by simp [this]⟩
  have hd : ∃ d, (if mean then s.values[0]? else some 0) = some d := by
    cases mean
    · exact ⟨0, rfl⟩
    · have : 0 < s.values.length := by omega
      exact ⟨s.values[0], by simp [this]⟩
  obtain ⟨w, hw⟩ := hw
  obtain ⟨d, hd⟩ := hd
  rw [hfs, hw, hd]
  exact ⟨_, rfl⟩
end PV.Graph
