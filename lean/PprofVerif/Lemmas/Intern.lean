import PprofVerif.Lemmas.CodecTotalPost
/-!
# String interning of `preEncode` (helpers for property C01, second half)

`addString` extends the table (prefix), returns an index `i ≥ 0` with `tab[i] = s`, preserves
`Nodup` and "entry 0 is the empty string"; an (index, string) pair stays valid in every extension
of the table, hence in the FINAL table handed to `postDecode`; under the invariant
`index = 0 ↔ string = ""`.  Plus the generic plumbing used by the entity lemmas: a pointwise
list relation `All2`, `mapM` in the interning state monad, `mapM`/`foldlM` in `Outcome`.
Core Lean only.
-/
namespace PV
namespace Codec

/-! ### the table invariant and resolved indices -/

/-- Invariant of the interning table (`strings map[string]int` + insertion order): no string
twice, entry 0 is the empty string. -/
structure TabInv (t : StrTab) : Prop where
  nodup : t.Nodup
  head : t[0]? = some []

/-- `i` is a valid index of `s` in `tab`. -/
def Res (tab : StrTab) (i : Int) (s : Str) : Prop := 0 ≤ i ∧ tab[i.toNat]? = some s

theorem TabInv.init : TabInv [[]] := ⟨by simp, rfl⟩

theorem getElem?_of_prefix {α} {t t' : List α} (h : t <+: t') {i : Nat} {s : α} (hs : t[i]? = some s) :
    t'[i]? = some s := by
  obtain ⟨r, rfl⟩ := h
  obtain ⟨hi, _⟩ := List.getElem?_eq_some_iff.mp hs
  rw [List.getElem?_append_left hi]; exact hs

/-- a resolved index stays resolved in every extension of the table -/
theorem Res.mono {t t' : StrTab} {i : Int} {s : Str} (h : t <+: t') (hr : Res t i s) : Res t' i s :=
  ⟨hr.1, getElem?_of_prefix h hr.2⟩

theorem Res.lt_length {t : StrTab} {i : Int} {s : Str} (hr : Res t i s) : i < (t.length : Int) := by
  obtain ⟨h0, h⟩ := hr
  obtain ⟨hi, _⟩ := List.getElem?_eq_some_iff.mp h
  omega

theorem Res.zero {t : StrTab} (h : TabInv t) : Res t 0 [] := ⟨by omega, h.head⟩

/-- under the invariant, index 0 is exactly the empty string -/
theorem Res.zero_iff {t : StrTab} {i : Int} {s : Str} (h : TabInv t) (hr : Res t i s) : i = 0 ↔ s = [] := by
  obtain ⟨h0, hi⟩ := hr
  constructor
  · intro hz; subst hz
    have := h.head
    simp only [Int.toNat_zero] at hi
    rw [hi] at this; exact Option.some.inj this
  · intro hs; subst hs
    obtain ⟨hlt, _⟩ := List.getElem?_eq_some_iff.mp hi
    have : i.toNat = 0 := (List.getElem?_inj hlt h.nodup).mp (hi.trans h.head.symm)
    omega

theorem Res.unique {t : StrTab} {i : Int} {s s' : Str} (h : Res t i s) (h' : Res t i s') : s = s' := by
  have := h.2.symm.trans h'.2; exact Option.some.inj this

theorem getString_of_Res {tab : StrTab} {i : Int} {s : Str} (h : Res tab i s) : getString tab i = .ok s := by
  unfold getString
  have : ¬ i < 0 := by have := h.1; omega
  simp only [this, if_false, h.2]

/-! ### `addString` -/

theorem addString_fst_prefix (t : StrTab) (s : Str) : t <+: (addString t s).1 := by
  unfold addString
  split
  · exact List.prefix_refl _
  · exact List.prefix_append _ _

theorem addString_inv (t : StrTab) (s : Str) (h : TabInv t) : TabInv (addString t s).1 := by
  unfold addString
  split
  · exact h
  · rename_i hn
    have hnot : s ∉ t := List.idxOf?_eq_none_iff.mp hn
    refine ⟨?_, getElem?_of_prefix (List.prefix_append _ _) h.head⟩
    rw [List.nodup_append]
    refine ⟨h.nodup, by simp, ?_⟩
    intro a ha b hb
    simp at hb; subst hb
    intro hab; subst hab; exact hnot ha

theorem addString_res (t : StrTab) (s : Str) : Res (addString t s).1 (addString t s).2 s := by
  unfold addString
  split
  · rename_i i hi
    obtain ⟨hlt, hget, _⟩ := List.idxOf?_eq_some_iff.mp hi
    refine ⟨by simp, ?_⟩
    simp only [Int.toNat_natCast]
    exact List.getElem?_eq_some_iff.mpr ⟨hlt, hget⟩
  · refine ⟨by simp, ?_⟩
    simp only [Int.toNat_natCast]
    exact List.getElem?_concat_length

/-- **Interning bundle** for one `addString`. -/
theorem addString_spec (t : StrTab) (s : Str) (h : TabInv t) :
    TabInv (addString t s).1 ∧ t <+: (addString t s).1 ∧ Res (addString t s).1 (addString t s).2 s :=
  ⟨addString_inv t s h, addString_fst_prefix t s, addString_res t s⟩

/-- the index returned for a string is 0 exactly for the empty string -/
theorem addString_zero_iff (t : StrTab) (s : Str) (h : TabInv t) : (addString t s).2 = 0 ↔ s = [] :=
  Res.zero_iff (addString_inv t s h) (addString_res t s)

theorem add_fst (s : Str) (t : StrTab) : (add s t).1 = (addString t s).2 := rfl
theorem add_snd (s : Str) (t : StrTab) : (add s t).2 = (addString t s).1 := rfl

/-! ### pointwise relation between two lists -/

inductive All2 {α β} (R : α → β → Prop) : List α → List β → Prop
  | nil : All2 R [] []
  | cons {a b l m} : R a b → All2 R l m → All2 R (a :: l) (b :: m)

theorem All2.mono {α β} {R S : α → β → Prop} (h : ∀ a b, R a b → S a b) :
    ∀ {l m}, All2 R l m → All2 S l m
  | _, _, .nil => .nil
  | _, _, .cons hab hr => .cons (h _ _ hab) (All2.mono h hr)

theorem All2.append {α β} {R : α → β → Prop} : ∀ {l m l' m'}, All2 R l m → All2 R l' m' → All2 R (l ++ l') (m ++ m')
  | _, _, _, _, .nil, h' => h'
  | _, _, _, _, .cons hab hr, h' => .cons hab (All2.append hr h')

theorem All2.length_eq {α β} {R : α → β → Prop} : ∀ {l m}, All2 R l m → l.length = m.length
  | _, _, .nil => rfl
  | _, _, .cons _ hr => by simp [All2.length_eq hr]

theorem All2.map_left {α β γ} {R : γ → β → Prop} (f : α → γ) :
    ∀ {l m}, All2 (fun a b => R (f a) b) l m → All2 R (l.map f) m
  | _, _, .nil => .nil
  | _, _, .cons hab hr => .cons hab (All2.map_left f hr)

theorem All2.map_right {α β γ} {R : α → γ → Prop} (f : β → γ) :
    ∀ {l m}, All2 (fun a b => R a (f b)) l m → All2 R l (m.map f)
  | _, _, .nil => .nil
  | _, _, .cons hab hr => .cons hab (All2.map_right f hr)

/-- `All2` of lists of lists flattens -/
theorem All2.flatten {α β} {R : α → β → Prop} :
    ∀ {l : List (List α)} {m : List (List β)}, All2 (All2 R) l m → All2 R l.flatten m.flatten
  | _, _, .nil => .nil
  | _, _, .cons hab hr => by
    simp only [List.flatten_cons]
    exact All2.append hab (All2.flatten hr)

/-! ### `mapM` in the interning monad -/

theorem tab_mapM_nil {α β} (f : α → Tab β) (t : StrTab) : (([] : List α).mapM f) t = ([], t) := rfl

theorem tab_mapM_cons {α β} (f : α → Tab β) (a : α) (l : List α) (t : StrTab) :
    ((a :: l).mapM f) t = ((f a t).1 :: (l.mapM f (f a t).2).1, (l.mapM f (f a t).2).2) := by
  rw [List.mapM_cons]; rfl

/-- If every `f a` keeps the invariant, extends the table and establishes `R` (a relation that
is stable under table extension) in its final table, so does `mapM f`, pointwise, in ITS final
table. -/
theorem tab_mapM_spec {α β} (f : α → Tab β) (R : StrTab → α → β → Prop)
    (hmono : ∀ t t' a b, t <+: t' → R t a b → R t' a b)
    (hf : ∀ a t, TabInv t → TabInv (f a t).2 ∧ t <+: (f a t).2 ∧ R (f a t).2 a (f a t).1) :
    ∀ (l : List α) (t : StrTab), TabInv t →
      TabInv (l.mapM f t).2 ∧ t <+: (l.mapM f t).2 ∧ All2 (R (l.mapM f t).2) l (l.mapM f t).1
  | [], t, h => ⟨h, List.prefix_refl _, .nil⟩
  | a :: l, t, h => by
    rw [tab_mapM_cons]
    obtain ⟨h1, h2, h3⟩ := hf a t h
    obtain ⟨i1, i2, i3⟩ := tab_mapM_spec f R hmono hf l (f a t).2 h1
    exact ⟨i1, h2.trans i2, .cons (hmono _ _ _ _ i2 h3) i3⟩

/-! ### `mapM` / `foldlM` in `Outcome` -/

theorem mapM_ok_of_All2 {α β γ} (post : β → Outcome γ) (g : α → γ) :
    ∀ {l : List α} {xs : List β}, All2 (fun a x => post x = .ok (g a)) l xs → xs.mapM post = .ok (l.map g)
  | _, _, .nil => rfl
  | _, _, .cons hab hr => by
    rw [List.mapM_cons, hab, Outcome.bind_ok, mapM_ok_of_All2 post g hr]; rfl

theorem foldlM_ok_of_All2 {α β σ} (step : σ → β → Outcome σ) (pstep : σ → α → σ) :
    ∀ {l : List α} {xs : List β} (acc : σ), All2 (fun a x => ∀ acc, step acc x = .ok (pstep acc a)) l xs →
      xs.foldlM step acc = .ok (l.foldl pstep acc)
  | _, _, acc, .nil => rfl
  | _, _, acc, .cons hab hr => by
    rw [List.foldlM_cons, hab, Outcome.bind_ok, foldlM_ok_of_All2 step pstep _ hr]; rfl

end Codec
end PV
