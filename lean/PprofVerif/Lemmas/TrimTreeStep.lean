import PprofVerif.Lemmas.TrimTreeTbl
import PprofVerif.Lemmas.TrimTreeAnc
/-!
One iteration of TrimTree's loop preserves the invariant "both edge views are the specification
under the set of nodes removed so far" — on every forest whose nodes are path keys.
-/
namespace PV.TrimTree
open PV PV.GSpec PV.Graph
variable {κ : Type} [DecidableEq κ]

/-- the edge table of a forest of path-keyed nodes (what `newTree` builds): every edge goes from a
path to its one-frame extension, and the parent's own in-edge is present too. -/
structure PathForest (E0 : ETable (List κ)) : Prop where
  nodup : KeysNodup E0
  shape : ∀ a b e, ((a, b), e) ∈ E0 → 2 ≤ b.length ∧ a = b.dropLast
  closed : ∀ a b e, ((a, b), e) ∈ E0 → 2 ≤ a.length → (tfind E0 (a.dropLast, a)).isSome = true

/-- the specification of the edge `a → b` when the nodes in `R` have been removed, relative to the
original edge table. -/
def specE (E0 : ETable (List κ)) (R : List κ → Bool) (a b : List κ) : Option EdgeAcc :=
  if R b then none else
  match tfind E0 (b.dropLast, b) with
  | none => none
  | some e => if nearestKept R b = some a then some ⟨e.weight, e.residual || decide (a ≠ b.dropLast)⟩ else none

structure Inv (E0 : ETable (List κ)) (R : List κ → Bool) (st : TState (List κ)) : Prop where
  insNodup : KeysNodup st.ins
  outsNodup : KeysNodup st.outs
  insSpec : ∀ a b, R b = false → tfind st.ins (a, b) = specE E0 R a b
  outsSpec : ∀ a b, R a = false → tfind st.outs (a, b) = specE E0 R a b

theorem specE_some {E0 : ETable (List κ)} {R : List κ → Bool} {a b : List κ} {e : EdgeAcc}
    (h : specE E0 R a b = some e) :
    R b = false ∧ nearestKept R b = some a ∧
    ∃ e0, tfind E0 (b.dropLast, b) = some e0 ∧ e = ⟨e0.weight, e0.residual || decide (a ≠ b.dropLast)⟩ := by
  unfold specE at h
  cases hr : R b with
  | true => simp [hr] at h
  | false =>
    simp only [hr, Bool.false_eq_true, if_false] at h
    cases he : tfind E0 (b.dropLast, b) with
    | none => simp [he] at h
    | some e0 =>
      simp only [he] at h
      by_cases hn : nearestKept R b = some a
      · simp only [hn, if_true] at h
        exact ⟨rfl, hn, e0, rfl, (Option.some.inj h).symm⟩
      · simp [hn] at h

theorem specE_src_removed (E0 : ETable (List κ)) (R : List κ → Bool) (a b : List κ) (h : R a = true) :
    specE E0 R a b = none := by
  cases hs : specE E0 R a b with
  | none => rfl
  | some e =>
    have := (nearestKept_some (specE_some hs).2.1).2
    rw [h] at this; exact absurd this (by simp)

theorem specE_dst_removed (E0 : ETable (List κ)) (R : List κ → Bool) (a b : List κ) (h : R b = true) :
    specE E0 R a b = none := by
  unfold specE; simp [h]

theorem specE_self (E0 : ETable (List κ)) (R : List κ → Bool) (b : List κ) : specE E0 R b b = none := by
  cases hs : specE E0 R b b with
  | none => rfl
  | some e => exact absurd (nearestKept_some (specE_some hs).2.1).1 (not_mem_ancestors_self b)

/-- a node has at most one parent in the specification -/
theorem specE_unique {E0 : ETable (List κ)} {R : List κ → Bool} {a a' b : List κ} {e : EdgeAcc}
    (h : specE E0 R a b = some e) (hne : a' ≠ a) : specE E0 R a' b = none := by
  cases hs : specE E0 R a' b with
  | none => rfl
  | some e' =>
    have h1 := (specE_some h).2.1
    have h2 := (specE_some hs).2.1
    rw [h1] at h2
    exact absurd (Option.some.inj h2).symm hne

/-- closure along the whole chain of ancestors -/
theorem PathForest.anc_edge {E0 : ETable (List κ)} (hF : PathForest E0) :
    ∀ (n : Nat) (b x : List κ), b.length = n → (tfind E0 (b.dropLast, b)).isSome = true →
      x ∈ ancestors b → 2 ≤ x.length → (tfind E0 (x.dropLast, x)).isSome = true := by
  intro n
  induction n using Nat.strong_induction_on with
  | _ n ih =>
    intro b x hn hb hx hx2
    obtain ⟨e, he⟩ := Option.isSome_iff_exists.mp hb
    have hmem := mem_of_tfind he
    have hsh := hF.shape _ _ _ hmem
    rw [ancestors_dropLast hsh.1] at hx
    rcases List.mem_cons.mp hx with rfl | hx'
    · exact hF.closed _ _ _ hmem hx2
    · have hl := mem_ancestors_length hx'
      have h2 : 2 ≤ b.dropLast.length := by
        have : 0 < x.length := List.length_pos_iff.mpr hl.1
        omega
      have hpe := hF.closed _ _ _ hmem h2
      have hlt : b.dropLast.length < n := by
        rw [← hn]; simp; omega
      exact ih _ hlt b.dropLast x rfl hpe hx' hx2

/-- the effect of removing one more node `cur` on the specification, away from `cur` itself -/
theorem specE_step (E0 : ETable (List κ)) (R : List κ → Bool) (cur a b : List κ)
    (ha : a ≠ cur) (hb : b ≠ cur) :
    specE E0 (alsoRemoved R cur) a b =
      match specE E0 R cur b with
      | some e => if nearestKept R cur = some a then some { e with residual := true } else none
      | none => specE E0 R a b := by
  have hRb : alsoRemoved R cur b = R b := by simp [alsoRemoved, hb]
  cases hs : specE E0 R cur b with
  | some e =>
    obtain ⟨hr, hn, e0, he0, rfl⟩ := specE_some hs
    simp only
    unfold specE
    rw [hRb, hr]
    simp only [Bool.false_eq_true, if_false, he0]
    rw [nearestKept_step_through R cur b hn]
    by_cases hc : nearestKept R cur = some a
    · simp only [hc, if_true]
      have h1 := mem_ancestors_length (nearestKept_some hc).1
      have h2 := mem_ancestors_length (nearestKept_some hn).1
      have : a ≠ b.dropLast := by
        intro h
        have := congrArg List.length h
        simp at this; omega
      simp [this]
    · simp [hc]
  | none =>
    simp only
    unfold specE
    rw [hRb]
    cases hr : R b with
    | true => simp
    | false =>
      simp only [Bool.false_eq_true, if_false]
      cases he0 : tfind E0 (b.dropLast, b) with
      | none => rfl
      | some e0 =>
        simp only
        cases hn : nearestKept R b with
        | none => rw [nearestKept_step_none R cur b hn]
        | some x =>
          by_cases hx : x = cur
          · subst hx
            exfalso
            unfold specE at hs
            simp [hr, he0, hn] at hs
          · rw [nearestKept_step_other R cur b x hn hx]

/-- `cur` has no in-edge: away from `cur` nothing changes -/
theorem specE_step_root {E0 : ETable (List κ)} (hF : PathForest E0) (R : List κ → Bool) (cur a b : List κ)
    (hroot : ∀ x, specE E0 R x cur = none) (hcur : R cur = false) (ha : a ≠ cur) (hb : b ≠ cur) :
    specE E0 (alsoRemoved R cur) a b = specE E0 R a b := by
  rw [specE_step E0 R cur a b ha hb]
  cases hs : specE E0 R cur b with
  | none => rfl
  | some e =>
    simp only
    rw [specE_unique hs ha]
    -- nearestKept R cur must be none
    have hnone : nearestKept R cur = none := by
      cases hn : nearestKept R cur with
      | none => rfl
      | some x =>
        exfalso
        obtain ⟨hr, hnb, e0, he0, _⟩ := specE_some hs
        have hcm := (nearestKept_some hnb).1
        have hx := mem_ancestors_length (nearestKept_some hn).1
        have h2 : 2 ≤ cur.length := by
          have : 0 < x.length := List.length_pos_iff.mpr hx.1
          omega
        have hedge := hF.anc_edge b.length b cur rfl (by rw [he0]; rfl) hcm h2
        obtain ⟨ec, hec⟩ := Option.isSome_iff_exists.mp hedge
        have := hroot x
        unfold specE at this
        simp [hcur, hec, hn] at this
    simp [hnone]

/-- `cur`'s parent is `p`: the children of `cur` move to `p` (residual), nothing else changes -/
theorem specE_step_inner (E0 : ETable (List κ)) (R : List κ → Bool) (cur p a b : List κ)
    (hp : nearestKept R cur = some p) (ha : a ≠ cur) (hb : b ≠ cur) :
    specE E0 (alsoRemoved R cur) a b =
      if a = p ∧ (specE E0 R cur b).isSome = true then
        (specE E0 R cur b).map (fun e => { e with residual := true })
      else specE E0 R a b := by
  rw [specE_step E0 R cur a b ha hb]
  cases hs : specE E0 R cur b with
  | none => simp
  | some e =>
    simp only [hp, Option.isSome_some, and_true, Option.map_some]
    by_cases hap : a = p
    · subst hap; simp
    · have : ¬ some p = some a := by rintro h; exact hap (Option.some.inj h).symm
      simp only [this, hap, if_false]
      exact (specE_unique hs ha).symm

/-! ### the three branches of `stepNode` -/

theorem stepNode_kept (K : List κ → Bool) (st : TState (List κ)) (cur : List κ × NodeAcc)
    (h1 : (inEdges st.ins cur.1).length ≤ 1) (hk : K cur.1 = true) :
    stepNode K st cur = .ok { st with nodes := st.nodes ++ [cur] } := by
  unfold stepNode
  have : ¬ (inEdges st.ins cur.1).length > 1 := by omega
  simp [this, hk]

theorem stepNode_root (K : List κ → Bool) (st : TState (List κ)) (cur : List κ × NodeAcc)
    (h0 : inEdges st.ins cur.1 = []) (hk : K cur.1 = false) :
    stepNode K st cur = .ok { st with ins := detachChildren cur.1 st.ins (outEdges st.outs cur.1) } := by
  unfold stepNode
  simp [h0, hk]

theorem stepNode_inner (K : List κ → Bool) (st : TState (List κ)) (cur : List κ × NodeAcc)
    (e : (List κ × List κ) × EdgeAcc) (h1 : inEdges st.ins cur.1 = [e]) (hk : K cur.1 = false) :
    stepNode K st cur = .ok { st with
      ins := (rewire e.1.1 cur.1 (st.ins, tdel st.outs (e.1.1, cur.1))
                (outEdges (tdel st.outs (e.1.1, cur.1)) cur.1)).1,
      outs := (rewire e.1.1 cur.1 (st.ins, tdel st.outs (e.1.1, cur.1))
                (outEdges (tdel st.outs (e.1.1, cur.1)) cur.1)).2 } := by
  unfold stepNode
  simp [h1, hk]

/-- in-edges of an unprocessed node, read off the invariant -/
theorem inEdges_of_inv {E0 : ETable (List κ)} {R : List κ → Bool} {st : TState (List κ)}
    (hI : Inv E0 R st) (cur : List κ) (hcur : R cur = false) :
    (inEdges st.ins cur = [] ∧ ∀ x, specE E0 R x cur = none) ∨
    (∃ e, inEdges st.ins cur = [e] ∧ e.1.2 = cur ∧ nearestKept R cur = some e.1.1 ∧
          specE E0 R e.1.1 cur = some e.2) := by
  have hkey : ∀ e ∈ inEdges st.ins cur, e.1.2 = cur ∧ specE E0 R e.1.1 cur = some e.2 := by
    intro e he
    obtain ⟨hm, hd⟩ := (mem_inEdges _ _ _).mp he
    refine ⟨hd, ?_⟩
    have := tfind_of_mem hI.insNodup (k := e.1) (v := e.2) hm
    rw [← hI.insSpec e.1.1 cur hcur, ← hd]
    exact this
  cases hl : inEdges st.ins cur with
  | nil =>
    left
    refine ⟨rfl, ?_⟩
    intro x
    rw [← hI.insSpec x cur hcur]
    apply tfind_none_of_not_mem
    intro v hv
    have : ((x, cur), v) ∈ inEdges st.ins cur := (mem_inEdges _ _ _).mpr ⟨hv, rfl⟩
    rw [hl] at this; simp at this
  | cons e r =>
    right
    have he := hkey e (by rw [hl]; exact List.mem_cons_self)
    have hn := (specE_some he.2).2.1
    have hall : ∀ e' ∈ inEdges st.ins cur, e'.1 = (e.1.1, cur) := by
      intro e' he'
      have h' := hkey e' he'
      have hn' := (specE_some h'.2).2.1
      rw [hn] at hn'
      have : e'.1.1 = e.1.1 := (Option.some.inj hn').symm
      rw [← this, ← h'.1]
    have hlen := length_le_one_of_keys_eq (keysNodup_inEdges hI.insNodup cur) _ hall
    rw [hl] at hlen
    have hr : r = [] := by
      cases r with
      | nil => rfl
      | cons _ _ => simp at hlen
    subst hr
    exact ⟨e, rfl, he.1, hn, he.2⟩

theorem stepNode_inv {E0 : ETable (List κ)} (hF : PathForest E0) (K : List κ → Bool) (R : List κ → Bool)
    (st : TState (List κ)) (cur : List κ × NodeAcc) (hI : Inv E0 R st) (hcur : R cur.1 = false) :
    ∃ st', stepNode K st cur = .ok st' ∧
      Inv E0 (if K cur.1 = true then R else alsoRemoved R cur.1) st' ∧
      st'.nodes = (if K cur.1 = true then st.nodes ++ [cur] else st.nodes) := by
  rcases inEdges_of_inv hI cur.1 hcur with ⟨h0, hroot⟩ | ⟨e, h1, hdst, hnear, hspec⟩
  · -- no parent
    cases hk : K cur.1 with
    | true =>
      refine ⟨_, stepNode_kept K st cur (by rw [h0]; simp) hk, ?_, by simp⟩
      simp only [if_true]
      exact ⟨hI.insNodup, hI.outsNodup, hI.insSpec, hI.outsSpec⟩
    | false =>
      refine ⟨_, stepNode_root K st cur h0 hk, ?_, by simp⟩
      simp only [Bool.false_eq_true, if_false]
      refine ⟨keysNodup_detachChildren _ _ _ hI.insNodup, hI.outsNodup, ?_, ?_⟩
      · intro a b hb
        have hb' : R b = false ∧ b ≠ cur.1 := by
          simp only [alsoRemoved, Bool.or_eq_false_iff, decide_eq_false_iff_not] at hb; exact hb
        simp only
        rw [tfind_detachChildren]
        by_cases ha : a = cur.1
        · subst ha
          rw [specE_src_removed E0 (alsoRemoved R cur.1) cur.1 b (by simp [alsoRemoved])]
          by_cases hany : (outEdges st.outs cur.1).any (fun e => decide (e.1.2 = b)) = true
          · simp [hany]
          · simp only [hany, and_false, if_false]
            rw [hI.insSpec _ _ hb'.1, ← hI.outsSpec _ _ hcur]
            apply tfind_none_of_not_mem
            intro v hv
            apply hany
            rw [List.any_eq_true]
            exact ⟨((cur.1, b), v), (mem_outEdges _ _ _).mpr ⟨hv, rfl⟩, by simp⟩
        · simp only [ha, false_and, if_false]
          rw [hI.insSpec _ _ hb'.1, specE_step_root hF R cur.1 a b hroot hcur ha hb'.2]
      · intro a b ha
        have ha' : R a = false ∧ a ≠ cur.1 := by
          simp only [alsoRemoved, Bool.or_eq_false_iff, decide_eq_false_iff_not] at ha; exact ha
        simp only
        rw [hI.outsSpec _ _ ha'.1]
        by_cases hb : b = cur.1
        · subst hb
          rw [hroot a, specE_dst_removed E0 (alsoRemoved R cur.1) a cur.1 (by simp [alsoRemoved])]
        · rw [specE_step_root hF R cur.1 a b hroot hcur ha'.2 hb]
  · -- one parent p
    obtain ⟨⟨p, d⟩, ev⟩ := e
    simp only at hdst hnear hspec
    subst hdst
    have hpm := nearestKept_some hnear
    have hpc : p ≠ cur.1 := by rintro rfl; exact not_mem_ancestors_self _ hpm.1
    cases hk : K cur.1 with
    | true =>
      refine ⟨_, stepNode_kept K st cur (by rw [h1]; simp) hk, ?_, by simp [hk]⟩
      simp only [hk, if_true]
      exact ⟨hI.insNodup, hI.outsNodup, hI.insSpec, hI.outsSpec⟩
    | false =>
      refine ⟨_, stepNode_inner K st cur _ h1 hk, ?_, by simp [hk]⟩
      simp only [hk, Bool.false_eq_true, if_false]
      -- the list of children
      have hLn : KeysNodup (outEdges (tdel st.outs (p, cur.1)) cur.1) :=
        keysNodup_outEdges (keysNodup_tdel hI.outsNodup _) _
      have hLs : ∀ x ∈ outEdges (tdel st.outs (p, cur.1)) cur.1, x.1.1 = cur.1 :=
        fun x hx => ((mem_outEdges _ _ _).mp hx).2
      have hLf : ∀ b, tfind (outEdges (tdel st.outs (p, cur.1)) cur.1) (cur.1, b) = specE E0 R cur.1 b := by
        intro b
        rw [tfind_outEdges, if_pos rfl, tfind_tdel]
        have : ¬ (p, cur.1) = (cur.1, b) := by rintro h; exact hpc (Prod.mk.inj h).1
        rw [if_neg this, hI.outsSpec _ _ hcur]
      have hnd := keysNodup_rewire p cur.1 (outEdges (tdel st.outs (p, cur.1)) cur.1)
        (st.ins, tdel st.outs (p, cur.1)) hI.insNodup (keysNodup_tdel hI.outsNodup _)
      refine ⟨hnd.1, hnd.2, ?_, ?_⟩
      · intro a b hb
        have hb' : R b = false ∧ b ≠ cur.1 := by
          simp only [alsoRemoved, Bool.or_eq_false_iff, decide_eq_false_iff_not] at hb; exact hb
        simp only
        rw [tfind_rewire_ins p cur.1 hpc _ hLn hLs, hLf]
        by_cases ha : a = cur.1
        · subst ha
          rw [specE_src_removed E0 (alsoRemoved R cur.1) cur.1 b (by simp [alsoRemoved])]
          by_cases hs : (specE E0 R cur.1 b).isSome = true
          · simp [hs]
          · have hpa : ¬ cur.1 = p := fun h => hpc h.symm
            simp only [hs, and_false, if_false, hpa, false_and]
            rw [hI.insSpec _ _ hb'.1]
            simpa using hs
        · simp only [ha, false_and, if_false]
          rw [specE_step_inner E0 R cur.1 p a b hnear ha hb'.2, hI.insSpec _ _ hb'.1]
      · intro a b ha
        have ha' : R a = false ∧ a ≠ cur.1 := by
          simp only [alsoRemoved, Bool.or_eq_false_iff, decide_eq_false_iff_not] at ha; exact ha
        simp only
        rw [tfind_rewire_outs p cur.1 _ hLn hLs, hLf, tfind_tdel]
        by_cases hb : b = cur.1
        · subst hb
          rw [specE_self, specE_dst_removed E0 (alsoRemoved R cur.1) a cur.1 (by simp [alsoRemoved])]
          simp only [Option.isSome_none, Bool.false_eq_true, and_false, if_false]
          by_cases hap : a = p
          · subst hap; simp
          · have : ¬ (p, cur.1) = (a, cur.1) := by rintro h; exact hap (Prod.mk.inj h).1.symm
            rw [if_neg this, hI.outsSpec _ _ ha'.1]
            exact specE_unique hspec hap
        · have : ¬ (p, cur.1) = (a, b) := by rintro h; exact hb (Prod.mk.inj h).2.symm
          rw [if_neg this, hI.outsSpec _ _ ha'.1, specE_step_inner E0 R cur.1 p a b hnear ha'.2 hb]

end PV.TrimTree
