import PprofVerif.Lemmas.MergeTables
import PprofVerif.Lemmas.MergeAccum
/-!
Resolving the *output* of the staged merge: an id of the merged profile resolves, through the
renumbered tables, to an entity with the same semantic identity as the source entity that
received that id (DESIGN A.2: "entity fields are those of the first entity seen with that
identity").
-/
namespace PV.Merge
open PV.Spec
open PV.Wire (InI64)

def setMappingId (m : Mapping) (i : Nat) : Mapping := { m with id := i }
def setLocationId (l : Location) (i : Nat) : Location := { l with id := i }
def setFunctionId (f : Function) (i : Nat) : Function := { f with id := i }

/-- a profile whose tables are those built by the merge. -/
structure HasTables (r : Profile) (t : Tables) : Prop where
  functions : r.functions = renum setFunctionId 1 t.ftab
  mappings : r.mappings = renum setMappingId 1 t.mtab
  locations : r.locations = renum setLocationId 1 (t.ltab.map (·.2))

theorem findFunction_out {r : Profile} {t : Tables} (h : HasTables r t) (f : Function)
    (hf : functionKey f ∈ t.ftab.map functionKey) :
    ∃ f', r.findFunction (idOf functionKey t.ftab (functionKey f)) = some f' ∧ funcIdent f' = funcIdent f := by
  obtain ⟨f0, _, hk, _, hget⟩ := entryOf_spec functionKey t.ftab (functionKey f) hf
  have hpos := idOf_pos functionKey t.ftab (functionKey f)
  have := find?_renum setFunctionId (·.id) (fun _ _ => rfl) 1 t.ftab _ f0 hget
  rw [show 1 + (idOf functionKey t.ftab (functionKey f) - 1) = idOf functionKey t.ftab (functionKey f) by omega] at this
  refine ⟨_, by unfold Profile.findFunction; rw [h.functions]; exact this, ?_⟩
  rw [← functionKey_eq_iff]
  exact hk

theorem findMapping_out {r : Profile} {t : Tables} (h : HasTables r t) (m : Mapping)
    (hm : mappingKey m ∈ t.mtab.map mappingKey) :
    ∃ m', r.findMapping (idOf mappingKey t.mtab (mappingKey m)) = some m' ∧ mapIdent m' = mapIdent m ∧
      m'.start = (firstSeen t.mtab m).start := by
  obtain ⟨m0, he, hk, _, hget⟩ := entryOf_spec mappingKey t.mtab (mappingKey m) hm
  have hpos := idOf_pos mappingKey t.mtab (mappingKey m)
  have := find?_renum setMappingId (·.id) (fun _ _ => rfl) 1 t.mtab _ m0 hget
  rw [show 1 + (idOf mappingKey t.mtab (mappingKey m) - 1) = idOf mappingKey t.mtab (mappingKey m) by omega] at this
  refine ⟨_, by unfold Profile.findMapping; rw [h.mappings]; exact this, ?_, ?_⟩
  · rw [← mappingKey_eq_iff]; exact hk
  · simp only [firstSeen, he, setMappingId]

theorem resolveLine_out {r : Profile} {t : Tables} (h : HasTables r t) (ln : RLine)
    (hf : ∀ f, ln.fn = some f → functionKey f ∈ t.ftab.map functionKey) :
    ∃ rl, resolveLine r (remapLine t.ftab ln) = some rl ∧ lineIdent rl = lineIdent ln ∧
      (ln.fn.isSome → rl.fn.isSome) := by
  rw [remapLine_eq]
  unfold resolveLine
  cases hfn : ln.fn with
  | none => exact ⟨_, by simp only [fidOpt, if_true]; rfl, by simp [lineIdent, hfn], by simp⟩
  | some f =>
    obtain ⟨f', hf', hid⟩ := findFunction_out h f (hf f hfn)
    have hne : idOf functionKey t.ftab (functionKey f) ≠ 0 := by
      have := idOf_pos functionKey t.ftab (functionKey f); omega
    simp only [fidOpt, hne, if_false, hf']
    exact ⟨_, rfl, by simp [lineIdent, hfn, hid], by simp⟩

theorem optMap_map_exists {α β γ : Type} (f : β → Option γ) (g : α → β) (P : α → γ → Prop) :
    ∀ (xs : List α), (∀ x ∈ xs, ∃ y, f (g x) = some y ∧ P x y) →
      ∃ ys, optMap f (xs.map g) = some ys ∧ List.Forall₂ P xs ys
  | [], _ => ⟨[], rfl, List.Forall₂.nil⟩
  | x :: xs, h => by
    obtain ⟨y, hy, hp⟩ := h x (by simp)
    obtain ⟨ys, hys, hps⟩ := optMap_map_exists f g P xs (fun a ha => h a (List.mem_cons_of_mem _ ha))
    exact ⟨y :: ys, by simp only [List.map_cons, optMap, hy, hys], List.Forall₂.cons hp hps⟩

/-- a remapped location (with whatever id) resolves in the merged profile to a location with the
frame identity of its source. -/
theorem resolveLoc_out {r : Profile} {t : Tables} (h : HasTables r t) (l : RLocation) (i : Nat)
    (hin : LocIn t.ftab t.mtab l) :
    ∃ rl, resolveLoc r (setLocationId (remapLoc t.ftab t.mtab l) i) = some rl ∧
      frameIdent rl = frameIdent l ∧ (l.linesHaveFn → rl.linesHaveFn) := by
  obtain ⟨lines, hlines, hfa⟩ := optMap_map_exists (resolveLine r) (remapLine t.ftab)
    (fun ln rl => lineIdent rl = lineIdent ln ∧ (ln.fn.isSome → rl.fn.isSome)) l.lines (by
      intro ln hln
      obtain ⟨rl, h1, h2, h3⟩ := resolveLine_out h ln (hin.2 ln hln)
      exact ⟨rl, h1, h2, h3⟩)
  have hli : lines.map lineIdent = l.lines.map lineIdent :=
    (forall₂_map_eq hfa (fun x y hxy => hxy.1.symm)).symm
  have hfn : l.linesHaveFn → ∀ rl ∈ lines, rl.fn.isSome := by
    intro hl rl hrl
    obtain ⟨ln, hln, hp⟩ := forall₂_mem_right hfa hrl
    exact hp.2 (hl ln hln)
  unfold resolveLoc setLocationId remapLoc
  cases hm : l.mapping with
  | none =>
    simp only [resolveMappingRef, if_true, hlines]
    refine ⟨_, rfl, ?_, fun hl => hfn hl⟩
    simp only [frameIdent, hm, hli, Option.map_none]
  | some m =>
    obtain ⟨m', hm', hid, hstart⟩ := findMapping_out h m (hin.1 m hm)
    have hne : idOf mappingKey t.mtab (mappingKey m) ≠ 0 := by
      have := idOf_pos mappingKey t.mtab (mappingKey m); omega
    simp only [resolveMappingRef, hne, if_false, hm', hlines]
    refine ⟨_, rfl, ?_, fun hl => hfn hl⟩
    simp only [frameIdent, hm, hli, Option.map_some, hid, hstart, subU64_rebase]

theorem tables_lid (srcs : List Src) (l : RLocation) :
    (buildTables srcs).lid l = idOf Prod.fst (buildTables srcs).ltab
      (locKeyOf (buildTables srcs).ftab (buildTables srcs).mtab l) := rfl

/-- the id given to a traversed location resolves to a location with the same frame identity. -/
theorem resolveLocID_out {r : Profile} (srcs : List Src) (h : HasTables r (buildTables srcs))
    (l : RLocation) (hl : l ∈ allLocs srcs) :
    ∃ rl, resolveLocID r ((buildTables srcs).lid l) = some rl ∧ frameIdent rl = frameIdent l ∧
      ((∀ l' ∈ allLocs srcs, l'.linesHaveFn) → rl.linesHaveFn) := by
  let t := buildTables srcs
  have hk := locKey_mem_ltab srcs hl
  obtain ⟨e, _, hek, hemem, hget⟩ := entryOf_spec Prod.fst t.ltab (locKeyOf t.ftab t.mtab l) hk
  -- the entry comes from a traversed location l0 with the same key
  have hsrc : e ∈ (allLocs srcs).map fun l => (locKeyOf t.ftab t.mtab l, remapLoc t.ftab t.mtab l) :=
    mem_internBy Prod.fst _ e hemem
  obtain ⟨l0, hl0, rfl⟩ := List.mem_map.mp hsrc
  have hpos := idOf_pos Prod.fst t.ltab (locKeyOf t.ftab t.mtab l)
  have hget2 : (t.ltab.map (·.2))[idOf Prod.fst t.ltab (locKeyOf t.ftab t.mtab l) - 1]? =
      some (remapLoc t.ftab t.mtab l0) := by
    rw [List.getElem?_map, hget]; rfl
  have hfind := find?_renum setLocationId (·.id) (fun _ _ => rfl) 1 (t.ltab.map (·.2)) _ _ hget2
  rw [show 1 + (idOf Prod.fst t.ltab (locKeyOf t.ftab t.mtab l) - 1) =
      idOf Prod.fst t.ltab (locKeyOf t.ftab t.mtab l) by omega] at hfind
  obtain ⟨rl, hrl, hid, hfn⟩ := resolveLoc_out h l0 (idOf Prod.fst t.ltab (locKeyOf t.ftab t.mtab l))
    (locIn_of_mem_allLocs srcs hl0)
  have hne : (buildTables srcs).lid l ≠ 0 := by rw [tables_lid]; exact Nat.ne_of_gt hpos
  refine ⟨rl, ?_, ?_, fun hall => hfn (hall l0 hl0)⟩
  · unfold resolveLocID Profile.findLocation
    rw [if_neg hne, h.locations, tables_lid, hfind]
    exact hrl
  · rw [hid]
    exact (locKeyOf_eq_iff t.ftab t.mtab l0 l (locIn_of_mem_allLocs srcs hl0)).mp hek

/-- a sample with the shape of a remapped traversed sample resolves in the merged profile to a
sample with the source's stack key and its own values. -/
theorem resolveSample_out {r : Profile} (srcs : List Src) (h : HasTables r (buildTables srcs))
    (s : RSample) (hs : s ∈ allSamples srcs) (e : Sample)
    (hshape : SameShape e (remapSample (buildTables srcs).lid s)) :
    ∃ rs, resolveSample r e = some rs ∧ stackKey rs = stackKey s ∧ rs.values = e.values ∧
      rs.numLabel = s.numLabel ∧
      ((∀ l' ∈ allLocs srcs, l'.linesHaveFn) → ∀ l ∈ rs.locs, l.linesHaveFn) := by
  obtain ⟨h1, h2, h3, h4⟩ := hshape
  have hlocs : ∀ l ∈ s.locs, l ∈ allLocs srcs := by
    intro l hl
    simp only [allLocs, List.mem_flatMap]
    exact ⟨s, hs, hl⟩
  obtain ⟨locs, hl, hfa⟩ := optMap_map_exists (resolveLocID r) (buildTables srcs).lid
    (fun l rl => frameIdent rl = frameIdent l ∧ ((∀ l' ∈ allLocs srcs, l'.linesHaveFn) → rl.linesHaveFn)) s.locs (by
      intro l hlm
      obtain ⟨rl, a, b, c⟩ := resolveLocID_out srcs h l (hlocs l hlm)
      exact ⟨rl, a, b, c⟩)
  have hids : e.locationIDs = s.locs.map (buildTables srcs).lid := by rw [h1]; rfl
  refine ⟨⟨locs, e.values, e.label, e.numLabel, e.numUnit⟩, by simp only [resolveSample, hids, hl], ?_, rfl, ?_, ?_⟩
  · unfold stackKey numLabelIdent
    simp only [StackKey.mk.injEq]
    refine ⟨(forall₂_map_eq hfa (fun x y hxy => hxy.1.symm)).symm, by rw [h2]; rfl, ?_⟩
    rw [h3, h4]
    exact labelsWithUnits_remap s.numLabel s.numUnit
  · rw [h3]; rfl
  · intro hall l hlm
    obtain ⟨l0, _, hp⟩ := forall₂_mem_right hfa hlm
    exact hp.2 hall

end PV.Merge
