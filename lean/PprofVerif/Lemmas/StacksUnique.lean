import PprofVerif.Lemmas.StacksLoop
import PprofVerif.Lemmas.StacksPlaces
/-! C17 helper lemmas, part I: unique names.  For the list of (FullName, UniqueName) of the
sources: the first source with a given full name keeps it as unique name, every later one gets
`FullName#<function id>`. -/
namespace PV.Stacks
open PV

def nm (s : Source) : Str × Str := (s.fullName, s.uniqueName)

/-- the property of a name list (index 0 = root is exempt). -/
def UQN (N : List (Str × Str)) : Prop :=
  ∀ j q, 1 ≤ j → N[j]? = some q →
    (q.2 = q.1 ∧ ∀ i r, 1 ≤ i → i < j → N[i]? = some r → r.1 ≠ q.1) ∨
    ((∃ id, q.2 = q.1 ++ hash ++ decNat id) ∧ ∃ i r, 1 ≤ i ∧ i < j ∧ N[i]? = some r ∧ r.1 = q.1)

structure UQ (st : St) : Prop where
  pos : 1 ≤ st.sources.elems.length
  seen : ∀ n, st.seenFunctions.contains n = true ↔
           ∃ i q, 1 ≤ i ∧ (st.sources.elems.map nm)[i]? = some q ∧ q.1 = n
  uniq : UQN (st.sources.elems.map nm)

theorem UQ_step (seen : List Str) (N : List (Str × Str)) (full : Str) (id : Nat)
    (hs : ∀ n, seen.contains n = true ↔ ∃ i q, 1 ≤ i ∧ N[i]? = some q ∧ q.1 = n) (hu : UQN N)
    (hN : 1 ≤ N.length) :
    (∀ n, (if seen.contains full = true then seen else full :: seen).contains n = true ↔
        ∃ i q, 1 ≤ i ∧ (N ++ [(full, if seen.contains full = true then full ++ hash ++ decNat id else full)])[i]? = some q ∧ q.1 = n) ∧
    UQN (N ++ [(full, if seen.contains full = true then full ++ hash ++ decNat id else full)]) := by
  -- access into N ++ [x]
  have hget : ∀ (x : Str × Str) i q, (N ++ [x])[i]? = some q → (i < N.length ∧ N[i]? = some q) ∨ (i = N.length ∧ q = x) := by
    intro x i q hq
    by_cases hi : i < N.length
    · rw [List.getElem?_append_left hi] at hq; exact Or.inl ⟨hi, hq⟩
    · rw [List.getElem?_append_right (by omega)] at hq
      have : i - N.length = 0 := by
        cases hd : i - N.length with
        | zero => rfl
        | succ n => rw [hd] at hq; simp at hq
      rw [this] at hq
      simp at hq
      exact Or.inr ⟨by omega, hq.symm⟩
  by_cases hc : seen.contains (full) = true
  · -- the full name was seen: `#id` form
    simp only [hc, if_true]
    obtain ⟨i0, q0, hi0, hq0, hn0⟩ := (hs _).1 hc
    have hi0lt : i0 < N.length := by
      rcases Nat.lt_or_ge i0 N.length with h' | h'
      · exact h'
      · rw [List.getElem?_eq_none h'] at hq0; cases hq0
    constructor
    · intro n
      constructor
      · intro hn
        obtain ⟨i, q, hi, hq, hqn⟩ := (hs n).1 hn
        have : i < N.length := by
          rcases Nat.lt_or_ge i N.length with h' | h'
          · exact h'
          · rw [List.getElem?_eq_none h'] at hq; cases hq
        exact ⟨i, q, hi, by rw [List.getElem?_append_left this]; exact hq, hqn⟩
      · rintro ⟨i, q, hi, hq, hqn⟩
        rcases hget _ i q hq with ⟨_, hq'⟩ | ⟨_, rfl⟩
        · exact (hs n).2 ⟨i, q, hi, hq', hqn⟩
        · simp only at hqn; rw [← hqn]; exact hc
    · intro j q hj hq
      rcases hget _ j q hq with ⟨hjl, hq'⟩ | ⟨hje, rfl⟩
      · rcases hu j q hj hq' with ⟨h1, h2⟩ | ⟨h1, i, r, hi, hij, hr, hre⟩
        · refine Or.inl ⟨h1, ?_⟩
          intro i r hi hij hr
          exact h2 i r hi hij (by rw [List.getElem?_append_left (by omega)] at hr; exact hr)
        · exact Or.inr ⟨h1, i, r, hi, hij, by rw [List.getElem?_append_left (by omega)]; exact hr, hre⟩
      · exact Or.inr ⟨⟨id, rfl⟩, i0, q0, hi0, by omega, by rw [List.getElem?_append_left hi0lt]; exact hq0, hn0⟩
  · -- first source with this full name: plain
    have hc' : seen.contains (full) = false := by simpa using hc
    simp only [hc', Bool.false_eq_true, if_false]
    constructor
    · intro n
      simp only [List.contains_cons]
      constructor
      · intro hn
        rcases Bool.or_eq_true_iff.1 hn with he | hn'
        · have : n = full := by simpa using he
          exact ⟨N.length, _, by omega, List.getElem?_concat_length, this.symm⟩
        · obtain ⟨i, q, hi, hq, hqn⟩ := (hs n).1 hn'
          have : i < N.length := by
            rcases Nat.lt_or_ge i N.length with h' | h'
            · exact h'
            · rw [List.getElem?_eq_none h'] at hq; cases hq
          exact ⟨i, q, hi, by rw [List.getElem?_append_left this]; exact hq, hqn⟩
      · rintro ⟨i, q, hi, hq, hqn⟩
        rcases hget _ i q hq with ⟨_, hq'⟩ | ⟨_, rfl⟩
        · exact Bool.or_eq_true_iff.2 (Or.inr ((hs n).2 ⟨i, q, hi, hq', hqn⟩))
        · simp only at hqn; subst hqn; simp
    · intro j q hj hq
      rcases hget _ j q hq with ⟨hjl, hq'⟩ | ⟨hje, rfl⟩
      · rcases hu j q hj hq' with ⟨h1, h2⟩ | ⟨h1, i, r, hi, hij, hr, hre⟩
        · refine Or.inl ⟨h1, ?_⟩
          intro i r hi hij hr
          exact h2 i r hi hij (by rw [List.getElem?_append_left (by omega)] at hr; exact hr)
        · exact Or.inr ⟨h1, i, r, hi, hij, by rw [List.getElem?_append_left (by omega)]; exact hr, hre⟩
      · refine Or.inl ⟨rfl, ?_⟩
        intro i r hi hij hr hre
        rw [List.getElem?_append_left (by omega)] at hr
        have := (hs (full)).2 ⟨i, r, hi, hr, hre⟩
        rw [this] at hc'; cases hc'


theorem UQ_getSrc (o : Opts) (st : St) (f : Frame) (h : UQ st) : UQ (getSrc o st f).1 := by
  unfold getSrc
  cases hl : st.srcs.lookup f.key with
  | some i => exact h
  | none =>
    have core := UQ_step st.seenFunctions (st.sources.elems.map nm) (f.key.fullName o) f.fnID h.seen h.uniq
      (by simpa using h.pos)
    refine ⟨by simp [Slice.push], ?_, ?_⟩
    · intro n
      have := core.1 n
      simpa only [Slice.push, List.map_append, List.map_cons, List.map_nil, nm] using this
    · have := core.2
      simpa only [Slice.push, List.map_append, List.map_cons, List.map_nil, nm] using this

theorem UQ_pushFrames (o : Opts) (fs : List Frame) : ∀ (st : St) (idxs : Slice Nat), WF o st → UQ st →
    UQ (pushFrames o st idxs fs).1 := by
  induction fs with
  | nil => intro st idxs _ h; simpa [pushFrames] using h
  | cons f r ih =>
    intro st idxs hw h
    have hstep : pushFrames o st idxs (f :: r) = pushFrames o (getSrc o st f).1 (idxs.push (getSrc o st f).2) r := by
      simp [pushFrames]
    rw [hstep]
    exact ih _ _ (getSrc_spec o st f hw).1 (UQ_getSrc o st f h)

theorem map_nm_modify_self (S : List Source) (i : Nat) (v : Int) :
    (S.modify i (fun s => { s with self := s.self + v })).map nm = S.map nm := by
  apply List.ext_getElem?
  intro j
  simp only [List.getElem?_map, List.getElem?_modify]
  cases S[j]? with
  | none => rfl
  | some s => by_cases e : i = j <;> simp [e, nm]

theorem UQ_sampleStep (o : Opts) (acc acc' : St × Slice Stack) (x : Int × List Frame)
    (hw : WF o acc.1) (h : UQ acc.1) (hs : sampleStep o acc x = .ok acc') : UQ acc'.1 := by
  have hp := UQ_pushFrames o x.2 acc.1 (Slice.lit [0]) hw h
  simp only [sampleStep] at hs
  generalize pushFrames o acc.1 (Slice.lit [0]) x.2 = r at hp hs
  cases hg : r.2.get (r.2.len - 1) with
  | err e => simp [hg, bind, Outcome.bind] at hs
  | panic e => simp [hg, bind, Outcome.bind] at hs
  | ok leaf =>
    simp only [hg, bind, Outcome.bind, Slice.upd] at hs
    by_cases hl : leaf < r.1.sources.elems.length
    · simp only [hl, if_true, pure, Outcome.ok.injEq] at hs
      subst hs
      exact ⟨by simpa [List.length_modify] using hp.pos, by simpa [map_nm_modify_self] using hp.seen, by simpa [map_nm_modify_self] using hp.uniq⟩
    · simp [hl] at hs

theorem UQ_fold (o : Opts) (rest : List (Int × List Frame)) :
    ∀ (acc : St × Slice Stack) (done : List (Int × List Frame)), Inv o acc done → UQ acc.1 →
    ∀ acc', foldO (sampleStep o) acc rest = .ok acc' → UQ acc'.1 := by
  induction rest with
  | nil => intro acc done _ h acc' hf; simp [foldO] at hf; subst hf; exact h
  | cons x r ih =>
    intro acc done inv h acc' hf
    obtain ⟨acc1, h1, i1⟩ := sampleStep_spec o acc done x inv
    simp only [foldO, h1, bind, Outcome.bind] at hf
    exact ih acc1 (done ++ [x]) i1 (UQ_sampleStep o acc acc1 x inv.wf h h1) acc' hf

theorem UQ_init : UQ St.init := by
  refine ⟨by simp [St.init, Slice.lit], ?_, ?_⟩
  · intro n
    simp only [St.init, Slice.lit, List.map_cons, List.map_nil]
    constructor
    · intro h; simp at h
    · rintro ⟨i, q, hi, hq, _⟩
      cases i with
      | zero => omega
      | succ k => simp at hq
  · intro j q hj hq
    cases j with
    | zero => omega
    | succ k => simp [St.init, Slice.lit] at hq

theorem map_nm_mapIdx_addP (S : List Source) (g : Nat → List (Nat × Nat)) :
    (S.mapIdx (fun i s => addP s (g i))).map nm = S.map nm := by
  apply List.ext_getElem?
  intro j
  simp only [List.getElem?_map, List.getElem?_mapIdx]
  cases S[j]? with
  | none => rfl
  | some s => simp [nm, addP]

end PV.Stacks
