import PprofVerif.Lemmas.GraphTbl
namespace PV.Graph
open PV.GSpec
variable {κ : Type} [DecidableEq κ]

/-- indicator -/
def ind (c : Prop) [Decidable c] (v : WD) : WD := if c then v else 0
@[simp] theorem ind_true {c : Prop} [Decidable c] (h : c) (v : WD) : ind c v = v := by simp [ind, h]
@[simp] theorem ind_false {c : Prop} [Decidable c] (h : ¬c) (v : WD) : ind c v = 0 := by simp [ind, h]

/-! ### effect of the three mutators on the observers -/
@[simp] theorem addCum_cum (g : GState κ) (n m : κ) (v : WD) :
    (g.addCum n v).cum m = g.cum m + ind (n = m) v := by
  unfold GState.addCum GState.cum
  simp only [tget_tupd]
  by_cases h : n = m <;> simp [h, ind]
@[simp] theorem addCum_flat (g : GState κ) (n m : κ) (v : WD) : (g.addCum n v).flat m = g.flat m := by
  unfold GState.addCum GState.flat
  simp only [tget_tupd]
  by_cases h : n = m <;> simp [h]
@[simp] theorem addCum_edges (g : GState κ) (n : κ) (v : WD) : (g.addCum n v).edges = g.edges := rfl
@[simp] theorem addFlat_flat (g : GState κ) (n m : κ) (v : WD) :
    (g.addFlat n v).flat m = g.flat m + ind (n = m) v := by
  unfold GState.addFlat GState.flat
  simp only [tget_tupd]
  by_cases h : n = m <;> simp [h, ind]
@[simp] theorem addFlat_cum (g : GState κ) (n m : κ) (v : WD) : (g.addFlat n v).cum m = g.cum m := by
  unfold GState.addFlat GState.cum
  simp only [tget_tupd]
  by_cases h : n = m <;> simp [h]
@[simp] theorem addFlat_edges (g : GState κ) (n : κ) (v : WD) : (g.addFlat n v).edges = g.edges := rfl
@[simp] theorem addEdge_nodes (g : GState κ) (p n : κ) (v : WD) (r : Bool) : (g.addEdge p n v r).nodes = g.nodes := rfl
@[simp] theorem addEdge_cum (g : GState κ) (p n m : κ) (v : WD) (r : Bool) : (g.addEdge p n v r).cum m = g.cum m := rfl
@[simp] theorem addEdge_flat (g : GState κ) (p n m : κ) (v : WD) (r : Bool) : (g.addEdge p n v r).flat m = g.flat m := rfl

/-- the table entry of an edge -/
def GState.edgeAt (g : GState κ) (a b : κ) : EdgeAcc := tget g.edges (a, b) EdgeAcc.zero
theorem weight_eq_edgeAt (g : GState κ) (a b : κ) : g.weight a b = (g.edgeAt a b).weight := rfl
theorem residual_eq_edgeAt (g : GState κ) (a b : κ) : g.residual a b = (g.edgeAt a b).residual := rfl

theorem addEdge_edgeAt (g : GState κ) (p n a b : κ) (v : WD) (r : Bool) :
    (g.addEdge p n v r).edgeAt a b =
      if p = a ∧ n = b then ⟨(g.edgeAt a b).weight + v, (g.edgeAt a b).residual || r⟩ else g.edgeAt a b := by
  unfold GState.addEdge GState.edgeAt
  simp only [tget_tupd]
  by_cases h : (p, n) = (a, b)
  · obtain ⟨rfl, rfl⟩ := Prod.mk.inj h
    simp
  · have : ¬ (p = a ∧ n = b) := fun ⟨h1, h2⟩ => h (by rw [h1, h2])
    simp [h, this]

theorem addEdge_hasEdge (g : GState κ) (p n a b : κ) (v : WD) (r : Bool) :
    (g.addEdge p n v r).hasEdge a b = (g.hasEdge a b || decide (p = a ∧ n = b)) := by
  unfold GState.addEdge GState.hasEdge
  simp only [thas_tupd]
  congr 1
  by_cases h : (p, n) = (a, b)
  · obtain ⟨rfl, rfl⟩ := Prod.mk.inj h
    simp
  · have : ¬ (p = a ∧ n = b) := fun ⟨h1, h2⟩ => h (by rw [h1, h2])
    simp [h, this]
@[simp] theorem addCum_hasEdge (g : GState κ) (n a b : κ) (v : WD) : (g.addCum n v).hasEdge a b = g.hasEdge a b := rfl
@[simp] theorem addFlat_hasEdge (g : GState κ) (n a b : κ) (v : WD) : (g.addFlat n v).hasEdge a b = g.hasEdge a b := rfl
@[simp] theorem addCum_edgeAt (g : GState κ) (n a b : κ) (v : WD) : (g.addCum n v).edgeAt a b = g.edgeAt a b := rfl
@[simp] theorem addFlat_edgeAt (g : GState κ) (n a b : κ) (v : WD) : (g.addFlat n v).edgeAt a b = g.edgeAt a b := rfl

/-! ### one frame: `stepFrame` = (not kept) mark residual | (kept) visit ; link ; advance -/
def visit (v : WD) (a : Inner κ) (n : κ) : Inner κ :=
  if a.seenN.contains n then a else { a with seenN := n :: a.seenN, g := a.g.addCum n v }

def link (v : WD) (a : Inner κ) (n : κ) : Inner κ :=
  match a.parent with
  | some p =>
    if !(a.seenE.contains (n, p)) && n != p then
      { a with seenE := (n, p) :: a.seenE, g := a.g.addEdge p n v a.residual }
    else a
  | none => a

theorem stepFrame_eq (K : κ → Bool) (v : WD) (a : Inner κ) (n : κ) :
    stepFrame K v a n =
      if K n = true then { link v (visit v a n) n with parent := some n, residual := false }
      else { a with residual := true } := by
  unfold stepFrame
  cases hk : K n
  · rfl
  · rfl

theorem visit_seenN (v : WD) (a : Inner κ) (n : κ) :
    (visit v a n).seenN = if n ∈ a.seenN then a.seenN else n :: a.seenN := by
  unfold visit; by_cases h : n ∈ a.seenN <;> simp [h]
@[simp] theorem visit_seenE (v : WD) (a : Inner κ) (n : κ) : (visit v a n).seenE = a.seenE := by
  unfold visit; split <;> rfl
@[simp] theorem visit_parent (v : WD) (a : Inner κ) (n : κ) : (visit v a n).parent = a.parent := by
  unfold visit; split <;> rfl
@[simp] theorem visit_residual (v : WD) (a : Inner κ) (n : κ) : (visit v a n).residual = a.residual := by
  unfold visit; split <;> rfl
theorem visit_cum (v : WD) (a : Inner κ) (n m : κ) :
    (visit v a n).g.cum m = a.g.cum m + ind (n ∉ a.seenN ∧ n = m) v := by
  unfold visit
  by_cases h : n ∈ a.seenN
  · simp [h]
  · by_cases hm : n = m
    · subst hm; simp [h]
    · simp [h, hm]
@[simp] theorem visit_flat (v : WD) (a : Inner κ) (n m : κ) : (visit v a n).g.flat m = a.g.flat m := by
  unfold visit; split <;> simp
@[simp] theorem visit_edgeAt (v : WD) (a : Inner κ) (n x y : κ) : (visit v a n).g.edgeAt x y = a.g.edgeAt x y := by
  unfold visit; split <;> simp
@[simp] theorem visit_hasEdge (v : WD) (a : Inner κ) (n x y : κ) : (visit v a n).g.hasEdge x y = a.g.hasEdge x y := by
  unfold visit; split <;> simp

@[simp] theorem link_seenN (v : WD) (a : Inner κ) (n : κ) : (link v a n).seenN = a.seenN := by
  unfold link; split <;> (try split) <;> rfl
@[simp] theorem link_cum (v : WD) (a : Inner κ) (n m : κ) : (link v a n).g.cum m = a.g.cum m := by
  unfold link; split <;> (try split) <;> simp
@[simp] theorem link_flat (v : WD) (a : Inner κ) (n m : κ) : (link v a n).g.flat m = a.g.flat m := by
  unfold link; split <;> (try split) <;> simp

theorem stepFrame_seenN (K : κ → Bool) (v : WD) (a : Inner κ) (n : κ) :
    (stepFrame K v a n).seenN = if K n = true ∧ n ∉ a.seenN then n :: a.seenN else a.seenN := by
  rw [stepFrame_eq]
  by_cases hk : K n = true <;> by_cases hs : n ∈ a.seenN <;> simp [hk, hs, visit_seenN]

theorem stepFrame_cum (K : κ → Bool) (v : WD) (a : Inner κ) (n m : κ) :
    (stepFrame K v a n).g.cum m = a.g.cum m + ind (K n = true ∧ n ∉ a.seenN ∧ n = m) v := by
  rw [stepFrame_eq]
  by_cases hk : K n = true
  · simp [hk, visit_cum]
  · simp [hk]

theorem stepFrame_flat (K : κ → Bool) (v : WD) (a : Inner κ) (n m : κ) :
    (stepFrame K v a n).g.flat m = a.g.flat m := by
  rw [stepFrame_eq]
  by_cases hk : K n = true <;> simp [hk]

theorem stepFrame_parent (K : κ → Bool) (v : WD) (a : Inner κ) (n : κ) :
    (stepFrame K v a n).parent = if K n = true then some n else a.parent := by
  rw [stepFrame_eq]
  by_cases hk : K n = true <;> simp [hk]

theorem stepFrame_residual (K : κ → Bool) (v : WD) (a : Inner κ) (n : κ) :
    (stepFrame K v a n).residual = !K n := by
  rw [stepFrame_eq]
  by_cases hk : K n = true <;> simp [hk]

/-! ### the frame loop: cum and flat -/
theorem foldFrames_cum (K : κ → Bool) (v : WD) (fs : List κ) : ∀ (a : Inner κ) (m : κ),
    (fs.foldl (stepFrame K v) a).g.cum m = a.g.cum m + ind (m ∈ fs ∧ K m = true ∧ m ∉ a.seenN) v := by
  induction fs with
  | nil => intro a m; simp
  | cons f fs ih =>
    intro a m
    rw [List.foldl_cons, ih, stepFrame_cum, stepFrame_seenN]
    by_cases hfm : f = m
    · subst hfm
      by_cases hk : K f = true <;> by_cases hs : f ∈ a.seenN <;> simp [hk, hs]
    · have hmf : ¬ m = f := fun h => hfm h.symm
      by_cases hk : K f = true <;> by_cases hs : f ∈ a.seenN <;> simp [hk, hs, hfm, hmf]

theorem foldFrames_flat (K : κ → Bool) (v : WD) (fs : List κ) : ∀ (a : Inner κ) (m : κ),
    (fs.foldl (stepFrame K v) a).g.flat m = a.g.flat m := by
  induction fs with
  | nil => intro a m; simp
  | cons f fs ih => intro a m; rw [List.foldl_cons, ih, stepFrame_flat]

theorem foldFrames_last (K : κ → Bool) (v : WD) (fs : List κ) (x : κ) (a : Inner κ) :
    ((fs ++ [x]).foldl (stepFrame K v) a).residual = !K x ∧
    (K x = true → ((fs ++ [x]).foldl (stepFrame K v) a).parent = some x) := by
  rw [List.foldl_append]
  simp [stepFrame_residual, stepFrame_parent]
  intro h; simp [h]
end PV.Graph
