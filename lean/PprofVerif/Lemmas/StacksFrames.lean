import PprofVerif.Spec.Stacks
/-! C17 helper lemmas, part A: the index loops of `makeInitialStacks` read exactly the frames of the Spec. -/
namespace PV.Stacks
open PV

def toOpt {α} : Outcome α → Option α | .ok a => some a | _ => none

theorem mapO_eq_ok_iff {α β} (f : α → Outcome β) (l : List α) (bs : List β) :
    mapO f l = .ok bs ↔ l.map f = bs.map Outcome.ok := by
  induction l generalizing bs with
  | nil => cases bs <;> simp [mapO]
  | cons a r ih =>
    simp only [mapO, List.map_cons]
    cases h : f a with
    | ok b =>
      cases h2 : mapO f r with
      | ok bs' =>
        have := (ih bs').1 h2
        cases bs with
        | nil => simp [bind, Outcome.bind]
        | cons b0 bs0 =>
          simp only [bind, Outcome.bind, pure, List.map_cons, List.cons.injEq, Outcome.ok.injEq]
          constructor
          · rintro ⟨rfl, rfl⟩; exact ⟨rfl, this⟩
          · rintro ⟨rfl, h3⟩
            refine ⟨rfl, ?_⟩
            have := (ih bs0).2 h3
            rw [h2] at this; injection this
      | err e =>
        simp only [bind, Outcome.bind]
        constructor
        · intro h3; cases h3
        · intro h3
          cases bs with
          | nil => simp at h3
          | cons b0 bs0 =>
            simp only [List.map_cons, List.cons.injEq] at h3
            have := (ih bs0).2 h3.2
            rw [h2] at this; cases this
      | panic e =>
        simp only [bind, Outcome.bind]
        constructor
        · intro h3; cases h3
        · intro h3
          cases bs with
          | nil => simp at h3
          | cons b0 bs0 =>
            simp only [List.map_cons, List.cons.injEq] at h3
            have := (ih bs0).2 h3.2
            rw [h2] at this; cases this
    | err e =>
      simp only [bind, Outcome.bind]
      constructor
      · intro h3; cases h3
      · intro h3; cases bs <;> simp at h3
    | panic e =>
      simp only [bind, Outcome.bind]
      constructor
      · intro h3; cases h3
      · intro h3; cases bs <;> simp at h3

theorem optMap_eq_some_iff {α β} (g : α → Option β) (l : List α) (bs : List β) :
    Spec.optMap g l = some bs ↔ l.map g = bs.map some := by
  induction l generalizing bs with
  | nil => cases bs <;> simp [Spec.optMap]
  | cons a r ih =>
    simp only [Spec.optMap, List.map_cons]
    cases h : g a with
    | none => cases bs <;> simp
    | some b =>
      cases h2 : Spec.optMap g r with
      | none =>
        cases bs with
        | nil => simp
        | cons b0 bs0 =>
          simp only [List.map_cons, List.cons.injEq]
          constructor
          · intro h3; cases h3
          · intro h3
            have := (ih bs0).2 h3.2
            rw [h2] at this; cases this
      | some bs' =>
        have := (ih bs').1 h2
        cases bs with
        | nil => simp
        | cons b0 bs0 =>
          simp only [List.map_cons, List.cons.injEq, Option.some.injEq]
          constructor
          · rintro ⟨rfl, rfl⟩; exact ⟨rfl, this⟩
          · rintro ⟨rfl, h3⟩
            refine ⟨rfl, ?_⟩
            have := (ih bs0).2 h3
            rw [h2] at this; injection this

/-- transfer of a successful `map` through a pointwise implication. -/
theorem map_ok_transfer {α β γ} (f : α → Outcome β) (g : α → Option γ) (r : β → γ) (l : List α)
    (bs : List β) (h : l.map f = bs.map Outcome.ok) (hp : ∀ a ∈ l, ∀ b, f a = .ok b → g a = some (r b)) :
    l.map g = (bs.map r).map some := by
  induction l generalizing bs with
  | nil => cases bs <;> simp at h ⊢
  | cons a t ih =>
    cases bs with
    | nil => simp at h
    | cons b bs0 =>
      simp only [List.map_cons, List.cons.injEq] at h ⊢
      exact ⟨hp a (by simp) b h.1, ih bs0 h.2 (fun a' ha' => hp a' (by simp [ha']))⟩

theorem downFrom_eq {α} (xs : List α) : ∀ n, n ≤ xs.length →
    downFrom xs n = .ok (((xs.take n).zipIdx.map (fun p => (p.2, p.1))).reverse)
  | 0, _ => by simp [downFrom]
  | j+1, h => by
    have hj : j < xs.length := by omega
    have ih := downFrom_eq xs j (by omega)
    simp only [downFrom, List.getElem?_eq_getElem hj, ih, bind, Outcome.bind, pure]
    congr 1
    rw [List.take_succ_eq_append_getElem hj, List.zipIdx_append]
    simp [List.length_take, Nat.min_eq_left (Nat.le_of_lt hj)]

theorem downFrom_full {α} (xs : List α) :
    downFrom xs xs.length = .ok ((xs.zipIdx.map (fun p => (p.2, p.1))).reverse) := by
  have := downFrom_eq xs xs.length (Nat.le_refl _)
  simpa using this

theorem zipIdx_swap_map_snd {α β} (h : α → β) (xs : List α) (k : Nat) :
    ((xs.zipIdx k).map (fun p => (p.2, p.1))).map (fun q => h q.2) = xs.map h := by
  induction xs generalizing k with
  | nil => simp
  | cons a r ih => simp [List.zipIdx_cons, ih]

theorem flagLines_eq (lines : List Line) : ∀ k,
    (lines.zipIdx k).map (fun p => (p.1, decide (p.2 ≠ k + lines.length - 1))) = Spec.flagLines lines := by
  induction lines using Spec.flagLines.induct with
  | case1 => intro k; simp [Spec.flagLines]
  | case2 l => intro k; simp [Spec.flagLines]
  | case3 l l' r ih =>
    intro k
    have := ih (k+1)
    simp only [List.zipIdx_cons, List.map_cons, Spec.flagLines, List.length_cons] at this ⊢
    refine List.cons_eq_cons.2 ⟨?_, ?_⟩
    · simp
    · rw [← this]
      have e : k + (r.length + 1 + 1) - 1 = k + 1 + (r.length + 1) - 1 := by omega
      simp only [e]

theorem mapO_ok_of_forall {α β} (f : α → Outcome β) (l : List α) (h : ∀ a ∈ l, ∃ b, f a = .ok b) :
    ∃ bs, mapO f l = .ok bs := by
  induction l with
  | nil => exact ⟨[], rfl⟩
  | cons a r ih =>
    obtain ⟨b, hb⟩ := h a (by simp)
    obtain ⟨bs, hbs⟩ := ih (fun a' ha' => h a' (by simp [ha']))
    exact ⟨b :: bs, by simp [mapO, hb, hbs, bind, Outcome.bind, pure]⟩

/-- the step function of the inner loop (model) -/
def lineStep (p : Profile) (n : Nat) (jl : Nat × Line) : Outcome Frame :=
  match p.findFunction jl.2.functionID with
  | some fn => .ok { name := fn.name, file := fn.filename, fnID := fn.id, line := jl.2.line,
                      column := jl.2.column, inlined := decide (jl.1 ≠ n - 1) }
  | none => .err "line without Function (invalid profile; `?n?` names are not modelled)"

theorem locFrames_eq (p : Profile) (loc : Location) :
    locFrames p loc = mapO (lineStep p loc.lines.length)
      ((loc.lines.zipIdx.map (fun q => (q.2, q.1))).reverse) := by
  simp only [locFrames, downFrom_full, bind, Outcome.bind]
  rfl

theorem locFrames_spec (p : Profile) (loc : Location) (fs : List Frame)
    (h : locFrames p loc = .ok fs) : Spec.locFramesLeafFirst p loc = some fs.reverse := by
  rw [locFrames_eq, mapO_eq_ok_iff, List.map_reverse] at h
  have h' := congrArg List.reverse h
  rw [List.reverse_reverse, ← List.map_reverse] at h'
  have := map_ok_transfer (lineStep p loc.lines.length)
    (fun (q : Nat × Line) => (p.findFunction q.2.functionID).map
      (Spec.mkFrame · q.2 (decide (q.1 ≠ 0 + loc.lines.length - 1)))) id _ _ h' (by
      intro a _ b hb
      simp only [lineStep] at hb
      cases hf : p.findFunction a.2.functionID with
      | none => simp [hf] at hb
      | some fn =>
        simp only [hf, Outcome.ok.injEq] at hb
        simp [Spec.mkFrame, ← hb])
  rw [Spec.locFramesLeafFirst, optMap_eq_some_iff, ← flagLines_eq loc.lines 0]
  simpa [List.map_map, Function.comp_def] using this

def locStep (p : Profile) (il : Nat × Nat) : Outcome (List Frame) :=
  match p.findLocation il.2 with
  | some loc => locFrames p loc
  | none => .panic "nil Location"

theorem sampleFrames_eq (p : Profile) (s : Sample) :
    sampleFrames p s = (do
      let fss ← mapO (locStep p) ((s.locationIDs.zipIdx.map (fun q => (q.2, q.1))).reverse)
      pure fss.flatten) := by
  simp only [sampleFrames, downFrom_full, bind, Outcome.bind]
  rfl

theorem sampleFrames_spec (p : Profile) (s : Sample) (fs : List Frame)
    (h : sampleFrames p s = .ok fs) : Spec.sampleFrames p s = some fs := by
  rw [sampleFrames_eq] at h
  cases hm : mapO (locStep p) ((s.locationIDs.zipIdx.map (fun q => (q.2, q.1))).reverse) with
  | err e => simp [hm, bind, Outcome.bind] at h
  | panic e => simp [hm, bind, Outcome.bind] at h
  | ok fss =>
    simp only [hm, bind, Outcome.bind, pure, Outcome.ok.injEq] at h
    rw [mapO_eq_ok_iff, List.map_reverse] at hm
    have h' := congrArg List.reverse hm
    rw [List.reverse_reverse, ← List.map_reverse] at h'
    have := map_ok_transfer (locStep p)
      (fun (q : Nat × Nat) => (p.findLocation q.2).bind (Spec.locFramesLeafFirst p)) List.reverse _ _ h' (by
        intro a _ b hb
        simp only [locStep] at hb
        cases hf : p.findLocation a.2 with
        | none => simp [hf] at hb
        | some loc =>
          simp only [hf] at hb
          simp [locFrames_spec p loc b hb])
    have e : s.locationIDs.map (fun id => (p.findLocation id).bind (Spec.locFramesLeafFirst p))
        = (fss.reverse.map List.reverse).map some := by
      rw [← this, ← zipIdx_swap_map_snd (fun id => (p.findLocation id).bind (Spec.locFramesLeafFirst p)) s.locationIDs 0]
    rw [Spec.sampleFrames, (optMap_eq_some_iff _ _ _).2 e]
    simp only [Option.map_some, Option.some.injEq]
    rw [← h, List.reverse_flatten]
    simp [List.map_map, Function.comp_def]

theorem resolve_spec (p : Profile) (idx : Nat) (rs : List (Int × List Frame))
    (h : resolve p idx = .ok rs) : Spec.resolve p idx = some rs := by
  rw [resolve, mapO_eq_ok_iff] at h
  rw [Spec.resolve, optMap_eq_some_iff]
  have := map_ok_transfer _ (Spec.resolveOne p idx) id _ _ h (by
      intro s _ b hb
      simp only [sampleValue] at hb
      cases hv : s.values[idx]? with
      | none => simp [hv, bind, Outcome.bind] at hb
      | some v =>
        cases hf : sampleFrames p s with
        | err e => simp [hv, hf, bind, Outcome.bind] at hb
        | panic e => simp [hv, hf, bind, Outcome.bind] at hb
        | ok fs =>
          simp only [hv, hf, bind, Outcome.bind, pure, Outcome.ok.injEq] at hb
          simp [Spec.resolveOne, sampleFrames_spec p s fs hf, hv, ← hb])
  simpa using this

end PV.Stacks
