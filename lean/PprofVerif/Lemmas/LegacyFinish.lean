import PprofVerif.Lemmas.LegacyJava
/-!
Helper lemmas for C14: the assembled profile refers to the documented addresses —
location ids handed to the samples resolve to the raw (adjusted) addresses.
-/
namespace PV.Legacy
open PV

/-- address of the location with a given id -/
def addrOf (p : Profile) (id : Nat) : Option Nat := (p.locations.find? (·.id == id)).map (·.address)

theorem assignAll_length (ms : List Mapping) (fake : Option Nat) (addrs : List Nat) :
    (assignAll ms fake addrs).2.length = addrs.length := by
  induction addrs generalizing ms fake with
  | nil => rfl
  | cons a r ih => simp [assignAll, ih]

theorem remapMappingIDs_length (ms : List Mapping) (addrs : List Nat) :
    (remapMappingIDs ms addrs).2.length = addrs.length := by
  simp [remapMappingIDs, assignAll_length]

def mkLoc (p : (Nat × Nat) × Nat) : Location :=
  { id := p.2 + 1, mappingID := p.1.2, address := p.1.1, lines := [], isFolded := false }

theorem find_loc (pairs : List (Nat × Nat)) (k : Nat) (a : Nat) (ha : a ∈ pairs.map Prod.fst) :
    (((pairs.zipIdx k).map mkLoc).find? (·.id == (pairs.map Prod.fst).idxOf a + k + 1)).map (·.address) = some a := by
  induction pairs generalizing k with
  | nil => simp at ha
  | cons x ps ih =>
    obtain ⟨x1, x2⟩ := x
    simp only [List.map_cons, List.zipIdx_cons, List.find?_cons, List.idxOf_cons, mkLoc]
    by_cases hx : x1 = a
    · subst hx; simp
    · have ha' : a ∈ ps.map Prod.fst := by
        simp only [List.map_cons, List.mem_cons] at ha
        rcases ha with h | h
        · exact absurd h.symm hx
        · exact h
      have hne : (k + 1 == List.idxOf a (ps.map Prod.fst) + 1 + k + 1) = false := by
        simp only [beq_eq_false_iff_ne]; omega
      have hx' : (x1 == a) = false := by simp [hx]
      simp only [hx', cond_false, hne]
      have := ih (k + 1) ha'
      rw [show List.idxOf a (ps.map Prod.fst) + 1 + k + 1 = List.idxOf a (ps.map Prod.fst) + (k + 1) + 1 by omega]
      exact this

theorem finish_locations (h : Header) (tf fin : List RawSample) (parsed : List Mapping) :
    ∃ mapIdx : List Nat, mapIdx.length = (dedup (tf.flatMap (·.addrs))).length ∧
      (finish h tf fin parsed).locations = (((dedup (tf.flatMap (·.addrs))).zip mapIdx).zipIdx.map mkLoc) := by
  refine ⟨(remapMappingIDs (massageMappings parsed) (dedup (tf.flatMap (·.addrs)))).2, remapMappingIDs_length _ _, ?_⟩
  simp only [finish, mkLoc]
  rfl

/-- the id handed out for an address resolves to a location with exactly that address -/
theorem finish_addrOf (h : Header) (tf fin : List RawSample) (parsed : List Mapping) (a : Nat)
    (ha : a ∈ tf.flatMap (·.addrs)) :
    addrOf (finish h tf fin parsed) (idOf (dedup (tf.flatMap (·.addrs))) a) = some a := by
  obtain ⟨mapIdx, hlen, hl⟩ := finish_locations h tf fin parsed
  have hfst : ((dedup (tf.flatMap (·.addrs))).zip mapIdx).map Prod.fst = dedup (tf.flatMap (·.addrs)) :=
    List.map_fst_zip (by omega)
  have hmem : a ∈ ((dedup (tf.flatMap (·.addrs))).zip mapIdx).map Prod.fst := by
    rw [hfst]; exact (mem_dedup _ _).2 ha
  have := find_loc _ 0 a hmem
  rw [hfst] at this
  unfold addrOf idOf
  rw [hl]
  simpa using this

theorem finish_samples (h : Header) (tf fin : List RawSample) (parsed : List Mapping) :
    (finish h tf fin parsed).samples = fin.map (fun s =>
      { locationIDs := s.addrs.map (idOf (dedup (tf.flatMap (·.addrs)))), values := s.values,
        label := [], numLabel := s.numLabel, numUnit := [] }) := rfl

/-- every stack of a final sample resolves to its raw addresses (when they are in the table) -/
theorem finish_stack (h : Header) (tf fin : List RawSample) (parsed : List Mapping) (s : RawSample)
    (hs : ∀ a ∈ s.addrs, a ∈ tf.flatMap (·.addrs)) :
    (s.addrs.map (idOf (dedup (tf.flatMap (·.addrs))))).map (addrOf (finish h tf fin parsed)) = s.addrs.map some := by
  rw [List.map_map]
  apply List.map_congr_left
  intro a ha
  exact finish_addrOf h tf fin parsed a (hs a ha)

end PV.Legacy
