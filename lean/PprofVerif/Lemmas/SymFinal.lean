import PprofVerif.Lemmas.SymValid
/-!
Helper lemmas for C12: validity of a profile whose three tables were replaced; the shape of
`symbolize`'s result.  Core Lean only.
-/
namespace PV.Sym
open PV

theorem any_of_map_eq {α β : Type} (f : α → Nat) (g : β → Nat) (i : Nat) :
    ∀ (as : List α) (bs : List β), as.map f = bs.map g →
      as.any (fun a => f a == i) = bs.any (fun b => g b == i)
  | [], [], _ => rfl
  | [], _ :: _, h => by simp at h
  | _ :: _, [], h => by simp at h
  | a :: as, b :: bs, h => by
    simp only [List.map_cons, List.cons.injEq] at h
    simp only [List.any_cons, h.1, any_of_map_eq f g i as bs h.2]

theorem any_id_of_hasId (fs : List Function) (i : Nat) (h : HasId fs i) :
    fs.any (fun f => f.id == i) = true := by
  obtain ⟨f, hf, e⟩ := h
  exact List.any_eq_true.mpr ⟨f, hf, by simp [e]⟩

theorem idsNodup_iff (ids : List Nat) : idsNodup ids = true ↔ ids.Nodup ∧ 0 ∉ ids := by
  unfold idsNodup; exact decide_eq_true_iff

theorem good_of_valid (p : Profile) (hv : p.validB = true) : Good p.functions := by
  simp only [Profile.validB, Bool.and_eq_true, decide_eq_true_eq] at hv
  exact (idsNodup_iff _).mp hv.1.1.2

theorem locsIn_of_valid (p : Profile) (hv : p.validB = true) : LocsIn p.functions p.locations := by
  simp only [Profile.validB, Bool.and_eq_true, decide_eq_true_eq] at hv
  have h6 := hv.2
  intro l hl ln hln
  have h := List.all_eq_true.mp h6 l hl
  simp only [Bool.and_eq_true] at h
  have h2 := List.all_eq_true.mp h.2 ln hln
  simp only [Bool.and_eq_true] at h2
  obtain ⟨f, hf, e⟩ := List.any_eq_true.mp h2.2
  exact ⟨f, hf, by simpa using e⟩

/-- replacing the three tables keeps validity when ids of mappings and locations are the same
lists, every location keeps its mapping id, function ids are unique and non-zero and every line
refers to a function of the new table. -/
theorem validB_replace (p : Profile) (fs' : List Function) (locs' : List Location) (maps' : List Mapping)
    (hv : p.validB = true)
    (hm : maps'.map (·.id) = p.mappings.map (·.id))
    (hl : locs'.map (·.id) = p.locations.map (·.id))
    (hlm : ∀ l' ∈ locs', ∃ l ∈ p.locations, l'.mappingID = l.mappingID)
    (hg : Good fs') (hin : LocsIn fs' locs') :
    ({ p with functions := fs', locations := locs', mappings := maps' } : Profile).validB = true := by
  simp only [Profile.validB, Bool.and_eq_true, decide_eq_true_eq] at hv ⊢
  obtain ⟨⟨⟨⟨⟨h1, h2⟩, h3⟩, _h4⟩, h5⟩, h6⟩ := hv
  refine ⟨⟨⟨⟨⟨h1, ?_⟩, ?_⟩, ?_⟩, ?_⟩, ?_⟩
  · -- samples still refer to existing locations
    refine List.all_eq_true.mpr ?_
    intro s hs
    have h := List.all_eq_true.mp h2 s hs
    simp only [Bool.and_eq_true] at h ⊢
    refine ⟨h.1, List.all_eq_true.mpr ?_⟩
    intro id hid
    have h' := List.all_eq_true.mp h.2 id hid
    simp only [Bool.and_eq_true] at h' ⊢
    refine ⟨h'.1, ?_⟩
    rw [any_of_map_eq (fun l : Location => l.id) (fun l : Location => l.id) id locs' p.locations hl]
    exact h'.2
  · rw [hm]; exact h3
  · exact (idsNodup_iff _).mpr hg
  · rw [hl]; exact h5
  · refine List.all_eq_true.mpr ?_
    intro l' hl'
    obtain ⟨l, hl0, e⟩ := hlm l' hl'
    have h := List.all_eq_true.mp h6 l hl0
    simp only [Bool.and_eq_true] at h ⊢
    constructor
    · rw [e, any_of_map_eq (fun m : Mapping => m.id) (fun m : Mapping => m.id) l.mappingID maps' p.mappings hm]
      exact h.1
    · refine List.all_eq_true.mpr ?_
      intro ln hln
      have hid := hin l' hl' ln hln
      simp only [Bool.and_eq_true, bne_iff_ne, ne_eq]
      refine ⟨?_, any_id_of_hasId _ _ hid⟩
      intro h0
      obtain ⟨f, hf, ef⟩ := hid
      exact hg.2 (List.mem_map.mpr ⟨f, hf, by rw [ef, h0]⟩)

theorem good_demangle (filter : List DOpt → Str → Str) (force : Bool) (dm : DMode) (fs : List Function)
    (h : Good fs) : Good (demangle filter force dm fs) := by
  unfold Good; rw [demangle_map_id]; exact h

theorem hasId_demangle (filter : List DOpt → Str → Str) (force : Bool) (dm : DMode) (fs : List Function)
    (i : Nat) (h : HasId fs i) : HasId (demangle filter force dm fs) i := by
  obtain ⟨f, hf, e⟩ := h
  exact ⟨demangleOne filter force dm f, List.mem_map.mpr ⟨f, hf, rfl⟩,
    (demangleOne_frame filter force dm f).1.trans e⟩

theorem locsIn_demangle (filter : List DOpt → Str → Str) (force : Bool) (dm : DMode) (fs : List Function)
    (locs : List Location) (h : LocsIn fs locs) : LocsIn (demangle filter force dm fs) locs :=
  fun l hl ln hln => hasId_demangle filter force dm fs _ (h l hl ln hln)

/-- the function table `symbolize` returns, given the options parsed from the mode. -/
def finalFunctions {σ τ} (env : Env σ τ) (o : Opts) (sources : Sources) (p : Profile) (s : σ) (t : τ) :
    List Function :=
  if (symbolizeTables env o sources p s t).2.2.2.2 then (symbolizeTables env o sources p s t).2.1.functions
  else demangle env.filter o.force o.dmode (symbolizeTables env o sources p s t).2.1.functions

theorem symbolize_none {σ τ} (env : Env σ τ) (mode : Str) (sources : Sources) (p : Profile) (s : σ) (t : τ)
    (h : parseMode mode = none) :
    (symbolize env mode sources p s t).profile = p ∧ (symbolize env mode sources p s t).wrapped = false := by
  unfold symbolize; rw [h]; exact ⟨rfl, rfl⟩

theorem symbolize_some {σ τ} (env : Env σ τ) (mode : Str) (sources : Sources) (p : Profile) (s : σ) (t : τ)
    (o : Opts) (h : parseMode mode = some o) :
    (symbolize env mode sources p s t).profile =
      { p with functions := finalFunctions env o sources p s t,
               locations := (symbolizeTables env o sources p s t).2.2.1,
               mappings := (symbolizeTables env o sources p s t).2.2.2.1 } ∧
    (symbolize env mode sources p s t).wrapped = (symbolizeTables env o sources p s t).2.1.wrapped := by
  unfold symbolize finalFunctions; rw [h]; exact ⟨rfl, rfl⟩

end PV.Sym
