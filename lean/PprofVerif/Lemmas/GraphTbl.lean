import PprofVerif.Model.Graph
import Mathlib.Tactic.Ring
namespace PV.Graph
open PV.GSpec
variable {κ : Type} [DecidableEq κ]

/-! ### WD algebra -/
theorem WD.ext' {a b : WD} (h1 : a.w = b.w) (h2 : a.d = b.d) : a = b := by
  cases a; cases b; simp_all
@[simp] theorem WD.add_w (a b : WD) : (a + b).w = a.w + b.w := rfl
@[simp] theorem WD.add_d (a b : WD) : (a + b).d = a.d + b.d := rfl
@[simp] theorem WD.zero_w : (0 : WD).w = 0 := rfl
@[simp] theorem WD.zero_d : (0 : WD).d = 0 := rfl
@[simp] theorem WD.add_zero (a : WD) : a + 0 = a := WD.ext' (by simp) (by simp)
@[simp] theorem WD.zero_add (a : WD) : 0 + a = a := WD.ext' (by simp) (by simp)
theorem WD.add_assoc (a b c : WD) : a + b + c = a + (b + c) := WD.ext' (by simp; omega) (by simp; omega)
theorem WD.add_comm (a b : WD) : a + b = b + a := WD.ext' (by simp; omega) (by simp; omega)

/-! ### tables -/
theorem tget_tupd {α : Type} (t : List (κ × α)) (k k' : κ) (f : α → α) (d : α) :
    tget (tupd t k f d) k' d = if k = k' then f (tget t k d) else tget t k' d := by
  induction t with
  | nil => simp [tupd, tget]
  | cons hd tl ih =>
    obtain ⟨k0, v0⟩ := hd
    by_cases h0 : k0 = k
    · subst h0
      by_cases h1 : k0 = k' <;> simp [tupd, tget, h1]
    · by_cases h1 : k0 = k'
      · subst h1
        simp [tupd, tget, h0]
        intro h; exact absurd h.symm h0
      · simp [tupd, tget, h0, h1, ih]

theorem thas_tupd {α : Type} (t : List (κ × α)) (k k' : κ) (f : α → α) (d : α) :
    thas (tupd t k f d) k' = (thas t k' || decide (k = k')) := by
  induction t with
  | nil => simp [tupd, thas]
  | cons hd tl ih =>
    obtain ⟨k0, v0⟩ := hd
    by_cases h0 : k0 = k
    · subst h0
      by_cases h1 : k0 = k' <;> simp [tupd, thas, h1]
    · by_cases h1 : k0 = k'
      · subst h1
        simp [tupd, thas, h0]
      · simp [tupd, thas, h0, h1, ih]
end PV.Graph
