import PprofVerif.Lemmas.TrimTreeStep
import Mathlib.Data.List.Perm.Basic
/-!
The whole of TrimTree on a path-keyed forest: the loop never panics and ends in the specification
under the removed set; `RemoveRedundantEdges` then changes nothing (every node has at most one
in-edge, so no edge has a second way round).
-/
namespace PV.TrimTree
open PV PV.GSpec PV.Graph
variable {κ : Type} [DecidableEq κ]

/-- the nodes removed after the nodes `done` have been visited -/
def removedOf (K : List κ → Bool) (done : List (List κ)) : List κ → Bool :=
  fun x => decide (x ∈ done) && !K x

theorem removedOf_step (K : List κ → Bool) (done : List (List κ)) (cur : List κ) :
    (if K cur = true then removedOf K done else alsoRemoved (removedOf K done) cur) =
      removedOf K (done ++ [cur]) := by
  funext x
  unfold removedOf alsoRemoved
  by_cases hk : K cur = true
  · simp only [hk, if_true, List.mem_append, List.mem_singleton]
    by_cases hx : x = cur
    · subst hx; simp [hk]
    · simp [hx]
  · simp only [hk, Bool.false_eq_true, if_false, List.mem_append, List.mem_singleton]
    by_cases hx : x = cur
    · subst hx; simp [hk]
    · simp [hx]

/-- before anything is removed the specification is the original table -/
theorem specE_nothing_removed {E0 : ETable (List κ)} (hF : PathForest E0) (a b : List κ) :
    specE E0 (fun _ => false) a b = tfind E0 (a, b) := by
  unfold specE
  simp only [Bool.false_eq_true, if_false]
  cases hp : tfind E0 (b.dropLast, b) with
  | none =>
    simp only
    cases hab : tfind E0 (a, b) with
    | none => rfl
    | some e =>
      have := (hF.shape _ _ _ (mem_of_tfind hab)).2
      subst this
      rw [hp] at hab; exact absurd hab (by simp)
  | some e0 =>
    simp only
    have hsh := hF.shape _ _ _ (mem_of_tfind hp)
    rw [nearestKept_parent hsh.1 rfl]
    by_cases hab : a = b.dropLast
    · subst hab
      simp [hp]
    · have : ¬ some b.dropLast = some a := by rintro h; exact hab (Option.some.inj h).symm
      simp only [this, if_false]
      cases hab' : tfind E0 (a, b) with
      | none => rfl
      | some e => exact absurd (hF.shape _ _ _ (mem_of_tfind hab')).2 hab

theorem inv_initial {E0 : ETable (List κ)} (hF : PathForest E0) (K : List κ → Bool) :
    Inv E0 (removedOf K []) ⟨[], E0, E0⟩ := by
  have : removedOf K [] = fun _ => false := by funext x; simp [removedOf]
  rw [this]
  exact ⟨hF.nodup, hF.nodup, fun a b _ => (specE_nothing_removed hF a b).symm,
    fun a b _ => (specE_nothing_removed hF a b).symm⟩

theorem trimLoop_inv {E0 : ETable (List κ)} (hF : PathForest E0) (K : List κ → Bool)
    (nodes : List (List κ × NodeAcc)) : ∀ (done : List (List κ)) (st : TState (List κ)),
    Inv E0 (removedOf K done) st → (nodes.map Prod.fst).Nodup → (∀ n ∈ nodes.map Prod.fst, n ∉ done) →
    ∃ st', trimLoop K st nodes = .ok st' ∧ Inv E0 (removedOf K (done ++ nodes.map Prod.fst)) st' ∧
      st'.nodes = st.nodes ++ nodes.filter (fun c => K c.1) := by
  induction nodes with
  | nil => intro done st hI _ _; exact ⟨st, rfl, by simpa using hI, by simp⟩
  | cons cur r ih =>
    intro done st hI hnd hfresh
    rw [List.map_cons, List.nodup_cons] at hnd
    have hcur : removedOf K done cur.1 = false := by
      have := hfresh cur.1 (by simp)
      simp [removedOf, this]
    obtain ⟨st1, hs1, hI1, hn1⟩ := stepNode_inv hF K _ st cur hI hcur
    rw [removedOf_step] at hI1
    have hfresh' : ∀ n ∈ r.map Prod.fst, n ∉ done ++ [cur.1] := by
      intro n hn hm
      rcases List.mem_append.mp hm with h | h
      · exact hfresh n (by simp only [List.map_cons, List.mem_cons]; exact Or.inr hn) h
      · simp at h; subst h; exact hnd.1 hn
    obtain ⟨st2, hs2, hI2, hn2⟩ := ih (done ++ [cur.1]) st1 hI1 hnd.2 hfresh'
    refine ⟨st2, ?_, ?_, ?_⟩
    · simp only [trimLoop, hs1]; exact hs2
    · simpa using hI2
    · rw [hn2, hn1]
      by_cases hk : K cur.1 = true <;> simp [List.filter_cons, hk]

/-! ### RemoveRedundantEdges on a forest -/

theorem isRedundantEdge_single (ins : ETable κ) (e : (κ × κ) × EdgeAcc) (h : inEdges ins e.1.2 = [e]) :
    isRedundantEdge ins e.1.1 e.1.2 = .ok false := by
  unfold isRedundantEdge
  simp only [bfs, h, scanIn]
  simp [bfs]

theorem pruneIn_single (io : ETable κ × ETable κ) (e : (κ × κ) × EdgeAcc) (h : inEdges io.1 e.1.2 = [e]) :
    pruneIn [e] io = .ok io := by
  unfold pruneIn
  cases hr : e.2.residual with
  | false => simp
  | true => simp [isRedundantEdge_single io.1 e h, pruneIn]

theorem pruneNodes_forest (sortIn : ETable κ → ETable κ) (hsort : ∀ l, (sortIn l).Perm l)
    (io : ETable κ × ETable κ) : ∀ (l : List κ), (∀ n ∈ l, (inEdges io.1 n).length ≤ 1) →
    pruneNodes sortIn l io = .ok io := by
  intro l
  induction l with
  | nil => intro _; rfl
  | cons n r ih =>
    intro h
    have hn := h n List.mem_cons_self
    have hstep : pruneIn (sortIn (inEdges io.1 n)).reverse io = .ok io := by
      match hl : inEdges io.1 n, hn with
      | [], _ =>
        have : sortIn [] = ([] : ETable κ) := List.perm_nil.mp (hsort [])
        rw [this]; rfl
      | [e], _ =>
        have : sortIn [e] = [e] := List.perm_singleton.mp (hsort [e])
        rw [this]
        have hd : e.1.2 = n := by
          have : e ∈ inEdges io.1 n := by rw [hl]; exact List.mem_cons_self
          exact ((mem_inEdges _ _ _).mp this).2
        simp only [List.reverse_singleton]
        exact pruneIn_single io e (by rw [hd]; exact hl)
      | _ :: _ :: _, hn => simp at hn
    simp only [pruneNodes, hstep]
    exact ih (fun m hm => h m (List.mem_cons_of_mem _ hm))

theorem removeRedundantEdges_forest (sortIn : ETable κ → ETable κ) (hsort : ∀ l, (sortIn l).Perm l)
    (st : TState κ) (h : ∀ n ∈ st.nodes.map Prod.fst, (inEdges st.ins n).length ≤ 1) :
    removeRedundantEdges sortIn st = .ok st := by
  unfold removeRedundantEdges
  rw [pruneNodes_forest sortIn hsort (st.ins, st.outs) _ (fun n hn => h n (List.mem_reverse.mp hn))]

/-- in-edges of a node that has not been removed: at most one -/
theorem inEdges_le_one {E0 : ETable (List κ)} {R : List κ → Bool} {st : TState (List κ)}
    (hI : Inv E0 R st) (n : List κ) (hn : R n = false) : (inEdges st.ins n).length ≤ 1 := by
  rcases inEdges_of_inv hI n hn with ⟨h0, _⟩ | ⟨e, h1, _⟩
  · rw [h0]; simp
  · rw [h1]; simp

/-- TrimTree on a path-keyed forest, nodes visited in any duplicate-free order: no panic, the
result is the specification under the removed set, and the node list is the kept nodes in order. -/
theorem trimTree_forest {E0 : ETable (List κ)} (hF : PathForest E0)
    (sortIn : ETable (List κ) → ETable (List κ)) (hsort : ∀ l, (sortIn l).Perm l)
    (K : List κ → Bool) (nodes : List (List κ × NodeAcc)) (hnd : (nodes.map Prod.fst).Nodup) :
    ∃ st, trimTree sortIn K nodes E0 E0 = .ok st ∧
      Inv E0 (removedOf K (nodes.map Prod.fst)) st ∧ st.nodes = nodes.filter (fun c => K c.1) := by
  obtain ⟨st, hs, hI, hn⟩ := trimLoop_inv hF K nodes [] ⟨[], E0, E0⟩ (inv_initial hF K) hnd (by simp)
  simp only [List.nil_append] at hI hn
  refine ⟨st, ?_, hI, hn⟩
  unfold trimTree
  simp only [hs]
  apply removeRedundantEdges_forest sortIn hsort
  intro n hm
  apply inEdges_le_one hI
  rw [hn] at hm
  obtain ⟨c, hc, rfl⟩ := List.mem_map.mp hm
  have := (List.mem_filter.mp hc).2
  simp [removedOf, this]

end PV.TrimTree
