import PprofVerif.Model.Merge
import PprofVerif.Spec.Weight
import PprofVerif.Lemmas.MergeIntern
/-!
The sample memo of `mapSample` (`Merge.accumulate`): after any list of keyed samples went through
it, the table has one entry per key, the entry carries the element-wise sum of the values of all
samples with that key and the shape (locations, labels) of one of them, and no step panics.
Also the small algebra of value vectors (`Spec.addV`, `Spec.sumV`).
-/
namespace PV.Merge
open PV.Spec
open PV.Wire (InI64 two63)

/-! ### value vectors -/

def VecOK (n : Nat) (v : List Int) : Prop := v.length = n ∧ ∀ x ∈ v, InI64 x

theorem wrapI64_of_InI64 {x : Int} (h : InI64 x) : wrapI64 x = x := by
  unfold InI64 two63 at h; unfold wrapI64; omega

theorem wrapI64_InI64 (x : Int) : InI64 (wrapI64 x) := by
  unfold InI64 two63 wrapI64; omega

theorem wrapI64_add_assoc (a b c : Int) : wrapI64 (wrapI64 (a + b) + c) = wrapI64 (a + wrapI64 (b + c)) := by
  unfold wrapI64; omega

theorem addValues_eq_addV : ∀ (a b : List Int), a.length = b.length → addValues a b = addV a b
  | [], [], _ => rfl
  | [], _ :: _, h => by simp at h
  | _ :: _, [], h => by simp at h
  | a :: as, b :: bs, h => by
    simp only [addValues, addV, List.zipWith_cons_cons]
    rw [← addV, addValues_eq_addV as bs (by simpa using h)]

theorem addV_length (a b : List Int) : (addV a b).length = min a.length b.length := by
  simp [addV]

theorem addV_VecOK {n : Nat} {a b : List Int} (ha : a.length = n) (hb : b.length = n) : VecOK n (addV a b) := by
  refine ⟨by rw [addV_length]; omega, ?_⟩
  intro x hx
  unfold addV at hx
  obtain ⟨i, hi, rfl⟩ := List.mem_iff_getElem.mp hx
  simp only [List.getElem_zipWith]
  exact wrapI64_InI64 _

theorem zeroV_addV {n : Nat} {v : List Int} (h : VecOK n v) : addV (zeroV n) v = v := by
  obtain ⟨hl, hr⟩ := h
  subst hl
  induction v with
  | nil => rfl
  | cons x xs ih =>
    simp only [zeroV, List.length_cons, List.replicate_succ, addV, List.zipWith_cons_cons]
    rw [Int.zero_add, wrapI64_of_InI64 (hr x (by simp))]
    congr 1
    exact ih (fun y hy => hr y (List.mem_cons_of_mem _ hy))

theorem addV_zeroV {n : Nat} {v : List Int} (h : VecOK n v) : addV v (zeroV n) = v := by
  obtain ⟨hl, hr⟩ := h
  subst hl
  induction v with
  | nil => rfl
  | cons x xs ih =>
    simp only [zeroV, List.length_cons, List.replicate_succ, addV, List.zipWith_cons_cons]
    rw [Int.add_zero, wrapI64_of_InI64 (hr x (by simp))]
    congr 1
    exact ih (fun y hy => hr y (List.mem_cons_of_mem _ hy))

theorem zeroV_VecOK (n : Nat) : VecOK n (zeroV n) := by
  refine ⟨by simp [zeroV], ?_⟩
  intro x hx
  simp only [zeroV, List.mem_replicate] at hx
  rw [hx.2]; unfold InI64 two63; omega

theorem addV_assoc : ∀ (a b c : List Int), addV (addV a b) c = addV a (addV b c)
  | [], _, _ => by simp [addV]
  | _ :: _, [], _ => by simp [addV]
  | _ :: _, _ :: _, [] => by simp [addV]
  | a :: as, b :: bs, c :: cs => by
    have := addV_assoc as bs cs
    simp only [addV, List.zipWith_cons_cons] at this ⊢
    rw [this, wrapI64_add_assoc]

theorem addV_comm : ∀ (a b : List Int), addV a b = addV b a
  | [], [] => rfl
  | [], _ :: _ => by simp [addV]
  | _ :: _, [] => by simp [addV]
  | a :: as, b :: bs => by
    have := addV_comm as bs
    simp only [addV, List.zipWith_cons_cons] at this ⊢
    rw [this, Int.add_comm]

theorem foldl_addV_VecOK {n : Nat} (vs : List (List Int)) (acc : List Int) (ha : VecOK n acc)
    (h : ∀ v ∈ vs, v.length = n) : VecOK n (vs.foldl addV acc) := by
  induction vs generalizing acc with
  | nil => exact ha
  | cons v vs ih =>
    exact ih _ (addV_VecOK ha.1 (h v (by simp))) (fun w hw => h w (List.mem_cons_of_mem _ hw))

theorem sumV_VecOK {n : Nat} (vs : List (List Int)) (h : ∀ v ∈ vs, v.length = n) : VecOK n (sumV n vs) :=
  foldl_addV_VecOK vs _ (zeroV_VecOK n) h

theorem sumV_snoc (n : Nat) (vs : List (List Int)) (v : List Int) : sumV n (vs ++ [v]) = addV (sumV n vs) v := by
  simp [sumV, List.foldl_append]

theorem foldl_addV_eq {n : Nat} (vs : List (List Int)) (acc : List Int) (ha : VecOK n acc)
    (h : ∀ v ∈ vs, v.length = n) : vs.foldl addV acc = addV acc (sumV n vs) := by
  induction vs generalizing acc with
  | nil => simp [sumV, addV_zeroV ha]
  | cons v vs ih =>
    have hv := h v (by simp)
    have hvs : ∀ w ∈ vs, w.length = n := fun w hw => h w (List.mem_cons_of_mem _ hw)
    simp only [List.foldl_cons, sumV]
    rw [ih _ (addV_VecOK ha.1 hv) hvs, ih _ (addV_VecOK (zeroV_VecOK n).1 hv) hvs, addV_assoc, addV_assoc]
    congr 1
    rw [← addV_assoc, addV_comm (zeroV n) v, addV_assoc]
    congr 1
    exact (zeroV_addV (sumV_VecOK vs hvs)).symm ▸ rfl

/-- summing a concatenation = adding the partial sums. -/
theorem sumV_append {n : Nat} (as bs : List (List Int)) (ha : ∀ v ∈ as, v.length = n)
    (hb : ∀ v ∈ bs, v.length = n) : sumV n (as ++ bs) = addV (sumV n as) (sumV n bs) := by
  unfold sumV
  rw [List.foldl_append]
  exact foldl_addV_eq bs _ (sumV_VecOK as ha) hb

/-! ### the sample memo -/

/-- two remapped samples carry the same stack and labels (everything but the values). -/
def SameShape (a b : Sample) : Prop :=
  a.locationIDs = b.locationIDs ∧ a.label = b.label ∧ a.numLabel = b.numLabel ∧ a.numUnit = b.numUnit

structure AccInv (n : Nat) (tab done : List (Str × Sample)) : Prop where
  nodup : (tab.map (·.1)).Nodup
  keys : ∀ k, k ∈ tab.map (·.1) ↔ k ∈ done.map (·.1)
  vals : ∀ e ∈ tab, e.2.values = sumV n ((done.filter (fun x => decide (x.1 = e.1))).map (·.2.values))
  shape : ∀ e ∈ tab, ∃ x ∈ done, x.1 = e.1 ∧ SameShape e.2 x.2

theorem AccInv.len {n : Nat} {tab done : List (Str × Sample)} (h : AccInv n tab done)
    (hd : ∀ x ∈ done, x.2.values.length = n) : ∀ e ∈ tab, e.2.values.length = n := by
  intro e he
  rw [h.vals e he]
  refine (sumV_VecOK _ ?_).1
  intro v hv
  obtain ⟨x, hx, rfl⟩ := List.mem_map.mp hv
  exact hd x (List.mem_of_mem_filter hx)

theorem bump_fst (k : Str) (vs : List Int) (e : Str × Sample) : (bump k vs e).1 = e.1 := by
  unfold bump; split <;> rfl

theorem map_bump_keys (k : Str) (vs : List Int) (tab : List (Str × Sample)) :
    (tab.map (bump k vs)).map (·.1) = tab.map (·.1) := by
  rw [List.map_map]; congr 1; funext e; exact bump_fst k vs e

theorem mapSampleStep_inv {n : Nat} {tab done : List (Str × Sample)} (x : Str × Sample)
    (h : AccInv n tab done) (hd : ∀ y ∈ done, y.2.values.length = n) (hx : VecOK n x.2.values) :
    ∃ tab', mapSampleStep tab x = .ok tab' ∧ AccInv n tab' (done ++ [x]) := by
  have hlen := h.len hd
  have hnopanic : (tab.any fun e => decide (e.1 = x.1) && decide (e.2.values.length < x.2.values.length)) = false := by
    rw [List.any_eq_false]
    intro e he
    have := hlen e he
    simp only [Bool.and_eq_true, decide_eq_true_eq, not_and]
    intro _; rw [this, hx.1]; omega
  unfold mapSampleStep
  rw [hnopanic]
  simp only [Bool.false_eq_true, if_false]
  by_cases hk : x.1 ∈ tab.map (·.1)
  · rw [if_pos hk]
    refine ⟨_, rfl, ?_⟩
    constructor
    · rw [map_bump_keys]; exact h.nodup
    · intro k
      rw [map_bump_keys, h.keys, List.map_append, List.mem_append]
      constructor
      · intro hk'; exact Or.inl hk'
      · rintro (hk' | hk')
        · exact hk'
        · simp only [List.map_singleton, List.mem_singleton] at hk'
          rw [hk', ← h.keys]; exact hk
    · intro e' he'
      obtain ⟨e, he, rfl⟩ := List.mem_map.mp he'
      rw [bump_fst, List.filter_append]
      unfold bump
      by_cases hek : e.1 = x.1
      · rw [if_pos hek]
        simp only [List.filter_cons, hek, decide_true, if_true, List.filter_nil, List.map_append,
          List.map_cons, List.map_nil]
        rw [sumV_snoc, addValues_eq_addV _ _ (by rw [hlen e he, hx.1]), h.vals e he, hek]
      · rw [if_neg hek]
        have : decide (x.1 = e.1) = false := by simp [Ne.symm hek]
        simp only [List.filter_cons, this, List.filter_nil, List.append_nil, Bool.false_eq_true, if_false]
        exact h.vals e he
    · intro e' he'
      obtain ⟨e, he, rfl⟩ := List.mem_map.mp he'
      obtain ⟨y, hy, hy1, hy2⟩ := h.shape e he
      refine ⟨y, List.mem_append_left _ hy, ?_, ?_⟩
      · rw [bump_fst]; exact hy1
      · unfold bump; split
        · exact hy2
        · exact hy2
  · rw [if_neg hk]
    refine ⟨_, rfl, ?_⟩
    have hkd : x.1 ∉ done.map (·.1) := fun hh => hk ((h.keys _).mpr hh)
    constructor
    · rw [List.map_append, List.map_singleton, List.nodup_append]
      refine ⟨h.nodup, by simp, ?_⟩
      intro a ha b hb
      simp only [List.mem_singleton] at hb
      subst hb; intro hab; subst hab; exact hk ha
    · intro k
      simp only [List.map_append, List.mem_append, h.keys]
    · intro e he
      rw [List.filter_append]
      rcases List.mem_append.mp he with he | he
      · have hne : e.1 ≠ x.1 := by
          intro heq; apply hk; rw [← heq]; exact List.mem_map_of_mem he
        have : decide (x.1 = e.1) = false := by simp [Ne.symm hne]
        simp only [List.filter_cons, this, List.filter_nil, List.append_nil, Bool.false_eq_true, if_false]
        exact h.vals e he
      · simp only [List.mem_singleton] at he
        subst he
        have hnone : done.filter (fun y => decide (y.1 = e.1)) = [] := by
          rw [List.filter_eq_nil_iff]
          intro y hy
          simp only [decide_eq_true_eq]
          intro hye; apply hkd; rw [← hye]; exact List.mem_map_of_mem hy
        simp only [hnone, List.filter_cons, decide_true, if_true, List.filter_nil, List.nil_append,
          List.map_cons, List.map_nil, sumV, List.foldl_cons, List.foldl_nil]
        exact (zeroV_addV hx).symm
    · intro e he
      rcases List.mem_append.mp he with he | he
      · obtain ⟨y, hy, hy1, hy2⟩ := h.shape e he
        exact ⟨y, List.mem_append_left _ hy, hy1, hy2⟩
      · simp only [List.mem_singleton] at he
        subst he
        exact ⟨e, by simp, rfl, rfl, rfl, rfl, rfl⟩

theorem accumulate_inv {n : Nat} (xs : List (Str × Sample)) (tab done : List (Str × Sample))
    (h : AccInv n tab done) (hd : ∀ y ∈ done, y.2.values.length = n)
    (hxs : ∀ x ∈ xs, VecOK n x.2.values) :
    ∃ tab', accumulate tab xs = .ok tab' ∧ AccInv n tab' (done ++ xs) := by
  induction xs generalizing tab done with
  | nil => exact ⟨tab, rfl, by simpa using h⟩
  | cons x xs ih =>
    obtain ⟨t1, h1, hinv⟩ := mapSampleStep_inv x h hd (hxs x (by simp))
    have hd' : ∀ y ∈ done ++ [x], y.2.values.length = n := by
      intro y hy
      rcases List.mem_append.mp hy with hy | hy
      · exact hd y hy
      · simp only [List.mem_singleton] at hy; subst hy; exact (hxs y (by simp)).1
    obtain ⟨t2, h2, hinv2⟩ := ih t1 (done ++ [x]) hinv hd' (fun y hy => hxs y (List.mem_cons_of_mem _ hy))
    refine ⟨t2, ?_, by simpa using hinv2⟩
    simp only [accumulate, h1]
    exact h2

/-- **the sample memo conserves**: one entry per key; its values are the sum over all samples
fed in under that key; its shape is that of one of them; and no `ss.Value[i] += v` panics. -/
theorem accumulate_spec {n : Nat} (xs : List (Str × Sample)) (hxs : ∀ x ∈ xs, VecOK n x.2.values) :
    ∃ tab, accumulate [] xs = .ok tab ∧ AccInv n tab xs := by
  have h0 : AccInv n [] ([] : List (Str × Sample)) :=
    ⟨by simp, by simp, by simp, by simp⟩
  simpa using accumulate_inv xs [] [] h0 (by simp) hxs

end PV.Merge

namespace PV.Merge
open PV.Spec
open PV.Wire (InI64 two63)

theorem filter_key_eq_singleton {α κ : Type} [DecidableEq κ] (f : α → κ) :
    ∀ (tab : List α) (e0 : α), (tab.map f).Nodup → e0 ∈ tab →
      tab.filter (fun e => decide (f e = f e0)) = [e0]
  | [], _, _, h => by cases h
  | x :: xs, e0, hn, hm => by
    rw [List.map_cons, List.nodup_cons] at hn
    rcases List.mem_cons.mp hm with rfl | hm'
    · have : xs.filter (fun e => decide (f e = f e0)) = [] := by
        rw [List.filter_eq_nil_iff]
        intro y hy
        simp only [decide_eq_true_eq]
        intro hye; exact hn.1 (hye ▸ List.mem_map_of_mem hy)
      simp [this]
    · have hne : f x ≠ f e0 := fun h => hn.1 (h ▸ List.mem_map_of_mem hm')
      simp only [List.filter_cons, hne, decide_false, Bool.false_eq_true, if_false]
      exact filter_key_eq_singleton f xs e0 hn.2 hm'

theorem nodup_map_of_inj_on {α κ ι : Type} (f : α → κ) (g : α → ι) :
    ∀ (tab : List α), (tab.map f).Nodup → (∀ a ∈ tab, ∀ b ∈ tab, g a = g b → f a = f b) →
      (tab.map g).Nodup
  | [], _, _ => by simp
  | e :: es, hnd, h => by
    rw [List.map_cons, List.nodup_cons] at hnd ⊢
    refine ⟨?_, nodup_map_of_inj_on f g es hnd.2
      (fun a ha b hb => h a (List.mem_cons_of_mem _ ha) b (List.mem_cons_of_mem _ hb))⟩
    intro hm
    obtain ⟨e', he', heq⟩ := List.mem_map.mp hm
    have := h e (by simp) e' (List.mem_cons_of_mem _ he') heq.symm
    exact hnd.1 (this ▸ List.mem_map_of_mem he')

/-- **Conservation for the sample-level merge, given a key scheme that is injective on
identities** (DESIGN `mergeWith_conserves`).  `ident` is any notion of identity of a remapped
sample that ignores the values; if on the samples fed in "same concrete key ⇔ same identity",
then the memo ends with each identity at most once and, for every identity, exactly the sum of
the values fed in under it. -/
theorem accumulate_conserves {ι : Type} [DecidableEq ι] {n : Nat} (xs : List (Str × Sample))
    (ident : Sample → ι) (hshape : ∀ a b, SameShape a b → ident a = ident b)
    (hinj : ∀ x ∈ xs, ∀ y ∈ xs, (x.1 = y.1 ↔ ident x.2 = ident y.2))
    (hxs : ∀ x ∈ xs, VecOK n x.2.values) :
    ∃ tab, accumulate [] xs = .ok tab ∧
      (tab.map (fun e => ident e.2)).Nodup ∧
      (∀ e ∈ tab, ∃ x ∈ xs, x.1 = e.1 ∧ SameShape e.2 x.2) ∧
      ∀ i, sumV n ((tab.filter (fun e => decide (ident e.2 = i))).map (·.2.values)) =
           sumV n ((xs.filter (fun x => decide (ident x.2 = i))).map (·.2.values)) := by
  obtain ⟨tab, hok, hinv⟩ := accumulate_spec xs hxs
  -- identity of an entry = identity of the samples fed in under its key
  have hid : ∀ e ∈ tab, ∀ x ∈ xs, (x.1 = e.1 ↔ ident x.2 = ident e.2) := by
    intro e he x hx
    obtain ⟨y, hy, hy1, hy2⟩ := hinv.shape e he
    rw [hshape _ _ hy2, ← hy1]
    exact hinj x hx y hy
  have hkeyinj : ∀ e ∈ tab, ∀ e' ∈ tab, ident e.2 = ident e'.2 → e.1 = e'.1 := by
    intro e he e' he' h
    obtain ⟨y, hy, hy1, hy2⟩ := hinv.shape e he
    have := (hid e' he' y hy).mpr (by rw [← hshape _ _ hy2]; exact h)
    rw [← hy1, this]
  refine ⟨tab, hok, ?_, hinv.shape, ?_⟩
  · -- identities are pairwise distinct because keys are
    exact nodup_map_of_inj_on (fun e : Str × Sample => e.1) (fun e => ident e.2) tab hinv.nodup hkeyinj
  · intro i
    by_cases hex : ∃ e ∈ tab, ident e.2 = i
    · obtain ⟨e0, he0, rfl⟩ := hex
      have h1 : tab.filter (fun e => decide (ident e.2 = ident e0.2)) = [e0] := by
        have := filter_key_eq_singleton (fun e : Str × Sample => e.1) tab e0 hinv.nodup he0
        rw [← this]
        apply List.filter_congr
        intro e he
        simp only [decide_eq_decide]
        constructor
        · intro h; exact hkeyinj e he e0 he0 h
        · intro h
          obtain ⟨y, hy, hy1, hy2⟩ := hinv.shape e he
          rw [hshape _ _ hy2]
          exact (hid e0 he0 y hy).mp (by rw [hy1]; exact h)
      have h2 : xs.filter (fun x => decide (ident x.2 = ident e0.2)) =
          xs.filter (fun x => decide (x.1 = e0.1)) := by
        apply List.filter_congr
        intro x hx
        simp only [decide_eq_decide]
        exact (hid e0 he0 x hx).symm
      rw [h1, h2, ← hinv.vals e0 he0]
      simp only [List.map_cons, List.map_nil, sumV, List.foldl_cons, List.foldl_nil]
      apply zeroV_addV
      rw [hinv.vals e0 he0]
      apply sumV_VecOK
      intro v hv
      obtain ⟨x, hx, rfl⟩ := List.mem_map.mp hv
      exact (hxs x (List.mem_of_mem_filter hx)).1
    · have h1 : tab.filter (fun e => decide (ident e.2 = i)) = [] := by
        rw [List.filter_eq_nil_iff]
        intro e he
        simp only [decide_eq_true_eq]
        intro h; exact hex ⟨e, he, h⟩
      have h2 : xs.filter (fun x => decide (ident x.2 = i)) = [] := by
        rw [List.filter_eq_nil_iff]
        intro x hx
        simp only [decide_eq_true_eq]
        intro h
        have hk : x.1 ∈ tab.map (·.1) := (hinv.keys _).mpr (List.mem_map_of_mem hx)
        obtain ⟨e, he, hek⟩ := List.mem_map.mp hk
        exact hex ⟨e, he, by rw [← (hid e he x hx).mp hek.symm]; exact h⟩
      rw [h1, h2]

end PV.Merge
