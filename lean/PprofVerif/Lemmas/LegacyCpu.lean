import PprofVerif.Lemmas.LegacyThread
import PprofVerif.Model.LegacyCpu
/-!
Helper lemmas for C14: binary CPU profiles — `parseCPU (printCpu d) = ok (expectedCpu d)`.
-/
namespace PV.Legacy
open PV

/-! ### words -/
theorem leBytes_length (k n : Nat) : (leBytes k n).length = k := by
  induction k generalizing n with
  | zero => rfl
  | succ k ih => simp [leBytes, ih]

theorem leValue_leBytes (k n : Nat) : leValue (leBytes k n) = n % 256 ^ k := by
  induction k generalizing n with
  | zero => simp [leBytes, leValue, Nat.mod_one]
  | succ k ih =>
    simp only [leBytes, leValue, ih, UInt8.toNat_ofNat']
    have h1 : n % 256 % 2 ^ 8 = n % 256 := by omega
    rw [h1, Nat.pow_succ, Nat.mul_comm (256 ^ k) 256, Nat.mod_mul]

def wordLen (w64 : Bool) : Nat := if w64 then 8 else 4
def wordBound (w64 : Bool) : Nat := if w64 then two64 else two32

theorem word_length (big w64 : Bool) (n : Nat) : (word big w64 n).length = wordLen w64 := by
  unfold word wordLen
  cases big <;> simp [leBytes_length]

theorem getWord_word (big w64 : Bool) (n : Nat) (rest : Str) (h : n < wordBound w64) :
    getWord big w64 (word big w64 n ++ rest) = some (n, rest) := by
  have hl := word_length big w64 n
  unfold getWord
  have hk : (if w64 = true then 8 else 4) = wordLen w64 := rfl
  rw [hk]
  have hlen : ¬ (word big w64 n ++ rest).length < wordLen w64 := by simp [hl]
  simp only [hlen, if_false, List.take_left' hl, List.drop_left' hl]
  have hv : leValue (if big = true then (word big w64 n).reverse else word big w64 n) = n := by
    have hb : n % 256 ^ (if w64 = true then 8 else 4) = n := by
      apply Nat.mod_eq_of_lt
      unfold wordBound at h
      cases w64 <;> simpa using h
    cases big <;> simp [word, leValue_leBytes, hb]
  rw [hv]

theorem getWord_length {big w64 : Bool} {b : Str} {n : Nat} {r : Str} (h : getWord big w64 b = some (n, r)) :
    b.length = wordLen w64 + r.length := by
  unfold getWord at h
  have hk : (if w64 = true then 8 else 4) = wordLen w64 := rfl
  rw [hk] at h
  by_cases hlen : b.length < wordLen w64
  · simp [hlen] at h
  · simp only [hlen, if_false, Option.some.injEq, Prod.mk.injEq] at h
    rw [← h.2, List.length_drop]; omega

/-! ### a wrong decoder does not recognise the header -/
theorem getWord_chunk (big w64 : Bool) (p T : Str) (hp : p.length = wordLen w64) :
    getWord big w64 (p ++ T) = some (leValue (if big then p.reverse else p), T) := by
  unfold getWord
  have hk : (if w64 = true then 8 else 4) = wordLen w64 := rfl
  rw [hk]
  have hlen : ¬ (p ++ T).length < wordLen w64 := by simp [hp]
  simp only [hlen, if_false, List.take_left' hp, List.drop_left' hp]

theorem cpuHeaderWords_none (big w64 : Bool) (p1 p2 T : Str) (h1 : p1.length = wordLen w64) (h2 : p2.length = wordLen w64)
    (hv : ¬ (leValue (if big then p1.reverse else p1) = 0 ∧ leValue (if big then p2.reverse else p2) = 3)) :
    cpuHeaderWords big w64 (p1 ++ (p2 ++ T)) = none := by
  unfold cpuHeaderWords
  rw [getWord_chunk big w64 p1 _ h1]
  simp only [Option.bind_eq_bind, Option.bind_some]
  rw [getWord_chunk big w64 p2 _ h2]
  simp only [Option.bind_some]
  cases getWord big w64 T with
  | none => rfl
  | some x3 =>
    obtain ⟨n3, b3⟩ := x3
    simp only [Option.bind_some]
    cases getWord big w64 b3 with
    | none => rfl
    | some x4 =>
      obtain ⟨n4, b4⟩ := x4
      simp only [Option.bind_some]
      cases getWord big w64 b4 with
      | none => rfl
      | some x5 =>
        obtain ⟨n5, b5⟩ := x5
        simp only [Option.bind_some]
        have : ¬ ((leValue (if big then p1.reverse else p1) == 0 && leValue (if big then p2.reverse else p2) == 3 &&
            (n3 == 0 || n3 == 1) && decide (n4 > 0) && n5 == 0) = true) := by
          intro hc
          simp only [Bool.and_eq_true, beq_iff_eq] at hc
          exact hv ⟨hc.1.1.1.1, hc.1.1.1.2⟩
        simp [this]


/-! ### the right decoder -/
theorem words_cons (big w64 : Bool) (n : Nat) (ns : List Nat) :
    words big w64 (n :: ns) = word big w64 n ++ words big w64 ns := by simp [words]
theorem words_nil (big w64 : Bool) : words big w64 [] = [] := rfl
theorem words_append (big w64 : Bool) (a b : List Nat) :
    words big w64 (a ++ b) = words big w64 a ++ words big w64 b := by simp [words]

theorem words_length (big w64 : Bool) (ns : List Nat) : (words big w64 ns).length = wordLen w64 * ns.length := by
  induction ns with
  | nil => simp [words]
  | cons n ns ih => rw [words_cons, List.length_append, word_length, ih, List.length_cons, Nat.mul_succ, Nat.add_comm]

theorem wordBound_pos (w64 : Bool) : 3 < wordBound w64 := by cases w64 <;> decide

theorem cpuHeaderWords_print (big w64 : Bool) (period : Nat) (R : Str) (hp : 0 < period) (hpb : period < wordBound w64) :
    cpuHeaderWords big w64 (words big w64 [0, 3, 0, period, 0] ++ R) = some (false, period, R) := by
  have h0 : 0 < wordBound w64 := by have := wordBound_pos w64; omega
  have h3 : 3 < wordBound w64 := wordBound_pos w64
  unfold cpuHeaderWords
  simp only [words_cons, words_nil, List.append_nil, List.append_assoc]
  rw [getWord_word big w64 0 _ h0]
  simp only [Option.bind_eq_bind, Option.bind_some]
  rw [getWord_word big w64 3 _ h3]
  simp only [Option.bind_some]
  rw [getWord_word big w64 0 _ h0]
  simp only [Option.bind_some]
  rw [getWord_word big w64 period _ hpb]
  simp only [Option.bind_some]
  rw [getWord_word big w64 0 _ h0]
  simp [hp]

theorem readAddrs_words (big w64 : Bool) (as : List Nat) (R : Str) (h : ∀ a ∈ as, a < wordBound w64) :
    readAddrs big w64 as.length (words big w64 as ++ R) = (as, R) := by
  induction as with
  | nil => rfl
  | cons a as ih =>
    simp only [List.length_cons, readAddrs, words_cons, List.append_assoc]
    rw [getWord_word big w64 a _ (h a (by simp))]
    simp only [ih (fun x hx => h x (by simp [hx]))]

theorem word_ne_nil (big w64 : Bool) (n : Nat) : word big w64 n ≠ [] := by
  intro e
  have := word_length big w64 n
  rw [e] at this
  unfold wordLen at this
  cases w64 <;> simp at this

theorem two32_le_wordBound (w64 : Bool) : two32 ≤ wordBound w64 := by cases w64 <;> decide

theorem cpuSamplesLoop_rec (big w64 : Bool) (mk : Nat → List Nat → RawSample) (f : Nat) (r : CpuRec)
    (hc : r.count < wordBound w64) (hl : r.addrs.length < two32) (ha : ∀ a ∈ r.addrs, a < wordBound w64)
    (hne : ¬ (r.count = 0 ∧ r.addrs = [0])) (R : Str) (acc : List RawSample) :
    cpuSamplesLoop big w64 mk (f+1) (words big w64 r.words ++ R) acc
      = cpuSamplesLoop big w64 mk f R (mk r.count r.addrs :: acc) := by
  have hnonempty : (words big w64 r.words ++ R).isEmpty = false := by
    simp only [CpuRec.words, words_cons, List.append_assoc]
    cases hq : word big w64 r.count with
    | nil => exact absurd hq (word_ne_nil _ _ _)
    | cons _ _ => rfl
  rw [cpuSamplesLoop]
  simp only [hnonempty, Bool.false_eq_true, if_false]
  simp only [CpuRec.words, words_cons, List.append_assoc]
  rw [getWord_word big w64 r.count _ hc]
  simp only []
  rw [getWord_word big w64 r.addrs.length _ (Nat.lt_of_lt_of_le hl (two32_le_wordBound w64))]
  simp only []
  have hlen : ¬ (r.addrs.length > (words big w64 r.addrs ++ R).length / 4) := by
    rw [List.length_append, words_length]
    have : 4 ≤ wordLen w64 := by unfold wordLen; cases w64 <;> simp
    have h1 : 4 * r.addrs.length ≤ wordLen w64 * r.addrs.length := Nat.mul_le_mul_right _ this
    omega
  simp only [hlen, if_false, readAddrs_words big w64 r.addrs R ha]
  have heod : (r.count == 0 && r.addrs.length == 1 && r.addrs == [0]) = false := by
    by_cases h1 : r.count = 0
    · by_cases h2 : r.addrs = [0]
      · exact absurd ⟨h1, h2⟩ hne
      · simp [h2]
    · simp [h1]
  simp only [heod, Bool.false_eq_true, if_false]

theorem cpuSamplesLoop_recs (big w64 : Bool) (mk : Nat → List Nat → RawSample) (rs : List CpuRec)
    (h : ∀ r ∈ rs, r.count < wordBound w64 ∧ r.addrs.length < two32 ∧ (∀ a ∈ r.addrs, a < wordBound w64) ∧ ¬ (r.count = 0 ∧ r.addrs = [0]))
    (f : Nat) (T : Str) (acc : List RawSample) :
    cpuSamplesLoop big w64 mk (f + rs.length) (words big w64 (rs.flatMap CpuRec.words) ++ T) acc
      = cpuSamplesLoop big w64 mk f T ((rs.map (fun r => mk r.count r.addrs)).reverse ++ acc) := by
  induction rs generalizing acc with
  | nil => simp [words]
  | cons r rs ih =>
    obtain ⟨h1, h2, h3, h4⟩ := h r (by simp)
    have hlen : f + (r :: rs).length = (f + rs.length) + 1 := by simp; omega
    rw [hlen, List.flatMap_cons, words_append, List.append_assoc,
      cpuSamplesLoop_rec big w64 mk _ r h1 h2 h3 h4, ih (fun x hx => h x (by simp [hx]))]
    simp

theorem cpuSamplesLoop_eod (big w64 : Bool) (mk : Nat → List Nat → RawSample) (f : Nat) (text : Str) (acc : List RawSample) :
    cpuSamplesLoop big w64 mk (f+1) (words big w64 [0, 1, 0] ++ text) acc = .ok (acc.reverse, text) := by
  have h0 : 0 < wordBound w64 := by have := wordBound_pos w64; omega
  have h1 : 1 < wordBound w64 := by have := wordBound_pos w64; omega
  have hnonempty : (words big w64 [0, 1, 0] ++ text).isEmpty = false := by
    simp only [words_cons, List.append_assoc]
    cases hq : word big w64 0 with
    | nil => exact absurd hq (word_ne_nil _ _ _)
    | cons _ _ => rfl
  rw [cpuSamplesLoop]
  simp only [hnonempty, Bool.false_eq_true, if_false]
  have e : words big w64 [0, 1, 0] ++ text = word big w64 0 ++ (word big w64 1 ++ (words big w64 [0] ++ text)) := by
    simp only [words_cons, words_nil, List.append_nil, List.append_assoc]
  rw [e, getWord_word big w64 0 _ h0]
  simp only []
  rw [getWord_word big w64 1 _ h1]
  simp only []
  have hlen : ¬ (1 > (words big w64 [0] ++ text).length / 4) := by
    rw [List.length_append, words_length]
    have : 4 ≤ wordLen w64 := by unfold wordLen; cases w64 <;> simp
    simp only [List.length_cons, List.length_nil]
    omega
  have hr := readAddrs_words big w64 [0] text (by intro a ha; simp at ha; subst ha; exact h0)
  simp only [List.length_cons, List.length_nil] at hr
  simp only [hlen, if_false, hr]
  simp

theorem cpuSamplesLoop_end (big w64 : Bool) (mk : Nat → List Nat → RawSample) (f : Nat) (acc : List RawSample) :
    cpuSamplesLoop big w64 mk (f+1) [] acc = .ok (acc.reverse, []) := by
  simp [cpuSamplesLoop]

theorem words_recs_length (big w64 : Bool) (rs : List CpuRec) :
    rs.length ≤ (words big w64 (rs.flatMap CpuRec.words)).length := by
  rw [words_length]
  have h4 : 1 ≤ wordLen w64 := by unfold wordLen; cases w64 <;> simp
  have : rs.length ≤ (rs.flatMap CpuRec.words).length := by
    induction rs with
    | nil => simp
    | cons r rs ih =>
      simp only [List.flatMap_cons, List.length_append, CpuRec.words, List.length_cons]
      omega
  calc rs.length ≤ (rs.flatMap CpuRec.words).length := this
    _ = 1 * (rs.flatMap CpuRec.words).length := by omega
    _ ≤ wordLen w64 * (rs.flatMap CpuRec.words).length := Nat.mul_le_mul_right _ h4


/-! ### the whole document -/
def CpuDoc.text (d : CpuDoc) : Str :=
  if d.eod then (match d.map with | none => [] | some m => unlines m.bodyLines) else []

/-- what follows the header, with the text part `T` -/
def CpuDoc.bodyT (d : CpuDoc) (T : Str) : Str :=
  words d.big d.w64 (d.recs.flatMap CpuRec.words) ++ (words d.big d.w64 (if d.eod then [0, 1, 0] else []) ++ T)

def CpuDoc.body (d : CpuDoc) : Str := d.bodyT d.text

theorem printCpu_eq (d : CpuDoc) : printCpu d = words d.big d.w64 [0, 3, 0, d.period, 0] ++ d.body := by
  unfold printCpu CpuDoc.body CpuDoc.bodyT CpuDoc.text
  simp only [words_append, List.append_assoc]
  cases d.eod <;> cases d.map <;> rfl

theorem printCpu_eq2 (d : CpuDoc) :
    printCpu d = word d.big d.w64 0 ++ (word d.big d.w64 3 ++ (words d.big d.w64 [0, d.period, 0] ++ d.body)) := by
  rw [printCpu_eq]
  simp only [words_cons, words_nil, List.append_nil, List.append_assoc]

theorem cpuProfile_bodyT (d : CpuDoc) (h : d.wf = true) (T : Str) (hE : d.eod = false → T = [])
    (hT : parseProcMaps (splitLines T) = (if d.eod then tailMappings d.map else [])) :
    cpuProfile d.big d.w64 d.period (d.bodyT T) = .ok (expectedCpu d) := by
  simp only [CpuDoc.wf, Bool.and_eq_true, decide_eq_true_eq, List.all_eq_true, Bool.not_eq_true',
    Bool.and_eq_false_iff, beq_eq_false_iff_ne, ne_eq] at h
  obtain ⟨⟨⟨hp, hpb⟩, hrecs⟩, hmap⟩ := h
  have hb : d.wordBound = wordBound d.w64 := rfl
  have hrecs' : ∀ r ∈ d.recs, r.count < wordBound d.w64 ∧ r.addrs.length < two32 ∧ (∀ a ∈ r.addrs, a < wordBound d.w64) ∧
      ¬ (r.count = 0 ∧ r.addrs = [0]) := by
    intro r hr
    have := hrecs r hr
    rw [hb] at this
    refine ⟨this.1.1.1, this.1.1.2, this.1.2, ?_⟩
    intro hc
    rcases this.2 with h1 | h1
    · exact h1 hc.1
    · exact h1 hc.2
  unfold cpuProfile
  have hfuel : (d.bodyT T).length + 1 = ((d.bodyT T).length + 1 - d.recs.length) + d.recs.length := by
    have := words_recs_length d.big d.w64 d.recs
    unfold CpuDoc.bodyT
    simp only [List.length_append]; omega
  have hpos : ∃ f, (d.bodyT T).length + 1 - d.recs.length = f + 1 := by
    have := words_recs_length d.big d.w64 d.recs
    refine ⟨(d.bodyT T).length - d.recs.length, ?_⟩
    unfold CpuDoc.bodyT
    simp only [List.length_append]; omega
  obtain ⟨f, hf⟩ := hpos
  rw [hfuel, hf]
  rw [show d.bodyT T = words d.big d.w64 (d.recs.flatMap CpuRec.words) ++
    (words d.big d.w64 (if d.eod then [0, 1, 0] else []) ++ T) from rfl]
  rw [cpuSamplesLoop_recs d.big d.w64 (cpuSample d.period) d.recs hrecs']
  simp only [List.append_nil]
  unfold expectedCpu
  cases heod : d.eod with
  | false =>
    rw [hE heod]
    simp only [Bool.false_eq_true, if_false, words_nil, List.append_nil]
    rw [cpuSamplesLoop_end]
    simp [splitLines, splitLinesAux]
  | true =>
    simp only [if_true]
    rw [cpuSamplesLoop_eod]
    simp only [List.reverse_reverse, hT, heod, if_true]

theorem cpuProfile_body (d : CpuDoc) (h : d.wf = true) :
    cpuProfile d.big d.w64 d.period d.body = .ok (expectedCpu d) := by
  have hmap : ∀ m, d.map = some m → d.eod = true ∧ m.wf = true := by
    intro m hm
    simp only [CpuDoc.wf, Bool.and_eq_true] at h
    have := h.2; rw [hm] at this; simpa using this
  apply cpuProfile_bodyT d h d.text
  · intro he; simp [CpuDoc.text, he]
  · unfold CpuDoc.text
    cases heod : d.eod with
    | false => simp [splitLines, splitLinesAux]
    | true =>
      cases hm : d.map with
      | none => simp [splitLines, splitLinesAux, tailMappings]
      | some m =>
        simp only [if_true, tailMappings]
        rw [splitLines_unlines _ (LineOK_bodyLines (hmap m hm).2), parseProcMaps_bodyLines m (hmap m hm).2]

theorem parseCPUWith_text (java : Bool → Bool → Nat → Str → Outcome Profile) (d : CpuDoc) (h : d.wf = true)
    (B : Str) (hbody : cpuProfile d.big d.w64 d.period B = .ok (expectedCpu d)) :
    parseCPUWith java (words d.big d.w64 [0, 3, 0, d.period, 0] ++ B) = .ok (expectedCpu d) := by
  have hwf := h
  simp only [CpuDoc.wf, Bool.and_eq_true, decide_eq_true_eq] at h
  obtain ⟨⟨⟨hp, hpb⟩, _⟩, _⟩ := h
  have hb : d.wordBound = wordBound d.w64 := rfl
  rw [hb] at hpb
  have hright : cpuHeaderWords d.big d.w64 (words d.big d.w64 [0, 3, 0, d.period, 0] ++ B) = some (false, d.period, B) :=
    cpuHeaderWords_print d.big d.w64 d.period B hp hpb
  have e : words d.big d.w64 [0, 3, 0, d.period, 0] ++ B =
      word d.big d.w64 0 ++ (word d.big d.w64 3 ++ (words d.big d.w64 [0, d.period, 0] ++ B)) := by
    simp only [words_cons, words_nil, List.append_nil, List.append_assoc]
  unfold parseCPUWith
  cases hbig : d.big <;> cases hw : d.w64 <;> rw [hbig, hw] at hright hbody e
  · -- 32-bit little endian: the first decoder
    generalize hX : words false false [0, 3, 0, d.period, 0] ++ B = X at hright e ⊢
    simp only [hright, hbody]
  · -- 64-bit little endian: 32l and 32b fail on the second word
    generalize hX : words false true [0, 3, 0, d.period, 0] ++ B = X at hright e ⊢
    have w1 : cpuHeaderWords false false X = none := by
      rw [e]
      exact cpuHeaderWords_none false false [0, 0, 0, 0] [0, 0, 0, 0] ([3, 0, 0, 0, 0, 0, 0, 0] ++ _) rfl rfl (by decide)
    have w2 : cpuHeaderWords true false X = none := by
      rw [e]
      exact cpuHeaderWords_none true false [0, 0, 0, 0] [0, 0, 0, 0] ([3, 0, 0, 0, 0, 0, 0, 0] ++ _) rfl rfl (by decide)
    simp only [w1, w2, hright, hbody]
  · -- 32-bit big endian: 32l reads 0x03000000
    generalize hX : words true false [0, 3, 0, d.period, 0] ++ B = X at hright e ⊢
    have w1 : cpuHeaderWords false false X = none := by
      rw [e]
      exact cpuHeaderWords_none false false [0, 0, 0, 0] [0, 0, 0, 3] _ rfl rfl (by decide)
    simp only [w1, hright, hbody]
  · -- 64-bit big endian
    generalize hX : words true true [0, 3, 0, d.period, 0] ++ B = X at hright e ⊢
    have w1 : cpuHeaderWords false false X = none := by
      rw [e]
      exact cpuHeaderWords_none false false [0, 0, 0, 0] [0, 0, 0, 0] ([0, 0, 0, 0, 0, 0, 0, 3] ++ _) rfl rfl (by decide)
    have w2 : cpuHeaderWords true false X = none := by
      rw [e]
      exact cpuHeaderWords_none true false [0, 0, 0, 0] [0, 0, 0, 0] ([0, 0, 0, 0, 0, 0, 0, 3] ++ _) rfl rfl (by decide)
    have w3 : cpuHeaderWords false true X = none := by
      rw [e]
      exact cpuHeaderWords_none false true [0, 0, 0, 0, 0, 0, 0, 0] [0, 0, 0, 0, 0, 0, 0, 3] _ rfl rfl (by decide)
    simp only [w1, w2, w3, hright, hbody]


theorem parseCPUWith_printCpu (java : Bool → Bool → Nat → Str → Outcome Profile) (d : CpuDoc) (h : d.wf = true) :
    parseCPUWith java (printCpu d) = .ok (expectedCpu d) := by
  rw [printCpu_eq]; exact parseCPUWith_text java d h d.body (cpuProfile_body d h)


/-! ### the signal-handler frame rule -/
theorem mem_dedupAux (seen l : List Nat) (a : Nat) : a ∈ dedupAux seen l ↔ (a ∈ l ∧ a ∉ seen) := by
  induction l generalizing seen with
  | nil => simp [dedupAux]
  | cons b l ih =>
    simp only [dedupAux, List.contains_iff_mem]
    by_cases hb : b ∈ seen
    · simp only [hb, if_true, ih, List.mem_cons]
      constructor
      · rintro ⟨h1, h2⟩; exact ⟨Or.inr h1, h2⟩
      · rintro ⟨h1 | h1, h2⟩
        · subst h1; exact absurd hb h2
        · exact ⟨h1, h2⟩
    · simp only [hb, if_false, List.mem_cons, ih]
      constructor
      · rintro (h | ⟨h1, h2⟩)
        · subst h; exact ⟨Or.inl rfl, hb⟩
        · exact ⟨Or.inr h1, fun h => h2 (Or.inr h)⟩
      · rintro ⟨h1 | h1, h2⟩
        · exact Or.inl h1
        · by_cases hab : a = b
          · exact Or.inl hab
          · exact Or.inr ⟨h1, by rintro (h | h); exact hab h; exact h2 h⟩

theorem mem_dedup (l : List Nat) (a : Nat) : a ∈ dedup l ↔ a ∈ l := by simp [dedup, mem_dedupAux]

theorem count_add_count_le (l : List Nat) {a b : Nat} (h : a ≠ b) : l.count a + l.count b ≤ l.length := by
  induction l with
  | nil => simp
  | cons c l ih =>
    simp only [List.count_cons, List.length_cons]
    by_cases h1 : c = a <;> by_cases h2 : c = b
    · exact absurd (h1.symm.trans h2) h
    · subst h1; simp [h, Ne.symm h]; omega
    · subst h2; simp [h, Ne.symm h]; omega
    · simp [h1, h2]; omega

theorem find?_unique {p : Nat → Bool} {l : List Nat} {a : Nat} (ha : a ∈ l) (hp : p a = true)
    (hu : ∀ b ∈ l, p b = true → b = a) : l.find? p = some a := by
  induction l with
  | nil => cases ha
  | cons c l ih =>
    simp only [List.find?_cons]
    cases hc : p c with
    | true => rw [hu c (by simp) hc]
    | false =>
      rcases List.mem_cons.1 ha with h | h
      · subst h; rw [hp] at hc; cases hc
      · exact ih h (fun b hb => hu b (by simp [hb]))

/-- how often `a` is the second frame -/
def secondCount (ss : List RawSample) (a : Nat) : Nat := (ss.filterMap secondAddr).count a

theorem secondCount_le (ss : List RawSample) {a b : Nat} (h : a ≠ b) : secondCount ss a + secondCount ss b ≤ ss.length := by
  have h1 := count_add_count_le (ss.filterMap secondAddr) h
  have h2 : (ss.filterMap secondAddr).length ≤ ss.length := List.length_filterMap_le _ _
  unfold secondCount; omega

/-- at most one address can be the second frame of at least `n − n/32` of `n ≥ 1` samples -/
theorem signal_frame_unique (ss : List RawSample) (hn : ss ≠ []) {a b : Nat}
    (ha : secondCount ss a ≥ ss.length - ss.length / 32) (hb : secondCount ss b ≥ ss.length - ss.length / 32) : a = b := by
  apply Decidable.byContradiction
  intro hab
  have := secondCount_le ss hab
  have hpos : 0 < ss.length := List.length_pos_iff.2 hn
  omega

theorem stripSignalFrame_of_shared (ss : List RawSample) (hn : ss ≠ []) (a : Nat)
    (ha : secondCount ss a ≥ ss.length - ss.length / 32) : stripSignalFrame ss = ss.map (dropSecondIf a) := by
  have hpos : 0 < ss.length := List.length_pos_iff.2 hn
  have hmem : a ∈ ss.filterMap secondAddr := by
    have : 0 < (ss.filterMap secondAddr).count a := by unfold secondCount at ha; omega
    exact List.count_pos_iff.1 this
  have hf : signalFrame ss = some a := by
    unfold signalFrame
    apply find?_unique ((mem_dedup _ _).2 hmem)
    · simpa [secondCount] using ha
    · intro b _ hb
      exact signal_frame_unique ss hn (by simpa [secondCount] using hb) ha
  simp [stripSignalFrame, hf]

theorem stripSignalFrame_of_none (ss : List RawSample)
    (h : ∀ a, secondCount ss a < ss.length - ss.length / 32) : stripSignalFrame ss = ss := by
  have hf : signalFrame ss = none := by
    unfold signalFrame
    rw [List.find?_eq_none]
    intro b _
    have := h b
    simp only [secondCount] at this
    simp; omega
  simp [stripSignalFrame, hf]

end PV.Legacy
