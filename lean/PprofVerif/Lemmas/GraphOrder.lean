import PprofVerif.Lemmas.Order
import PprofVerif.Lemmas.Sprint
/-!
# From the syntactic checks on generated descriptor lists to the semantic hypotheses of
`lessOf_strict_total` (C08).
-/
namespace PV.Order

theorem KD.toDesc_proper {π α : Type} (get : π → α → Key) (d : KD π) : (d.toDesc get).proper = d.proper := rfl

/-- the `decide`-checked fact on the generated list gives `AllProper` of its interpretation -/
theorem allProper_of_KD {π α : Type} (get : π → α → Key) (ks : List (KD π)) (h : allProperKD ks = true) :
    AllProper (ks.map (KD.toDesc get)) := by
  intro k hk
  obtain ⟨d, hd, rfl⟩ := List.mem_map.mp hk
  rw [KD.toDesc_proper]
  exact List.all_eq_true.mp h d hd

/-- a key on projection `p`, compared untransformed, pins down everything `p` pins down -/
theorem determines_of_hasIdKey {π α ι : Type} [DecidableEq π] (get : π → α → Key) (ks : List (KD π)) (p : π)
    (ident : α → ι) (h : hasIdKey p ks = true) (hinj : ∀ a b, get p a = get p b → ident a = ident b) :
    KeysDetermineIdentity (ks.map (KD.toDesc get)) ident := by
  intro a b hall
  obtain ⟨d, hd, hdp⟩ := List.any_eq_true.mp h
  simp only [Bool.and_eq_true, decide_eq_true_eq] at hdp
  have := hall (d.toDesc get) (List.mem_map.mpr ⟨d, hd, rfl⟩)
  simp only [KeyDesc.ordVal, KD.toDesc, hdp.2, Xf.app, hdp.1] at this
  exact hinj a b this

theorem KeysDetermineIdentity.pair {α ι κ : Type} {ks : List (KeyDesc α)} {i₁ : α → ι} {i₂ : α → κ}
    (h₁ : KeysDetermineIdentity ks i₁) (h₂ : KeysDetermineIdentity ks i₂) :
    KeysDetermineIdentity ks (fun a => (i₁ a, i₂ a)) := by
  intro a b hall
  show (i₁ a, i₂ a) = (i₁ b, i₂ b)
  rw [h₁ a b hall, h₂ a b hall]

end PV.Order

namespace PV.GraphOrder
open PV.Order

theorem NodeProj.get_sprint (sc : ScoreSrc) (n : Node) : NodeProj.get sc .Sprint_Info n = skey (sprintInfo n.info) := rfl

end PV.GraphOrder
