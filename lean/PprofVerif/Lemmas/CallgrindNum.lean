import PprofVerif.Model.Callgrind
/-! C18 helper lemmas: Go's `%d` / `%x` printing read back by the callgrind `Number` grammar. -/
namespace PV.Callgrind

theorem toNat_ofNat_lt {n : Nat} (h : n < 256) : (UInt8.ofNat n).toNat = n := by
  simp [Nat.mod_eq_of_lt h]

theorem decVal_decDigit {d : Nat} (h : d < 10) : decVal (decDigit d) = some d := by
  unfold decVal decDigit
  rw [toNat_ofNat_lt (by omega)]
  have : 48 ≤ 48 + d ∧ 48 + d ≤ 57 := by omega
  simp [this]

theorem hexVal_hexDigit {d : Nat} (h : d < 16) : hexVal (hexDigit d) = some d := by
  unfold hexVal hexDigit
  by_cases h10 : d < 10
  · simp only [h10, if_true]
    rw [toNat_ofNat_lt (by omega)]
    have : 48 ≤ 48 + d ∧ 48 + d ≤ 57 := by omega
    simp [this]
  · simp only [h10, if_false]
    rw [toNat_ofNat_lt (by omega)]
    have h1 : ¬ (48 ≤ 87 + d ∧ 87 + d ≤ 57) := by omega
    have h2 : 97 ≤ 87 + d ∧ 87 + d ≤ 102 := by omega
    simp [h1, h2]

theorem isDigit_decDigit {d : Nat} (h : d < 10) : isDigit (decDigit d) = true := by
  unfold isDigit decDigit
  rw [toNat_ofNat_lt (by omega)]
  simp; omega

theorem parseDigits_append (base : Nat) (val : UInt8 → Option Nat) (a b : Bytes) : ∀ acc,
    parseDigits base val (a ++ b) acc =
      match parseDigits base val a acc with
      | some x => parseDigits base val b x
      | none => none := by
  induction a with
  | nil => intro acc; simp [parseDigits]
  | cons x t ih =>
    intro acc
    simp only [List.cons_append, parseDigits]
    cases val x with
    | none => simp
    | some d => simpa using ih (acc * base + d)

theorem parseDigits_dec (n : Nat) : parseDigits 10 decVal (dec n) 0 = some n := by
  unfold dec
  induction n using Nat.strongRecOn with
  | _ n ih =>
    rw [decLE]
    split
    · rename_i h
      simp [parseDigits, decVal_decDigit h]
    · rename_i h
      have hd : n % 10 < 10 := Nat.mod_lt _ (by omega)
      simp only [List.reverse_cons, parseDigits_append, ih (n / 10) (by omega)]
      simp only [parseDigits, decVal_decDigit hd]
      congr 1
      omega

theorem parseDigits_hex (n : Nat) : parseDigits 16 hexVal (hex n) 0 = some n := by
  unfold hex
  induction n using Nat.strongRecOn with
  | _ n ih =>
    rw [hexLE]
    split
    · rename_i h
      simp [parseDigits, hexVal_hexDigit h]
    · rename_i h
      have hd : n % 16 < 16 := Nat.mod_lt _ (by omega)
      simp only [List.reverse_cons, parseDigits_append, ih (n / 16) (by omega)]
      simp only [parseDigits, hexVal_hexDigit hd]
      congr 1
      omega

theorem decLE_ne_nil (n : Nat) : decLE n ≠ [] := by
  rw [decLE]; split <;> simp

theorem hexLE_ne_nil (n : Nat) : hexLE n ≠ [] := by
  rw [hexLE]; split <;> simp

theorem dec_ne_nil (n : Nat) : dec n ≠ [] := by
  unfold dec; simpa using decLE_ne_nil n

theorem hex_ne_nil (n : Nat) : hex n ≠ [] := by
  unfold hex; simpa using hexLE_ne_nil n

theorem decLE_all_digit (n : Nat) : ∀ b ∈ decLE n, isDigit b = true := by
  induction n using Nat.strongRecOn with
  | _ n ih =>
    rw [decLE]
    split
    · rename_i h
      intro b hb
      simp at hb; subst hb; exact isDigit_decDigit h
    · rename_i h
      intro b hb
      simp at hb
      rcases hb with hb | hb
      · subst hb; exact isDigit_decDigit (Nat.mod_lt _ (by omega))
      · exact ih (n / 10) (by omega) b hb

theorem dec_all_digit (n : Nat) : ∀ b ∈ dec n, isDigit b = true := by
  intro b hb
  unfold dec at hb
  exact decLE_all_digit n b (by simpa using hb)

theorem parseDec_dec (n : Nat) : parseDec (dec n) = some n := by
  unfold parseDec
  have := dec_ne_nil n
  split
  · contradiction
  · exact parseDigits_dec n

theorem isDigit_ne_x {b : UInt8} (h : isDigit b = true) : b ≠ 0x78 := by
  intro hb; subst hb; simp [isDigit] at h

/-- a printed decimal is read back by the `Number` grammar (it never looks like `0x…`) -/
theorem parseNumber_dec (n : Nat) : parseNumber (dec n) = some n := by
  have hp := parseDec_dec n
  have hall := dec_all_digit n
  unfold parseNumber
  split
  · rename_i h heq
    have : isDigit (0x78 : UInt8) = true := hall _ (by rw [heq]; simp)
    simp [isDigit] at this
  · exact hp

theorem parseNumber_hex (n : Nat) : parseNumber (0x30 :: 0x78 :: hex n) = some n := by
  have hne := hex_ne_nil n
  have hp := parseDigits_hex n
  cases hh : hex n with
  | nil => exact absurd hh hne
  | cons a t =>
    rw [hh] at hp
    simp only [parseNumber]
    exact hp

end PV.Callgrind
