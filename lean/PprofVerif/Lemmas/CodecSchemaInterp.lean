import PprofVerif.Model.CodecSchema
/-!
Interpreting the schemas of `Model/CodecSchema.lean` reproduces the encoders and decoder tables of
`Model/Codec.lean` — for every message type and for ALL values, wire fields and field numbers
(also numbers outside the tables).  These theorems are what ties the hand-written expectation
about the Go source (`Spec/CodecSchemaExpected.lean`) to the model the C01/C02 theorems talk about.
-/
namespace PV
namespace CodecSchema
open Wire Codec

/-! ### encoders -/

theorem ValueTypeX.encode_eq (p : ValueTypeX) :
    encodeBy ValueTypeX.dict p ValueTypeX.encSchema = some p.encode := by
  simp [encodeBy, encStmt, ValueTypeX.encSchema, ValueTypeX.dict, ValueTypeX.encode]

theorem LabelX.encode_eq (p : LabelX) :
    encodeBy LabelX.dict p LabelX.encSchema = some p.encode := by
  simp [encodeBy, encStmt, LabelX.encSchema, LabelX.dict, LabelX.encode]

theorem SampleX.encode_eq (p : SampleX) :
    encodeBy SampleX.dict p SampleX.encSchema = some p.encode := by
  simp [encodeBy, encStmt, SampleX.encSchema, SampleX.dict, SampleX.encode, LabelX.codec]

theorem MappingX.encode_eq (p : MappingX) :
    encodeBy MappingX.dict p MappingX.encSchema = some p.encode := by
  simp [encodeBy, encStmt, MappingX.encSchema, MappingX.dict, MappingX.encode]

theorem LineX.encode_eq (p : LineX) :
    encodeBy LineX.dict p LineX.encSchema = some p.encode := by
  simp [encodeBy, encStmt, LineX.encSchema, LineX.dict, LineX.encode]

theorem LocationX.encode_eq (p : LocationX) :
    encodeBy LocationX.dict p LocationX.encSchema = some p.encode := by
  simp [encodeBy, encStmt, LocationX.encSchema, LocationX.dict, LocationX.encode, LineX.codec]

theorem FunctionX.encode_eq (p : FunctionX) :
    encodeBy FunctionX.dict p FunctionX.encSchema = some p.encode := by
  simp [encodeBy, encStmt, FunctionX.encSchema, FunctionX.dict, FunctionX.encode]

theorem ProfileX.encode_eq (p : ProfileX) :
    encodeBy ProfileX.dict p ProfileX.encSchema = some p.encode := by
  cases h : p.periodType <;>
    simp [encodeBy, encStmt, ProfileX.encSchema, ProfileX.dict, ProfileX.encode, h,
      ValueTypeX.codec, SampleX.codec, MappingX.codec, LocationX.codec, FunctionX.codec,
      intsOf, ValueTypeX.dict]

/-! ### decoder tables -/

theorem ValueTypeX.apply_eq (m : ValueTypeX) (f : Field) :
    applyBy ValueTypeX.dict m f ValueTypeX.decTable = ValueTypeX.apply m f := by
  unfold ValueTypeX.apply
  split <;> simp_all [applyBy, decEntry, ValueTypeX.decTable, ValueTypeX.dict]

theorem LabelX.apply_eq (m : LabelX) (f : Field) :
    applyBy LabelX.dict m f LabelX.decTable = LabelX.apply m f := by
  unfold LabelX.apply
  split <;> simp_all [applyBy, decEntry, LabelX.decTable, LabelX.dict]

theorem SampleX.apply_eq (m : SampleX) (f : Field) :
    applyBy SampleX.dict m f SampleX.decTable = SampleX.apply m f := by
  unfold SampleX.apply
  split <;> simp_all [applyBy, decEntry, SampleX.decTable, SampleX.dict, LabelX.codec]

theorem MappingX.apply_eq (m : MappingX) (f : Field) :
    applyBy MappingX.dict m f MappingX.decTable = MappingX.apply m f := by
  unfold MappingX.apply
  split <;> simp_all [applyBy, decEntry, MappingX.decTable, MappingX.dict]

theorem LineX.apply_eq (m : LineX) (f : Field) :
    applyBy LineX.dict m f LineX.decTable = LineX.apply m f := by
  unfold LineX.apply
  split <;> simp_all [applyBy, decEntry, LineX.decTable, LineX.dict]

theorem LocationX.apply_eq (m : LocationX) (f : Field) :
    applyBy LocationX.dict m f LocationX.decTable = LocationX.apply m f := by
  unfold LocationX.apply
  split <;> simp_all [applyBy, decEntry, LocationX.decTable, LocationX.dict, LineX.codec]

theorem FunctionX.apply_eq (m : FunctionX) (f : Field) :
    applyBy FunctionX.dict m f FunctionX.decTable = FunctionX.apply m f := by
  unfold FunctionX.apply
  split <;> simp_all [applyBy, decEntry, FunctionX.decTable, FunctionX.dict]

theorem ProfileX.apply_eq (m : ProfileX) (f : Field) :
    applyBy ProfileX.dict m f ProfileX.decTable = ProfileX.apply m f := by
  unfold ProfileX.apply
  split <;> simp_all [applyBy, decEntry, ProfileX.decTable, ProfileX.dict,
    ValueTypeX.codec, SampleX.codec, MappingX.codec, LocationX.codec, FunctionX.codec]
  -- field 6: the same `match` on the string table, compiled twice
  rfl

end CodecSchema
end PV
