import PprofVerif.Lemmas.GraphTbl
import PprofVerif.Model.TreeChecks
/-!
# Composition C09 ← C04/C05: the consistency panics of `TrimTree` are unreachable on `newTree`

graph.go `TrimTree` panics with "TrimTree only works on trees" when a node has more than one
in-edge (`len(cur.In) > 1`), and — for a node that is dropped and has a parent — with "Get parent
assertion failed" unless `len(cur.In) == 1`.  `trimTreeChecks` models exactly these two tests over
the node list; for every graph built by `newTree` (the only graphs `TrimTree` is applied to:
report.go calls it under `CallTree`) every edge goes from a path to its one-frame extension, so
every node has at most one in-edge and neither test fires.
(`AddToEdgeDiv`'s "asymmetric edges" panic compares the two Go maps `n.Out[to]` / `to.In[n]`; the
graph model keeps ONE edge table keyed by (src, dest), so asymmetry is not representable there and
no meaningful statement about that panic can be made on this model.)
-/
namespace PV.Graph
open PV.GSpec
variable {κ : Type} [DecidableEq κ]

/-- every edge leads from a path to its extension by one frame; edge keys are pairwise distinct -/
structure TreeShaped (g : GState (List κ)) : Prop where
  ext : ∀ e ∈ g.edges.map (·.1), ∃ f, e.2 = e.1 ++ [f]
  nodup : (g.edges.map (·.1)).Nodup

theorem keys_tupd {κ' α : Type} [DecidableEq κ'] (t : List (κ' × α)) (k : κ') (f : α → α) (d : α) :
    (tupd t k f d).map (·.1) = if k ∈ t.map (·.1) then t.map (·.1) else t.map (·.1) ++ [k] := by
  induction t with
  | nil => simp [tupd]
  | cons hd tl ih =>
    obtain ⟨k0, v0⟩ := hd
    by_cases h0 : k0 = k
    · subst h0; simp [tupd]
    · have h0' : ¬ k = k0 := fun h => h0 h.symm
      simp only [tupd, h0, if_false, List.map_cons, ih, List.mem_cons, h0', false_or]
      split <;> simp

theorem TreeShaped.addEdge {g : GState (List κ)} (h : TreeShaped g) (p : List κ) (f : κ) (v : WD) (r : Bool) :
    TreeShaped (g.addEdge p (p ++ [f]) v r) := by
  unfold GState.addEdge
  constructor
  · intro e he
    simp only [keys_tupd] at he
    split at he
    · exact h.ext e he
    · rcases List.mem_append.mp he with he | he
      · exact h.ext e he
      · simp only [List.mem_singleton] at he; subst he; exact ⟨f, rfl⟩
  · simp only [keys_tupd]
    split
    · exact h.nodup
    · rename_i hn
      exact List.nodup_append.mpr ⟨h.nodup, by simp, by
        intro a ha b hb
        simp only [List.mem_singleton] at hb
        subst hb
        intro hab; subst hab; exact hn ha⟩

theorem TreeShaped.addCum {g : GState (List κ)} (h : TreeShaped g) (n : List κ) (v : WD) : TreeShaped (g.addCum n v) :=
  ⟨h.ext, h.nodup⟩
theorem TreeShaped.addFlat {g : GState (List κ)} (h : TreeShaped g) (n : List κ) (v : WD) : TreeShaped (g.addFlat n v) :=
  ⟨h.ext, h.nodup⟩

theorem treeStep_shaped (v : WD) (a : TInner κ) (f : κ) (h : TreeShaped a.g) : TreeShaped (treeStep v a f).g := by
  unfold treeStep
  cases hp : a.parent with
  | none => simp only; exact h.addCum _ _
  | some p => simp only; exact (h.addCum _ _).addEdge p f v false

theorem foldTree_shaped (v : WD) : ∀ (fs : List κ) (a : TInner κ), TreeShaped a.g → TreeShaped (fs.foldl (treeStep v) a).g
  | [], _, h => h
  | f :: fs, a, h => foldTree_shaped v fs _ (treeStep_shaped v a f h)

theorem treeSampleStep_shaped (g : GState (List κ)) (s : GSample κ) (h : TreeShaped g) : TreeShaped (treeSampleStep g s) := by
  unfold treeSampleStep
  split
  · exact h
  · have := foldTree_shaped s.wd s.frames ⟨g, none⟩ h
    simp only
    split
    · exact this.addFlat _ _
    · exact this

theorem newTree_shaped (ss : List (GSample κ)) : TreeShaped (newTree ss) := by
  unfold newTree
  have : ∀ (ss : List (GSample κ)) (g : GState (List κ)), TreeShaped g → TreeShaped (ss.foldl treeSampleStep g) := by
    intro ss
    induction ss with
    | nil => intro g h; exact h
    | cons s r ih => intro g h; exact ih _ (treeSampleStep_shaped g s h)
  exact this ss _ ⟨by simp [GState.empty], by simp [GState.empty]⟩

theorem filter_length_le_one {α : Type} [DecidableEq α] (l : List α) (q : α → Bool) (h : l.Nodup)
    (hq : ∀ a ∈ l, ∀ b ∈ l, q a = true → q b = true → a = b) : (l.filter q).length ≤ 1 := by
  induction l with
  | nil => simp
  | cons x r ih =>
    have hr := ih (List.nodup_cons.mp h).2 (fun a ha b hb => hq a (List.mem_cons_of_mem _ ha) b (List.mem_cons_of_mem _ hb))
    by_cases hx : q x = true
    · have : r.filter q = [] := by
        rw [List.filter_eq_nil_iff]
        intro a ha hqa
        have := hq x (by simp) a (List.mem_cons_of_mem _ ha) hx hqa
        subst this
        exact (List.nodup_cons.mp h).1 ha
      simp [hx, this]
    · simp only [List.filter_cons, hx]
      exact hr

/-- in a tree-shaped graph every node has at most one in-edge -/
theorem TreeShaped.inEdges_le_one {g : GState (List κ)} (h : TreeShaped g) (n : List κ) : (inEdges g n).length ≤ 1 := by
  unfold inEdges
  rw [List.length_map]
  apply filter_length_le_one _ _ h.nodup
  intro a ha b hb hqa hqb
  simp only [decide_eq_true_eq] at hqa hqb
  obtain ⟨f, hf⟩ := h.ext a ha
  obtain ⟨f', hf'⟩ := h.ext b hb
  have : a.1 ++ [f] = b.1 ++ [f'] := by rw [← hf, ← hf', hqa, hqb]
  have h1 : a.1 = b.1 := (List.append_inj' this rfl).1
  exact Prod.ext h1 (hqa.trans hqb.symm)

theorem trimTreeChecks_ok_of_inEdges (kept : κ → Bool) (g : GState κ) (h : ∀ n, (inEdges g n).length ≤ 1) :
    trimTreeChecks kept g = .ok () := by
  unfold trimTreeChecks
  generalize g.nodes.map (·.1) = ns
  induction ns with
  | nil => rfl
  | cons n r ih =>
    rw [List.foldl_cons]
    have hn := h n
    have : (if (inEdges g n).length > 1 then (Outcome.panic "TrimTree only works on trees" : Outcome Unit)
      else if kept n then .ok ()
      else if (inEdges g n).length = 0 then .ok ()
      else if (inEdges g n).length ≠ 1 then .panic "Get parent assertion failed. cur.In expected to be of length 1."
      else .ok ()) = .ok () := by
      have h1 : ¬ (inEdges g n).length > 1 := by omega
      simp only [h1, if_false]
      split
      · rfl
      · split
        · rfl
        · rename_i h0
          have : ¬ (inEdges g n).length ≠ 1 := by omega
          simp only [this, if_false]
    simp only [this]
    exact ih

end PV.Graph
