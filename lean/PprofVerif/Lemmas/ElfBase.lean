import PprofVerif.Spec.ElfLoader
import Mathlib.Tactic.Linarith
/-! Helper lemmas for C13 (ELF address translation): modular identities of `GetBase`, the filters of
`ProgramHeadersForMapping` under the loader model, the characterisation of `HeaderForFileOffset`,
and their composition in `findProgramHeader` / `computeBase` / `ObjAddr`. -/
namespace PV.Elf

theorem userBase_eq_bias (seg : ProgHeader) (B v0 : Nat) (hB : B < two64) :
    userBase seg (add64 B v0) (add64 seg.off (sub64 v0 seg.vaddr)) = B := by
  unfold userBase add64 sub64 two64 at *
  omega

theorem cond1_iff (seg : ProgHeader) (B v0 : Nat) (hB : B < two64) (ho : seg.off < two64)
    (hv : seg.vaddr < two64) :
    (seg.vaddr = sub64 (add64 B v0) (add64 seg.off (sub64 v0 seg.vaddr))) ↔ B = seg.off := by
  unfold add64 sub64 two64 at *
  omega

theorem kernelBase_user (seg : ProgHeader) (start limit offset : Nat)
    (h1 : seg.vaddr ≠ sub64 start offset) (hs : start < two63) :
    kernelBase seg none start limit offset = none := by
  unfold kernelBase
  have h3 : ¬ (start ≥ two63 ∧ limit > start ∧ (offset = 0 ∨ offset = pageOffsetPpc64 ∨ offset = start)) := by
    intro h; omega
  simp [h1, h3]

theorem getBase_user (ty : Nat) (seg : ProgHeader) (B v0 limit : Nat)
    (hty : ty = etExec ∨ ty = etDyn)
    (hB : B < two64) (ho : seg.off < two64) (hv : seg.vaddr < two64)
    (hstart : 0 < add64 B v0 ∧ add64 B v0 < two63)
    (hk : ¬ KernelLookalike ty seg B v0) :
    getBase ty (some seg) none (add64 B v0) limit (add64 seg.off (sub64 v0 seg.vaddr)) = .ok B := by
  have hub := userBase_eq_bias seg B v0 hB
  have hne : add64 B v0 ≠ 0 := by omega
  rcases hty with hty | hty
  · subst hty
    simp [getBase, etExec, hne, hstart.1, hstart.2, hub]
  · subst hty
    by_cases hc : seg.vaddr = sub64 (add64 B v0) (add64 seg.off (sub64 v0 seg.vaddr))
    · have hBo : B = seg.off := (cond1_iff seg B v0 hB ho hv).1 hc
      have hv0 : v0 = seg.vaddr := by
        by_contra hne'
        exact hk ⟨rfl, hBo, hne'⟩
      have hoff : add64 seg.off (sub64 v0 seg.vaddr) = B := by
        subst hv0; unfold add64 sub64 two64 at *; omega
      have hkb : kernelBase seg none (add64 B v0) limit (add64 seg.off (sub64 v0 seg.vaddr)) = some B := by
        unfold kernelBase; rw [if_pos hc, hoff]
      simp [getBase, etExec, etRel, etDyn, hne, hkb]
    · have hkb := kernelBase_user seg (add64 B v0) limit _ hc hstart.2
      simp [getBase, etExec, etRel, etDyn, hne, hkb, hub]

theorem phfmKeep_of_layout (seg : ProgHeader) (B v0 v1 : Nat) (m : Mapping)
    (hL : LoaderLayout 4096 seg B v0 v1 m) :
    phfmKeep m.offset (sub64 m.limit m.start) seg = true := by
  obtain ⟨_, hpt, hfs, hfm, hcong, hBp, hv0p, hv1p, hlo, hlt, hhi, hnw1, hnw2, hst, hli, hof⟩ := hL
  unfold pageStart pageAlign at *
  have hsz : sub64 m.limit m.start = v1 - v0 := by
    rw [hst, hli]; unfold sub64 two64 at *; omega
  have hmo : m.offset = seg.off + v0 - seg.vaddr := by omega
  rw [hsz]
  unfold phfmKeep
  have e1 : add64 m.offset (v1 - v0) = seg.off + v1 - seg.vaddr := by
    unfold add64 two64 at *; omega
  have e2 : add64 seg.off seg.memsz = seg.off + seg.memsz := by
    unfold add64 two64 at *; omega
  have e3 : add64 m.offset pageSize = m.offset + 4096 := by
    unfold add64 pageSize two64 at *; omega
  have e4 : add64 (seg.off + seg.memsz) pageSize = seg.off + seg.memsz + 4096 := by
    unfold add64 pageSize two64 at *; omega
  simp only [e1, e2, e3, e4]
  have c0 : ¬ seg.filesz = 0 := by omega
  have c1 : seg.ptype = ptLoad ∧ m.offset < seg.off + seg.memsz ∧ seg.off < seg.off + v1 - seg.vaddr := by
    refine ⟨hpt, ?_, ?_⟩ <;> omega
  have c2 : ¬ m.offset < (if seg.off > seg.vaddr % pageSize then seg.off - seg.vaddr % pageSize else 0) := by
    unfold pageSize; split <;> omega
  have c3 : ¬ (m.offset > seg.off ∧ seg.off + seg.memsz < m.offset + 4096 ∧
      seg.off + v1 - seg.vaddr ≥ seg.off + seg.memsz + 4096) := by
    omega
  simp [c0, c1, c2, c3]

theorem hffoLoop_some (fo : Nat) (hs : List ProgHeader) (c : ProgHeader) :
    hffoLoop fo hs (some c) =
      if hs.filter (hffoMatch fo) = [] then .ok c
      else .err "found second program header that matches file offset" := by
  induction hs with
  | nil => simp [hffoLoop]
  | cons h t ih =>
    by_cases hm : hffoMatch fo h = true
    · simp [hffoLoop, hm]
    · simp [hffoLoop, hm, ih]

theorem hffoLoop_none (fo : Nat) (hs : List ProgHeader) :
    hffoLoop fo hs none =
      match hs.filter (hffoMatch fo) with
      | [] => .err "no program header matches file offset"
      | [h] => .ok h
      | _ :: _ :: _ => .err "found second program header that matches file offset" := by
  induction hs with
  | nil => simp [hffoLoop]
  | cons h t ih =>
    by_cases hm : hffoMatch fo h = true
    · simp only [hffoLoop, hm, if_true, List.filter_cons_of_pos, hffoLoop_some]
      cases hf : t.filter (hffoMatch fo) with
      | nil => simp
      | cons a l => simp
    · have hm' : hffoMatch fo h = false := by simpa using hm
      simp only [hffoLoop, hm', ih]
      rw [List.filter_cons_of_neg (by simp [hm'])]
      simp

/-- full characterisation of HeaderForFileOffset -/
theorem hffo_char (hs : List ProgHeader) (fo : Nat) :
    (∃ h, headerForFileOffset hs fo = .ok h ∧ hs.filter (hffoMatch fo) = [h]) ∨
    (∃ e, headerForFileOffset hs fo = .err e ∧ (hs.filter (hffoMatch fo)).length ≠ 1) := by
  unfold headerForFileOffset
  rw [hffoLoop_none]
  cases hf : hs.filter (hffoMatch fo) with
  | nil => right; exact ⟨_, rfl, by simp⟩
  | cons a l =>
    cases l with
    | nil => left; exact ⟨a, rfl, rfl⟩
    | cons b l' => right; exact ⟨_, rfl, by simp⟩

/-- `ProgramHeadersForMapping` only keeps loadable headers with file content. -/
theorem phfmKeep_imp (mo ms : Nat) (p : ProgHeader) (h : phfmKeep mo ms p = true) :
    p.ptype = ptLoad ∧ p.filesz ≠ 0 := by
  unfold phfmKeep at h
  by_cases h0 : p.filesz = 0
  · simp [h0] at h
  · by_cases h1 : p.ptype = ptLoad
    · exact ⟨h1, h0⟩
    · simp [h0, h1] at h

theorem cands_filter_match (f : File) (seg : ProgHeader) (mo ms fo : Nat)
    (hun : OnlyOwner f fo seg) (hkeep : phfmKeep mo ms seg = true) :
    (programHeadersForMapping (f.progs.filter (fun p => p.ptype == ptLoad)) mo ms).filter (hffoMatch fo) = [seg] := by
  unfold programHeadersForMapping OnlyOwner at *
  rw [List.filter_filter, List.filter_filter]
  have hseg : seg ∈ f.progs.filter (fun h => h.ptype == ptLoad && decide (h.filesz ≠ 0) && hffoMatch fo h) := by
    rw [hun]; simp
  have hsegP := (List.mem_filter.1 hseg).2
  have key : f.progs.filter (fun a => hffoMatch fo a && phfmKeep mo ms a && (a.ptype == ptLoad)) =
      (f.progs.filter (fun h => h.ptype == ptLoad && decide (h.filesz ≠ 0) && hffoMatch fo h)).filter
        (fun a => hffoMatch fo a && phfmKeep mo ms a && (a.ptype == ptLoad)) := by
    rw [List.filter_filter]
    congr 1
    funext a
    by_cases hk : phfmKeep mo ms a = true
    · obtain ⟨h1, h2⟩ := phfmKeep_imp mo ms a hk
      simp [hk, h1, h2]
    · simp [hk]
  rw [key, hun]
  simp only [Bool.and_eq_true, beq_iff_eq, decide_eq_true_eq] at hsegP
  simp [hkeep, hsegP.1.1, hsegP.2]

/-- the sample's file offset lies in the owning segment's `[Off, Off+Memsz)`. -/
theorem hffoMatch_of_layout (seg : ProgHeader) (B v0 v1 : Nat) (m : Mapping) (x : Nat)
    (hL : LoaderLayout 4096 seg B v0 v1 m) (hx : InSegment seg B m x) :
    hffoMatch (add64 (sub64 x m.start) m.offset) seg = true := by
  obtain ⟨_, hpt, hfs, hfm, hcong, hBp, hv0p, hv1p, hlo, hlt, hhi, hnw1, hnw2, hst, hli, hof⟩ := hL
  obtain ⟨hx1, hx2, hx3, hx4⟩ := hx
  unfold pageStart pageAlign at *
  have e : add64 (sub64 x m.start) m.offset = seg.off + (x - B - seg.vaddr) := by
    rw [hst] at *; unfold add64 sub64 two64 at *; omega
  have e2 : add64 seg.off seg.memsz = seg.off + seg.memsz := by
    unfold add64 two64 at *; omega
  unfold hffoMatch
  rw [e, e2]
  simp
  omega

theorem findProgramHeader_layout (f : File) (seg : ProgHeader) (B v0 v1 : Nat) (m : Mapping) (x : Nat)
    (hmem : seg ∈ f.progs) (hL : LoaderLayout 4096 seg B v0 v1 m) (hu : UserMapping m)
    (hx : InSegment seg B m x) :
    findProgramHeader m f x = .ok (some seg) ∨
      ∃ e, findProgramHeader m f x = .err e ∧ ¬ OnlyOwner f (add64 (sub64 x m.start) m.offset) seg := by
  have hkeep := phfmKeep_of_layout seg B v0 v1 m hL
  have hmatch := hffoMatch_of_layout seg B v0 v1 m x hL hx
  obtain ⟨hko, hs0, hl63⟩ := hu
  have hlt : m.start < m.limit := by
    obtain ⟨hx1, hx2, _, _⟩ := hx; omega
  have hpt : seg.ptype = ptLoad := hL.2.1
  have hcond : ¬ (m.kernelOffset.isSome ∨ m.start ≥ m.limit ∨ m.limit ≥ two63) := by
    rw [hko]; simp; omega
  unfold findProgramHeader
  rw [if_neg hcond]
  have hin1 : seg ∈ f.progs.filter (fun p => p.ptype == ptLoad) := by
    simp [List.mem_filter, hmem, hpt]
  cases hph : f.progs.filter (fun p => p.ptype == ptLoad) with
  | nil => rw [hph] at hin1; simp at hin1
  | cons p0 ps =>
    simp only []
    have hin2 : seg ∈ programHeadersForMapping (p0 :: ps) m.offset (sub64 m.limit m.start) := by
      unfold programHeadersForMapping
      rw [← hph]
      exact List.mem_filter.2 ⟨hin1, hkeep⟩
    cases hc : programHeadersForMapping (p0 :: ps) m.offset (sub64 m.limit m.start) with
    | nil => rw [hc] at hin2; simp at hin2
    | cons c1 cs =>
      cases cs with
      | nil =>
        rw [hc] at hin2
        have : seg = c1 := by simpa using hin2
        subst this
        left; rfl
      | cons c2 cs' =>
        simp only []
        rcases hffo_char (c1 :: c2 :: cs') (add64 (sub64 x m.start) m.offset) with ⟨h, hok, hfil⟩ | ⟨e, herr, hlen⟩
        · left
          rw [hok]
          have : seg ∈ (c1 :: c2 :: cs').filter (hffoMatch (add64 (sub64 x m.start) m.offset)) := by
            rw [← hc]; exact List.mem_filter.2 ⟨hin2, hmatch⟩
          rw [hfil] at this
          have : seg = h := by simpa using this
          subst this; rfl
        · right
          rw [herr]
          refine ⟨e, rfl, ?_⟩
          intro hun
          have := cands_filter_match f seg m.offset (sub64 m.limit m.start) _ hun hkeep
          rw [hph, hc] at this
          rw [this] at hlen
          simp at hlen

theorem objAddr_layout (f : File) (seg : ProgHeader) (B v0 v1 : Nat) (m : Mapping) (x : Nat)
    (hty : f.etype = etExec ∨ f.etype = etDyn) (hmem : seg ∈ f.progs)
    (hL : LoaderLayout 4096 seg B v0 v1 m) (hu : UserMapping m)
    (hk : ¬ KernelLookalike f.etype seg B v0) (hx : InSegment seg B m x) :
    (objAddr m f x = .ok (x - B) ∧ findProgramHeader m f x = .ok (some seg)) ∨
    ∃ e, objAddr m f x = .err e ∧ findProgramHeader m f x = .err e ∧
      ¬ OnlyOwner f (add64 (sub64 x m.start) m.offset) seg := by
  have hfp := findProgramHeader_layout f seg B v0 v1 m x hmem hL hu hx
  obtain ⟨hko, hs0, hl63⟩ := hu
  obtain ⟨hx1, hx2, hx3, hx4⟩ := hx
  have hrange : ¬ (x < m.start ∨ x ≥ m.limit) := by omega
  obtain ⟨_, hpt, hfs, hfm, hcong, hBp, hv0p, hv1p, hlo, hlt, hhi, hnw1, hnw2, hst, hli, hof⟩ := hL
  unfold pageStart pageAlign at *
  have hB : B < two64 := by unfold two64 at *; omega
  have hst' : m.start = add64 B v0 := by rw [hst]; unfold add64 two64 at *; omega
  have hof' : m.offset = add64 seg.off (sub64 v0 seg.vaddr) := by
    unfold add64 sub64 two64 at *; omega
  have hgb : getBase f.etype (some seg) m.kernelOffset m.start m.limit m.offset = .ok B := by
    rw [hko, hst', hof']
    apply getBase_user f.etype seg B v0 m.limit hty hB
    · unfold two64 at *; omega
    · unfold two64 at *; omega
    · rw [← hst']; unfold two63 at *; omega
    · exact hk
  have hsub : sub64 x B = x - B := by unfold sub64 two64 two63 at *; omega
  unfold objAddr computeBase
  rw [if_neg hrange]
  rcases hfp with h | ⟨e, h, hno⟩
  · left; rw [h]; simp [hgb, hsub]
  · right; rw [h]; exact ⟨e, rfl, rfl, hno⟩


theorem getBase_no_panic (ty : Nat) (seg : Option ProgHeader) (st : Option Nat) (start limit offset : Nat) (e : String) :
    getBase ty seg st start limit offset ≠ .panic e := by
  unfold getBase
  repeat' split
  all_goals simp

theorem findProgramHeader_no_panic (m : Mapping) (f : File) (x : Nat) (e : String) :
    findProgramHeader m f x ≠ .panic e := by
  unfold findProgramHeader
  by_cases hc : m.kernelOffset.isSome ∨ m.start ≥ m.limit ∨ m.limit ≥ two63
  · rw [if_pos hc]; simp
  · rw [if_neg hc]
    cases f.progs.filter (fun p => p.ptype == ptLoad) with
    | nil => simp
    | cons p0 ps =>
      simp only []
      cases programHeadersForMapping (p0 :: ps) m.offset (sub64 m.limit m.start) with
      | nil => simp
      | cons c1 cs =>
        cases cs with
        | nil => simp
        | cons c2 cs' =>
          simp only []
          rcases hffo_char (c1 :: c2 :: cs') (add64 (sub64 x m.start) m.offset) with ⟨h, hok, _⟩ | ⟨e', herr, _⟩
          · rw [hok]; simp
          · rw [herr]; simp

theorem objAddr_no_panic (m : Mapping) (f : File) (x : Nat) (e : String) : objAddr m f x ≠ .panic e := by
  unfold objAddr computeBase
  by_cases hc : x < m.start ∨ x ≥ m.limit
  · rw [if_pos hc]; simp
  · rw [if_neg hc]
    cases hfp : findProgramHeader m f x with
    | ok ph =>
      simp only []
      cases hgb : getBase f.etype ph m.kernelOffset m.start m.limit m.offset with
      | ok b => simp
      | err e' => simp
      | panic e' => exact absurd hgb (getBase_no_panic _ _ _ _ _ _ _)
    | err e' => simp
    | panic e' => exact absurd hfp (findProgramHeader_no_panic _ _ _ _)

end PV.Elf
