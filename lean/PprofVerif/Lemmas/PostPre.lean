import PprofVerif.Lemmas.InternEntities
import PprofVerif.Lemmas.LabelsRoundtrip
/-!
# `postDecode ∘ preEncode = normalize` (property C01, second half)

* the wire labels `preEncode` produces for a sample denote `semLabels s` in the table it leaves
  (`preStrLabels_spec`, `preNumLabels_go_spec_*`, `nums_spec`, `preSample_spec`, `preSamples_spec`);
* `EncRel p x` — "x is an encoding of p": a relational specification of `preEncode`
  (`preEncode_spec`: on a profile with aligned units `preEncode` succeeds and its output encodes
  the profile, every index being valid in the FINAL string table);
* `postDecode_of_EncRel`: `postDecode` of any encoding of a valid, key-sorted profile is the
  normalised profile (id resolution is the identity by validity, `PeriodType` nil becomes the
  empty value type, labels are regrouped by `postSample_of_semLabels`).
Core Lean only.
-/
namespace PV
namespace Codec

/-! ### preEncode side of the labels: the flattened wire labels denote `semLabels s` -/

abbrev DenAll (t : StrTab) (sls : List SemLabel) (ls : List LabelX) : Prop :=
  All2 (fun sl l => Denotes t l sl) sls ls

theorem DenAll.mono {t t' : StrTab} (h : t <+: t') {sls : List SemLabel} {ls : List LabelX}
    (hd : DenAll t sls ls) : DenAll t' sls ls :=
  All2.mono (fun _ _ hd => hd.mono h) hd

theorem preStrLabels_spec (k : Str) (vs : List Str) (t : StrTab) (h : TabInv t) :
    StepOK t (preStrLabels k vs t) (fun t' ls => DenAll t' (vs.map (SemLabel.str k)) ls) := by
  unfold preStrLabels
  obtain ⟨h1, h2, h3⟩ := tab_mapM_stepOK
    (fun v => (do let kx ← add k; let sx ← add v; pure { keyX := kx, strX := sx } : Tab LabelX))
    (fun t v l => Denotes t l (SemLabel.str k v))
    (fun _ _ _ _ ht hd => hd.mono ht)
    (fun v t ht => by
      have a1 := addString_spec t k ht
      have a2 := addString_spec _ v a1.1
      exact ⟨a2.1, a1.2.1.trans a2.2.1, a1.2.2.mono a2.2.1, a2.2.2, rfl, rfl⟩)
    vs t h
  exact ⟨h1, h2, All2.map_left _ h3⟩

theorem strLabels_spec (l : List (Str × List Str)) (t : StrTab) (h : TabInv t) :
    StepOK t ((l.mapM (fun (x : Str × List Str) => preStrLabels x.1 x.2) : Tab _) t)
      (fun t' lss => DenAll t' (l.flatMap (fun e => e.2.map (SemLabel.str e.1))) lss.flatten) := by
  obtain ⟨h1, h2, h3⟩ := tab_mapM_stepOK (fun (e : Str × List Str) => preStrLabels e.1 e.2)
    (fun t e ls => DenAll t (e.2.map (SemLabel.str e.1)) ls)
    (fun _ _ _ _ ht hd => hd.mono ht)
    (fun e t ht => preStrLabels_spec e.1 e.2 t ht) l t h
  refine ⟨h1, h2, ?_⟩
  rw [List.flatMap_def]
  exact All2.flatten (All2.map_left _ h3)

/-- numeric labels of one key, no units: every label carries unit index 0 -/
theorem preNumLabels_go_spec_nounits (units : List Str) (hu : units.length = 0) (kx : Int) (k : Str) :
    ∀ (vs : List Int) (i : Nat) (t : StrTab), TabInv t → Res t kx k →
    ∃ ls, preNumLabels.go units kx i vs t = .ok (ls, t) ∧
      DenAll t (vs.map (fun v => SemLabel.num k v [])) ls
  | [], i, t, _, _ => ⟨[], by simp [preNumLabels.go], .nil⟩
  | v :: rest, i, t, ht, hk => by
    obtain ⟨ls, hgo, hd⟩ := preNumLabels_go_spec_nounits units hu kx k rest (i + 1) t ht hk
    refine ⟨{ keyX := kx, numX := v, unitX := 0 } :: ls, ?_, .cons ⟨hk, rfl, rfl, Res.zero ht⟩ hd⟩
    rw [preNumLabels.go]
    simp only [hu, ne_eq, not_true_eq_false, if_false, hgo]

/-- numeric labels of one key with units: label `j` carries the index of `units[i+j]` -/
theorem preNumLabels_go_spec_units (units : List Str) (kx : Int) (k : Str) :
    ∀ (vs : List Int) (i : Nat) (t : StrTab), TabInv t → Res t kx k → units.length ≠ 0 →
    i + vs.length ≤ units.length →
    ∃ ls t', preNumLabels.go units kx i vs t = .ok (ls, t') ∧ TabInv t' ∧ t <+: t' ∧
      DenAll t' ((vs.zip (units.drop i)).map (fun p => SemLabel.num k p.1 p.2)) ls
  | [], i, t, ht, _, _, _ => ⟨[], t, by simp [preNumLabels.go], ht, List.prefix_refl _, by simp; exact .nil⟩
  | v :: rest, i, t, ht, hk, hne, hle => by
    have hi : i < units.length := by simp at hle; omega
    have a1 := addString_spec t units[i] ht
    obtain ⟨ls, t', hgo, ht', hpre, hd⟩ := preNumLabels_go_spec_units units kx k rest (i + 1)
      (addString t units[i]).1 a1.1 (hk.mono a1.2.1) hne (by simp at hle; omega)
    refine ⟨{ keyX := kx, numX := v, unitX := (addString t units[i]).2 } :: ls, t', ?_, ht', a1.2.1.trans hpre, ?_⟩
    · rw [preNumLabels.go]
      simp only [hne, ne_eq, not_false_eq_true, if_true, List.getElem?_eq_getElem hi, hgo]
    · rw [List.drop_eq_getElem_cons hi, List.zip_cons_cons, List.map_cons]
      exact .cons ⟨(hk.mono a1.2.1).mono hpre, rfl, rfl, a1.2.2.mono hpre⟩ hd

theorem zip_replicate_map {α β γ} (f : α × β → γ) (b : β) : ∀ (vs : List α),
    (vs.zip (List.replicate vs.length b)).map f = vs.map (fun v => f (v, b))
  | [] => rfl
  | v :: vs => by simp [List.replicate_succ, zip_replicate_map f b vs]

theorem preNumLabels_spec (nu : List (Str × List Str)) (e : Str × List Int) (t : StrTab) (h : TabInv t)
    (ha : ((nu.lookup e.1).getD []).length = 0 ∨ ((nu.lookup e.1).getD []).length = e.2.length) :
    ∃ ls t', preNumLabels e.1 e.2 ((nu.lookup e.1).getD []) t = .ok (ls, t') ∧ TabInv t' ∧ t <+: t' ∧
      DenAll t' ((e.2.zip (unitsFor nu e)).map (fun p => SemLabel.num e.1 p.1 p.2)) ls := by
  have a1 := addString_spec t e.1 h
  unfold preNumLabels
  simp only
  by_cases hz : ((nu.lookup e.1).getD []).length = 0
  · obtain ⟨ls, hgo, hd⟩ := preNumLabels_go_spec_nounits _ hz (addString t e.1).2 e.1 e.2 0 _ a1.1 a1.2.2
    refine ⟨ls, _, hgo, a1.1, a1.2.1, ?_⟩
    have he : ((nu.lookup e.1).getD []).isEmpty = true := by
      rw [List.isEmpty_iff]; exact List.eq_nil_of_length_eq_zero hz
    unfold unitsFor
    simp only [he, if_true]
    rw [zip_replicate_map]
    exact hd
  · have hlen : ((nu.lookup e.1).getD []).length = e.2.length := by
      rcases ha with ha | ha
      · exact absurd ha hz
      · exact ha
    obtain ⟨ls, t', hgo, ht', hpre, hd⟩ := preNumLabels_go_spec_units _ (addString t e.1).2 e.1 e.2 0 _ a1.1 a1.2.2 hz
      (by omega)
    refine ⟨ls, t', hgo, ht', a1.2.1.trans hpre, ?_⟩
    have he : ((nu.lookup e.1).getD []).isEmpty = false := by
      cases hc : (nu.lookup e.1).getD [] with
      | nil => rw [hc] at hz; simp at hz
      | cons a r => rfl
    unfold unitsFor
    simp only [he, Bool.false_eq_true, if_false]
    simpa using hd


def alignedEntry (nu : List (Str × List Str)) (e : Str × List Int) : Prop :=
  ((nu.lookup e.1).getD []).length = 0 ∨ ((nu.lookup e.1).getD []).length = e.2.length

theorem alignedEntry_of_unitsAligned (s : Sample) (h : s.unitsAligned = true) :
    ∀ e ∈ s.numLabel, alignedEntry s.numUnit e := by
  intro e he
  unfold Sample.unitsAligned at h
  rw [List.all_eq_true] at h
  have := h e he
  unfold alignedEntry
  cases hl : s.numUnit.lookup e.1 with
  | none => left; rfl
  | some us =>
    simp only [hl, Bool.or_eq_true, beq_iff_eq, List.isEmpty_iff] at this
    simp only [Option.getD_some]
    rcases this with h0 | h1
    · left; rw [h0]; rfl
    · right; exact h1

theorem nums_spec (s : Sample) : ∀ (l : List (Str × List Int)) (t : StrTab), TabInv t →
    (∀ e ∈ l, alignedEntry s.numUnit e) →
    ∃ ls t', preSample.nums s l t = .ok (ls, t') ∧ TabInv t' ∧ t <+: t' ∧
      DenAll t' (l.flatMap (fun e => (e.2.zip (unitsFor s.numUnit e)).map (fun p => SemLabel.num e.1 p.1 p.2))) ls
  | [], t, ht, _ => ⟨[], t, by simp [preSample.nums], ht, List.prefix_refl _, .nil⟩
  | e :: rest, t, ht, ha => by
    obtain ⟨a, t1, h1, ht1, hp1, hd1⟩ := preNumLabels_spec s.numUnit e t ht (ha e (by simp))
    obtain ⟨b, t2, h2, ht2, hp2, hd2⟩ := nums_spec s rest t1 ht1 (fun x hx => ha x (List.mem_cons_of_mem _ hx))
    refine ⟨a ++ b, t2, ?_, ht2, hp1.trans hp2, ?_⟩
    · rw [preSample.nums]
      simp only [h1, h2]
    · rw [List.flatMap_cons]
      exact All2.append (hd1.mono hp2) hd2

/-- "`x` encodes the sample `s` in table `t`" -/
def SampRel (t : StrTab) (s : Sample) (x : SampleX) : Prop :=
  x.locationIDX = s.locationIDs ∧ x.value = s.values ∧ DenAll t (semLabels s) x.labelX

theorem SampRel.mono {t t' : StrTab} {s : Sample} {x : SampleX} (h : t <+: t') (hr : SampRel t s x) :
    SampRel t' s x := ⟨hr.1, hr.2.1, hr.2.2.mono h⟩

theorem semLabels_eq (s : Sample) : semLabels s =
    s.label.flatMap (fun e => e.2.map (SemLabel.str e.1)) ++
    s.numLabel.flatMap (fun e => (e.2.zip (unitsFor s.numUnit e)).map (fun p => SemLabel.num e.1 p.1 p.2)) := by
  simp [semLabels, numPairs, List.flatMap_map]

theorem preSample_spec (s : Sample) (t : StrTab) (ht : TabInv t) (ha : s.unitsAligned = true) :
    ∃ x t', preSample s t = .ok (x, t') ∧ TabInv t' ∧ t <+: t' ∧ SampRel t' s x := by
  have hs := strLabels_spec s.label t ht
  generalize hm : ((s.label.mapM (fun (x : Str × List Str) => preStrLabels x.1 x.2) : Tab _) t) = r at hs
  obtain ⟨ls1, t1⟩ := r
  obtain ⟨h1, h2, h3⟩ := hs
  simp only at h1 h2 h3
  obtain ⟨ls2, t2, hn, ht2, hp2, hd2⟩ := nums_spec s s.numLabel t1 h1 (alignedEntry_of_unitsAligned s ha)
  refine ⟨⟨s.locationIDs, s.values, ls1.flatten ++ ls2⟩, t2, ?_, ht2, h2.trans hp2, ?_⟩
  · unfold preSample
    simp only [hm, hn]
  · refine ⟨rfl, rfl, ?_⟩
    rw [semLabels_eq]
    exact All2.append (h3.mono hp2) hd2

theorem preSamples_spec : ∀ (l : List Sample) (t : StrTab), TabInv t → (∀ s ∈ l, s.unitsAligned = true) →
    ∃ xs t', preSamples l t = .ok (xs, t') ∧ TabInv t' ∧ t <+: t' ∧ All2 (SampRel t') l xs
  | [], t, ht, _ => ⟨[], t, rfl, ht, List.prefix_refl _, .nil⟩
  | s :: rest, t, ht, ha => by
    obtain ⟨x, t1, h1, ht1, hp1, hr1⟩ := preSample_spec s t ht (ha s (by simp))
    obtain ⟨xs, t2, h2, ht2, hp2, hr2⟩ := preSamples_spec rest t1 ht1 (fun y hy => ha y (List.mem_cons_of_mem _ hy))
    refine ⟨x :: xs, t2, ?_, ht2, hp1.trans hp2, .cons (hr1.mono hp2) hr2⟩
    rw [preSamples]
    simp only [h1, h2]

/-- decoding a sample that encodes `s`: the normalised sample (ids not yet resolved) -/
theorem postSample_of_SampRel {tab : StrTab} (hinv : TabInv tab) {s : Sample} {x : SampleX}
    (hr : SampRel tab s x) (hs : s.mapsSorted = true) : postSample tab x = .ok (Sample.normalize s) := by
  rw [postSample_of_semLabels hinv hr.2.2 hs, normalize_eq, hr.1, hr.2.1]


/-! ### the whole profile: a relational specification of `preEncode` -/

def PTRel (t : StrTab) : Option ValueType → Option ValueTypeX → Prop
  | some v, some x => VTRel t v x
  | none, none => True
  | _, _ => False

theorem PTRel.mono {t t' : StrTab} {o : Option ValueType} {ox : Option ValueTypeX} (h : t <+: t')
    (hr : PTRel t o ox) : PTRel t' o ox := by
  cases o <;> cases ox <;> simp only [PTRel] at hr ⊢
  exact hr.mono h

def prePT (o : Option ValueType) (t : StrTab) : Option ValueTypeX × StrTab :=
  match o with
  | some v => (some (preValueType v t).1, (preValueType v t).2)
  | none => (none, t)

theorem prePT_spec (o : Option ValueType) (t : StrTab) (h : TabInv t) :
    StepOK t (prePT o t) (fun t' ox => PTRel t' o ox) := by
  cases o with
  | none => exact ⟨h, List.prefix_refl _, trivial⟩
  | some v => exact preValueType_spec v t h

/-- "`x` is an encoding of `p`": every string index of `x` resolves, in `x`'s own string table,
to the corresponding string of `p`; labels are flattened in `preEncode`'s order; everything
else is copied.  `preEncode` establishes it (`preEncode_spec`); it is all `postDecode` needs
(`postDecode_of_EncRel`). -/
structure EncRel (p : Profile) (x : ProfileX) : Prop where
  inv : TabInv x.stringTable
  sampleType : All2 (VTRel x.stringTable) p.sampleType x.sampleType
  sample : All2 (SampRel x.stringTable) p.samples x.sample
  mapping : All2 (MapRel x.stringTable) p.mappings x.mapping
  location : x.location = p.locations.map preLocation
  function : All2 (FunRel x.stringTable) p.functions x.function
  dropFrames : Res x.stringTable x.dropFramesX p.dropFrames
  keepFrames : Res x.stringTable x.keepFramesX p.keepFrames
  timeNanos : x.timeNanos = p.timeNanos
  durationNanos : x.durationNanos = p.durationNanos
  periodType : PTRel x.stringTable p.periodType x.periodType
  period : x.period = p.period
  comments : All2 (fun c i => Res x.stringTable i c) p.comments x.commentX
  defaultSampleType : Res x.stringTable x.defaultSampleTypeX p.defaultSampleType
  docURL : Res x.stringTable x.docURLX p.docURL

/-- `preEncode` with the stages named by projections (same function, see `preEncode_eq`) -/
def preEncode' (p : Profile) : Outcome ProfileX :=
  let r1 := (p.sampleType.mapM preValueType : Tab _) [[]]
  match preSamples p.samples r1.2 with
  | .err e => .err e | .panic x => .panic x
  | .ok (ss, t2) =>
  let r3 := (p.mappings.mapM preMapping : Tab _) t2
  let r4 := (p.functions.mapM preFunction : Tab _) r3.2
  let r5 := add p.dropFrames r4.2
  let r6 := add p.keepFrames r5.2
  let r7 := prePT p.periodType r6.2
  let r8 := (p.comments.mapM add : Tab _) r7.2
  let r9 := add p.defaultSampleType r8.2
  let r10 := add p.docURL r9.2
  .ok { sampleType := r1.1, sample := ss, mapping := r3.1, location := p.locations.map preLocation,
        function := r4.1, stringTable := r10.2, dropFramesX := r5.1, keepFramesX := r6.1,
        timeNanos := p.timeNanos, durationNanos := p.durationNanos, periodType := r7.1, period := p.period,
        commentX := r8.1, defaultSampleTypeX := r9.1, docURLX := r10.1 }

theorem preEncode_eq (p : Profile) : preEncode p = preEncode' p := by
  unfold preEncode preEncode' prePT
  cases p.periodType <;> rfl


theorem preEncode'_spec (p : Profile) (ha : ∀ s ∈ p.samples, s.unitsAligned = true) :
    ∃ x, preEncode' p = .ok x ∧ EncRel p x := by
  unfold preEncode'
  simp only
  have s1 := tab_mapM_stepOK preValueType VTRel (fun _ _ _ _ h r => r.mono h) preValueType_spec
    p.sampleType [[]] TabInv.init
  generalize ((p.sampleType.mapM preValueType : Tab _) [[]]) = r1 at s1 ⊢
  obtain ⟨i1, _, q1⟩ := s1
  obtain ⟨ss, t2, hss, i2, e2, q2⟩ := preSamples_spec p.samples r1.2 i1 ha
  rw [hss]
  simp only
  have s3 := tab_mapM_stepOK preMapping MapRel (fun _ _ _ _ h r => r.mono h) preMapping_spec p.mappings t2 i2
  generalize ((p.mappings.mapM preMapping : Tab _) t2) = r3 at s3 ⊢
  obtain ⟨i3, e3, q3⟩ := s3
  have s4 := tab_mapM_stepOK preFunction FunRel (fun _ _ _ _ h r => r.mono h) preFunction_spec p.functions r3.2 i3
  generalize ((p.functions.mapM preFunction : Tab _) r3.2) = r4 at s4 ⊢
  obtain ⟨i4, e4, q4⟩ := s4
  have s5 := add_spec p.dropFrames r4.2 i4
  generalize add p.dropFrames r4.2 = r5 at s5 ⊢
  obtain ⟨i5, e5, q5⟩ := s5
  have s6 := add_spec p.keepFrames r5.2 i5
  generalize add p.keepFrames r5.2 = r6 at s6 ⊢
  obtain ⟨i6, e6, q6⟩ := s6
  have s7 := prePT_spec p.periodType r6.2 i6
  generalize prePT p.periodType r6.2 = r7 at s7 ⊢
  obtain ⟨i7, e7, q7⟩ := s7
  have s8 := tab_mapM_stepOK add (fun t c i => Res t i c) (fun _ _ _ _ h r => r.mono h)
    (fun c t ht => add_spec c t ht) p.comments r7.2 i7
  generalize ((p.comments.mapM add : Tab _) r7.2) = r8 at s8 ⊢
  obtain ⟨i8, e8, q8⟩ := s8
  have s9 := add_spec p.defaultSampleType r8.2 i8
  generalize add p.defaultSampleType r8.2 = r9 at s9 ⊢
  obtain ⟨i9, e9, q9⟩ := s9
  have s10 := add_spec p.docURL r9.2 i9
  generalize add p.docURL r9.2 = r10 at s10 ⊢
  obtain ⟨i10, e10, q10⟩ := s10
  have c9 : r9.2 <+: r10.2 := e10
  have c8 : r8.2 <+: r10.2 := e9.trans c9
  have c7 : r7.2 <+: r10.2 := e8.trans c8
  have c6 : r6.2 <+: r10.2 := e7.trans c7
  have c5 : r5.2 <+: r10.2 := e6.trans c6
  have c4 : r4.2 <+: r10.2 := e5.trans c5
  have c3 : r3.2 <+: r10.2 := e4.trans c4
  have c2 : t2 <+: r10.2 := e3.trans c3
  have c1 : r1.2 <+: r10.2 := e2.trans c2
  refine ⟨_, rfl, ?_⟩
  exact {
    inv := i10
    sampleType := All2.mono (fun _ _ r => r.mono c1) q1
    sample := All2.mono (fun _ _ r => r.mono c2) q2
    mapping := All2.mono (fun _ _ r => r.mono c3) q3
    location := rfl
    function := All2.mono (fun _ _ r => r.mono c4) q4
    dropFrames := q5.mono c5
    keepFrames := q6.mono c6
    timeNanos := rfl
    durationNanos := rfl
    periodType := q7.mono c7
    period := rfl
    comments := All2.mono (fun _ _ r => r.mono c8) q8
    defaultSampleType := q9.mono c9
    docURL := q10 }

/-- **`preEncode` never fails on a profile whose units are aligned, and its output encodes the
profile** (all indices resolve in the final string table). -/
theorem preEncode_spec (p : Profile) (ha : p.unitsAligned = true) : ∃ x, preEncode p = .ok x ∧ EncRel p x := by
  rw [preEncode_eq]
  apply preEncode'_spec
  unfold Profile.unitsAligned at ha
  rw [List.all_eq_true] at ha
  exact ha


/-! ### `postDecode` on an encoding -/

theorem mapM_ok_of_All2_id {α β} (post : β → Outcome α) {l : List α} {xs : List β}
    (h : All2 (fun a x => post x = .ok a) l xs) : xs.mapM post = .ok l := by
  have := mapM_ok_of_All2 post (fun a => a) h
  simpa using this

theorem All2.mono_mem {α β} {R S : α → β → Prop} :
    ∀ {l m}, All2 R l m → (∀ a ∈ l, ∀ b, R a b → S a b) → All2 S l m
  | _, _, .nil, _ => .nil
  | _, _, .cons hab hr, h => .cons (h _ (by simp) _ hab)
      (All2.mono_mem hr (fun a ha b => h a (List.mem_cons_of_mem _ ha) b))

/-- what `Profile.Valid` gives for id resolution -/
theorem valid_facts (p : Profile) (hv : p.Valid) :
    (∀ s ∈ p.samples, ∀ id ∈ s.locationIDs, id ∈ p.locations.map (·.id)) ∧
    (∀ l ∈ p.locations, (l.mappingID = 0 ∨ l.mappingID ∈ p.mappings.map (·.id)) ∧
      ∀ ln ∈ l.lines, ln.functionID ≠ 0 ∧ ln.functionID ∈ p.functions.map (·.id)) := by
  unfold Profile.Valid Profile.validB at hv
  simp only [Bool.and_eq_true, List.all_eq_true, List.any_eq_true, beq_iff_eq, bne_iff_ne, Bool.or_eq_true] at hv
  obtain ⟨⟨⟨⟨⟨_, hs⟩, _⟩, _⟩, _⟩, hl⟩ := hv
  constructor
  · intro s hs' id hid
    obtain ⟨_, l, hl', e⟩ := (hs s hs').2 id hid
    exact List.mem_map.mpr ⟨l, hl', e⟩
  · intro l hl'
    obtain ⟨hm, hf⟩ := hl l hl'
    constructor
    · rcases hm with h0 | ⟨m, hm', e⟩
      · exact Or.inl h0
      · exact Or.inr (List.mem_map.mpr ⟨m, hm', e⟩)
    · intro ln hln
      obtain ⟨h0, f, hf', e⟩ := hf ln hln
      exact ⟨h0, List.mem_map.mpr ⟨f, hf', e⟩⟩

theorem resolve_location (mids fids : List Nat) (l : Location)
    (hm : l.mappingID = 0 ∨ l.mappingID ∈ mids)
    (hf : ∀ ln ∈ l.lines, ln.functionID ≠ 0 ∧ ln.functionID ∈ fids) :
    ({ id := (preLocation l).id,
       mappingID := if mids.contains (preLocation l).mappingIDX then (preLocation l).mappingIDX else 0,
       address := (preLocation l).address, isFolded := (preLocation l).isFolded,
       lines := (preLocation l).line.map fun ln =>
         { functionID := if ln.functionIDX ≠ 0 ∧ fids.contains ln.functionIDX then ln.functionIDX else 0,
           line := ln.line, column := ln.column } } : Location) = l := by
  obtain ⟨lid, mid, addr, lines, folded⟩ := l
  simp only at hm hf
  simp only [preLocation, List.map_map, Location.mk.injEq, true_and, and_true]
  constructor
  · rcases hm with h0 | hin
    · subst h0; simp
    · simp [hin]
  · have : ∀ ln ∈ lines, (((fun (ln : LineX) => Line.mk
        (if ln.functionIDX ≠ 0 ∧ fids.contains ln.functionIDX = true then ln.functionIDX else 0) ln.line ln.column) ∘
        fun (ln : Line) => LineX.mk ln.functionID ln.line ln.column) ln) = id ln := by
      intro ln hln
      obtain ⟨h0, hin⟩ := hf ln hln
      obtain ⟨fid, li, co⟩ := ln
      simp only at h0 hin
      simp [h0, hin]
    calc _ = lines.map id := List.map_congr_left this
      _ = lines := List.map_id _

theorem resolve_sample_ids (lids : List Nat) (s : Sample) (h : ∀ id ∈ s.locationIDs, id ∈ lids) :
    ({ s with locationIDs := s.locationIDs.map fun id => if lids.contains id then id else 0 } : Sample) = s := by
  obtain ⟨ids, vs, a, b, c⟩ := s
  simp only at h
  simp only [Sample.mk.injEq, and_true]
  calc _ = ids.map id := List.map_congr_left (fun i hi => by simp [h i hi])
    _ = ids := List.map_id _

theorem normalize_locationIDs (s : Sample) : (Sample.normalize s).locationIDs = s.locationIDs := rfl

theorem postPT_of_PTRel {tab : StrTab} (hinv : TabInv tab) {o : Option ValueType} {ox : Option ValueTypeX}
    (h : PTRel tab o ox) : postValueType tab (ox.getD {}) = .ok (o.getD ⟨[], []⟩) := by
  cases o <;> cases ox <;> simp only [PTRel] at h
  · exact postValueType_of_VTRel (v := ⟨[], []⟩) ⟨Res.zero hinv, Res.zero hinv⟩
  · exact postValueType_of_VTRel h


/-- **`postDecode` of an encoding of a valid, key-sorted profile is the normalised profile.** -/
theorem postDecode_of_EncRel {p : Profile} {x : ProfileX} (h : EncRel p x) (hv : p.Valid)
    (hs : p.mapsSorted = true) : postDecode x = .ok (Profile.normalize p) := by
  obtain ⟨vs, vl⟩ := valid_facts p hv
  have hsorted : ∀ s ∈ p.samples, s.mapsSorted = true := by
    unfold Profile.mapsSorted at hs
    rw [List.all_eq_true] at hs
    exact hs
  have hms : x.mapping.mapM (postMapping x.stringTable) = .ok p.mappings :=
    mapM_ok_of_All2_id _ (All2.mono (fun _ _ r => postMapping_of_MapRel r) h.mapping)
  have hfs : x.function.mapM (postFunction x.stringTable) = .ok p.functions :=
    mapM_ok_of_All2_id _ (All2.mono (fun _ _ r => postFunction_of_FunRel r) h.function)
  have hsts : x.sampleType.mapM (postValueType x.stringTable) = .ok p.sampleType :=
    mapM_ok_of_All2_id _ (All2.mono (fun _ _ r => postValueType_of_VTRel r) h.sampleType)
  have hss : x.sample.mapM (postSample x.stringTable) = .ok (p.samples.map Sample.normalize) :=
    mapM_ok_of_All2 _ Sample.normalize
      (All2.mono_mem h.sample (fun s hs' sx r => postSample_of_SampRel h.inv r (hsorted s hs')))
  have hcs : x.commentX.mapM (getString x.stringTable) = .ok p.comments :=
    mapM_ok_of_All2_id _ (All2.mono (fun _ _ r => getString_of_Res r) h.comments)
  have hmids : x.mapping.map (·.id) = p.mappings.map (·.id) :=
    All2.map_eq (·.id) (·.id) (fun _ _ r => r.1) h.mapping
  have hfids : x.function.map (·.id) = p.functions.map (·.id) :=
    All2.map_eq (·.id) (·.id) (fun _ _ r => r.1) h.function
  have hlids : x.location.map (·.id) = p.locations.map (·.id) := by
    rw [h.location, List.map_map]; rfl
  unfold postDecode
  simp only [hms, hfs, hsts, hss, hcs, Outcome.bind_ok, getString_of_Res h.dropFrames,
    getString_of_Res h.keepFrames, getString_of_Res h.defaultSampleType, getString_of_Res h.docURL,
    postPT_of_PTRel h.inv h.periodType, hmids, hfids, hlids, h.timeNanos, h.durationNanos, h.period]
  have hlocs : (x.location.map fun l =>
      (Location.mk l.id (if (p.mappings.map (·.id)).contains l.mappingIDX then l.mappingIDX else 0) l.address
        (l.line.map fun ln => Line.mk
          (if ln.functionIDX ≠ 0 ∧ (p.functions.map (·.id)).contains ln.functionIDX then ln.functionIDX else 0)
          ln.line ln.column) l.isFolded)) = p.locations := by
    rw [h.location, List.map_map]
    calc _ = p.locations.map id := List.map_congr_left (fun l hl =>
            resolve_location _ _ l (vl l hl).1 (vl l hl).2)
      _ = p.locations := List.map_id _
  have hsamp : ((p.samples.map Sample.normalize).map fun s =>
      Sample.mk (s.locationIDs.map fun id => if (p.locations.map (·.id)).contains id then id else 0)
        s.values s.label s.numLabel s.numUnit) = p.samples.map Sample.normalize := by
    calc _ = (p.samples.map Sample.normalize).map id := List.map_congr_left (fun s hs' => by
            obtain ⟨s0, hs0, rfl⟩ := List.mem_map.mp hs'
            exact resolve_sample_ids _ (Sample.normalize s0) (vs s0 hs0))
      _ = _ := List.map_id _
  rw [hlocs, hsamp]
  rfl

end Codec
end PV
